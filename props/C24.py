PROP = dict(
    id="C24",
    engines=["c24"],
    go_tags=["c24"],
    extract_files={
        "MM/Gen/C24.lean": {"cmd": ["go", "run", "{VERIF}/tools/c24_extract.go", "internal/health/server"]},
        "MM/Gen/C24Tok.lean": {"cmd": ["go", "run", "{VERIF}/tools/c24_tokencache.go", "internal/health/server"]},
        "MM/Gen/LockC24.lean": {"cmd": ["go", "run", "{VERIF}/tools/lockshape.go", "LockC24", "{REPO}/internal/health/server.go",
                                          "Server.validateToken", "tokenCacheMu", "cachedTokenSHA,tokenCacheValid"]},
    },
    lean_modules=["MM.Props.C24"],
    theorems=[
        "MM.C24.C24_401",
        "MM.C24.C24_token_exact",
        "MM.C24.C24_401_exact",
        "MM.C24.C24_exempt_set",
        "MM.C24.C24_exempt_exact",
        "MM.C24.C24_cache_after_bcrypt",
        "MM.C24.C24_cache_locked",
        "MM.C24.C24_disabled_no_action",
        "MM.C24.C24_disabled_404",
        "MM.C24.C24_minimal_overrides",
        "MM.C24.C24_minimal_404",
        "MM.C24.exempt_table",
        "MM.C24.fact_disabled",
        "MM.C24.fact_nested",
        "MM.C24.fact_cover",
    ],
    spec=True,
    chunk=4000,
    rule="requests = (token configured or not) x all 8 endpoint-group flag combinations x method (incl. CONNECT) x path from a grammar over "
         "the registered routes and near misses with mutations (percent-encoding of any character incl. %2f %2e, doubled slashes, dot "
         "segments, trailing slash, case flips, exempt-prefix/../protected combinations, %00, ';x') x token presentation (Bearer header "
         "right/wrong/empty/lower-case/double-space/trailing-space, Basic, bare token, ?token= right/wrong/empty, both); each request is "
         "served by the real health.Server handler under httptest with recording providers and by the Lean model; observed: "
         "Request.Pattern (which registration ran, '-' = mux never reached), status class, provider calls; `reqh` ops: a request plus one of 9 extra header sets (CORS preflight, websocket upgrade, method / URL override, forwarding, look-alike credential headers, ...); "
         "always emitted: every protected path x every method (incl. OPTIONS, HEAD, CONNECT, TRACE) x header sets without / with a wrong token -> 401; `gate` ops: the handler of an agent built by agent.New from YAML parsed by config.Parse, for ALL 54 combinations of minimal x {unset,true,false}^3 of the group "
         "flags, GET on group and exempt paths (configuration -> ServerConfig wiring and the documented precedence 'minimal overrides the flags'); one `race` case: goroutines present the same "
         "wrong token simultaneously against a bcrypt cost-10 hash, every answer must be 401; non-trivial = the mux was reached",
    nontrivial=lambda op, out: not out.startswith("pat=- st=401"),
    trusted_base=[
        "net/http URL parsing and ServeMux (Go 1.22+ routing) are MODELLED for the pattern forms registered in NewServer (literal segments, exact or "
        "subtree, no method/host/wildcard — the extractor refuses anything else) and validated by the correspondence run only",
        "exempt set and mux registration table regenerated from internal/health/server.go by tools/c24_extract.go (go/ast) on every run; the "
        "extractor also checks that the mux is wrapped by requireAuth exactly when cfg.TokenHash != \"\"",
        "bcrypt + the SHA-256 token cache are one abstract predicate `valid` in C24_401; C24_token_exact / C24_401_exact instantiate it with validateToken = "
        "length/NUL guard + an ideal hash of bcrypt's key (first 72 bytes of the NUL-terminated password repeated cyclically); that stand-in is validated "
        "by T-diff against real bcrypt hashes with 14 / 71 / 72-byte tokens and presented strings of 71-5000 bytes with suffixes and NUL bytes; "
        "SHA-256 collision-freeness assumed for the cache fast path",
        "Request.Pattern (set by ServeMux.ServeHTTP since Go 1.23) identifies the registration that served a request",
    ],
    assumptions=[
        "what a reached, enabled handler does (method checks, its own status codes, which providers it calls) is outside the property and not modelled",
        "requests whose target net/http itself rejects before routing (invalid escapes, OPTIONS *) are not generated",
    ],
    manifest=dict(
        category="proof",
        text="Lean theorems over ALL escaped path spellings, methods, header/query token presentations and all 8 flag combinations: C24_401 (token "
             "configured, path not exempt, no valid token => 401 and the mux is never reached), C24_exempt_set (exempt set = documented five), "
             "C24_exempt_exact (an exempt decoded path reaches only the registration of an exempt path), C24_disabled_no_action / C24_disabled_404 "
             "(a disabled group's handlers never run; every path in the group's area answers 404 without provider calls). Exempt set and the mux "
             "registration table are regenerated from the source by go/ast; ServeMux is modelled and validated by a differential run of the real "
             "handler with recording providers",
        design_ref="DESIGN.md section 5 C24",
        note="Lean kernel; net/http ServeMux and URL parsing modelled, not verified (T-diff only); bcrypt abstract; generator coverage",
        technique="Lean 4 proof (structural lemmas on path cleaning/matching + decide over the regenerated table) + go/ast facts + differential correspondence harness",
    ),
)


TOKEN = b"s3cr3t-Token_1".hex()
PROTECTED = ["/agents", "/agents/", "/agents/abc", "/agents/abc/shell", "/agents/abc/file/upload", "/routes/advertise", "/routes/manage",
             "/forward/manage", "/display-name/manage", "/sleep", "/sleep/status", "/wake", "/api/topology", "/api/dashboard", "/api/nodes",
             "/api/mesh-test", "/debug/pprof/", "/debug/pprof/cmdline", "/debug/pprof/heap", "/nosuch", "/health/", "/healthz/x", "//health",
             "/%2fhealth", "/health%2f", "/HEALTH", "/logo.png/", "/ready%00"]
GROUPS = {0: ["/agents", "/agents/", "/agents/abc/shell", "/routes/advertise", "/routes/manage", "/forward/manage", "/display-name/manage",
              "/sleep", "/sleep/status", "/wake"],
          1: ["/api/topology", "/api/dashboard", "/api/nodes", "/api/mesh-test"],
          2: ["/debug/pprof/", "/debug/pprof/cmdline", "/debug/pprof/heap", "/debug/pprof/symbol"]}


def extra(c):
    """Direct probes of the statement on the real handler, independent of the Lean build (so that a source change that
    breaks a table theorem still yields a concrete failing request): protected endpoints without a token must be refused
    with 401 before the mux; documented endpoints of a disabled group must answer 404 without provider calls."""
    if not c.harness:
        return
    ops, want = [], []
    for p in PROTECTED:
        for auth, hasq, q in (("-", 0, "-"), (b"Bearer wrong".hex(), 0, "-"), (b"Bearer ".hex(), 1, TOKEN), ("-", 1, b"wrong".hex())):
            ops.append("req %s 111 GET %s %s %d %s" % (TOKEN, p.encode().hex(), auth, hasq, q))
            want.append(("pat=- st=401 calls=0",))
    for g, paths in GROUPS.items():
        for other in ("0", "1"):
            flags = "".join("0" if i == g else other for i in range(3))
            for p in paths:
                for m in ("GET", "POST"):
                    ops.append("req - %s %s %s - 0 -" % (flags, m, p.encode().hex()))
                    want.append(None)
    outs = c.go_run("c24", ops, timeout=120)
    for op, w, out in zip(ops, want, outs):
        ok = (out in w) if w is not None else (" st=404 calls=0" in out)
        if not ok:
            what = "request without a valid token was not refused with 401" if w is not None else "endpoint of a disabled group did not answer 404 / called a provider"
            c.violate(what, {"engine": "c24", "origin": "props/C24.py extra", "ops": [op], "impl_outputs": [out]}, True)
            return
    c.oblige("direct-probes-401-and-disabled-404", "tie", True, "%d requests" % len(ops))
    # concurrent presentations of the same wrong token (the token cache must never hold an unverified entry);
    # run harder when the ordering / locking tie of validateToken is broken, to give the violation a concrete outcome
    broken = any((not o["ok"]) and ("C24Tok" in o["name"] or "LockC24" in o["name"] or "cache" in o["name"]) for o in c.obligations) or not getattr(c, "lake_ok", True)
    race = ["race 12 8"] if broken else ["race 8 2"]
    out = c.go_run("c24", race, timeout=300)
    if out and out[0] != "race ok":
        c.violate("requests with an invalid token were served while another request with the same token was being verified",
                  {"engine": "c24", "origin": "props/C24.py extra", "ops": race, "impl_outputs": out}, True)
    else:
        c.oblige("concurrent-wrong-token-401", "tie", True, race[0])
