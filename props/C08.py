PROP = dict(
    id="C08",
    disabled=True,
    engines=["c08"],
    go_tags=["c08"],
    lean_modules=["MM.Props.C08"],
    theorems=[
        "MM.C08.C08_inv_step",
        "MM.C08.C08_inv_run",
        "MM.C08.C08_canon_same_network",
        "MM.C08.C08_lookup_correct",
        "MM.C08.C08_holds",
        "MM.C08.C08_lookup_none_iff",
        "MM.C08.C08_unrepaired_refuted",
    ],
    spec=True,
)
