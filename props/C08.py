PROP = dict(
    id="C08",
    engines=["c08"],
    go_tags=["c08"],
    extract_files={
        "MM/Gen/LockC08.lean": {"cmd": ["go", "run", "{VERIF}/tools/lockshape.go", "LockC08", "{REPO}/internal/routing/table.go", "Table.AddRoute,Table.RemoveRoute,Table.RemoveRoutesFromPeer,Table.CleanupStaleRoutes,Table.Clear,Table.Lookup,Table.LookupAll,Table.GetRoute,Table.HasRoute", "mu", "routes"]},
    },
    lean_modules=["MM.Props.C08"],
    theorems=[
        "MM.C08.C08_inv_step",
        "MM.C08.C08_inv_run",
        "MM.C08.C08_canon_same_network",
        "MM.C08.C08_lookup_correct",
        "MM.C08.WF_perm",
        "MM.C08.C08_any_map_order",
        "MM.C08.C08_holds",
        "MM.C08.C08_lookup_none_iff",
        "MM.C08.C08_unrepaired_refuted",
    ],
    spec=True,
    chunk=3000,
    rule="histories of add/update/remove/peer-disconnect/age/cleanup/clear on a real routing.Table over a per-case pool of 3-7 networks "
         "(IPv4, IPv4-mapped with 16-byte mask, mixed address/mask widths, IPv6, host bits set or not, nested /0../32 and /0../128, malformed "
         "lengths / nil masks) x origins x metrics {0,1,2,3,5,9,255..257,4095,4096,65534,65535} x sequences up to 2^64-1 x paths with/without the "
         "local agent, interleaved with Lookup / LookupAll / GetRoute / HasRoute / Size of addresses near the pool (4-byte, mapped, IPv6, malformed); "
         "plus long histories (600 ops), one key with 40-300 origins, tables with up to 900 prefixes, exact duplicates, and every history of length "
         "<=2 (quick) / <=3 (thorough) over 26 ops around one network in three spellings. Every op is run on the real table and on the Lean model "
         "(answers and full table dumps compared); `spec` re-evaluates the longest-prefix / lowest-metric statement on the implementation's own "
         "answer against the implementation's own dump. Non-trivial = a lookup that returned a route, or a mutation that was accepted.",
    nontrivial=lambda op, out: (op.startswith(("look", "get")) and out.startswith(("route", "routes E"))) or out.startswith(("true", "1 ", "2 ", "3 ", "4 ", "5 ")),
    trusted_base=[
        "tools/lockshape.go (go/ast): the lock-shape facts MM/Gen/Lock*.lean the atomic-step theorems are decided on; goroutine scheduling "
        "inside one critical section and sync.RWMutex itself are assumed, not modelled",
        "MM/Model/C08.lean: net.IPNet / net.IP modelled as (byte length, big-endian value, CIDRMask(ones,bits)); Contains / Mask / To4 / "
        "networkNumberAndMask modelled numerically (shift compare instead of byte-wise AND) - modelled, validated by T-diff, not verified",
        "net.IPNet.String() assumed one-to-one on (network number, mask) - the model uses that pair as the map key",
        "sort.Slice is not stable: the model keeps the stable order, both sides print every run of equal metric sorted by text and a lookup "
        "answer is `anyof` over the first run of the slice, so slices of more than 12 entries with ties (where Go's pdqsort differs from the "
        "stable order) are covered",
        "time: routes are aged through a verif accessor that shifts LastUpdate (harness/exports/internal__routing/c08.go); real time.Now() drift "
        "stays far below the half-hour rounding margin",
    ],
    assumptions=[
        "each table method is one atomic step: tied to the source by the *_atomic_steps theorems (one lock acquisition per method, route map "
        "touched only under the write lock in mutators, read under R/W in lookups) and exercised by the `race` stress op (goroutines released at "
        "once, up to 400 attempts per op, outcome must be a well-formed table equal to the result of some serial order)",
        "only contiguous masks (net.CIDRMask) are representable; hand-built non-contiguous net.IPMask values are outside the model",
        "the CIDR table is the one after fixes/C08-canonical-network.patch (C08_unrepaired_refuted shows the statement is false without it)",
        "an address that is neither 4 nor 16 bytes long (net.IP nil after To16) is 'contained' by malformed networks only, as net.IPNet.Contains "
        "defines it; the theorem covers that corner with this reading",
    ],
    manifest=dict(
        category="proof",
        text="Lean theorem C08_holds: for every history of table operations and every address, Table.Lookup returns a stored route that contains "
             "the address, with the longest prefix and, among those, the lowest metric, and returns nothing iff no stored route contains it - for "
             "every iteration order of the Go map (C08_any_map_order); invariant proved inductive for every op (C08_inv_step/run). Model tied to "
             "the code by a differential run of the real routing.Table against the compiled model.",
        design_ref="DESIGN.md section 5 C08",
        note="Lean kernel; numeric model of net.IPNet; String() injectivity; stable-sort model of sort.Slice; T-diff generator coverage",
        technique="Lean 4 proof (inductive invariant + fold argmax) + differential correspondence harness + executable statement on impl answers",
    ),
)


# --- atomic-step tie ---------------------------------------------------------------------------
# The lock-shape theorems live in their own Lean module and are built here, not in the main build:
# when they break (a critical section was split or an access moved out of it) the model and the
# driver still build, so the differential run and the failing-input search (concurrency stress op
# `race`) can still look for a concrete bad outcome.
LOCK_MODULE = "MM.Props.C08Lock"
LOCK_THEOREMS = ['MM.C08.C08_atomic_steps']


def before_diff(c):
    import vlib
    ok, out, failed = vlib.lake_build([LOCK_MODULE])
    if not ok:
        c.oblige("tie:atomic-steps(" + LOCK_MODULE + ")", "tie", False,
                 "a table method no longer is one critical section under the write lock (see MM/Gen/Lock*.lean):\n" + "\n".join(failed) + "\n" + out[-1500:])
        return
    res, text = vlib.audit_axioms([LOCK_MODULE], LOCK_THEOREMS)
    for t in LOCK_THEOREMS:
        ax = res.get(t)
        c.axioms[t] = ax
        c.oblige("thm:" + t, "thm", ax is not None and all(a in vlib.ALLOWED_AXIOMS for a in ax), "axioms: " + ", ".join(ax or ["<missing>"]))
    hits = vlib.grep_forbidden([vlib.module_file(m) for m in vlib.transitive_local_imports([LOCK_MODULE])])
    c.oblige("no-sorry-admit-native_decide-axiom(lock)", "audit", not hits, "\n".join(hits))
