import os, sys
sys.path.insert(0, os.path.join(os.path.dirname(os.path.abspath(__file__)), "..", "lib"))
import floodlib


def setup(c):
    # SendFullTable numbers the per-origin advertisements in Go map-iteration order: the Lean model
    # follows the order the implementation reports (any permutation of the model's origin set is
    # admissible, anything else is a disagreement). See lib/floodlib.py.
    floodlib.install_follow(c)


PROP = dict(
    id="C15",
    engines=['c15', 'c15w'],
    go_tags=['c11', 'c15'],
    gen_files={},
    lean_modules=["MM.Props.C15"],
    theorems=[
        "MM.C15.C15_holds",
        "MM.C15.C15_holds_mixed",
        "MM.C15.C15_beyond",
        "MM.C15.C15_at_limit",
        "MM.C15.C15_no_wrap",
    ],
    spec=True,
    rule="cases = random topology (chain/ring/star/clique/tree+extra edges, 2..5 agents, rarely 9..20; thorough up to 7) x random local routes (CIDR v4/v6, domain exact/wildcard, forward; base metrics 0..10 and 65534) x op schedule written while driving the real mesh: bring links up (with/without table replay, before or between deliveries), deliver/duplicate/lose a chosen queued frame, announce, withdraw, expire a cached key, replay a table, stale cleanup, lose a connection (disconnect); rare streams: an origin with 256..315 routes (announcements and replays span several advertisements), a reroute case (link behind the next hop disappears while an equally long alternative exists), and a `race` stress op (one announcement handed to a fresh agent by k goroutines at once); every case drains to quiescence and dumps the whole state. After every op both sides print the acting agent's counter, seen cache, all four tables (metric, sequence, path, last-update tick) and the touched queues (origin, sequence, path, seen-by, routes+metrics). Non-trivial = an op that handled a frame, replayed a table or changed a cache/table. Engine c15 uses hop limits 1..4 (rarely 5, 8, 16) on chains, rings and meshes longer than the limit; 40% of its cases give every agent its own limit (`reset n h0,h1,...`), and every script starts, for h = 1..4, with a chain whose far agents have limit h behind neighbours with limit 16 (they are handed the announcement and a table replay from h+1 hops) and with `inject h len` ops (a fresh real Flooder with max_hops = h is handed an advertisement with CIDR, domain, forward and presence routes whose path has h-1, h, h+1, h+2 agents). The spec judges ALL four tables of an agent against that agent's own limit, and every sent frame against the sender's limit. spec: no printed table entry has a path longer than the limit, no forwarded frame (seen-by longer than one) carries one. Engine c15w builds config.Default() with routing.max_hops = h, runs the real agent.New and reads the limit the agent's flooder ended up with (must be h), and checks config.Validate's 1..255 range",
    nontrivial=lambda op, out: out.startswith(("r=new", "r=seen", "r=drop", "r=ord:", "r=removed")),
    trusted_base=[
        'MM/Model/C11.lean models HandleRouteAdvertise / HandleRouteWithdraw / floodAdvertisementEncrypted / floodWithdrawal / floodFrame / AnnounceLocalRoutes / WithdrawLocalRoutes / SendFullTable / cleanupSeenCache (flood.go), Process*RouteAdvertise / AddLocal*Route / CleanupStale*Routes (manager.go) and the four AddRoute update rules; tied to the code by the differential run (N real Flooder+Manager pairs over a queueing PeerSender)',
        'harness/main/eng_c11.go delivers frames the way Agent.handleRouteAdvertise / handleRouteWithdraw do (DecodeRouteAdvertise / DecodeRouteWithdraw, then HandleRouteAdvertise / HandleRouteWithdraw with the decoded fields); Agent.handlePeerConnected -> SendFullTable is the `replay` op',
        'harness accessors (overlay, add-only): flood.C11ExpireSeen runs the production cleanupSeenCache on one aged entry; routing.C11Stamp rewrites LastUpdate of the entries touched by an op to a logical tick',
        "lib/floodlib.py + follow mode: where Go map iteration decides (the origin order and x[0] path choice of SendFullTable, which routes share an advertisement when there are more than 255) the model takes the outcome from the implementation's answer and checks that it is an admissible one (hintOK / groupingOK)",
    ],
    assumptions=[
        'time is a logical clock (one tick per op); seen-cache expiry is an op that may remove any key at any moment (over-approximates the TTL)',
        'u64 sequence numbers do not wrap; the one-byte path / seen-by counts never wrap (theorem C15_no_wrap, with fixes/C15-wire-count-replay.patch); advertisements are split into groups of at most 255 routes like splitRoutes does, its byte budget is never binding for the route encodings used (<= 24 bytes per route)',
        "per-key route lists have <= 12 entries (Go's sort.Slice is a stable insertion sort only up to 12 elements)",
        'peer disconnect IS modelled (`disconnect`: queued frames lost, RemoveRoutesFromPeer at both ends, as Agent.handlePeerDisconnect does); the C12 path theorems assume a stable topology (no disconnect in the history) as the property does. ROUTE_WITHDRAW (WithdrawLocalRoutes / HandleRouteWithdraw / floodWithdrawal) IS modelled: it shares the seen cache, the loop test and floodFrame with advertisements',
        'plain (non-sealed-box) configuration: paths travel as plaintext EncryptedData, display names ignored',
        'limits above 22 hops are not exercised end to end by the differential run (meshes of at most 22 agents); the theorem covers every limit',
    ],
    chunk=6000,
    search_seconds=45,
    manifest=dict(
        category="proof",
        text='Lean theorem C15_holds: with max_hops >= 1, in every reachable state no stored route has a path longer than the limit and no forwarded copy carries one; an agent beyond the limit neither stores nor forwards (C15_beyond), at the limit it stores without forwarding (C15_at_limit). The configuration -> flooder wiring is tied through the real agent.New (engine c15w)',
        design_ref='DESIGN.md section 5 C15',
        note="Lean kernel; flood LTS model tied by the differential run; logical clock; expiry as a free op; no disconnect",
        technique="Lean 4 proof (inductive invariants over a network LTS) + differential correspondence harness on N real Flooder/Manager pairs",
    ),
)
