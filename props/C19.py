import os, re


def before_diff(c):
    """Source facts the model relies on (how ManageRoute composes manager and handler)."""
    import vlib
    ag = open(os.path.join(vlib.REPO, "internal/agent/agent.go")).read()
    facts = [
        ("ManageRoute add = AddDynamicRoute then ensureExitHandler().AddAllowedRoute",
         re.search(r'case "add":.*?a\.routeMgr\.AddDynamicRoute\(ipNet, metric\); err != nil \{\s*return nil, err\s*\}\s*(verifhook\.At\([^)]*\)\s*)?a\.ensureExitHandler\(\)\.AddAllowedRoute\(ipNet\)', ag, re.S)),
        ("ManageRoute remove = RemoveDynamicRoute then exitHandler.RemoveAllowedRoute",
         re.search(r'case "remove":.*?a\.routeMgr\.RemoveDynamicRoute\(ipNet\); err != nil \{\s*return nil, err\s*\}\s*(verifhook\.At\([^)]*\)\s*)?if a\.exitHandler != nil \{\s*a\.exitHandler\.RemoveAllowedRoute\(ipNet\)', ag, re.S)),
        ("opens reach the exit handler only when one exists",
         re.search(r"if a\.exitHandler != nil \{\s*ctx := context\.Background\(\)[^}]*a\.exitHandler\.HandleStreamOpen\(", ag, re.S)),
        ("config routes become local routes of the manager whether or not the exit is enabled",
         re.search(r"for _, route := range a\.cfg\.Exit\.Routes \{\s*network := routing\.MustParseCIDR\(route\)\s*a\.routeMgr\.AddLocalRoute\(network, 0\)", ag)),
        ("peer-disconnect clean-up = the four routeMgr.HandlePeerDisconnect* calls the harness accessor replays",
         re.search(r"a\.cleanupRelaysForPeer\(peerID\)\s*(//[^\n]*\n\s*)*a\.routeMgr\.HandlePeerDisconnect\(peerID\)\s*a\.routeMgr\.HandlePeerDisconnectDomain\(peerID\)\s*a\.routeMgr\.HandlePeerDisconnectForward\(peerID\)\s*a\.routeMgr\.HandlePeerDisconnectAgent\(peerID\)", ag)),
    ]
    # the allow list and the dynamic-route maps are mutated from ManageRoute only
    import glob
    sites = {}
    for f in glob.glob(os.path.join(vlib.REPO, "internal", "**", "*.go"), recursive=True) + glob.glob(os.path.join(vlib.REPO, "cmd", "**", "*.go"), recursive=True):
        if f.endswith("_test.go") or "/zz_verif" in f:
            continue
        for m in re.finditer(r"\.(AddAllowedRoute|RemoveAllowedRoute|AddDynamicRoute|RemoveDynamicRoute)\(", open(f).read()):
            sites.setdefault(m.group(1), []).append(os.path.relpath(f, vlib.REPO))
    only = all(sites.get(k) == ["internal/agent/agent.go"] for k in ("AddAllowedRoute", "RemoveAllowedRoute", "AddDynamicRoute", "RemoveDynamicRoute"))
    facts.append(("AddAllowedRoute / RemoveAllowedRoute / AddDynamicRoute / RemoveDynamicRoute are each called from one place, in agent.go (ManageRoute)", only))
    for name, ok in facts:
        c.oblige("source-fact: " + name, "tie", bool(ok), "" if ok else "pattern not found in the current source")


PROP = dict(
    id="C19",
    engines=["c19"],
    go_tags=["c19"],
    gen_files={},
    extract_files={
        "MM/Gen/LockC19a.lean": {"cmd": ["go", "run", "{VERIF}/tools/lockshape.go", "LockC19a", "{REPO}/internal/agent/agent.go", "Agent.ManageRoute", "routeManageMu", "routeMgr,exitHandler"]},
        "MM/Gen/LockC19h.lean": {"cmd": ["go", "run", "{VERIF}/tools/lockshape.go", "LockC19h", "{REPO}/internal/exit/handler.go", "Handler.AddAllowedRoute,Handler.RemoveAllowedRoute,Handler.isAllowed,Handler.AllowedRouteCount", "routesMu", "cfg"]},
        "MM/Gen/LockC19m.lean": {"cmd": ["go", "run", "{VERIF}/tools/lockshape.go", "LockC19m", "{REPO}/internal/routing/manager.go", "Manager.AddDynamicRoute,Manager.RemoveDynamicRoute,Manager.GetDynamicRoutes,Manager.AddLocalRoute", "mu", "dynamicRoutes,localRoutes"]},
    },
    lean_modules=["MM.Props.C19"],
    theorems=[
        "MM.C19.contains_key",
        "MM.C19.C19_allow_list_mirrors",
        "MM.C19.C19_dial_permitted",
        "MM.C19.C19_empty_denies",
        "MM.C19.C19_removed_is_gone",
        "MM.C19.add_is_two_steps",
        "MM.C19.remove_is_two_steps",
        "MM.C19.C19_unserialized_refuted",
        "MM.C19.C19_manage_route_atomic",
        "MM.C19.C19_steps_atomic",
    ],
    spec=True,
    timeout=1800,
    rule="case = a real Agent (agent.New) with generated exit config (enabled?, 0-3 networks, 0-3 domain patterns) + a history of 4-14 (10%: 40-80) ops over a 3-network working set: "
         "ManageRoute add (metrics 0,1,5,7,65535; re-adds/updates frequent)/remove, opens (IPv4, IPv6, IPv4-mapped literals; names resolved through the handler's cache) dialled for real to loopback listeners, "
         "state dumps (dynamic routes + allow list); multi-address names resolved FOR REAL through a DNS server of the harness (exit.dns.servers): answer sets {permitted only, unpermitted only, "
         "permitted-but-refusing first + unpermitted-but-listening later, both orders, A+AAAA mixes, empty}, opened on a port where every loopback address listens and on one where only unpermitted addresses listen; "
         "the spec judges the address ACTUALLY connected to (reported by the listeners); concurrency: `sched` = two ManageRoute calls on one network in a fixed schedule (one held at the verif scheduling point between its two steps while the opposite call runs) "
         "and `race` = 2-4 goroutines x 20-60 (add; remove) of the same network; between ManageRoute calls the routing table is perturbed the way mesh traffic can: ROUTE_WITHDRAW / ROUTE_ADVERTISE frames from peers through Agent.processFrame "
         "(naming this agent or a peer as origin), peer-disconnect clean-up, stale expiry; every add/remove answer carries the manager's own dynamic-route list and the spec judges dials and the allow list against THAT list whatever the API answered; networks: nested/overlapping 127/8 nets, non-canonical host bits, IPv4-mapped spellings incl. ::ffff:0:0/96, ::1/128, ::/0, off-host nets; "
         "non-trivial = a dial happened, a route op succeeded/was refused, or a state dump",
    nontrivial=lambda op, out: not op.startswith("reset") and out != "denied",
    trusted_base=[
        "MM/Model/C19.lean models net.IPNet.Contains byte for byte and IPNet.String() by the normal form it is a function of (T-diff compares keys and containment on IPv4/IPv6/IPv4-mapped networks)",
        "ASCII model of strings.ToLower / strings.TrimSpace for domain patterns (generated names and patterns are ASCII)",
        "four source facts about Agent.ManageRoute / handleStreamOpen / initComponents checked by regular expression on every run",
        "DNS resolution is the resolver's answer (parameter of the model: the first IPv4 record, else the first record); T-diff injects answers through the handler's own cache (op n:) and through real lookups against the harness's DNS server (op m:)",
    ],
    assumptions=[
        "concurrent ManageRoute calls are serialized by Agent.routeManageMu (fixes/C19-serialize-manage-route.patch; lock shape regenerated by tools/lockshape.go and decided in C19_manage_route_atomic / C19_steps_atomic), so a concurrent history is a sequence of the atomic add/remove of the model; goroutine scheduling inside a critical section and sync.Mutex itself are trusted",
        "an open that runs between the two steps of a concurrent remove still sees the network (the remove takes effect for opens when its allow-list step is done)",
        "non-ASCII domain names/patterns (Unicode case mapping of strings.ToLower) are outside the model",
    ],
    manifest=dict(
        category="proof",
        text="Lean theorems: after ANY sequence of ManageRoute add/update/remove the exit handler's allow list is, key for key, config networks ++ present dynamic routes (C19_allow_list_mirrors); "
             "a dial implies the address lies in a config network or a present dynamic route or the name matches an allowed pattern (C19_dial_permitted); nothing configured => nothing dialled (C19_empty_denies); "
             "model of the FIXED code tied by a differential run of a real Agent with real loopback dials",
        design_ref="DESIGN.md section 5 C19",
        note="Lean kernel; model of IPNet.Contains/String; ASCII domains; sequential operations; T-diff generator coverage",
        technique="Lean 4 proof (invariant over operation sequences) + differential correspondence harness",
    ),
)
