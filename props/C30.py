PROP = dict(
    id="C30",
    engines=["c30"],
    go_tags=["c30"],
    gen_files={},
    extract_files={"MM/Gen/LockC30.lean": {"cmd": ["go", "run", "{VERIF}/tools/lockshape.go", "LockC30",
        "{REPO}/internal/sleep/sleep.go", "Manager.Sleep,Manager.Wake,Manager.Poll", "stateMu", "state"]}},
    lean_modules=["MM.Props.C30"],
    theorems=[
        "MM.C30.C30_tie_sections",
        "MM.C30.C30_tie_state_under_lock",
        "MM.C30.C30_tie_persist_under_lock",
        "MM.C30.C30_edges",
        "MM.C30.C30_refusals",
        "MM.C30.C30_persist_quiescent",
        "MM.C30.C30_restart_resumes",
        "MM.C30.C30_poll_never_sleeps_awake_agent",
        "MM.C30.C30_refuted",
        "MM.C30.C30_witness_reconnect",
        "MM.C30.C30_witness_pollend",
        "MM.C30.C30_partial",
        "MM.C30.C30_dopoll_refuted",
        "MM.C30.C30_dopoll_partial",
        "MM.C30.C30_dopoll_wake_command_ends_wait",
    ],
    spec=True,
    chunk=6000,
    rule="case = a fresh real sleep.Manager (PersistState on, real state file) driven one stateMu critical section at a time: EVERY schedule "
         "of enabled steps {Sleep, Wake, Poll-begin, OnPoll-invoke, OnPoll-return, Poll-end} x 2 concurrent Poll() invocations up to depth 9 "
         "(quick) / 12 (thorough) is forced on the implementation (Poll goroutines parked at the verif scheduling point after the first unlock "
         "and inside the OnPoll callback), with process restarts (a new Manager on the same data directory + LoadState + the start-up Sleep() of "
         "Agent.Start, with and without a graceful Stop() first) at the quiescent points, plus five fixed restart sequences, plus random schedules of 8-37 steps with 1-3 Poll() invocations including disabled labels and "
         "refused calls; agent level: the real Agent.doPoll parked at the scheduling point between its state check and DisconnectAll(), every "
         "schedule of {Sleep, Wake, doPoll-start, doPoll-release} of length 4 and random longer ones incl. WAKE_COMMAND frames through the "
         "dispatcher, with a short poll duration (doPoll times out at once) and a long one (doPoll sits in its wait until signalled); "
         "concurrency stress rounds; observed per step: returned error, callbacks run, in-memory state, persisted state file; non-trivial = a step that ran "
         "(not `disabled`)",
    nontrivial=lambda op, out: not out.startswith(("disabled", "ok st=AWAKE file=NONE ev=-")) and not op.startswith("reset"),
    trusted_base=[
        "mutual exclusion of sync.Mutex is assumed; that the model's atomic steps ARE the code's critical sections is tied by regenerated "
        "lock-shape facts (tools/lockshape.go -> MM/Gen/LockC30.lean: Sleep and Wake acquire stateMu once, Poll twice; every read and write of "
        "`state` and every persistState call in them happens with stateMu held) and by a concurrency stress op (callbacks must alternate)",
        "scheduling point sleep.Poll.after-first-unlock (fixes/hook-sleep-poll.patch, build tag verif) and gated callbacks force the schedule; "
        "the wait between OnPoll's return and the second section is forced too when the tree has the scheduling point "
        "sleep.Poll.before-second-lock (fixes/hook-sleep-poll-wait.patch; probed at run time) - without it that step, which has no effect on the "
        "manager, is merged with the second section",
        "callbacks are assumed to return nil; the poll timer is replaced by explicit Poll() calls (PollInterval 1 h)",
    ],
    assumptions=[
        "callback errors and persistState write errors are not modelled",
        "a restart is taken only at quiescent points (a crash in the middle of a Poll() cannot be reproduced in-process); crash consistency "
        "of the state file itself is C34's subject",
        "agent level: doPoll is modelled as wait (ended by a WAKE_COMMAND's signalWake, not by a bare Wake()) / state check / DisconnectAll; "
        "its listener and reconnect handling (sockets) is not modelled",
    ],
    manifest=dict(
        category="proof",
        text="Lean theorems over an LTS of sleep.Manager (atomic steps = stateMu sections, any number of concurrent Poll() invocations, every "
             "interleaving): C30_edges, C30_refusals, C30_persist_quiescent (reachability invariant), C30_poll_never_sleeps_awake_agent; the "
             "'no stale poll activity after a completed wake' clause is REFUTED on the code (C30_refuted + two witness schedules, replayed on "
             "the real Manager: open findings) and proved while no wake overtakes an in-flight poll (C30_partial); model tied to the code by "
             "forcing every schedule up to depth 9/12 on the real Manager",
        design_ref="DESIGN.md section 5 C30",
        note="Lean kernel; mutex atomicity trusted; one verif scheduling hook in Manager.Poll; callbacks succeed; timer replaced by explicit Poll()",
        technique="Lean 4 proof (LTS invariants) + machine-checked refutation + exhaustive small-scope schedule forcing on the real code",
    ),
)


def extra(c):
    """Concurrency stress on the real Manager (needs no Lean build, so it also runs when a lock-shape tie theorem broke):
    goroutines hammer Sleep/Wake/Poll; OnSleep/OnWake must alternate and the state file must match at the end."""
    if not c.harness:
        return
    ops = []
    for k in range(6 if c.tier == "quick" else 30):
        ops += ["reset 1", "stress 8 400 %d" % (c.seed * 100 + k)]
    out = c.go_run("c30", ops, timeout=300)
    bad = [i for i, o in enumerate(out) if ops[i].startswith("stress") and o != "stress-ok"]
    c.oblige("stress:sleep-wake-poll-critical-sections", "tie", not bad, out[bad[0]] if bad else "%d stress rounds" % (len(ops) // 2))
    if bad:
        i = bad[0]
        c.violate("concurrent Sleep/Wake/Poll calls break the sleep state machine: " + out[i],
                  {"engine": "c30", "origin": "stress", "ops": ops[i - 1:i + 1], "impl_outputs": out[i - 1:i + 1]}, True)
