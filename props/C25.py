PROP = dict(
    id="C25",
    engines=["c25"],
    go_tags=["c25"],
    gen_files={"MM/Gen/C25.lean": "c25"},
    extract_files={"MM/Gen/LockC25.lean": {"cmd": ["go", "run", "{VERIF}/tools/lockshape.go", "LockC25", "{REPO}/internal/shell/executor.go",
                                             "Executor.AcquireSession,Executor.ReleaseSession,Executor.validateAndAcquire", "mu", "sessions"]}},
    lean_modules=["MM.Props.C25"],
    theorems=[
        "MM.C25.C25_start_implies",
        "MM.C25.C25_runs_validated",
        "MM.C25.C25_exec_surface",
        "MM.C25.C25_bad_hash_admits_nothing",
        "MM.C25.C25_reject_keeps_counter",
        "MM.C25.C25_empty_whitelist",
        "MM.C25.C25_class_exact",
        "MM.C25.C25_sessions_le_max",
        "MM.C25.C25_counter_atomic",
    ],
    spec=True,
    rule="cases = configuration (enabled, whitelist empty / names / wildcard / non-base-name entries, bcrypt password or none, "
         "MaxSessions in {-1,0,1,2,3}) x requests (whitelisted names and near misses: path prefixes, case, blanks, NUL, backslash; "
         "arguments with each member of the regenerated metacharacter class at every position, every byte value, absolute paths, "
         "invalid UTF-8; right/wrong/empty passwords) run through validateAndAcquire (accessor), the real NewSession+Start and "
         "NewPTYSession, ReleaseSession; fixed scripts (independent of the seed): live sessions (started `sleep`) interleaved with starts that FAIL after admission on both paths "
         "(NewSession+Start and NewPTYSession: nonexistent whitelisted binary, nonexistent work_dir) for max_sessions 3 / 2 / unlimited, with counter == number of live "
         "sessions checked after every op; 14 malformed or foreign password hashes (too short, plain text, $1$, cost 99, bad salt characters, truncated, extended, "
         "hash of another password) x 6 presented passwords; argv / argvp ops read back exec.Cmd.Args of the session built by the real NewSession / NewPTYSession "
         "(arguments padded with blanks, CR/LF, tabs, NUL, NBSP, quotes around absolute paths and metacharacters) and compare it with the "
         "validated vector; plus concurrent acquire/release stress on a real Executor; non-trivial = request got past "
         "the enabled and password checks (whitelist / argument filter / counter actually consulted)",
    nontrivial=lambda op, out: op.startswith("stress") or (op.split(" ")[0] in ("admit", "session", "pty", "argv", "argvp", "exec", "execp", "open", "close", "fails", "failp") and not out.startswith(("err disabled", "err authreq", "err badcreds"))),
    trusted_base=[
        "bcrypt is an abstract predicate pwOK(hash, password) in the theorems; T-diff instantiates it with real bcrypt hashes on the Go side and equality on the model side",
        "regexp.MatchString on a single ASCII character class = 'some byte of the string is in the class' (facts stage refuses any other pattern shape)",
        "filepath.IsAbs modelled for unix (leading '/')",
        "sync.Mutex gives mutual exclusion: AcquireSession / ReleaseSession bodies are atomic steps of the LTS",
        "process start happens only after validateAndAcquire returned nil (NewSession / NewPTYSession first statement; read, exercised by session/pty ops)",
    ],
    assumptions=[
        "NOT covered by the property statement and therefore only recorded (C25_exec_surface, exec/execp ops): the request's work_dir and env pairs reach exec.Cmd.Dir / "
        "exec.Cmd.Env unvalidated (after the agent's own environment, so LD_PRELOAD / BASH_ENV / PATH of the request win); TTY.Term likewise",
        "a release step is taken only by a session that holds a slot (handler.go releaseSession guarded by ss.Released; error paths release once before publishing the session)",
        "the counter does not overflow a Go int",
    ],
    manifest=dict(
        category="proof",
        text="Lean theorems C25_start_implies (admission => enabled, password ok, whitelist/base-name/argument clauses unless wildcard, counter below "
             "the limit) for ALL requests and configurations, and C25_sessions_le_max for every interleaving of the acquire/release critical "
             "sections; metacharacter class regenerated from the compiled regexp and proved equal to the documented set; model tied to the code "
             "by a differential run of validateAndAcquire / NewSession / NewPTYSession and a concurrent stress run",
        design_ref="DESIGN.md section 5 C25",
        note="Lean kernel; bcrypt abstract; mutex atomicity assumed; T-diff generator coverage",
        technique="Lean 4 proof (case analysis + LTS invariant) + regenerated facts + differential correspondence harness",
    ),
)


METACHARS = ";&|$`(){}[]<>\\!*?~"


def extra(c):
    """If the argument filter lost a documented metacharacter, the class theorem fails to build (and with it the
    Lean driver); find the failing input directly on the real code: a whitelisted command with that character."""
    if not c.harness:
        return
    ops = ["reset 1 0 - 1 6c73"] + ["admit - 6c73 61%02x62" % ord(ch) for ch in METACHARS]
    outs = c.go_run("c25", ops, timeout=60)
    for op, out in zip(ops[1:], outs[1:]):
        if out.startswith("ok"):
            c.violate("argument with a documented shell metacharacter is admitted under a non-wildcard whitelist",
                      {"engine": "c25", "origin": "props/C25.py extra", "ops": [ops[0], op], "impl_outputs": ["ok", out]}, True)
            return
    c.oblige("documented-metacharacters-rejected-by-real-code", "tie", True, "%d characters" % len(METACHARS))
    # concurrent authenticated admissions: the limit must hold (gives the violation a concrete outcome when
    # the atomic-step tie C25_counter_atomic is broken)
    broken = any(not o["ok"] for o in c.obligations)
    ops = ["reset 1 0 - 0"] + (["stressv 1 24", "stressv 2 24", "stressv 1 12"] if broken else ["stressv 1 12"])
    outs = c.go_run("c25", ops, timeout=300)
    for op, out in zip(ops[1:], outs[1:]):
        if out != "stress ok":
            c.violate("concurrent authenticated requests were admitted beyond max_sessions",
                      {"engine": "c25", "origin": "props/C25.py extra", "ops": [ops[0], op], "impl_outputs": ["ok", out]}, True)
            return
