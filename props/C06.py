PROP = dict(
    id="C06",
    engines=["c06"],
    go_tags=["c06"],
    lean_modules=["MM.Props.C06"],
    theorems=[
        "MM.C06.C06_advertise_intact",
        "MM.C06.C06_announce_intact",
        "MM.C06.C06_replay_intact",
        "MM.C06.C06_groups_fit",
        "MM.C06.single_advertisement_lt_256",
        "MM.C06.C06_single_advertisement_refuted",
        "MM.C06.C06_forward_intact",
    ],
    spec=True,
    chunk=200,
    timeout=600,
    rule="ops announce/replay/forward run the REAL flood.Flooder + routing.Manager of agent A (AnnounceLocalRoutes, SendFullTable after learning groups "
         "from remote origins, HandleRouteAdvertise->floodAdvertisementEncrypted) against a capturing PeerSender that does what a peer connection does "
         "(Frame.Encode, bytes, protocol.Decode), then a second real Flooder+Manager (neighbour B) handles every surviving frame and its four tables are dumped; "
         "route counts per family drawn from {0,1,2,254,255,256,257,300,511,512,1000} and mixtures, long domain/forward names that cross the 16 KiB payload "
         "limit with < 255 routes, forwarded advertisements padded to 16351..16384 bytes, paths up to 254 hops; the Lean model (split + C05 encode/decode + "
         "classification) must give the same table dump, and spec recomputes the expected dump from the op alone; non-trivial = the neighbour learned something",
    nontrivial=lambda op, out: out.startswith("ok ") and not out.rstrip().endswith("learned"),
    trusted_base=[
        "MM/Model/C06.lean: splitRoutes loop, advertiseBudget, path/seen-by extension on forward, Frame.Encode refusal and the classification switch of HandleRouteAdvertise (modelled; tied by T-diff)",
        "net.IPNet/ParseCIDR, routing tables' AddRoute (keys, dedup) are exercised as real code but not modelled: generated routes are distinct and canonical",
        "map iteration order of the Go route sets is arbitrary: the compared observable is the SET of routes in the neighbour's tables",
    ],
    assumptions=[
        "entries are well-formed (entryWF): IPv4/IPv6 prefix of the right size, domain pattern 1..255 bytes, forward key 1..255 and target <= 255 bytes, metric < 65536",
        "display name <= 255 bytes; path and seen-by lists <= 255 ids (baseWF); sequence counter below 2^64",
        "forwarding: theorem C06_forward_intact needs the forwarded payload <= 16384 bytes (open finding C06-forward-oversize-dropped otherwise) and < 255 ids in path / seen-by",
        "each chunk of a split announcement carries its own sequence number; receivers add routes per advertisement (routing.Manager.Process*Advertise), so the union is what they hold",
    ],
    manifest=dict(
        category="proof",
        text="Lean theorems C06_announce_intact / C06_replay_intact: for ANY number of well-formed CIDR, domain and forward routes the frames emitted by the (fixed) "
             "sender are all deliverable and the neighbour's decode+classification yields exactly the originated list; C06_forward_intact under the fits-a-frame "
             "hypothesis; C06_single_advertisement_refuted for the pinned one-advertisement sender; model tied to the real Flooder/Manager pair by a differential run",
        design_ref="DESIGN.md section 5 C06",
        note="Lean kernel; model of splitRoutes/advertiseBudget/HandleRouteAdvertise switch; T-diff generator coverage; routing tables and net.IPNet exercised not modelled",
        technique="Lean 4 proof (codec combinators + loop invariant of the splitter) + differential correspondence harness on real Flooder and routing.Manager",
    ),
)
