PROP = dict(
    id="C06",
    engines=["c06"],
    go_tags=["c06"],
    extract_files={"MM/Gen/C06.lean": {"cmd": ["go", "run", "{VERIF}/tools/c06_extract.go"]}},
    lean_modules=["MM.Props.C06"],
    theorems=[
        "MM.C06.C06_constants_tie",
        "MM.C06.C06_advertise_intact",
        "MM.C06.C06_announce_intact",
        "MM.C06.C06_replay_intact",
        "MM.C06.C06_groups_fit",
        "MM.C06.single_advertisement_lt_256",
        "MM.C06.C06_single_advertisement_refuted",
        "MM.C06.C06_withdraw_intact",
        "MM.C06.single_withdraw_lt_256",
        "MM.C06.C06_single_withdraw_refuted",
        "MM.C06.C06_forward_intact",
    ],
    spec=True,
    chunk=200,
    timeout=600,
    rule="ops announce/replay/withdraw/forward run the REAL flood.Flooder + routing.Manager of agent A (AnnounceLocalRoutes, SendFullTable after learning groups "
         "from remote origins, HandleRouteAdvertise->floodAdvertisementEncrypted; withdraw = announce, let B learn, then WithdrawLocalRoutes and B.HandleRouteWithdraw, with up to 3000 local routes) against a capturing PeerSender that does what a peer connection does "
         "(Frame.Encode, bytes, protocol.Decode), then a second real Flooder+Manager (neighbour B) handles every surviving frame and its four tables are dumped; "
         "route counts per family drawn from {0,1,2,254,255,256,257,300,511,512,1000} and mixtures, long domain/forward names that cross the 16 KiB payload "
         "limit with < 255 routes, forwarded advertisements padded to 16351..16384 bytes, paths up to 254 hops; the Lean model (split + C05 encode/decode + "
         "classification) must give the same table dump, and spec recomputes the expected dump from the op alone; non-trivial = the neighbour learned something",
    nontrivial=lambda op, out: out.startswith("ok ") and not out.rstrip().endswith("learned"),
    trusted_base=[
        "MM/Model/C06.lean: splitRoutes loop, advertiseBudget, path/seen-by extension on forward, Frame.Encode refusal and the classification switch of HandleRouteAdvertise (modelled; tied by T-diff)",
        "net.IPNet/ParseCIDR, routing tables' AddRoute (keys, dedup) are exercised as real code but not modelled: generated routes are distinct and canonical",
        "tools/c06_extract.go (go/parser): maxRoutesPerAdvertise, advertiseHeadroom, the shape of advertiseBudget and of the splitRoutes test, and that both senders range over splitRoutes, regenerated on every run (MM/Gen/C06.lean, theorem C06_constants_tie)",
        "map iteration order of the Go route sets is arbitrary: the compared observable is the SET of routes in the neighbour's tables",
    ],
    assumptions=[
        "entries are well-formed (entryWF): IPv4/IPv6 prefix of the right size, domain pattern 1..255 bytes, forward key 1..255 and target <= 255 bytes, metric < 65536",
        "display name <= 255 bytes; path and seen-by lists <= 255 ids (baseWF); sequence counter below 2^64",
        "forwarding: theorem C06_forward_intact needs the forwarded payload <= 16384 bytes (open finding C06-forward-oversize-dropped otherwise) and < 255 ids in path / seen-by",
        "each chunk of a split announcement carries its own sequence number; receivers add routes per advertisement (routing.Manager.Process*Advertise), so the union is what they hold",
    ],
    manifest=dict(
        category="proof",
        text="Lean theorems C06_announce_intact / C06_replay_intact: for ANY number of well-formed CIDR, domain and forward routes the frames emitted by the (fixed) "
             "sender are all deliverable and the neighbour's decode+classification yields exactly the originated list; C06_forward_intact under the fits-a-frame "
             "hypothesis; C06_single_advertisement_refuted for the pinned one-advertisement sender; model tied to the real Flooder/Manager pair by a differential run",
        design_ref="DESIGN.md section 5 C06",
        note="Lean kernel; model of splitRoutes/advertiseBudget/HandleRouteAdvertise switch; T-diff generator coverage; routing tables and net.IPNet exercised not modelled",
        technique="Lean 4 proof (codec combinators + loop invariant of the splitter) + differential correspondence harness on real Flooder and routing.Manager",
    ),
)


def before_diff(c):
    """When the source no longer has the shape the theorems are about (extractor fails, MM.Props.C06 does not build), the
    model and its driver are still fine: build the driver alone so that the differential run and the failing-input search go
    ahead and the replay carries a concrete route set that is not learned intact."""
    import os, shutil, sys
    vlib = sys.modules["vlib"]
    if getattr(c, "lake_ok", True) or "c06" in c.drivers or not c.harness:
        return
    ok, out, _failed = vlib.lake_build(["drv_c06"])
    src = os.path.join(vlib.LEAN, ".lake", "build", "bin", "drv_c06")
    if ok and os.path.exists(src):
        dst = os.path.join(c.tmp, "drv_c06")
        shutil.copy2(src, dst)
        c.drivers["c06"] = dst
    else:
        c.oblige("lean:drv_c06-standalone", "thm", False, out[-1500:])
