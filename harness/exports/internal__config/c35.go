//go:build verif && (all || c35)

package config

// C35RedactedValue exposes the placeholder constant to the /verif harness.
const C35RedactedValue = redactedValue
