//go:build verif && (all || c37)

package config

// C37ExpandEnvVars exposes the unexported expandEnvVars to the /verif harness.
func C37ExpandEnvVars(s string) string { return expandEnvVars(s) }
