//go:build verif && (all || c37)

package config

// C37ExpandEnvVars exposes the unexported expandEnvVars to the /verif harness.
func C37ExpandEnvVars(s string) string { return expandEnvVars(s) }

// C37EnvVarPattern exposes the source text of the compiled pattern expandEnvVars uses.
func C37EnvVarPattern() string { return envVarRegex.String() }
