//go:build verif && (all || c21)

package socks5

import "net/http"

// Accessors for the C21 correspondence harness (added to the build through -overlay only).

// VerifC21Handler returns the handler NewServer built.
func (s *Server) VerifC21Handler() *Handler { return s.handler }

// VerifC21WSUpgrade runs the real WebSocketListener.handleWebSocket on one request.
func VerifC21WSUpgrade(creds CredentialStore, h *Handler, w http.ResponseWriter, r *http.Request) error {
	l, err := NewWebSocketListener(WebSocketConfig{Address: "127.0.0.1:0", PlainText: true, Credentials: creds}, h)
	if err != nil {
		return err
	}
	l.handleWebSocket(w, r)
	return nil
}
