//go:build verif && (all || c07)

package exit

import (
	"net"
	"time"

	"github.com/postalsys/muti-metroo/internal/crypto"
	"github.com/postalsys/muti-metroo/internal/identity"
)

// C07ReadLoop runs the real exit return-path loop (destination -> mesh) synchronously on `conn`.
func C07ReadLoop(h *Handler, remote identity.AgentID, streamID uint64, conn net.Conn, key *crypto.SessionKey) {
	ac := &ActiveConnection{StreamID: streamID, RemoteID: remote, Conn: conn, StartedAt: time.Now(), sessionKey: key}
	h.mu.Lock()
	h.connections[streamID] = ac
	h.mu.Unlock()
	h.connCount.Add(1)
	h.readLoop(ac)
}

// C07Register registers an open connection whose destination is `conn` (far end of the TCP path:
// the real HandleStreamData opens each frame and writes the bytes to the destination).
func C07Register(h *Handler, remote identity.AgentID, streamID uint64, conn net.Conn, key *crypto.SessionKey) {
	ac := &ActiveConnection{StreamID: streamID, RemoteID: remote, Conn: conn, StartedAt: time.Now(), sessionKey: key}
	h.mu.Lock()
	h.connections[streamID] = ac
	h.mu.Unlock()
	h.connCount.Add(1)
}
