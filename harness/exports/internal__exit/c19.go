//go:build verif && (all || c19)

package exit

import (
	"net"
	"time"
)

// Accessors for the C19 correspondence harness (added to the build through -overlay only).

// VerifC19Allowed returns a copy of the handler's current allow list.
func (h *Handler) VerifC19Allowed() []*net.IPNet {
	h.routesMu.RLock()
	defer h.routesMu.RUnlock()
	return append([]*net.IPNet{}, h.cfg.AllowedRoutes...)
}

// VerifC19Resolve makes the handler's resolver answer `ip` for `name` (its ordinary cache).
func (h *Handler) VerifC19Resolve(name string, ip net.IP) { h.resolver.setCache(name, ip, time.Hour) }

// VerifC19Forget drops a cached answer.
func (h *Handler) VerifC19Forget(name string) {
	h.resolver.mu.Lock()
	delete(h.resolver.cache, name)
	h.resolver.mu.Unlock()
}
