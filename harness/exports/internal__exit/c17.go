//go:build verif && (all || c16 || c17)

package exit

import "sort"

// C17Record returns the connection record stored under the stream id (nil if none).
func C17Record(h *Handler, id uint64) *ActiveConnection {
	h.mu.RLock()
	defer h.mu.RUnlock()
	return h.connections[id]
}

// C17Keys returns the keys of the connection map, sorted.
func C17Keys(h *Handler) []uint64 {
	h.mu.RLock()
	defer h.mu.RUnlock()
	out := make([]uint64, 0, len(h.connections))
	for k := range h.connections {
		out = append(out, k)
	}
	sort.Slice(out, func(i, j int) bool { return out[i] < out[j] })
	return out
}
