//go:build verif && (all || c11)

package routing

import "time"

// C11Stamp rewrites LastUpdate := stamp on every entry of the four tables whose LastUpdate is
// not before `since` (i.e. the entries added or refreshed by the operation that started at
// `since`). The harness uses it to turn wall-clock LastUpdate values into a logical clock so
// that "refreshed by this op" and CleanupStale*Routes(maxAge) are deterministic.
func C11Stamp(m *Manager, since, stamp time.Time) int {
	n := 0
	t := m.table
	t.mu.Lock()
	for _, rs := range t.routes {
		for _, r := range rs {
			if !r.LastUpdate.Before(since) {
				r.LastUpdate = stamp
				n++
			}
		}
	}
	t.mu.Unlock()
	d := m.domainTable
	d.mu.Lock()
	for _, mp := range d.allRouteMaps() {
		for _, rs := range mp {
			for _, r := range rs {
				if !r.LastUpdate.Before(since) {
					r.LastUpdate = stamp
					n++
				}
			}
		}
	}
	d.mu.Unlock()
	f := m.forwardTable
	f.mu.Lock()
	for _, rs := range f.routes {
		for _, r := range rs {
			if !r.LastUpdate.Before(since) {
				r.LastUpdate = stamp
				n++
			}
		}
	}
	f.mu.Unlock()
	a := m.agentTable
	a.mu.Lock()
	for _, rs := range a.routes {
		for _, r := range rs {
			if !r.LastUpdate.Before(since) {
				r.LastUpdate = stamp
				n++
			}
		}
	}
	a.mu.Unlock()
	return n
}
