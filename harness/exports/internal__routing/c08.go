//go:build verif && (all || c08 || c10)

package routing

import "time"

// C08Groups returns the CIDR table's map with every slice in its stored order (verification accessor).
func C08Groups(t *Table) map[string][]*Route {
	t.mu.RLock()
	defer t.mu.RUnlock()
	out := make(map[string][]*Route, len(t.routes))
	for k, rs := range t.routes {
		cp := make([]*Route, len(rs))
		for i, r := range rs {
			cp[i] = r.Clone()
		}
		out[k] = cp
	}
	return out
}

// C08Age lets d of time pass for the table: every LastUpdate moves d into the past.
func C08Age(t *Table, d time.Duration) {
	t.mu.Lock()
	defer t.mu.Unlock()
	for _, rs := range t.routes {
		for _, r := range rs {
			r.LastUpdate = r.LastUpdate.Add(-d)
		}
	}
}
