//go:build verif && (all || c09 || c10)

package routing

import (
	"time"

	"github.com/postalsys/muti-metroo/internal/identity"
)

func c09CopyDomain(m map[string][]*DomainRoute) map[string][]*DomainRoute {
	out := make(map[string][]*DomainRoute, len(m))
	for k, rs := range m {
		cp := make([]*DomainRoute, len(rs))
		for i, r := range rs {
			cp[i] = r.Clone()
		}
		out[k] = cp
	}
	return out
}

// C09DomainGroups returns the exact and the wildcard map with every slice in stored order.
func C09DomainGroups(t *DomainTable) (exact, wild map[string][]*DomainRoute) {
	t.mu.RLock()
	defer t.mu.RUnlock()
	return c09CopyDomain(t.exactRoutes), c09CopyDomain(t.wildcardBase)
}

// C09ForwardGroups returns the forward table's map with every slice in stored order.
func C09ForwardGroups(t *ForwardTable) map[string][]*ForwardRoute {
	t.mu.RLock()
	defer t.mu.RUnlock()
	out := make(map[string][]*ForwardRoute, len(t.routes))
	for k, rs := range t.routes {
		cp := make([]*ForwardRoute, len(rs))
		for i, r := range rs {
			cp[i] = r.Clone()
		}
		out[k] = cp
	}
	return out
}

// C09AgentGroups returns the agent table's map with every slice in stored order.
func C09AgentGroups(t *AgentTable) map[identity.AgentID][]*AgentRoute {
	t.mu.RLock()
	defer t.mu.RUnlock()
	out := make(map[identity.AgentID][]*AgentRoute, len(t.routes))
	for k, rs := range t.routes {
		cp := make([]*AgentRoute, len(rs))
		for i, r := range rs {
			cp[i] = r.Clone()
		}
		out[k] = cp
	}
	return out
}

// C09AgeDomain / C09AgeForward / C09AgeAgent let d of time pass for one table.
func C09AgeDomain(t *DomainTable, d time.Duration) {
	t.mu.Lock()
	defer t.mu.Unlock()
	for _, m := range t.allRouteMaps() {
		for _, rs := range m {
			for _, r := range rs {
				r.LastUpdate = r.LastUpdate.Add(-d)
			}
		}
	}
}

func C09AgeForward(t *ForwardTable, d time.Duration) {
	t.mu.Lock()
	defer t.mu.Unlock()
	for _, rs := range t.routes {
		for _, r := range rs {
			r.LastUpdate = r.LastUpdate.Add(-d)
		}
	}
}

func C09AgeAgent(t *AgentTable, d time.Duration) {
	t.mu.Lock()
	defer t.mu.Unlock()
	for _, rs := range t.routes {
		for _, r := range rs {
			r.LastUpdate = r.LastUpdate.Add(-d)
		}
	}
}
