//go:build verif && (all || c03 || c04)

package icmp

import "github.com/postalsys/muti-metroo/internal/protocol"

type verifC03NopCloser struct{}

func (verifC03NopCloser) Close() error { return nil }

// VerifC03KeyExchange runs the exit side of the ICMP key exchange (the DeriveSessionKey call site of
// Handler.performKeyExchange) on a session, without the raw socket HandleICMPOpen would need.
func VerifC03KeyExchange(h *Handler, s *Session, open *protocol.ICMPOpen, remote [protocol.EphemeralKeySize]byte) ([protocol.EphemeralKeySize]byte, error) {
	return h.performKeyExchange(s, open, remote, verifC03NopCloser{})
}
