//go:build verif && (all || c07)

package shell

import (
	"io"
	"time"

	"github.com/postalsys/muti-metroo/internal/crypto"
	"github.com/postalsys/muti-metroo/internal/identity"
)

func c07Stream(h *Handler, peerID identity.AgentID, streamID uint64, key *crypto.SessionKey) *ShellStream {
	ss := &ShellStream{StreamID: streamID, PeerID: peerID, RequestID: streamID, MetaReceived: true, StartTime: time.Now(), sessionKey: key}
	h.mu.Lock()
	h.streams[streamID] = ss
	h.mu.Unlock()
	return ss
}

// C07PumpStd runs the real pumpStdout / pumpStderr on a session whose pipe is `r`, synchronously.
func C07PumpStd(h *Handler, peerID identity.AgentID, streamID uint64, key *crypto.SessionKey, r io.Reader, stderr bool) {
	ss := c07Stream(h, peerID, streamID, key)
	rc := io.NopCloser(r)
	ss.Session = &Session{stdout: rc, stderr: rc, done: make(chan struct{})}
	ss.pumpsDone.Add(1)
	if stderr {
		h.pumpStderr(ss)
	} else {
		h.pumpStdout(ss)
	}
	h.mu.Lock()
	delete(h.streams, streamID)
	h.mu.Unlock()
}

// C07PumpPTY runs the real pumpPTYOutput on the given PTY session, synchronously
// (it ends with sendExit + closeStream, as in production).
func C07PumpPTY(h *Handler, peerID identity.AgentID, streamID uint64, key *crypto.SessionKey, pty PTYSessionInterface) {
	ss := c07Stream(h, peerID, streamID, key)
	ss.IsInteractive = true
	ss.PTYSession = pty
	h.pumpPTYOutput(ss)
}

// C07StdinSink registers a running session whose stdin is `w` (far end of the shell stdin path:
// the real HandleStreamData opens each frame and writes STDIN payloads to the process).
func C07StdinSink(h *Handler, peerID identity.AgentID, streamID uint64, key *crypto.SessionKey, w io.WriteCloser) {
	ss := c07Stream(h, peerID, streamID, key)
	ss.Session = &Session{stdin: w, done: make(chan struct{})}
}

// C07Forget drops the stream entry without touching the session.
func C07Forget(h *Handler, streamID uint64) {
	h.mu.Lock()
	delete(h.streams, streamID)
	h.mu.Unlock()
}

// C07PumpBoth runs the real pumpStdout and pumpStderr CONCURRENTLY on one shell stream (as a running
// command does), stdout fed from `ro`, stderr from `re`; returns when both pumps have ended.
func C07PumpBoth(h *Handler, peerID identity.AgentID, streamID uint64, key *crypto.SessionKey, ro, re io.Reader) {
	ss := c07Stream(h, peerID, streamID, key)
	ss.Session = &Session{stdout: io.NopCloser(ro), stderr: io.NopCloser(re), done: make(chan struct{})}
	ss.pumpsDone.Add(2)
	done := make(chan struct{}, 2)
	go func() { h.pumpStdout(ss); done <- struct{}{} }()
	go func() { h.pumpStderr(ss); done <- struct{}{} }()
	<-done
	<-done
	h.mu.Lock()
	delete(h.streams, streamID)
	h.mu.Unlock()
}
