//go:build verif && (all || c25)

package shell

// Accessors for the C25 check (added to the build through `go build -overlay`; /repo is untouched).

// VerifC25ValidateAndAcquire exposes the unexported admission function.
func VerifC25ValidateAndAcquire(e *Executor, m *ShellMeta) error { return e.validateAndAcquire(m) }

// VerifC25DangerousPattern returns the source text of the compiled argument filter.
func VerifC25DangerousPattern() string { return dangerousArgPattern.String() }
