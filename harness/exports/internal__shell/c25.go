//go:build verif && (all || c25)

package shell

// Accessors for the C25 check (added to the build through `go build -overlay`; /repo is untouched).

// VerifC25ValidateAndAcquire exposes the unexported admission function.
func VerifC25ValidateAndAcquire(e *Executor, m *ShellMeta) error { return e.validateAndAcquire(m) }

// VerifC25DangerousPattern returns the source text of the compiled argument filter.
func VerifC25DangerousPattern() string { return dangerousArgPattern.String() }

// VerifC25SessionArgv returns the argument vector the session's process is (or will be) started
// with: exec.Cmd.Args, i.e. argv[0] = the command as requested, then the arguments.
func VerifC25SessionArgv(s *Session) []string { return append([]string(nil), s.cmd.Args...) }

// VerifC25SessionDiscard releases what NewSession allocated for a session that is never started.
func VerifC25SessionDiscard(s *Session) {
	s.cancel()
	if s.stdin != nil {
		s.stdin.Close()
	}
	if s.stdout != nil {
		s.stdout.Close()
	}
	if s.stderr != nil {
		s.stderr.Close()
	}
}

// VerifC25PTYArgv is VerifC25SessionArgv for a PTY session (nil when it is not the unix implementation).
func VerifC25PTYArgv(p PTYSessionInterface) []string {
	if s, ok := p.(*PTYSession); ok && s.cmd != nil {
		return append([]string(nil), s.cmd.Args...)
	}
	return nil
}

// VerifC25SessionEnvDir returns exec.Cmd.Env (nil = inherit the agent's environment) and exec.Cmd.Dir.
func VerifC25SessionEnvDir(s *Session) ([]string, string) {
	return append([]string(nil), s.cmd.Env...), s.cmd.Dir
}

// VerifC25PTYEnvDir is VerifC25SessionEnvDir for a PTY session.
func VerifC25PTYEnvDir(p PTYSessionInterface) ([]string, string, bool) {
	if s, ok := p.(*PTYSession); ok && s.cmd != nil {
		return append([]string(nil), s.cmd.Env...), s.cmd.Dir, true
	}
	return nil, "", false
}
