//go:build verif && (all || c27)

package health

import "io"

// VerifC27ExtractTar exposes the HTTP directory-upload extractor (C27 check).
func VerifC27ExtractTar(r io.Reader, destDir string) error { return extractTarWithFallback(r, destDir) }
