//go:build verif && (all || c24)

package health

// VerifC24ExemptPaths returns the keys of authExemptPaths that are set to true (C24 check).
func VerifC24ExemptPaths() []string {
	var out []string
	for k, v := range authExemptPaths {
		if v {
			out = append(out, k)
		}
	}
	return out
}
