//go:build verif && (all || c21)

package agent

import (
	"github.com/postalsys/muti-metroo/internal/config"
	"github.com/postalsys/muti-metroo/internal/socks5"
)

// Accessors for the C21 correspondence harness (added to the build through -overlay only).

// VerifC21BuildAuth runs the real Agent.buildSOCKS5Auth on cfg.
func VerifC21BuildAuth(cfg *config.Config) []socks5.Authenticator {
	a := &Agent{cfg: cfg}
	return a.buildSOCKS5Auth()
}

// VerifC21CredStore runs the real Agent.buildSOCKS5CredentialStore on cfg.
func VerifC21CredStore(cfg *config.Config) socks5.CredentialStore {
	a := &Agent{cfg: cfg}
	return a.buildSOCKS5CredentialStore()
}
