//go:build verif && (all || c39)

package agent

import (
	"sort"

	"github.com/postalsys/muti-metroo/internal/identity"
)

// C39FwdKV is one binding of forwardedControl.
type C39FwdKV struct {
	ID     uint64
	Source identity.AgentID
}

// C39Control returns the keys of pendingControl and the bindings of forwardedControl, sorted.
func C39Control(a *Agent) (pending []uint64, fwd []C39FwdKV) {
	a.controlMu.RLock()
	defer a.controlMu.RUnlock()
	for id := range a.pendingControl {
		pending = append(pending, id)
	}
	for id, f := range a.forwardedControl {
		fwd = append(fwd, C39FwdKV{id, f.SourcePeer})
	}
	sort.Slice(pending, func(i, j int) bool { return pending[i] < pending[j] })
	sort.Slice(fwd, func(i, j int) bool { return fwd[i].ID < fwd[j].ID })
	return
}

// C39ResetControl clears the control tables and the request id counter (start of a case).
func C39ResetControl(a *Agent) {
	a.controlMu.Lock()
	defer a.controlMu.Unlock()
	a.pendingControl = make(map[uint64]*pendingControlRequest)
	a.forwardedControl = make(map[uint64]*forwardedControlRequest)
	a.nextControlID = 0
}

// C39NextID returns nextControlID (the id the last local request got).
func C39NextID(a *Agent) uint64 {
	a.controlMu.RLock()
	defer a.controlMu.RUnlock()
	return a.nextControlID
}

// C39EnterSleep / C39ExitSleep run the agent's real sleep / wake transitions.
func C39EnterSleep(a *Agent) error { return a.enterSleep() }
func C39ExitSleep(a *Agent) error  { return a.exitSleep() }

// C39AddAgentRoute makes the agent's routing table know `target` as reachable through peer `via`
// (an agent presence advertisement received from `via`).
func C39AddAgentRoute(a *Agent, via, target identity.AgentID, seq uint64) bool {
	return a.routeMgr.ProcessAgentRouteAdvertise(via, target, seq, target, []identity.AgentID{via, target}, nil, 1)
}

// C39ForgetAgentRoutes drops every agent route learned from the given peers.
func C39ForgetAgentRoutes(a *Agent, peers []identity.AgentID) {
	for _, p := range peers {
		a.routeMgr.HandlePeerDisconnectAgent(p)
	}
}
