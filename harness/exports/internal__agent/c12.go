//go:build verif && (all || c12)

package agent

import (
	"context"

	"github.com/postalsys/muti-metroo/internal/routing"
)

// C12UDPOpen runs the real SOCKS5-UDP ingress code for a learned route: createDestAssociation
// computes the remaining path from route.Path / route.NextHop and sends UDP_OPEN to the next hop.
// The context is already cancelled, so the call returns right after the frame went out instead of
// waiting for the acknowledgement.
func C12UDPOpen(a *Agent, route *routing.Route) error {
	ing := &udpIngressAssociation{destAssocs: map[string]*udpDestAssociation{}}
	ctx, cancel := context.WithCancel(context.Background())
	cancel()
	ing.destMu.Lock()
	_, err := a.createDestAssociation(ctx, ing, route, route.OriginAgent.String())
	return err
}
