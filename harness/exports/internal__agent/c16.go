//go:build verif && (all || c16 || c17 || c18 || c39)

package agent

import (
	"errors"
	"sort"

	"github.com/postalsys/muti-metroo/internal/exit"
	"github.com/postalsys/muti-metroo/internal/stream"
	"github.com/postalsys/muti-metroo/internal/udp"

	"github.com/postalsys/muti-metroo/internal/identity"
	"github.com/postalsys/muti-metroo/internal/peer"
	"github.com/postalsys/muti-metroo/internal/protocol"
)

// Accessors for the relay-table / dispatch / control-forwarding correspondence engines.

type C16Table = relayTable
type C16Entry = relayEntry

func C16NewTable() *relayTable { return newRelayTable() }

func C16NewEntry(up identity.AgentID, upID uint64, down identity.AgentID, downID uint64) *relayEntry {
	return &relayEntry{UpstreamPeer: up, UpstreamID: upID, DownstreamPeer: down, DownstreamID: downID}
}

// C16KV is one binding of one index.
type C16KV struct {
	Key uint64
	E   relayEntry
}

func c16dump(m map[uint64]*relayEntry) []C16KV {
	out := make([]C16KV, 0, len(m))
	for k, e := range m {
		out = append(out, C16KV{k, *e})
	}
	sort.Slice(out, func(i, j int) bool { return out[i].Key < out[j].Key })
	return out
}

// C16Dump returns both indices sorted by key.
func C16Dump(t *relayTable) (up, down []C16KV) {
	t.mu.RLock()
	defer t.mu.RUnlock()
	return c16dump(t.byUpstream), c16dump(t.byDownstream)
}

func C16Tables(a *Agent) (tcp, udp, icmp *relayTable) { return a.tcpRelay, a.udpRelay, a.icmpRelay }

// C16ResetTables installs fresh relay tables (start of an independent case).
func C16ResetTables(a *Agent) {
	a.tcpRelay, a.udpRelay, a.icmpRelay = newRelayTable(), newRelayTable(), newRelayTable()
}

func C16PeerManager(a *Agent) *peer.Manager { return a.peerMgr }

// C16Process dispatches one frame exactly as the peer read loop does.
func C16Process(a *Agent, from identity.AgentID, f *protocol.Frame) { a.processFrame(from, f) }

// C16Disconnect runs the agent's peer-disconnect callback.
func C16Disconnect(a *Agent, c *peer.Connection) {
	a.handlePeerDisconnect(c, errors.New("verif: peer gone"))
}

// C16StartExit marks the agent's exit handler as running (Agent.Start does this) and returns it.
func C16StartExit(a *Agent) *exit.Handler {
	if a.exitHandler != nil {
		a.exitHandler.Start()
	}
	return a.exitHandler
}

// C16RelayRoutes reports whether the TCP relay table currently claims a data frame (from, id):
// the peer-disambiguated lookup of handleStreamData.
func C16RelayRoutes(a *Agent, from identity.AgentID, id uint64) bool {
	up, down := a.tcpRelay.LookupBoth(id)
	return (up != nil && up.UpstreamPeer == from) || (down != nil && down.DownstreamPeer == from)
}

// C16UDPHandler returns the agent's exit-side UDP handler (nil when UDP is disabled).
func C16UDPHandler(a *Agent) *udp.Handler { return a.udpHandler }

// C18StreamManager returns the agent's stream manager (locally terminated streams).
func C18StreamManager(a *Agent) *stream.Manager { return a.streamMgr }
