//go:build verif && (all || c07)

package agent

import (
	"context"
	"io"
	"net"

	"github.com/postalsys/muti-metroo/internal/crypto"
	"github.com/postalsys/muti-metroo/internal/filetransfer"
	"github.com/postalsys/muti-metroo/internal/health"
	"github.com/postalsys/muti-metroo/internal/identity"
	"github.com/postalsys/muti-metroo/internal/peer"
	"github.com/postalsys/muti-metroo/internal/protocol"
	"github.com/postalsys/muti-metroo/internal/shell"
	"github.com/postalsys/muti-metroo/internal/stream"
)

// In-package accessors for the C07 harness (added through the build overlay only).

func C07PeerMgr(a *Agent) *peer.Manager       { return a.peerMgr }
func C07ShellHandler(a *Agent) *shell.Handler { return a.shellHandler }

// C07MeshConn builds the real meshConn (the net.Conn the SOCKS5 server / forward listener
// io.Copy into) around an already-open stream.
func C07MeshConn(a *Agent, peerID identity.AgentID, streamID uint64, s *stream.Stream) net.Conn {
	return &meshConn{agent: a, stream: s, peerID: peerID, streamID: streamID}
}

func C07StreamFileContent(a *Agent, peerID identity.AgentID, streamID uint64, r io.Reader, total int64, key *crypto.SessionKey) (int64, error) {
	return a.streamFileContent(context.Background(), peerID, streamID, r, total, nil, key)
}

// C07SendFileDownload runs the real download sender for an uncompressed regular file.
func C07SendFileDownload(a *Agent, peerID identity.AgentID, streamID, requestID uint64, path string, key *crypto.SessionKey) {
	fts := &fileTransferStream{
		StreamID:     streamID,
		PeerID:       peerID,
		RequestID:    requestID,
		IsUpload:     false,
		Meta:         &filetransfer.TransferMetadata{Path: path, Compress: false},
		MetaReceived: true,
		sessionKey:   key,
	}
	a.fileStreamsMu.Lock()
	a.fileStreams[streamID] = fts
	a.fileStreamsMu.Unlock()
	a.sendFileDownload(fts)
}

// C07ForwardShellClientData runs the real client-side shell sender loop until the adapter closes.
func C07ForwardShellClientData(a *Agent, streamID uint64, nextHop identity.AgentID, adapter *health.ShellStreamAdapter) {
	a.forwardShellClientData(streamID, nextHop, adapter)
}

// C07RegisterShellClient registers a client-side shell adapter as OpenShellStream does.
func C07RegisterShellClient(a *Agent, streamID uint64, adapter *health.ShellStreamAdapter) {
	a.shellClientMu.Lock()
	a.shellClientStreams[streamID] = adapter
	a.shellClientMu.Unlock()
}

// C07HandleShellClientData is the real far end of the shell output paths.
func C07HandleShellClientData(a *Agent, streamID uint64, data []byte, flags uint8) bool {
	return a.handleShellClientData(streamID, data, flags)
}

// C07ReceiveEncrypted is the real far end of the file paths (DownloadFile / receiveAndWriteFile).
func C07ReceiveEncrypted(a *Agent, s *stream.Stream, key *crypto.SessionKey, total int64) ([]byte, error) {
	buf, _, err := a.receiveEncryptedStreamData(context.Background(), s, key, total, nil)
	if buf == nil {
		return nil, err
	}
	return buf.Bytes(), err
}

// --- added for engine c07b (receive path with a stalled reader; oversize single messages)

// C07StreamMgr is the agent's real stream manager (ingress side of TCP / forward streams).
func C07StreamMgr(a *Agent) *stream.Manager { return a.streamMgr }

// C07HandleStreamData is the real STREAM_DATA dispatcher of the frame processor.
func C07HandleStreamData(a *Agent, peerID identity.AgentID, f *protocol.Frame) { a.handleStreamData(peerID, f) }

// C07SendControlResponse is the real control-response sender.
func C07SendControlResponse(a *Agent, peerID identity.AgentID, requestID uint64, controlType uint8, success bool, data []byte) {
	a.sendControlResponse(peerID, requestID, controlType, success, data)
}
