//go:build verif && (all || c28)

package agent

import (
	"github.com/postalsys/muti-metroo/internal/config"
	"github.com/postalsys/muti-metroo/internal/flood"
	"github.com/postalsys/muti-metroo/internal/identity"
	"github.com/postalsys/muti-metroo/internal/protocol"
	"github.com/postalsys/muti-metroo/internal/sleep"
)

// Accessors for the C28 correspondence harness (added to the build through -overlay only).

// VerifC28New builds a real Agent from cfg (agent.New: the signing key reaches the flooder through
// the ordinary configuration path), then installs the sleep manager the way Start() does but
// with the given callbacks instead of enterSleep/exitSleep (which close and reopen sockets), and
// points the flooder's sender at `sender` so forwarded frames can be observed.
func VerifC28New(cfg *config.Config, sender flood.PeerSender, cb sleep.Callbacks) (*Agent, error) {
	a, err := New(cfg)
	if err != nil {
		return nil, err
	}
	a.flooder.VerifC28SetSender(sender)
	a.sleepMgr = sleep.NewManager(a.cfg.Sleep, a.dataDir, a.logger)
	a.sleepMgr.SetLocalID(a.id)
	a.sleepMgr.SetCallbacks(cb)
	return a, nil
}

// VerifC28Process delivers one frame from a peer through the agent's ordinary frame dispatcher.
func (a *Agent) VerifC28Process(peerID identity.AgentID, frame *protocol.Frame) { a.processFrame(peerID, frame) }

func (a *Agent) VerifC28SleepMgr() *sleep.Manager { return a.sleepMgr }
func (a *Agent) VerifC28Flooder() *flood.Flooder  { return a.flooder }
func (a *Agent) VerifC28ID() identity.AgentID    { return a.id }

// VerifC28Close releases the background goroutines of the pieces that were started.
func (a *Agent) VerifC28Close() {
	if a.sleepMgr != nil {
		a.sleepMgr.Stop()
	}
	a.flooder.Stop()
}
