//go:build verif && (all || c20)

package agent

import (
	"github.com/postalsys/muti-metroo/internal/forward"
	"github.com/postalsys/muti-metroo/internal/identity"
	"github.com/postalsys/muti-metroo/internal/logging"
	"github.com/postalsys/muti-metroo/internal/peer"
	"github.com/postalsys/muti-metroo/internal/protocol"
)

// C20NewAgent builds the smallest Agent on which handleStreamOpen can run for the /verif
// harness: identity, logger, a forward handler and an (empty) peer manager; no exit handler.
func C20NewAgent(id identity.AgentID, fh *forward.Handler) *Agent {
	return &Agent{
		id:             id,
		logger:         logging.NopLogger(),
		forwardHandler: fh,
		peerMgr:        peer.NewManager(peer.ManagerConfig{LocalID: id}),
	}
}

// C20HandleStreamOpen exposes the unexported STREAM_OPEN dispatcher.
func (a *Agent) C20HandleStreamOpen(peerID identity.AgentID, f *protocol.Frame) {
	a.handleStreamOpen(peerID, f)
}
