//go:build verif && (all || c20)

package agent

import (
	"io"

	"github.com/postalsys/muti-metroo/internal/forward"
	"github.com/postalsys/muti-metroo/internal/identity"
	"github.com/postalsys/muti-metroo/internal/logging"
	"github.com/postalsys/muti-metroo/internal/peer"
	"github.com/postalsys/muti-metroo/internal/protocol"
	"github.com/postalsys/muti-metroo/internal/routing"
)

// C20NewAgent builds the smallest Agent on which handleStreamOpen can run for the /verif
// harness: identity, logger, a forward handler and an (empty) peer manager; no exit handler.
func C20NewAgent(id identity.AgentID, fh *forward.Handler) *Agent {
	return &Agent{
		id:             id,
		logger:         logging.NopLogger(),
		forwardHandler: fh,
		peerMgr:        peer.NewManager(peer.ManagerConfig{LocalID: id}),
	}
}

// C20HandleStreamOpen exposes the unexported STREAM_OPEN dispatcher.
func (a *Agent) C20HandleStreamOpen(peerID identity.AgentID, f *protocol.Frame) {
	a.handleStreamOpen(peerID, f)
}

// C20InjectPeer gives the agent a connected next hop whose outgoing frames go to w.
func C20InjectPeer(a *Agent, remote identity.AgentID, w io.Writer) {
	peer.C20InjectPeer(a.peerMgr, a.id, remote, w)
}

// C20AddForwardRoute installs a learned port-forward route key -> nextHop (the exit node itself).
func C20AddForwardRoute(a *Agent, key string, nextHop identity.AgentID, seq uint64) bool {
	return a.routeMgr.ForwardTable().AddRoute(&routing.ForwardRoute{
		Key: key, NextHop: nextHop, OriginAgent: nextHop, Metric: 1, Path: []identity.AgentID{nextHop}, Sequence: seq,
	})
}
