//go:build verif && (all || c32)

package agent

import (
	"github.com/postalsys/muti-metroo/internal/config"
	"github.com/postalsys/muti-metroo/internal/identity"
	"github.com/postalsys/muti-metroo/internal/peer"
	"github.com/postalsys/muti-metroo/internal/routing"
	"github.com/postalsys/muti-metroo/internal/transport"
)

// Accessors for the C32 harness (/verif/harness/main/eng_c32.go): a real Agent built by New()
// (not started: no listeners), whose real peer manager is wired to the real
// handlePeerConnected / handlePeerDisconnect callbacks.

func (a *Agent) VerifC32PeerMgr() *peer.Manager     { return a.peerMgr }
func (a *Agent) VerifC32RouteMgr() *routing.Manager { return a.routeMgr }

// VerifC32AddRelay inserts a TCP relay entry between two peers, as handleStreamOpen does when relaying.
func (a *Agent) VerifC32AddRelay(up identity.AgentID, upID uint64, down identity.AgentID, downID uint64) {
	a.tcpRelay.Insert(&relayEntry{UpstreamPeer: up, UpstreamID: upID, DownstreamPeer: down, DownstreamID: downID})
}

// VerifC32RelayCount counts the relay entries that involve peer p.
func (a *Agent) VerifC32RelayCount(p identity.AgentID) int {
	a.tcpRelay.mu.RLock()
	defer a.tcpRelay.mu.RUnlock()
	n := 0
	for _, e := range a.tcpRelay.byUpstream {
		if e.UpstreamPeer == p || e.DownstreamPeer == p {
			n++
		}
	}
	return n
}

// VerifC32Close stops what New() started.
func (a *Agent) VerifC32Close() {
	if a.peerMgr != nil {
		a.peerMgr.Close()
	}
	if a.flooder != nil {
		a.flooder.Stop()
	}
}

// VerifC32HandleIncoming runs the agent's own accept path (what the listener loop starts for every inbound
// transport connection).
func (a *Agent) VerifC32HandleIncoming(pc transport.PeerConn) {
	a.wg.Add(1)
	a.handleIncomingConnection(pc)
}

// VerifC32ConnectToPeer runs the agent's own dial path for one configured peer.
func (a *Agent) VerifC32ConnectToPeer(cfg config.PeerConfig) {
	a.wg.Add(1)
	a.connectToPeer(cfg)
}

// VerifC32SetTransport registers a transport under a transport type name (the in-memory one of the harness).
func (a *Agent) VerifC32SetTransport(t transport.TransportType, tr transport.Transport) { a.transports[t] = tr }
