//go:build verif && (all || c30)

package agent

import (
	"github.com/postalsys/muti-metroo/internal/config"
	"github.com/postalsys/muti-metroo/internal/identity"
	"github.com/postalsys/muti-metroo/internal/protocol"
	"github.com/postalsys/muti-metroo/internal/sleep"
)

// Accessors for the C30 correspondence harness (added to the build through -overlay only).

// VerifC30New builds a real Agent (agent.New) and installs the sleep manager as Start() does, with
// OnPoll = the real doPoll; OnSleep/OnWake are replaced by the given recorders (enterSleep/exitSleep
// close and reopen sockets and start background reconnection, which this harness does not need).
func VerifC30New(cfg *config.Config, onSleep, onWake func() error) (*Agent, error) {
	a, err := New(cfg)
	if err != nil {
		return nil, err
	}
	a.sleepMgr = sleep.NewManager(a.cfg.Sleep, a.dataDir, a.logger)
	a.sleepMgr.SetLocalID(a.id)
	a.sleepMgr.SetCallbacks(sleep.Callbacks{OnSleep: onSleep, OnWake: onWake, OnPoll: a.doPoll})
	return a, nil
}

// VerifC30DoPoll runs the agent's poll cycle (the OnPoll callback) once.
func (a *Agent) VerifC30DoPoll() error { return a.doPoll() }

func (a *Agent) VerifC30SleepMgr() *sleep.Manager { return a.sleepMgr }

// VerifC30InPoll reports whether a poll cycle is active (doPoll has installed its wake channel).
func (a *Agent) VerifC30InPoll() bool {
	a.wakeSignalMu.Lock()
	defer a.wakeSignalMu.Unlock()
	return a.wakeSignal != nil
}

// VerifC30Process delivers one frame from a peer through the agent's ordinary frame dispatcher.
func (a *Agent) VerifC30Process(peerID identity.AgentID, frame *protocol.Frame) {
	a.processFrame(peerID, frame)
}

func (a *Agent) VerifC30Close() {
	select {
	case <-a.stopCh:
	default:
		close(a.stopCh) // ends a doPoll that is still in its wait
	}
	if a.sleepMgr != nil {
		a.sleepMgr.Stop()
	}
	a.flooder.Stop()
}
