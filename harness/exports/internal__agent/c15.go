//go:build verif && (all || c15)

package agent

import "github.com/postalsys/muti-metroo/internal/flood"

// C15Flooder returns the flooder built by initComponents from the agent's configuration.
func C15Flooder(a *Agent) *flood.Flooder { return a.flooder }
