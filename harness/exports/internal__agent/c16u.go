//go:build verif && (all || c16 || c17)

package agent

import (
	"context"
	"errors"
	"net"
	"sort"

	"github.com/postalsys/muti-metroo/internal/identity"
	"github.com/postalsys/muti-metroo/internal/routing"
)

// Ingress-side UDP (SOCKS5 UDP ASSOCIATE) accessors for the c16 world.

// C16AddDefaultRoute: the routing table learns 0.0.0.0/0 through peer `via`.
func C16AddDefaultRoute(a *Agent, via identity.AgentID, seq uint64) error {
	_, all, _ := net.ParseCIDR("0.0.0.0/0")
	if got := a.routeMgr.ProcessRouteAdvertise(via, via, seq, []routing.RouteEntry{{Network: all, Metric: 1}}, []identity.AgentID{via}, nil); len(got) == 0 {
		return errors.New("c16: route not accepted")
	}
	return nil
}

// C16IngressOpen runs the ingress path of one new SOCKS5 UDP client: CreateUDPAssociation, then its
// first destination (sends UDP_OPEN and waits for the exit's answer).
func C16IngressOpen(a *Agent, ctx context.Context, destIP net.IP) error {
	base, err := a.CreateUDPAssociation(ctx, &net.UDPAddr{IP: net.IPv4(127, 0, 0, 1), Port: 40000})
	if err != nil {
		return err
	}
	a.udpIngressMu.RLock()
	ingress := a.udpIngressByBase[base]
	a.udpIngressMu.RUnlock()
	if ingress == nil {
		return errors.New("c16: association not registered")
	}
	_, err = a.getOrCreateDestAssociation(ctx, ingress, destIP)
	return err
}

// C16IngressIndex returns the keys of the reverse index local stream id -> ingress association.
func C16IngressIndex(a *Agent) []uint64 {
	a.udpIngressMu.RLock()
	defer a.udpIngressMu.RUnlock()
	out := make([]uint64, 0, len(a.udpIngressByLocalStream))
	for k := range a.udpIngressByLocalStream {
		out = append(out, k)
	}
	sort.Slice(out, func(i, j int) bool { return out[i] < out[j] })
	return out
}

// C16ResetIngress forgets every ingress association, restarts the association counter and drops the
// routes learned from the given peers (start of a case).
func C16ResetIngress(a *Agent, peers []identity.AgentID) {
	a.udpIngressMu.Lock()
	a.udpIngressByBase = make(map[uint64]*udpIngressAssociation)
	a.udpIngressByLocalStream = make(map[uint64]*udpDestLookup)
	a.udpIngressMu.Unlock()
	a.udpNextBaseID.Store(0)
	for _, p := range peers {
		a.routeMgr.HandlePeerDisconnect(p)
	}
}
