//go:build verif && (all || c19)

package agent

import (
	"github.com/postalsys/muti-metroo/internal/exit"
	"github.com/postalsys/muti-metroo/internal/identity"
	"github.com/postalsys/muti-metroo/internal/protocol"
	"github.com/postalsys/muti-metroo/internal/routing"
)

// Accessors for the C19 correspondence harness (added to the build through -overlay only).

// VerifC19ExitHandler returns the agent's exit handler (nil when it has none).
func (a *Agent) VerifC19ExitHandler() *exit.Handler { return a.exitHandler }

// VerifC19DynamicRoutes returns the routing manager's dynamic routes.
func (a *Agent) VerifC19DynamicRoutes() []*routing.LocalRoute { return a.routeMgr.GetDynamicRoutes() }

// VerifC19Close stops the pieces New() started.
func (a *Agent) VerifC19Close() {
	if a.exitHandler != nil {
		a.exitHandler.Stop()
	}
	a.flooder.Stop()
}

// VerifC19Frame delivers one frame from a peer through the agent's ordinary frame dispatcher
// (ROUTE_ADVERTISE / ROUTE_WITHDRAW reach the flooder and the routing manager this way).
func (a *Agent) VerifC19Frame(peerID identity.AgentID, frame *protocol.Frame) { a.processFrame(peerID, frame) }

// VerifC19PeerGone does the route clean-up of Agent.handlePeerDisconnect for peerID.
func (a *Agent) VerifC19PeerGone(peerID identity.AgentID) {
	a.cleanupRelaysForPeer(peerID)
	a.routeMgr.HandlePeerDisconnect(peerID)
	a.routeMgr.HandlePeerDisconnectDomain(peerID)
	a.routeMgr.HandlePeerDisconnectForward(peerID)
	a.routeMgr.HandlePeerDisconnectAgent(peerID)
}

// VerifC19Stale runs the periodic stale-route clean-up with a zero TTL (every learned route is stale).
func (a *Agent) VerifC19Stale() int { return a.routeMgr.CleanupStaleRoutes(0) }
