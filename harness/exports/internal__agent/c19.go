//go:build verif && (all || c19)

package agent

import (
	"github.com/postalsys/muti-metroo/internal/exit"
	"github.com/postalsys/muti-metroo/internal/routing"
)

// Accessors for the C19 correspondence harness (added to the build through -overlay only).

// VerifC19ExitHandler returns the agent's exit handler (nil when it has none).
func (a *Agent) VerifC19ExitHandler() *exit.Handler { return a.exitHandler }

// VerifC19DynamicRoutes returns the routing manager's dynamic routes.
func (a *Agent) VerifC19DynamicRoutes() []*routing.LocalRoute { return a.routeMgr.GetDynamicRoutes() }

// VerifC19Close stops the pieces New() started.
func (a *Agent) VerifC19Close() {
	if a.exitHandler != nil {
		a.exitHandler.Stop()
	}
	a.flooder.Stop()
}
