//go:build verif && (all || c04)

package agent

import (
	"errors"
	"io"
	"net"

	"github.com/postalsys/muti-metroo/internal/routing"
	"github.com/postalsys/muti-metroo/internal/crypto"
	"github.com/postalsys/muti-metroo/internal/identity"
	"github.com/postalsys/muti-metroo/internal/peer"
	"github.com/postalsys/muti-metroo/internal/protocol"
)

// VerifC04Tap makes every frame that reaches this agent from a peer pass through tap first.
// Must be called after Start() (which installs the frame callback) and before any peer connects
// (connections copy the callback when they are created).
func VerifC04Tap(a *Agent, tap func(peerID identity.AgentID, frame *protocol.Frame)) {
	a.peerMgr.SetFrameCallback(func(peerID identity.AgentID, frame *protocol.Frame) {
		tap(peerID, frame)
		a.processFrame(peerID, frame)
	})
}

// VerifC04DeriveICMP runs the ingress side of the ICMP key exchange.
func VerifC04DeriveICMP(priv *[32]byte, pub, remote [32]byte, requestID uint64) (*crypto.SessionKey, error) {
	return deriveICMPSessionKey(priv, pub, remote, requestID)
}

// VerifC04DeriveResponder runs the responder side used by the file-transfer stream handlers.
func VerifC04DeriveResponder(requestID uint64, remote [crypto.KeySize]byte) (*crypto.SessionKey, [crypto.KeySize]byte, error) {
	return deriveResponderSessionKey(requestID, remote)
}

// VerifC04StreamKeys returns the key bytes of every live stream's session key, by local stream id.
func VerifC04StreamKeys(a *Agent) map[uint64][crypto.KeySize]byte {
	out := map[uint64][crypto.KeySize]byte{}
	for _, s := range a.streamMgr.GetAllStreams() {
		if k := s.GetSessionKey(); k != nil {
			out[s.ID] = k.Key()
		}
	}
	return out
}

// VerifC04PeerMgr exposes the agent's peer manager (to attach a capturing peer).
func VerifC04PeerMgr(a *Agent) *peer.Manager { return a.peerMgr }

// VerifC04FileOpen / VerifC04FileData drive the exit side of a file DOWNLOAD stream.
func VerifC04FileOpen(a *Agent, peerID identity.AgentID, streamID, requestID uint64, pub [crypto.KeySize]byte) {
	a.handleFileDownloadStreamOpen(peerID, streamID, requestID, pub)
}
func VerifC04FileData(a *Agent, peerID identity.AgentID, streamID uint64, data []byte, flags uint8) {
	a.handleFileTransferStreamData(peerID, streamID, data, flags)
}

// VerifC04Process feeds one frame from `peerID` through the agent's real dispatch (processFrame).
func VerifC04Process(a *Agent, peerID identity.AgentID, f *protocol.Frame) { a.processFrame(peerID, f) }

// VerifC04FileOpenUp drives the exit side of a file UPLOAD stream open.
func VerifC04FileOpenUp(a *Agent, peerID identity.AgentID, streamID, requestID uint64, pub [crypto.KeySize]byte) {
	a.handleFileUploadStreamOpen(peerID, streamID, requestID, pub)
}

// VerifC04IngressSetup gives a (never started) agent one capturing peer and a default route through it,
// so that its SOCKS5-UDP ingress path opens its associations towards that peer.
func VerifC04IngressSetup(a *Agent, remote identity.AgentID, w io.Writer) error {
	peer.VerifC04CapturePeer(a.peerMgr, a.id, remote, w)
	_, all, _ := net.ParseCIDR("0.0.0.0/0")
	if got := a.routeMgr.ProcessRouteAdvertise(remote, remote, 1, []routing.RouteEntry{{Network: all, Metric: 1}}, []identity.AgentID{remote}, nil); len(got) == 0 {
		return errors.New("verif c04: route not accepted")
	}
	return nil
}
