//go:build verif && (all || c24)

package agent

import "net/http"

// VerifC24Handler returns the handler of the HTTP API server exactly as the agent built it from
// its configuration (nil when http.enabled is false). C24 check.
func VerifC24Handler(a *Agent) http.Handler {
	if a.healthServer == nil {
		return nil
	}
	return a.healthServer.Handler()
}
