//go:build verif && (all || c38)

package agent

import (
	"context"
	"errors"
	"io"
	"net"

	"github.com/postalsys/muti-metroo/internal/identity"
	"github.com/postalsys/muti-metroo/internal/peer"
	"github.com/postalsys/muti-metroo/internal/routing"
)

// C38Setup gives a (never started) agent one connected peer whose outgoing frames go to w, and a
// learned default route through it, so that every ingress path of the agent opens its streams on
// that one connection.
func C38Setup(a *Agent, remote identity.AgentID, dialer bool, w io.Writer) error {
	peer.C38InjectPeer(a.peerMgr, a.id, remote, dialer, w)
	_, all, _ := net.ParseCIDR("0.0.0.0/0")
	got := a.routeMgr.ProcessRouteAdvertise(remote, remote, 1, []routing.RouteEntry{{Network: all, Metric: 1}}, []identity.AgentID{remote}, nil)
	if len(got) == 0 {
		return errors.New("c38: route not accepted")
	}
	return nil
}

// C38OpenUDP runs the SOCKS5-UDP ingress path: a new association, then its first destination
// (CreateUDPAssociation + getOrCreateDestAssociation), which sends UDP_OPEN and waits for the answer.
func C38OpenUDP(a *Agent, ctx context.Context, destIP net.IP) error {
	base, err := a.CreateUDPAssociation(ctx, &net.UDPAddr{IP: net.IPv4(127, 0, 0, 1), Port: 40000})
	if err != nil {
		return err
	}
	a.udpIngressMu.RLock()
	ingress := a.udpIngressByBase[base]
	a.udpIngressMu.RUnlock()
	if ingress == nil {
		return errors.New("c38: association not registered")
	}
	_, err = a.getOrCreateDestAssociation(ctx, ingress, destIP)
	return err
}
