//go:build verif && (all || c16 || c17 || c18 || c39)

package udp

import "sort"

// C16AssocKeys returns the stream ids of the exit-side UDP associations, sorted.
func C16AssocKeys(h *Handler) []uint64 {
	h.mu.RLock()
	defer h.mu.RUnlock()
	out := make([]uint64, 0, len(h.associations))
	for k := range h.associations {
		out = append(out, k)
	}
	sort.Slice(out, func(i, j int) bool { return out[i] < out[j] })
	return out
}
