//go:build verif && (all || c38)

package peer

import (
	"context"
	"errors"
	"io"
	"net"

	"github.com/postalsys/muti-metroo/internal/identity"
	"github.com/postalsys/muti-metroo/internal/protocol"
	"github.com/postalsys/muti-metroo/internal/transport"
)

type c38StubConn struct{ dialer bool }

func (c38StubConn) OpenStream(ctx context.Context) (transport.Stream, error) {
	return nil, errors.New("c38: no streams")
}
func (c38StubConn) AcceptStream(ctx context.Context) (transport.Stream, error) {
	<-ctx.Done()
	return nil, ctx.Err()
}
func (c38StubConn) Close() error                           { return nil }
func (c38StubConn) LocalAddr() net.Addr                    { return &net.TCPAddr{IP: net.IPv4(127, 0, 0, 1), Port: 1} }
func (c38StubConn) RemoteAddr() net.Addr                   { return &net.TCPAddr{IP: net.IPv4(127, 0, 0, 1), Port: 2} }
func (c c38StubConn) IsDialer() bool                       { return c.dialer }
func (c38StubConn) TransportType() transport.TransportType { return transport.TransportQUIC }

// C38InjectPeer registers a connected, handshake-less peer (this side has the given role) whose
// outgoing frames are written to w, built by the real NewConnection.
func C38InjectPeer(m *Manager, local, remote identity.AgentID, dialer bool, w io.Writer) *Connection {
	c := NewConnection(c38StubConn{dialer}, DefaultConnectionConfig(local))
	c.RemoteID = remote
	c.writer = protocol.NewFrameWriter(w)
	c.SetState(StateConnected)
	m.mu.Lock()
	m.peers[remote] = c
	m.mu.Unlock()
	return c
}
