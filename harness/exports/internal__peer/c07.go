//go:build verif && (all || c07)

package peer

import (
	"io"

	"github.com/postalsys/muti-metroo/internal/identity"
	"github.com/postalsys/muti-metroo/internal/protocol"
	"github.com/postalsys/muti-metroo/internal/transport"
)

// C07AttachCapturePeer registers, in the REAL peer manager, a connection to `remote` whose
// frame writer is the REAL protocol.FrameWriter over `w`. Everything the agent sends to that
// peer (Manager.SendToPeer -> Connection.WriteFrame -> FrameWriter.Write -> Frame.Encode) ends
// up, wire-encoded, in `w`. No handshake, no transport: only the write path is live.
func C07AttachCapturePeer(m *Manager, remote identity.AgentID, w io.Writer) {
	c := &Connection{
		LocalID:  m.cfg.LocalID,
		RemoteID: remote,
		writer:   protocol.NewFrameWriter(w),
		streamAlloc: transport.NewStreamIDAllocator(true),
		closed:   make(chan struct{}),
		ready:    make(chan struct{}),
	}
	c.state.Store(int32(StateConnected))
	m.mu.Lock()
	m.peers[remote] = c
	m.mu.Unlock()
}
