//go:build verif && (all || c32)

package peer

import "github.com/postalsys/muti-metroo/internal/protocol"

// VerifC32ReadFrame reads the next frame of a handshaken connection that no manager reads from
// (the scripted remote end in /verif/harness/main/eng_c32.go).
func (c *Connection) VerifC32ReadFrame() (*protocol.Frame, error) { return c.reader.Read() }

// VerifC32LockMu / VerifC32UnlockMu hold the manager's write lock, so that the harness can let several
// handshakes reach registerConnection and then release them together (race stress).
func (m *Manager) VerifC32LockMu()   { m.mu.Lock() }
func (m *Manager) VerifC32UnlockMu() { m.mu.Unlock() }
