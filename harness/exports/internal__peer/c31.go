//go:build verif && (all || c31)

package peer

import "time"

// Accessors for the C31 reconnect harness (/verif/harness/main/eng_c31.go).

// VerifC31SetReconnector makes the manager use r (whose callback wraps VerifC31HandleReconnect,
// so the harness sees when the real callback returns).
func (m *Manager) VerifC31SetReconnector(r *Reconnector) { m.reconnector = r }

// VerifC31HandleReconnect is the real reconnect callback of the manager.
func (m *Manager) VerifC31HandleReconnect(addr string) error { return m.handleReconnect(addr) }

// VerifC31State returns the reconnect state of addr under the reconnector's lock.
func (r *Reconnector) VerifC31State(addr string) (exists bool, attempts int, next time.Duration, timer *time.Timer) {
	r.mu.Lock()
	defer r.mu.Unlock()
	s, ok := r.states[addr]
	if !ok {
		return false, 0, 0, nil
	}
	return true, s.attempts, s.nextDelay, s.timer
}

// VerifC31Preset puts the reconnect state of addr into "n consecutive failures so far"
// (attempt counter n, next delay as given). Returns false when addr has no state.
func (r *Reconnector) VerifC31Preset(addr string, n int, next time.Duration) bool {
	r.mu.Lock()
	defer r.mu.Unlock()
	s, ok := r.states[addr]
	if !ok {
		return false
	}
	s.attempts = n
	s.nextDelay = next
	return true
}
