//go:build verif && (all || c03 || c04)

package peer

import (
	"context"
	"io"

	"github.com/postalsys/muti-metroo/internal/identity"
	"github.com/postalsys/muti-metroo/internal/protocol"
	"github.com/postalsys/muti-metroo/internal/transport"
)

// VerifC04CapturePeer registers a handshake-less connection to `remote` whose outgoing frames go,
// wire-encoded and one frame per Write, to w (no read loop: the harness feeds frames itself).
func VerifC04CapturePeer(m *Manager, local, remote identity.AgentID, w io.Writer) {
	ctx, cancel := context.WithCancel(context.Background())
	c := &Connection{
		LocalID:     local,
		RemoteID:    remote,
		writer:      protocol.NewFrameWriter(w),
		streamAlloc: transport.NewStreamIDAllocator(false),
		ctx:         ctx,
		cancel:      cancel,
		closed:      make(chan struct{}),
		ready:       make(chan struct{}),
	}
	c.SetState(StateConnected)
	m.mu.Lock()
	m.peers[remote] = c
	m.mu.Unlock()
}
