//go:build verif && (all || c16 || c17 || c18 || c39)

package peer

import (
	"context"
	"errors"
	"io"
	"net"

	"github.com/postalsys/muti-metroo/internal/identity"
	"github.com/postalsys/muti-metroo/internal/protocol"
	"github.com/postalsys/muti-metroo/internal/transport"
)

// C16InjectPeer registers a handshake-less connection to `remote` whose outgoing frames are written
// to w. No read or keepalive loop is started: the harness feeds incoming frames to the agent itself.
func C16InjectPeer(m *Manager, local, remote identity.AgentID, dialer bool, w io.Writer) *Connection {
	ctx, cancel := context.WithCancel(context.Background())
	c := &Connection{
		conn:        c16NullConn{dialer: dialer},
		LocalID:     local,
		RemoteID:    remote,
		isDialer:    dialer,
		writer:      protocol.NewFrameWriter(w),
		streamAlloc: transport.NewStreamIDAllocator(dialer),
		ctx:         ctx,
		cancel:      cancel,
		closed:      make(chan struct{}),
		ready:       make(chan struct{}),
	}
	c.SetState(StateConnected)
	m.mu.Lock()
	m.peers[remote] = c
	m.mu.Unlock()
	return c
}

// C16RemovePeer removes an injected connection from the peer table (what handleDisconnect does
// before it calls OnPeerDisconnect).
func C16RemovePeer(m *Manager, remote identity.AgentID) *Connection {
	m.mu.Lock()
	defer m.mu.Unlock()
	c := m.peers[remote]
	delete(m.peers, remote)
	return c
}

// c16NullConn is the transport connection of an injected peer: no streams, Close succeeds
// (peer.Manager.DisconnectAll / Connection.Close call it).
type c16NullConn struct{ dialer bool }

func (c16NullConn) OpenStream(ctx context.Context) (transport.Stream, error) {
	return nil, errors.New("verif: injected peer has no streams")
}
func (c16NullConn) AcceptStream(ctx context.Context) (transport.Stream, error) {
	<-ctx.Done()
	return nil, ctx.Err()
}
func (c16NullConn) Close() error                           { return nil }
func (c16NullConn) LocalAddr() net.Addr                    { return &net.UDPAddr{IP: net.IPv4(127, 0, 0, 1)} }
func (c16NullConn) RemoteAddr() net.Addr                   { return &net.UDPAddr{IP: net.IPv4(127, 0, 0, 1)} }
func (c c16NullConn) IsDialer() bool                       { return c.dialer }
func (c16NullConn) TransportType() transport.TransportType { return transport.TransportQUIC }
