//go:build verif && (all || c16 || c17 || c18 || c39)

package peer

import (
	"context"
	"io"

	"github.com/postalsys/muti-metroo/internal/identity"
	"github.com/postalsys/muti-metroo/internal/protocol"
	"github.com/postalsys/muti-metroo/internal/transport"
)

// C16InjectPeer registers a handshake-less connection to `remote` whose outgoing frames are written
// to w. No read or keepalive loop is started: the harness feeds incoming frames to the agent itself.
func C16InjectPeer(m *Manager, local, remote identity.AgentID, dialer bool, w io.Writer) *Connection {
	ctx, cancel := context.WithCancel(context.Background())
	c := &Connection{
		LocalID:     local,
		RemoteID:    remote,
		isDialer:    dialer,
		writer:      protocol.NewFrameWriter(w),
		streamAlloc: transport.NewStreamIDAllocator(dialer),
		ctx:         ctx,
		cancel:      cancel,
		closed:      make(chan struct{}),
		ready:       make(chan struct{}),
	}
	c.SetState(StateConnected)
	m.mu.Lock()
	m.peers[remote] = c
	m.mu.Unlock()
	return c
}

// C16RemovePeer removes an injected connection from the peer table (what handleDisconnect does
// before it calls OnPeerDisconnect).
func C16RemovePeer(m *Manager, remote identity.AgentID) *Connection {
	m.mu.Lock()
	defer m.mu.Unlock()
	c := m.peers[remote]
	delete(m.peers, remote)
	return c
}
