//go:build verif && (all || c20)

package peer

import (
	"context"
	"errors"
	"io"
	"net"

	"github.com/postalsys/muti-metroo/internal/identity"
	"github.com/postalsys/muti-metroo/internal/protocol"
	"github.com/postalsys/muti-metroo/internal/transport"
)

type c20StubConn struct{}

func (c20StubConn) OpenStream(ctx context.Context) (transport.Stream, error) {
	return nil, errors.New("c20: no streams")
}
func (c20StubConn) AcceptStream(ctx context.Context) (transport.Stream, error) {
	<-ctx.Done()
	return nil, ctx.Err()
}
func (c20StubConn) Close() error                           { return nil }
func (c20StubConn) LocalAddr() net.Addr                    { return &net.TCPAddr{IP: net.IPv4(127, 0, 0, 1), Port: 1} }
func (c20StubConn) RemoteAddr() net.Addr                   { return &net.TCPAddr{IP: net.IPv4(127, 0, 0, 1), Port: 2} }
func (c20StubConn) IsDialer() bool                         { return true }
func (c20StubConn) TransportType() transport.TransportType { return transport.TransportQUIC }

// C20InjectPeer registers a connected, handshake-less peer whose outgoing frames are written to w
// (the /verif harness reads the STREAM_OPEN that Agent.DialForward sends).
func C20InjectPeer(m *Manager, local, remote identity.AgentID, w io.Writer) *Connection {
	c := NewConnection(c20StubConn{}, DefaultConnectionConfig(local))
	c.RemoteID = remote
	c.writer = protocol.NewFrameWriter(w)
	c.SetState(StateConnected)
	m.mu.Lock()
	m.peers[remote] = c
	m.mu.Unlock()
	return c
}
