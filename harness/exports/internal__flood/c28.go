//go:build verif && (all || c28 || c29)

package flood

import (
	"sort"
	"time"

	"github.com/postalsys/muti-metroo/internal/identity"
	"github.com/postalsys/muti-metroo/internal/protocol"
)

// Accessors for the C28/C29 correspondence harness (added to the build through -overlay only).

// VerifC28SetSender replaces the frame sender so that forwarded frames can be observed.
func (f *Flooder) VerifC28SetSender(s PeerSender) { f.sender = s }

// VerifC29Cleanup runs one pass of the flooder's periodic cache cleanup (the real cleanup()).
func (f *Flooder) VerifC29Cleanup() { f.cleanup() }

// VerifC29Age moves every recorded instant of the sleep-command machinery d into the past
// (the cache entries' SeenAt and the pending wake's storage time): the harness's way of letting
// d of time pass without waiting. The stored pending wake command carries a timestamp too;
// `restamp` (may be nil) returns the same command stamped d earlier (re-signed by the harness).
func (f *Flooder) VerifC29Age(d time.Duration, restamp func(*protocol.WakeCommand) *protocol.WakeCommand) {
	f.sleepCmdMu.Lock()
	for _, e := range f.sleepCmdSeenCache {
		e.SeenAt = e.SeenAt.Add(-d)
	}
	f.sleepCmdMu.Unlock()
	f.pendingWakeMu.Lock()
	if f.pendingWakeCmd != nil {
		f.pendingWakeAt = f.pendingWakeAt.Add(-d)
		if restamp != nil {
			f.pendingWakeCmd = restamp(f.pendingWakeCmd)
		}
	}
	f.pendingWakeMu.Unlock()
}

// VerifC29SetWindow changes the timestamp validity window of a running flooder (edge probes).
func (f *Flooder) VerifC29SetWindow(d time.Duration) { f.timestampWindow = d }

// VerifC29CleanupAt runs the sleep-command cache cleanup as cleanup() does, but at the instant
// SeenAt(origin,id) + sleepCmdCacheTTL() + delta - cleanupSleepCmdCache takes the instant as an
// argument, so the expiry edge can be hit to the nanosecond. Returns false if the key is not cached.
func (f *Flooder) VerifC29CleanupAt(origin identity.AgentID, id uint64, delta time.Duration) bool {
	f.sleepCmdMu.Lock()
	defer f.sleepCmdMu.Unlock()
	e, ok := f.sleepCmdSeenCache[SleepCommandKey{OriginAgent: origin, CommandID: id}]
	if !ok {
		return false
	}
	ttl := f.sleepCmdCacheTTL()
	f.cleanupSleepCmdCache(e.SeenAt.Add(ttl).Add(delta), ttl)
	return true
}

// VerifC29PendingWake exposes the stored pending wake command (nil if none).
func (f *Flooder) VerifC29PendingWake() *protocol.WakeCommand {
	f.pendingWakeMu.RLock()
	defer f.pendingWakeMu.RUnlock()
	return f.pendingWakeCmd
}

// VerifC29Keys lists the (origin, id) keys currently in the sleep-command seen cache, sorted.
func (f *Flooder) VerifC29Keys() []SleepCommandKey {
	f.sleepCmdMu.RLock()
	defer f.sleepCmdMu.RUnlock()
	out := make([]SleepCommandKey, 0, len(f.sleepCmdSeenCache))
	for k := range f.sleepCmdSeenCache {
		out = append(out, k)
	}
	sort.Slice(out, func(i, j int) bool {
		if out[i].OriginAgent != out[j].OriginAgent {
			return string(out[i].OriginAgent[:]) < string(out[j].OriginAgent[:])
		}
		return out[i].CommandID < out[j].CommandID
	})
	return out
}

var _ = identity.AgentID{}
