//go:build verif && (all || c11)

package flood

import (
	"sort"
	"time"

	"github.com/postalsys/muti-metroo/internal/identity"
)

// C11ExpireSeen makes exactly one seen-cache entry old and then runs the flooder's own
// cleanupSeenCache(now, SeenCacheTTL) under its lock, i.e. the entry leaves the cache through
// the production expiry path. Returns whether the key was present.
func C11ExpireSeen(f *Flooder, origin identity.AgentID, seq uint64) bool {
	key := AdvertisementKey{OriginAgent: origin, Sequence: seq}
	f.mu.Lock()
	defer f.mu.Unlock()
	e, ok := f.seenCache[key]
	if !ok {
		return false
	}
	now := time.Now()
	e.SeenAt = now.Add(-f.cfg.SeenCacheTTL - time.Hour)
	f.cleanupSeenCache(now, f.cfg.SeenCacheTTL)
	_, still := f.seenCache[key]
	return !still
}

// C11SeenKeys lists the seen-cache keys, sorted.
func C11SeenKeys(f *Flooder) []AdvertisementKey {
	f.mu.RLock()
	defer f.mu.RUnlock()
	out := make([]AdvertisementKey, 0, len(f.seenCache))
	for k := range f.seenCache {
		out = append(out, k)
	}
	sort.Slice(out, func(i, j int) bool {
		if out[i].OriginAgent != out[j].OriginAgent {
			return string(out[i].OriginAgent[:]) < string(out[j].OriginAgent[:])
		}
		return out[i].Sequence < out[j].Sequence
	})
	return out
}
