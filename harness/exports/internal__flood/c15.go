//go:build verif && (all || c15)

package flood

import "reflect"

// C15MaxHops reports the hop limit this flooder was configured with, or -1 when FloodConfig has
// no MaxHops field at all (tree without the C15 repair). Reflection keeps the accessor compiling
// on both kinds of tree, so the check can show the failing input instead of a build error.
func C15MaxHops(f *Flooder) int {
	v := reflect.ValueOf(f.cfg).FieldByName("MaxHops")
	if !v.IsValid() || v.Kind() != reflect.Int {
		return -1
	}
	return int(v.Int())
}
