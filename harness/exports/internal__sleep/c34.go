//go:build verif && (all || c34)

package sleep

// Accessors for the C34 crash-consistency harness (/verif/harness/main/eng_c34.go).

// VerifC34Persist sets the state that persistState reads and saves it.
func VerifC34Persist(m *Manager, st State, seq uint64) error {
	m.state.Store(st)
	m.commandSeq.Store(seq)
	return m.persistState()
}

// VerifC34Seq returns the loaded command sequence number.
func VerifC34Seq(m *Manager) uint64 { return m.commandSeq.Load() }
