//go:build verif && (all || c26)

package filetransfer

// VerifC26ValidatePath exposes the unexported allow-list check (C26 check).
func VerifC26ValidatePath(h *StreamHandler, path string) error { return h.validatePath(path) }
