//go:build verif && (all || c18)

package stream

// Accessors for the C18 correspondence engine (compiled into the package through the build
// overlay; /repo is not modified).

// C18Snap is the observable state of one stream.
type C18Snap struct {
	State                            StreamState
	LocalFin, RemoteFin, FinCh, Done bool
}

func C18Snapshot(s *Stream) C18Snap {
	var r C18Snap
	s.mu.Lock()
	r.LocalFin = s.localFinWrite
	r.RemoteFin = s.remoteFinWrite
	s.mu.Unlock()
	select {
	case <-s.remoteFinCh:
		r.FinCh = true
	default:
	}
	select {
	case <-s.closed:
		r.Done = true
	default:
	}
	r.State = s.State()
	return r
}

// C18ReadBufferCap is cap(readBuffer) of a fresh stream.
func C18ReadBufferCap() int {
	return cap(NewStream(1, [16]byte{}, [16]byte{}, 1).readBuffer)
}

// C18PendingStream returns the stream object of a pending OpenStream request.
func C18PendingStream(m *Manager, requestID uint64) *Stream {
	m.mu.RLock()
	defer m.mu.RUnlock()
	if p := m.pendingRequests[requestID]; p != nil {
		return p.Stream
	}
	return nil
}

// C18Registered reports whether s is the stream registered under id.
func C18Registered(m *Manager, id uint64, s *Stream) bool {
	m.mu.RLock()
	defer m.mu.RUnlock()
	return m.streams[id] == s
}
