//go:build verif && (all || c38)

package transport

// C38SetNext positions the allocator's counter (to exercise the wrap-around region, which no
// real connection can reach) for the /verif harness.
func C38SetNext(a *StreamIDAllocator, v uint64) { a.next.Store(v) }
