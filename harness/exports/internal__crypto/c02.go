//go:build verif && (all || c02)

package crypto

// VerifC02SetSend presets the send counter (C02 stress engine: counter ranges near 2^64).
func VerifC02SetSend(s *SessionKey, send uint64) {
	s.mu.Lock()
	defer s.mu.Unlock()
	s.sendNonce = send
}
