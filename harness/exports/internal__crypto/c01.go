//go:build verif && (all || c01)

package crypto

// Accessors for the C01 correspondence engine (enter the build through `go build -overlay`).

// VerifC01Counters returns (sendNonce, recvNonce).
func VerifC01Counters(s *SessionKey) (uint64, uint64) {
	s.mu.Lock()
	defer s.mu.Unlock()
	return s.sendNonce, s.recvNonce
}

// VerifC01SetCounters presets both counters so that traces near 2^64 are reachable.
func VerifC01SetCounters(s *SessionKey, send, recv uint64) {
	s.mu.Lock()
	defer s.mu.Unlock()
	s.sendNonce, s.recvNonce = send, recv
}
