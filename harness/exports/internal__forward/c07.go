//go:build verif && (all || c07)

package forward

import (
	"net"
	"time"

	"github.com/postalsys/muti-metroo/internal/crypto"
	"github.com/postalsys/muti-metroo/internal/identity"
)

// C07ReadLoop runs the real port-forward return-path loop (target -> mesh) synchronously on `conn`.
func C07ReadLoop(h *Handler, remote identity.AgentID, streamID uint64, conn net.Conn, key *crypto.SessionKey) {
	ac := &ActiveConnection{StreamID: streamID, RemoteID: remote, Key: "c07", Target: "c07", Conn: conn, StartedAt: time.Now(), sessionKey: key}
	h.mu.Lock()
	h.connections[streamID] = ac
	h.mu.Unlock()
	h.connCount.Add(1)
	h.readLoop(ac)
}
