//go:build ignore

// c38ast inspects internal/transport/transport.go (go/ast) and reports how
// StreamIDAllocator.Next accesses the shared counter.  Output: one line
//
//	shape=<single-atomic-add|locked|cas-loop|load-store|unknown> field=<name> type=<type> detail=<…>
//
// `load-store` (separate atomic Load and Store, or plain reads/writes, without a lock or CAS) is the
// only shape reported as NOT atomic; `unknown` is left to the behavioural checks.
package main

import (
	"bytes"
	"fmt"
	"go/ast"
	"go/parser"
	"go/printer"
	"go/token"
	"os"
)

func main() {
	fset := token.NewFileSet()
	f, err := parser.ParseFile(fset, os.Args[1]+".go", nil, 0) // path given without ".go" (go run would take it for a source file)
	if err != nil {
		fmt.Println("shape=unknown detail=parse-error")
		return
	}
	src := func(n ast.Node) string {
		var b bytes.Buffer
		printer.Fprint(&b, fset, n)
		return b.String()
	}
	fieldTypes := map[string]string{}
	ast.Inspect(f, func(n ast.Node) bool {
		ts, ok := n.(*ast.TypeSpec)
		if !ok || ts.Name.Name != "StreamIDAllocator" {
			return true
		}
		if st, ok := ts.Type.(*ast.StructType); ok {
			for _, fl := range st.Fields.List {
				for _, nm := range fl.Names {
					fieldTypes[nm.Name] = src(fl.Type)
				}
			}
		}
		return false
	})
	for _, d := range f.Decls {
		fd, ok := d.(*ast.FuncDecl)
		if !ok || fd.Name.Name != "Next" || fd.Recv == nil || len(fd.Recv.List) != 1 {
			continue
		}
		if src(fd.Recv.List[0].Type) != "*StreamIDAllocator" {
			continue
		}
		recv := fd.Recv.List[0].Names[0].Name
		calls := map[string]int{} // method called on recv.<field>
		plain := 0                // recv.<field> used other than as the receiver of a method call
		field := ""
		lock := false
		methodRecv := map[ast.Node]bool{}
		ast.Inspect(fd.Body, func(n ast.Node) bool {
			if ce, ok := n.(*ast.CallExpr); ok {
				if se, ok := ce.Fun.(*ast.SelectorExpr); ok {
					if inner, ok := se.X.(*ast.SelectorExpr); ok {
						if id, ok := inner.X.(*ast.Ident); ok && id.Name == recv {
							if se.Sel.Name == "Lock" || se.Sel.Name == "RLock" {
								lock = true
							} else if se.Sel.Name != "Unlock" && se.Sel.Name != "RUnlock" {
								calls[se.Sel.Name]++
								field = inner.Sel.Name
							}
							methodRecv[inner] = true
						}
					}
				}
			}
			return true
		})
		ast.Inspect(fd.Body, func(n ast.Node) bool {
			if se, ok := n.(*ast.SelectorExpr); ok && !methodRecv[se] {
				if id, ok := se.X.(*ast.Ident); ok && id.Name == recv && se.Sel.Name != "isDialer" {
					if _, isFunc := fieldTypes[se.Sel.Name]; isFunc {
						plain++
						if field == "" {
							field = se.Sel.Name
						}
					}
				}
			}
			return true
		})
		total := 0
		for _, c := range calls {
			total += c
		}
		shape := "unknown"
		switch {
		case lock:
			shape = "locked"
		case calls["CompareAndSwap"] > 0:
			shape = "cas-loop"
		case total == 1 && calls["Add"] == 1 && plain == 0:
			shape = "single-atomic-add"
		case (calls["Load"] > 0 && calls["Store"] > 0) || plain > 1:
			shape = "load-store"
		}
		fmt.Printf("shape=%s field=%s type=%s detail=%q\n", shape, field, fieldTypes[field], src(fd.Body))
		return
	}
	fmt.Println("shape=unknown detail=no-Next-method")
}
