//go:build ignore

// c38ast follows the real allocation path of stream ids on the AST (go/ast, no type checking):
//
//	peer.Connection.NextStreamID  ->  transport.StreamIDAllocator.Next  ->  one atomic Add on a counter
//	                                                                        initialised at construction
//
// usage: go run c38ast.go <repo root>
//
// It collects the atomic-typed fields of transport.StreamIDAllocator, plus any atomic-typed field of
// peer.Connection that NextStreamID touches directly, and lists EVERY method call on such a field in
// the non-test files of both packages.  Allowed: Load anywhere; Store inside a constructor (a plain
// function that builds the owning struct); exactly one Add(<positive integer literal>) inside the
// allocating method (Next / NextStreamID); a CompareAndSwap loop inside the allocating method is left
// to the behavioural checks.  Anything else — Store/Swap/CompareAndSwap/Add elsewhere, an Add with
// another delta, a second write in the allocating method — is a violation.
//
// Output, one line:  shape=<ok|violation|unknown> path=<delegates|own-counter|unknown> add=<delta> violations=<a;b;…>
// `unknown` (structure not recognised) is not an alarm.
package main

import (
	"bytes"
	"fmt"
	"go/ast"
	"go/parser"
	"go/printer"
	"go/token"
	"os"
	"path/filepath"
	"sort"
	"strings"
)

var fset = token.NewFileSet()

func src(n ast.Node) string {
	var b bytes.Buffer
	printer.Fprint(&b, fset, n)
	return strings.Join(strings.Fields(b.String()), " ")
}

type pkgInfo struct {
	files []*ast.File
}

func load(dir string) *pkgInfo {
	p := &pkgInfo{}
	names, _ := filepath.Glob(filepath.Join(dir, "*.go"))
	sort.Strings(names)
	for _, n := range names {
		if strings.HasSuffix(n, "_test.go") || strings.Contains(filepath.Base(n), "zz_verif") {
			continue
		}
		f, err := parser.ParseFile(fset, n, nil, 0)
		if err == nil {
			p.files = append(p.files, f)
		}
	}
	return p
}

// structFields returns field name -> type text of a named struct.
func (p *pkgInfo) structFields(name string) map[string]string {
	out := map[string]string{}
	for _, f := range p.files {
		ast.Inspect(f, func(n ast.Node) bool {
			ts, ok := n.(*ast.TypeSpec)
			if !ok || ts.Name.Name != name {
				return true
			}
			if st, ok := ts.Type.(*ast.StructType); ok {
				for _, fl := range st.Fields.List {
					for _, nm := range fl.Names {
						out[nm.Name] = src(fl.Type)
					}
				}
			}
			return false
		})
	}
	return out
}

func (p *pkgInfo) funcs() []*ast.FuncDecl {
	var out []*ast.FuncDecl
	for _, f := range p.files {
		for _, d := range f.Decls {
			if fd, ok := d.(*ast.FuncDecl); ok && fd.Body != nil {
				out = append(out, fd)
			}
		}
	}
	return out
}

func recvType(fd *ast.FuncDecl) string {
	if fd.Recv == nil || len(fd.Recv.List) != 1 {
		return ""
	}
	return strings.TrimPrefix(src(fd.Recv.List[0].Type), "*")
}

// buildsStruct: does the function contain a composite literal of the named struct type?
func buildsStruct(fd *ast.FuncDecl, name string) bool {
	found := false
	ast.Inspect(fd.Body, func(n ast.Node) bool {
		if cl, ok := n.(*ast.CompositeLit); ok && cl.Type != nil && src(cl.Type) == name {
			found = true
		}
		return true
	})
	return found
}

type fieldCall struct {
	field, method string
	call          *ast.CallExpr
}

// fieldCalls: calls of the form <expr>.<field>.<method>(…) with field in the given set.
func fieldCalls(body ast.Node, fields map[string]bool) []fieldCall {
	var out []fieldCall
	ast.Inspect(body, func(n ast.Node) bool {
		ce, ok := n.(*ast.CallExpr)
		if !ok {
			return true
		}
		se, ok := ce.Fun.(*ast.SelectorExpr)
		if !ok {
			return true
		}
		inner, ok := se.X.(*ast.SelectorExpr)
		if !ok || !fields[inner.Sel.Name] {
			return true
		}
		out = append(out, fieldCall{inner.Sel.Name, se.Sel.Name, ce})
		return true
	})
	return out
}

func isAtomic(t string) bool { return strings.HasPrefix(t, "atomic.") }

func positiveLiteral(e ast.Expr) (string, bool) {
	if bl, ok := e.(*ast.BasicLit); ok && bl.Kind == token.INT && bl.Value != "0" {
		return bl.Value, true
	}
	return "", false
}

func main() {
	root := os.Args[1]
	tr := load(filepath.Join(root, "internal/transport"))
	pe := load(filepath.Join(root, "internal/peer"))

	var violations []string
	path, addDelta := "unknown", ""
	recognised := true

	// counter fields of the allocator
	allocFields := tr.structFields("StreamIDAllocator")
	trCounters := map[string]bool{}
	for f, t := range allocFields {
		if isAtomic(t) {
			trCounters[f] = true
		}
	}
	if len(trCounters) == 0 {
		recognised = false
	}

	// the call path: Connection.NextStreamID
	connFields := pe.structFields("Connection")
	peCounters := map[string]bool{}
	allocFieldOfConn := map[string]bool{}
	for f, t := range connFields {
		if strings.Contains(t, "StreamIDAllocator") {
			allocFieldOfConn[f] = true
		}
	}
	var nextSID *ast.FuncDecl
	for _, fd := range pe.funcs() {
		if fd.Name.Name == "NextStreamID" && recvType(fd) == "Connection" {
			nextSID = fd
		}
	}
	if nextSID == nil {
		recognised = false
	} else {
		atomicOfConn := map[string]bool{}
		for f, t := range connFields {
			if isAtomic(t) {
				atomicOfConn[f] = true
			}
		}
		own := fieldCalls(nextSID.Body, atomicOfConn)
		del := fieldCalls(nextSID.Body, allocFieldOfConn)
		for _, c := range own {
			peCounters[c.field] = true
		}
		switch {
		case len(own) == 0 && len(del) == 1 && del[0].method == "Next":
			path = "delegates"
		case len(own) > 0 && len(del) == 0:
			path = "own-counter"
		case len(own) == 0 && len(del) == 0:
			recognised = false
		default:
			path = "mixed"
			violations = append(violations, "peer.Connection.NextStreamID mixes "+src(nextSID.Body))
		}
		for _, c := range del {
			if c.method != "Next" {
				recognised = false // some other allocator method: not a shape this extractor knows
			}
		}
	}

	// every method call on a counter field, in both packages
	scan := func(p *pkgInfo, pkg, owner, allocMethod string, counters map[string]bool) {
		if len(counters) == 0 {
			return
		}
		for _, fd := range p.funcs() {
			calls := fieldCalls(fd.Body, counters)
			if len(calls) == 0 {
				continue
			}
			name := fd.Name.Name
			if rt := recvType(fd); rt != "" {
				name = rt + "." + name
			}
			isCtor := fd.Recv == nil && buildsStruct(fd, owner)
			isAlloc := recvType(fd) == owner && fd.Name.Name == allocMethod
			writes := 0
			for _, c := range calls {
				what := fmt.Sprintf("%s.%s: %s", pkg, name, src(c.call))
				switch c.method {
				case "Load":
				case "Store":
					if !isCtor {
						violations = append(violations, what)
					}
				case "Add":
					writes++
					if !isAlloc {
						violations = append(violations, what)
					} else if len(c.call.Args) != 1 {
						violations = append(violations, what)
					} else if v, ok := positiveLiteral(c.call.Args[0]); !ok {
						violations = append(violations, what)
					} else {
						addDelta = v
					}
				case "CompareAndSwap":
					writes++
					if !isAlloc {
						violations = append(violations, what)
					} else {
						recognised = false // a CAS loop: left to the behavioural checks
					}
				default: // Swap, And, Or, …
					writes++
					violations = append(violations, what)
				}
			}
			if isAlloc && writes > 1 {
				violations = append(violations, fmt.Sprintf("%s.%s writes the counter %d times", pkg, name, writes))
			}
		}
	}
	scan(tr, "transport", "StreamIDAllocator", "Next", trCounters)
	scan(pe, "peer", "Connection", "NextStreamID", peCounters)
	shape := "ok"
	if len(violations) > 0 {
		shape = "violation"
	} else if !recognised || (path == "delegates" && addDelta == "") {
		shape = "unknown"
	}
	fmt.Printf("shape=%s path=%s add=%s violations=%s\n", shape, path, addDelta, strings.Join(violations, ";"))
}
