//go:build ignore

// c38sites lists WHO puts a stream id on an outgoing stream-opening frame (go/ast over every
// non-test file below internal/ and cmd/).  An open site is a composite literal of protocol.Frame
// (or Frame inside package protocol) whose Type is one of the stream-opening frame types.  For each
// site the expression given as StreamID is traced inside the enclosing function: it must be an
// identifier with a single definition `id := <conn>.NextStreamID()`.
//
// usage: go run c38sites.go <repo root>      prints Lean source (MM/Gen/C38Sites.lean)
package main

import (
	"bytes"
	"fmt"
	"go/ast"
	"go/parser"
	"go/printer"
	"go/token"
	"os"
	"path/filepath"
	"sort"
	"strconv"
	"strings"
)

var fset = token.NewFileSet()

func src(n ast.Node) string {
	var b bytes.Buffer
	printer.Fprint(&b, fset, n)
	return strings.Join(strings.Fields(b.String()), " ")
}

var openTypes = map[string]bool{"FrameStreamOpen": true, "FrameUDPOpen": true, "FrameICMPOpen": true}

type site struct{ where, frame, source string }

func main() {
	root := os.Args[1]
	var sites []site
	var files []string
	for _, top := range []string{"internal", "cmd"} {
		filepath.Walk(filepath.Join(root, top), func(p string, info os.FileInfo, err error) error {
			if err == nil && !info.IsDir() && strings.HasSuffix(p, ".go") && !strings.HasSuffix(p, "_test.go") && !strings.HasPrefix(filepath.Base(p), "zz_verif") {
				files = append(files, p)
			}
			return nil
		})
	}
	sort.Strings(files)
	for _, fn := range files {
		f, err := parser.ParseFile(fset, fn, nil, 0)
		if err != nil {
			continue
		}
		rel, _ := filepath.Rel(root, fn)
		for _, d := range f.Decls {
			fd, ok := d.(*ast.FuncDecl)
			if !ok || fd.Body == nil {
				continue
			}
			// definitions of identifiers in this function: name -> list of RHS texts
			defs := map[string][]string{}
			ast.Inspect(fd.Body, func(n ast.Node) bool {
				switch st := n.(type) {
				case *ast.AssignStmt:
					if len(st.Lhs) == len(st.Rhs) {
						for i, l := range st.Lhs {
							if id, ok := l.(*ast.Ident); ok {
								defs[id.Name] = append(defs[id.Name], src(st.Rhs[i]))
							}
						}
					} else {
						for _, l := range st.Lhs {
							if id, ok := l.(*ast.Ident); ok {
								defs[id.Name] = append(defs[id.Name], "multi:"+src(st.Rhs[0]))
							}
						}
					}
				case *ast.ValueSpec:
					for i, id := range st.Names {
						if i < len(st.Values) {
							defs[id.Name] = append(defs[id.Name], src(st.Values[i]))
						} else {
							defs[id.Name] = append(defs[id.Name], "zero")
						}
					}
				}
				return true
			})
			ast.Inspect(fd.Body, func(n ast.Node) bool {
				cl, ok := n.(*ast.CompositeLit)
				if !ok || cl.Type == nil {
					return true
				}
				if t := src(cl.Type); t != "protocol.Frame" && t != "Frame" {
					return true
				}
				var ftype, sid string
				for _, e := range cl.Elts {
					kv, ok := e.(*ast.KeyValueExpr)
					if !ok {
						continue
					}
					switch src(kv.Key) {
					case "Type":
						ftype = strings.TrimPrefix(src(kv.Value), "protocol.")
					case "StreamID":
						sid = src(kv.Value)
					}
				}
				if !openTypes[ftype] {
					return true
				}
				source := "other: " + sid
				if rhs, ok := defs[sid]; ok && len(rhs) == 1 && strings.HasSuffix(rhs[0], ".NextStreamID()") {
					source = "NextStreamID"
				} else if ok {
					source = "other: " + sid + " := " + strings.Join(rhs, " | ")
				}
				name := fd.Name.Name
				sites = append(sites, site{fmt.Sprintf("%s:%s", rel, name), ftype, source})
				return true
			})
		}
	}
	fmt.Println("-- GENERATED from /repo (go/ast over internal/ and cmd/) by harness/extract/c38sites.go. Do not edit.")
	fmt.Println("namespace MM.Gen.C38Sites")
	fmt.Println("structure Site where\n  site : String\n  frame : String\n  /-- \"NextStreamID\" when the id put on the frame is `<conn>.NextStreamID()` of the same function -/\n  source : String\n")
	fmt.Println("/-- every place that builds an outgoing stream-opening frame (STREAM_OPEN / UDP_OPEN / ICMP_OPEN) -/")
	fmt.Println("def openSites : List Site := [")
	for i, s := range sites {
		sep := ","
		if i == len(sites)-1 {
			sep = ""
		}
		fmt.Printf("  ⟨%s, %s, %s⟩%s\n", strconv.Quote(s.where), strconv.Quote(s.frame), strconv.Quote(s.source), sep)
	}
	fmt.Println("]")
	fmt.Println("end MM.Gen.C38Sites")
}
