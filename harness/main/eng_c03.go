//go:build verif && (all || c03)

package main

import (
	"bufio"
	"bytes"
	"encoding/hex"
	"fmt"
	"os"
	"strconv"

	"golang.org/x/crypto/curve25519"

	"github.com/postalsys/muti-metroo/internal/crypto"
)

// Engine c03: the real key establishment primitives.
//
//	kdf <secret32> <req> <ipub32> <rpub32> <isInit 0|1>         -> key <hex32>          DeriveSessionKey(...).Key()
//	kdf2 <secret32> <req1> <i1> <r1> <req2> <i2> <r2>           -> keys <k1> <k2>       two derivations from one secret
//	dh <priv32> <remote32>                                      -> ok <secret32> | err  ComputeECDH
//	pair <privI32> <privR32> <req>                              -> ok <key> | mismatch <kI> <kR> | err
//	     both roles on real X25519 key pairs: pubs by ScalarBaseMult, ComputeECDH on each side,
//	     DeriveSessionKey(…, pubI, pubR, true) vs DeriveSessionKey(…, pubI, pubR, false)
//	tunnel tcp|udp|fwd|file|shell <payload>                     -> as engine c04's `mesh` op
//	     one live tunnel of that kind through three real in-process agents: the payload only comes
//	     back if the initiator and responder call sites of that kind derived the same key
func c03Key32(s string) (k [crypto.KeySize]byte) {
	b := unhexTok(s)
	if len(b) != crypto.KeySize {
		panic("key token must be 32 bytes")
	}
	copy(k[:], b)
	return
}

// c03LowOrder: the first seven are the small-order points of Curve25519 incl. the non-canonical
// encodings p and p+1 of 0 and 1 (X25519 maps each to the all-zero output for every scalar, so
// ComputeECDH must refuse them). The last five are the same points plus p with bit 255 set (old
// libsodium blocklist): RFC 7748 masks bit 255, so they decode to ordinary points — they check that
// the real primitive and the reference agree on the masking, not that they are refused.
var c03LowOrder = []string{
	"0000000000000000000000000000000000000000000000000000000000000000",
	"0100000000000000000000000000000000000000000000000000000000000000",
	"e0eb7a7c3b41b8ae1656e3faf19fc46ada098deb9c32b1fd866205165f49b800",
	"5f9c95bca3508c24b1d0b1559c83ef5b04445cc4581c8e86d8224eddd09f1157",
	"ecffffffffffffffffffffffffffffffffffffffffffffffffffffffffffff7f",
	"edffffffffffffffffffffffffffffffffffffffffffffffffffffffffffff7f",
	"eeffffffffffffffffffffffffffffffffffffffffffffffffffffffffffff7f",
	"cdeb7a7c3b41b8ae1656e3faf19fc46ada098deb9c32b1fd866205165f49b880",
	"4c9c95bca3508c24b1d0b1559c83ef5b04445cc4581c8e86d8224eddd09f11d7",
	"d9ffffffffffffffffffffffffffffffffffffffffffffffffffffffffffffff",
	"daffffffffffffffffffffffffffffffffffffffffffffffffffffffffffffff",
	"dbffffffffffffffffffffffffffffffffffffffffffffffffffffffffffffff",
}

func init() {
	register("c03", &Engine{
		Run: func(line string) string {
			f := fields(line)
			switch {
			case f[0] == "kdf" && len(f) == 6:
				req, err := strconv.ParseUint(f[2], 10, 64)
				must(err)
				k := crypto.DeriveSessionKey(c03Key32(f[1]), req, c03Key32(f[3]), c03Key32(f[4]), f[5] == "1").Key()
				return "key " + hex.EncodeToString(k[:])
			case f[0] == "kdf2" && len(f) == 8:
				r1, err := strconv.ParseUint(f[2], 10, 64)
				must(err)
				r2, err := strconv.ParseUint(f[5], 10, 64)
				must(err)
				k1 := crypto.DeriveSessionKey(c03Key32(f[1]), r1, c03Key32(f[3]), c03Key32(f[4]), true).Key()
				k2 := crypto.DeriveSessionKey(c03Key32(f[1]), r2, c03Key32(f[6]), c03Key32(f[7]), true).Key()
				return "keys " + hex.EncodeToString(k1[:]) + " " + hex.EncodeToString(k2[:])
			case f[0] == "dh" && len(f) == 3:
				s, err := crypto.ComputeECDH(c03Key32(f[1]), c03Key32(f[2]))
				if err != nil {
					return "err"
				}
				return "ok " + hex.EncodeToString(s[:])
			case f[0] == "reset":
				return "ok"
			case f[0] == "hs" && c03Handshake != nil:
				return c03Handshake(f)
			case f[0] == "tunnel" && len(f) == 3 && c03Tunnel != nil:
				switch f[1] {
				case "tcp", "udp", "fwd", "file", "shell":
					return c03Tunnel(f[1], unhexTok(f[2]))
				}
				return "bad-op"
			case f[0] == "dhkey" && len(f) == 4:
				// what a responder call site does with a received key: ECDH, then derive
				req, err := strconv.ParseUint(f[3], 10, 64)
				must(err)
				remote := c03Key32(f[2])
				priv := c03Key32(f[1])
				var pub [crypto.KeySize]byte
				curve25519.ScalarBaseMult(&pub, &priv)
				sec, err := crypto.ComputeECDH(priv, remote)
				if err != nil {
					return "err"
				}
				k := crypto.DeriveSessionKey(sec, req, remote, pub, false).Key()
				return "key " + hex.EncodeToString(k[:]) + " secret " + hex.EncodeToString(sec[:])
			case f[0] == "pair" && len(f) == 4:
				privI, privR := c03Key32(f[1]), c03Key32(f[2])
				req, err := strconv.ParseUint(f[3], 10, 64)
				must(err)
				var pubI, pubR [crypto.KeySize]byte
				curve25519.ScalarBaseMult(&pubI, &privI)
				curve25519.ScalarBaseMult(&pubR, &privR)
				sI, err1 := crypto.ComputeECDH(privI, pubR)
				sR, err2 := crypto.ComputeECDH(privR, pubI)
				if err1 != nil || err2 != nil {
					return "err"
				}
				kI := crypto.DeriveSessionKey(sI, req, pubI, pubR, true).Key()
				kR := crypto.DeriveSessionKey(sR, req, pubI, pubR, false).Key()
				if !bytes.Equal(kI[:], kR[:]) {
					return "mismatch " + hex.EncodeToString(kI[:]) + " " + hex.EncodeToString(kR[:])
				}
				return "ok " + hex.EncodeToString(kI[:])
			}
			return "bad-op"
		},
		Gen: func(w *bufio.Writer, seed int64, tier string) {
			r := newRng(seed)
			n := 60
			if tier == "thorough" {
				n = 3000
			}
			h := func(b []byte) string { return hex.EncodeToString(b) }
			reqs := func() uint64 {
				switch r.intn(6) {
				case 0:
					return 0
				case 1:
					return ^uint64(0)
				case 2:
					return 1 << 63
				case 3:
					return uint64(r.intn(1000))
				}
				return r.u64()
			}
			key := func() []byte {
				switch r.intn(12) {
				case 0:
					return make([]byte, 32)
				case 1:
					return bytes.Repeat([]byte{0xff}, 32)
				}
				return r.bytes(32)
			}
			// every degenerate remote key against a few private keys — in EVERY encoding X25519 treats as
			// equal: RFC 7748 ignores bit 255, so each small-order point (incl. the non-canonical p, p+1)
			// also comes with the top bit set; plus the old "+p, bit 255 set" encodings, which are ordinary
			// points after masking
			for i, lo := range c03LowOrder {
				fmt.Fprintf(w, "dh %s %s\n", h(r.bytes(32)), lo)
				fmt.Fprintf(w, "dh %s %s\n", h(key()), lo)
				if i < 7 {
					hi := unhexTok(lo)
					hi[31] |= 0x80
					fmt.Fprintf(w, "dh %s %s\n", h(r.bytes(32)), h(hi))
					fmt.Fprintf(w, "dh %s %s\n", h(key()), h(hi))
					fmt.Fprintf(w, "dhkey %s %s %d\n", h(r.bytes(32)), h(hi), reqs())
				}
			}
			if c03HandshakeGen != nil {
				n := 1
				if tier == "thorough" {
					n = 10
				}
				c03HandshakeGen(w, r, n)
			}
			for _, kind := range []string{"tcp", "udp", "fwd", "file", "shell"} {
				reps := 1
				if tier == "thorough" {
					reps = 10
				}
				for j := 0; j < reps; j++ {
					fmt.Fprintf(w, "tunnel %s %s\n", kind, h(r.bytes(r.pick(32, 64, 500))))
				}
			}
			for i := 0; i < n; i++ {
				switch r.intn(10) {
				case 0, 1, 2:
					fmt.Fprintf(w, "kdf %s %d %s %s %d\n", h(key()), reqs(), h(key()), h(key()), r.intn(2))
				case 3, 4:
					// two derivations from one secret that differ in exactly one component (or in none)
					sec, q, a, b := key(), reqs(), r.bytes(32), r.bytes(32)
					q2, a2, b2 := q, append([]byte{}, a...), append([]byte{}, b...)
					switch r.intn(5) {
					case 0:
						q2 = q + 1
					case 1:
						a2[r.intn(32)] ^= 1 << uint(r.intn(8))
					case 2:
						b2[r.intn(32)] ^= 1 << uint(r.intn(8))
					case 3:
						a2, b2 = b2, a2 // swapped key order
					}
					fmt.Fprintf(w, "kdf2 %s %d %s %s %d %s %s\n", h(sec), q, h(a), h(b), q2, h(a2), h(b2))
				case 5, 6:
					remote := key()
					if r.chance(30) {
						var pub, priv [32]byte
						copy(priv[:], r.bytes(32))
						curve25519.ScalarBaseMult(&pub, &priv)
						remote = pub[:]
					}
					if r.chance(10) {
						remote = unhexTok(c03LowOrder[r.intn(len(c03LowOrder))])
					}
					fmt.Fprintf(w, "dh %s %s\n", h(key()), h(remote))
				default:
					fmt.Fprintf(w, "pair %s %s %d\n", h(r.bytes(32)), h(r.bytes(32)), reqs())
				}
			}
		},
		Facts: func(w *bufio.Writer) {
			sites, p, err := c03Sites()
			if err != nil || len(sites) == 0 {
				fmt.Fprintln(os.Stderr, "c03 facts: no DeriveSessionKey call sites found:", err)
				w.Flush()
				os.Exit(1)
			}
			pairsOK, detail := c03StructPairsOK(p)
			b := func(x bool) string {
				if x {
					return "true"
				}
				return "false"
			}
			role := map[string]string{"local": ".localPub", "remote": ".remotePub", "other": ".other"}
			fmt.Fprintf(w, "-- GENERATED from %s by `harness c03 facts` (go/ast). Do not edit.\n", c03RepoRoot())
			fmt.Fprintf(w, "import MM.Model.C03\nnamespace MM.Gen.C03\nopen MM.C03\n")
			fmt.Fprintf(w, "/-- struct literals storing an ephemeral private key store the public half of the same GenerateEphemeralKeypair() call (%s) -/\n", detail)
			fmt.Fprintf(w, "def structPairsOK : Bool := %s\n", b(pairsOK))
			fmt.Fprintf(w, "def sites : List Site := [\n")
			for i, s := range sites {
				isInit := "none"
				if s.IsInit == "true" || s.IsInit == "false" {
					isInit = "some " + s.IsInit
				}
				sep := ","
				if i == len(sites)-1 {
					sep = ""
				}
				fmt.Fprintf(w, "  -- ComputeECDH(%s, %s) at line %d; DeriveSessionKey(%s, %s, %s, %s, %s)\n", s.Priv, s.Remote, s.ECDHLine, s.Secret, s.Req, s.InitPub, s.RespPub, s.IsInit)
				fmt.Fprintf(w, "  { loc := %q, kind := %q, isInit := %s, initRole := %s, respRole := %s, secretFromECDH := %s, errChecked := %s, req := %q }%s\n",
					fmt.Sprintf("%s:%d %s", s.File, s.Line, s.Func), s.Kind, isInit, role[s.InitRole], role[s.RespRole], b(s.HasECDH), b(s.ErrChecked), s.Req, sep)
			}
			fmt.Fprintf(w, "]\nend MM.Gen.C03\n")
		},
	})
}
