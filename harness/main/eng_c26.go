//go:build verif && (all || c26)

package main

import (
	"bufio"
	"bytes"
	"fmt"
	"hash/fnv"
	"io"
	"os"
	"path/filepath"
	"sort"
	"strconv"
	"strings"

	"golang.org/x/crypto/bcrypt"
	"golang.org/x/text/unicode/norm"

	"github.com/postalsys/muti-metroo/internal/filetransfer"
)

// Engine c26: the real filetransfer.StreamHandler (validatePath through an accessor; the public
// ValidateDownloadMetadata + ReadFileForDownload, ValidateUploadMetadata + WriteUploadedFile, Browse)
// on real directory trees with symbolic links inside a throw-away sandbox R.
//
//	reset <enabled> <maxsize> <password hex|-> <n> <pattern hex>...   -> ok   ('@' at the start of a pattern / path = R)
//	(every request carries the presented password as a trailing hex token; ul also the declared size)
//	pre dir <p> | pre file <p> <content> | pre sym <p> <target> | pre hard <p> <old>   -> ok|err
//	val <path hex> <nfc hex>                  -> ok | err <class>
//	dl  <path> <nfc>                          -> ok file:<physical path>:<content> | ok dir:<physical path> | err <class>
//	ul  <path> <nfc> <content>                -> ok changed=<paths> | err <class> changed=<paths>
//	ls  <path> <nfc>                          -> ok names=<names> | err <class>
//	st  <path> <nfc>                          -> ok sym=<0|1> dir=<0|1> target=<t|-> | err <class>
//	cm  <path> <nfc>                          -> ok changed=<paths whose mode changed> | err <class>
//	rm  <path> <nfc> <recursive>              -> ok changed=<paths that disappeared> | err <class>
//
// Physical paths are printed relative to R with a leading '/'.  Which file a download read is
// observed through its content (every file has a unique token); what an upload / delete / chmod
// touched is observed by comparing listings (and modes) of the whole sandbox before and after.
var c26Base, c26Root string
var c26Case int
var c26H *filetransfer.StreamHandler
var c26Tok = map[string]string{}
var c26Hashes = map[string]string{}

const c26Chain = 48

func c26ChainIntact() bool {
	p := filepath.Join(c26Base, strconv.Itoa(c26Case))
	for i := 0; i <= c26Chain; i++ {
		ents, err := os.ReadDir(p)
		want := "z"
		if i == c26Chain {
			want = "r"
		}
		if err != nil || len(ents) != 1 || ents[0].Name() != want || !ents[0].IsDir() {
			return false
		}
		p = filepath.Join(p, want)
	}
	return true
}

func c26Setup() {
	if c26Base == "" {
		d, err := os.MkdirTemp("", "verif-c26-")
		must(err)
		d, err = filepath.EvalSymlinks(d)
		must(err)
		c26Base = d
	}
	c26Tok = map[string]string{}
	if c26Root != "" && c26ChainIntact() {
		ents, _ := os.ReadDir(c26Root)
		for _, e := range ents {
			must(os.RemoveAll(filepath.Join(c26Root, e.Name())))
		}
		return
	}
	if c26Root != "" {
		os.RemoveAll(filepath.Join(c26Base, strconv.Itoa(c26Case)))
	}
	c26Case++
	p := filepath.Join(c26Base, strconv.Itoa(c26Case))
	for i := 0; i < c26Chain; i++ {
		p = filepath.Join(p, "z")
	}
	p = filepath.Join(p, "r")
	must(os.MkdirAll(p, 0o755))
	c26Root = p
}

func c26At(s string) string {
	if strings.HasPrefix(s, "@") {
		return c26Root + s[1:]
	}
	return s
}

func c26Real(p string) string { return filepath.Join(c26Root, filepath.FromSlash(strings.TrimPrefix(p, "@"))) }

func c26Content(tok string) []byte {
	// the token text itself followed by pseudo-random padding up to the requested size: distinct
	// tokens always give distinct contents
	n := 0
	if i := strings.LastIndexByte(tok, 'x'); i >= 0 {
		n, _ = strconv.Atoi(tok[i+1:])
	}
	b := []byte(tok + ":")
	r := newRng(int64(len(tok)))
	h := fnv.New64a()
	h.Write([]byte(tok))
	r.s ^= h.Sum64()
	for len(b) < n {
		v := r.u64()
		for k := 0; k < 8 && len(b) < n; k++ {
			b = append(b, byte(v>>(8*k)))
		}
	}
	h2 := fnv.New64a()
	h2.Write(b)
	c26Tok[fmt.Sprintf("%d:%x", len(b), h2.Sum64())] = tok
	return b
}

func c26TokOf(b []byte) string {
	h := fnv.New64a()
	h.Write(b)
	if t, ok := c26Tok[fmt.Sprintf("%d:%x", len(b), h.Sum64())]; ok {
		return t
	}
	return fmt.Sprintf("?%d", len(b))
}

// listing: physical path -> description (kind, content token / link target), and modes
func c26Listing() (map[string]string, map[string]os.FileMode) {
	desc := map[string]string{}
	modes := map[string]os.FileMode{}
	filepath.Walk(c26Root, func(path string, info os.FileInfo, err error) error {
		if err != nil || path == c26Root {
			return nil
		}
		rel := "/" + filepath.ToSlash(strings.TrimPrefix(path, c26Root+"/"))
		switch {
		case info.Mode()&os.ModeSymlink != 0:
			t, _ := os.Readlink(path)
			desc[rel] = "l:" + t
		case info.IsDir():
			desc[rel] = "d"
			modes[rel] = info.Mode().Perm()
		default:
			b, _ := os.ReadFile(path)
			hh := fnv.New64a()
			hh.Write(b)
			desc[rel] = fmt.Sprintf("f:%s#%x", c26TokOf(b), hh.Sum64()) // the hash tells two unknown contents of equal length apart
			modes[rel] = info.Mode().Perm()
		}
		return nil
	})
	return desc, modes
}

// c26Esc prints a name / path as is when it is printable ASCII, else as hex:<bytes>.
func c26Esc(s string) string {
	for i := 0; i < len(s); i++ {
		if s[i] < 0x21 || s[i] > 0x7e {
			return "hex:" + hexTok([]byte(s))
		}
	}
	return s
}

func c26Join(paths []string) string {
	if len(paths) == 0 {
		return "-"
	}
	out := make([]string, len(paths))
	for i, p := range paths {
		out[i] = c26Esc(p)
	}
	sort.Strings(out)
	return strings.Join(out, ",")
}

func c26Class(msg string) string {
	switch {
	case strings.Contains(msg, "file transfer is disabled"):
		return "disabled"
	case strings.HasPrefix(msg, "path is required"):
		return "pathrequired"
	case strings.HasPrefix(msg, "authentication required"):
		return "authrequired"
	case strings.HasPrefix(msg, "authentication failed"):
		return "authfailed"
	case strings.HasPrefix(msg, "file too large"), strings.Contains(msg, "exceeds max size"):
		return "toolarge"
	case strings.HasPrefix(msg, "symlink target not allowed"), strings.HasPrefix(msg, "cannot resolve symlink"):
		return "symlink"
	case strings.HasPrefix(msg, "path contains dangerous characters"):
		return "invalid-dangerous"
	case strings.HasPrefix(msg, "path must be absolute"):
		return "invalid-notabs"
	case strings.HasPrefix(msg, "directory traversal not allowed"):
		return "invalid-traversal"
	case strings.HasPrefix(msg, "no paths are allowed"):
		return "invalid-emptylist"
	case strings.HasPrefix(msg, "path not in allowed list"):
		return "invalid-notallowed"
	case strings.HasPrefix(msg, "path not found"):
		return "notfound"
	case strings.HasPrefix(msg, "not a directory"):
		return "notdir"
	case strings.HasPrefix(msg, "directory is not empty"):
		return "notempty"
	case strings.HasPrefix(msg, "chmod failed"), strings.HasPrefix(msg, "delete failed"), strings.HasPrefix(msg, "failed to "):
		return "io"
	}
	return "other:" + strings.ReplaceAll(msg, " ", "_")
}

func c26Run(line string) string {
	f := fields(line)
	switch f[0] {
	case "reset":
		c26Setup()
		max, _ := strconv.ParseInt(f[2], 10, 64)
		n, _ := strconv.Atoi(f[4])
		var pats []string
		for i := 0; i < n; i++ {
			pats = append(pats, c26At(string(unhexTok(f[5+i]))))
		}
		hash := ""
		if pw := unhexTok(f[3]); len(pw) > 0 {
			h, ok := c26Hashes[string(pw)]
			if !ok {
				b, err := bcrypt.GenerateFromPassword(pw, bcrypt.MinCost)
				must(err)
				h = string(b)
				c26Hashes[string(pw)] = h
			}
			hash = h
		}
		c26H = filetransfer.NewStreamHandler(filetransfer.StreamConfig{Enabled: f[1] == "1", AllowedPaths: pats, MaxFileSize: max, PasswordHash: hash})
		return "ok"
	case "pre":
		var err error
		switch f[1] {
		case "dir":
			err = os.Mkdir(c26Real(f[2]), 0o755)
		case "file":
			err = os.WriteFile(c26Real(f[2]), c26Content(f[3]), 0o644)
		case "sym":
			err = os.Symlink(c26At(f[3]), c26Real(f[2]))
		case "hard":
			err = os.Link(c26Real(f[3]), c26Real(f[2]))
		}
		if err != nil {
			return "err"
		}
		return "ok"
	}
	path := c26At(string(unhexTok(f[1])))
	rel := func(p string) string {
		if p == c26Root {
			return "/"
		}
		return strings.TrimPrefix(p, c26Root)
	}
	switch f[0] {
	case "val":
		if err := filetransfer.VerifC26ValidatePath(c26H, path); err != nil {
			return "err " + c26Class(err.Error())
		}
		return "ok"
	case "dl":
		meta := &filetransfer.TransferMetadata{Path: path, Password: string(unhexTok(f[3]))}
		if err := c26H.ValidateDownloadMetadata(meta); err != nil {
			return "err " + c26Class(err.Error())
		}
		r, _, _, isDir, err := c26H.ReadFileForDownload(path, false)
		if err != nil {
			return "err " + c26Class(err.Error())
		}
		if isDir {
			io.Copy(io.Discard, r)
			phys, _ := filepath.EvalSymlinks(filepath.Clean(path))
			return "ok dir:" + c26Esc(rel(phys))
		}
		b, _ := io.ReadAll(r)
		if c, ok := r.(io.Closer); ok {
			c.Close()
		}
		tok := c26TokOf(b)
		// which physical file has this (unique) content
		desc, _ := c26Listing()
		var hits []string
		for p, d := range desc {
			if strings.HasPrefix(d, "f:"+tok+"#") {
				hits = append(hits, p)
			}
		}
		sort.Strings(hits)
		phys, _ := filepath.EvalSymlinks(filepath.Clean(path))
		who := "?"
		for _, h := range hits { // hard links share content: prefer the name the kernel resolved
			if h == rel(phys) {
				who = h
			}
		}
		if who == "?" && len(hits) > 0 {
			who = hits[0]
		}
		return "ok file:" + c26Esc(who) + ":" + tok
	case "ul":
		before, _ := c26Listing()
		decl, _ := strconv.ParseInt(f[5], 10, 64)
		meta := &filetransfer.TransferMetadata{Path: path, Mode: 0o644, Size: decl, Password: string(unhexTok(f[4]))}
		res := "ok"
		if err := c26H.ValidateUploadMetadata(meta); err != nil {
			return "err " + c26Class(err.Error())
		}
		if _, err := c26H.WriteUploadedFile(path, bytes.NewReader(c26Content(f[3])), 0o644, false, false); err != nil {
			res = "err " + c26Class(err.Error())
		}
		after, _ := c26Listing()
		var ch []string
		for p, d := range after {
			if before[p] != d {
				ch = append(ch, p)
			}
		}
		return res + " changed=" + c26Join(ch)
	case "ls":
		resp := c26H.Browse(&filetransfer.BrowseRequest{Action: "list", Path: path, Limit: 200, Password: string(unhexTok(f[3]))})
		if resp.Error != "" {
			return "err " + c26Class(resp.Error)
		}
		var names []string
		for _, e := range resp.Entries {
			names = append(names, e.Name)
		}
		return "ok names=" + c26Join(names)
	case "st":
		resp := c26H.Browse(&filetransfer.BrowseRequest{Action: "stat", Path: path, Password: string(unhexTok(f[3]))})
		if resp.Error != "" {
			return "err " + c26Class(resp.Error)
		}
		e := resp.Entry
		t := "-"
		if e.IsSymlink {
			t = e.LinkTarget
			if strings.HasPrefix(t, c26Root) {
				t = rel(t)
			}
			if t == "" {
				t = "-"
			}
		}
		b2s := map[bool]string{false: "0", true: "1"}
		return fmt.Sprintf("ok sym=%s dir=%s target=%s", b2s[e.IsSymlink], b2s[e.IsDir], c26Esc(t))
	case "cm":
		_, before := c26Listing()
		resp := c26H.Browse(&filetransfer.BrowseRequest{Action: "chmod", Path: path, Mode: "0711", Password: string(unhexTok(f[3]))})
		_, after := c26Listing()
		var ch []string
		for p, m := range after {
			if before[p] != m {
				ch = append(ch, p)
				os.Chmod(filepath.Join(c26Root, p), before[p])
			}
		}
		if fi, err := os.Stat(c26Root); err == nil && fi.Mode().Perm() != 0o755 {
			ch = append(ch, "/")
			os.Chmod(c26Root, 0o755)
		}
		if resp.Error != "" {
			return "err " + c26Class(resp.Error)
		}
		return "ok changed=" + c26Join(ch)
	case "rm":
		before, _ := c26Listing()
		resp := c26H.Browse(&filetransfer.BrowseRequest{Action: "delete", Path: path, Recursive: f[3] == "1", Password: string(unhexTok(f[4]))})
		after, _ := c26Listing()
		if resp.Error != "" {
			return "err " + c26Class(resp.Error)
		}
		var ch []string
		for p := range before {
			if _, ok := after[p]; !ok {
				ch = append(ch, p)
			}
		}
		return "ok changed=" + c26Join(ch)
	}
	return "bad-op"
}

func c26Gen(w *bufio.Writer, seed int64, tier string) {
	r := newRng(seed)
	hx := func(s string) string { return hexTok([]byte(s)) }
	cfgPw := ""
	req := func(op, p string, extra ...string) {
		fmt.Fprintf(w, "%s %s %s", op, hx(p), hx(norm.NFC.String(p)))
		for _, e := range extra {
			fmt.Fprintf(w, " %s", e)
		}
		if op != "val" { // the presented password: right most of the time, else absent / wrong
			pw := cfgPw
			if cfgPw != "" {
				switch r.intn(8) {
				case 0:
					pw = ""
				case 1:
					pw = cfgPw + "x"
				}
			} else if r.chance(10) {
				pw = "unasked"
			}
			fmt.Fprintf(w, " %s", hx(pw))
		}
		if op == "ul" {
			fmt.Fprintf(w, " %d", r.pick(-1, -1, 0, 5, 100, 101, 1000000))
		}
		fmt.Fprintln(w)
	}
	cases := 250
	if tier == "thorough" {
		cases = 6000
	}
	patSets := [][]string{
		{"@/data"}, {"@/data/**"}, {"@/data/*"}, {"@/data/pub", "@/data/in*"}, {"*"}, {}, {"@/data/"}, {"@/da"}, {"@/data/*.txt"},
		{"@/data/[a-c]*"}, {"@/data/?ub"}, {"/**"}, {"@/data/pub/../pub"}, {"@/data/in[", "@/data/pub"}, {"@/data/\\p*"}, {"data"}, {"@/*/pub"},
		{"@/data/[^p]*"}, {"@/data/p[u-u]b"},
	}
	for i := 0; i < cases; i++ {
		pats := patSets[r.intn(len(patSets))]
		en := 1
		if r.chance(4) {
			en = 0
		}
		cfgPw = ""
		if r.chance(30) {
			cfgPw = r.pickS("pw", "s3cret pass", "p\xc3\xa4ss")
		}
		maxSize := r.pick(0, 0, 0, 100, 60, 30000)
		fmt.Fprintf(w, "reset %d %d %s %d", en, maxSize, hx(cfgPw), len(pats))
		for _, p := range pats {
			fmt.Fprintf(w, " %s", hx(p))
		}
		fmt.Fprintln(w)
		wildcard := len(pats) == 1 && pats[0] == "*"
		// tree: /data (allowed area), /secret and /etc (outside), symbolic links at several depths
		tok := 0
		file := func(p string) { tok++; fmt.Fprintf(w, "pre file %s t%dx%d\n", p, tok, r.pick(0, 3, 10, 50, 60, 61, 100, 101, 150)) }
		fmt.Fprintln(w, "pre dir data")
		fmt.Fprintln(w, "pre dir data/pub")
		fmt.Fprintln(w, "pre dir data/in1")
		fmt.Fprintln(w, "pre dir data/pub/sub")
		fmt.Fprintln(w, "pre dir etc")
		fmt.Fprintln(w, "pre dir secret")
		fmt.Fprintln(w, "pre dir secret/deep")
		file("data/a.txt")
		file("data/pub/f")
		file("data/pub/sub/g")
		file("data/in1/h.txt")
		file("etc/passwd")
		file("secret/key")
		file("secret/deep/k2")
		file("database")
		if r.chance(30) {
			fmt.Fprintln(w, "pre dir data/empty")
		}
		links := [][2]string{
			{"data/pub/up", ".."}, {"data/pub/out", "../../secret"}, {"data/esc", "@/etc"}, {"data/pub/sub/rel", "../../../etc/passwd"},
			{"data/tofile", "a.txt"}, {"data/dangling", "nowhere"}, {"data/loop", "loop"}, {"data/pub/self", "."}, {"data/in1/key", "@/secret/key"},
			{"data/pub/inside", "sub"}, {"secret/back", "../data"}, {"data/pub/chain", "out/deep"}, {"data/pub/updir", "../in1"},
		}
		for _, l := range links {
			if r.chance(45) {
				fmt.Fprintf(w, "pre sym %s %s\n", l[0], l[1])
			}
		}
		if r.chance(20) {
			fmt.Fprintln(w, "pre hard data/pub/hl data/a.txt")
		}
		paths := []string{"@/data", "@/data/a.txt", "@/data/pub", "@/data/pub/f", "@/data/pub/sub/g", "@/data/in1/h.txt", "@/data/pub/up", "@/data/pub/up/a.txt",
			"@/data/pub/out", "@/data/pub/out/key", "@/data/pub/out/deep/k2", "@/data/esc", "@/data/esc/passwd", "@/data/pub/sub/rel", "@/data/tofile", "@/data/dangling",
			"@/data/loop", "@/data/pub/self/f", "@/data/in1/key", "@/data/pub/inside/g", "@/data/pub/chain", "@/data/pub/chain/k2", "@/data/pub/updir/h.txt",
			"@/secret/key", "@/etc/passwd", "@/database", "@/data/new.txt", "@/data/pub/newdir/n.txt", "@/data/esc/new", "@/data/pub/out/new", "@/data/empty", "@/data/pub/hl",
			"@/data/pub/up/pub/up/a.txt", "@/data/pub/out/../key", "@/secret/back/a.txt", "@/data/nosuch/x", "@/data/a.txt/x"}
		weird := func(p string) string {
			switch r.intn(16) {
			case 0:
				return p + "/"
			case 1:
				return p + "/."
			case 2:
				return strings.Replace(p, "/data", "/data/./", 1)
			case 3:
				return strings.Replace(p, "/data", "//data", 1)
			case 4:
				return p + "\x00"
			case 5:
				return p + "\x7f"
			case 6:
				return p + "\xc2\x85"
			case 7:
				return strings.TrimPrefix(p, "@/")
			case 8:
				return p + "/..x"
			case 9:
				return strings.Replace(p, "/data", "/data/pub/..", 1)
			case 10:
				return p + "/cafe\xcc\x81" // decomposed é: NFC changes it
			case 11:
				return p + "\xff\xfe"
			case 12:
				return p + "\t"
			case 13:
				return ""
			case 14:
				return strings.Replace(p, "/data", "/DATA", 1)
			default:
				return p + "/../" + r.pickS("a.txt", "pub", "x")
			}
		}
		nops := 4 + r.intn(10)
		for k := 0; k < nops; k++ {
			p := paths[r.intn(len(paths))]
			if r.chance(15) {
				p = weird(p)
			}
			if r.chance(1) { // long paths / long components (255 is the kernel's component limit)
				p = "@/data/" + strings.Repeat("n", r.pick(200, 255)) + "/" + strings.Repeat("m", r.pick(100, 255))
			}
			if wildcard && (!strings.HasPrefix(p, "@/") || strings.Contains(p, "..")) {
				p = paths[r.intn(len(paths))] // with "*" every absolute path is allowed: stay inside the sandbox
			}
			switch r.intn(12) {
			case 0, 1:
				req("val", p)
			case 2, 3, 4:
				req("dl", p)
			case 5, 6:
				tok++
				req("ul", p, fmt.Sprintf("u%dx%d", tok, r.pick(1, 7, 59, 60, 61, 99, 100, 101, 40000)))
			case 7, 8:
				req("ls", p)
			case 9:
				req("st", p)
			case 10:
				req("cm", p)
			default:
				req("rm", p, strconv.Itoa(r.intn(2)))
			}
		}
	}
	// chains of symbolic links as the FINAL component of a download (validateSymlinkTarget must follow
	// them to the end): hop1 -> hop2 -> ... -> a file or directory inside / outside the allowed area
	ends := []string{"../secret/key", "@/secret/key", "../secret", "a.txt", "pub", "@/etc/passwd", "nowhere", "../database"}
	for _, end := range ends {
		for hops := 1; hops <= 3; hops++ {
			if tier != "thorough" && r.chance(35) {
				continue
			}
			cfgPw = ""
			fmt.Fprintf(w, "reset 1 0 - 1 %s\n", hx(r.pickS("@/data", "@/data/**", "@/data/*")))
			fmt.Fprintln(w, "pre dir data")
			fmt.Fprintln(w, "pre dir data/pub")
			fmt.Fprintln(w, "pre dir secret")
			fmt.Fprintln(w, "pre dir etc")
			fmt.Fprintln(w, "pre file data/a.txt c1x5")
			fmt.Fprintln(w, "pre file secret/key c2x7")
			fmt.Fprintln(w, "pre file etc/passwd c3x9")
			fmt.Fprintln(w, "pre file database c4x4")
			for h := 1; h <= hops; h++ {
				t := fmt.Sprintf("hop%d", h+1)
				if h == hops {
					t = end
				}
				fmt.Fprintf(w, "pre sym data/hop%d %s\n", h, t)
			}
			req("dl", "@/data/hop1")
			req("st", "@/data/hop1")
			req("dl", "@/data/hop2")
			req("ls", "@/data/hop1")
		}
	}
	// pure validation: pattern forms x path forms
	val := 300
	if tier == "thorough" {
		val = 20000
	}
	pp := []string{"@/t", "@/t/", "@/t/**", "@/t/*", "@/t/*/x", "@/t/a?c", "@/t/[a-c]", "@/t/[^a]", "@/t/[a-", "@/t/[]", "@/t/\\*", "@/t/*.txt", "@/t/a*b*c", "@/t*", "**", "@/t/**/x", "@/t/[\xc3\xa9]", "@/t/?", "@/t/a\\", "@/t/[a\\]]", "@/t/[--0]"}
	vp := []string{"@/t", "@/t/x", "@/tt", "@/t/a/b", "@/t/abc", "@/t/a", "@/t/b", "@/t/d", "@/t/a.txt", "@/t/a/b.txt", "@/t/axxbyyc", "@/t/*", "@/tx", "@/t/x/x", "@/t/q/x", "@/", "@/t/\xc3\xa9", "@/t/e\xcc\x81", "@/t/\xff", "@/t/-", "@/t/]", "@/t/[a-", "@/t/a\\", "@/t/..", "@/t/a..b", "@/t/x/../y", "@/t/./x", "@/t//x", "t/x", "@/t/abc/d/e/f"}
	for i := 0; i < val; i++ {
		n := r.pick(1, 1, 2)
		fmt.Fprintf(w, "reset 1 0 - %d", n)
		for k := 0; k < n; k++ {
			fmt.Fprintf(w, " %s", hx(pp[r.intn(len(pp))]))
		}
		fmt.Fprintln(w)
		for k := 0; k < 6; k++ {
			req("val", vp[r.intn(len(vp))])
		}
	}
}

func init() {
	register("c26", &Engine{Run: c26Run, Gen: c26Gen})
}
