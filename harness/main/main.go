//go:build verif

// Command zz_verifharness is the correspondence harness of /verif. It is compiled
// inside /repo's module through `go build -overlay` (see /verif/lib/vlib.py), so it
// always links against the current working tree. One engine per property family;
// every engine file carries its own build tag so that a source change which breaks
// one engine's compilation does not take the others down.
//
//	harness <engine> gen <seed> <tier>   print an op script (one op per line) on stdout
//	harness <engine> run                 read an op script on stdin, print one output line per op
//	harness <engine> facts               print regenerated Lean facts (MM/Gen/<Engine>.lean) on stdout
//	harness list                         list compiled-in engines
package main

import (
	"bufio"
	"fmt"
	"os"
	"sort"
	"strconv"
	"strings"
)

// Engine is what each engine file registers.
type Engine struct {
	// Gen writes an op script for (seed, tier) to w. Lines starting with '#' are comments and
	// are ignored by both sides; a line "reset ..." starts a new independent case.
	Gen func(w *bufio.Writer, seed int64, tier string)
	// Run executes one op line against the real code and returns the canonical output line.
	// It is called sequentially; state lives in the engine. Panics are recovered by the caller.
	Run func(line string) string
	// Facts prints Lean source for MM/Gen/<Name>.lean (may be nil).
	Facts func(w *bufio.Writer)
}

var engines = map[string]*Engine{}

func register(name string, e *Engine) { engines[name] = e }

func main() {
	if len(os.Args) < 2 {
		fmt.Fprintln(os.Stderr, "usage: harness <engine> gen|run|facts ...")
		os.Exit(2)
	}
	if os.Args[1] == "list" {
		var names []string
		for n := range engines {
			names = append(names, n)
		}
		sort.Strings(names)
		fmt.Println(strings.Join(names, " "))
		return
	}
	e, ok := engines[os.Args[1]]
	if !ok || len(os.Args) < 3 {
		fmt.Fprintf(os.Stderr, "unknown engine %q or missing mode\n", os.Args[1])
		os.Exit(2)
	}
	out := bufio.NewWriterSize(os.Stdout, 1<<16)
	defer out.Flush()
	switch os.Args[2] {
	case "gen":
		seed := int64(1)
		tier := "quick"
		if len(os.Args) > 3 {
			seed, _ = strconv.ParseInt(os.Args[3], 10, 64)
		}
		if len(os.Args) > 4 {
			tier = os.Args[4]
		}
		e.Gen(out, seed, tier)
	case "facts":
		if e.Facts != nil {
			e.Facts(out)
		}
	case "run":
		sc := bufio.NewScanner(os.Stdin)
		sc.Buffer(make([]byte, 1<<20), 1<<28)
		for sc.Scan() {
			line := sc.Text()
			if strings.HasPrefix(line, "#") || strings.TrimSpace(line) == "" {
				continue
			}
			fmt.Fprintln(out, safeRun(e, line))
			out.Flush() // per line: a crash must not lose earlier answers
		}
	default:
		fmt.Fprintf(os.Stderr, "unknown mode %q\n", os.Args[2])
		os.Exit(2)
	}
}

func safeRun(e *Engine, line string) (res string) {
	defer func() {
		if r := recover(); r != nil {
			res = "panic " + strings.ReplaceAll(strings.ReplaceAll(fmt.Sprint(r), "\n", " "), " ", "_")
		}
	}()
	return e.Run(line)
}
