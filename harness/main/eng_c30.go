//go:build verif && (all || c30)

package main

import (
	"bufio"
	"encoding/json"
	"fmt"
	"os"
	"path/filepath"
	"strconv"
	"strings"
	"sync"
	"time"

	"github.com/postalsys/muti-metroo/internal/agent"
	"github.com/postalsys/muti-metroo/internal/config"
	"github.com/postalsys/muti-metroo/internal/identity"
	"github.com/postalsys/muti-metroo/internal/protocol"
	"github.com/postalsys/muti-metroo/internal/sleep"
	"github.com/postalsys/muti-metroo/internal/verifhook"
)

// Engine c30: a real sleep.Manager driven one critical section at a time.
//
//	reset <n>                                              -> ok
//	sleep | wake | begin i | invoke i | ret i | end i      -> <res> st=<STATE> file=<STATE|NONE> ev=<events|->
//
// Sleep() and Wake() are single critical sections and are called synchronously. Each Poll() runs in
// its own goroutine and is parked at the two places where it holds no lock: the verif scheduling
// point "sleep.Poll.after-first-unlock" (between the SLEEPING->POLLING section and the OnPoll call)
// and inside the OnPoll callback. `ret i` (OnPoll returns, Poll waits PollDuration) has no effect
// on the manager and no place to park between it and the second section, so the harness lets the
// goroutine go at `end i`; the two orders are observationally the same. Only one goroutine moves
// at a time, so the hook and the callbacks know which Poll() they belong to.

type c30Thread struct {
	pc      int // 0 idle, 1 afterP1, 2 inCb, 3 waiting
	arrived chan string
	gate    chan struct{}
	done    chan struct{}
}

type c30World struct {
	m      *sleep.Manager
	dir    string
	th     []*c30Thread
	active int
	events []string
	dead   bool
	// stress mode: nothing is parked, callbacks are recorded under their own mutex
	free  bool
	smu   sync.Mutex
	trans []string
}

var c30W *c30World

func c30Park(w *c30World, where string) {
	if w.dead || w.free {
		return
	}
	t := w.th[w.active]
	t.arrived <- where
	<-t.gate
}

// c30NewManager builds a Manager on the world's data directory exactly as Agent.Start does: NewManager,
// SetCallbacks, LoadState (an absent file is not an error), and Sleep() if the loaded state is SLEEPING.
func c30NewManager(w *c30World) {
	cfg := config.Default().Sleep
	cfg.Enabled = true
	cfg.PersistState = true
	cfg.PollInterval = time.Hour // the poll timer never fires on its own: the script decides
	cfg.PollIntervalJitter = 0
	cfg.PollDuration = 0
	cfg.AutoSleepOnStart = false
	w.m = sleep.NewManager(cfg, w.dir, nil)
	w.m.SetCallbacks(sleep.Callbacks{
		OnSleep: func() error {
			if w.free {
				w.smu.Lock()
				w.trans = append(w.trans, "S")
				w.smu.Unlock()
				return nil
			}
			w.events = append(w.events, "OnSleep")
			return nil
		},
		OnWake: func() error {
			if w.free {
				w.smu.Lock()
				w.trans = append(w.trans, "W")
				w.smu.Unlock()
				return nil
			}
			w.events = append(w.events, "OnWake")
			return nil
		},
		OnPoll: func() error {
			if w.free {
				return nil
			}
			if !w.dead {
				w.events = append(w.events, fmt.Sprintf("OnPoll:%d", w.active))
			}
			c30Park(w, "inCb")
			return nil
		},
		OnPollEnd: func() error {
			if w.free {
				return nil
			}
			if !w.dead {
				w.events = append(w.events, fmt.Sprintf("OnPollEnd:%d", w.active))
			}
			return nil
		},
	})
	_ = w.m.LoadState()
	if w.m.GetState() == sleep.StateSleeping {
		_ = w.m.Sleep()
	}
}

func c30Reset(n int) string {
	c30ProbeWaitHook()
	if old := c30W; old != nil {
		old.dead = true
		for _, t := range old.th {
			if t.pc != 0 {
				close(t.gate) // let parked goroutines run to completion; their effects are ignored
			}
		}
		old.m.Stop()
		for _, t := range old.th {
			if t.pc != 0 {
				select {
				case <-t.done:
				case <-time.After(30 * time.Second):
				}
			}
		}
		os.RemoveAll(old.dir)
	}
	dir, err := os.MkdirTemp("", "verif-c30-")
	must(err)
	w := &c30World{dir: dir}
	for i := 0; i < n; i++ {
		w.th = append(w.th, &c30Thread{})
	}
	c30NewManager(w)
	verifhook.Point = func(name string) {
		switch name {
		case "sleep.Poll.after-first-unlock":
			c30Park(w, "afterP1")
		case "sleep.Poll.before-second-lock":
			c30Park(w, "waiting")
		}
	}
	c30W = w
	return "ok"
}

// c30HasWaitHook: does this tree have the scheduling point between Poll's wait and its second critical
// section (fixes/hook-sleep-poll-wait.patch)? Probed once on a throw-away manager. Without it `ret i`
// cannot be forced separately (it has no effect on the manager) and the goroutine is let go at `end i`.
var c30WaitHook, c30WaitHookProbed bool

func c30ProbeWaitHook() bool {
	if c30WaitHookProbed {
		return c30WaitHook
	}
	c30WaitHookProbed = true
	dir, err := os.MkdirTemp("", "verif-c30p-")
	must(err)
	defer os.RemoveAll(dir)
	cfg := config.Default().Sleep
	cfg.Enabled, cfg.PersistState, cfg.PollInterval, cfg.PollIntervalJitter, cfg.PollDuration = true, false, time.Hour, 0, 0
	m := sleep.NewManager(cfg, dir, nil)
	old := verifhook.Point
	verifhook.Point = func(name string) {
		if name == "sleep.Poll.before-second-lock" {
			c30WaitHook = true
		}
	}
	_ = m.Sleep()
	_ = m.Poll()
	m.Stop()
	verifhook.Point = old
	return c30WaitHook
}

func c30File(w *c30World) string {
	b, err := os.ReadFile(filepath.Join(w.dir, "sleep_state.json"))
	if err != nil {
		return "NONE"
	}
	var ps struct {
		State sleep.State `json:"state"`
	}
	if json.Unmarshal(b, &ps) != nil {
		return "CORRUPT"
	}
	return ps.State.String()
}

func c30Out(w *c30World, res string) string {
	ev := strings.Join(w.events, ",")
	if ev == "" {
		ev = "-"
	}
	w.events = nil
	return fmt.Sprintf("%s st=%s file=%s ev=%s", res, w.m.GetState(), c30File(w), ev)
}

func c30Err(err error) string {
	switch err {
	case nil:
		return "ok"
	case sleep.ErrAlreadySleeping:
		return "err-already-sleeping"
	case sleep.ErrNotSleeping:
		return "err-not-sleeping"
	}
	return "err-other"
}

// Agent level: the real Agent.doPoll (OnPoll callback of the real agent), parked at the verif
// scheduling point "agent.doPoll.before-disconnect" between its state check and DisconnectAll().
//
//	reset-agent | asleep | awake | dpstart | dprelease   -> <res> st=<STATE>
type c30AgentWorld struct {
	long    bool // long poll duration: a started doPoll stays in its wait
	waiting bool
	cmdSeq  uint64
	a       *agent.Agent
	dir     string
	parked  bool
	arrived chan struct{}
	gate    chan struct{}
	done    chan struct{}
}

var c30A *c30AgentWorld

func c30AgentReset(long bool) string {
	if old := c30A; old != nil {
		if old.parked {
			close(old.gate)
			<-old.done
		}
		old.a.VerifC30Close()
		if old.waiting {
			<-old.done
		}
		os.RemoveAll(old.dir)
	}
	dir, err := os.MkdirTemp("", "verif-c30a-")
	must(err)
	cfg := config.Default()
	cfg.Agent.DataDir = dir
	cfg.Agent.LogLevel = "error"
	cfg.Sleep.Enabled = true
	cfg.Sleep.PollInterval = time.Hour
	cfg.Sleep.PollIntervalJitter = 0
	cfg.Sleep.PollDuration = 20 * time.Millisecond
	if long {
		cfg.Sleep.PollDuration = time.Hour
	}
	w := &c30AgentWorld{dir: dir, long: long}
	a, err := agent.VerifC30New(cfg, func() error { return nil }, func() error { return nil })
	must(err)
	w.a = a
	verifhook.Point = func(name string) {
		if name == "agent.doPoll.before-disconnect" {
			w.arrived <- struct{}{}
			<-w.gate
		}
	}
	c30A = w
	return "ok"
}

func c30AgentRun(f []string) string {
	w := c30A
	st := func(res string) string { return fmt.Sprintf("%s st=%s", res, w.a.VerifC30SleepMgr().GetState()) }
	switch f[0] {
	case "asleep":
		if err := w.a.VerifC30SleepMgr().Sleep(); err != nil {
			return st("refused")
		}
		return st("ok")
	case "awake":
		if err := w.a.VerifC30SleepMgr().Wake(); err != nil {
			return st("refused")
		}
		return st("ok")
	case "wakecmd": // a WAKE_COMMAND frame through the agent's dispatcher (no signing key: accepted when new)
		w.cmdSeq++
		wc := &protocol.WakeCommand{OriginAgent: identity.AgentID{0xA0, 4, 4, 4, 4, 4, 4, 4, 4, 4, 4, 4, 4, 4, 4, 4}, CommandID: w.cmdSeq, Timestamp: uint64(time.Now().Unix())}
		was := w.a.VerifC30SleepMgr().GetState()
		w.a.VerifC30Process(identity.AgentID{0xA0, 1, 1, 1, 1, 1, 1, 1, 1, 1, 1, 1, 1, 1, 1, 1}, &protocol.Frame{Type: protocol.FrameWakeCommand, StreamID: protocol.ControlStreamID, Payload: wc.Encode()})
		res := "ok"
		if was == sleep.StateAwake {
			res = "refused"
		}
		dp := "none"
		if w.waiting {
			select {
			case <-w.done:
				dp, w.waiting = "returned", false
			case <-time.After(120 * time.Second):
				dp = "still-waiting"
			}
		}
		return st(res) + " dp=" + dp
	case "dpstart":
		if w.parked || w.waiting {
			return st("disabled")
		}
		if w.long {
			w.arrived, w.gate, w.done = make(chan struct{}), make(chan struct{}), make(chan struct{})
			go func(done chan struct{}) {
				defer close(done)
				_ = w.a.VerifC30DoPoll()
			}(w.done)
			for deadline := time.Now().Add(120 * time.Second); !w.a.VerifC30InPoll(); {
				if time.Now().After(deadline) {
					return st("stuck")
				}
				time.Sleep(time.Millisecond)
			}
			w.waiting = true
			return st("waiting")
		}
		w.arrived, w.gate, w.done = make(chan struct{}), make(chan struct{}), make(chan struct{})
		go func(done chan struct{}) {
			defer close(done)
			_ = w.a.VerifC30DoPoll()
		}(w.done)
		select {
		case <-w.arrived:
			w.parked = true
			return st("parked")
		case <-w.done:
			return st("returned")
		case <-time.After(120 * time.Second):
			return st("stuck")
		}
	case "dprelease":
		if !w.parked {
			return st("disabled")
		}
		out := st("disconnected") // state at the moment DisconnectAll() is about to run
		w.gate <- struct{}{}
		<-w.done
		w.parked = false
		return out
	}
	return "bad-op"
}

// c30Stress: directly after `reset`, G goroutines call Sleep/Wake/Poll at random. Sleep() and Wake()
// each check and change the state in one critical section and run their callback inside it, so
// the OnSleep/OnWake callbacks must strictly alternate starting with OnSleep, the final state must
// agree with the last callback, and once everything has returned the state file must agree with
// the state. (A change that splits check and write lets two Sleep() calls both run OnSleep.)
func c30Stress(w *c30World, f []string) string {
	g, _ := strconv.Atoi(f[1])
	iters, _ := strconv.Atoi(f[2])
	seed, _ := strconv.ParseInt(f[3], 10, 64)
	for _, t := range w.th {
		if t.pc != 0 {
			return "stress-not-at-start"
		}
	}
	w.free = true
	var wg sync.WaitGroup
	for i := 0; i < g; i++ {
		wg.Add(1)
		go func(r *rng) {
			defer wg.Done()
			for j := 0; j < iters; j++ {
				switch r.intn(3) {
				case 0:
					_ = w.m.Sleep()
				case 1:
					_ = w.m.Wake()
				default:
					_ = w.m.Poll()
				}
			}
		}(newRng(seed*1000 + int64(i)))
	}
	wg.Wait()
	w.free = false
	for i, x := range w.trans {
		want := "S"
		if i%2 == 1 {
			want = "W"
		}
		if x != want {
			return fmt.Sprintf("stress-fail callbacks-do-not-alternate-at-%d", i)
		}
	}
	st := w.m.GetState()
	if n := len(w.trans); n > 0 {
		if (w.trans[n-1] == "W") != (st == sleep.StateAwake) {
			return "stress-fail state-disagrees-with-last-callback"
		}
		if file := c30File(w); file != st.String() {
			return "stress-fail persisted-state-differs-when-quiescent"
		}
	}
	w.trans = nil
	return "stress-ok"
}

func c30Run(line string) string {
	f := fields(line)
	switch f[0] {
	case "reset-agent":
		return c30AgentReset(len(f) > 1 && f[1] == "wait")
	case "asleep", "awake", "dpstart", "dprelease", "wakecmd":
		return c30AgentRun(f)
	}
	if f[0] == "reset" {
		n, _ := strconv.Atoi(f[1])
		return c30Reset(n)
	}
	w := c30W
	switch f[0] {
	case "stress":
		return c30Stress(w, f)
	case "restart", "restart-stop":
		// process restart at a quiescent point: a new Manager on the same data directory (restart-stop: after
		// the old one's graceful Stop(), which persists). Poll() invocations in flight cannot be killed
		// from here as a process exit would, so the step is only taken when none is.
		for _, t := range w.th {
			if t.pc != 0 {
				return c30Out(w, "disabled")
			}
		}
		if f[0] == "restart-stop" {
			w.m.Stop()
		}
		c30NewManager(w)
		return c30Out(w, "ok")
	case "sleep":
		return c30Out(w, c30Err(w.m.Sleep()))
	case "wake":
		return c30Out(w, c30Err(w.m.Wake()))
	}
	i, err := strconv.Atoi(f[1])
	must(err)
	if i >= len(w.th) {
		return c30Out(w, "disabled")
	}
	t := w.th[i]
	const limit = 120 * time.Second
	switch f[0] {
	case "begin":
		if t.pc != 0 {
			return c30Out(w, "disabled")
		}
		t.arrived, t.gate, t.done = make(chan string), make(chan struct{}), make(chan struct{})
		w.active = i
		go func(done chan struct{}) {
			defer close(done)
			_ = w.m.Poll()
		}(t.done)
		select {
		case <-t.arrived:
			t.pc = 1
			return c30Out(w, "ok")
		case <-t.done:
			return c30Out(w, "skipped")
		case <-time.After(limit):
			return c30Out(w, "stuck")
		}
	case "invoke":
		if t.pc != 1 {
			return c30Out(w, "disabled")
		}
		w.active = i
		t.gate <- struct{}{}
		select {
		case <-t.arrived:
			t.pc = 2
			return c30Out(w, "ok")
		case <-t.done:
			t.pc = 0
			return c30Out(w, "returned-without-onpoll")
		case <-time.After(limit):
			return c30Out(w, "stuck")
		}
	case "ret":
		if t.pc != 2 {
			return c30Out(w, "disabled")
		}
		if c30WaitHook { // OnPoll returns; Poll waits PollDuration and is parked before its second critical section
			w.active = i
			t.gate <- struct{}{}
			select {
			case <-t.arrived:
			case <-t.done:
				t.pc = 0
				return c30Out(w, "finished-at-ret")
			case <-time.After(limit):
				return c30Out(w, "stuck")
			}
		}
		t.pc = 3
		return c30Out(w, "ok")
	case "end":
		if t.pc != 3 {
			return c30Out(w, "disabled")
		}
		w.active = i
		t.gate <- struct{}{}
		select {
		case <-t.done:
		case <-time.After(limit):
			return c30Out(w, "stuck")
		}
		t.pc = 0
		res := "skipped"
		for _, e := range w.events {
			if strings.HasPrefix(e, "OnPollEnd:") {
				res = "ok"
			}
		}
		return c30Out(w, res)
	}
	return "bad-op"
}

// c30Gen: (a) every schedule of enabled steps up to a depth, two poll threads, by DFS over a replica
// of the control state (only used to know which labels are enabled); (b) long random schedules with
// three threads, including disabled labels and refused calls.
func c30Gen(w *bufio.Writer, seed int64, tier string) {
	depth, nrand := 9, 200
	if tier == "thorough" {
		depth, nrand = 12, 5000
	}
	type cs struct {
		st int // 0 awake 1 sleeping 2 polling
		pc [2]int
	}
	var path []string
	var dfs func(s cs, d int)
	count := 0
	dfs = func(s cs, d int) {
		if d == 0 {
			fmt.Fprintf(w, "reset 2\n")
			for _, p := range path {
				fmt.Fprintln(w, p)
			}
			count++
			return
		}
		try := func(op string, n cs) {
			path = append(path, op)
			dfs(n, d-1)
			path = path[:len(path)-1]
		}
		// Sleep / Wake (refused ones only as last step: they change nothing)
		if s.st == 0 {
			n := s
			n.st = 1
			try("sleep", n)
			if d == 1 {
				try("wake", s)
			}
		} else {
			n := s
			n.st = 0
			try("wake", n)
			if d == 1 {
				try("sleep", s)
			}
		}
		if s.pc == [2]int{} && len(path) > 0 && !strings.HasPrefix(path[len(path)-1], "restart") {
			try("restart", s) // process restart at a quiescent point resumes the persisted state
			if d == 1 {
				try("restart-stop", s)
			}
		}
		for i := 0; i < 2; i++ {
			n := s
			switch s.pc[i] {
			case 0:
				if s.st == 1 {
					n.st, n.pc[i] = 2, 1
					try(fmt.Sprintf("begin %d", i), n)
				} else if d == 1 {
					try(fmt.Sprintf("begin %d", i), s) // skipped
				}
			case 1:
				n.pc[i] = 2
				try(fmt.Sprintf("invoke %d", i), n)
			case 2:
				n.pc[i] = 3
				try(fmt.Sprintf("ret %d", i), n)
			case 3:
				n.pc[i] = 0
				if s.st != 0 {
					n.st = 1
				}
				try(fmt.Sprintf("end %d", i), n)
			}
		}
	}
	// always: restarts between completed transitions, with and without a graceful Stop()
	for _, sc := range [][]string{
		{"sleep", "restart", "wake", "restart", "sleep", "restart-stop", "wake", "restart-stop"},
		{"sleep", "begin 0", "invoke 0", "ret 0", "end 0", "restart", "wake", "restart", "wake"},
		{"sleep", "restart", "begin 0", "invoke 0", "ret 0", "end 0", "restart", "wake", "restart-stop", "sleep", "restart"},
		{"restart", "sleep", "wake", "restart", "sleep", "restart", "begin 1", "restart", "invoke 1", "wake", "ret 1", "end 1", "restart"},
		{"sleep", "restart-stop", "wake", "restart", "restart", "sleep", "wake", "restart-stop", "wake"},
	} {
		fmt.Fprintln(w, "reset 2")
		for _, o := range sc {
			fmt.Fprintln(w, o)
		}
	}
	dfs(cs{}, depth)
	r := newRng(seed)
	// agent level (real doPoll, 20 ms poll duration each): all schedules over {asleep, awake, dpstart, dprelease} of length 4
	// that contain a dpstart, plus a few random longer ones
	alpha := []string{"asleep", "awake", "dpstart", "dprelease"}
	for code := 0; code < 256; code++ {
		ops := []string{alpha[code&3], alpha[(code>>2)&3], alpha[(code>>4)&3], alpha[(code>>6)&3]}
		nstart := 0
		for _, o := range ops {
			if o == "dpstart" {
				nstart++
			}
		}
		if nstart != 1 || ops[0] != "asleep" {
			continue
		}
		fmt.Fprintln(w, "reset-agent")
		for _, o := range ops {
			fmt.Fprintln(w, o)
		}
	}
	nstress := 4
	if tier == "thorough" {
		nstress = 40
	}
	for c := 0; c < nstress; c++ {
		fmt.Fprintf(w, "reset 1\nstress %d %d %d\n", 4+r.intn(5), 200+r.intn(300), r.intn(1000))
	}
	na := 6
	if tier == "thorough" {
		na = 60
	}
	alpha2 := append(append([]string{}, alpha...), "wakecmd")
	for c := 0; c < na; c++ {
		fmt.Fprintln(w, "reset-agent")
		for s := 0; s < 6+r.intn(8); s++ {
			fmt.Fprintln(w, alpha2[r.intn(5)])
		}
	}
	// long poll duration: a started doPoll sits in its wait; a wake COMMAND ends it, a bare Wake() does not
	for _, sc := range [][]string{
		{"asleep", "dpstart", "wakecmd", "dpstart", "asleep", "dpstart", "awake", "wakecmd"},
		{"asleep", "dpstart", "awake", "asleep", "wakecmd", "wakecmd", "dpstart"},
		{"dpstart", "asleep", "dpstart", "wakecmd", "dprelease"},
	} {
		fmt.Fprintln(w, "reset-agent wait")
		for _, o := range sc {
			fmt.Fprintln(w, o)
		}
	}
	for c := 0; c < na; c++ {
		fmt.Fprintln(w, "reset-agent wait")
		for s := 0; s < 5+r.intn(8); s++ {
			fmt.Fprintln(w, alpha2[r.intn(5)])
		}
	}
	for c := 0; c < nrand; c++ {
		nt := 1 + r.intn(3)
		fmt.Fprintf(w, "reset %d\n", nt)
		steps := 8 + r.intn(30)
		for s := 0; s < steps; s++ {
			switch x := r.intn(100); {
			case x < 18:
				fmt.Fprintln(w, "sleep")
			case x < 36:
				fmt.Fprintln(w, "wake")
			case x < 44:
				fmt.Fprintln(w, r.pickS("restart", "restart", "restart-stop"))
			default:
				fmt.Fprintf(w, "%s %d\n", r.pickS("begin", "begin", "invoke", "invoke", "ret", "ret", "end", "end"), r.intn(nt+1))
			}
		}
	}
}

func init() {
	register("c30", &Engine{Run: c30Run, Gen: c30Gen})
}
