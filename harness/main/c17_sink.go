//go:build verif && (all || c16 || c17)

package main

import (
	"bytes"
	"net"
	"runtime/pprof"
	"strings"
	"sync"
	"time"
)

// Shared by the c16 (agent as exit + transit) and c17 (handler bookkeeping) engines.

// c17Sink is the destination: accepts connections, counts bytes per connection, notices closes.
type c17Sink struct {
	ln    net.Listener
	mu    sync.Mutex
	conns []net.Conn
	recv  []int
	gone  []bool // the other side (the handler) closed / reset the connection
	self  []bool // we closed it ourselves
}

func c17NewSink() *c17Sink {
	ln, err := net.Listen("tcp", "127.0.0.1:0")
	must(err)
	s := &c17Sink{ln: ln}
	go func() {
		for {
			c, err := ln.Accept()
			if err != nil {
				return
			}
			s.mu.Lock()
			i := len(s.conns)
			s.conns = append(s.conns, c)
			s.recv = append(s.recv, 0)
			s.gone = append(s.gone, false)
			s.self = append(s.self, false)
			s.mu.Unlock()
			go func() {
				buf := make([]byte, 65536)
				for {
					n, err := c.Read(buf)
					s.mu.Lock()
					s.recv[i] += n
					if err != nil {
						s.gone[i] = true
						s.mu.Unlock()
						return
					}
					s.mu.Unlock()
				}
			}()
		}
	}()
	return s
}

// c17TimedOut: after the first timeout (a broken tree) later waits give up quickly.
var c17TimedOut bool

func c17Wait(what string, cond func() bool) {
	limit := 8 * time.Second
	if c17TimedOut {
		limit = 100 * time.Millisecond
	}
	deadline := time.Now().Add(limit)
	for !cond() {
		if time.Now().After(deadline) {
			c17TimedOut = true
			panic("timeout waiting for " + what)
		}
		time.Sleep(200 * time.Microsecond)
	}
}

// readLoops counts live readLoop goroutines of both handlers.
func c17ReadLoops() int {
	var b bytes.Buffer
	pprof.Lookup("goroutine").WriteTo(&b, 2)
	n := 0
	for _, g := range strings.Split(b.String(), "\n\n") {
		// read loops of the exit and the port-forward exit handler only (udp.Handler has one per association too)
		if strings.Contains(g, "/exit.(*Handler).readLoop(") || strings.Contains(g, "/forward.(*Handler).readLoop(") {
			n++
		}
	}
	return n
}
