//go:build verif && (all || c21)

package main

import (
	"bufio"
	"context"
	"encoding/base64"
	"fmt"
	"net/http"
	"net/http/httptest"
	"strconv"
	"strings"
	"sync"
	"time"

	"golang.org/x/crypto/bcrypt"
	"nhooyr.io/websocket"

	"github.com/postalsys/muti-metroo/internal/agent"
	"github.com/postalsys/muti-metroo/internal/config"
	"github.com/postalsys/muti-metroo/internal/socks5"
)

// Engine c21: configuration -> Agent.buildSOCKS5Auth -> socks5.NewServer -> its Handler, driven
// with one client byte stream (ops `a`), and the HTTP Basic gate of the WebSocket listener with the
// store Agent.buildSOCKS5CredentialStore builds (ops `w`). Grammar: MM/Engine/C21.lean.
func init() {
	register("c21", &Engine{Run: c21Run, Gen: c21Gen})
}

var c21HashCache = map[string]string{}

func c21Hash(pw []byte) string {
	if h, ok := c21HashCache[string(pw)]; ok {
		return h
	}
	h, err := bcrypt.GenerateFromPassword(pw, bcrypt.MinCost)
	must(err)
	c21HashCache[string(pw)] = string(h)
	return string(h)
}

func c21Config(enabled, users string) *config.Config {
	cfg := config.Default()
	cfg.SOCKS5.Enabled = true
	cfg.SOCKS5.Auth.Enabled = enabled == "1"
	if users != "-" {
		for _, u := range strings.Split(users, "/") {
			p := strings.Split(u, ".")
			uc := config.SOCKS5UserConfig{Username: string(unhexTok(p[0])), Password: string(unhexTok(p[1]))}
			switch {
			case p[2] == "-":
			case p[2][0] == 'g':
				uc.PasswordHash = c21Hash(unhexTok(p[2][1:]))
			case p[2][0] == 'j':
				uc.PasswordHash = string(unhexTok(p[2][1:]))
			}
			cfg.SOCKS5.Auth.Users = append(cfg.SOCKS5.Auth.Users, uc)
		}
	}
	return cfg
}

func c21Run(line string) string {
	f := fields(line)
	switch {
	case (len(f) == 6 || len(f) == 7) && f[0] == "a":
		frag := 0
		if len(f) == 7 {
			frag, _ = strconv.Atoi(f[6][1:])
		}
		cfg := c21Config(f[1], f[2])
		w := &c23World{dial: f[3], udp: f[4][0], icmp: f[4][1]}
		// exactly what initComponents does: buildSOCKS5Auth -> ServerConfig.Authenticators -> NewServer
		srv := socks5.NewServer(socks5.ServerConfig{Address: "127.0.0.1:0", Authenticators: agent.VerifC21BuildAuth(cfg), Dialer: w})
		return c23Drive(srv.VerifC21Handler(), w, unhexTok(f[5]), frag)
	case len(f) == 4 && f[0] == "w":
		cfg := c21Config(f[1], f[2])
		// agent.Start: `if a.cfg.SOCKS5.Auth.Enabled { wsCfg.Credentials = a.buildSOCKS5CredentialStore() }`
		var creds socks5.CredentialStore
		if cfg.SOCKS5.Auth.Enabled {
			creds = agent.VerifC21CredStore(cfg)
		}
		req := httptest.NewRequest(http.MethodGet, "/socks5", nil)
		if f[3] != "-" {
			p := strings.Split(f[3], ".")
			req.SetBasicAuth(string(unhexTok(p[0])), string(unhexTok(p[1])))
		}
		rec := httptest.NewRecorder()
		h := socks5.NewHandler(agent.VerifC21BuildAuth(cfg), &c23World{dial: "f.other", udp: 'x', icmp: 'x'})
		must(socks5.VerifC21WSUpgrade(creds, h, rec, req))
		// past the gate the (header-less) request fails the WebSocket handshake with a 4xx other than 401
		if rec.Code == http.StatusUnauthorized {
			return "401"
		}
		return "pass"
	case (len(f) == 7 || len(f) == 8) && f[0] == "ws":
		return c21WS(f)
	}
	return "bad-op"
}

// c21WS: ws <enabled> <users> <basic> <dial> <udp><icmp> <input> — the agent's authenticators in a real
// socks5.Server, its real WebSocket listener (plaintext, loopback), and a real WebSocket client that
// offers the "socks5" subprotocol, sends the input as binary frames and collects the server's frames.
func c21WS(f []string) string {
	cfg := c21Config(f[1], f[2])
	w := &c23World{dial: f[4], udp: f[5][0], icmp: f[5][1]}
	srv := socks5.NewServer(socks5.ServerConfig{Address: "127.0.0.1:0", Authenticators: agent.VerifC21BuildAuth(cfg), Dialer: w})
	h := srv.VerifC21Handler()
	if w.udp != 'x' {
		h.SetUDPHandler(c23UDP{w})
	}
	if w.icmp != 'x' {
		h.SetICMPHandler(c23ICMP{w})
	}
	wsCfg := socks5.WebSocketConfig{Address: "127.0.0.1:0", PlainText: true}
	switch {
	case len(f) == 8 && f[7] == "c=nil": // a listener started directly, without an HTTP credential store
	case len(f) == 8 && f[7] != "c=agent": // … or with a store over another user list
		wsCfg.Credentials = agent.VerifC21CredStore(c21Config("1", f[7][2:]))
	case cfg.SOCKS5.Auth.Enabled: // agent.Start
		wsCfg.Credentials = agent.VerifC21CredStore(cfg)
	}
	must(srv.StartWebSocket(wsCfg))
	defer srv.StopWebSocket()
	ctx, cancel := context.WithTimeout(context.Background(), 8*time.Second)
	defer cancel()
	hdr := http.Header{}
	if f[3] == "m" {
		hdr.Set("Authorization", "Basic !!not-base64!!")
	} else if f[3] != "-" {
		p := strings.Split(f[3], ".")
		hdr.Set("Authorization", "Basic "+base64.StdEncoding.EncodeToString(append(append(unhexTok(p[0]), ':'), unhexTok(p[1])...)))
	}
	conn, resp, err := websocket.Dial(ctx, "ws://"+srv.WebSocketAddress()+"/socks5", &websocket.DialOptions{Subprotocols: []string{"socks5"}, HTTPHeader: hdr})
	if err != nil {
		if resp != nil && resp.StatusCode == http.StatusUnauthorized {
			return "401"
		}
		return "err ws-dial"
	}
	conn.SetReadLimit(1 << 20)
	var mu sync.Mutex
	var msgs [][]byte
	readerDone := make(chan struct{})
	go func() {
		defer close(readerDone)
		for {
			_, data, err := conn.Read(ctx)
			if err != nil {
				return
			}
			mu.Lock()
			msgs = append(msgs, data)
			mu.Unlock()
		}
	}()
	input := unhexTok(f[6])
	// several frames: the SOCKS5 stream is not aligned with WebSocket messages
	for len(input) > 0 {
		n := len(input)
		if n > 3 && len(input)%2 == 1 {
			n = 3
		}
		if err := conn.Write(ctx, websocket.MessageBinary, input[:n]); err != nil {
			break
		}
		input = input[n:]
	}
	// Barrier: a WebSocket ping. The server answers it from inside the handler's next Read, i.e. after
	// it has consumed and answered everything sent before; frames arrive in order, so when the pong
	// (or the server's close) is here, every message the input caused has been collected. This does not
	// depend on scheduling or on other goroutines in the process.
	pctx, pcancel := context.WithTimeout(ctx, 5*time.Second)
	pong := make(chan error, 1)
	go func() { pong <- conn.Ping(pctx) }()
	select {
	case perr := <-pong: // answered; on an error the server is gone: let the reader drain to its close
		if perr != nil {
			select {
			case <-readerDone:
			case <-time.After(2 * time.Second):
			}
		}
	case <-readerDone: // the server closed the connection: everything before its close frame was read
	case <-pctx.Done():
		pcancel()
		conn.CloseNow()
		return "timeout ws-ping"
	}
	pcancel()
	conn.CloseNow()
	closed := false
	for dl := time.Now().Add(5 * time.Second); time.Now().Before(dl); {
		if srv.WebSocketConnectionCount() == 0 {
			closed = true
			break
		}
		time.Sleep(200 * time.Microsecond)
	}
	if !closed {
		return "timeout ws-close"
	}
	mu.Lock()
	defer mu.Unlock()
	w.mu.Lock()
	defer w.mu.Unlock()
	parts := make([]string, len(msgs))
	for i, m := range msgs {
		parts[i] = hexTok(m)
	}
	r := "-"
	if len(parts) > 0 {
		r = strings.Join(parts, ",")
	}
	a := "none"
	if len(w.actions) > 0 {
		a = strings.Join(w.actions, "+")
	}
	return "r " + r + " a " + a
}

func c21Gen(w *bufio.Writer, seed int64, tier string) {
	r := newRng(seed)
	thorough := tier == "thorough"
	hx := func(s string) string { return hexTok([]byte(s)) }
	user := func(n, p, h string) string { return hx(n) + "." + hx(p) + "." + h }
	type ulist struct {
		users string
		valid [][2]string // credentials that must log in
	}
	userLists := []ulist{
		{"-", nil}, // enabled, empty list (the reproduced defect)
		{user("ghost", "", "-"), nil},                           // neither password nor hash
		{user("ghost", "", "-") + "/" + user("", "", "-"), nil}, // only unusable entries
		{user("alice", "pass", "-"), [][2]string{{"alice", "pass"}}},
		{user("alice", "", "g"+hx("pass")), [][2]string{{"alice", "pass"}}},
		{user("alice", "plain", "g"+hx("pass")), [][2]string{{"alice", "pass"}}}, // both: hash wins
		{user("alice", "pass", "-") + "/" + user("bob", "", "g"+hx("builder")), [][2]string{{"bob", "builder"}}}, // mixed: only hashed ones count
		{user("alice", "pass", "-") + "/" + user("alice", "other", "-"), [][2]string{{"alice", "other"}}},       // duplicate name: last wins
		{user("alice", "", "j"+hx("not-a-bcrypt-hash")), nil},                                                    // junk hash: nobody can log in
		{user("alice", "", "g-"), [][2]string{{"alice", ""}}},                                                    // hash of the empty password
		{user("", "pass", "-"), nil},                                                                             // empty user name can never be presented
		{user("alice", "pass", "-") + "/" + user("carol", "", "-") + "/" + user("bob", "builder", "-"), [][2]string{{"alice", "pass"}, {"bob", "builder"}}},
	}
	long255 := strings.Repeat("u", 254) + "Z"
	pw255 := strings.Repeat("p", 254) + "!"
	pw72 := strings.Repeat("h", 71) + "#"
	userLists = append(userLists,
		ulist{user(long255, pw255, "-"), [][2]string{{long255, pw255}}},
		ulist{user(long255, "", "g"+hx(pw72)), [][2]string{{long255, pw72}}},
		ulist{user("alice", "", "g"+hx("pass")) + "/" + user("alice", "", "g"+hx("other")), [][2]string{{"alice", "other"}}}, // duplicate hashed name: last wins
	)
	// bcrypt's 72-byte key: passwords of 71 / 72 bytes, and presented passwords of 71/72/73/200 bytes
	// sharing the prefix, plus the NUL forms
	p71 := strings.Repeat("k", 70) + "Q"
	p72 := p71 + "R"
	userLists = append(userLists,
		ulist{user("alice", "", "g"+hx(p71)), [][2]string{{"alice", p71}}},
		ulist{user("alice", "", "g"+hx(p72)), [][2]string{{"alice", p72}}},
		ulist{user("alice", "", "g"+hx("ab")), [][2]string{{"alice", "ab"}}},
	)
	longPws := []string{p71, p72, p72 + "S", p72 + strings.Repeat("z", 128), p71 + "X", p71[:70], p71 + "\x00", p71 + "\x00tail", "ab\x00ab", "ab\x00", "ab\x00ab\x00ab", "abab"}
	names := []string{"alice", "bob", "ghost", "carol", "", "Alice", "alic"}
	pws := []string{"pass", "builder", "", "other", "plain", "pas", "passs", "not-a-bcrypt-hash"}
	dials := []string{"ok.7f000001.8080", "f.other", "f.dns", "ok.-.0"}
	reqs := [][]byte{
		{5, 1, 0, 1, 127, 0, 0, 1, 0, 80},
		{5, 3, 0, 1, 0, 0, 0, 0, 0, 0},
		{5, 4, 0, 1, 10, 0, 0, 1, 0, 0},
		{5, 1, 0, 3, 1, 'x', 1, 187},
		{5, 2, 0, 1, 127, 0, 0, 1, 0, 80},
	}
	greetings := [][]byte{{5, 1, 0}, {5, 1, 2}, {5, 2, 0, 2}, {5, 2, 2, 0}, {5, 3, 1, 0, 2}, {5, 0}, {5, 1, 1}}
	up := func(n, p string) []byte {
		b := []byte{1, byte(len(n))}
		b = append(b, n...)
		b = append(b, byte(len(p)))
		return append(b, p...)
	}
	emit := func(en string, users string, dial, be string, in []byte) {
		if r.chance(20) { // fragmented delivery
			fmt.Fprintf(w, "a %s %s %s %s %s f%d\n", en, users, dial, be, hexTok(in), 1+r.intn(2))
			return
		}
		fmt.Fprintf(w, "a %s %s %s %s %s\n", en, users, dial, be, hexTok(in))
	}
	rounds := 1
	if thorough {
		rounds = 12
	}
	fullCross := 0
	for round := 0; round < rounds; round++ {
		for _, ule := range userLists {
			ul := ule.users
			for _, g := range greetings {
				for k := 0; k < 3; k++ {
					en := "1"
					if r.chance(12) {
						en = "0"
					}
					req := reqs[r.intn(len(reqs))]
					be := r.pickS("xx", "kf", "ff", "xx")
					var msg []byte
					switch r.intn(5) {
					case 0: // client skips authentication altogether
						msg = append(append([]byte{}, g...), req...)
					case 1: // bare request bytes that look like a sub-negotiation
						msg = append(append(append([]byte{}, g...), 1, 0, 0), req...)
					default:
						msg = append(append(append([]byte{}, g...), up(names[r.intn(len(names))], pws[r.intn(len(pws))])...), req...)
					}
					if r.chance(10) && len(msg) > 0 { // truncation
						msg = msg[:r.intn(len(msg))]
					}
					emit(en, ul, dials[r.intn(len(dials))], be, msg)
				}
			}
			// the honest logins, and near misses of them
			for _, c := range ule.valid {
				for k, req := range reqs {
					be := []string{"xx", "kf", "ff", "xx", "xx"}[k]
					emit("1", ul, dials[r.intn(len(dials))], be, append(append([]byte{5, 2, 0, 2}, up(c[0], c[1])...), req...))
				}
				emit("1", ul, "ok.7f000001.8080", "xx", append(append([]byte{5, 1, 2}, up(c[0], c[1]+"x")...), reqs[0]...))
				emit("1", ul, "ok.7f000001.8080", "xx", append(append([]byte{5, 1, 2}, up(c[0]+"x", c[1])...), reqs[0]...))
				fmt.Fprintf(w, "w 1 %s %s.%s\n", ul, hx(c[0]), hx(c[1]))
			}
			emit("1", ul, "ok.7f000001.8080", "xx", append(append([]byte{5, 1, 2}, up("alice", "pass")...), reqs[0]...))
			emit("1", ul, "ok.7f000001.8080", "kf", append(append([]byte{5, 2, 0, 2}, up("bob", "builder")...), reqs[1]...))
			// directed probes for EVERY configured entry (detection must not hinge on a lucky draw):
			// its name with the empty password, with the name as password, with the literal hash
			// string as password — on the TCP path, the HTTP Basic gate and the real WebSocket path
			if ul != "-" {
				for _, ent := range strings.Split(ul, "/") {
					fp := strings.Split(ent, ".")
					name := string(unhexTok(fp[0]))
					if name == "" || len(name) > 255 {
						continue
					}
					probes := []string{"", name}
					if len(fp[2]) > 1 && fp[2][0] == 'j' {
						probes = append(probes, string(unhexTok(fp[2][1:])))
					}
					if fp[1] != "-" {
						pw := string(unhexTok(fp[1]))
						probes = append(probes, pw, strings.ToUpper(pw))
					}
					for _, pr := range probes {
						if len(pr) > 255 {
							continue
						}
						emit("1", ul, "ok.7f000001.8080", "xx", append(append([]byte{5, 1, 2}, up(name, pr)...), reqs[0]...))
						fmt.Fprintf(w, "w 1 %s %s.%s\n", ul, hx(name), hx(pr))
					}
					fmt.Fprintf(w, "ws 1 %s %s.%s ok.7f000001.8080 xx %s\n", ul, hx(name), hx(""), hexTok(append(append([]byte{5, 1, 2}, up(name, "")...), reqs[0]...)))
				}
			}
			// the listener's own configuration: HTTP store {none, the agent's, another list} x Authorization
			// {absent, right, wrong password, other user, malformed} x RFC 1929 {right, wrong, empty} — the
			// handler's requirement must hold whatever the HTTP layer saw
			if len(ule.valid) > 0 && len(ule.valid[0][0]) < 100 && len(ule.valid[0][1]) < 100 {
				c := ule.valid[0]
				other := user("mallory", "m-pass", "-")
				wsx := func(hd, rp, st string) {
					msg := append(append([]byte{5, 1, 2}, up(c[0], rp)...), reqs[0]...)
					fmt.Fprintf(w, "ws 1 %s %s ok.7f000001.8080 xx %s %s\n", ul, hd, hexTok(msg), st)
				}
				right, wrongPw := hx(c[0])+"."+hx(c[1]), hx(c[0])+"."+hx(c[1]+"x")
				// always: the configurations that distinguish behaviours — a gate-less listener with a
				// plausible / wrong / absent header and wrong or empty RFC 1929 credentials; the agent's
				// gate passed honestly followed by a wrong RFC 1929 login; a foreign store
				wsx(right, c[1]+"x", "c=nil")
				wsx(wrongPw, c[1]+"x", "c=nil")
				wsx(right, "", "c=nil")
				wsx("-", c[1]+"x", "c=nil")
				wsx(right, c[1]+"x", "c=agent")
				wsx(right, c[1], "c=agent")
				wsx(hx("mallory")+"."+hx("m-pass"), c[1]+"x", "c="+other)
				// the full cross product only for two lists (one plaintext, one hashed) — more in thorough
				if fullCross < 2 || thorough {
					fullCross++
					for _, st := range []string{"c=nil", "c=agent", "c=" + other} {
						for _, hd := range []string{"-", right, wrongPw, hx("mallory") + "." + hx("m-pass"), "m"} {
							for _, rp := range []string{c[1], c[1] + "x", ""} {
								wsx(hd, rp, st)
							}
						}
					}
				}
				// and a client that skips RFC 1929 altogether behind a gate-less listener
				fmt.Fprintf(w, "ws 1 %s %s.%s ok.7f000001.8080 xx %s c=nil\n", ul, hx(c[0]), hx("zz"), hexTok(append([]byte{5, 1, 0}, reqs[0]...)))
			}
			// bcrypt key-length classes against this list, on all three paths
			if strings.Contains(ul, hx(p71)) || strings.Contains(ul, hx("ab")) {
				for _, lp := range longPws {
					emit("1", ul, "ok.7f000001.8080", "xx", append(append([]byte{5, 1, 2}, up("alice", lp)...), reqs[0]...))
					fmt.Fprintf(w, "w 1 %s %s.%s\n", ul, hx("alice"), hx(lp))
					if r.chance(50) {
						fmt.Fprintf(w, "ws 1 %s %s.%s ok.7f000001.8080 xx %s\n", ul, hx("alice"), hx(lp), hexTok(append(append([]byte{5, 1, 2}, up("alice", lp)...), reqs[0]...)))
					}
				}
			}
			// the real WebSocket listener and a real client: gate x SOCKS5 credentials
			for k := 0; k < 3; k++ {
				basic := "-"
				if len(ule.valid) > 0 && r.chance(70) {
					c := ule.valid[r.intn(len(ule.valid))]
					basic = hx(c[0]) + "." + hx(c[1])
				} else if r.chance(70) {
					basic = hx(names[r.intn(len(names))]) + "." + hx(pws[r.intn(len(pws))])
				}
				if strings.HasPrefix(basic, "-.") { // an empty user name cannot be written in the op's field syntax
					basic = "-"
				}
				en := "1"
				if r.chance(10) {
					en = "0"
				}
				var msg []byte
				g := greetings[r.intn(len(greetings))]
				switch {
				case len(ule.valid) > 0 && r.chance(50):
					c := ule.valid[r.intn(len(ule.valid))]
					msg = append(append(append([]byte{}, g...), up(c[0], c[1])...), reqs[r.intn(len(reqs))]...)
				case r.chance(50):
					msg = append(append([]byte{}, g...), reqs[0]...)
				default:
					msg = append(append(append([]byte{}, g...), up(names[r.intn(len(names))], pws[r.intn(len(pws))])...), reqs[0]...)
				}
				if r.chance(10) {
					msg = msg[:r.intn(len(msg)+1)]
				}
				fmt.Fprintf(w, "ws %s %s %s %s xx %s\n", en, ul, basic, dials[r.intn(len(dials))], hexTok(msg))
			}
			// WebSocket gate
			for k := 0; k < 4; k++ {
				en := "1"
				if r.chance(15) {
					en = "0"
				}
				basic := "-"
				if r.chance(80) {
					basic = hx(names[r.intn(len(names))]) + "." + hx(pws[r.intn(len(pws))])
				}
				fmt.Fprintf(w, "w %s %s %s\n", en, ul, basic)
			}
			fmt.Fprintf(w, "w 1 %s %s.%s\n", ul, hx("alice"), hx("pass"))
		}
	}
}
