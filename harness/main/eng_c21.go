//go:build verif && (all || c21)

package main

import (
	"bufio"
	"fmt"
	"net/http"
	"net/http/httptest"
	"strconv"
	"strings"

	"golang.org/x/crypto/bcrypt"

	"github.com/postalsys/muti-metroo/internal/agent"
	"github.com/postalsys/muti-metroo/internal/config"
	"github.com/postalsys/muti-metroo/internal/socks5"
)

// Engine c21: configuration -> Agent.buildSOCKS5Auth -> socks5.NewServer -> its Handler, driven
// with one client byte stream (ops `a`), and the HTTP Basic gate of the WebSocket listener with the
// store Agent.buildSOCKS5CredentialStore builds (ops `w`). Grammar: MM/Engine/C21.lean.
func init() {
	register("c21", &Engine{Run: c21Run, Gen: c21Gen})
}

var c21HashCache = map[string]string{}

func c21Hash(pw []byte) string {
	if h, ok := c21HashCache[string(pw)]; ok {
		return h
	}
	h, err := bcrypt.GenerateFromPassword(pw, bcrypt.MinCost)
	must(err)
	c21HashCache[string(pw)] = string(h)
	return string(h)
}

func c21Config(enabled, users string) *config.Config {
	cfg := config.Default()
	cfg.SOCKS5.Enabled = true
	cfg.SOCKS5.Auth.Enabled = enabled == "1"
	if users != "-" {
		for _, u := range strings.Split(users, "/") {
			p := strings.Split(u, ".")
			uc := config.SOCKS5UserConfig{Username: string(unhexTok(p[0])), Password: string(unhexTok(p[1]))}
			switch {
			case p[2] == "-":
			case p[2][0] == 'g':
				uc.PasswordHash = c21Hash(unhexTok(p[2][1:]))
			case p[2][0] == 'j':
				uc.PasswordHash = string(unhexTok(p[2][1:]))
			}
			cfg.SOCKS5.Auth.Users = append(cfg.SOCKS5.Auth.Users, uc)
		}
	}
	return cfg
}

func c21Run(line string) string {
	f := fields(line)
	switch {
	case (len(f) == 6 || len(f) == 7) && f[0] == "a":
		frag := 0
		if len(f) == 7 {
			frag, _ = strconv.Atoi(f[6][1:])
		}
		cfg := c21Config(f[1], f[2])
		w := &c23World{dial: f[3], udp: f[4][0], icmp: f[4][1]}
		// exactly what initComponents does: buildSOCKS5Auth -> ServerConfig.Authenticators -> NewServer
		srv := socks5.NewServer(socks5.ServerConfig{Address: "127.0.0.1:0", Authenticators: agent.VerifC21BuildAuth(cfg), Dialer: w})
		return c23Drive(srv.VerifC21Handler(), w, unhexTok(f[5]), frag)
	case len(f) == 4 && f[0] == "w":
		cfg := c21Config(f[1], f[2])
		// agent.Start: `if a.cfg.SOCKS5.Auth.Enabled { wsCfg.Credentials = a.buildSOCKS5CredentialStore() }`
		var creds socks5.CredentialStore
		if cfg.SOCKS5.Auth.Enabled {
			creds = agent.VerifC21CredStore(cfg)
		}
		req := httptest.NewRequest(http.MethodGet, "/socks5", nil)
		if f[3] != "-" {
			p := strings.Split(f[3], ".")
			req.SetBasicAuth(string(unhexTok(p[0])), string(unhexTok(p[1])))
		}
		rec := httptest.NewRecorder()
		h := socks5.NewHandler(agent.VerifC21BuildAuth(cfg), &c23World{dial: "f.other", udp: 'x', icmp: 'x'})
		must(socks5.VerifC21WSUpgrade(creds, h, rec, req))
		// past the gate the (header-less) request fails the WebSocket handshake with a 4xx other than 401
		if rec.Code == http.StatusUnauthorized {
			return "401"
		}
		return "pass"
	}
	return "bad-op"
}

func c21Gen(w *bufio.Writer, seed int64, tier string) {
	r := newRng(seed)
	thorough := tier == "thorough"
	hx := func(s string) string { return hexTok([]byte(s)) }
	user := func(n, p, h string) string { return hx(n) + "." + hx(p) + "." + h }
	type ulist struct {
		users string
		valid [][2]string // credentials that must log in
	}
	userLists := []ulist{
		{"-", nil}, // enabled, empty list (the reproduced defect)
		{user("ghost", "", "-"), nil},                           // neither password nor hash
		{user("ghost", "", "-") + "/" + user("", "", "-"), nil}, // only unusable entries
		{user("alice", "pass", "-"), [][2]string{{"alice", "pass"}}},
		{user("alice", "", "g"+hx("pass")), [][2]string{{"alice", "pass"}}},
		{user("alice", "plain", "g"+hx("pass")), [][2]string{{"alice", "pass"}}}, // both: hash wins
		{user("alice", "pass", "-") + "/" + user("bob", "", "g"+hx("builder")), [][2]string{{"bob", "builder"}}}, // mixed: only hashed ones count
		{user("alice", "pass", "-") + "/" + user("alice", "other", "-"), [][2]string{{"alice", "other"}}},       // duplicate name: last wins
		{user("alice", "", "j"+hx("not-a-bcrypt-hash")), nil},                                                    // junk hash: nobody can log in
		{user("alice", "", "g-"), [][2]string{{"alice", ""}}},                                                    // hash of the empty password
		{user("", "pass", "-"), nil},                                                                             // empty user name can never be presented
		{user("alice", "pass", "-") + "/" + user("carol", "", "-") + "/" + user("bob", "builder", "-"), [][2]string{{"alice", "pass"}, {"bob", "builder"}}},
	}
	long255 := strings.Repeat("u", 254) + "Z"
	pw255 := strings.Repeat("p", 254) + "!"
	pw72 := strings.Repeat("h", 71) + "#"
	userLists = append(userLists,
		ulist{user(long255, pw255, "-"), [][2]string{{long255, pw255}}},
		ulist{user(long255, "", "g"+hx(pw72)), [][2]string{{long255, pw72}}},
		ulist{user("alice", "", "g"+hx("pass")) + "/" + user("alice", "", "g"+hx("other")), [][2]string{{"alice", "other"}}}, // duplicate hashed name: last wins
	)
	names := []string{"alice", "bob", "ghost", "carol", "", "Alice", "alic"}
	pws := []string{"pass", "builder", "", "other", "plain", "pas", "passs", "not-a-bcrypt-hash"}
	dials := []string{"ok.7f000001.8080", "f.other", "f.dns", "ok.-.0"}
	reqs := [][]byte{
		{5, 1, 0, 1, 127, 0, 0, 1, 0, 80},
		{5, 3, 0, 1, 0, 0, 0, 0, 0, 0},
		{5, 4, 0, 1, 10, 0, 0, 1, 0, 0},
		{5, 1, 0, 3, 1, 'x', 1, 187},
		{5, 2, 0, 1, 127, 0, 0, 1, 0, 80},
	}
	greetings := [][]byte{{5, 1, 0}, {5, 1, 2}, {5, 2, 0, 2}, {5, 2, 2, 0}, {5, 3, 1, 0, 2}, {5, 0}, {5, 1, 1}}
	up := func(n, p string) []byte {
		b := []byte{1, byte(len(n))}
		b = append(b, n...)
		b = append(b, byte(len(p)))
		return append(b, p...)
	}
	emit := func(en string, users string, dial, be string, in []byte) {
		if r.chance(20) { // fragmented delivery
			fmt.Fprintf(w, "a %s %s %s %s %s f%d\n", en, users, dial, be, hexTok(in), 1+r.intn(2))
			return
		}
		fmt.Fprintf(w, "a %s %s %s %s %s\n", en, users, dial, be, hexTok(in))
	}
	rounds := 1
	if thorough {
		rounds = 12
	}
	for round := 0; round < rounds; round++ {
		for _, ule := range userLists {
			ul := ule.users
			for _, g := range greetings {
				for k := 0; k < 3; k++ {
					en := "1"
					if r.chance(12) {
						en = "0"
					}
					req := reqs[r.intn(len(reqs))]
					be := r.pickS("xx", "kf", "ff", "xx")
					var msg []byte
					switch r.intn(5) {
					case 0: // client skips authentication altogether
						msg = append(append([]byte{}, g...), req...)
					case 1: // bare request bytes that look like a sub-negotiation
						msg = append(append(append([]byte{}, g...), 1, 0, 0), req...)
					default:
						msg = append(append(append([]byte{}, g...), up(names[r.intn(len(names))], pws[r.intn(len(pws))])...), req...)
					}
					if r.chance(10) && len(msg) > 0 { // truncation
						msg = msg[:r.intn(len(msg))]
					}
					emit(en, ul, dials[r.intn(len(dials))], be, msg)
				}
			}
			// the honest logins, and near misses of them
			for _, c := range ule.valid {
				for k, req := range reqs {
					be := []string{"xx", "kf", "ff", "xx", "xx"}[k]
					emit("1", ul, dials[r.intn(len(dials))], be, append(append([]byte{5, 2, 0, 2}, up(c[0], c[1])...), req...))
				}
				emit("1", ul, "ok.7f000001.8080", "xx", append(append([]byte{5, 1, 2}, up(c[0], c[1]+"x")...), reqs[0]...))
				emit("1", ul, "ok.7f000001.8080", "xx", append(append([]byte{5, 1, 2}, up(c[0]+"x", c[1])...), reqs[0]...))
				fmt.Fprintf(w, "w 1 %s %s.%s\n", ul, hx(c[0]), hx(c[1]))
			}
			emit("1", ul, "ok.7f000001.8080", "xx", append(append([]byte{5, 1, 2}, up("alice", "pass")...), reqs[0]...))
			emit("1", ul, "ok.7f000001.8080", "kf", append(append([]byte{5, 2, 0, 2}, up("bob", "builder")...), reqs[1]...))
			// WebSocket gate
			for k := 0; k < 4; k++ {
				en := "1"
				if r.chance(15) {
					en = "0"
				}
				basic := "-"
				if r.chance(80) {
					basic = hx(names[r.intn(len(names))]) + "." + hx(pws[r.intn(len(pws))])
				}
				fmt.Fprintf(w, "w %s %s %s\n", en, ul, basic)
			}
			fmt.Fprintf(w, "w 1 %s %s.%s\n", ul, hx("alice"), hx("pass"))
		}
	}
}
