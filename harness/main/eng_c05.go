//go:build verif && (all || c05 || c06)

package main

import (
	"bufio"
	"errors"
	"fmt"
	"runtime"
	"strconv"
	"strings"
	"unsafe"

	"github.com/postalsys/muti-metroo/internal/identity"
	"github.com/postalsys/muti-metroo/internal/protocol"
)

// Engine c05: internal/protocol wire codecs (frame.go).
//
//	rt <kind> <tokens…>      tokens -> Go struct -> Encode -> Decode      -> ok <hex> | <tokens'>   or   ok <hex> | err
//	dec <kind> <hex>         Decode; then Decode(Encode(m)) compared to m  -> ok <tokens> re=ok|diff    or   err
//	alloc <kind> <hex>       heap bytes allocated by Decode                -> alloc ok | alloc big
//	frame <type> <flags> <streamID> <payload>   Frame.Encode               -> ok <hex> | err toolarge
//	unframe <hex>            protocol.Decode                               -> ok <type> <flags> <streamID> <payload> | err toolarge | err invalid
//
// Token rendering (shared with lean/MM/Model/C05Comb.lean): numbers decimal, byte strings and
// Go strings lower-case hex ("-" = empty), bools 0/1, lists = count followed by the items.

// ---- token writer / reader

type c05W struct{ out []string }

func (w *c05W) num(v uint64)   { w.out = append(w.out, strconv.FormatUint(v, 10)) }
func (w *c05W) hex(b []byte)   { w.out = append(w.out, hexTok(b)) }
func (w *c05W) str(s string)   { w.out = append(w.out, hexTok([]byte(s))) }
func (w *c05W) boolean(b bool) {
	if b {
		w.out = append(w.out, "1")
	} else {
		w.out = append(w.out, "0")
	}
}
func (w *c05W) ids(l []identity.AgentID) {
	w.num(uint64(len(l)))
	for _, id := range l {
		w.hex(id[:])
	}
}

type c05R struct {
	f []string
	i int
}

func (r *c05R) next() string {
	if r.i >= len(r.f) {
		panic("c05: token stream exhausted")
	}
	s := r.f[r.i]
	r.i++
	return s
}
func (r *c05R) num() uint64 {
	v, err := strconv.ParseUint(r.next(), 10, 64)
	must(err)
	return v
}
func (r *c05R) hex() []byte     { return unhexTok(r.next()) }
func (r *c05R) str() string     { return string(unhexTok(r.next())) }
func (r *c05R) boolean() bool   { return r.next() == "1" }
func (r *c05R) id() (id identity.AgentID) {
	b := r.hex()
	if len(b) != 16 {
		panic("c05: agent id token must be 16 bytes")
	}
	copy(id[:], b)
	return
}
func (r *c05R) ids() []identity.AgentID {
	n := int(r.num())
	l := make([]identity.AgentID, n)
	for i := range l {
		l[i] = r.id()
	}
	return l
}
func (r *c05R) key32() (k [32]byte) {
	b := r.hex()
	if len(b) != 32 {
		panic("c05: key token must be 32 bytes")
	}
	copy(k[:], b)
	return
}
func (r *c05R) sig64() (k [64]byte) {
	b := r.hex()
	if len(b) != 64 {
		panic("c05: signature token must be 64 bytes")
	}
	copy(k[:], b)
	return
}

// ---- per-kind adapters

type c05Kind struct {
	name   string
	from   func(r *c05R) any          // tokens -> struct
	to     func(w *c05W, m any)       // struct -> tokens
	enc    func(m any) []byte         // real Encode
	dec    func(b []byte) (any, error) // real Decode
	gen    func(r *rng) any           // structured random value (within wire limits, mostly)
}

var c05Kinds []*c05Kind
var c05ByName = map[string]*c05Kind{}

func c05Add(k *c05Kind) { c05Kinds = append(c05Kinds, k); c05ByName[k.name] = k }

// route <-> tokens (family, prefixLen, prefix, metric)
func c05RouteTo(w *c05W, rt *protocol.Route) {
	w.num(uint64(rt.AddressFamily))
	w.num(uint64(rt.PrefixLength))
	w.hex(rt.Prefix)
	w.num(uint64(rt.Metric))
}
func c05RouteFrom(r *c05R) protocol.Route {
	return protocol.Route{AddressFamily: uint8(r.num()), PrefixLength: uint8(r.num()), Prefix: r.hex(), Metric: uint16(r.num())}
}

func c05EffEnc(e *protocol.EncryptedData, plain []byte) *protocol.EncryptedData {
	if e != nil {
		return e
	}
	return &protocol.EncryptedData{Encrypted: false, Data: plain}
}

func c05AdvTo(w *c05W, m *protocol.RouteAdvertise) {
	w.hex(m.OriginAgent[:])
	w.str(m.OriginDisplayName)
	w.num(m.Sequence)
	w.num(uint64(len(m.Routes)))
	for i := range m.Routes {
		c05RouteTo(w, &m.Routes[i])
	}
	e := c05EffEnc(m.EncPath, protocol.EncodePath(m.Path))
	w.boolean(e.Encrypted)
	w.hex(e.Data)
	w.ids(m.SeenBy)
	if m.EncPath != nil && !m.EncPath.Encrypted { // decoded struct: Path must be the decoded plaintext path
		if p, err := protocol.DecodePath(m.EncPath.Data); err == nil && !c05SameIDs(p, m.Path) {
			w.out = append(w.out, "pathmismatch")
		}
	}
}
func c05SameIDs(a, b []identity.AgentID) bool {
	if len(a) != len(b) {
		return false
	}
	for i := range a {
		if a[i] != b[i] {
			return false
		}
	}
	return true
}
func c05AdvFrom(r *c05R) *protocol.RouteAdvertise {
	m := &protocol.RouteAdvertise{OriginAgent: r.id(), OriginDisplayName: r.str(), Sequence: r.num()}
	n := int(r.num())
	m.Routes = make([]protocol.Route, n)
	for i := range m.Routes {
		m.Routes[i] = c05RouteFrom(r)
	}
	enc, data := r.boolean(), r.hex()
	m.SeenBy = r.ids()
	if !enc {
		if p, err := protocol.DecodePath(data); err == nil && string(protocol.EncodePath(p)) == string(data) {
			m.Path = p // the form local originators use: plaintext Path, EncPath nil
			return m
		}
	}
	m.EncPath = &protocol.EncryptedData{Encrypted: enc, Data: data}
	if !enc { // same shape a decoder produces: Path = decoded plaintext (when it decodes)
		if p, err := protocol.DecodePath(data); err == nil {
			m.Path = p
		}
	}
	return m
}

func c05WdTo(w *c05W, m *protocol.RouteWithdraw) {
	w.hex(m.OriginAgent[:])
	w.num(m.Sequence)
	w.num(uint64(len(m.Routes)))
	for i := range m.Routes {
		c05RouteTo(w, &m.Routes[i])
	}
	w.ids(m.SeenBy)
}
func c05WdFrom(r *c05R) *protocol.RouteWithdraw {
	m := &protocol.RouteWithdraw{OriginAgent: r.id(), Sequence: r.num()}
	n := int(r.num())
	m.Routes = make([]protocol.Route, n)
	for i := range m.Routes {
		m.Routes[i] = c05RouteFrom(r)
	}
	m.SeenBy = r.ids()
	return m
}

func c05InfoTo(w *c05W, n *protocol.NodeInfo) {
	w.str(n.DisplayName)
	w.str(n.Hostname)
	w.str(n.OS)
	w.str(n.Arch)
	w.str(n.Version)
	w.num(uint64(n.StartTime))
	w.num(uint64(len(n.IPAddresses)))
	for _, s := range n.IPAddresses {
		w.str(s)
	}
	w.num(uint64(len(n.Peers)))
	for _, p := range n.Peers {
		w.hex(p.PeerID[:])
		w.str(p.Transport)
		w.num(uint64(p.RTTMs))
		w.boolean(p.IsDialer)
	}
	w.hex(n.PublicKey[:])
	w.boolean(n.UDPEnabled)
	w.num(uint64(len(n.ForwardListeners)))
	for _, f := range n.ForwardListeners {
		w.str(f.Key)
		w.str(f.Address)
	}
	w.num(uint64(len(n.Shells)))
	for _, s := range n.Shells {
		w.str(s)
	}
	w.boolean(n.FileTransferEnabled)
	w.boolean(n.ShellEnabled)
	w.boolean(n.IcmpEnabled)
}
func c05InfoFrom(r *c05R) *protocol.NodeInfo {
	n := &protocol.NodeInfo{DisplayName: r.str(), Hostname: r.str(), OS: r.str(), Arch: r.str(), Version: r.str(), StartTime: int64(r.num())}
	for i, c := 0, int(r.num()); i < c; i++ {
		n.IPAddresses = append(n.IPAddresses, r.str())
	}
	for i, c := 0, int(r.num()); i < c; i++ {
		var p protocol.PeerConnectionInfo
		id := r.id()
		p.PeerID = id
		p.Transport = r.str()
		p.RTTMs = int64(r.num())
		p.IsDialer = r.boolean()
		n.Peers = append(n.Peers, p)
	}
	n.PublicKey = r.key32()
	n.UDPEnabled = r.boolean()
	for i, c := 0, int(r.num()); i < c; i++ {
		n.ForwardListeners = append(n.ForwardListeners, protocol.ForwardListenerInfo{Key: r.str(), Address: r.str()})
	}
	for i, c := 0, int(r.num()); i < c; i++ {
		n.Shells = append(n.Shells, r.str())
	}
	n.FileTransferEnabled = r.boolean()
	n.ShellEnabled = r.boolean()
	n.IcmpEnabled = r.boolean()
	return n
}

func c05NiaTo(w *c05W, m *protocol.NodeInfoAdvertise) {
	w.hex(m.OriginAgent[:])
	w.num(m.Sequence)
	e := c05EffEnc(m.EncInfo, nil)
	if m.EncInfo == nil {
		e.Data = protocol.EncodeNodeInfo(&m.Info)
	}
	w.boolean(e.Encrypted)
	w.hex(e.Data)
	w.ids(m.SeenBy)
	if m.EncInfo != nil && !m.EncInfo.Encrypted { // decoded struct: Info must be the decoded plaintext
		if info, err := protocol.DecodeNodeInfo(m.EncInfo.Data); err == nil {
			a, b := &c05W{}, &c05W{}
			c05InfoTo(a, info)
			c05InfoTo(b, &m.Info)
			if strings.Join(a.out, " ") != strings.Join(b.out, " ") {
				w.out = append(w.out, "infomismatch")
			}
		}
	}
}
func c05NiaFrom(r *c05R) *protocol.NodeInfoAdvertise {
	m := &protocol.NodeInfoAdvertise{OriginAgent: r.id(), Sequence: r.num()}
	enc, data := r.boolean(), r.hex()
	m.SeenBy = r.ids()
	if !enc {
		if info, err := protocol.DecodeNodeInfo(data); err == nil && string(protocol.EncodeNodeInfo(info)) == string(data) {
			m.Info = *info // the form local originators use
			return m
		}
	}
	m.EncInfo = &protocol.EncryptedData{Encrypted: enc, Data: data}
	if !enc {
		if info, err := protocol.DecodeNodeInfo(data); err == nil {
			m.Info = *info
		}
	}
	return m
}

type c05Cmd struct {
	origin identity.AgentID
	id, ts uint64
	sig    [64]byte
	seen   []identity.AgentID
}

func c05CmdTo(w *c05W, c c05Cmd) {
	w.hex(c.origin[:])
	w.num(c.id)
	w.num(c.ts)
	w.hex(c.sig[:])
	w.ids(c.seen)
}
func c05CmdFrom(r *c05R) c05Cmd {
	return c05Cmd{origin: r.id(), id: r.num(), ts: r.num(), sig: r.sig64(), seen: r.ids()}
}
func c05Sleep(c c05Cmd) *protocol.SleepCommand {
	return &protocol.SleepCommand{OriginAgent: c.origin, CommandID: c.id, Timestamp: c.ts, Signature: c.sig, SeenBy: c.seen}
}
func c05Wake(c c05Cmd) *protocol.WakeCommand {
	return &protocol.WakeCommand{OriginAgent: c.origin, CommandID: c.id, Timestamp: c.ts, Signature: c.sig, SeenBy: c.seen}
}
func c05OfSleep(s *protocol.SleepCommand) c05Cmd {
	return c05Cmd{s.OriginAgent, s.CommandID, s.Timestamp, s.Signature, s.SeenBy}
}
func c05OfWake(s *protocol.WakeCommand) c05Cmd {
	return c05Cmd{s.OriginAgent, s.CommandID, s.Timestamp, s.Signature, s.SeenBy}
}

// stream-open-like: StreamOpen and UDPOpen share a layout
type c05Open struct {
	req   uint64
	at    uint8
	addr  []byte
	port  uint16
	ttl   uint8
	path  []identity.AgentID
	key   [32]byte
}

func c05OpenTo(w *c05W, o c05Open) {
	w.num(o.req)
	w.num(uint64(o.at))
	w.hex(o.addr)
	w.num(uint64(o.port))
	w.num(uint64(o.ttl))
	w.ids(o.path)
	w.hex(o.key[:])
}
func c05OpenFrom(r *c05R) c05Open {
	return c05Open{req: r.num(), at: uint8(r.num()), addr: r.hex(), port: uint16(r.num()), ttl: uint8(r.num()), path: r.ids(), key: r.key32()}
}

type c05Ack struct {
	req  uint64
	at   uint8
	addr []byte
	port uint16
	key  [32]byte
}

func c05AckTo(w *c05W, o c05Ack) {
	w.num(o.req)
	w.num(uint64(o.at))
	w.hex(o.addr)
	w.num(uint64(o.port))
	w.hex(o.key[:])
}
func c05AckFrom(r *c05R) c05Ack {
	return c05Ack{req: r.num(), at: uint8(r.num()), addr: r.hex(), port: uint16(r.num()), key: r.key32()}
}

type c05Err struct {
	req  uint64
	code uint16
	msg  string
}

func c05ErrTo(w *c05W, e c05Err) { w.num(e.req); w.num(uint64(e.code)); w.str(e.msg) }
func c05ErrFrom(r *c05R) c05Err  { return c05Err{r.num(), uint16(r.num()), r.str()} }

// ---- generators

func c05GenID(r *rng) (id identity.AgentID) {
	switch r.intn(8) {
	case 0: // zero id
	case 1:
		for i := range id {
			id[i] = 0xff
		}
	default:
		copy(id[:], r.bytes(16))
	}
	return
}
func c05GenIDs(r *rng) []identity.AgentID {
	n := r.pick(0, 0, 1, 1, 2, 3, 5, 16)
	if r.chance(3) {
		n = r.pick(254, 255)
	}
	if r.chance(1) { // over the 1-byte count
		n = r.pick(256, 257)
	}
	l := make([]identity.AgentID, n)
	for i := range l {
		l[i] = c05GenID(r)
	}
	return l
}
func c05GenU64(r *rng) uint64 {
	switch r.intn(6) {
	case 0:
		return 0
	case 1:
		return 1
	case 2:
		return ^uint64(0)
	case 3:
		return 1 << 63
	case 4:
		return uint64(r.intn(70000))
	}
	return r.u64()
}
func c05GenU16(r *rng) uint16 { return uint16(c05GenU64(r)) }
func c05GenU8(r *rng) uint8   { return uint8(c05GenU64(r)) }
// c05Big: low-probability stream of large / boundary sizes
func c05Big(r *rng, pct int, sizes ...int) (int, bool) {
	if r.chance(pct) {
		return sizes[r.intn(len(sizes))], true
	}
	return 0, false
}

func c05GenStr(r *rng) string {
	n := r.pick(0, 0, 1, 3, 5, 8, 12, 40)
	if r.chance(6) {
		n = r.pick(254, 255)
	}
	if r.chance(1) { // over the 1-byte length field: the encoder wraps the length byte
		n = r.pick(256, 257, 300)
	}
	b := r.bytes(n)
	if r.chance(70) {
		for i := range b {
			b[i] = "abcdefghijklmnopqrstuvwxyz0123456789.-_:/ "[int(b[i])%42]
		}
	}
	return string(b)
}
// data field sizes: mostly small, with a stream of boundary values around 255/256, 1472, 4096,
// 16384 and the 16-bit length field
func c05DataLen(r *rng) int {
	if n, ok := c05Big(r, 12, 255, 256, 257, 1472, 1473, 4095, 4096, 4097, 16383, 16384, 16385, 65535, 65536, 65537); ok {
		return n
	}
	return r.pick(0, 0, 1, 2, 20, 56, 300, 2000)
}

func c05GenKey(r *rng) (k [32]byte) {
	if !r.chance(10) {
		copy(k[:], r.bytes(32))
	}
	return
}
func c05GenSig(r *rng) (k [64]byte) {
	if !r.chance(30) { // zeros = unsigned command
		copy(k[:], r.bytes(64))
	}
	return
}

// address matching its type (the encoder's precondition); occasionally an unknown type
func c05GenAddr(r *rng, strict bool) (uint8, []byte) {
	switch r.intn(10) {
	case 0, 1, 2, 3:
		return protocol.AddrTypeIPv4, r.bytes(4)
	case 4, 5:
		return protocol.AddrTypeIPv6, r.bytes(16)
	case 6, 7, 8:
		if strict {
			n := r.pick(0, 1, 5, 11, 60, 255)
			return protocol.AddrTypeDomain, append([]byte{byte(n)}, r.bytes(n)...)
		}
		return protocol.AddrTypeIPv4, []byte{0, 0, 0, 0}
	}
	t := uint8(r.pick(0, 2, 5, 9, 255))
	if strict {
		return t, r.bytes(r.pick(0, 4))
	}
	return t, nil
}

func c05GenOpen(r *rng) c05Open {
	at, addr := c05GenAddr(r, true)
	return c05Open{c05GenU64(r), at, addr, c05GenU16(r), c05GenU8(r), c05GenIDs(r), c05GenKey(r)}
}
func c05GenAck(r *rng) c05Ack {
	at, addr := c05GenAddr(r, false)
	return c05Ack{c05GenU64(r), at, addr, c05GenU16(r), c05GenKey(r)}
}
func c05GenErr(r *rng) c05Err {
	e := c05Err{c05GenU64(r), c05GenU16(r), c05GenStr(r)}
	if r.chance(10) { // the encoder clips messages over 255 bytes
		e.msg = string(r.bytes(r.pick(256, 300, 1000)))
	}
	return e
}
func c05GenCmd(r *rng) c05Cmd {
	return c05Cmd{c05GenID(r), c05GenU64(r), c05GenU64(r), c05GenSig(r), c05GenIDs(r)}
}

func c05GenAdvRoute(r *rng) protocol.Route {
	rt := protocol.Route{PrefixLength: c05GenU8(r), Metric: c05GenU16(r)}
	switch r.intn(12) {
	case 0, 1, 2, 3:
		rt.AddressFamily, rt.Prefix = protocol.AddrFamilyIPv4, r.bytes(4)
	case 4, 5:
		rt.AddressFamily, rt.Prefix = protocol.AddrFamilyIPv6, r.bytes(16)
	case 6, 7:
		rt.AddressFamily, rt.Prefix = protocol.AddrFamilyDomain, protocol.EncodeDomainPrefix(c05GenStr(r))
	case 8, 9:
		rt.AddressFamily, rt.Prefix = protocol.AddrFamilyForward, protocol.EncodeForwardKeyWithTarget(c05GenStr(r), c05GenStr(r))
	case 10:
		id := c05GenID(r)
		rt.AddressFamily, rt.Prefix = protocol.AddrFamilyAgent, protocol.EncodeAgentPrefix(id)
	default: // unknown family: 16-byte prefix on the wire
		rt.AddressFamily, rt.Prefix = uint8(r.pick(0, 6, 77, 255)), r.bytes(16)
	}
	return rt
}
func c05GenWdRoute(r *rng) protocol.Route {
	rt := protocol.Route{PrefixLength: c05GenU8(r), Metric: c05GenU16(r)}
	switch r.intn(8) {
	case 0, 1, 2, 3:
		rt.AddressFamily, rt.Prefix = protocol.AddrFamilyIPv4, r.bytes(4)
	case 4, 5:
		rt.AddressFamily, rt.Prefix = protocol.AddrFamilyIPv6, r.bytes(16)
	case 6:
		rt.AddressFamily, rt.Prefix = protocol.AddrFamilyDomain, r.bytes(1) // prefixLength(domain, 0) = 1
	default:
		rt.AddressFamily, rt.Prefix = uint8(r.pick(0, 4, 5, 6, 255)), r.bytes(16)
	}
	return rt
}
func c05GenRouteCount(r *rng) int {
	if r.chance(3) {
		return r.pick(200, 255)
	}
	if r.chance(2) { // count byte wraps (C06)
		return r.pick(256, 257, 300, 511, 512)
	}
	return r.pick(0, 1, 1, 2, 3, 7)
}
func c05GenAdv(r *rng) *protocol.RouteAdvertise {
	m := &protocol.RouteAdvertise{OriginAgent: c05GenID(r), OriginDisplayName: c05GenStr(r), Sequence: c05GenU64(r), SeenBy: c05GenIDs(r)}
	n := c05GenRouteCount(r)
	m.Routes = make([]protocol.Route, n)
	for i := range m.Routes {
		m.Routes[i] = c05GenAdvRoute(r)
	}
	switch r.intn(4) {
	case 0:
		m.EncPath = &protocol.EncryptedData{Encrypted: true, Data: r.bytes(r.pick(0, 1, 48, 60, 300))}
	case 1: // plaintext wrapper with trailing bytes after the path
		m.EncPath = &protocol.EncryptedData{Encrypted: false, Data: append(protocol.EncodePath(c05GenIDs(r)), r.bytes(r.pick(0, 1, 5))...)}
		// keep Path consistent with what a decoder would derive from the wrapper (a path of
		// 256+ ids wraps its count byte)
		if p, err := protocol.DecodePath(m.EncPath.Data); err == nil {
			m.Path = p
		}
	default:
		m.Path = c05GenIDs(r)
	}
	return m
}
func c05GenWd(r *rng) *protocol.RouteWithdraw {
	m := &protocol.RouteWithdraw{OriginAgent: c05GenID(r), Sequence: c05GenU64(r), SeenBy: c05GenIDs(r)}
	n := c05GenRouteCount(r)
	m.Routes = make([]protocol.Route, n)
	for i := range m.Routes {
		m.Routes[i] = c05GenWdRoute(r)
	}
	return m
}
func c05GenInfo(r *rng) *protocol.NodeInfo {
	n := &protocol.NodeInfo{DisplayName: c05GenStr(r), Hostname: c05GenStr(r), OS: c05GenStr(r), Arch: c05GenStr(r), Version: c05GenStr(r),
		StartTime: int64(c05GenU64(r)), PublicKey: c05GenKey(r), UDPEnabled: r.chance(50), FileTransferEnabled: r.chance(50), ShellEnabled: r.chance(50), IcmpEnabled: r.chance(50)}
	for i, c := 0, r.pick(0, 1, 2, 4); i < c; i++ {
		n.IPAddresses = append(n.IPAddresses, c05GenStr(r))
	}
	pc := r.pick(0, 1, 2, 3)
	if r.chance(5) {
		pc = r.pick(49, 50)
	}
	for i := 0; i < pc; i++ {
		p := protocol.PeerConnectionInfo{Transport: r.pickS("quic", "h2", "ws", ""), RTTMs: int64(c05GenU64(r)), IsDialer: r.chance(50)}
		id := c05GenID(r)
		p.PeerID = id
		n.Peers = append(n.Peers, p)
	}
	fc := r.pick(0, 0, 1, 2)
	if r.chance(5) {
		fc = r.pick(19, 20)
	}
	for i := 0; i < fc; i++ {
		n.ForwardListeners = append(n.ForwardListeners, protocol.ForwardListenerInfo{Key: c05GenStr(r), Address: c05GenStr(r)})
	}
	sc := r.pick(0, 0, 1, 3)
	if r.chance(5) {
		sc = r.pick(9, 10)
	}
	for i := 0; i < sc; i++ {
		n.Shells = append(n.Shells, c05GenStr(r))
	}
	return n
}
func c05GenNia(r *rng) *protocol.NodeInfoAdvertise {
	m := &protocol.NodeInfoAdvertise{OriginAgent: c05GenID(r), Sequence: c05GenU64(r), SeenBy: c05GenIDs(r)}
	if r.chance(30) {
		m.EncInfo = &protocol.EncryptedData{Encrypted: true, Data: r.bytes(r.pick(0, 1, 48, 100, 400))}
	} else {
		m.Info = *c05GenInfo(r)
	}
	return m
}

func init() {
	// PeerHello
	c05Add(&c05Kind{name: "peerhello",
		from: func(r *c05R) any {
			m := &protocol.PeerHello{Version: uint16(r.num()), AgentID: r.id(), Timestamp: r.num(), DisplayName: r.str()}
			for i, c := 0, int(r.num()); i < c; i++ {
				m.Capabilities = append(m.Capabilities, r.str())
			}
			return m
		},
		to: func(w *c05W, x any) {
			m := x.(*protocol.PeerHello)
			w.num(uint64(m.Version))
			w.hex(m.AgentID[:])
			w.num(m.Timestamp)
			w.str(m.DisplayName)
			w.num(uint64(len(m.Capabilities)))
			for _, c := range m.Capabilities {
				w.str(c)
			}
		},
		enc: func(x any) []byte { return x.(*protocol.PeerHello).Encode() },
		dec: func(b []byte) (any, error) { return protocol.DecodePeerHello(b) },
		gen: func(r *rng) any {
			m := &protocol.PeerHello{Version: c05GenU16(r), AgentID: c05GenID(r), Timestamp: c05GenU64(r), DisplayName: c05GenStr(r)}
			n := r.pick(0, 1, 2, 4)
			if r.chance(3) {
				n = 255
			}
			for i := 0; i < n; i++ {
				m.Capabilities = append(m.Capabilities, c05GenStr(r))
			}
			return m
		}})
	// StreamOpen / UDPOpen
	c05Add(&c05Kind{name: "streamopen",
		from: func(r *c05R) any { return c05OpenFrom(r) },
		to: func(w *c05W, x any) { c05OpenTo(w, x.(c05Open)) },
		enc: func(x any) []byte {
			o := x.(c05Open)
			return (&protocol.StreamOpen{RequestID: o.req, AddressType: o.at, Address: o.addr, Port: o.port, TTL: o.ttl, RemainingPath: o.path, EphemeralPubKey: o.key}).Encode()
		},
		dec: func(b []byte) (any, error) {
			s, err := protocol.DecodeStreamOpen(b)
			if err != nil {
				return nil, err
			}
			return c05Open{s.RequestID, s.AddressType, s.Address, s.Port, s.TTL, s.RemainingPath, s.EphemeralPubKey}, nil
		},
		gen: func(r *rng) any { return c05GenOpen(r) }})
	c05Add(&c05Kind{name: "udpopen",
		from: func(r *c05R) any { return c05OpenFrom(r) },
		to: func(w *c05W, x any) { c05OpenTo(w, x.(c05Open)) },
		enc: func(x any) []byte {
			o := x.(c05Open)
			return (&protocol.UDPOpen{RequestID: o.req, AddressType: o.at, Address: o.addr, Port: o.port, TTL: o.ttl, RemainingPath: o.path, EphemeralPubKey: o.key}).Encode()
		},
		dec: func(b []byte) (any, error) {
			s, err := protocol.DecodeUDPOpen(b)
			if err != nil {
				return nil, err
			}
			return c05Open{s.RequestID, s.AddressType, s.Address, s.Port, s.TTL, s.RemainingPath, s.EphemeralPubKey}, nil
		},
		gen: func(r *rng) any { return c05GenOpen(r) }})
	// StreamOpenAck / UDPOpenAck
	c05Add(&c05Kind{name: "streamopenack",
		from: func(r *c05R) any { return c05AckFrom(r) },
		to: func(w *c05W, x any) { c05AckTo(w, x.(c05Ack)) },
		enc: func(x any) []byte {
			o := x.(c05Ack)
			return (&protocol.StreamOpenAck{RequestID: o.req, BoundAddrType: o.at, BoundAddr: o.addr, BoundPort: o.port, EphemeralPubKey: o.key}).Encode()
		},
		dec: func(b []byte) (any, error) {
			s, err := protocol.DecodeStreamOpenAck(b)
			if err != nil {
				return nil, err
			}
			return c05Ack{s.RequestID, s.BoundAddrType, s.BoundAddr, s.BoundPort, s.EphemeralPubKey}, nil
		},
		gen: func(r *rng) any { return c05GenAck(r) }})
	c05Add(&c05Kind{name: "udpopenack",
		from: func(r *c05R) any { return c05AckFrom(r) },
		to: func(w *c05W, x any) { c05AckTo(w, x.(c05Ack)) },
		enc: func(x any) []byte {
			o := x.(c05Ack)
			return (&protocol.UDPOpenAck{RequestID: o.req, BoundAddrType: o.at, BoundAddr: o.addr, BoundPort: o.port, EphemeralPubKey: o.key}).Encode()
		},
		dec: func(b []byte) (any, error) {
			s, err := protocol.DecodeUDPOpenAck(b)
			if err != nil {
				return nil, err
			}
			return c05Ack{s.RequestID, s.BoundAddrType, s.BoundAddr, s.BoundPort, s.EphemeralPubKey}, nil
		},
		gen: func(r *rng) any { return c05GenAck(r) }})
	// *OpenErr
	c05Add(&c05Kind{name: "streamopenerr",
		from: func(r *c05R) any { return c05ErrFrom(r) }, to: func(w *c05W, x any) { c05ErrTo(w, x.(c05Err)) },
		enc: func(x any) []byte {
			e := x.(c05Err)
			return (&protocol.StreamOpenErr{RequestID: e.req, ErrorCode: e.code, Message: e.msg}).Encode()
		},
		dec: func(b []byte) (any, error) {
			s, err := protocol.DecodeStreamOpenErr(b)
			if err != nil {
				return nil, err
			}
			return c05Err{s.RequestID, s.ErrorCode, s.Message}, nil
		},
		gen: func(r *rng) any { return c05GenErr(r) }})
	c05Add(&c05Kind{name: "udpopenerr",
		from: func(r *c05R) any { return c05ErrFrom(r) }, to: func(w *c05W, x any) { c05ErrTo(w, x.(c05Err)) },
		enc: func(x any) []byte {
			e := x.(c05Err)
			return (&protocol.UDPOpenErr{RequestID: e.req, ErrorCode: e.code, Message: e.msg}).Encode()
		},
		dec: func(b []byte) (any, error) {
			s, err := protocol.DecodeUDPOpenErr(b)
			if err != nil {
				return nil, err
			}
			return c05Err{s.RequestID, s.ErrorCode, s.Message}, nil
		},
		gen: func(r *rng) any { return c05GenErr(r) }})
	c05Add(&c05Kind{name: "icmpopenerr",
		from: func(r *c05R) any { return c05ErrFrom(r) }, to: func(w *c05W, x any) { c05ErrTo(w, x.(c05Err)) },
		enc: func(x any) []byte {
			e := x.(c05Err)
			return (&protocol.ICMPOpenErr{RequestID: e.req, ErrorCode: e.code, Message: e.msg}).Encode()
		},
		dec: func(b []byte) (any, error) {
			s, err := protocol.DecodeICMPOpenErr(b)
			if err != nil {
				return nil, err
			}
			return c05Err{s.RequestID, s.ErrorCode, s.Message}, nil
		},
		gen: func(r *rng) any { return c05GenErr(r) }})
	// StreamReset, Keepalive, UDPClose, ICMPClose
	c05Add(&c05Kind{name: "streamreset",
		from: func(r *c05R) any { return uint16(r.num()) }, to: func(w *c05W, x any) { w.num(uint64(x.(uint16))) },
		enc: func(x any) []byte { return (&protocol.StreamReset{ErrorCode: x.(uint16)}).Encode() },
		dec: func(b []byte) (any, error) {
			s, err := protocol.DecodeStreamReset(b)
			if err != nil {
				return nil, err
			}
			return s.ErrorCode, nil
		},
		gen: func(r *rng) any { return c05GenU16(r) }})
	c05Add(&c05Kind{name: "keepalive",
		from: func(r *c05R) any { return r.num() }, to: func(w *c05W, x any) { w.num(x.(uint64)) },
		enc: func(x any) []byte { return (&protocol.Keepalive{Timestamp: x.(uint64)}).Encode() },
		dec: func(b []byte) (any, error) {
			s, err := protocol.DecodeKeepalive(b)
			if err != nil {
				return nil, err
			}
			return s.Timestamp, nil
		},
		gen: func(r *rng) any { return c05GenU64(r) }})
	c05Add(&c05Kind{name: "udpclose",
		from: func(r *c05R) any { return uint8(r.num()) }, to: func(w *c05W, x any) { w.num(uint64(x.(uint8))) },
		enc: func(x any) []byte { return (&protocol.UDPClose{Reason: x.(uint8)}).Encode() },
		dec: func(b []byte) (any, error) {
			s, err := protocol.DecodeUDPClose(b)
			if err != nil {
				return nil, err
			}
			return s.Reason, nil
		},
		gen: func(r *rng) any { return c05GenU8(r) }})
	c05Add(&c05Kind{name: "icmpclose",
		from: func(r *c05R) any { return uint8(r.num()) }, to: func(w *c05W, x any) { w.num(uint64(x.(uint8))) },
		enc: func(x any) []byte { return (&protocol.ICMPClose{Reason: x.(uint8)}).Encode() },
		dec: func(b []byte) (any, error) {
			s, err := protocol.DecodeICMPClose(b)
			if err != nil {
				return nil, err
			}
			return s.Reason, nil
		},
		gen: func(r *rng) any { return c05GenU8(r) }})
	// RouteAdvertise / RouteWithdraw
	c05Add(&c05Kind{name: "routeadv",
		from: func(r *c05R) any { return c05AdvFrom(r) }, to: func(w *c05W, x any) { c05AdvTo(w, x.(*protocol.RouteAdvertise)) },
		enc: func(x any) []byte { return x.(*protocol.RouteAdvertise).Encode() },
		dec: func(b []byte) (any, error) { return protocol.DecodeRouteAdvertise(b) },
		gen: func(r *rng) any { return c05GenAdv(r) }})
	c05Add(&c05Kind{name: "routewd",
		from: func(r *c05R) any { return c05WdFrom(r) }, to: func(w *c05W, x any) { c05WdTo(w, x.(*protocol.RouteWithdraw)) },
		enc: func(x any) []byte { return x.(*protocol.RouteWithdraw).Encode() },
		dec: func(b []byte) (any, error) { return protocol.DecodeRouteWithdraw(b) },
		gen: func(r *rng) any { return c05GenWd(r) }})
	// EncryptedData, Path
	c05Add(&c05Kind{name: "encdata",
		from: func(r *c05R) any { return &protocol.EncryptedData{Encrypted: r.boolean(), Data: r.hex()} },
		to: func(w *c05W, x any) { e := x.(*protocol.EncryptedData); w.boolean(e.Encrypted); w.hex(e.Data) },
		enc: func(x any) []byte { return protocol.EncodeEncryptedData(x.(*protocol.EncryptedData)) },
		dec: func(b []byte) (any, error) {
			e, n, err := protocol.DecodeEncryptedData(b)
			if err != nil {
				return nil, err
			}
			if n != 3+len(e.Data) {
				return nil, errors.New("consumed count wrong")
			}
			return e, nil
		},
		gen: func(r *rng) any { return &protocol.EncryptedData{Encrypted: r.chance(50), Data: r.bytes(c05DataLen(r))} }})
	c05Add(&c05Kind{name: "path",
		from: func(r *c05R) any { return r.ids() }, to: func(w *c05W, x any) { w.ids(x.([]identity.AgentID)) },
		enc: func(x any) []byte { return protocol.EncodePath(x.([]identity.AgentID)) },
		dec: func(b []byte) (any, error) {
			p, err := protocol.DecodePath(b)
			if err != nil {
				return nil, err
			}
			return p, nil
		},
		gen: func(r *rng) any { return c05GenIDs(r) }})
	// NodeInfo / NodeInfoAdvertise
	c05Add(&c05Kind{name: "nodeinfo",
		from: func(r *c05R) any { return c05InfoFrom(r) }, to: func(w *c05W, x any) { c05InfoTo(w, x.(*protocol.NodeInfo)) },
		enc: func(x any) []byte { return protocol.EncodeNodeInfo(x.(*protocol.NodeInfo)) },
		dec: func(b []byte) (any, error) { return protocol.DecodeNodeInfo(b) },
		gen: func(r *rng) any { return c05GenInfo(r) }})
	c05Add(&c05Kind{name: "nodeinfoadv",
		from: func(r *c05R) any { return c05NiaFrom(r) }, to: func(w *c05W, x any) { c05NiaTo(w, x.(*protocol.NodeInfoAdvertise)) },
		enc: func(x any) []byte { return x.(*protocol.NodeInfoAdvertise).Encode() },
		dec: func(b []byte) (any, error) { return protocol.DecodeNodeInfoAdvertise(b) },
		gen: func(r *rng) any { return c05GenNia(r) }})
	// ControlRequest / ControlResponse
	c05Add(&c05Kind{name: "ctrlreq",
		from: func(r *c05R) any {
			return &protocol.ControlRequest{RequestID: r.num(), ControlType: uint8(r.num()), TargetAgent: r.id(), Path: r.ids(), Data: r.hex()}
		},
		to: func(w *c05W, x any) {
			m := x.(*protocol.ControlRequest)
			w.num(m.RequestID)
			w.num(uint64(m.ControlType))
			w.hex(m.TargetAgent[:])
			w.ids(m.Path)
			w.hex(m.Data)
		},
		enc: func(x any) []byte { return x.(*protocol.ControlRequest).Encode() },
		dec: func(b []byte) (any, error) { return protocol.DecodeControlRequest(b) },
		gen: func(r *rng) any {
			return &protocol.ControlRequest{RequestID: c05GenU64(r), ControlType: c05GenU8(r), TargetAgent: c05GenID(r), Path: c05GenIDs(r), Data: r.bytes(c05DataLen(r))}
		}})
	c05Add(&c05Kind{name: "ctrlresp",
		from: func(r *c05R) any {
			return &protocol.ControlResponse{RequestID: r.num(), ControlType: uint8(r.num()), Success: r.boolean(), Data: r.hex()}
		},
		to: func(w *c05W, x any) {
			m := x.(*protocol.ControlResponse)
			w.num(m.RequestID)
			w.num(uint64(m.ControlType))
			w.boolean(m.Success)
			w.hex(m.Data)
		},
		enc: func(x any) []byte { return x.(*protocol.ControlResponse).Encode() },
		dec: func(b []byte) (any, error) { return protocol.DecodeControlResponse(b) },
		gen: func(r *rng) any {
			n := c05DataLen(r)
			if r.chance(6) {
				n = r.pick(16371, 16372, 16373, 20000) // clipped at MaxPayloadSize-12
			}
			return &protocol.ControlResponse{RequestID: c05GenU64(r), ControlType: c05GenU8(r), Success: r.chance(50), Data: r.bytes(n)}
		}})
	// UDPDatagram
	c05Add(&c05Kind{name: "udpdatagram",
		from: func(r *c05R) any {
			return &protocol.UDPDatagram{AddressType: uint8(r.num()), Address: r.hex(), Port: uint16(r.num()), Data: r.hex()}
		},
		to: func(w *c05W, x any) {
			m := x.(*protocol.UDPDatagram)
			w.num(uint64(m.AddressType))
			w.hex(m.Address)
			w.num(uint64(m.Port))
			w.hex(m.Data)
		},
		enc: func(x any) []byte { return x.(*protocol.UDPDatagram).Encode() },
		dec: func(b []byte) (any, error) { return protocol.DecodeUDPDatagram(b) },
		gen: func(r *rng) any {
			at, addr := c05GenAddr(r, true)
			return &protocol.UDPDatagram{AddressType: at, Address: addr, Port: c05GenU16(r), Data: r.bytes(c05DataLen(r))}
		}})
	// ICMP
	c05Add(&c05Kind{name: "icmpopen",
		from: func(r *c05R) any {
			return &protocol.ICMPOpen{RequestID: r.num(), DestIP: r.hex(), TTL: uint8(r.num()), RemainingPath: r.ids(), EphemeralPubKey: r.key32()}
		},
		to: func(w *c05W, x any) {
			m := x.(*protocol.ICMPOpen)
			w.num(m.RequestID)
			w.hex(m.DestIP)
			w.num(uint64(m.TTL))
			w.ids(m.RemainingPath)
			w.hex(m.EphemeralPubKey[:])
		},
		enc: func(x any) []byte { return x.(*protocol.ICMPOpen).Encode() },
		dec: func(b []byte) (any, error) { return protocol.DecodeICMPOpen(b) },
		gen: func(r *rng) any {
			return &protocol.ICMPOpen{RequestID: c05GenU64(r), DestIP: r.bytes(r.pick(4, 4, 16, 0, 7, 255)), TTL: c05GenU8(r), RemainingPath: c05GenIDs(r), EphemeralPubKey: c05GenKey(r)}
		}})
	c05Add(&c05Kind{name: "icmpopenack",
		from: func(r *c05R) any { return &protocol.ICMPOpenAck{RequestID: r.num(), EphemeralPubKey: r.key32()} },
		to: func(w *c05W, x any) { m := x.(*protocol.ICMPOpenAck); w.num(m.RequestID); w.hex(m.EphemeralPubKey[:]) },
		enc: func(x any) []byte { return x.(*protocol.ICMPOpenAck).Encode() },
		dec: func(b []byte) (any, error) { return protocol.DecodeICMPOpenAck(b) },
		gen: func(r *rng) any { return &protocol.ICMPOpenAck{RequestID: c05GenU64(r), EphemeralPubKey: c05GenKey(r)} }})
	c05Add(&c05Kind{name: "icmpecho",
		from: func(r *c05R) any {
			return &protocol.ICMPEcho{Identifier: uint16(r.num()), Sequence: uint16(r.num()), IsReply: r.boolean(), SrcIP: r.hex(), Data: r.hex()}
		},
		to: func(w *c05W, x any) {
			m := x.(*protocol.ICMPEcho)
			w.num(uint64(m.Identifier))
			w.num(uint64(m.Sequence))
			w.boolean(m.IsReply)
			w.hex(m.SrcIP)
			w.hex(m.Data)
		},
		enc: func(x any) []byte { return x.(*protocol.ICMPEcho).Encode() },
		dec: func(b []byte) (any, error) { return protocol.DecodeICMPEcho(b) },
		gen: func(r *rng) any {
			return &protocol.ICMPEcho{Identifier: c05GenU16(r), Sequence: c05GenU16(r), IsReply: r.chance(50), SrcIP: r.bytes(r.pick(0, 4, 16, 3, 255)), Data: r.bytes(c05DataLen(r))}
		}})
	// Sleep / Wake
	c05Add(&c05Kind{name: "sleep",
		from: func(r *c05R) any { return c05CmdFrom(r) }, to: func(w *c05W, x any) { c05CmdTo(w, x.(c05Cmd)) },
		enc: func(x any) []byte { return c05Sleep(x.(c05Cmd)).Encode() },
		dec: func(b []byte) (any, error) {
			s, err := protocol.DecodeSleepCommand(b)
			if err != nil {
				return nil, err
			}
			return c05OfSleep(s), nil
		},
		gen: func(r *rng) any { return c05GenCmd(r) }})
	c05Add(&c05Kind{name: "wake",
		from: func(r *c05R) any { return c05CmdFrom(r) }, to: func(w *c05W, x any) { c05CmdTo(w, x.(c05Cmd)) },
		enc: func(x any) []byte { return c05Wake(x.(c05Cmd)).Encode() },
		dec: func(b []byte) (any, error) {
			s, err := protocol.DecodeWakeCommand(b)
			if err != nil {
				return nil, err
			}
			return c05OfWake(s), nil
		},
		gen: func(r *rng) any { return c05GenCmd(r) }})
	// QueuedState
	c05Add(&c05Kind{name: "queued",
		from: func(r *c05R) any {
			q := &protocol.QueuedState{}
			for i, c := 0, int(r.num()); i < c; i++ {
				q.Routes = append(q.Routes, *c05AdvFrom(r))
			}
			for i, c := 0, int(r.num()); i < c; i++ {
				q.Withdraws = append(q.Withdraws, *c05WdFrom(r))
			}
			for i, c := 0, int(r.num()); i < c; i++ {
				q.NodeInfos = append(q.NodeInfos, *c05NiaFrom(r))
			}
			if r.boolean() {
				q.SleepCmd = c05Sleep(c05CmdFrom(r))
			}
			if r.boolean() {
				q.WakeCmd = c05Wake(c05CmdFrom(r))
			}
			return q
		},
		to: func(w *c05W, x any) {
			q := x.(*protocol.QueuedState)
			w.num(uint64(len(q.Routes)))
			for i := range q.Routes {
				c05AdvTo(w, &q.Routes[i])
			}
			w.num(uint64(len(q.Withdraws)))
			for i := range q.Withdraws {
				c05WdTo(w, &q.Withdraws[i])
			}
			w.num(uint64(len(q.NodeInfos)))
			for i := range q.NodeInfos {
				c05NiaTo(w, &q.NodeInfos[i])
			}
			w.boolean(q.SleepCmd != nil)
			if q.SleepCmd != nil {
				c05CmdTo(w, c05OfSleep(q.SleepCmd))
			}
			w.boolean(q.WakeCmd != nil)
			if q.WakeCmd != nil {
				c05CmdTo(w, c05OfWake(q.WakeCmd))
			}
		},
		enc: func(x any) []byte { return x.(*protocol.QueuedState).Encode() },
		dec: func(b []byte) (any, error) { return protocol.DecodeQueuedState(b) },
		gen: func(r *rng) any {
			q := &protocol.QueuedState{}
			nr := r.pick(0, 0, 1, 2, 3)
			if r.chance(4) {
				nr = r.pick(40, 100)
			}
			for i := 0; i < nr; i++ {
				q.Routes = append(q.Routes, *c05GenAdv(r))
			}
			for i, c := 0, r.pick(0, 0, 1, 2); i < c; i++ {
				q.Withdraws = append(q.Withdraws, *c05GenWd(r))
			}
			for i, c := 0, r.pick(0, 0, 1, 2); i < c; i++ {
				q.NodeInfos = append(q.NodeInfos, *c05GenNia(r))
			}
			if r.chance(60) {
				q.SleepCmd = c05Sleep(c05GenCmd(r))
			}
			if r.chance(60) {
				q.WakeCmd = c05Wake(c05GenCmd(r))
			}
			return q
		}})

	register("c05", &Engine{Run: c05Run, Gen: c05Gen, Facts: c05Facts})
}

// c05Parse turns tokens into a struct; malformed tokens (a harness-side problem, not a codec
// crash) yield ok=false. All tokens must be consumed.
func c05Parse(k *c05Kind, toks []string) (m any, ok bool) {
	defer func() {
		if r := recover(); r != nil {
			m, ok = nil, false
		}
	}()
	rd := &c05R{f: toks}
	m = k.from(rd)
	return m, rd.i == len(toks)
}

func c05Toks(k *c05Kind, m any) string {
	w := &c05W{}
	k.to(w, m)
	return strings.Join(w.out, " ")
}

// c05AllocBound is the "in proportion to the input" bound checked on the real decoder:
// heap bytes requested while decoding n input bytes.
func c05AllocBound(n int) uint64 { return uint64(1024*n + 65536) }

func c05Run(line string) string {
	f := fields(line)
	switch f[0] {
	case "rt":
		k := c05ByName[f[1]]
		m, ok := c05Parse(k, f[2:])
		if !ok {
			return "bad-op"
		}
		b := k.enc(m)
		m2, err := k.dec(b)
		if err != nil {
			return "ok " + hexTok(b) + " | err"
		}
		return "ok " + hexTok(b) + " | " + c05Toks(k, m2)
	case "encnw": // Encode of an in-memory value that need not be within the wire limits: bytes or a panic
		k := c05ByName[f[1]]
		m, ok := c05Parse(k, f[2:])
		if !ok {
			return "bad-op"
		}
		return func() (res string) {
			defer func() {
				if r := recover(); r != nil {
					res = "encode-panic"
				}
			}()
			return "ok " + hexTok(k.enc(m))
		}()
	case "dec":
		k := c05ByName[f[1]]
		m, err := k.dec(unhexTok(f[2]))
		if err != nil {
			if !errors.Is(err, protocol.ErrInvalidFrame) {
				return "err unexpected-class"
			}
			return "err"
		}
		t := c05Toks(k, m)
		re := "diff"
		if m2, err := k.dec(k.enc(m)); err == nil && c05Toks(k, m2) == t {
			re = "ok"
		}
		return "ok " + t + " re=" + re
	case "alloc":
		k := c05ByName[f[1]]
		b := unhexTok(f[2])
		var m0, m1 runtime.MemStats
		runtime.ReadMemStats(&m0)
		_, _ = k.dec(b)
		runtime.ReadMemStats(&m1)
		d := m1.TotalAlloc - m0.TotalAlloc
		if d > c05AllocBound(len(b)) {
			return fmt.Sprintf("alloc big %d", d)
		}
		return "alloc ok"
	case "frame":
		t, _ := strconv.ParseUint(f[1], 10, 8)
		fl, _ := strconv.ParseUint(f[2], 10, 8)
		sid, _ := strconv.ParseUint(f[3], 10, 64)
		b, err := (&protocol.Frame{Type: uint8(t), Flags: uint8(fl), StreamID: sid, Payload: unhexTok(f[4])}).Encode()
		if err != nil {
			if errors.Is(err, protocol.ErrFrameTooLarge) {
				return "err toolarge"
			}
			return "err other"
		}
		return "ok " + hexTok(b)
	case "unframe":
		fr, err := protocol.Decode(unhexTok(f[1]))
		if err != nil {
			if errors.Is(err, protocol.ErrFrameTooLarge) {
				return "err toolarge"
			}
			if errors.Is(err, protocol.ErrInvalidFrame) {
				return "err invalid"
			}
			return "err other"
		}
		return fmt.Sprintf("ok %d %d %d %s", fr.Type, fr.Flags, fr.StreamID, hexTok(fr.Payload))
	}
	return "bad-op"
}

// c05DecLimit: largest decoder input generated for a kind. The codecs are exercised beyond the frame
// payload size, except ControlResponse whose re-encode statement (ControlResponse_reencode) is about
// inputs up to the frame size: its decoder takes a 16-bit data length while the encoder clips at 16372.
func c05DecLimit(kind string) int {
	if kind == "ctrlresp" {
		return protocol.MaxPayloadSize
	}
	return 1 << 20
}

// c05Mutate writes decoder ops for mutated variants of a valid encoding.
func c05Mutate(w *bufio.Writer, r *rng, k *c05Kind, b []byte, perBase int, exhaustive bool) {
	emit := func(x []byte) {
		if len(x) <= c05DecLimit(k.name) {
			fmt.Fprintf(w, "dec %s %s\n", k.name, hexTok(x))
		}
	}
	if exhaustive && len(b) <= 160 {
		for i := 0; i <= len(b); i++ { // truncation at every offset
			emit(b[:i])
		}
		for i := 0; i < len(b); i++ { // every byte maximised / zeroed / low bit flipped
			for _, v := range []byte{0xff, 0x00, b[i] ^ 1} {
				if v != b[i] {
					c := append([]byte{}, b...)
					c[i] = v
					emit(c)
				}
			}
		}
		return
	}
	for j := 0; j < perBase; j++ {
		c := append([]byte{}, b...)
		switch r.intn(7) {
		case 0, 1: // truncate
			c = c[:r.intn(len(c)+1)]
		case 2: // flip one bit
			if len(c) > 0 {
				c[r.intn(len(c))] ^= byte(1 << r.intn(8))
			}
		case 3: // maximise one byte (length / count fields)
			if len(c) > 0 {
				c[r.intn(len(c))] = 0xff
			}
		case 4: // zero one byte
			if len(c) > 0 {
				c[r.intn(len(c))] = 0
			}
		case 5: // append garbage
			c = append(c, r.bytes(r.pick(1, 2, 16, 100))...)
		case 6: // maximise two adjacent bytes (16-bit length fields)
			if len(c) > 1 {
				i := r.intn(len(c) - 1)
				c[i], c[i+1] = 0xff, 0xff
			}
		}
		emit(c)
	}
}

// c05Boundary returns values sitting exactly on / next to each kind's wire limits; they are
// emitted on every run (the random stream only reaches them now and then).
func c05Boundary(name string, r *rng) []any {
	var out []any
	idsN := func(n int) []identity.AgentID {
		l := make([]identity.AgentID, n)
		for i := range l {
			l[i] = c05GenID(r)
		}
		return l
	}
	strN := func(n int) string { return strings.Repeat("x", n) }
	switch name {
	case "ctrlresp":
		for _, n := range []int{16371, 16372, 16373} {
			out = append(out, &protocol.ControlResponse{RequestID: 1, ControlType: 2, Success: true, Data: r.bytes(n)})
		}
	case "ctrlreq":
		for _, n := range []int{65535, 65536} {
			out = append(out, &protocol.ControlRequest{RequestID: 1, ControlType: 5, Path: idsN(255), Data: r.bytes(n)})
		}
		out = append(out, &protocol.ControlRequest{RequestID: 1, Path: idsN(256)})
	case "udpdatagram":
		for _, n := range []int{1472, 65535, 65536} {
			out = append(out, &protocol.UDPDatagram{AddressType: protocol.AddrTypeDomain, Address: append([]byte{255}, r.bytes(255)...), Port: 53, Data: r.bytes(n)})
		}
	case "icmpecho":
		for _, n := range []int{65535, 65536} {
			out = append(out, &protocol.ICMPEcho{Identifier: 65535, Sequence: 65535, SrcIP: r.bytes(255), Data: r.bytes(n)})
		}
	case "encdata":
		for _, n := range []int{65535, 65536} {
			out = append(out, &protocol.EncryptedData{Encrypted: true, Data: r.bytes(n)})
		}
	case "streamopenerr", "udpopenerr", "icmpopenerr":
		for _, n := range []int{254, 255, 256} {
			out = append(out, c05Err{1, 40, strN(n)})
		}
	case "peerhello":
		for _, n := range []int{255, 256} {
			m := &protocol.PeerHello{Version: 1, DisplayName: strN(255)}
			for i := 0; i < n; i++ {
				m.Capabilities = append(m.Capabilities, strN(i%3))
			}
			out = append(out, m)
		}
	case "path":
		out = append(out, idsN(255), idsN(256))
	case "streamopen", "udpopen", "icmpopen", "sleep", "wake":
		for _, n := range []int{255, 256} {
			switch name {
			case "icmpopen":
				out = append(out, &protocol.ICMPOpen{RequestID: 1, DestIP: r.bytes(255), RemainingPath: idsN(n)})
			case "sleep", "wake":
				out = append(out, c05Cmd{seen: idsN(n)})
			default:
				out = append(out, c05Open{at: protocol.AddrTypeDomain, addr: append([]byte{255}, r.bytes(255)...), path: idsN(n)})
			}
		}
	case "routeadv", "routewd":
		for _, n := range []int{255, 256} {
			routes := make([]protocol.Route, n)
			for i := range routes {
				routes[i] = protocol.Route{AddressFamily: protocol.AddrFamilyIPv4, PrefixLength: 32, Prefix: []byte{10, 0, byte(i >> 8), byte(i)}, Metric: 65535}
			}
			if name == "routeadv" {
				out = append(out, &protocol.RouteAdvertise{OriginDisplayName: strN(255), Sequence: ^uint64(0), Routes: routes, Path: idsN(255), SeenBy: idsN(255)})
			} else {
				out = append(out, &protocol.RouteWithdraw{Sequence: ^uint64(0), Routes: routes, SeenBy: idsN(255)})
			}
		}
	case "nodeinfo":
		for _, d := range []int{0, 1} {
			n := &protocol.NodeInfo{DisplayName: strN(255), Version: strN(255), StartTime: -1}
			for i := 0; i < 255+d; i++ {
				n.IPAddresses = append(n.IPAddresses, strN(i%4))
			}
			for i := 0; i < protocol.MaxPeersInNodeInfo+d; i++ {
				n.Peers = append(n.Peers, protocol.PeerConnectionInfo{Transport: "quic", RTTMs: -1, IsDialer: true})
			}
			for i := 0; i < protocol.MaxForwardListenersInNodeInfo+d; i++ {
				n.ForwardListeners = append(n.ForwardListeners, protocol.ForwardListenerInfo{Key: strN(255), Address: ":1"})
			}
			for i := 0; i < protocol.MaxShellsInNodeInfo+d; i++ {
				n.Shells = append(n.Shells, "sh")
			}
			out = append(out, n)
		}
	case "queued":
		q := &protocol.QueuedState{SleepCmd: c05Sleep(c05Cmd{seen: idsN(255)}), WakeCmd: c05Wake(c05Cmd{seen: idsN(255)})}
		for i := 0; i < 300; i++ {
			q.Withdraws = append(q.Withdraws, protocol.RouteWithdraw{Sequence: uint64(i)})
		}
		out = append(out, q)
	}
	return out
}

func c05Gen(w *bufio.Writer, seed int64, tier string) {
	r := newRng(seed)
	nStruct, perBase, nRandom, nExh := 24, 8, 16, 1
	if tier == "thorough" {
		nStruct, perBase, nRandom, nExh = 300, 12, 300, 12
	}
	for _, k := range c05Kinds {
		for _, m := range c05Boundary(k.name, r) {
			fmt.Fprintf(w, "rt %s %s\n", k.name, c05Toks(k, m))
			b := k.enc(m)
			if len(b) <= c05DecLimit(k.name) {
				fmt.Fprintf(w, "dec %s %s\n", k.name, hexTok(b))
				fmt.Fprintf(w, "alloc %s %s\n", k.name, hexTok(b))
			}
		}
		for i := 0; i < nStruct; i++ {
			m := k.gen(r)
			fmt.Fprintf(w, "rt %s %s\n", k.name, c05Toks(k, m))
			b := k.enc(m)
			if len(b) <= c05DecLimit(k.name) {
				fmt.Fprintf(w, "dec %s %s\n", k.name, hexTok(b))
			}
			c05Mutate(w, r, k, b, perBase, false)
			if i < nExh {
				c05Mutate(w, r, k, b, 0, true)
			}
			if i%4 == 0 && len(b) <= c05DecLimit(k.name) {
				fmt.Fprintf(w, "alloc %s %s\n", k.name, hexTok(b))
			}
		}
		for i := 0; i < nRandom; i++ { // unstructured bytes
			n := r.pick(0, 1, 7, 8, 14, 27, 28, 45, 97, 98, 200, 1000)
			switch i {
			case 0:
				n = 16384
			case 1: // the codecs are not limited to the frame payload size
				n = r.pick(16385, 20000, 65536, 70000)
			}
			if n > c05DecLimit(k.name) {
				n = c05DecLimit(k.name)
			}
			b := r.bytes(n)
			if r.chance(50) { // mostly-zero / mostly-ff buffers reach deeper than uniform noise
				fill := byte(r.pick(0, 0xff, 1))
				for j := range b {
					if r.chance(85) {
						b[j] = fill
					}
				}
			}
			fmt.Fprintf(w, "dec %s %s\n", k.name, hexTok(b))
			fmt.Fprintf(w, "alloc %s %s\n", k.name, hexTok(b))
		}
	}
	// Encode on values OUTSIDE the wire limits: a route whose prefix does not have the size its family implies
	// (RouteAdvertise sizes its buffer from the family; RouteWithdraw slices Prefix[:size])
	nnw := 40
	if tier == "thorough" {
		nnw = 1500
	}
	for i := 0; i < nnw; i++ {
		adv := r.chance(50)
		nr := r.pick(1, 1, 2, 3, 6)
		routes := make([]protocol.Route, nr)
		for j := range routes {
			if adv {
				routes[j] = c05GenAdvRoute(r)
			} else {
				routes[j] = c05GenWdRoute(r)
			}
			if r.chance(60) {
				switch r.intn(4) {
				case 0:
					routes[j].Prefix = r.bytes(len(routes[j].Prefix) + r.pick(1, 2, 12, 100))
				case 1:
					if len(routes[j].Prefix) > 0 {
						routes[j].Prefix = routes[j].Prefix[:len(routes[j].Prefix)-1]
					}
				case 2:
					routes[j].Prefix = nil
				case 3:
					routes[j].Prefix = r.bytes(r.pick(1, 3, 4, 5, 15, 16, 17))
				}
			}
		}
		if adv {
			m := &protocol.RouteAdvertise{OriginAgent: c05GenID(r), OriginDisplayName: c05GenStr(r), Sequence: c05GenU64(r), Routes: routes, Path: c05GenIDs(r), SeenBy: c05GenIDs(r)}
			fmt.Fprintf(w, "encnw routeadv %s\n", c05Toks(c05ByName["routeadv"], m))
		} else {
			m := &protocol.RouteWithdraw{OriginAgent: c05GenID(r), Sequence: c05GenU64(r), Routes: routes, SeenBy: c05GenIDs(r)}
			fmt.Fprintf(w, "encnw routewd %s\n", c05Toks(c05ByName["routewd"], m))
		}
	}
	// QueuedState: counts maximised with nothing behind them (pre-allocation from a 2-byte count)
	for _, h := range []string{"ffff000000000000", "0000ffff00000000", "00000000ffff0000", "ffffffffffffffff", "ffff", "0000ffff", "00000000ffff",
		"fffe0000000000000000", "00000000ffff00000000000000000000"} {
		fmt.Fprintf(w, "alloc queued %s\ndec queued %s\n", h, h)
	}
	// frames
	nf := 60
	if tier == "thorough" {
		nf = 1500
	}
	for i := 0; i < nf; i++ {
		n := r.pick(0, 1, 2, 13, 14, 100, 16383, 16384, 16385, 20000)
		if i > 12 {
			n = r.pick(0, 1, 5, 30, 200)
		}
		p := r.bytes(n)
		t, fl, sid := c05GenU8(r), c05GenU8(r), c05GenU64(r)
		fmt.Fprintf(w, "frame %d %d %d %s\n", t, fl, sid, hexTok(p))
		if n <= protocol.MaxPayloadSize {
			b, _ := (&protocol.Frame{Type: t, Flags: fl, StreamID: sid, Payload: p}).Encode()
			fmt.Fprintf(w, "unframe %s\n", hexTok(b))
			if len(b) < 300 {
				for j := 0; j <= len(b) && j < 40; j++ {
					fmt.Fprintf(w, "unframe %s\n", hexTok(b[:j]))
				}
			}
			for j := 0; j < 6; j++ { // corrupt the header
				c := append([]byte{}, b...)
				c[r.intn(14)] = byte(r.pick(0, 0xff, 0x40, 1))
				if r.chance(30) {
					c = append(c, r.bytes(r.pick(1, 5))...)
				}
				fmt.Fprintf(w, "unframe %s\n", hexTok(c))
			}
		}
	}
}

func c05Facts(w *bufio.Writer) {
	fmt.Fprintf(w, "-- GENERATED from /repo internal/protocol by the harness (`harness c05 facts`). Do not edit.\n")
	fmt.Fprintf(w, "namespace MM.Gen.C05\n")
	fmt.Fprintf(w, "def headerSize : Nat := %d\n", protocol.HeaderSize)
	fmt.Fprintf(w, "def maxPayloadSize : Nat := %d\n", protocol.MaxPayloadSize)
	fmt.Fprintf(w, "def maxFrameSize : Nat := %d\n", protocol.MaxFrameSize)
	fmt.Fprintf(w, "def ephemeralKeySize : Nat := %d\n", protocol.EphemeralKeySize)
	fmt.Fprintf(w, "def signatureSize : Nat := %d\n", protocol.SignatureSize)
	fmt.Fprintf(w, "def idSize : Nat := %d\n", identity.IDSize)
	fmt.Fprintf(w, "def maxPeersInNodeInfo : Nat := %d\n", protocol.MaxPeersInNodeInfo)
	fmt.Fprintf(w, "def maxForwardListenersInNodeInfo : Nat := %d\n", protocol.MaxForwardListenersInNodeInfo)
	fmt.Fprintf(w, "def maxShellsInNodeInfo : Nat := %d\n", protocol.MaxShellsInNodeInfo)
	fmt.Fprintf(w, "def addrTypeIPv4 : Nat := %d\ndef addrTypeIPv6 : Nat := %d\ndef addrTypeDomain : Nat := %d\n", protocol.AddrTypeIPv4, protocol.AddrTypeIPv6, protocol.AddrTypeDomain)
	fmt.Fprintf(w, "def addrFamilyIPv4 : Nat := %d\ndef addrFamilyIPv6 : Nat := %d\ndef addrFamilyDomain : Nat := %d\ndef addrFamilyForward : Nat := %d\ndef addrFamilyAgent : Nat := %d\n",
		protocol.AddrFamilyIPv4, protocol.AddrFamilyIPv6, protocol.AddrFamilyDomain, protocol.AddrFamilyForward, protocol.AddrFamilyAgent)
	fmt.Fprintf(w, "def frameRouteAdvertise : Nat := %d\n", protocol.FrameRouteAdvertise)
	fmt.Fprintf(w, "def sizeofRoute : Nat := %d\ndef sizeofPeerInfo : Nat := %d\ndef sizeofListenerInfo : Nat := %d\ndef sizeofString : Nat := %d\n",
		unsafe.Sizeof(protocol.Route{}), unsafe.Sizeof(protocol.PeerConnectionInfo{}), unsafe.Sizeof(protocol.ForwardListenerInfo{}), unsafe.Sizeof(""))
	fmt.Fprintf(w, "def sizeofRouteAdvertise : Nat := %d\ndef sizeofRouteWithdraw : Nat := %d\ndef sizeofNodeInfoAdvertise : Nat := %d\ndef sizeofAgentID : Nat := %d\n",
		unsafe.Sizeof(protocol.RouteAdvertise{}), unsafe.Sizeof(protocol.RouteWithdraw{}), unsafe.Sizeof(protocol.NodeInfoAdvertise{}), unsafe.Sizeof(identity.AgentID{}))
	fmt.Fprintf(w, "end MM.Gen.C05\n")
}
