//go:build verif && (all || c29)

package main

import (
	"bufio"
	"fmt"
	"runtime"
	"sort"
	"strconv"
	"strings"
	"sync"
	"sync/atomic"
	"time"

	"github.com/postalsys/muti-metroo/internal/crypto"
	"github.com/postalsys/muti-metroo/internal/flood"
	"github.com/postalsys/muti-metroo/internal/identity"
	"github.com/postalsys/muti-metroo/internal/protocol"
	"github.com/postalsys/muti-metroo/internal/routing"
)

// Engine c29: a real flood.Flooder (HandleSleepCommand / HandleWakeCommand / OnPeerConnected /
// cleanupSleepCmdCache) with configurable TimestampWindow, SeenCacheTTL and MaxSeenCacheSize and
// real Ed25519 keys, under a VIRTUAL clock: `adv d` moves every instant the flooder recorded
// (cache entries' SeenAt, the pending wake's storage time and — re-signed — its timestamp) d
// seconds into the past, and later commands are stamped relative to the virtual clock. Offsets
// are whole seconds; the real clock adds a fraction of a second to every age, so the generator
// leaves out exactly the two whole-second ages (window-1, -(window+1)) whose verdict depends on
// that fraction. The edges themselves are probed by `edge` (timestamp window, within 1 ns / 2 ms)
// and `cleanupat` (cache expiry, exact to the nanosecond).
//
//	reset <signing 0|1> <window s> <ttl ms> <max size>           -> ok
//	d <s|w> <from> <origin> <id> <ts> <sig> <seenby>             -> acc=<0|1> fwd=<items|->
//	adv <seconds>                                                -> ok
//	cleanup                                                      -> n=<cache size afterwards>
//	keys                                                         -> keys=<origin:id,...|->
//	peer <p>                                                     -> fwd=<items|->
//	ts: r<d> = virtual start-of-case instant + d seconds | a<absolute uint64>; sig: as engine c28

type c29Sender struct {
	mu    sync.Mutex
	peers []identity.AgentID
	sent  []c29Sent
}
type c29Sent struct {
	to    identity.AgentID
	frame *protocol.Frame
}

func (s *c29Sender) SendToPeer(p identity.AgentID, f *protocol.Frame) error {
	s.mu.Lock()
	defer s.mu.Unlock()
	s.sent = append(s.sent, c29Sent{p, f})
	return nil
}
func (s *c29Sender) GetPeerIDs() []identity.AgentID { return s.peers }

type c29World struct {
	f       *flood.Flooder
	sender  *c29Sender
	local   identity.AgentID
	keys    [2]*crypto.SigningKeypair
	base    int64 // real Unix second at reset = virtual second 0
	voff    int64 // virtual seconds elapsed
	edgeSeq uint64
	start   time.Time // real instant of the reset
	skip    bool      // the case took too long on the real clock: the remaining ops are not run
	// real command content -> (tokens, how to rebuild it at another virtual offset)
	labels map[string]*c29Label
}
type c29Label struct {
	tsTok, sigTok string
	origin        int
	id            uint64
}

var c29W *c29World

func c29ID(w *c29World, idx int) identity.AgentID {
	var id identity.AgentID
	for i := range id {
		id[i] = byte(idx)
	}
	if idx == 0 {
		id[0] = 0xB0
	} else {
		id[0] = 0xA0
	}
	return id
}

func c29Idx(id identity.AgentID) string {
	if id[0] == 0xB0 {
		return "0"
	}
	if id[0] == 0xA0 && id[1] == id[15] {
		return strconv.Itoa(int(id[1]))
	}
	return "x"
}

func c29Content(o identity.AgentID, id, ts uint64, sig [64]byte) string {
	return fmt.Sprintf("%x/%d/%d/%x", o[:], id, ts, sig[:])
}

func c29Seed(b byte) [32]byte {
	var s [32]byte
	for i := range s {
		s[i] = b
	}
	return s
}

func c29Reset(signing bool, wSec int64, ttlMs int64, maxSize int) string {
	if c29W != nil {
		c29W.f.Stop()
		c29W = nil
	}
	w := &c29World{labels: map[string]*c29Label{}, base: time.Now().Unix(), start: time.Now()}
	w.keys[0] = crypto.SigningKeypairFromSeed(c29Seed(0x11))
	w.keys[1] = crypto.SigningKeypairFromSeed(c29Seed(0x22))
	w.local = c29ID(w, 0)
	cfg := flood.DefaultFloodConfig()
	cfg.SeenCacheTTL = time.Duration(ttlMs) * time.Millisecond
	cfg.MaxSeenCacheSize = maxSize
	cfg.TimestampWindow = time.Duration(wSec) * time.Second
	if signing {
		cfg.SigningPublicKey = &w.keys[0].PublicKey
	}
	w.sender = &c29Sender{peers: []identity.AgentID{c29ID(w, 1), c29ID(w, 2), c29ID(w, 3)}}
	w.f = flood.NewFlooder(cfg, w.local, routing.NewManager(w.local), w.sender)
	c29W = w
	return "ok"
}

// c29Build makes the real (origin, id, ts, signature) of a command described by tokens, at the
// current virtual offset.
func c29Build(w *c29World, origin int, id uint64, tsTok, sigTok string) (identity.AgentID, uint64, [64]byte) {
	var ts uint64
	if tsTok[0] == 'r' {
		d, err := strconv.ParseInt(tsTok[1:], 10, 64)
		must(err)
		ts = uint64(w.base + d - w.voff)
	} else {
		v, err := strconv.ParseUint(tsTok[1:], 10, 64)
		must(err)
		ts = v
	}
	o := c29ID(w, origin)
	signable := func(o identity.AgentID, id, ts uint64) []byte {
		return (&protocol.SleepCommand{OriginAgent: o, CommandID: id, Timestamp: ts}).SignableBytes()
	}
	var sig [64]byte
	switch sigTok {
	case "zero":
	case "valid":
		sig = crypto.Sign(w.keys[0].PrivateKey, signable(o, id, ts))
	case "bad":
		for i := range sig {
			sig[i] = byte(i*7 + 1)
		}
	case "otherkey":
		sig = crypto.Sign(w.keys[1].PrivateKey, signable(o, id, ts))
	case "wrongorigin":
		sig = crypto.Sign(w.keys[0].PrivateKey, signable(c29ID(w, origin+1), id, ts))
	case "wrongid":
		sig = crypto.Sign(w.keys[0].PrivateKey, signable(o, id+1, ts))
	case "wrongts":
		sig = crypto.Sign(w.keys[0].PrivateKey, signable(o, id, ts+1))
	default:
		panic("bad sig token " + sigTok)
	}
	// last registration wins: the same real bytes denote another virtual command once the clock moved
	w.labels[c29Content(o, id, ts, sig)] = &c29Label{tsTok, sigTok, origin, id}
	return o, ts, sig
}

func c29SeenBy(w *c29World, tok string) []identity.AgentID {
	if tok == "-" {
		return nil
	}
	var out []identity.AgentID
	for _, p := range strings.Split(tok, ".") {
		n, err := strconv.Atoi(p)
		must(err)
		out = append(out, c29ID(w, n))
	}
	return out
}

func c29Fwd(w *c29World) string {
	w.sender.mu.Lock()
	sent := w.sender.sent
	w.sender.sent = nil
	w.sender.mu.Unlock()
	var items []string
	for _, s := range sent {
		var typ string
		var o identity.AgentID
		var id, ts uint64
		var sig [64]byte
		var seen []identity.AgentID
		switch s.frame.Type {
		case protocol.FrameSleepCommand:
			c, err := protocol.DecodeSleepCommand(s.frame.Payload)
			must(err)
			typ, o, id, ts, sig, seen = "S", c.OriginAgent, c.CommandID, c.Timestamp, c.Signature, c.SeenBy
		case protocol.FrameWakeCommand:
			c, err := protocol.DecodeWakeCommand(s.frame.Payload)
			must(err)
			typ, o, id, ts, sig, seen = "W", c.OriginAgent, c.CommandID, c.Timestamp, c.Signature, c.SeenBy
		default:
			continue
		}
		lab := fmt.Sprintf("?%d:?", ts)
		if l, ok := w.labels[c29Content(o, id, ts, sig)]; ok {
			lab = l.tsTok + ":" + l.sigTok
		}
		var sb []string
		for _, x := range seen {
			sb = append(sb, c29Idx(x))
		}
		sbs := strings.Join(sb, ".")
		if sbs == "" {
			sbs = "-"
		}
		items = append(items, fmt.Sprintf("%s:%s:%s:%d:%s:%s", c29Idx(s.to), typ, c29Idx(o), id, lab, sbs))
	}
	sort.Strings(items)
	if len(items) == 0 {
		return "-"
	}
	return strings.Join(items, ",")
}

// c29MaxElapsed: the virtual clock stands still between `adv` ops, the real one does not: every age the
// code computes is the virtual age plus the real time the case has been running (plus, for command
// timestamps, the sub-second phase of the clock). The model allows for less than half a second of
// that; a case that has been running longer (loaded machine) is abandoned: the op and everything
// after it answer `skipped-drift`, which the model accepts for every op.
const c29MaxElapsed = 300 * time.Millisecond

func c29Drifted(w *c29World) bool {
	if time.Since(w.start) > c29MaxElapsed {
		w.skip = true
	}
	return w.skip
}

func c29Run(line string) string {
	f := fields(line)
	if f[0] == "reset" {
		ws, _ := strconv.ParseInt(f[2], 10, 64)
		ttl, _ := strconv.ParseInt(f[3], 10, 64)
		mx, _ := strconv.Atoi(f[4])
		return c29Reset(f[1] == "1", ws, ttl, mx)
	}
	selfTimed := f[0] == "edge" || f[0] == "stress" // these do not depend on the case's clock
	if !selfTimed && c29Drifted(c29W) {
		return "skipped-drift"
	}
	out := c29RunOp(f)
	if !selfTimed && c29Drifted(c29W) {
		return "skipped-drift"
	}
	return out
}

func c29RunOp(f []string) string {
	w := c29W
	switch f[0] {
	case "d":
		from, _ := strconv.Atoi(f[2])
		origin, _ := strconv.Atoi(f[3])
		id, err := strconv.ParseUint(f[4], 10, 64)
		must(err)
		o, ts, sig := c29Build(w, origin, id, f[5], f[6])
		seen := c29SeenBy(w, f[7])
		var acc bool
		if f[1] == "s" {
			acc = w.f.HandleSleepCommand(c29ID(w, from), &protocol.SleepCommand{OriginAgent: o, CommandID: id, Timestamp: ts, Signature: sig, SeenBy: seen})
		} else {
			acc = w.f.HandleWakeCommand(c29ID(w, from), &protocol.WakeCommand{OriginAgent: o, CommandID: id, Timestamp: ts, Signature: sig, SeenBy: seen})
		}
		a := 0
		if acc {
			a = 1
		}
		return fmt.Sprintf("acc=%d fwd=%s", a, c29Fwd(w))
	case "adv":
		d, err := strconv.ParseInt(f[1], 10, 64)
		must(err)
		w.f.VerifC29Age(time.Duration(d)*time.Second, func(c *protocol.WakeCommand) *protocol.WakeCommand {
			// the stored wake command ages too: same command, stamped d seconds earlier on the real clock
			l, ok := w.labels[c29Content(c.OriginAgent, c.CommandID, c.Timestamp, c.Signature)]
			if !ok {
				panic("pending wake command unknown to the harness")
			}
			w.voff += d
			o, ts, sig := c29Build(w, l.origin, l.id, l.tsTok, l.sigTok)
			w.voff -= d
			return &protocol.WakeCommand{OriginAgent: o, CommandID: c.CommandID, Timestamp: ts, Signature: sig, SeenBy: c.SeenBy}
		})
		w.voff += d
		return "ok"
	case "cleanup":
		w.f.VerifC29Cleanup()
		return fmt.Sprintf("n=%d", w.f.SleepCommandSeenCacheSize())
	case "keys":
		var items []string
		for _, k := range w.f.VerifC29Keys() {
			items = append(items, fmt.Sprintf("%s:%d", c29Idx(k.OriginAgent), k.CommandID))
		}
		sort.Strings(items)
		if len(items) == 0 {
			return "keys=-"
		}
		return "keys=" + strings.Join(items, ",")
	case "peer":
		p, _ := strconv.Atoi(f[1])
		w.f.OnPeerConnected(c29ID(w, p))
		return "fwd=" + c29Fwd(w)
	case "cleanupat": // cleanupat <origin> <id> <delta ns>: cleanup at SeenAt(key) + TTL + delta, exactly
		origin, _ := strconv.Atoi(f[1])
		id, err := strconv.ParseUint(f[2], 10, 64)
		must(err)
		delta, err := strconv.ParseInt(f[3], 10, 64)
		must(err)
		if !w.f.VerifC29CleanupAt(c29ID(w, origin), id, time.Duration(delta)) {
			return "nokey"
		}
		return fmt.Sprintf("n=%d", w.f.SleepCommandSeenCacheSize())
	case "edge": // edge <past|future> <in|out> <s|w>: a valid command whose age is at the edge of the timestamp window
		return c29Edge(w, f[1], f[2], f[3] == "w")
	case "stress":
		// one fresh valid command delivered from n goroutines at once: the seen-cache test-and-set is a
		// single critical section, so exactly one delivery finds it new
		n, _ := strconv.Atoi(f[1])
		o, ts, sig := c29Build(w, 5, 999999, fmt.Sprintf("r%d", w.voff), "valid")
		var wg sync.WaitGroup
		var mu sync.Mutex
		acc := 0
		var ready int32
		for i := 0; i < n; i++ {
			wg.Add(1)
			go func(i int) {
				defer wg.Done()
				// spin barrier: all goroutines leave it within nanoseconds of each other
				atomic.AddInt32(&ready, 1)
				for atomic.LoadInt32(&ready) < int32(n) {
					runtime.Gosched()
				}
				var ok bool
				if i%2 == 0 {
					ok = w.f.HandleSleepCommand(c29ID(w, 1+i%3), &protocol.SleepCommand{OriginAgent: o, CommandID: 999999, Timestamp: ts, Signature: sig})
				} else {
					ok = w.f.HandleWakeCommand(c29ID(w, 1+i%3), &protocol.WakeCommand{OriginAgent: o, CommandID: 999999, Timestamp: ts, Signature: sig})
				}
				if ok {
					mu.Lock()
					acc++
					mu.Unlock()
				}
			}(i)
		}
		wg.Wait()
		c29Fwd(w)
		return fmt.Sprintf("stress acc=%d", acc)
	}
	return "bad-op"
}

// c29Edge delivers a validly signed command stamped 5 s in the past / future to the real flooder with the
// timestamp window set (accessor) relative to the age measured just before the call. The code reads
// the clock once, between the harness's readings t0 and t1, so:
//
//	past,   out: window = age(t0) - 1 ns          -> age > window for sure              -> must be refused
//	past,   in : window = age(t0) + 2 ms, and age(t1) <= window                        -> must be accepted
//	future, in : window = lead(t0)  (the lead only shrinks)                             -> must be accepted
//	future, out: window = lead(t0) - 2 ms, and lead(t1) > window                        -> must be refused
//
// When t1 shows the reading may have crossed the edge the attempt is repeated (fresh id); the
// exact-equality instant itself cannot be hit from outside (that would need a clock seam).
func c29Edge(w *c29World, side, where string, wake bool) string {
	for attempt := 0; attempt < 50; attempt++ {
		w.edgeSeq++
		id := 700000 + w.edgeSeq
		d := int64(-5)
		if side == "future" {
			d = 5
		}
		ts := uint64(time.Now().Unix() + d)
		cmdTime := time.Unix(int64(ts), 0)
		o := c29ID(w, 4)
		var signable []byte
		if wake {
			signable = (&protocol.WakeCommand{OriginAgent: o, CommandID: id, Timestamp: ts}).SignableBytes()
		} else {
			signable = (&protocol.SleepCommand{OriginAgent: o, CommandID: id, Timestamp: ts}).SignableBytes()
		}
		sig := crypto.Sign(w.keys[0].PrivateKey, signable)
		t0 := time.Now()
		var win time.Duration
		switch side + "/" + where {
		case "past/out":
			win = t0.Sub(cmdTime) - 1
		case "past/in":
			win = t0.Sub(cmdTime) + 2*time.Millisecond
		case "future/in":
			win = cmdTime.Sub(t0)
		case "future/out":
			win = cmdTime.Sub(t0) - 2*time.Millisecond
		default:
			return "bad-op"
		}
		w.f.VerifC29SetWindow(win)
		var acc bool
		if wake {
			acc = w.f.HandleWakeCommand(c29ID(w, 1), &protocol.WakeCommand{OriginAgent: o, CommandID: id, Timestamp: ts, Signature: sig})
		} else {
			acc = w.f.HandleSleepCommand(c29ID(w, 1), &protocol.SleepCommand{OriginAgent: o, CommandID: id, Timestamp: ts, Signature: sig})
		}
		t1 := time.Now()
		c29Fwd(w)
		conclusive := true
		switch side + "/" + where {
		case "past/in":
			conclusive = t1.Sub(cmdTime) <= win
		case "future/out":
			conclusive = cmdTime.Sub(t1) > win
		}
		if conclusive {
			if acc {
				return "acc=1"
			}
			return "acc=0"
		}
	}
	return "inconclusive"
}

// c29Gen: (a) random histories with MaxSeenCacheSize 0 (every cleanup evicts everything: forced,
// deterministic) or 10000 (never evicts); (b) eviction cases of a fixed shape in which the
// generator knows the cache content (only fresh, valid, in-window commands enter it): the cache
// at, one over and several over the cap, a cleanup, then replays of the cached commands.
func c29Gen(w *bufio.Writer, seed int64, tier string) {
	r := newRng(seed)
	n := 250
	if tier == "thorough" {
		n = 6000
	}
	sigs := []string{"valid", "valid", "valid", "valid", "zero", "bad", "otherkey", "wrongorigin", "wrongid", "wrongts"}
	type cmdT struct{ k, origin, id, ts, sig string }
	for i := 0; i < n; i++ {
		W := int64(r.pick(3, 9, 9, 30, 300))
		ttlMs := []int64{W*1000 + 500, W*1000 + 500, 2*W*1000 + 500, 3*W*1000 + 500, 1500, 2*W*1000 - 500, 2 * W * 1000}[r.intn(7)]
		signing := !r.chance(12)
		if r.chance(25) { // (b) eviction case
			m := r.pick(1, 2, 3, 5, 8)
			k := m + r.pick(0, 1, 1, 2, 4, 9)
			fmt.Fprintf(w, "reset 1 %d %d %d\n", W, ttlMs, m)
			var cached []cmdT
			for j := 0; j < k; j++ {
				c := cmdT{r.pickS("s", "w"), strconv.Itoa(r.pick(4, 5)), strconv.Itoa(100 + j), "r0", "valid"}
				cached = append(cached, c)
				fmt.Fprintf(w, "d %s %d %s %s %s %s -\n", c.k, 1+r.intn(3), c.origin, c.id, c.ts, c.sig)
				if r.chance(40) { // forged traffic in between never enters the cache
					fmt.Fprintf(w, "d s %d 4 %d r0 %s -\n", 1+r.intn(3), 500+j, r.pickS("bad", "zero", "otherkey", "wrongid"))
				}
			}
			if r.chance(50) {
				fmt.Fprintf(w, "keys\n")
			}
			fmt.Fprintf(w, "cleanup\n")
			if k <= m && r.chance(50) {
				fmt.Fprintf(w, "keys\n")
			}
			for j := 0; j < 1+r.intn(3); j++ {
				c := cached[r.intn(len(cached))]
				fmt.Fprintf(w, "d %s %d %s %s %s %s -\n", c.k, 1+r.intn(3), c.origin, c.id, c.ts, c.sig)
			}
			continue
		}
		if r.chance(6) { // concurrency stress (last op of its case)
			fmt.Fprintf(w, "reset %d %d %d 10000\nstress %d\n", c29B2i(signing), W, ttlMs, 8+r.intn(24))
			continue
		}
		if r.chance(8) { // timestamp-window edge probes (each sets the window itself)
			fmt.Fprintf(w, "reset 1 9 18500 10000\n")
			for j := 0; j < 4; j++ {
				fmt.Fprintf(w, "edge %s %s %s\n", r.pickS("past", "future"), r.pickS("in", "out"), r.pickS("s", "w"))
			}
			continue
		}
		if r.chance(12) { // cache-expiry edge, to the nanosecond: cleanup at SeenAt + TTL + delta
			fmt.Fprintf(w, "reset %d %d %d 10000\n", c29B2i(signing), W, ttlMs)
			fmt.Fprintf(w, "d s 1 4 7 r0 valid -\n")
			if r.chance(50) { // a second entry, recorded at least a second later
				fmt.Fprintf(w, "adv %d\nd w 2 5 8 r%d valid -\n", 1+r.intn(5), r.intn(3))
			}
			if r.chance(30) { // refreshed by a duplicate from another peer
				a := 1 + r.intn(4)
				fmt.Fprintf(w, "adv %d\nd s 3 4 7 r0 valid -\n", a)
			}
			fmt.Fprintf(w, "cleanupat 4 7 %d\nkeys\n", r.pick(-1000000, -1, 0, 0, 1, 1, 1000000))
			if r.chance(50) {
				fmt.Fprintf(w, "cleanupat 4 7 %d\nkeys\n", r.pick(0, 1))
			}
			continue
		}
		maxSize := r.pick(0, 10000, 10000, 10000)
		fmt.Fprintf(w, "reset %d %d %d %d\n", c29B2i(signing), W, ttlMs, maxSize)
		steps := 3 + r.intn(10)
		if r.chance(10) {
			steps = 30 + r.intn(60) // long history
		}
		var vnow int64
		type pooled struct {
			cmdT
			vts int64
			rel bool
		}
		var pool []pooled
		// a whole-second age k = vnow - vts is decided the same way on the real clock (which adds a
		// fraction of a second) unless k = W-1 or k = -(W+1): those two are left out
		ambiguous := func(p pooled) bool { return p.rel && (vnow-p.vts == W-1 || vnow-p.vts == -(W+1)) }
		for s := 0; s < steps; s++ {
			switch x := r.intn(100); {
			case x < 62: // delivery
				var c pooled
				if len(pool) > 0 && r.chance(45) { // replay (possibly from another peer)
					c = pool[r.intn(len(pool))]
					if r.chance(15) { // same key, other content
						c.sig = sigs[r.intn(len(sigs))]
					}
				} else {
					d := int64(r.pick(0, 0, 0, 1, -1, 2, -2, int(W), -int(W), int(W)-2, 2-int(W), int(W)+1, -int(W)+1, -int(W)-2, int(2*W), -int(2*W)))
					if r.chance(25) {
						d = int64(r.intn(int(3*W+1))) - 3*W/2
					}
					c = pooled{cmdT{r.pickS("s", "w"), strconv.Itoa(r.pick(4, 4, 5, 1)), strconv.Itoa(1 + r.intn(12)), fmt.Sprintf("r%d", vnow+d), sigs[r.intn(len(sigs))]}, vnow + d, true}
					if r.chance(4) {
						c.ts, c.rel = r.pickS("a0", "a4611686018427387904", "a20000000000", "a18446744073709551615"), false
					}
					if r.chance(6) { // wrap points of seconds->nanoseconds arithmetic: k*2^64 ns = k*18446744073.7 s, 2^63 ns = 9223372036.85 s
						base := []int64{18446744074, -18446744074, 36893488148, -36893488148, 55340232222, -55340232222, 9223372036, -9223372037}[r.intn(8)]
						c.ts, c.rel = fmt.Sprintf("r%d", vnow+base+int64(r.pick(0, 1, -1, 2, -2))), false
					}
					if r.chance(40) {
						c.sig = "valid"
					}
					pool = append(pool, c)
				}
				if ambiguous(c) {
					continue
				}
				seen := r.pickS("-", "-", "-", "1", "2.3", "0", "4")
				fmt.Fprintf(w, "d %s %d %s %s %s %s %s\n", c.k, 1+r.intn(3), c.origin, c.id, c.ts, c.sig, seen)
			case x < 76:
				d := int64(r.pick(1, 2, 3, 5, 7, int(W)-1, int(W), int(W)+1, int(2*W)-1, int(2*W), int(2*W)+1, int(3*W)+2))
				fmt.Fprintf(w, "adv %d\n", d)
				vnow += d
			case x < 88:
				fmt.Fprintf(w, "cleanup\n")
			case x < 94:
				fmt.Fprintf(w, "keys\n")
			default:
				amb := false
				for _, p := range pool { // the stored wake command is re-verified: same edge rule
					if p.k == "w" && ambiguous(p) {
						amb = true
					}
				}
				if !amb {
					fmt.Fprintf(w, "peer %d\n", 1+r.intn(5))
				}
			}
		}
	}
}

func c29B2i(b bool) int {
	if b {
		return 1
	}
	return 0
}

func init() {
	register("c29", &Engine{Run: c29Run, Gen: c29Gen})
}
