//go:build verif && (all || c17)

package main

import (
	"bufio"
	"context"
	"fmt"
	"net"
	"sort"
	"strings"
	"sync"
	"time"

	"github.com/postalsys/muti-metroo/internal/crypto"
	"github.com/postalsys/muti-metroo/internal/exit"
	"github.com/postalsys/muti-metroo/internal/forward"
	"github.com/postalsys/muti-metroo/internal/identity"
	"github.com/postalsys/muti-metroo/internal/protocol"
)

// Engine c17: bookkeeping of the REAL exit.Handler and forward.Handler (connections map keyed by
// the bare stream id, connCount) with a recording StreamWriter and a real loopback TCP sink as the
// destination. Every accepted open gets a serial (order of successful dials = order in which the
// sink accepts); the serial identifies the record, its destination socket and its session key.
//
//	reset
//	open H id peer            H = exit | fwd   (refused with OPEN_ERR when MaxConnections=6 is reached)
//	openfail H kind id peer   an open that must fail: zero|loworder|notallowed|unresolvable|refused|nokey
//	data H id peer serial     STREAM_DATA sealed under the session key of tunnel `serial`
//	close H id peer | rst H id peer
//	dsteof H serial           the destination closes its side of socket `serial`
//	end
//	answer: ev=[…sorted…] count=<ConnectionCount()> keys=[id:serial …]

type c17Writer struct {
	mu  sync.Mutex
	evs []string
	ack map[string][crypto.KeySize]byte // "peer:id" -> responder ephemeral key of the last ACK
}

func (w *c17Writer) add(s string) { w.mu.Lock(); w.evs = append(w.evs, s); w.mu.Unlock() }
func (w *c17Writer) WriteStreamData(p identity.AgentID, id uint64, data []byte, flags uint8) error {
	if flags&protocol.FlagFinWrite != 0 {
		w.add(fmt.Sprintf("fin:%d:%d", c17Num(p), id))
	} else {
		w.add(fmt.Sprintf("rdata:%d:%d", c17Num(p), id))
	}
	return nil
}
func (w *c17Writer) WriteStreamOpenAck(p identity.AgentID, id uint64, req uint64, ip net.IP, port uint16, eph [crypto.KeySize]byte) error {
	w.mu.Lock()
	w.ack[fmt.Sprintf("%d:%d", c17Num(p), id)] = eph
	w.mu.Unlock()
	w.add(fmt.Sprintf("ack:%d:%d", c17Num(p), id))
	return nil
}
func (w *c17Writer) WriteStreamOpenErr(p identity.AgentID, id uint64, req uint64, code uint16, msg string) error {
	w.add(fmt.Sprintf("err:%d:%d", c17Num(p), id))
	return nil
}
func (w *c17Writer) WriteStreamClose(p identity.AgentID, id uint64) error {
	w.add(fmt.Sprintf("close:%d:%d", c17Num(p), id))
	return nil
}
func (w *c17Writer) take() []string {
	w.mu.Lock()
	defer w.mu.Unlock()
	e := w.evs
	w.evs = nil
	return e
}
func (w *c17Writer) has(prefix string) bool {
	w.mu.Lock()
	defer w.mu.Unlock()
	for _, e := range w.evs {
		if strings.HasPrefix(e, prefix) {
			return true
		}
	}
	return false
}

func c17ID(n int) identity.AgentID {
	var id identity.AgentID
	id[0] = 0xC1
	id[15] = byte(n)
	return id
}
func c17Num(id identity.AgentID) int { return int(id[15]) }

type c17Tunnel struct {
	h      string
	id     uint64
	peer   int
	key    *crypto.SessionKey
	sinkIx int
	rec    interface{} // *exit.ActiveConnection or *forward.ActiveConnection
}

// c17MaxConns is MaxConnections of both handlers: small, so that histories reach the limit.
const c17MaxConns = 6

type c17World struct {
	dead  *net.TCPAddr
	ex    *exit.Handler
	fw    *forward.Handler
	wr    *c17Writer
	sinks map[string]*c17Sink
	tuns  []*c17Tunnel // index = serial
	open  map[int]bool // serials whose destination socket is open on both sides
	req   uint64
}

func c17New() *c17World {
	w := &c17World{wr: &c17Writer{ack: map[string][crypto.KeySize]byte{}}, sinks: map[string]*c17Sink{"exit": c17NewSink(), "fwd": c17NewSink()}, open: map[int]bool{}}
	_, loop, _ := net.ParseCIDR("127.0.0.0/8")
	ecfg := exit.DefaultHandlerConfig()
	ecfg.AllowedRoutes = []*net.IPNet{loop}
	ecfg.ConnectTimeout = 5 * time.Second
	ecfg.IdleTimeout = time.Hour
	ecfg.MaxConnections = c17MaxConns
	ecfg.DNS = exit.DNSConfig{Servers: []string{"127.0.0.1:1"}, Timeout: 300 * time.Millisecond} // nothing resolves
	w.ex = exit.NewHandler(ecfg, c17ID(0), w.wr)
	w.ex.Start()
	// a loopback port nobody listens on: dial is refused
	dl, err := net.Listen("tcp", "127.0.0.1:0")
	must(err)
	w.dead = dl.Addr().(*net.TCPAddr)
	dl.Close()
	fcfg := forward.DefaultHandlerConfig()
	fcfg.Endpoints = []forward.Endpoint{{Key: "k", Target: w.sinks["fwd"].ln.Addr().String()}, {Key: "dead", Target: w.dead.String()}}
	fcfg.ConnectTimeout = 5 * time.Second
	fcfg.IdleTimeout = time.Hour
	fcfg.MaxConnections = c17MaxConns
	w.fw = forward.NewHandler(fcfg, c17ID(0), w.wr)
	w.fw.Start()
	return w
}

func (w *c17World) teardown() {
	for _, s := range w.sinks {
		s.ln.Close()
		s.mu.Lock()
		for _, c := range s.conns {
			c.Close()
		}
		s.mu.Unlock()
	}
	w.fw.Stop()
	w.ex.Stop()
}

func (w *c17World) record(h string, id uint64) interface{} {
	if h == "exit" {
		if r := exit.C17Record(w.ex, id); r != nil {
			return r
		}
		return nil
	}
	if r := forward.C17Record(w.fw, id); r != nil {
		return r
	}
	return nil
}

func (w *c17World) count(h string) int64 {
	if h == "exit" {
		return w.ex.ConnectionCount()
	}
	return w.fw.ConnectionCount()
}

func (w *c17World) serialOf(rec interface{}) int {
	for i, t := range w.tuns {
		if t.rec == rec {
			return i
		}
	}
	return -1
}

// settle waits until exactly the sockets in w.open are served by a readLoop and every other
// destination socket has been seen closed by the sink.
func (w *c17World) settle() {
	c17Wait("readLoops to settle", func() bool {
		if c17ReadLoops() != len(w.open) {
			return false
		}
		for i, t := range w.tuns {
			s := w.sinks[t.h]
			s.mu.Lock()
			done := s.gone[t.sinkIx] || s.self[t.sinkIx]
			s.mu.Unlock()
			if !w.open[i] && !done {
				return false
			}
		}
		return true
	})
}

func (w *c17World) out(extra []string) string {
	evs := append(w.wr.take(), extra...)
	sort.Strings(evs)
	var keys []string
	for _, k := range exit.C17Keys(w.ex) {
		keys = append(keys, fmt.Sprintf("exit/%d:%d", k, w.serialOf(exit.C17Record(w.ex, k))))
	}
	for _, k := range forward.C17Keys(w.fw) {
		keys = append(keys, fmt.Sprintf("fwd/%d:%d", k, w.serialOf(forward.C17Record(w.fw, k))))
	}
	return fmt.Sprintf("ev=[%s] count=%d/%d keys=[%s]", strings.Join(evs, " "), w.ex.ConnectionCount(), w.fw.ConnectionCount(), strings.Join(keys, " "))
}

// closing notes that the record currently stored under (h,id) is about to be closed by the handler.
func (w *c17World) closing(h string, id uint64) []string {
	rec := w.record(h, id)
	if rec == nil {
		return nil
	}
	s := w.serialOf(rec)
	if s >= 0 && w.open[s] {
		delete(w.open, s)
		return []string{fmt.Sprintf("dstclosed:%d", s)}
	}
	return nil
}

func init() {
	var w *c17World
	register("c17", &Engine{
		Run: func(line string) string {
			f := fields(line)
			if f[0] == "reset" || w == nil {
				if w != nil {
					w.teardown()
				}
				w = c17New()
				if f[0] == "reset" {
					return "ok"
				}
			}
			if f[0] == "end" {
				return w.out(nil)
			}
			h := f[1]
			switch f[0] {
			case "open":
				id, peer := c16U64x(f[2]), c16Atoix(f[3])
				priv, pub, err := crypto.GenerateEphemeralKeypair()
				must(err)
				w.req++
				req := w.req
				tag := fmt.Sprintf("%d:%d", peer, id)
				pre := w.record(h, id)
				countBefore := w.count(h)
				// a synchronous error (connection limit) is reported to the peer as OPEN_ERR as well
				if h == "exit" {
					_ = w.ex.HandleStreamOpen(context.Background(), id, req, c17ID(peer), "127.0.0.1", uint16(w.sinks["exit"].ln.Addr().(*net.TCPAddr).Port), pub)
				} else {
					_ = w.fw.HandleStreamOpen(context.Background(), id, req, c17ID(peer), "k", pub)
				}
				c17Wait("open answer", func() bool { return w.wr.has("ack:"+tag) || w.wr.has("err:"+tag) })
				if !w.wr.has("ack:" + tag) {
					return w.out(nil)
				}
				// a record already stored under the id is displaced: the handler closes its connection
				// (observed on the real counter: a handler that displaces counts the slot once)
				var extra []string
				if pre != nil && w.count(h) == countBefore {
					if s := w.serialOf(pre); s >= 0 && w.open[s] {
						delete(w.open, s)
						extra = append(extra, fmt.Sprintf("dstclosed:%d", s))
					}
				}
				w.wr.mu.Lock()
				theirs := w.wr.ack[tag]
				w.wr.mu.Unlock()
				shared, err := crypto.ComputeECDH(priv, theirs)
				must(err)
				key := crypto.DeriveSessionKey(shared, req, pub, theirs, true)
				serial := len(w.tuns)
				sink := w.sinks[h]
				nth := 0
				for _, t := range w.tuns {
					if t.h == h {
						nth++
					}
				}
				c17Wait("sink accept", func() bool { sink.mu.Lock(); defer sink.mu.Unlock(); return len(sink.conns) > nth })
				w.tuns = append(w.tuns, &c17Tunnel{h: h, id: id, peer: peer, key: key, sinkIx: nth, rec: w.record(h, id)})
				w.open[serial] = true
				w.settle()
				return w.out(extra)
			case "openfail":
				// an open that must be refused: kind = zero | loworder (unusable ephemeral key), notallowed,
				// unresolvable, refused (exit); zero | loworder | nokey | refused (fwd)
				kind, id, peer := f[2], c16U64x(f[3]), c16Atoix(f[4])
				_, pub, err := crypto.GenerateEphemeralKeypair()
				must(err)
				switch kind {
				case "zero":
					pub = [crypto.KeySize]byte{}
				case "loworder":
					pub = [crypto.KeySize]byte{1}
				}
				w.req++
				tag := fmt.Sprintf("%d:%d", peer, id)
				if h == "exit" {
					addr, port := "127.0.0.1", uint16(w.sinks["exit"].ln.Addr().(*net.TCPAddr).Port)
					switch kind {
					case "notallowed":
						addr = "10.9.8.7"
					case "unresolvable":
						addr = "no-such-host.invalid"
					case "refused":
						port = uint16(w.dead.Port)
					}
					_ = w.ex.HandleStreamOpen(context.Background(), id, w.req, c17ID(peer), addr, port, pub)
				} else {
					key := "k"
					switch kind {
					case "nokey":
						key = "missing"
					case "refused":
						key = "dead"
					}
					_ = w.fw.HandleStreamOpen(context.Background(), id, w.req, c17ID(peer), key, pub)
				}
				c17Wait("open answer", func() bool { return w.wr.has("ack:"+tag) || w.wr.has("err:"+tag) })
				w.settle()
				return w.out(nil)
			case "data":
				id, peer, serial := c16U64x(f[2]), c16Atoix(f[3]), c16Atoix(f[4])
				if serial >= len(w.tuns) {
					return "bad-op"
				}
				ct, err := w.tuns[serial].key.Encrypt([]byte("payload"))
				must(err)
				rec := w.record(h, id)
				var before int
				target := -1
				if rec != nil {
					target = w.serialOf(rec)
					s := w.sinks[h]
					s.mu.Lock()
					before = s.recv[w.tuns[target].sinkIx]
					s.mu.Unlock()
				}
				var herr error
				if h == "exit" {
					herr = w.ex.HandleStreamData(c17ID(peer), id, ct, 0)
				} else {
					herr = w.fw.HandleStreamData(c17ID(peer), id, ct, 0)
				}
				var extra []string
				switch {
				case herr == nil && target >= 0:
					s := w.sinks[h]
					c17Wait("bytes at the destination", func() bool { s.mu.Lock(); defer s.mu.Unlock(); return s.recv[w.tuns[target].sinkIx] >= before+7 })
					extra = append(extra, fmt.Sprintf("dst:%d", target))
				case herr != nil && strings.Contains(herr.Error(), "decrypt") && target >= 0:
					if w.open[target] {
						delete(w.open, target)
						extra = append(extra, fmt.Sprintf("dstclosed:%d", target))
					}
				}
				w.settle()
				return w.out(extra)
			case "close", "rst":
				id, peer := c16U64x(f[2]), c16Atoix(f[3])
				extra := w.closing(h, id)
				switch {
				case h == "exit" && f[0] == "close":
					w.ex.HandleStreamClose(c17ID(peer), id)
				case h == "exit":
					w.ex.HandleStreamReset(c17ID(peer), id, 1)
				case f[0] == "close":
					w.fw.HandleStreamClose(c17ID(peer), id)
				default:
					w.fw.HandleStreamReset(c17ID(peer), id, 1)
				}
				w.settle()
				return w.out(extra)
			case "dsteof":
				serial := c16Atoix(f[2])
				if serial >= len(w.tuns) || !w.open[serial] {
					return w.out(nil)
				}
				t := w.tuns[serial]
				delete(w.open, serial)
				pre := w.record(t.h, t.id)
				loops := c17ReadLoops()
				s := w.sinks[t.h]
				s.mu.Lock()
				s.self[t.sinkIx] = true
				c := s.conns[t.sinkIx]
				s.mu.Unlock()
				c.Close()
				tag := fmt.Sprintf("fin:%d:%d", t.peer, t.id)
				c17Wait("FIN from the read loop", func() bool { return w.wr.has(tag) })
				// the loop's deferred teardown has run once the loop itself is gone
				c17Wait("the read loop to end", func() bool { return c17ReadLoops() < loops })
				var extra []string
				if pre != nil && w.record(t.h, t.id) != pre { // the teardown removed a record: whose?
					if ps := w.serialOf(pre); ps >= 0 && w.open[ps] {
						delete(w.open, ps)
						extra = append(extra, fmt.Sprintf("dstclosed:%d", ps))
					}
				}
				w.settle()
				return w.out(extra)
			}
			return "bad-op"
		},
		Gen: c17Gen,
	})
}

func c16U64x(s string) uint64 { var n uint64; fmt.Sscanf(s, "%d", &n); return n }
func c16Atoix(s string) int   { var n int; fmt.Sscanf(s, "%d", &n); return n }

// c17Gen: histories of opens (several peers, ids drawn from each peer's own allocator 1,3,5… so that
// different peers collide, or globally distinct ids), data under the right and under a foreign key,
// close/reset from the owner and from other peers, destination EOFs, double closes, re-opens of a
// closed id, both handlers; every case ends with an orderly teardown and `end`.
func c17Gen(w *bufio.Writer, seed int64, tier string) {
	r := newRng(seed)
	n := 60
	if tier == "thorough" {
		n = 1500
	}
	// connection limit: the 7th and 8th open are refused, a slot freed by a close is usable again,
	// refused opens of every kind in between never consume a slot
	for _, h := range []string{"exit", "fwd"} {
		fmt.Fprintf(w, "reset\n")
		kinds := []string{"zero", "loworder", "notallowed", "unresolvable", "refused"}
		if h == "fwd" {
			kinds = []string{"zero", "loworder", "nokey", "refused"}
		}
		for i := 0; i < 8; i++ {
			fmt.Fprintf(w, "open %s %d 1\n", h, 1+2*i)
			fmt.Fprintf(w, "openfail %s %s %d 2\n", h, kinds[i%len(kinds)], 201+2*i)
		}
		fmt.Fprintf(w, "close %s 3 1\nopen %s 31 1\nopen %s 33 1\n", h, h, h)
		for i := 0; i < 17; i++ {
			fmt.Fprintf(w, "close %s %d 1\n", h, 1+2*i)
		}
		fmt.Fprintf(w, "end\n")
	}
	for c := 0; c < n; c++ {
		fmt.Fprintf(w, "reset\n")
		distinct := r.chance(50)
		type tun struct {
			h      string
			id     uint64
			peer   int
			serial int
		}
		var tuns []tun
		next := map[string]uint64{}
		var global uint64 = 1
		nOps := 2 + r.intn(12)
		if r.chance(4) {
			nOps = 60
		}
		for k := 0; k < nOps; k++ {
			switch x := r.intn(100); {
			case x < 35 || len(tuns) == 0:
				h := r.pickS("exit", "exit", "fwd")
				peer := 1 + r.intn(3)
				var id uint64
				if distinct {
					id = global
					global += 2
				} else {
					key := fmt.Sprintf("%s/%d", h, peer)
					if next[key] == 0 {
						next[key] = 1
					}
					id = next[key]
					next[key] += 2
					if r.chance(5) {
						id = []uint64{1, 1 << 63, ^uint64(0)}[r.intn(3)]
					}
					if r.chance(10) && len(tuns) > 0 { // re-open of an id used before (possibly closed by now)
						id = tuns[r.intn(len(tuns))].id
					}
				}
				tuns = append(tuns, tun{h, id, peer, len(tuns)})
				fmt.Fprintf(w, "open %s %d %d\n", h, id, peer)
			case x < 47:
				// opens that must be refused, of every kind, under fresh and under live ids
				h := r.pickS("exit", "exit", "fwd")
				kind := r.pickS("zero", "loworder", "notallowed", "unresolvable", "refused")
				if h == "fwd" {
					kind = r.pickS("zero", "loworder", "nokey", "refused")
				}
				id := 101 + uint64(r.intn(50))*2
				if r.chance(30) {
					id = tuns[r.intn(len(tuns))].id
				}
				fmt.Fprintf(w, "openfail %s %s %d %d\n", h, kind, id, 1+r.intn(3))
			case x < 60:
				t := tuns[r.intn(len(tuns))]
				fmt.Fprintf(w, "data %s %d %d %d\n", t.h, t.id, t.peer, t.serial)
			case x < 66: // foreign key / stale tunnel
				t := tuns[r.intn(len(tuns))]
				u := tuns[r.intn(len(tuns))]
				fmt.Fprintf(w, "data %s %d %d %d\n", t.h, t.id, u.peer, u.serial)
			case x < 80:
				t := tuns[r.intn(len(tuns))]
				fmt.Fprintf(w, "%s %s %d %d\n", r.pickS("close", "close", "rst"), t.h, t.id, t.peer)
			case x < 84:
				t := tuns[r.intn(len(tuns))]
				fmt.Fprintf(w, "close %s %d %d\n", t.h, t.id, 1+r.intn(3))
			default:
				t := tuns[r.intn(len(tuns))]
				fmt.Fprintf(w, "dsteof %s %d\n", t.h, t.serial)
			}
		}
		for _, t := range tuns {
			if r.chance(50) {
				fmt.Fprintf(w, "close %s %d %d\n", t.h, t.id, t.peer)
			} else {
				fmt.Fprintf(w, "dsteof %s %d\n", t.h, t.serial)
			}
		}
		for _, t := range tuns { // whatever is still open at the destination goes away too
			fmt.Fprintf(w, "dsteof %s %d\n", t.h, t.serial)
		}
		fmt.Fprintf(w, "end\n")
	}
}
