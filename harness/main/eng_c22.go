//go:build verif && (all || c22)

package main

import (
	"bufio"
	"bytes"
	"context"
	"errors"
	"fmt"
	"io"
	"net"
	"runtime"
	"strings"
	"sync"
	"syscall"
	"time"
	"unsafe"

	"github.com/postalsys/muti-metroo/internal/socks5"
)

// Engine c22: a real UDP association created by a real UDP ASSOCIATE request over a real control
// connection (TCP from 127.0.0.k, or net.Pipe = no TCP peer address), its real ReadLoop on a real
// relay socket, and datagrams from UDP sockets bound to 127.0.0.1/2/3 (grammar: MM/Engine/C22.lean).
func init() {
	register("c22", &Engine{Run: c22Run, Gen: c22Gen})
}

type c22Backend struct {
	mu      sync.Mutex
	assoc   *socks5.UDPAssociation
	relayed [][]byte
}

func (b *c22Backend) CreateUDPAssociation(ctx context.Context, clientAddr *net.UDPAddr) (uint64, error) {
	return 7, nil
}
func (b *c22Backend) SetSOCKS5UDPAssociation(streamID uint64, assoc *socks5.UDPAssociation) {
	b.mu.Lock()
	b.assoc = assoc
	b.mu.Unlock()
}
func (b *c22Backend) RelayUDPDatagram(streamID uint64, destAddr net.Addr, destPort uint16, addrType byte, rawAddr []byte, data []byte) error {
	b.mu.Lock()
	b.relayed = append(b.relayed, append([]byte{}, data...))
	b.mu.Unlock()
	return nil
}
func (b *c22Backend) CloseUDPAssociation(streamID uint64) {}
func (b *c22Backend) IsUDPEnabled() bool                  { return true }

type c22World struct {
	be      *c22Backend
	ctrl    net.Conn // client side of the control connection
	ln      net.Listener
	senders [5]*net.UDPConn // 1..4
	barrier *net.UDPConn
	relay   *net.UDPAddr
	seq     int
}

var c22W *c22World

func (w *c22World) close() {
	if w.ctrl != nil {
		w.ctrl.Close()
	}
	if w.ln != nil {
		w.ln.Close()
	}
	for _, s := range w.senders {
		if s != nil {
			s.Close()
		}
	}
	if w.barrier != nil {
		w.barrier.Close()
	}
	// the handler closes the association when the control connection ends
	if w.be != nil && w.be.assoc != nil {
		for i := 0; i < 2000 && !w.be.assoc.IsClosed(); i++ {
			time.Sleep(500 * time.Microsecond)
		}
	}
}

func c22SenderIP(k int) net.IP {
	if k == 4 {
		k = 1
	}
	return net.IPv4(127, 0, 0, byte(k)).To4()
}

func c22Reset(ctrl, decl string) string {
	if c22W != nil {
		c22W.close()
		c22W = nil
	}
	w := &c22World{be: &c22Backend{}}
	for k := 1; k <= 4; k++ {
		s, err := net.ListenUDP("udp4", &net.UDPAddr{IP: c22SenderIP(k)})
		must(err)
		w.senders[k] = s
	}
	b, err := net.ListenUDP("udp4", &net.UDPAddr{IP: net.IPv4(127, 0, 0, 1)})
	must(err)
	w.barrier = b

	h := socks5.NewHandler(nil, nil)
	h.SetUDPHandler(w.be)
	var client net.Conn
	if ctrl == "p" {
		server, c := net.Pipe()
		client = c
		go h.Handle(server)
	} else {
		ln, err := net.Listen("tcp4", "127.0.0.1:0")
		must(err)
		w.ln = ln
		go func() {
			c, err := ln.Accept()
			if err != nil {
				return
			}
			h.Handle(c)
			c.Close()
		}()
		d := net.Dialer{LocalAddr: &net.TCPAddr{IP: c22SenderIP(int(ctrl[1] - '0'))}, Timeout: 2 * time.Second}
		c, err := d.Dial("tcp4", ln.Addr().String())
		must(err)
		client = c
	}
	w.ctrl = client
	// the request
	var addr []byte
	port := 0
	portOf := func(k int) int { return w.senders[k].LocalAddr().(*net.UDPAddr).Port }
	switch {
	case decl == "u":
		addr = []byte{1, 0, 0, 0, 0}
	case decl == "u6":
		addr = append([]byte{4}, make([]byte, 16)...)
	case decl == "d":
		addr, port = append([]byte{3, 11}, "example.com"...), 53
	case len(decl) == 1:
		k := int(decl[0] - '0')
		addr, port = append([]byte{1}, c22SenderIP(k)...), portOf(k)
	case len(decl) == 2 && decl[1] == 'x':
		k := int(decl[0] - '0')
		addr, port = append([]byte{1}, c22SenderIP(k)...), 9
	case len(decl) == 2 && decl[0] == 'm':
		k := int(decl[1] - '0')
		addr, port = append([]byte{4, 0, 0, 0, 0, 0, 0, 0, 0, 0, 0, 0xff, 0xff}, c22SenderIP(k)...), portOf(k)
	default:
		return "bad-op"
	}
	client.SetDeadline(time.Now().Add(3 * time.Second))
	_, err = client.Write([]byte{5, 1, 0})
	must(err)
	sel := make([]byte, 2)
	_, err = io.ReadFull(client, sel)
	must(err)
	req := append([]byte{5, 3, 0}, addr...)
	req = append(req, byte(port>>8), byte(port))
	_, err = client.Write(req)
	must(err)
	rep := make([]byte, 10)
	_, err = io.ReadFull(client, rep)
	must(err)
	client.SetDeadline(time.Time{})
	if rep[1] != 0 {
		return fmt.Sprintf("err associate %d", rep[1])
	}
	w.relay = &net.UDPAddr{IP: net.IPv4(127, 0, 0, 1), Port: int(rep[8])<<8 | int(rep[9])}
	for i := 0; i < 2000; i++ { // SetSOCKS5UDPAssociation happens before the reply; be safe
		w.be.mu.Lock()
		a := w.be.assoc
		w.be.mu.Unlock()
		if a != nil {
			break
		}
		time.Sleep(500 * time.Microsecond)
	}
	if w.be.assoc == nil {
		return "err no-assoc"
	}
	if w.be.assoc.LocalAddr().Port != w.relay.Port {
		return "err relay-port"
	}
	c22W = w
	c22Quiesce(w)
	return "ok"
}

// c22Pending: bytes waiting in the relay socket's receive queue (FIONREAD).
func c22Pending(c *net.UDPConn) int {
	rc, err := c.SyscallConn()
	if err != nil {
		return 0
	}
	var n int32
	rc.Control(func(fd uintptr) {
		syscall.Syscall(syscall.SYS_IOCTL, fd, 0x541B, uintptr(unsafe.Pointer(&n)))
	})
	return int(n)
}

// c22LoopIdle: every ReadLoop goroutine is parked in the network poller (blocked in ReadFromUDP).
func c22LoopIdle() bool {
	buf := make([]byte, 1<<20)
	buf = buf[:runtime.Stack(buf, true)]
	found := false
	for _, g := range bytes.Split(buf, []byte("\n\n")) {
		if bytes.Contains(g, []byte("socks5.(*UDPAssociation).ReadLoop")) {
			found = true
			head, _, _ := bytes.Cut(g, []byte("\n"))
			if !bytes.Contains(head, []byte("[IO wait")) {
				return false
			}
		}
	}
	return found
}

// c22Quiesce waits until the relay socket's queue is empty and ReadLoop is blocked reading again,
// i.e. every datagram delivered so far has been fully processed.
func c22Quiesce(w *c22World) {
	stable := 0
	for i := 0; i < 40000 && stable < 3; i++ {
		if c22Pending(w.be.assoc.UDPConn) == 0 && c22LoopIdle() {
			stable++
		} else {
			stable = 0
		}
		time.Sleep(200 * time.Microsecond)
	}
	if stable < 3 {
		panic("relay loop did not become idle")
	}
}

func c22Send(w *c22World, k int, valid bool) string {
	w.seq++
	tag := []byte(fmt.Sprintf("dg%04d", w.seq))
	var dg []byte
	if valid {
		dg = append([]byte{0, 0, 0, 1, 10, 1, 2, 3, 0, 53}, tag...)
	} else if w.seq%2 == 0 {
		dg = append([]byte{0, 0, 1, 1, 10, 1, 2, 3, 0, 53}, tag...) // fragmented: refused
	} else {
		dg = []byte{0, 0, 0, 1, 10} // too short
	}
	w.be.mu.Lock()
	before := len(w.be.relayed)
	w.be.mu.Unlock()
	s := w.senders[k]
	_, err := s.WriteToUDP(dg, w.relay)
	must(err)
	// barrier: a second datagram from the same socket to a socket of ours; loopback delivery is
	// in order, so once it has arrived the first one is in the relay socket's queue
	_, err = s.WriteToUDP([]byte("barrier"), w.barrier.LocalAddr().(*net.UDPAddr))
	must(err)
	w.barrier.SetReadDeadline(time.Now().Add(3 * time.Second))
	bb := make([]byte, 16)
	if _, _, err := w.barrier.ReadFromUDP(bb); err != nil {
		panic("barrier datagram lost: " + err.Error())
	}
	c22Quiesce(w)
	w.be.mu.Lock()
	defer w.be.mu.Unlock()
	switch len(w.be.relayed) - before {
	case 0:
		return "dropped"
	case 1:
		if valid && bytes.Equal(w.be.relayed[before], tag) {
			return "relayed"
		}
		return "relayed-garbled"
	}
	return "relayed-many"
}

func c22Reply(w *c22World) string {
	for k := 1; k <= 4; k++ { // drain
		w.senders[k].SetReadDeadline(time.Now().Add(time.Millisecond))
		b := make([]byte, 64)
		for {
			if _, _, err := w.senders[k].ReadFromUDP(b); err != nil {
				break
			}
		}
	}
	err := w.be.assoc.WriteToClient(1, []byte{9, 9, 9, 9}, 53, []byte("reply"))
	if err != nil {
		if strings.Contains(err.Error(), "no client address") {
			return "none"
		}
		return "err write"
	}
	deadline := time.Now().Add(2 * time.Second)
	b := make([]byte, 64)
	for time.Now().Before(deadline) {
		for k := 1; k <= 4; k++ {
			w.senders[k].SetReadDeadline(time.Now().Add(2 * time.Millisecond))
			n, from, err := w.senders[k].ReadFromUDP(b)
			if err == nil {
				if from.Port != w.relay.Port || !bytes.HasSuffix(b[:n], []byte("reply")) {
					return "to-garbled"
				}
				return fmt.Sprintf("to %d", k)
			}
			var ne net.Error
			if !errors.As(err, &ne) || !ne.Timeout() {
				return "err read"
			}
		}
	}
	return "to nobody-known"
}

func c22Run(line string) string {
	f := fields(line)
	if f[0] == "reset" && len(f) == 3 {
		return c22Reset(f[1], f[2])
	}
	if c22W == nil {
		return "err no-case"
	}
	switch {
	case f[0] == "send" && len(f) == 3:
		return c22Send(c22W, int(f[1][0]-'0'), f[2] == "v")
	case f[0] == "reply":
		return c22Reply(c22W)
	}
	return "bad-op"
}

// ---- generator: all arrival orders of up to 4 datagrams over the senders, with and without a
// declared client address, for every kind of control connection; plus longer random histories.
func c22Gen(w *bufio.Writer, seed int64, tier string) {
	r := newRng(seed)
	ctrls := []string{"t1", "t1", "t2", "t3", "p"}
	decls := []string{"u", "u", "u6", "d", "1", "2", "3", "4", "1x", "2x", "m1", "m2"}
	emitCase := func(ctrl, decl string, sends []string) {
		fmt.Fprintf(w, "reset %s %s\n", ctrl, decl)
		fmt.Fprintf(w, "reply\n")
		for _, s := range sends {
			fmt.Fprintf(w, "send %s\n", s)
			if r.chance(60) {
				fmt.Fprintf(w, "reply\n")
			}
		}
		fmt.Fprintf(w, "reply\n")
	}
	// exhaustive part: every control kind x undeclared/declared x every ordered pair of first senders
	for _, ctrl := range []string{"t1", "t2", "p"} {
		for _, decl := range []string{"u", "1", "2"} {
			for a := 1; a <= 4; a++ {
				for b := 1; b <= 4; b++ {
					if tier != "thorough" && (a*4+b+int(seed))%3 != 0 {
						continue
					}
					emitCase(ctrl, decl, []string{fmt.Sprintf("%d v", a), fmt.Sprintf("%d v", b), "1 v", "2 v"})
				}
			}
		}
	}
	n := 40
	if tier == "thorough" {
		n = 1500
	}
	for i := 0; i < n; i++ {
		ctrl := ctrls[r.intn(len(ctrls))]
		decl := decls[r.intn(len(decls))]
		k := 1 + r.intn(4)
		if r.chance(8) {
			k = 20 + r.intn(30)
		}
		var sends []string
		for j := 0; j < k; j++ {
			v := "v"
			if r.chance(20) {
				v = "i"
			}
			sends = append(sends, fmt.Sprintf("%d %s", 1+r.intn(4), v))
		}
		emitCase(ctrl, decl, sends)
	}
}
