//go:build verif && (all || c22)

package main

import (
	"bufio"
	"bytes"
	"context"
	"errors"
	"fmt"
	"io"
	"net"
	"runtime"
	"strings"
	"sync"
	"syscall"
	"time"
	"unsafe"

	"github.com/postalsys/muti-metroo/internal/socks5"
)

// Engine c22: a real UDP association created by a real UDP ASSOCIATE request over a real control
// connection (TCP from 127.0.0.k, or net.Pipe = no TCP peer address), its real ReadLoop on a real
// relay socket, and datagrams from UDP sockets bound to 127.0.0.1/2/3 (grammar: MM/Engine/C22.lean).
func init() {
	register("c22", &Engine{Run: c22Run, Gen: c22Gen})
}

type c22Backend struct {
	mu      sync.Mutex
	assoc   *socks5.UDPAssociation
	relayed [][]byte      // one record per relayed datagram: rawAddr | port(2) | payload
	held    chan struct{} // non-nil: RelayUDPDatagram blocks until it is closed (a stalled mesh link)
}

// c22Record is what identifies a relayed datagram: destination address bytes, port, payload.
func c22Record(rawAddr []byte, port uint16, data []byte) []byte {
	r := append([]byte{}, rawAddr...)
	r = append(r, byte(port>>8), byte(port))
	return append(r, data...)
}

func (b *c22Backend) CreateUDPAssociation(ctx context.Context, clientAddr *net.UDPAddr) (uint64, error) {
	return 7, nil
}
func (b *c22Backend) SetSOCKS5UDPAssociation(streamID uint64, assoc *socks5.UDPAssociation) {
	b.mu.Lock()
	b.assoc = assoc
	b.mu.Unlock()
}
func (b *c22Backend) RelayUDPDatagram(streamID uint64, destAddr net.Addr, destPort uint16, addrType byte, rawAddr []byte, data []byte) error {
	// like a real mesh path, take the bytes on entry (encrypt), then possibly stall on the link
	rec := c22Record(rawAddr, destPort, data)
	b.mu.Lock()
	held := b.held
	b.mu.Unlock()
	if held != nil {
		<-held
	}
	b.mu.Lock()
	b.relayed = append(b.relayed, rec)
	b.mu.Unlock()
	return nil
}

func (b *c22Backend) release() {
	b.mu.Lock()
	if b.held != nil {
		close(b.held)
		b.held = nil
	}
	b.mu.Unlock()
}
func (b *c22Backend) CloseUDPAssociation(streamID uint64) {}
func (b *c22Backend) IsUDPEnabled() bool                  { return true }

type c22World struct {
	be      *c22Backend
	ctrl    net.Conn // client side of the control connection
	ln      net.Listener
	senders [5]*net.UDPConn // 1..4
	barrier *net.UDPConn
	relay   *net.UDPAddr
	seq     int
	sent    map[string]string // record -> "<sender>.<seq>" for every datagram sent in this case
	mark    int               // len(relayed) when the back-end was put on hold
	broken  bool              // a wait timed out: the rest of the case is skipped
}

// c22Timeouts counts waits that hit their deadline; after a few the engine stops waiting at all
// (a tree on which the synchronisation cannot settle must not cost the whole time budget).
var c22Timeouts int

const c22WaitBudget = 5 * time.Second

var c22W *c22World

// c22Skip: the current case needs an IPv6 loopback that this host does not have
var c22Skip bool

func (w *c22World) close() {
	if w.be != nil {
		w.be.release()
	}
	if w.ctrl != nil {
		w.ctrl.Close()
	}
	if w.ln != nil {
		w.ln.Close()
	}
	for _, s := range w.senders {
		if s != nil {
			s.Close()
		}
	}
	if w.barrier != nil {
		w.barrier.Close()
	}
	// the handler closes the association when the control connection ends
	if w.be != nil && w.be.assoc != nil {
		for dl := time.Now().Add(time.Second); time.Now().Before(dl) && !w.be.assoc.IsClosed(); {
			time.Sleep(500 * time.Microsecond)
		}
	}
}

func c22SenderIP(k int) net.IP {
	if k == 4 {
		k = 1
	}
	return net.IPv4(127, 0, 0, byte(k)).To4()
}

func c22Reset(ctrl, decl string) string {
	if c22W != nil {
		c22W.close()
		c22W = nil
	}
	w := &c22World{be: &c22Backend{}, sent: map[string]string{}}
	for k := 1; k <= 4; k++ {
		s, err := net.ListenUDP("udp4", &net.UDPAddr{IP: c22SenderIP(k)})
		must(err)
		w.senders[k] = s
	}
	b, err := net.ListenUDP("udp4", &net.UDPAddr{IP: net.IPv4(127, 0, 0, 1)})
	must(err)
	w.barrier = b

	h := socks5.NewHandler(nil, nil)
	h.SetUDPHandler(w.be)
	var client net.Conn
	if ctrl == "p" {
		server, c := net.Pipe()
		client = c
		go h.Handle(server)
	} else {
		// t<k>: IPv4 listener; d<k>: dual-stack listener (the IPv4 peer shows up IPv4-mapped);
		// s1: IPv6 listener on [::1], client from ::1
		network, laddr := "tcp4", "127.0.0.1:0"
		var local net.IP
		switch ctrl[0] {
		case 't':
			local = c22SenderIP(int(ctrl[1] - '0'))
		case 'd':
			network, laddr = "tcp", "[::]:0"
			local = c22SenderIP(int(ctrl[1] - '0'))
		case 's':
			network, laddr = "tcp6", "[::1]:0"
			local = net.IPv6loopback
		default:
			return "bad-op"
		}
		ln, err := net.Listen(network, laddr)
		if err != nil {
			if ctrl[0] == 't' {
				must(err)
			}
			w.close()
			c22Skip = true
			return "skip no-ipv6"
		}
		w.ln = ln
		go func() {
			c, err := ln.Accept()
			if err != nil {
				return
			}
			h.Handle(c)
			c.Close()
		}()
		port := ln.Addr().(*net.TCPAddr).Port
		target := fmt.Sprintf("127.0.0.1:%d", port)
		dnet := "tcp4"
		if ctrl[0] == 's' {
			target, dnet = fmt.Sprintf("[::1]:%d", port), "tcp6"
		}
		d := net.Dialer{LocalAddr: &net.TCPAddr{IP: local}, Timeout: 2 * time.Second}
		c, err := d.Dial(dnet, target)
		if err != nil {
			if ctrl[0] == 't' {
				must(err)
			}
			w.close()
			c22Skip = true
			return "skip no-ipv6"
		}
		client = c
	}
	w.ctrl = client
	// the request
	var addr []byte
	port := 0
	portOf := func(k int) int { return w.senders[k].LocalAddr().(*net.UDPAddr).Port }
	switch {
	case decl == "u":
		addr = []byte{1, 0, 0, 0, 0}
	case decl == "u6":
		addr = append([]byte{4}, make([]byte, 16)...)
	case decl == "d":
		addr, port = append([]byte{3, 11}, "example.com"...), 53
	case decl == "v6":
		addr, port = append([]byte{4}, net.IPv6loopback...), 4000
	case len(decl) == 1:
		k := int(decl[0] - '0')
		addr, port = append([]byte{1}, c22SenderIP(k)...), portOf(k)
	case len(decl) == 2 && decl[1] == 'x':
		k := int(decl[0] - '0')
		addr, port = append([]byte{1}, c22SenderIP(k)...), 9
	case len(decl) == 2 && decl[1] == 'z':
		k := int(decl[0] - '0')
		addr, port = append([]byte{1}, c22SenderIP(k)...), 0
	case len(decl) == 2 && decl[0] == 'm':
		k := int(decl[1] - '0')
		addr, port = append([]byte{4, 0, 0, 0, 0, 0, 0, 0, 0, 0, 0, 0xff, 0xff}, c22SenderIP(k)...), portOf(k)
	default:
		return "bad-op"
	}
	client.SetDeadline(time.Now().Add(3 * time.Second))
	_, err = client.Write([]byte{5, 1, 0})
	must(err)
	sel := make([]byte, 2)
	_, err = io.ReadFull(client, sel)
	must(err)
	req := append([]byte{5, 3, 0}, addr...)
	req = append(req, byte(port>>8), byte(port))
	_, err = client.Write(req)
	must(err)
	rep := make([]byte, 4)
	_, err = io.ReadFull(client, rep)
	must(err)
	alen := 4
	if rep[3] == 4 { // an IPv6 control connection gets its relay address as IPv6
		alen = 16
	}
	rest := make([]byte, alen+2)
	_, err = io.ReadFull(client, rest)
	must(err)
	client.SetDeadline(time.Time{})
	if rep[1] != 0 {
		return fmt.Sprintf("err associate %d", rep[1])
	}
	// the relay socket itself is IPv4 (udp4 on 0.0.0.0): datagrams go to 127.0.0.1:<port>
	w.relay = &net.UDPAddr{IP: net.IPv4(127, 0, 0, 1), Port: int(rest[alen])<<8 | int(rest[alen+1])}
	for dl := time.Now().Add(time.Second); time.Now().Before(dl); { // SetSOCKS5UDPAssociation happens before the reply; be safe
		w.be.mu.Lock()
		a := w.be.assoc
		w.be.mu.Unlock()
		if a != nil {
			break
		}
		time.Sleep(500 * time.Microsecond)
	}
	if w.be.assoc == nil {
		return "err no-assoc"
	}
	if w.be.assoc.LocalAddr().Port != w.relay.Port {
		return "err relay-port"
	}
	c22W = w
	if !c22Quiesce(w) {
		return "timeout quiesce"
	}
	return "ok"
}

// c22Pending: bytes waiting in the relay socket's receive queue (FIONREAD).
func c22Pending(c *net.UDPConn) int {
	rc, err := c.SyscallConn()
	if err != nil {
		return 0
	}
	var n int32
	rc.Control(func(fd uintptr) {
		syscall.Syscall(syscall.SYS_IOCTL, fd, 0x541B, uintptr(unsafe.Pointer(&n)))
	})
	return int(n)
}

// c22Busy: some goroutine executing internal/socks5 code (the read loop, any worker it hands
// datagrams to, the back-end call made from them) is not parked — it is running, runnable or in a
// system call, i.e. the relay machinery is not at rest. A parked goroutine (poller, channel, select,
// lock) has runtime.gopark as its innermost frame. The goroutine profile is used rather than a
// runtime.Stack dump: it tolerates frames it cannot unwind (a full dump can crash the process on
// them) and is cheap.
var c22Recs = make([]runtime.StackRecord, 256)

func c22Busy() bool {
	n, ok := runtime.GoroutineProfile(c22Recs)
	for !ok {
		c22Recs = make([]runtime.StackRecord, 2*n+64)
		n, ok = runtime.GoroutineProfile(c22Recs)
	}
	for _, rec := range c22Recs[:n] {
		pcs := rec.Stack()
		if len(pcs) == 0 {
			continue
		}
		frames := runtime.CallersFrames(pcs)
		top, inSocks := "", false
		for {
			fr, more := frames.Next()
			if top == "" {
				top = fr.Function
			}
			if strings.Contains(fr.Function, "internal/socks5.") {
				inSocks = true
			}
			if !more {
				break
			}
		}
		if inSocks && top != "runtime.gopark" {
			return true
		}
	}
	return false
}

// c22Quiesce waits (at most c22WaitBudget) until the relay socket's queue is empty and the relay
// machinery is at rest, i.e. every datagram delivered so far has been fully processed — or is
// parked behind a back-end that the script holds. false = the deadline passed.
func c22Quiesce(w *c22World) bool {
	if c22Timeouts >= 4 {
		w.broken = true
		return false
	}
	stable := 0
	held := func() bool { w.be.mu.Lock(); defer w.be.mu.Unlock(); return w.be.held != nil }
	for dl := time.Now().Add(c22WaitBudget); time.Now().Before(dl); {
		// while the back-end is held a synchronous read loop cannot drain the socket: rest is enough
		if (held() || c22Pending(w.be.assoc.UDPConn) == 0) && !c22Busy() {
			stable++
			if stable >= 3 {
				return true
			}
		} else {
			stable = 0
		}
		time.Sleep(100 * time.Microsecond)
	}
	c22Timeouts++
	w.broken = true
	return false
}

func c22Send(w *c22World, k int, valid bool) string {
	w.seq++
	tag := []byte(fmt.Sprintf("dg%04d-from-%d", w.seq, k))
	dst := []byte{10, byte(k), byte(w.seq >> 8), byte(w.seq)} // a destination unique to this datagram
	port := uint16(5000 + w.seq)
	var dg []byte
	if valid {
		dg = append(append([]byte{0, 0, 0, 1}, dst...), byte(port>>8), byte(port))
		dg = append(dg, tag...)
		w.sent[string(c22Record(dst, port, tag))] = fmt.Sprintf("%d.%d", k, w.seq)
	} else if w.seq%2 == 0 {
		dg = append([]byte{0, 0, 1, 1, 10, 1, 2, 3, 0, 53}, tag...) // fragmented: refused
	} else {
		dg = []byte{0, 0, 0, 1, 10} // too short
	}
	w.be.mu.Lock()
	before := len(w.be.relayed)
	held := w.be.held != nil
	w.be.mu.Unlock()
	s := w.senders[k]
	_, err := s.WriteToUDP(dg, w.relay)
	must(err)
	// barrier: a second datagram from the same socket to a socket of ours; loopback delivery is
	// in order, so once it has arrived the first one is in the relay socket's queue
	_, err = s.WriteToUDP([]byte("barrier"), w.barrier.LocalAddr().(*net.UDPAddr))
	must(err)
	w.barrier.SetReadDeadline(time.Now().Add(c22WaitBudget))
	bb := make([]byte, 16)
	if _, _, err := w.barrier.ReadFromUDP(bb); err != nil {
		c22Timeouts++
		w.broken = true
		return "timeout barrier"
	}
	if !c22Quiesce(w) {
		return "timeout quiesce"
	}
	if held {
		return "queued"
	}
	w.be.mu.Lock()
	defer w.be.mu.Unlock()
	switch len(w.be.relayed) - before {
	case 0:
		return "dropped"
	case 1:
		if w.sent[string(w.be.relayed[before])] == fmt.Sprintf("%d.%d", k, w.seq) {
			return "relayed"
		}
		return "relayed-garbled"
	}
	return "relayed-many"
}

// c22Release lets the stalled back-end go and reports, in order, what was relayed since `hold`:
// "<sender>.<seq>" for bytes (destination and payload) exactly as that sender sent them in this
// case, "x" for bytes nobody sent.
func c22Release(w *c22World) string {
	w.be.mu.Lock()
	if w.be.held == nil { // nothing was held: nothing to report
		w.mark = len(w.be.relayed)
	}
	w.be.mu.Unlock()
	w.be.release()
	if !c22Quiesce(w) {
		return "timeout quiesce"
	}
	w.be.mu.Lock()
	defer w.be.mu.Unlock()
	var out []string
	for _, rec := range w.be.relayed[w.mark:] {
		if id, ok := w.sent[string(rec)]; ok {
			out = append(out, id)
		} else {
			out = append(out, "x")
		}
	}
	if len(out) == 0 {
		return "relayed -"
	}
	return "relayed " + strings.Join(out, ",")
}

func c22Reply(w *c22World) string {
	for k := 1; k <= 4; k++ { // drain
		w.senders[k].SetReadDeadline(time.Now().Add(time.Millisecond))
		b := make([]byte, 64)
		for {
			if _, _, err := w.senders[k].ReadFromUDP(b); err != nil {
				break
			}
		}
	}
	err := w.be.assoc.WriteToClient(1, []byte{9, 9, 9, 9}, 53, []byte("reply"))
	if err != nil {
		if strings.Contains(err.Error(), "no client address") {
			return "none"
		}
		return "err write"
	}
	deadline := time.Now().Add(2 * time.Second)
	b := make([]byte, 64)
	for time.Now().Before(deadline) {
		for k := 1; k <= 4; k++ {
			w.senders[k].SetReadDeadline(time.Now().Add(2 * time.Millisecond))
			n, from, err := w.senders[k].ReadFromUDP(b)
			if err == nil {
				if from.Port != w.relay.Port || !bytes.HasSuffix(b[:n], []byte("reply")) {
					return "to-garbled"
				}
				return fmt.Sprintf("to %d", k)
			}
			var ne net.Error
			if !errors.As(err, &ne) || !ne.Timeout() {
				return "err read"
			}
		}
	}
	return "to nobody-known"
}

func c22Run(line string) string {
	f := fields(line)
	if f[0] == "reset" && len(f) == 3 {
		c22Skip = false
		return c22Reset(f[1], f[2])
	}
	if c22Skip {
		return "skip no-ipv6"
	}
	if c22W == nil {
		return "err no-case"
	}
	if c22W.broken {
		return "timeout skipped"
	}
	switch {
	case f[0] == "hold":
		c22W.be.mu.Lock()
		if c22W.be.held == nil {
			c22W.be.held = make(chan struct{})
		}
		c22W.mark = len(c22W.be.relayed)
		c22W.be.mu.Unlock()
		return "ok"
	case f[0] == "release":
		return c22Release(c22W)
	case f[0] == "send" && len(f) == 3:
		return c22Send(c22W, int(f[1][0]-'0'), f[2] == "v")
	case f[0] == "reply":
		return c22Reply(c22W)
	}
	return "bad-op"
}

// ---- generator: all arrival orders of up to 4 datagrams over the senders, with and without a
// declared client address, for every kind of control connection; plus longer random histories.
func c22Gen(w *bufio.Writer, seed int64, tier string) {
	r := newRng(seed)
	ctrls := []string{"t1", "t1", "t2", "t3", "p"}
	decls := []string{"u", "u", "u6", "d", "1", "2", "3", "4", "1x", "2x", "m1", "m2", "1z", "2z", "3z"}
	emitCase := func(ctrl, decl string, sends []string) {
		fmt.Fprintf(w, "reset %s %s\n", ctrl, decl)
		fmt.Fprintf(w, "reply\n")
		for _, s := range sends {
			fmt.Fprintf(w, "send %s\n", s)
			if r.chance(60) {
				fmt.Fprintf(w, "reply\n")
			}
		}
		fmt.Fprintf(w, "reply\n")
	}
	// exhaustive part: every control kind x undeclared/declared x every ordered pair of first senders
	for _, ctrl := range []string{"t1", "t2", "p"} {
		for _, decl := range []string{"u", "1", "2", "1z"} {
			for a := 1; a <= 4; a++ {
				for b := 1; b <= 4; b++ {
					if tier != "thorough" && (a*4+b+int(seed))%3 != 0 {
						continue
					}
					emitCase(ctrl, decl, []string{fmt.Sprintf("%d v", a), fmt.Sprintf("%d v", b), "1 v", "2 v"})
				}
			}
		}
	}
	// control connections over IPv6 (::1) and through a dual-stack listener (IPv4-mapped peer): the relay
	// socket is IPv4, so for an IPv6 owner NO sender may be relayed; for a mapped peer only 127.0.0.k
	for _, ctrl := range []string{"s1", "d1", "d2"} {
		for _, decl := range []string{"u", "u6", "v6", "1", "m1", "2z"} {
			emitCase(ctrl, decl, []string{"2 v", "1 v", "3 v", "4 v", "2 v"})
			if decl == "u" || decl == "m1" {
				emitCase(ctrl, decl, []string{"1 v", "2 v", "1 i", "4 v"})
			}
		}
	}
	// stalled mesh link: the back-end is held while several client datagrams and foreign ones
	// arrive, then released; everything relayed must be, in order, what the owner sent
	nh := 25
	if tier == "thorough" {
		nh = 400
	}
	for i := 0; i < nh; i++ {
		ctrl := r.pickS("t1", "t1", "t2", "p")
		decl := r.pickS("u", "u", "1", "2", "d")
		fmt.Fprintf(w, "reset %s %s\n", ctrl, decl)
		own := 1
		if ctrl == "t2" || (ctrl == "p" && decl == "2") {
			own = 2
		}
		if r.chance(50) {
			fmt.Fprintf(w, "send %d v\n", own)
		}
		fmt.Fprintf(w, "hold\n")
		k := 3 + r.intn(6)
		if r.chance(10) {
			k = 70 + r.intn(20) // more than any plausible internal queue
		}
		for j := 0; j < k; j++ {
			switch x := r.intn(10); {
			case x < 6:
				fmt.Fprintf(w, "send %d v\n", own)
			case x < 9:
				fmt.Fprintf(w, "send %d %s\n", 1+r.intn(4), r.pickS("v", "v", "i"))
			default:
				fmt.Fprintf(w, "send %d i\n", own)
			}
		}
		fmt.Fprintf(w, "release\nreply\nsend %d v\n", own)
		if r.chance(30) {
			fmt.Fprintf(w, "hold\nsend %d v\nsend %d v\nsend 3 v\nsend %d v\nrelease\n", own, own, own)
		}
	}
	n := 40
	if tier == "thorough" {
		n = 1500
	}
	for i := 0; i < n; i++ {
		ctrl := ctrls[r.intn(len(ctrls))]
		decl := decls[r.intn(len(decls))]
		k := 1 + r.intn(4)
		if r.chance(8) {
			k = 20 + r.intn(30)
		}
		var sends []string
		for j := 0; j < k; j++ {
			v := "v"
			if r.chance(20) {
				v = "i"
			}
			sends = append(sends, fmt.Sprintf("%d %s", 1+r.intn(4), v))
		}
		emitCase(ctrl, decl, sends)
	}
}
