//go:build verif && (all || c28)

package main

import (
	"bufio"
	"encoding/hex"
	"fmt"
	"os"
	"sort"
	"strconv"
	"strings"
	"sync"
	"time"

	"github.com/postalsys/muti-metroo/internal/agent"
	"github.com/postalsys/muti-metroo/internal/config"
	"github.com/postalsys/muti-metroo/internal/crypto"
	"github.com/postalsys/muti-metroo/internal/identity"
	"github.com/postalsys/muti-metroo/internal/protocol"
	"github.com/postalsys/muti-metroo/internal/sleep"
)

// Engine c28: a real Agent (agent.New from a generated config; signing public key configured through
// the ordinary config path) receives SLEEP_COMMAND / WAKE_COMMAND / QUEUED_STATE frames through
// its ordinary frame dispatcher; observed are the sleep manager's state, its OnSleep/OnWake
// callbacks and every frame the flooder sends to the three connected peers.
//
//	reset <signing 0|1> <asleep 0|1>                       -> ok
//	d <via> <from> <origin> <id> <ts> <sig> <seenby>        -> st=<STATE> sl=<n> wk=<n> fwd=<list|->
//	    via    fs|fw (flooded sleep/wake frame)  qs|qw (sleep/wake command inside QUEUED_STATE)
//	    from   peer index 1..3        origin  agent index (0 = the agent itself)
//	    ts     r<delta seconds relative to now>  |  a<absolute uint64 seconds>
//	    sig    zero | valid | bad | otherkey | wrongorigin | wrongid | wrongts
//	    seenby "-" or dot-separated agent indices
//	peer <p>                                                -> st=.. sl=.. wk=.. fwd=..   (flooder.OnPeerConnected)
//	fwd item: <toPeer>:<S|W>:<origin>:<id>:<ts token>:<sig token>:<seenby>

type c28Sender struct {
	mu    sync.Mutex
	peers []identity.AgentID
	sent  []c28Sent
}
type c28Sent struct {
	to    identity.AgentID
	frame *protocol.Frame
}

func (s *c28Sender) SendToPeer(p identity.AgentID, f *protocol.Frame) error {
	s.mu.Lock()
	defer s.mu.Unlock()
	s.sent = append(s.sent, c28Sent{p, f})
	return nil
}
func (s *c28Sender) GetPeerIDs() []identity.AgentID { return s.peers }

type c28World struct {
	a       *agent.Agent
	sender  *c28Sender
	dir     string
	sl, wk  int
	keys    [2]*crypto.SigningKeypair
	now     int64             // wall-clock second fixed at reset: relative timestamps of the whole case count from it
	skip    bool              // the case has drifted too far from `now`: the remaining ops are not run (see c28Drifted)
	canSign bool              // reset mode 2: holds the private key, short poll interval (TriggerWake allowed)
	labels  map[string]string // command content (origin,id,ts,signature) -> "<ts token>:<sig token>"
}

func c28Content(o identity.AgentID, id, ts uint64, sig [64]byte) string {
	return fmt.Sprintf("%x/%d/%d/%x", o[:], id, ts, sig[:])
}

var c28W *c28World

func c28ID(w *c28World, idx int) identity.AgentID {
	if idx == 0 && w != nil && w.a != nil {
		return w.a.VerifC28ID()
	}
	var id identity.AgentID
	for i := range id {
		id[i] = byte(idx)
	}
	id[0] = 0xA0
	return id
}

func c28Idx(w *c28World, id identity.AgentID) string {
	if id == w.a.VerifC28ID() {
		return "0"
	}
	if id[0] == 0xA0 && id[1] == id[15] {
		return strconv.Itoa(int(id[1]))
	}
	return "x" + hex.EncodeToString(id[:4])
}

func c28Seed(b byte) [32]byte {
	var s [32]byte
	for i := range s {
		s[i] = b
	}
	return s
}

func c28Reset(signing, canSign, asleep bool) string {
	if c28W != nil {
		c28W.a.VerifC28Close()
		os.RemoveAll(c28W.dir)
		c28W = nil
	}
	dir, err := os.MkdirTemp("", "verif-c28-")
	must(err)
	w := &c28World{dir: dir, labels: map[string]string{}, now: time.Now().Unix(), canSign: canSign}
	w.keys[0] = crypto.SigningKeypairFromSeed(c28Seed(0x11))
	w.keys[1] = crypto.SigningKeypairFromSeed(c28Seed(0x22))
	cfg := config.Default()
	cfg.Agent.DataDir = dir
	cfg.Agent.LogLevel = "error"
	cfg.Sleep.Enabled = true
	if signing {
		cfg.Management.SigningPublicKey = hex.EncodeToString(w.keys[0].PublicKey[:])
	}
	if canSign { // this agent is an operator's: it holds the private key and signs what it issues
		cfg.Management.SigningPrivateKey = hex.EncodeToString(w.keys[0].PrivateKey[:])
	}
	// The poll timer must not fire during a case (it would show the sleeping agent as POLLING for a moment).
	// Only an agent on which TriggerWake may be called (it holds the private key) gets a short interval:
	// TriggerWake floods for max(5 s, 2*PollInterval+PollDuration). A timer-driven poll there has no
	// callback to run and returns to SLEEPING after 1 ms; POLLING is printed as SLEEPING (see c28Observe).
	cfg.Sleep.PollInterval = time.Hour
	cfg.Sleep.PollIntervalJitter = 0
	cfg.Sleep.PollDuration = time.Millisecond
	if canSign {
		cfg.Sleep.PollInterval = time.Second
	}
	w.sender = &c28Sender{}
	a, err := agent.VerifC28New(cfg, w.sender, sleep.Callbacks{
		OnSleep: func() error { w.sl++; return nil },
		OnWake:  func() error { w.wk++; return nil },
	})
	must(err)
	w.a = a
	w.sender.peers = []identity.AgentID{c28ID(w, 1), c28ID(w, 2), c28ID(w, 3)}
	if asleep {
		must(a.VerifC28SleepMgr().Sleep())
		w.sl = 0
	}
	c28W = w
	return "ok"
}

func c28SeenBy(w *c28World, tok string) []identity.AgentID {
	if tok == "-" {
		return nil
	}
	var out []identity.AgentID
	for _, p := range strings.Split(tok, ".") {
		n, err := strconv.Atoi(p)
		must(err)
		out = append(out, c28ID(w, n))
	}
	return out
}

// c28Cmd builds the command fields for an op (shared by sleep and wake: identical layout).
func c28Cmd(w *c28World, wake bool, origin int, id uint64, tsTok, sigTok, seenTok string) (identity.AgentID, uint64, uint64, [64]byte, []identity.AgentID) {
	var ts uint64
	if tsTok[0] == 'r' {
		d, err := strconv.ParseInt(tsTok[1:], 10, 64)
		must(err)
		ts = uint64(w.now + d)
	} else {
		v, err := strconv.ParseUint(tsTok[1:], 10, 64)
		must(err)
		ts = v
	}
	o := c28ID(w, origin)
	// what the key holder signs when issuing a command of the given kind
	signableAs := func(asWake bool, o identity.AgentID, id, ts uint64) []byte {
		if asWake {
			return (&protocol.WakeCommand{OriginAgent: o, CommandID: id, Timestamp: ts}).SignableBytes()
		}
		return (&protocol.SleepCommand{OriginAgent: o, CommandID: id, Timestamp: ts}).SignableBytes()
	}
	signable := func(o identity.AgentID, id, ts uint64) []byte { return signableAs(wake, o, id, ts) }
	var sig [64]byte
	switch sigTok {
	case "zero":
	case "valid":
		sig = crypto.Sign(w.keys[0].PrivateKey, signable(o, id, ts))
	case "xkind": // the key holder issued a command of the OTHER kind; its signature is transplanted
		sig = crypto.Sign(w.keys[0].PrivateKey, signableAs(!wake, o, id, ts))
		sigTok = "valid" // byte-for-byte indistinguishable from a valid signature: printed as such
	case "bad":
		for i := range sig {
			sig[i] = byte(i*7 + 1)
		}
	case "otherkey":
		sig = crypto.Sign(w.keys[1].PrivateKey, signable(o, id, ts))
	case "wrongorigin":
		sig = crypto.Sign(w.keys[0].PrivateKey, signable(c28ID(w, origin+1), id, ts))
	case "wrongid":
		sig = crypto.Sign(w.keys[0].PrivateKey, signable(o, id+1, ts))
	case "wrongts":
		sig = crypto.Sign(w.keys[0].PrivateKey, signable(o, id, ts+1))
	default:
		panic("bad sig token " + sigTok)
	}
	if _, dup := w.labels[c28Content(o, id, ts, sig)]; !dup {
		w.labels[c28Content(o, id, ts, sig)] = tsTok + ":" + sigTok
	}
	return o, id, ts, sig, c28SeenBy(w, seenTok)
}

func c28Observe(w *c28World) string {
	w.sender.mu.Lock()
	sent := w.sender.sent
	w.sender.sent = nil
	w.sender.mu.Unlock()
	var items []string
	for _, s := range sent {
		var typ string
		var o identity.AgentID
		var id, ts uint64
		var sig [64]byte
		var seen []identity.AgentID
		switch s.frame.Type {
		case protocol.FrameSleepCommand:
			c, err := protocol.DecodeSleepCommand(s.frame.Payload)
			must(err)
			typ, o, id, ts, sig, seen = "S", c.OriginAgent, c.CommandID, c.Timestamp, c.Signature, c.SeenBy
		case protocol.FrameWakeCommand:
			c, err := protocol.DecodeWakeCommand(s.frame.Payload)
			must(err)
			typ, o, id, ts, sig, seen = "W", c.OriginAgent, c.CommandID, c.Timestamp, c.Signature, c.SeenBy
		default:
			continue // route / node-info traffic is not a sleep or wake command
		}
		lab, ok := w.labels[c28Content(o, id, ts, sig)]
		idTok := strconv.FormatUint(id, 10)
		if !ok && o == w.a.VerifC28ID() {
			// issued by this agent (TriggerSleep/TriggerWake): the id comes from its clock; describe the frame by what can be checked
			idTok = "fresh"
			tl := fmt.Sprintf("?%d", ts)
			if d := int64(ts) - time.Now().Unix(); d >= -60 && d <= 1 {
				tl = "now"
			}
			var signable []byte
			if typ == "S" {
				signable = (&protocol.SleepCommand{OriginAgent: o, CommandID: id, Timestamp: ts}).SignableBytes()
			} else {
				signable = (&protocol.WakeCommand{OriginAgent: o, CommandID: id, Timestamp: ts}).SignableBytes()
			}
			sl := "bad"
			if sig == ([64]byte{}) {
				sl = "zero"
			} else if crypto.Verify(w.keys[0].PublicKey, signable, sig) {
				sl = "valid"
			}
			lab, ok = tl+":"+sl, true
		}
		if !ok {
			lab = fmt.Sprintf("?%d:?", ts)
		}
		var sb []string
		for _, x := range seen {
			sb = append(sb, c28Idx(w, x))
		}
		sbs := strings.Join(sb, ".")
		if sbs == "" {
			sbs = "-"
		}
		items = append(items, fmt.Sprintf("%s:%s:%s:%s:%s:%s", c28Idx(w, s.to), typ, c28Idx(w, o), idTok, lab, sbs))
	}
	sort.Strings(items)
	var uniq []string // TriggerWake floods the same frame repeatedly
	for i, it := range items {
		if i == 0 || it != items[i-1] {
			uniq = append(uniq, it)
		}
	}
	fwd := strings.Join(uniq, ",")
	if fwd == "" {
		fwd = "-"
	}
	st := w.a.VerifC28SleepMgr().GetState()
	if st == sleep.StatePolling { // a poll-timer tick on a sleeping agent: asleep as far as C28 is concerned
		st = sleep.StateSleeping
	}
	out := fmt.Sprintf("st=%s sl=%d wk=%d fwd=%s", st, w.sl, w.wk, fwd)
	w.sl, w.wk = 0, 0
	return out
}

// c28MaxDrift: relative stamps count from the second the case began, the code compares them with the
// clock when the frame is processed. Generated stamps stay at least 20 s away from the edge of the
// 300 s window; a case that has run longer than this (loaded machine, TriggerWake's 5 s) is abandoned:
// the op and everything after it answer `skipped-drift`, which the model accepts for every op.
const c28MaxDrift = 12

func c28Drifted(w *c28World) bool {
	if time.Now().Unix()-w.now > c28MaxDrift {
		w.skip = true
	}
	return w.skip
}

func c28Run(line string) string {
	f := fields(line)
	if f[0] == "reset" {
		return c28Reset(f[1] != "0", f[1] == "2", f[2] == "1")
	}
	if c28Drifted(c28W) {
		return "skipped-drift"
	}
	out := c28RunOp(f)
	if f[0] != "trig" && c28Drifted(c28W) { // the clock was read somewhere inside the op: its verdict may depend on the delay
		return "skipped-drift"
	}
	return out
}

func c28RunOp(f []string) string {
	switch f[0] {
	case "d":
		w := c28W
		from, _ := strconv.Atoi(f[2])
		origin, _ := strconv.Atoi(f[3])
		id, err := strconv.ParseUint(f[4], 10, 64)
		must(err)
		o, cid, ts, sig, seen := c28Cmd(w, f[1] == "fw" || f[1] == "qw", origin, id, f[5], f[6], f[7])
		sc := &protocol.SleepCommand{OriginAgent: o, CommandID: cid, Timestamp: ts, Signature: sig, SeenBy: seen}
		wc := &protocol.WakeCommand{OriginAgent: o, CommandID: cid, Timestamp: ts, Signature: sig, SeenBy: seen}
		var fr *protocol.Frame
		switch f[1] {
		case "fs":
			fr = &protocol.Frame{Type: protocol.FrameSleepCommand, StreamID: protocol.ControlStreamID, Payload: sc.Encode()}
		case "fw":
			fr = &protocol.Frame{Type: protocol.FrameWakeCommand, StreamID: protocol.ControlStreamID, Payload: wc.Encode()}
		case "qs":
			fr = &protocol.Frame{Type: protocol.FrameQueuedState, StreamID: protocol.ControlStreamID, Payload: (&protocol.QueuedState{SleepCmd: sc}).Encode()}
		case "qw":
			fr = &protocol.Frame{Type: protocol.FrameQueuedState, StreamID: protocol.ControlStreamID, Payload: (&protocol.QueuedState{WakeCmd: wc}).Encode()}
		default:
			return "bad-op"
		}
		w.a.VerifC28Process(c28ID(w, from), fr)
		return c28Observe(w)
	case "dq": // one QUEUED_STATE frame carrying a sleep command and a wake command
		w := c28W
		from, _ := strconv.Atoi(f[1])
		mk := func(wake bool, a []string) (identity.AgentID, uint64, uint64, [64]byte, []identity.AgentID) {
			origin, _ := strconv.Atoi(a[0])
			id, err := strconv.ParseUint(a[1], 10, 64)
			must(err)
			return c28Cmd(w, wake, origin, id, a[2], a[3], a[4])
		}
		o1, i1, t1, g1, b1 := mk(false, f[2:7])
		o2, i2, t2, g2, b2 := mk(true, f[7:12])
		qs := &protocol.QueuedState{
			SleepCmd: &protocol.SleepCommand{OriginAgent: o1, CommandID: i1, Timestamp: t1, Signature: g1, SeenBy: b1},
			WakeCmd:  &protocol.WakeCommand{OriginAgent: o2, CommandID: i2, Timestamp: t2, Signature: g2, SeenBy: b2},
		}
		w.a.VerifC28Process(c28ID(w, from), &protocol.Frame{Type: protocol.FrameQueuedState, StreamID: protocol.ControlStreamID, Payload: qs.Encode()})
		return c28Observe(w)
	case "trig": // issuer side: the operator action on this agent (TriggerWake keeps flooding for 5 s)
		w := c28W
		if f[1] == "s" {
			_ = w.a.TriggerSleep()
		} else {
			if !w.canSign {
				return "bad-op trig-w-needs-reset-2" // TriggerWake would flood for 2 h with this agent's poll interval
			}
			_ = w.a.TriggerWake()
		}
		return c28Observe(w)
	case "peer":
		w := c28W
		p, _ := strconv.Atoi(f[1])
		w.a.VerifC28Flooder().OnPeerConnected(c28ID(w, p))
		return c28Observe(w)
	}
	return "bad-op"
}

func c28Gen(w *bufio.Writer, seed int64, tier string) {
	r := newRng(seed)
	n := 100
	if tier == "thorough" {
		n = 1500
	}
	const win = 300 // DefaultFloodConfig().TimestampWindow in seconds
	tsToks := []string{"r0", "r0", "r0", "r-1", "r1", "r-60", "r60", fmt.Sprintf("r-%d", win-20), fmt.Sprintf("r%d", win-20),
		fmt.Sprintf("r-%d", win+20), fmt.Sprintf("r%d", win+20), "r-100000", "r100000", "a0", "a1", "a4611686018427387904",
		"a9223372036854775807", "a9223372036854775808", "a18446744073709551615", "a9223372036792640000", "a20000000000"}
	// wrap points of seconds->nanoseconds arithmetic: k*2^64 ns = k*18446744073.7 s, 2^63 ns = 9223372036.85 s
	for _, k := range []int64{1, -1, 2, -2, 3, -3} {
		for _, d := range []int64{0, 100, -100, 400} {
			tsToks = append(tsToks, fmt.Sprintf("r%d", k*18446744074+d))
		}
	}
	for _, b := range []int64{9223372036, -9223372036, 9223372037, -9223372037} {
		tsToks = append(tsToks, fmt.Sprintf("r%d", b), fmt.Sprintf("r%d", b+100))
	}
	sigs := []string{"valid", "valid", "valid", "xkind", "xkind", "zero", "bad", "otherkey", "wrongorigin", "wrongid", "wrongts"}
	vias := []string{"fs", "fw", "qs", "qw"}
	for i := 0; i < n; i++ {
		signing := !r.chance(15)
		asleep := r.chance(50)
		mode := c28B2i(signing)
		if signing && r.chance(15) {
			mode = 2 // this agent also holds the private key
		}
		fmt.Fprintf(w, "reset %d %d\n", mode, c28B2i(asleep))
		steps := 1 + r.intn(4)
		if r.chance(8) { // long history on one agent: state left by earlier commands is re-used
			steps = 10 + r.intn(15)
		}
		nextID := uint64(1 + r.intn(5))
		for s := 0; s < steps; s++ {
			if r.chance(12) {
				fmt.Fprintf(w, "peer %d\n", 1+r.intn(5))
				continue
			}
			if r.chance(4) || (tier == "thorough" && mode == 2 && r.chance(10)) { // issuer side (100 ms)
				fmt.Fprintf(w, "trig s\n")
				asleep = true
				continue
			}
			if tier == "thorough" && mode == 2 && r.chance(6) { // TriggerWake floods for 5 s (only agents configured for it, see c28Reset)
				fmt.Fprintf(w, "trig w\n")
				asleep = false
				continue
			}
			if r.chance(10) { // QUEUED_STATE carrying both a sleep and a wake command
				c := func(idv uint64) string {
					ts, sig := tsToks[r.intn(len(tsToks))], sigs[r.intn(len(sigs))]
					if r.chance(50) {
						ts, sig = r.pickS("r0", "r-5", "r7"), r.pickS("valid", "valid", "xkind")
					}
					return fmt.Sprintf("%d %d %s %s %s", r.pick(4, 4, 5, 1), idv, ts, sig, r.pickS("-", "-", "1", "1.2", "0", "2.3.4"))
				}
				a, b := nextID+1, nextID+2
				if r.chance(20) {
					b = a // same (origin?, id) in both halves
				}
				nextID += 2
				fmt.Fprintf(w, "dq %d %s %s\n", 1+r.intn(3), c(a), c(b))
				continue
			}
			via := vias[r.intn(len(vias))]
			// bias toward commands that would change the state if admitted
			if r.chance(60) {
				if asleep {
					via = r.pickS("fw", "qw")
				} else {
					via = r.pickS("fs", "qs")
				}
			}
			id := nextID
			if !r.chance(25) { // otherwise replay the previous id
				nextID++
				id = nextID
			}
			ts := tsToks[r.intn(len(tsToks))]
			sig := sigs[r.intn(len(sigs))]
			if r.chance(35) { // fully valid command
				ts, sig = r.pickS("r0", "r-5", "r7"), "valid"
			}
			seen := "-"
			seen = r.pickS("-", "-", "1", "1.2", "2", "0", "1.0", "4.5")
			origin := r.pick(4, 4, 5, 1, 0)
			fmt.Fprintf(w, "d %s %d %d %d %s %s %s\n", via, 1+r.intn(3), origin, id, ts, sig, seen)
			if sig == "valid" && (signing || true) && strings.HasPrefix(ts, "r") && !strings.Contains(seen, "0") {
				// the state flips when such a command is admitted; keep the bias meaningful
				if via == "fs" || via == "qs" {
					asleep = true
				} else {
					asleep = false
				}
			}
		}
	}
}

func c28B2i(b bool) int {
	if b {
		return 1
	}
	return 0
}

func init() {
	register("c28", &Engine{Run: c28Run, Gen: c28Gen})
}
