//go:build verif && (all || c02)

package main

import (
	"bufio"
	"encoding/binary"
	"fmt"
	"os"
	"sort"
	"strconv"
	"sync"

	"github.com/postalsys/muti-metroo/internal/crypto"
)

// Engine c02: G goroutines x K Encrypt calls on EACH end of one real session (same key, opposite
// roles), all 2G goroutines released together. The multiset of 12-byte nonce headers of the
// produced ciphertexts is summarised per end:
//
//	stress <G> <K> <sendI0> <sendR0>
//	  -> I <ok> <err> <minCtr> <maxCtr> <dups> <badpfx> R <ok> <err> <min> <max> <dups> <badpfx> cross <n>
//
// ok/err = successful / refused calls; dups = repeated (prefix,counter) pairs within the end;
// badpfx = headers whose prefix is not the end's send prefix; cross = headers seen at both ends.
// count = max-min+1 with dups = 0 means the counters are exactly the contiguous range the model predicts.
func c02Stress(g, k int, sI, sR uint64) string {
	var secret, pubI, pubR [crypto.KeySize]byte
	for i := range secret {
		secret[i] = byte(0x21 + i)
		pubI[i] = byte(0x50 + i)
		pubR[i] = byte(0xa0 + i)
	}
	ends := [2]*crypto.SessionKey{
		crypto.DeriveSessionKey(secret, 7, pubI, pubR, true),
		crypto.DeriveSessionKey(secret, 7, pubI, pubR, false),
	}
	crypto.VerifC02SetSend(ends[0], sI)
	crypto.VerifC02SetSend(ends[1], sR)
	type hdr struct {
		pfx uint32
		ctr uint64
	}
	res := [2][][]hdr{make([][]hdr, g), make([][]hdr, g)}
	errs := [2][]int{make([]int, g), make([]int, g)}
	var wg sync.WaitGroup
	startCh := make(chan struct{})
	for e := 0; e < 2; e++ {
		for t := 0; t < g; t++ {
			wg.Add(1)
			go func(e, t int) {
				defer wg.Done()
				out := make([]hdr, 0, k)
				pt := []byte{byte(e), byte(t)}
				<-startCh
				for n := 0; n < k; n++ {
					ct, err := ends[e].Encrypt(pt)
					if err != nil {
						errs[e][t]++
						continue
					}
					out = append(out, hdr{binary.BigEndian.Uint32(ct[0:4]), binary.BigEndian.Uint64(ct[4:12])})
				}
				res[e][t] = out
			}(e, t)
		}
	}
	close(startCh)
	wg.Wait()
	want := [2]uint32{0, 0x80000000}
	seen := [2]map[hdr]int{{}, {}}
	s := ""
	for e := 0; e < 2; e++ {
		var all []hdr
		nerr := 0
		for t := 0; t < g; t++ {
			all = append(all, res[e][t]...)
			nerr += errs[e][t]
		}
		sort.Slice(all, func(i, j int) bool { return all[i].ctr < all[j].ctr })
		dups, bad := 0, 0
		for _, h := range all {
			seen[e][h]++
			if seen[e][h] > 1 {
				dups++
			}
			if h.pfx != want[e] {
				bad++
			}
		}
		lo, hi := "-", "-"
		if len(all) > 0 {
			lo, hi = strconv.FormatUint(all[0].ctr, 10), strconv.FormatUint(all[len(all)-1].ctr, 10)
		}
		s += fmt.Sprintf("%s %d %d %s %s %d %d ", []string{"I", "R"}[e], len(all), nerr, lo, hi, dups, bad)
	}
	cross := 0
	for h := range seen[0] {
		if seen[1][h] > 0 {
			cross++
		}
	}
	return s + fmt.Sprintf("cross %d", cross)
}

func init() {
	register("c02", &Engine{
		Run: func(line string) string {
			f := fields(line)
			if f[0] == "stress" && len(f) == 5 {
				g, _ := strconv.Atoi(f[1])
				k, _ := strconv.Atoi(f[2])
				sI, err1 := strconv.ParseUint(f[3], 10, 64)
				sR, err2 := strconv.ParseUint(f[4], 10, 64)
				if err1 != nil || err2 != nil || g < 1 || k < 0 || g > 4096 {
					return "bad-op"
				}
				return c02Stress(g, k, sI, sR)
			}
			return "bad-op"
		},
		Gen: func(w *bufio.Writer, seed int64, tier string) {
			r := newRng(seed)
			n, gs, ks := 40, []int{1, 2, 3, 8, 16}, []int{1, 7, 50, 400, 2000}
			if tier == "thorough" {
				n, gs, ks = 300, []int{1, 2, 8, 16, 64}, []int{1, 50, 2000, 20000}
				fmt.Fprintf(w, "stress 64 50000 0 0\n")
				fmt.Fprintf(w, "stress 64 50000 %d %d\n", ^uint64(0)-1600000, ^uint64(0)-3200000-7)
			}
			fmt.Fprintf(w, "stress 8 2000 0 0\n")
			const max = ^uint64(0)
			for i := 0; i < n; i++ {
				g, k := gs[r.intn(len(gs))], ks[r.intn(len(ks))]
				total := uint64(g * k)
				start := func() uint64 {
					switch r.intn(8) {
					case 0:
						return max - total/2 // runs out half way
					case 1:
						return max - total // the last call takes the last usable counter
					case 2:
						return max - total - 1
					case 3:
						return max - uint64(r.intn(3)) // exhausted (or nearly) from the start
					case 4:
						return r.u64() >> uint(r.intn(40))
					case 5:
						return 1<<32 - total/2 - uint64(r.intn(3)) // crosses 2^32 (a counter cut to 32 bits would repeat)
					case 6:
						return 1<<63 - total/2
					}
					return uint64(r.intn(1000))
				}
				fmt.Fprintf(w, "stress %d %d %d %d\n", g, k, start(), start())
			}
		},
		Facts: func(w *bufio.Writer) {
			f, err := c03Encrypt()
			if err != nil {
				fmt.Fprintln(os.Stderr, "c02 facts:", err)
				w.Flush()
				os.Exit(1)
			}
			sites, _, err := c03Sites()
			if err != nil || len(sites) == 0 {
				fmt.Fprintln(os.Stderr, "c02 facts: no DeriveSessionKey call sites found:", err)
				w.Flush()
				os.Exit(1)
			}
			b := func(x bool) string {
				if x {
					return "true"
				}
				return "false"
			}
			fmt.Fprintf(w, "-- GENERATED from %s by `harness c02 facts` (go/ast). Do not edit.\n", c03RepoRoot())
			fmt.Fprintf(w, "namespace MM.Gen.C02\n")
			fmt.Fprintf(w, "/-! internal/crypto/crypto.go:%d (*SessionKey).Encrypt — indices of top-level statements -/\n", f.Line)
			fmt.Fprintf(w, "def lockStmt : Nat := %d\n", f.LockStmt)
			fmt.Fprintf(w, "def unlockStmt : Nat := %d   -- 1000000 = deferred\n", f.UnlockStmt)
			fmt.Fprintf(w, "def nonceStmts : List Nat := %s   -- statements calling buildSendNonce()\n", c03LeanNatList(f.NonceStmts))
			fmt.Fprintf(w, "def incStmts : List Nat := %s     -- statements modifying .sendNonce\n", c03LeanNatList(f.IncStmts))
			fmt.Fprintf(w, "def earlyUnlocksReturn : Bool := %s\n", b(f.EarlyUnlocksReturn))
			fmt.Fprintf(w, "def sealUsesLocalNonce : Bool := %s\n", b(f.SealUsesLocalNonce))
			fmt.Fprintf(w, "/-- functions of package crypto that modify (or take the address of) .sendNonce -/\n")
			fmt.Fprintf(w, "def sendNonceWriters : List String := %s\n", c03LeanStrList(f.Writers))
			fmt.Fprintf(w, "def buildSendNonceCallers : List String := %s\n", c03LeanStrList(f.NonceBuilders))
			fmt.Fprintf(w, "/-- every DeriveSessionKey call site: (file:line func, isInitiator argument, the caller's OWN public key sits in the initiator slot) -/\n")
			fmt.Fprintf(w, "def siteFlags : List (String × String × Bool) := [\n")
			for i, s := range sites {
				sep := ","
				if i == len(sites)-1 {
					sep = ""
				}
				fmt.Fprintf(w, "  (%q, %q, %s)%s\n", fmt.Sprintf("%s:%d %s", s.File, s.Line, s.Func), s.IsInit, b(s.InitRole == "local" && s.RespRole == "remote"), sep)
			}
			fmt.Fprintf(w, "]\n")
			fmt.Fprintf(w, "/-- sites whose argument roles could not be resolved to exactly one local and one remote key -/\n")
			var unres []string
			for _, s := range sites {
				if !((s.InitRole == "local" && s.RespRole == "remote") || (s.InitRole == "remote" && s.RespRole == "local")) {
					unres = append(unres, fmt.Sprintf("%s:%d %s", s.File, s.Line, s.Func))
				}
			}
			fmt.Fprintf(w, "def unresolvedSites : List String := %s\n", c03LeanStrList(unres))
			fmt.Fprintf(w, "end MM.Gen.C02\n")
		},
	})
}
