//go:build verif && (all || c01)

package main

import (
	"bufio"
	"encoding/binary"
	"fmt"
	"strconv"

	"github.com/postalsys/muti-metroo/internal/crypto"
)

// Engine c01: two real crypto.SessionKey values (initiator I, responder R) derived from one fixed
// secret, and the pool of ciphertexts produced so far.
//
//	reset [sI rI sR rR]        -> ok
//	enc I|R <msg> [plen]       -> ok <pfx> <ctr> <sI rI sR rR> | err exhausted <sI rI sR rR>
//	     plaintext = be32(msg) padded to plen bytes (default 4); plen 0 = empty plaintext
//	del I|R <k> <mutation>     -> acc <msg>|empty <sI rI sR rR> | rej <sI rI sR rR>
//	     mutation: none | flip <i> | ctr <v> | pfx <v> | trunc <n> | ext <n>
//	raw I|R <pfx> <ctr> <len>  -> rej ... (acc ... would be a forgery)
type c01State struct {
	i, r *crypto.SessionKey
	pool [][]byte
}

func c01New(sI, rI, sR, rR uint64) *c01State {
	var secret, pubI, pubR [crypto.KeySize]byte
	for k := range secret {
		secret[k] = byte(0x11 + k)
		pubI[k] = byte(0x40 + k)
		pubR[k] = byte(0x90 + k)
	}
	st := &c01State{
		i: crypto.DeriveSessionKey(secret, 1, pubI, pubR, true),
		r: crypto.DeriveSessionKey(secret, 1, pubI, pubR, false),
	}
	crypto.VerifC01SetCounters(st.i, sI, rI)
	crypto.VerifC01SetCounters(st.r, sR, rR)
	return st
}

func (st *c01State) ctrs() string {
	a, b := crypto.VerifC01Counters(st.i)
	c, d := crypto.VerifC01Counters(st.r)
	return fmt.Sprintf("%d %d %d %d", a, b, c, d)
}

func (st *c01State) end(x string) *crypto.SessionKey {
	if x == "I" {
		return st.i
	}
	return st.r
}

func (st *c01State) deliver(x string, ct []byte) string {
	pt, err := st.end(x).Decrypt(ct)
	if err != nil {
		return "rej " + st.ctrs()
	}
	if len(pt) == 0 {
		return "acc empty " + st.ctrs()
	}
	if len(pt) < 4 {
		return fmt.Sprintf("acc ?%x %s", pt, st.ctrs())
	}
	return fmt.Sprintf("acc %d %s", binary.BigEndian.Uint32(pt), st.ctrs())
}

func c01U64(s string) uint64 {
	v, err := strconv.ParseUint(s, 10, 64)
	must(err)
	return v
}

func init() {
	st := c01New(0, 0, 0, 0)
	register("c01", &Engine{
		Run: func(line string) string {
			f := fields(line)
			switch {
			case f[0] == "reset" && len(f) == 1:
				st = c01New(0, 0, 0, 0)
				return "ok"
			case f[0] == "reset" && len(f) == 5:
				st = c01New(c01U64(f[1]), c01U64(f[2]), c01U64(f[3]), c01U64(f[4]))
				return "ok"
			case f[0] == "enc" && (len(f) == 3 || len(f) == 4) && (f[1] == "I" || f[1] == "R"):
				plen := 4
				if len(f) == 4 {
					plen = int(c01U64(f[3]))
				}
				if plen != 0 && plen < 4 || plen > 1<<20 {
					return "bad-op"
				}
				pt := make([]byte, plen)
				if plen >= 4 {
					binary.BigEndian.PutUint32(pt[:4], uint32(c01U64(f[2])))
					for k := 4; k < plen; k++ {
						pt[k] = 0xee
					}
				}
				ct, err := st.end(f[1]).Encrypt(pt)
				if err != nil {
					return "err exhausted " + st.ctrs()
				}
				st.pool = append(st.pool, ct)
				if len(ct) != plen+crypto.EncryptionOverhead {
					return fmt.Sprintf("ok-badlen %d", len(ct))
				}
				return fmt.Sprintf("ok %d %d %s", binary.BigEndian.Uint32(ct[0:4]), binary.BigEndian.Uint64(ct[4:12]), st.ctrs())
			case f[0] == "del" && len(f) >= 4 && (f[1] == "I" || f[1] == "R"):
				k := int(c01U64(f[2]))
				if k >= len(st.pool) {
					return "bad-op"
				}
				ct := append([]byte{}, st.pool[k]...)
				switch {
				case f[3] == "none" && len(f) == 4:
				case f[3] == "flip" && len(f) == 5:
					i := c01U64(f[4])
					ct[crypto.NonceSize+int(i%uint64(len(ct)-crypto.NonceSize))] ^= byte(1 << (i % 8))
				case f[3] == "ctr" && len(f) == 5:
					binary.BigEndian.PutUint64(ct[4:12], c01U64(f[4]))
				case f[3] == "pfx" && len(f) == 5:
					binary.BigEndian.PutUint32(ct[0:4], uint32(c01U64(f[4])))
				case f[3] == "trunc" && len(f) == 5:
					if n := c01U64(f[4]); n < uint64(len(ct)) {
						ct = ct[:n]
					}
				case f[3] == "ext" && len(f) == 5:
					for n := c01U64(f[4]); n > 0; n-- {
						ct = append(ct, byte(0xa5+n))
					}
				default:
					return "bad-op"
				}
				return st.deliver(f[1], ct)
			case f[0] == "raw" && len(f) == 5 && (f[1] == "I" || f[1] == "R"):
				n := int(c01U64(f[4]))
				ct := make([]byte, 12, 12+n)
				binary.BigEndian.PutUint32(ct[0:4], uint32(c01U64(f[2])))
				binary.BigEndian.PutUint64(ct[4:12], c01U64(f[3]))
				for k := 12; k < n; k++ {
					ct = append(ct, byte(0x5a+k))
				}
				if n < 12 {
					ct = ct[:n]
				}
				return st.deliver(f[1], ct)
			}
			return "bad-op"
		},
		Gen: c01Gen,
	})
}

// c01Gen: 60 % honest traffic with network faults (loss, reordering, duplication), 25 % adversarial
// (reflection, replay after advance, forged high counters, wrong prefixes), 15 % malformed lengths;
// one case in five starts with counters near 2^64 (or other boundary presets).
func c01Gen(w *bufio.Writer, seed int64, tier string) {
	r := newRng(seed)
	cases := 150
	if tier == "thorough" {
		cases = 6000
	}
	const max = ^uint64(0)
	for c := 0; c < cases; c++ {
		var sI, rI, sR, rR uint64
		switch r.intn(10) {
		case 0: // near the end of the counter space, consistent (recv <= peer's send)
			sI = max - uint64(r.intn(4))
			rR = sI - uint64(r.intn(3))
			sR = max - uint64(r.intn(6))
			rI = sR - uint64(r.intn(3))
		case 1: // arbitrary large values
			sI, rI, sR, rR = r.u64(), r.u64(), r.u64(), r.u64()
		case 2:
			sI, rR = uint64(r.intn(5)), uint64(r.intn(5))
			sR, rI = 1<<63-1+uint64(r.intn(3)), 1<<63-1
		case 3: // around 2^32 (a counter truncated to 32 bits would wrap here)
			sI = 1<<32 - 1 - uint64(r.intn(3))
			rR = sI - uint64(r.intn(2))
			sR = 1<<32 - uint64(r.intn(3))
			rI = sR
		}
		if sI|rI|sR|rR == 0 {
			fmt.Fprintln(w, "reset")
		} else {
			fmt.Fprintf(w, "reset %d %d %d %d\n", sI, rI, sR, rR)
		}
		type ent struct {
			end string
			ctr uint64
		}
		var pool []ent
		send := map[string]uint64{"I": sI, "R": sR}
		recv := map[string]uint64{"I": rI, "R": rR}
		msg := 1
		other := func(x string) string {
			if x == "I" {
				return "R"
			}
			return "I"
		}
		ops := 8 + r.intn(32)
		if r.chance(6) {
			ops = 150 + r.intn(150) // long-lived session: state left by many earlier ops
		}
		if r.chance(8) {
			// burst: many messages in flight, delivered far out of order (distance > 64), with
			// duplicates — only the increasing subsequence may be accepted
			x := r.pickS("I", "R")
			n := 70 + r.intn(200)
			base := len(pool)
			for j := 0; j < n && send[x] != max; j++ {
				fmt.Fprintf(w, "enc %s %d\n", x, msg)
				msg++
				pool = append(pool, ent{x, send[x]})
				send[x]++
			}
			n = len(pool) - base
			for j := 0; j < n && n > 0; j++ {
				k := base + r.intn(n)
				if r.chance(50) {
					k = base + (j*67+r.intn(5))%n // stride 67: neighbours in time are > 64 apart in send order
				}
				fmt.Fprintf(w, "del %s %d none\n", other(x), k)
				if r.chance(5) {
					fmt.Fprintf(w, "del %s %d none\n", x, k)
				}
			}
			continue
		}
		for o := 0; o < ops; o++ {
			x := r.pickS("I", "R")
			if len(pool) == 0 || r.chance(35) {
				if r.chance(12) { // payload size boundaries: empty (exactly 28 bytes on the wire), 16 KiB +-1, 64 KiB
					fmt.Fprintf(w, "enc %s %d %d\n", x, msg, r.pick(0, 0, 5, 100, 16383, 16384, 16385, 65536))
				} else {
					fmt.Fprintf(w, "enc %s %d\n", x, msg)
				}
				msg++
				if send[x] != max { // Encrypt refuses the last counter value: no ciphertext, no pool entry
					pool = append(pool, ent{x, send[x]})
					send[x]++
				}
				continue
			}
			k := r.intn(len(pool))
			if r.chance(60) { // prefer recent ciphertexts (in-order-ish delivery)
				k = len(pool) - 1 - r.intn(min(3, len(pool)))
			}
			p := pool[k]
			switch d := r.intn(100); {
			case d < 60: // honest delivery to the other end (reordered/duplicated by construction)
				fmt.Fprintf(w, "del %s %d none\n", other(p.end), k)
				if p.ctr >= recv[other(p.end)] {
					recv[other(p.end)] = p.ctr + 1
				}
			case d < 67: // reflection
				fmt.Fprintf(w, "del %s %d none\n", p.end, k)
			case d < 75: // forged counter on a genuine body
				y := r.pickS("I", "R")
				vals := []uint64{recv[y], recv[y] + 1, recv[y] + 1000, 1 << 63, max - 1, max, 0, p.ctr, p.ctr + 1, r.u64()}
				fmt.Fprintf(w, "del %s %d ctr %d\n", y, k, vals[r.intn(len(vals))])
			case d < 80: // prefix games
				y := r.pickS("I", "R")
				vals := []uint64{0, 0x80000000, 0x80, 1, 0x00800000, 0x80000001, 0xffffffff, 0x7fffffff, uint64(uint32(r.u64()))}
				fmt.Fprintf(w, "del %s %d pfx %d\n", y, k, vals[r.intn(len(vals))])
			case d < 85: // forged frames with garbage bodies and chosen counters
				y := r.pickS("I", "R")
				pf := uint64(0)
				if y == "I" {
					pf = 0x80000000
				}
				if r.chance(25) {
					pf ^= 0x80000000
				}
				vals := []uint64{recv[y], recv[y] + 1, 1 << 63, 0x7f7f7f7f7f7f7f7f, max - 1, max, r.u64()}
				fmt.Fprintf(w, "raw %s %d %d %d\n", y, pf, vals[r.intn(len(vals))], r.pick(28, 29, 32, 64))
			case d < 90:
				fmt.Fprintf(w, "del %s %d flip %d\n", other(p.end), k, r.intn(64))
			case d < 96: // malformed lengths
				fmt.Fprintf(w, "del %s %d trunc %d\n", other(p.end), k, r.pick(0, 1, 11, 12, 13, 27, 28, 29, 31, 32, 33, 16411, 16412))
			case d < 98:
				fmt.Fprintf(w, "raw %s %d %d %d\n", r.pickS("I", "R"), r.pick(0, 0x80000000), r.u64(), r.pick(0, 1, 11, 12, 27))
			default:
				fmt.Fprintf(w, "del %s %d ext %d\n", other(p.end), k, r.pick(0, 1, 16))
			}
		}
	}
}
