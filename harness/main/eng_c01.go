//go:build verif && (all || c01)

package main

import (
	"bufio"
	"encoding/binary"
	"fmt"
	"go/ast"
	"os"
	"sort"
	"strconv"
	"strings"
	"sync"

	"github.com/postalsys/muti-metroo/internal/crypto"
)

// Engine c01: two real crypto.SessionKey values (initiator I, responder R) derived from one fixed
// secret, and the pool of ciphertexts produced so far.
//
//	reset [sI rI sR rR]        -> ok
//	enc I|R <msg> [plen]       -> ok <pfx> <ctr> <sI rI sR rR> | err exhausted <sI rI sR rR>
//	     plaintext = be32(msg) padded to plen bytes (default 4); plen 0 = empty plaintext
//	del I|R <k> <mutation>     -> acc <msg>|empty <sI rI sR rR> | rej <sI rI sR rR>
//	     mutation: none | flip <i> | ctr <v> | pfx <v> | trunc <n> | ext <n>
//	raw I|R <pfx> <ctr> <len>  -> rej ... (acc ... would be a forgery)
//	race I|R <k> <G>           -> race <accepted> <msg|empty|-> <sI rI sR rR>
//	     G goroutines deliver pooled ciphertext k to the same end at the same moment; at most one may accept
type c01State struct {
	i, r *crypto.SessionKey
	pool [][]byte
}

func c01New(sI, rI, sR, rR uint64) *c01State {
	var secret, pubI, pubR [crypto.KeySize]byte
	for k := range secret {
		secret[k] = byte(0x11 + k)
		pubI[k] = byte(0x40 + k)
		pubR[k] = byte(0x90 + k)
	}
	st := &c01State{
		i: crypto.DeriveSessionKey(secret, 1, pubI, pubR, true),
		r: crypto.DeriveSessionKey(secret, 1, pubI, pubR, false),
	}
	crypto.VerifC01SetCounters(st.i, sI, rI)
	crypto.VerifC01SetCounters(st.r, sR, rR)
	return st
}

func (st *c01State) ctrs() string {
	a, b := crypto.VerifC01Counters(st.i)
	c, d := crypto.VerifC01Counters(st.r)
	return fmt.Sprintf("%d %d %d %d", a, b, c, d)
}

func (st *c01State) end(x string) *crypto.SessionKey {
	if x == "I" {
		return st.i
	}
	return st.r
}

func (st *c01State) deliver(x string, ct []byte) string {
	pt, err := st.end(x).Decrypt(ct)
	if err != nil {
		return "rej " + st.ctrs()
	}
	if len(pt) == 0 {
		return "acc empty " + st.ctrs()
	}
	if len(pt) < 4 {
		return fmt.Sprintf("acc ?%x %s", pt, st.ctrs())
	}
	return fmt.Sprintf("acc %d %s", binary.BigEndian.Uint32(pt), st.ctrs())
}

func c01U64(s string) uint64 {
	v, err := strconv.ParseUint(s, 10, 64)
	must(err)
	return v
}

func init() {
	st := c01New(0, 0, 0, 0)
	register("c01", &Engine{
		Run: func(line string) string {
			f := fields(line)
			switch {
			case f[0] == "reset" && len(f) == 1:
				st = c01New(0, 0, 0, 0)
				return "ok"
			case f[0] == "reset" && len(f) == 5:
				st = c01New(c01U64(f[1]), c01U64(f[2]), c01U64(f[3]), c01U64(f[4]))
				return "ok"
			case f[0] == "enc" && (len(f) == 3 || len(f) == 4) && (f[1] == "I" || f[1] == "R"):
				plen := 4
				if len(f) == 4 {
					plen = int(c01U64(f[3]))
				}
				if plen != 0 && plen < 4 || plen > 1<<20 {
					return "bad-op"
				}
				pt := make([]byte, plen)
				if plen >= 4 {
					binary.BigEndian.PutUint32(pt[:4], uint32(c01U64(f[2])))
					for k := 4; k < plen; k++ {
						pt[k] = 0xee
					}
				}
				ct, err := st.end(f[1]).Encrypt(pt)
				if err != nil {
					return "err exhausted " + st.ctrs()
				}
				st.pool = append(st.pool, ct)
				if len(ct) != plen+crypto.EncryptionOverhead {
					return fmt.Sprintf("ok-badlen %d", len(ct))
				}
				return fmt.Sprintf("ok %d %d %s", binary.BigEndian.Uint32(ct[0:4]), binary.BigEndian.Uint64(ct[4:12]), st.ctrs())
			case f[0] == "del" && len(f) >= 4 && (f[1] == "I" || f[1] == "R"):
				k := int(c01U64(f[2]))
				if k >= len(st.pool) {
					return "bad-op"
				}
				ct := append([]byte{}, st.pool[k]...)
				switch {
				case f[3] == "none" && len(f) == 4:
				case f[3] == "flip" && len(f) == 5:
					i := c01U64(f[4])
					ct[crypto.NonceSize+int(i%uint64(len(ct)-crypto.NonceSize))] ^= byte(1 << (i % 8))
				case f[3] == "ctr" && len(f) == 5:
					binary.BigEndian.PutUint64(ct[4:12], c01U64(f[4]))
				case f[3] == "pfx" && len(f) == 5:
					binary.BigEndian.PutUint32(ct[0:4], uint32(c01U64(f[4])))
				case f[3] == "trunc" && len(f) == 5:
					if n := c01U64(f[4]); n < uint64(len(ct)) {
						ct = ct[:n]
					}
				case f[3] == "ext" && len(f) == 5:
					for n := c01U64(f[4]); n > 0; n-- {
						ct = append(ct, byte(0xa5+n))
					}
				default:
					return "bad-op"
				}
				return st.deliver(f[1], ct)
			case f[0] == "race" && len(f) == 4 && (f[1] == "I" || f[1] == "R"):
				k, g := int(c01U64(f[2])), int(c01U64(f[3]))
				if k >= len(st.pool) || g < 1 || g > 256 {
					return "bad-op"
				}
				var wg sync.WaitGroup
				var mu sync.Mutex
				acc, msg := 0, "-"
				startCh := make(chan struct{})
				for t := 0; t < g; t++ {
					wg.Add(1)
					go func() {
						defer wg.Done()
						ct := append([]byte{}, st.pool[k]...)
						<-startCh
						pt, err := st.end(f[1]).Decrypt(ct)
						if err != nil {
							return
						}
						mu.Lock()
						acc++
						switch {
						case len(pt) == 0:
							msg = "empty"
						case len(pt) >= 4:
							msg = fmt.Sprint(binary.BigEndian.Uint32(pt))
						default:
							msg = "?"
						}
						mu.Unlock()
					}()
				}
				close(startCh)
				wg.Wait()
				return fmt.Sprintf("race %d %s %s", acc, msg, st.ctrs())
			case f[0] == "raw" && len(f) == 5 && (f[1] == "I" || f[1] == "R"):
				n := int(c01U64(f[4]))
				ct := make([]byte, 12, 12+n)
				binary.BigEndian.PutUint32(ct[0:4], uint32(c01U64(f[2])))
				binary.BigEndian.PutUint64(ct[4:12], c01U64(f[3]))
				for k := 12; k < n; k++ {
					ct = append(ct, byte(0x5a+k))
				}
				if n < 12 {
					ct = ct[:n]
				}
				return st.deliver(f[1], ct)
			}
			return "bad-op"
		},
		Gen:   c01Gen,
		Facts: c01Facts,
	})
}

// c01Facts: package constants (from the compiled package) and the shape of (*SessionKey).Decrypt
// (go/ast over the working tree): the receive-window test, aead.Open and the recvNonce update all
// lie inside one Lock..Unlock region, in that order, and nothing else writes recvNonce.
func c01Facts(w *bufio.Writer) {
	fail := func(msg string) {
		fmt.Fprintln(os.Stderr, "c01 facts:", msg)
		w.Flush()
		os.Exit(1)
	}
	p, err := c03Parse("internal/crypto")
	if err != nil {
		fail(err.Error())
	}
	var dec *ast.FuncDecl
	writers := map[string]bool{}
	isRecvWrite := func(n ast.Node) bool {
		switch s := n.(type) {
		case *ast.IncDecStmt:
			return strings.HasSuffix(p.txt(s.X), ".recvNonce")
		case *ast.AssignStmt:
			for _, l := range s.Lhs {
				if strings.HasSuffix(p.txt(l), ".recvNonce") {
					return true
				}
			}
		case *ast.UnaryExpr:
			return s.Op.String() == "&" && strings.HasSuffix(p.txt(s.X), ".recvNonce")
		}
		return false
	}
	for _, name := range p.sortedFiles() {
		for _, d := range p.files[name].Decls {
			fn, ok := d.(*ast.FuncDecl)
			if !ok || fn.Body == nil {
				continue
			}
			if fn.Name.Name == "Decrypt" && fn.Recv != nil && strings.Contains(p.txt(fn.Recv.List[0].Type), "SessionKey") {
				dec = fn
			}
			ast.Inspect(fn.Body, func(n ast.Node) bool {
				if n != nil && isRecvWrite(n) {
					writers[fn.Name.Name] = true
				}
				return true
			})
		}
	}
	if dec == nil {
		fail("method (*SessionKey).Decrypt not found")
	}
	lock, unlock, open := -1, -1, -1
	openErrChecked, earlyUnlocksReturn := false, true
	var reads, writes []int
	for i, st := range dec.Body.List {
		if es, ok := st.(*ast.ExprStmt); ok {
			if c03IsMuCall(p, es.X, "Lock") && lock < 0 {
				lock = i
				continue
			}
			if c03IsMuCall(p, es.X, "Unlock") && lock >= 0 && unlock < 0 {
				unlock = i
				continue
			}
		}
		if ds, ok := st.(*ast.DeferStmt); ok && lock >= 0 && unlock < 0 && c03IsMuCall(p, ds.Call, "Unlock") {
			unlock = 1000000
			continue
		}
		hasWrite, hasRead, hasOpen := false, false, false
		ast.Inspect(st, func(n ast.Node) bool {
			if n == nil {
				return true
			}
			if isRecvWrite(n) {
				hasWrite = true
			}
			if c, ok := n.(*ast.CallExpr); ok {
				switch c03CallName(c) {
				case "buildRecvNonce":
					hasRead = true
				case "Open":
					hasOpen = true
				}
			}
			if se, ok := n.(*ast.SelectorExpr); ok && se.Sel.Name == "recvNonce" {
				hasRead = true
			}
			if blk, ok := n.(*ast.BlockStmt); ok && lock >= 0 && unlock < 0 {
				for _, b := range blk.List {
					if es, ok := b.(*ast.ExprStmt); ok && c03IsMuCall(p, es.X, "Unlock") {
						if _, isRet := blk.List[len(blk.List)-1].(*ast.ReturnStmt); !isRet {
							earlyUnlocksReturn = false
						}
					}
				}
			}
			return true
		})
		if hasOpen && open < 0 {
			open = i
			if i+1 < len(dec.Body.List) {
				if ifs, ok := dec.Body.List[i+1].(*ast.IfStmt); ok && strings.Contains(p.txt(ifs.Cond), "!= nil") && len(ifs.Body.List) > 0 {
					if _, isRet := ifs.Body.List[len(ifs.Body.List)-1].(*ast.ReturnStmt); isRet {
						openErrChecked = true
					}
				}
			}
		}
		if hasWrite {
			writes = append(writes, i)
		} else if hasRead {
			reads = append(reads, i)
		}
	}
	if lock < 0 || unlock < 0 || open < 0 {
		fail(fmt.Sprintf("Decrypt (line %d): Lock/Unlock pair or aead.Open call not found at top level (lock=%d unlock=%d open=%d)", p.line(dec), lock, unlock, open))
	}
	var ws []string
	for x := range writers {
		ws = append(ws, x)
	}
	sort.Strings(ws)
	b := func(x bool) string {
		if x {
			return "true"
		}
		return "false"
	}
	fmt.Fprintf(w, "-- GENERATED from %s by `harness c01 facts` (compiled constants + go/ast). Do not edit.\n", c03RepoRoot())
	fmt.Fprintf(w, "namespace MM.Gen.C01\n")
	fmt.Fprintf(w, "def nonceSize : Nat := %d\ndef tagSize : Nat := %d\ndef encryptionOverhead : Nat := %d\ndef keySize : Nat := %d\n", crypto.NonceSize, crypto.TagSize, crypto.EncryptionOverhead, crypto.KeySize)
	fmt.Fprintf(w, "/-! internal/crypto/crypto.go:%d (*SessionKey).Decrypt — indices of top-level statements -/\n", p.line(dec))
	fmt.Fprintf(w, "def lockStmt : Nat := %d\n", lock)
	fmt.Fprintf(w, "def unlockStmt : Nat := %d   -- 1000000 = deferred\n", unlock)
	fmt.Fprintf(w, "def recvReadStmts : List Nat := %s   -- statements reading recvNonce / calling buildRecvNonce()\n", c03LeanNatList(reads))
	fmt.Fprintf(w, "def openStmt : Nat := %d            -- the statement calling aead.Open\n", open)
	fmt.Fprintf(w, "def openErrChecked : Bool := %s     -- directly followed by `if err != nil { … return }`\n", b(openErrChecked))
	fmt.Fprintf(w, "def recvWriteStmts : List Nat := %s  -- statements writing recvNonce\n", c03LeanNatList(writes))
	fmt.Fprintf(w, "def earlyUnlocksReturn : Bool := %s\n", b(earlyUnlocksReturn))
	fmt.Fprintf(w, "def recvNonceWriters : List String := %s\n", c03LeanStrList(ws))
	fmt.Fprintf(w, "end MM.Gen.C01\n")
}

// c01Gen: 60 % honest traffic with network faults (loss, reordering, duplication), 25 % adversarial
// (reflection, replay after advance, forged high counters, wrong prefixes), 15 % malformed lengths;
// one case in five starts with counters near 2^64 (or other boundary presets).
func c01Gen(w *bufio.Writer, seed int64, tier string) {
	r := newRng(seed)
	cases := 150
	if tier == "thorough" {
		cases = 6000
	}
	const max = ^uint64(0)
	for c := 0; c < cases; c++ {
		var sI, rI, sR, rR uint64
		switch r.intn(10) {
		case 0: // near the end of the counter space, consistent (recv <= peer's send)
			sI = max - uint64(r.intn(4))
			rR = sI - uint64(r.intn(3))
			sR = max - uint64(r.intn(6))
			rI = sR - uint64(r.intn(3))
		case 1: // arbitrary large values
			sI, rI, sR, rR = r.u64(), r.u64(), r.u64(), r.u64()
		case 2:
			sI, rR = uint64(r.intn(5)), uint64(r.intn(5))
			sR, rI = 1<<63-1+uint64(r.intn(3)), 1<<63-1
		case 3: // around 2^32 (a counter truncated to 32 bits would wrap here)
			sI = 1<<32 - 1 - uint64(r.intn(3))
			rR = sI - uint64(r.intn(2))
			sR = 1<<32 - uint64(r.intn(3))
			rI = sR
		}
		if sI|rI|sR|rR == 0 {
			fmt.Fprintln(w, "reset")
		} else {
			fmt.Fprintf(w, "reset %d %d %d %d\n", sI, rI, sR, rR)
		}
		type ent struct {
			end string
			ctr uint64
		}
		var pool []ent
		send := map[string]uint64{"I": sI, "R": sR}
		recv := map[string]uint64{"I": rI, "R": rR}
		msg := 1
		other := func(x string) string {
			if x == "I" {
				return "R"
			}
			return "I"
		}
		ops := 8 + r.intn(32)
		if r.chance(6) {
			ops = 150 + r.intn(150) // long-lived session: state left by many earlier ops
		}
		if r.chance(8) {
			// burst: many messages in flight, delivered far out of order (distance > 64), with
			// duplicates — only the increasing subsequence may be accepted
			x := r.pickS("I", "R")
			n := 70 + r.intn(200)
			base := len(pool)
			for j := 0; j < n && send[x] != max; j++ {
				fmt.Fprintf(w, "enc %s %d\n", x, msg)
				msg++
				pool = append(pool, ent{x, send[x]})
				send[x]++
			}
			n = len(pool) - base
			for j := 0; j < n && n > 0; j++ {
				k := base + r.intn(n)
				if r.chance(50) {
					k = base + (j*67+r.intn(5))%n // stride 67: neighbours in time are > 64 apart in send order
				}
				fmt.Fprintf(w, "del %s %d none\n", other(x), k)
				if r.chance(5) {
					fmt.Fprintf(w, "del %s %d none\n", x, k)
				}
			}
			continue
		}
		for o := 0; o < ops; o++ {
			x := r.pickS("I", "R")
			if len(pool) == 0 || r.chance(35) {
				if r.chance(12) { // payload size boundaries: empty (exactly 28 bytes on the wire), 16 KiB +-1, 64 KiB
					fmt.Fprintf(w, "enc %s %d %d\n", x, msg, r.pick(0, 0, 5, 100, 16383, 16384, 16385, 65536))
				} else {
					fmt.Fprintf(w, "enc %s %d\n", x, msg)
				}
				msg++
				if send[x] != max { // Encrypt refuses the last counter value: no ciphertext, no pool entry
					pool = append(pool, ent{x, send[x]})
					send[x]++
				}
				continue
			}
			k := r.intn(len(pool))
			if r.chance(60) { // prefer recent ciphertexts (in-order-ish delivery)
				k = len(pool) - 1 - r.intn(min(3, len(pool)))
			}
			p := pool[k]
			switch d := r.intn(100); {
			case d < 60: // honest delivery to the other end (reordered/duplicated by construction)
				fmt.Fprintf(w, "del %s %d none\n", other(p.end), k)
				if p.ctr >= recv[other(p.end)] {
					recv[other(p.end)] = p.ctr + 1
				}
			case d < 67: // reflection
				fmt.Fprintf(w, "del %s %d none\n", p.end, k)
			case d < 75: // forged counter on a genuine body
				y := r.pickS("I", "R")
				vals := []uint64{recv[y], recv[y] + 1, recv[y] + 1000, 1 << 63, max - 1, max, 0, p.ctr, p.ctr + 1, r.u64()}
				fmt.Fprintf(w, "del %s %d ctr %d\n", y, k, vals[r.intn(len(vals))])
			case d < 80: // prefix games
				y := r.pickS("I", "R")
				vals := []uint64{0, 0x80000000, 0x80, 1, 0x00800000, 0x80000001, 0xffffffff, 0x7fffffff, uint64(uint32(r.u64()))}
				fmt.Fprintf(w, "del %s %d pfx %d\n", y, k, vals[r.intn(len(vals))])
			case d < 85: // forged frames with garbage bodies and chosen counters
				y := r.pickS("I", "R")
				pf := uint64(0)
				if y == "I" {
					pf = 0x80000000
				}
				if r.chance(25) {
					pf ^= 0x80000000
				}
				vals := []uint64{recv[y], recv[y] + 1, 1 << 63, 0x7f7f7f7f7f7f7f7f, max - 1, max, r.u64()}
				fmt.Fprintf(w, "raw %s %d %d %d\n", y, pf, vals[r.intn(len(vals))], r.pick(28, 29, 32, 64))
			case d < 90:
				fmt.Fprintf(w, "del %s %d flip %d\n", other(p.end), k, r.intn(64))
			case d < 96: // malformed lengths
				fmt.Fprintf(w, "del %s %d trunc %d\n", other(p.end), k, r.pick(0, 1, 11, 12, 13, 27, 28, 29, 31, 32, 33, 16411, 16412))
			case d < 98:
				fmt.Fprintf(w, "raw %s %d %d %d\n", r.pickS("I", "R"), r.pick(0, 0x80000000), r.u64(), r.pick(0, 1, 11, 12, 27))
			case d < 99:
				fmt.Fprintf(w, "del %s %d ext %d\n", other(p.end), k, r.pick(0, 1, 16))
			default: // concurrent duplicate delivery
				y := other(p.end)
				if r.chance(20) {
					y = p.end
				}
				fmt.Fprintf(w, "race %s %d %d\n", y, k, r.pick(2, 8, 32))
				if y != p.end && p.ctr >= recv[y] {
					recv[y] = p.ctr + 1
				}
			}
		}
	}
}
