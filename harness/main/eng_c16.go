//go:build verif && (all || c16 || c17)

package main

import (
	"bufio"
	"context"
	"fmt"
	"net"
	"strconv"
	"strings"
	"time"

	"github.com/postalsys/muti-metroo/internal/agent"
	"github.com/postalsys/muti-metroo/internal/crypto"
	"github.com/postalsys/muti-metroo/internal/exit"
	"github.com/postalsys/muti-metroo/internal/identity"
	"github.com/postalsys/muti-metroo/internal/protocol"
	"github.com/postalsys/muti-metroo/internal/udp"
)

// Engine c16 (also registered as c17r): the real relayTable (ops t.*) and the real agent's
// stream/UDP/ICMP frame dispatch with injected peers.

func c16Atoi(s string) int   { n, _ := strconv.Atoi(s); return n }
func c16U64(s string) uint64 { n, _ := strconv.ParseUint(s, 10, 64); return n }

func c16ShowEntry(e *agent.C16Entry) string {
	if e == nil {
		return "nil"
	}
	return fmt.Sprintf("(%d,%d,%d,%d)", c16Num(e.UpstreamPeer), e.UpstreamID, c16Num(e.DownstreamPeer), e.DownstreamID)
}

var c16FrameNames = map[uint8]string{
	protocol.FrameStreamOpen: "tcp.open", protocol.FrameStreamOpenAck: "tcp.ack", protocol.FrameStreamOpenErr: "tcp.err",
	protocol.FrameStreamData: "tcp.data", protocol.FrameStreamClose: "tcp.close", protocol.FrameStreamReset: "tcp.rst",
	protocol.FrameUDPOpen: "udp.open", protocol.FrameUDPOpenAck: "udp.ack", protocol.FrameUDPOpenErr: "udp.err",
	protocol.FrameUDPDatagram: "udp.data", protocol.FrameUDPClose: "udp.close",
	protocol.FrameICMPOpen: "icmp.open", protocol.FrameICMPOpenAck: "icmp.ack", protocol.FrameICMPOpenErr: "icmp.err",
	protocol.FrameICMPEcho: "icmp.data", protocol.FrameICMPClose: "icmp.close",
}

var c16Types = map[string]map[string]uint8{
	"tcp":  {"open": protocol.FrameStreamOpen, "ack": protocol.FrameStreamOpenAck, "err": protocol.FrameStreamOpenErr, "data": protocol.FrameStreamData, "close": protocol.FrameStreamClose},
	"udp":  {"open": protocol.FrameUDPOpen, "ack": protocol.FrameUDPOpenAck, "err": protocol.FrameUDPOpenErr, "data": protocol.FrameUDPDatagram, "close": protocol.FrameUDPClose},
	"icmp": {"open": protocol.FrameICMPOpen, "ack": protocol.FrameICMPOpenAck, "err": protocol.FrameICMPOpenErr, "data": protocol.FrameICMPEcho, "close": protocol.FrameICMPClose},
}

type c16UICall struct {
	done   chan error
	cancel context.CancelFunc
}

// c16Exit is the exit-endpoint side of the world: the agent's real exit.Handler, a loopback sink as
// destination and the tunnels terminated here (serial = order of successful opens).
type c16Exit struct {
	relayedAckErr bool // the current op is `ack` / `err`: ack/err frames in the output are relayed ones
	h             *exit.Handler
	sink          *c17Sink
	tuns          []*c16XTun
	open          map[int]bool // serials whose destination socket is open
}

type c16XTun struct {
	peer int
	id   uint64
	key  *crypto.SessionKey
	rec  *exit.ActiveConnection
}

func (x *c16Exit) serialOf(rec *exit.ActiveConnection) int {
	for i, t := range x.tuns {
		if t.rec == rec {
			return i
		}
	}
	return -1
}

func (x *c16Exit) settle() {
	c17Wait("exit read loops to settle", func() bool {
		if c17ReadLoops() != len(x.open) {
			return false
		}
		x.sink.mu.Lock()
		defer x.sink.mu.Unlock()
		for i := range x.tuns {
			if !x.open[i] && !(x.sink.gone[i] || x.sink.self[i]) {
				return false
			}
		}
		return true
	})
}

// reset tears every exit connection down (records and dangling sockets of overwritten records).
func (x *c16Exit) reset() {
	for _, k := range exit.C17Keys(x.h) {
		x.h.HandleStreamClose(c16ID(0), k)
	}
	x.sink.mu.Lock()
	for i, c := range x.sink.conns {
		x.sink.self[i] = true
		c.Close()
	}
	x.sink.mu.Unlock()
	x.open = map[int]bool{}
	c17Wait("exit read loops to end", func() bool { return c17ReadLoops() == 0 })
	x.sink.ln.Close()
	x.sink = c17NewSink()
	x.tuns = nil
}

// observe compares the record stored under id with the one seen before the op: a record that is
// gone (or replaced) was closed by the handler.
func (x *c16Exit) observe(id uint64, pre *exit.ActiveConnection) []string {
	if pre == nil || exit.C17Record(x.h, id) == pre {
		return nil
	}
	s := x.serialOf(pre)
	if s >= 0 && x.open[s] {
		delete(x.open, s)
		return []string{fmt.Sprintf("dstclosed:%d", s)}
	}
	return nil
}

func (w *c16World) agentOutX(x *c16Exit, extra []string) string {
	var parts []string
	for _, s := range w.drain() {
		name, ok := c16FrameNames[s.f.Type]
		if !ok {
			name = fmt.Sprintf("type%#x", s.f.Type)
		}
		item := fmt.Sprintf("%d:%s:%d", s.peer, name, s.f.StreamID)
		switch {
		case strings.HasSuffix(name, ".data"): // relayed payload and flags, byte for byte
			item += fmt.Sprintf(":%s/f%d", hexTok(s.f.Payload), s.f.Flags)
		case (strings.HasSuffix(name, ".ack") || strings.HasSuffix(name, ".err")) && x.relayedAckErr:
			item += ":" + hexTok(s.f.Payload) // forwarded for an `ack` / `err` op (not an error this agent produced)
		}
		parts = append(parts, item)
	}
	tcp, udp, icmp := agent.C16Tables(w.a)
	var keys []string
	for _, k := range exit.C17Keys(x.h) {
		keys = append(keys, fmt.Sprintf("%d:%d", k, x.serialOf(exit.C17Record(x.h, k))))
	}
	return "sent=[" + strings.Join(parts, " ") + "] x=[" + strings.Join(extra, " ") + "] | tcp " + c16ShowTable(tcp) + " | udp " + c16ShowTable(udp) +
		" | icmp " + c16ShowTable(icmp) + " | exit=[" + strings.Join(keys, " ") + "] uexit=[" + strings.Join(c16UKeys(w), " ") + "] uidx=[" + strings.Join(c16UIdx(w), " ") + "]"
}

func c16UIdx(w *c16World) []string {
	var out []string
	for _, k := range agent.C16IngressIndex(w.a) {
		out = append(out, fmt.Sprint(k))
	}
	return out
}

func c16UKeys(w *c16World) []string {
	var out []string
	if h := agent.C16UDPHandler(w.a); h != nil {
		for _, k := range udp.C16AssocKeys(h) {
			out = append(out, fmt.Sprint(k))
		}
	}
	return out
}

func c16OpenPayload(kind string, reqID uint64, next int) []byte {
	path := []identity.AgentID{c16ID(next)}
	switch kind {
	case "tcp":
		return (&protocol.StreamOpen{RequestID: reqID, AddressType: protocol.AddrTypeIPv4, Address: []byte{127, 0, 0, 1}, Port: 9, TTL: 8, RemainingPath: path}).Encode()
	case "udp":
		return (&protocol.UDPOpen{RequestID: reqID, AddressType: protocol.AddrTypeIPv4, Address: []byte{0, 0, 0, 0}, Port: 0, TTL: 8, RemainingPath: path}).Encode()
	default:
		return (&protocol.ICMPOpen{RequestID: reqID, DestIP: []byte{127, 0, 0, 1}, TTL: 8, RemainingPath: path}).Encode()
	}
}

func init() {
	var w *c16World
	var t *agent.C16Table
	var x *c16Exit
	var reqID, uiSeq uint64
	uiCalls := map[uint64]*c16UICall{}
	eng := &Engine{
		Run: func(line string) string {
			f := fields(line)
			if f[0] == "tworld" {
				// tworld <exit> <udp> <icmp>: a throw-away second agent configured with/without the exit features;
				// peer 1 opens one relayed tunnel of every kind towards peer 2, then peer 1 disconnects.
				// Prints the sizes (upstream+downstream index) of the three relay tables before and after.
				w2 := c16NewWorldCfg(f[1] == "1", f[2] == "1", f[3] == "1")
				defer w2.close()
				w2.connect(1, false)
				w2.connect(2, true)
				for i, k := range []string{"tcp", "udp", "icmp"} {
					agent.C16Process(w2.a, c16ID(1), &protocol.Frame{Type: c16Types[k]["open"], StreamID: uint64(2 + 2*i), Payload: c16OpenPayload(k, uint64(900+i), 2)})
				}
				cnt := func() string {
					var parts []string
					tcp, u, ic := agent.C16Tables(w2.a)
					for _, tb := range []*agent.C16Table{tcp, u, ic} {
						up, down := agent.C16Dump(tb)
						parts = append(parts, fmt.Sprint(len(up)+len(down)))
					}
					return strings.Join(parts, "/")
				}
				before := cnt()
				w2.disconnect(1)
				return "before " + before + " after " + cnt()
			}
			if w == nil {
				w = c16NewWorld()
				t = agent.C16NewTable()
				x = &c16Exit{h: agent.C16StartExit(w.a), sink: c17NewSink(), open: map[int]bool{}}
			}
			// a TCP frame that reaches the exit handler may close the record stored under its id
			tcpOp := func(id uint64, run func()) string {
				pre := exit.C17Record(x.h, id)
				run()
				extra := x.observe(id, pre)
				x.settle()
				return w.agentOutX(x, extra)
			}
			tOut := func(res string) string { return res + " | " + c16ShowTable(t) }
			x.relayedAckErr = f[0] == "ack" || f[0] == "err"
			switch f[0] {
			case "reset":
				for _, c := range uiCalls {
					c.cancel()
				}
				uiCalls = map[uint64]*c16UICall{}
				var allPeers []identity.AgentID
				for n := 1; n <= 9; n++ {
					allPeers = append(allPeers, c16ID(n))
				}
				agent.C16ResetIngress(w.a, allPeers)
				if h := agent.C16UDPHandler(w.a); h != nil {
					for _, k := range udp.C16AssocKeys(h) {
						h.HandleUDPClose(c16ID(0), k)
					}
				}
				x.reset()
				w.resetPeers()
				agent.C16ResetTables(w.a)
				t = agent.C16NewTable()
				return "ok"
			case "end":
				return w.agentOutX(x, nil)
			case "uiopen": // a new SOCKS5 UDP client at THIS agent (ingress); its UDP_OPEN goes to peer P (default route)
				p := c16Atoi(f[1])
				if w.conns[p] == nil {
					return w.agentOutX(x, nil)
				}
				uiSeq++
				must(agent.C16AddDefaultRoute(w.a, c16ID(p), uiSeq))
				ctx, cancel := context.WithTimeout(context.Background(), 20*time.Second)
				call := &c16UICall{done: make(chan error, 1), cancel: cancel}
				go func() { call.done <- agent.C16IngressOpen(w.a, ctx, net.IPv4(10, 0, 0, byte(uiSeq))) }()
				c17Wait("UDP_OPEN of the ingress client", func() bool { return w.bufs[p].Len() > 0 })
				for _, k := range agent.C16IngressIndex(w.a) {
					if uiCalls[k] == nil {
						uiCalls[k] = call
					}
				}
				return w.agentOutX(x, nil)
			case "uiack", "uierr": // the exit's answer to the ingress client whose local stream id is <id>
				p, id := c16Atoi(f[1]), c16U64(f[2])
				var fr *protocol.Frame
				if f[0] == "uiack" {
					_, pub, err := crypto.GenerateEphemeralKeypair()
					must(err)
					fr = &protocol.Frame{Type: protocol.FrameUDPOpenAck, StreamID: id, Payload: (&protocol.UDPOpenAck{RequestID: 1, BoundAddrType: protocol.AddrTypeIPv4, BoundAddr: []byte{127, 0, 0, 1}, BoundPort: 9, EphemeralPubKey: pub}).Encode()}
				} else {
					fr = &protocol.Frame{Type: protocol.FrameUDPOpenErr, StreamID: id, Payload: (&protocol.UDPOpenErr{RequestID: 1, ErrorCode: 1, Message: "refused"}).Encode()}
				}
				agent.C16Process(w.a, c16ID(p), fr)
				if call := uiCalls[id]; call != nil {
					select {
					case <-call.done:
					case <-time.After(3 * time.Second):
					}
					call.cancel()
					delete(uiCalls, id)
				}
				return w.agentOutX(x, nil)
			case "uxopen": // UDP_OPEN with an empty path: this agent is the UDP exit (socket bound synchronously)
				p, id := c16Atoi(f[1]), c16U64(f[2])
				if w.conns[p] == nil {
					return w.agentOutX(x, nil)
				}
				_, pub, err := crypto.GenerateEphemeralKeypair()
				must(err)
				reqID++
				open := &protocol.UDPOpen{RequestID: reqID, AddressType: protocol.AddrTypeIPv4, Address: []byte{0, 0, 0, 0}, TTL: 8, EphemeralPubKey: pub}
				agent.C16Process(w.a, c16ID(p), &protocol.Frame{Type: protocol.FrameUDPOpen, StreamID: id, Payload: open.Encode()})
				return w.agentOutX(x, nil)
			case "xopen": // STREAM_OPEN with an empty path: this agent is the exit
				p, id := c16Atoi(f[1]), c16U64(f[2])
				if w.conns[p] == nil { // frames only arrive from connected peers
					return w.agentOutX(x, nil)
				}
				priv, pub, err := crypto.GenerateEphemeralKeypair()
				must(err)
				reqID++
				preX := exit.C17Record(x.h, id)
				countX := x.h.ConnectionCount()
				open := &protocol.StreamOpen{RequestID: reqID, AddressType: protocol.AddrTypeIPv4, Address: []byte{127, 0, 0, 1},
					Port: uint16(x.sink.ln.Addr().(*net.TCPAddr).Port), TTL: 8, EphemeralPubKey: pub}
				agent.C16Process(w.a, c16ID(p), &protocol.Frame{Type: protocol.FrameStreamOpen, StreamID: id, Payload: open.Encode()})
				c17Wait("answer to the exit open", func() bool { return w.bufs[p].Len() > 0 })
				sent := w.drain()
				var parts, xextra []string
				for _, s := range sent {
					parts = append(parts, fmt.Sprintf("%d:%s:%d", s.peer, c16FrameNames[s.f.Type], s.f.StreamID))
					if s.f.Type == protocol.FrameStreamOpenAck && s.peer == p && s.f.StreamID == id {
						ack, err := protocol.DecodeStreamOpenAck(s.f.Payload)
						must(err)
						shared, err := crypto.ComputeECDH(priv, ack.EphemeralPubKey)
						must(err)
						serial := len(x.tuns)
						c17Wait("sink accept", func() bool { x.sink.mu.Lock(); defer x.sink.mu.Unlock(); return len(x.sink.conns) > serial })
						x.tuns = append(x.tuns, &c16XTun{peer: p, id: id, key: crypto.DeriveSessionKey(shared, reqID, pub, ack.EphemeralPubKey, true), rec: exit.C17Record(x.h, id)})
						x.open[serial] = true
						// a record already stored under the id is displaced: the handler closes its connection
						if ps := x.serialOf(preX); preX != nil && x.h.ConnectionCount() == countX && ps >= 0 && x.open[ps] {
							delete(x.open, ps)
							xextra = append(xextra, fmt.Sprintf("dstclosed:%d", ps))
						}
					}
				}
				x.settle()
				rest := w.agentOutX(x, xextra)
				return "sent=[" + strings.Join(parts, " ") + "]" + strings.TrimPrefix(rest, "sent=[]")
			case "xdata": // STREAM_DATA sealed under the session key of exit tunnel `serial`
				p, id, serial := c16Atoi(f[1]), c16U64(f[2]), c16Atoi(f[3])
				if serial >= len(x.tuns) {
					return "bad-op"
				}
				ct, err := x.tuns[serial].key.Encrypt([]byte("payload"))
				must(err)
				pre := exit.C17Record(x.h, id)
				before := 0
				target := -1
				if pre != nil {
					target = x.serialOf(pre)
					x.sink.mu.Lock()
					before = x.sink.recv[target]
					x.sink.mu.Unlock()
				}
				agent.C16Process(w.a, c16ID(p), &protocol.Frame{Type: protocol.FrameStreamData, StreamID: id, Payload: ct})
				sent := w.drain()
				var parts []string
				for _, s := range sent {
					parts = append(parts, fmt.Sprintf("%d:%s:%d", s.peer, c16FrameNames[s.f.Type], s.f.StreamID))
				}
				extra := x.observe(id, pre)
				// nothing was forwarded or closed and the payload was sealed for the record stored under the
				// id: the handler wrote it to that record's destination
				if len(sent) == 0 && len(extra) == 0 && target == serial && x.open[target] && agent.C16RelayRoutes(w.a, c16ID(p), id) == false {
					c17Wait("bytes at the destination", func() bool { x.sink.mu.Lock(); defer x.sink.mu.Unlock(); return x.sink.recv[target] >= before+7 })
					extra = append(extra, fmt.Sprintf("dst:%d", target))
				}
				x.settle()
				rest := w.agentOutX(x, extra)
				return "sent=[" + strings.Join(parts, " ") + "]" + strings.TrimPrefix(rest, "sent=[]")
			case "t.ins":
				t.Insert(agent.C16NewEntry(c16ID(c16Atoi(f[1])), c16U64(f[2]), c16ID(c16Atoi(f[3])), c16U64(f[4])))
				return tOut("ok")
			case "t.del":
				t.Delete(agent.C16NewEntry(c16ID(c16Atoi(f[1])), c16U64(f[2]), c16ID(c16Atoi(f[3])), c16U64(f[4])))
				return tOut("ok")
			case "t.both":
				u, d := t.LookupBoth(c16U64(f[1]))
				return tOut("up=" + c16ShowEntry(u) + " down=" + c16ShowEntry(d))
			case "t.down":
				return tOut(c16ShowEntry(t.LookupDownstream(c16U64(f[1]))))
			case "t.popdown":
				return tOut(c16ShowEntry(t.PopDownstreamFromPeer(c16U64(f[1]), c16ID(c16Atoi(f[2])))))
			case "t.popmatch":
				e, up := t.PopMatchingPeer(c16U64(f[1]), c16ID(c16Atoi(f[2])))
				if e == nil {
					return tOut("nil")
				}
				if up {
					return tOut(c16ShowEntry(e) + " up")
				}
				return tOut(c16ShowEntry(e) + " down")
			case "t.delpeer":
				return tOut(fmt.Sprintf("n=%d", t.DeleteByPeer(c16ID(c16Atoi(f[1])))))
			case "conn":
				w.connect(c16Atoi(f[1]), f[2] == "d")
				return w.agentOutX(x, nil)
			case "disc":
				w.disconnect(c16Atoi(f[1]))
				return w.agentOutX(x, nil)
			case "open":
				reqID++
				agent.C16Process(w.a, c16ID(c16Atoi(f[2])), &protocol.Frame{Type: c16Types[f[1]]["open"], StreamID: c16U64(f[3]), Payload: c16OpenPayload(f[1], reqID, c16Atoi(f[4]))})
				return w.agentOutX(x, nil)
			case "ack", "err", "data", "close":
				payload := []byte{1, 2, 3}
				var flags uint8
				if len(f) > 4 {
					payload = unhexTok(f[4])
				}
				if len(f) > 5 {
					flags = uint8(c16Atoi(f[5]))
				}
				run := func() {
					agent.C16Process(w.a, c16ID(c16Atoi(f[2])), &protocol.Frame{Type: c16Types[f[1]][f[0]], StreamID: c16U64(f[3]), Flags: flags, Payload: payload})
				}
				if f[1] == "tcp" {
					return tcpOp(c16U64(f[3]), run)
				}
				run()
				return w.agentOutX(x, nil)
			case "rst":
				return tcpOp(c16U64(f[2]), func() {
					agent.C16Process(w.a, c16ID(c16Atoi(f[1])), &protocol.Frame{Type: protocol.FrameStreamReset, StreamID: c16U64(f[2]), Payload: (&protocol.StreamReset{ErrorCode: 1}).Encode()})
				})
			}
			return "bad-op"
		},
		Gen: c16Gen,
	}
	register("c16", eng)
	register("c17r", eng)
}

// c16Gen. Table part: random op sequences over few peers and few ids, so that equal ids under
// different peers, re-inserts and deletes of absent entries are frequent; boundary ids. Agent part:
// topologies {2 ingress → transit → 1 exit, 1 ingress → 2 next hops, chains}, several tunnels per
// case over tcp/udp/icmp, upstream peers that DIALED this agent (their allocators all start at 1, so
// bare stream ids collide), frames from both legs, wrong peers, stale ids, disconnects, and a final
// orderly teardown followed by `end`.
func c16Gen(w *bufio.Writer, seed int64, tier string) {
	r := newRng(seed)
	nT, nA := 150, 400
	if tier == "thorough" {
		nT, nA = 4000, 5000
	}
	ids := []uint64{1, 2, 3, 5, 7, 1 << 32, 1<<63 - 1, 1 << 63, ^uint64(0)}
	id := func() uint64 {
		if r.chance(80) {
			return ids[r.intn(5)]
		}
		return ids[r.intn(len(ids))]
	}
	for c := 0; c < nT; c++ {
		fmt.Fprintf(w, "reset\n")
		n := 2 + r.intn(14)
		if r.chance(3) {
			n = 100 + r.intn(200)
		}
		type ent struct {
			a, b int
			i, j uint64
		}
		var live []ent
		for k := 0; k < n; k++ {
			switch x := r.intn(100); {
			case x < 35:
				e := ent{1 + r.intn(3), 1 + r.intn(3), id(), id()}
				live = append(live, e)
				fmt.Fprintf(w, "t.ins %d %d %d %d\n", e.a, e.i, e.b, e.j)
			case x < 45:
				if len(live) > 0 && r.chance(80) {
					e := live[r.intn(len(live))]
					fmt.Fprintf(w, "t.del %d %d %d %d\n", e.a, e.i, e.b, e.j)
				} else {
					fmt.Fprintf(w, "t.del %d %d %d %d\n", 1+r.intn(3), id(), 1+r.intn(3), id())
				}
			case x < 55:
				fmt.Fprintf(w, "t.both %d\n", id())
			case x < 62:
				fmt.Fprintf(w, "t.down %d\n", id())
			case x < 74:
				fmt.Fprintf(w, "t.popdown %d %d\n", id(), 1+r.intn(3))
			case x < 90:
				fmt.Fprintf(w, "t.popmatch %d %d\n", id(), 1+r.intn(3))
			default:
				fmt.Fprintf(w, "t.delpeer %d\n", 1+r.intn(4))
			}
		}
	}
	// fixed layouts (independent of the seed): this agent is UDP exit for peer 1 (association id N) and UDP
	// transit for peer 2 -> 4 (upstream id N as well, or downstream id N); closes from either side in
	// either order; the relay tables must be empty at `end`. Same for TCP exit + transit.
	for _, n := range []uint64{1, 3} {
		for order := 0; order < 4; order++ {
			fmt.Fprintf(w, "reset\nconn 1 a\nconn 2 a\nconn 4 d\n")
			if order%2 == 0 {
				fmt.Fprintf(w, "uxopen 1 %d\nopen udp 2 %d 4\n", n, n)
			} else {
				fmt.Fprintf(w, "open udp 2 %d 4\nuxopen 1 %d\n", n, n)
			}
			fmt.Fprintf(w, "data udp 2 %d aa 0\n", n)
			switch order / 2 {
			case 0: // the relayed association closes first (from upstream), then the exit association
				fmt.Fprintf(w, "close udp 2 %d\nclose udp 1 %d\n", n, n)
			default: // the exit association's owner closes first, then the relayed one (from downstream)
				fmt.Fprintf(w, "close udp 1 %d\nclose udp 4 1\nclose udp 2 %d\n", n, n)
			}
			fmt.Fprintf(w, "end\n")
			fmt.Fprintf(w, "reset\nconn 1 a\nconn 2 a\nconn 4 d\nxopen 1 %d\nopen tcp 2 %d 4\ndata tcp 2 %d bb 0\nxdata 1 %d 0\n", n, n, n, n)
			if order%2 == 0 {
				fmt.Fprintf(w, "close tcp 2 %d\nxdata 1 %d 0\nclose tcp 1 %d\n", n, n, n)
			} else {
				fmt.Fprintf(w, "close tcp 1 %d\ndata tcp 2 %d cc 1\nclose tcp 4 1\n", n, n)
			}
			fmt.Fprintf(w, "end\n")
		}
	}
	// fixed: this agent is INGRESS for three concurrent SOCKS5 UDP clients (local stream ids 1,3,5 toward peer 4);
	// the exit refuses one of them; the others' reverse-index entries (return datagrams) must survive
	for refuse := 0; refuse < 3; refuse++ {
		fmt.Fprintf(w, "reset\nconn 4 d\nuiopen 4\nuiopen 4\nuiopen 4\n")
		for k := 0; k < 3; k++ {
			if k == refuse {
				fmt.Fprintf(w, "uierr 4 %d\n", 1+2*k)
			} else {
				fmt.Fprintf(w, "uiack 4 %d\n", 1+2*k)
			}
		}
		fmt.Fprintf(w, "end\n")
	}
	kinds := []string{"tcp", "tcp", "tcp", "udp", "icmp"}
	for c := 0; c < nA; c++ {
		fmt.Fprintf(w, "reset\n")
		// peers 1..3 are upstream candidates (they dialed us: our allocator toward them is even),
		// peers 4..5 downstream candidates (we dialed them: odd ids 1,3,5,…)
		np := 2 + r.intn(4)
		connected := map[int]bool{}
		dialed := map[int]bool{} // we dialed the peer: its own stream ids are even, ours toward it odd
		for p := 1; p <= np; p++ {
			mode := "a"
			if p >= 4 || r.chance(20) {
				mode = "d"
			}
			fmt.Fprintf(w, "conn %d %s\n", p, mode)
			connected[p] = true
			dialed[p] = mode == "d"
		}
		// frames only ever arrive from connected peers
		from := func(p int) bool { return connected[p] }
		type tun struct {
			kind     string
			up, next int
			upID     uint64
		}
		var tuns []tun
		// each upstream peer runs its own allocator: 1,3,5,… (it dialed us)
		nextUp := map[int]uint64{}
		nOps := 3 + r.intn(25)
		if r.chance(3) {
			nOps = 150
		}
		distinctOnly := r.chance(40) // cases where every upstream id is globally distinct
		// pair mode: ONE peer uses this agent as transit, ONE other peer uses it as exit, each numbering
		// its streams 1,3,5,…: equal ids on an exit stream and a relayed stream, no other collision
		pairMode := !distinctOnly && r.chance(45)
		relayPeer, exitPeer := 1, 2
		if r.chance(50) {
			relayPeer, exitPeer = 2, 1
		}
		type xt struct {
			peer   int
			id     uint64
			serial int
		}
		var xts []xt
		var uxs [][2]uint64
		var globalUp uint64 = 1
		for k := 0; k < nOps; k++ {
			switch x := r.intn(100); {
			case x < 12 || (pairMode && len(xts) == 0):
				// a stream that terminates here (exit)
				p := 1 + r.intn(np)
				if pairMode {
					p = exitPeer
				}
				if !from(p) {
					break
				}
				var sid uint64
				if distinctOnly {
					sid = globalUp
					globalUp += 2
				} else {
					if nextUp[p] == 0 {
						nextUp[p] = 1
						if dialed[p] {
							nextUp[p] = 2
						}
					}
					sid = nextUp[p]
					nextUp[p] += 2
				}
				if r.chance(30) { // an exit-side UDP association instead
					fmt.Fprintf(w, "uxopen %d %d\n", p, sid)
					uxs = append(uxs, [2]uint64{uint64(p), sid})
					break
				}
				xts = append(xts, xt{p, sid, len(xts)})
				fmt.Fprintf(w, "xopen %d %d\n", p, sid)
			case x < 20 && len(xts) > 0:
				t := xts[r.intn(len(xts))]
				if from(t.peer) {
					if r.chance(85) {
						fmt.Fprintf(w, "xdata %d %d %d\n", t.peer, t.id, t.serial)
					} else {
						fmt.Fprintf(w, "%s tcp %d %d\n", r.pickS("close", "data"), t.peer, t.id)
					}
				}
			case x < 38 || len(tuns) == 0:
				up := 1 + r.intn(np)
				if pairMode {
					up = relayPeer
				}
				next := 1 + r.intn(np+1) // may be a peer that is not connected
				if next == up {
					next = 1 + (up % np)
				}
				if !from(up) {
					fmt.Fprintf(w, "conn %d a\n", up)
					connected[up] = true
					dialed[up] = false
					nextUp[up] = 0
				}
				var sid uint64
				if distinctOnly {
					sid = globalUp
					globalUp += 2
				} else {
					if nextUp[up] == 0 { // the peer's own allocator: odd if it dialed us, even if we dialed it
						nextUp[up] = 1
						if dialed[up] {
							nextUp[up] = 2
						}
					}
					sid = nextUp[up]
					nextUp[up] += 2
					if r.chance(3) {
						sid = ids[r.intn(len(ids))]
					}
				}
				kind := kinds[r.intn(len(kinds))]
				tuns = append(tuns, tun{kind: kind, up: up, next: next, upID: sid})
				fmt.Fprintf(w, "open %s %d %d %d\n", kind, up, sid, next)
			case x < 60:
				t := tuns[r.intn(len(tuns))]
				// payloads of every size class (empty, 1 byte, a few, a full 16 KiB frame), FIN flag on tcp
				pl := hexTok(r.bytes(r.pick(0, 1, 3, 3, 3, 17, 255)))
				if r.chance(2) {
					pl = hexTok(r.bytes(r.pick(16383, 16384)))
				}
				fl := 0
				if t.kind == "tcp" && r.chance(20) {
					fl = 1
				}
				if r.chance(60) {
					if from(t.up) {
						fmt.Fprintf(w, "data %s %d %d %s %d\n", t.kind, t.up, t.upID, pl, fl)
					}
				} else if from(t.next) { // from the downstream side: ids our allocator handed out (1,3,5 / 2,4,6)
					if r.chance(70) {
						fmt.Fprintf(w, "data %s %d %d %s %d\n", t.kind, t.next, 1+uint64(r.intn(8)), pl, fl)
					} else {
						fmt.Fprintf(w, "ack %s %d %d %s\n", t.kind, t.next, 1+uint64(r.intn(8)), pl)
					}
				}
			case x < 68: // wrong peer / stale id
				t := tuns[r.intn(len(tuns))]
				if p := 1 + r.intn(np); from(p) {
					fmt.Fprintf(w, "%s %s %d %d\n", r.pickS("data", "close", "ack", "err"), t.kind, p, t.upID)
				}
			case x < 80:
				t := tuns[r.intn(len(tuns))]
				if !from(t.up) {
					break
				}
				if t.kind == "tcp" && r.chance(30) {
					fmt.Fprintf(w, "rst %d %d\n", t.up, t.upID)
				} else {
					fmt.Fprintf(w, "close %s %d %d\n", t.kind, t.up, t.upID)
				}
			case x < 88:
				t := tuns[r.intn(len(tuns))]
				if from(t.next) {
					fmt.Fprintf(w, "%s %s %d %d\n", r.pickS("close", "err"), t.kind, t.next, 1+uint64(r.intn(8)))
				}
			case x < 94:
				p := 1 + r.intn(np)
				fmt.Fprintf(w, "disc %d\n", p)
				connected[p] = false
			default:
				p := 1 + r.intn(np)
				mode := r.pickS("a", "d")
				fmt.Fprintf(w, "conn %d %s\n", p, mode)
				connected[p] = true
				dialed[p] = mode == "d"
				nextUp[p] = 0
			}
		}
		// orderly teardown: every tunnel is closed from upstream (twice: double close), then every peer leaves
		for _, t := range tuns {
			if !from(t.up) {
				continue
			}
			fmt.Fprintf(w, "close %s %d %d\n", t.kind, t.up, t.upID)
			if r.chance(20) {
				fmt.Fprintf(w, "close %s %d %d\n", t.kind, t.up, t.upID)
			}
		}
		for _, u := range uxs {
			if from(int(u[0])) {
				fmt.Fprintf(w, "close udp %d %d\n", u[0], u[1])
			}
		}
		for _, t := range xts {
			if from(t.peer) {
				fmt.Fprintf(w, "xdata %d %d %d\n", t.peer, t.id, t.serial)
				fmt.Fprintf(w, "close tcp %d %d\n", t.peer, t.id)
			}
		}
		for p := 1; p <= np; p++ {
			fmt.Fprintf(w, "disc %d\n", p)
		}
		fmt.Fprintf(w, "end\n")
	}
}
