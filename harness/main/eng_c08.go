//go:build verif && (all || c08 || c10)

package main

import (
	"bufio"
	"encoding/binary"
	"encoding/hex"
	"fmt"
	"net"
	"sort"
	"strconv"
	"strings"
	"time"

	"github.com/postalsys/muti-metroo/internal/identity"
	"github.com/postalsys/muti-metroo/internal/routing"
)

// Engine c08: the real routing.Table driven op by op (see lean/MM/Engine/C08.lean for the protocol).

func init() {
	register("c08", &Engine{Gen: c08Gen, Run: c08Run})
}

var c08Tab *routing.Table

// c08Mgr owns c08Tab: the table is the Manager's, so that `mlook` goes through Manager.Lookup, the
// entry point the agent's dial path uses.
var c08Mgr *routing.Manager

func c08Fresh(self uint64) (*routing.Manager, *routing.Table) {
	m := routing.NewManager(c08ID(self))
	return m, m.Table()
}

// c08ID maps the small integers of the op script to agent IDs (and back).
func c08ID(n uint64) identity.AgentID {
	var id identity.AgentID
	id[0] = 0xA7
	binary.BigEndian.PutUint64(id[8:], n)
	return id
}

func c08Num(id identity.AgentID) uint64 { return binary.BigEndian.Uint64(id[8:]) }

func c08U(s string) uint64 {
	v, err := strconv.ParseUint(s, 10, 64)
	if err != nil {
		panic("bad number " + s)
	}
	return v
}

func c08Path(s string) []identity.AgentID {
	if s == "-" {
		return nil
	}
	var p []identity.AgentID
	for _, x := range strings.Split(s, ".") {
		p = append(p, c08ID(c08U(x)))
	}
	return p
}

func c08ShowPath(p []identity.AgentID) string {
	if len(p) == 0 {
		return "-"
	}
	xs := make([]string, len(p))
	for i, id := range p {
		xs[i] = strconv.FormatUint(c08Num(id), 10)
	}
	return strings.Join(xs, ".")
}

func c08Net(ip, ones, bits string) *net.IPNet {
	return &net.IPNet{IP: net.IP(unhexTok(ip)), Mask: net.CIDRMask(int(c08U(ones)), int(c08U(bits)))}
}

// c08Hours is the age of a route in the harness's time unit (1 h); real elapsed time is far below 30 min.
func c08Hours(last time.Time) int64 {
	return int64((time.Since(last) + 30*time.Minute) / time.Hour)
}

func c08Entry(n *net.IPNet, nh, or identity.AgentID, metric uint16, seq uint64, path []identity.AgentID, last time.Time) string {
	ones, bits := n.Mask.Size()
	return fmt.Sprintf("E%s/%d/%d,%d,%d,%d,%d,%s,%d", hexTok(n.IP), ones, bits, c08Num(nh), c08Num(or), metric, seq, c08ShowPath(path), c08Hours(last))
}

func c08RouteStr(r *routing.Route) string {
	return c08Entry(r.Network, r.NextHop, r.OriginAgent, r.Metric, r.Sequence, r.Path, r.LastUpdate)
}

// c08Label renders a map key of the table (an IPNet.String()) as family:address:ones.
func c08Label(key string) string {
	ip, n, err := net.ParseCIDR(key)
	if err != nil {
		if key == "<nil>" {
			return "nil"
		}
		return "raw" + hex.EncodeToString([]byte(key))
	}
	ones, _ := n.Mask.Size()
	if ip4 := ip.To4(); ip4 != nil && !strings.Contains(key, ":") {
		return fmt.Sprintf("32:%s:%d", hex.EncodeToString(ip4), ones)
	}
	return fmt.Sprintf("128:%s:%d", hex.EncodeToString(ip.To16()), ones)
}

func c08JoinGroups(gs [][2]string) string {
	if len(gs) == 0 {
		return "empty"
	}
	sort.Slice(gs, func(i, j int) bool { return gs[i][0] < gs[j][0] })
	parts := make([]string, len(gs))
	for i, g := range gs {
		parts[i] = g[1]
	}
	return strings.Join(parts, " ")
}

func c08Dump(t *routing.Table) string {
	var gs [][2]string
	for k, rs := range routing.C08Groups(t) {
		lab := c08Label(k)
		var es []string
		for _, r := range rs {
			es = append(es, c08RouteStr(r))
		}
		toks := append([]string{"G" + lab}, c08NormRuns(es)...)
		gs = append(gs, [2]string{lab, strings.Join(toks, " ")})
	}
	return c08JoinGroups(gs)
}

func c08Opt(r *routing.Route) string {
	if r == nil {
		return "none"
	}
	return "route " + c08RouteStr(r)
}

func c08TableOp(t *routing.Table, f []string) string {
	switch f[0] {
	case "add":
		ok := t.AddRoute(&routing.Route{Network: c08Net(f[1], f[2], f[3]), NextHop: c08ID(c08U(f[4])), OriginAgent: c08ID(c08U(f[5])),
			Metric: uint16(c08U(f[6])), Sequence: c08U(f[7]), Path: c08Path(f[8])})
		return fmt.Sprintf("%v ; %s", ok, c08Dump(t))
	case "rm":
		ok := t.RemoveRoute(c08Net(f[1], f[2], f[3]), c08ID(c08U(f[4])))
		return fmt.Sprintf("%v ; %s", ok, c08Dump(t))
	case "disc":
		n := t.RemoveRoutesFromPeer(c08ID(c08U(f[1])))
		return fmt.Sprintf("%d ; %s", n, c08Dump(t))
	case "age":
		routing.C08Age(t, time.Duration(c08U(f[1]))*time.Hour)
		return "ok ; " + c08Dump(t)
	case "clean":
		n := t.CleanupStaleRoutes(time.Duration(c08U(f[1]))*time.Hour + 30*time.Minute)
		return fmt.Sprintf("%d ; %s", n, c08Dump(t))
	case "look":
		return c08Opt(t.Lookup(net.IP(unhexTok(f[1]))))
	case "get":
		return c08Opt(t.GetRoute(c08Net(f[1], f[2], f[3])))
	case "lookall":
		toks := []string{"routes"}
		for _, r := range t.LookupAll(net.IP(unhexTok(f[1]))) {
			toks = append(toks, c08RouteStr(r))
		}
		return strings.Join(toks, " ")
	case "has":
		return fmt.Sprintf("%v", t.HasRoute(c08Net(f[1], f[2], f[3]), c08ID(c08U(f[4]))))
	case "size":
		return fmt.Sprintf("size %d %d", t.Size(), t.TotalRoutes())
	case "clear":
		t.Clear()
		return "ok ; " + c08Dump(t)
	}
	return "bad-op"
}

var c08Hist []string // the case so far (replayed on fresh tables by the race op)
var c08Self uint64 = 1

func c08Run(line string) string {
	f := fields(line)
	if f[0] == "reset" {
		c08Self = c08U(f[1])
		c08Mgr, c08Tab = c08Fresh(c08Self)
		c08Hist = nil
		return "ok"
	}
	if c08Tab == nil {
		c08Mgr, c08Tab = c08Fresh(c08Self)
	}
	// the Manager entry points over the same table (the lookups are the ones the agent's dial path uses)
	switch f[0] {
	case "mlook":
		return c08Opt(c08Mgr.Lookup(net.IP(unhexTok(f[1]))))
	case "mnext":
		if nh, ok := c08Mgr.LookupNextHop(net.IP(unhexTok(f[1]))); ok {
			return fmt.Sprintf("next %d", c08Num(nh))
		}
		return "none"
	case "mwd":
		c08Hist = append(c08Hist, line)
		ok := c08Mgr.ProcessRouteWithdraw(c08ID(c08U(f[1])), []routing.RouteEntry{{Network: c08Net(f[2], f[3], f[4])}})
		return fmt.Sprintf("%v ; %s", ok, c08Dump(c08Tab))
	case "mdisc":
		c08Hist = append(c08Hist, line)
		return fmt.Sprintf("%d ; %s", c08Mgr.HandlePeerDisconnect(c08ID(c08U(f[1]))), c08Dump(c08Tab))
	case "mclean":
		c08Hist = append(c08Hist, line)
		return fmt.Sprintf("%d ; %s", c08Mgr.CleanupStaleRoutes(time.Duration(c08U(f[1]))*time.Hour+30*time.Minute), c08Dump(c08Tab))
	}
	if f[0] == "race" {
		hist := c08Hist
		out := c08Race(line, false, func() (func(string), func() string, func()) {
			m, t := c08Fresh(c08Self)
			for _, h := range hist {
				c08Do(t, fields(h))
			}
			return func(op string) { c08Do(t, fields(op)) }, func() string { return c08Dump(t) }, func() { c08Mgr, c08Tab = m, t }
		})
		c08Hist = append(c08Hist, c08RaceOps(line)...)
		return out
	}
	c08Hist = append(c08Hist, line)
	return c08TableOp(c08Tab, f)
}

// c08Do executes a mutating op without printing (lookups are no-ops here).
func c08Do(t *routing.Table, f []string) {
	switch f[0] {
	case "add":
		t.AddRoute(&routing.Route{Network: c08Net(f[1], f[2], f[3]), NextHop: c08ID(c08U(f[4])), OriginAgent: c08ID(c08U(f[5])),
			Metric: uint16(c08U(f[6])), Sequence: c08U(f[7]), Path: c08Path(f[8])})
	case "rm":
		t.RemoveRoute(c08Net(f[1], f[2], f[3]), c08ID(c08U(f[4])))
	case "disc":
		t.RemoveRoutesFromPeer(c08ID(c08U(f[1])))
	case "age":
		routing.C08Age(t, time.Duration(c08U(f[1]))*time.Hour)
	case "clean":
		t.CleanupStaleRoutes(time.Duration(c08U(f[1]))*time.Hour + 30*time.Minute)
	case "clear":
		t.Clear()
	case "look":
		t.Lookup(net.IP(unhexTok(f[1])))
	case "mwd":
		t.RemoveRoute(c08Net(f[2], f[3], f[4]), c08ID(c08U(f[1])))
	case "mdisc":
		t.RemoveRoutesFromPeer(c08ID(c08U(f[1])))
	case "mclean":
		t.CleanupStaleRoutes(time.Duration(c08U(f[1]))*time.Hour + 30*time.Minute)
	}
}

// ---------------------------------------------------------------- generator

type c08Pfx struct {
	ip   []byte
	ones int
	bits int
}

func c08V4(a, b, c, d byte) []byte { return []byte{a, b, c, d} }
func c08Mapped(v4 []byte) []byte {
	return append([]byte{0, 0, 0, 0, 0, 0, 0, 0, 0, 0, 0xff, 0xff}, v4...)
}
func c08V6(s string) []byte { return []byte(net.ParseIP(s).To16()) }

// c08Bases: addresses engineered to nest and collide.
var c08Bases4 = [][]byte{
	c08V4(10, 0, 0, 0), c08V4(10, 1, 0, 0), c08V4(10, 1, 2, 0), c08V4(10, 1, 2, 3), c08V4(10, 128, 0, 0),
	c08V4(10, 1, 3, 0), c08V4(11, 0, 0, 0), c08V4(192, 168, 1, 0), c08V4(0, 0, 0, 0), c08V4(255, 255, 255, 255), c08V4(128, 0, 0, 0),
}
var c08Bases6 = []string{"2001:db8::", "2001:db8:1::", "2001:db8:1:2::3", "::", "::1", "fe80::1", "::fffe:10.1.2.3", "8000::", "ffff:ffff:ffff:ffff:ffff:ffff:ffff:ffff"}
var c08Ones4 = []int{0, 1, 7, 8, 9, 15, 16, 17, 23, 24, 25, 30, 31, 32}
var c08Ones6 = []int{0, 1, 16, 32, 33, 48, 64, 95, 96, 97, 104, 112, 120, 127, 128}

// c08PickPfx draws one network: canonical and non-canonical spellings, IPv4 / IPv4-mapped / IPv6,
// mixed address and mask widths, and (rarely) malformed ones as the wire decoder can produce them.
func c08PickPfx(r *rng) c08Pfx {
	switch k := r.intn(100); {
	case k < 50: // IPv4, 4-byte address, 4-byte mask
		ip := append([]byte(nil), c08Bases4[r.intn(len(c08Bases4))]...)
		ones := c08Ones4[r.intn(len(c08Ones4))]
		if r.chance(45) { // canonical
			ip = net.IP(ip).Mask(net.CIDRMask(ones, 32))
		} else if r.chance(50) {
			ip[3] ^= byte(r.intn(256))
			ip[2] ^= byte(r.intn(4))
		}
		return c08Pfx{ip, ones, 32}
	case k < 65: // IPv4-mapped 16-byte address with a 16-byte mask
		ip := c08Mapped(c08Bases4[r.intn(len(c08Bases4))])
		ones := r.pick(0, 64, 80, 95, 96, 97, 104, 105, 112, 120, 127, 128, 96+c08Ones4[r.intn(len(c08Ones4))])
		if r.chance(40) {
			ip = net.IP(ip).Mask(net.CIDRMask(ones, 128))
		}
		return c08Pfx{ip, ones, 128}
	case k < 72: // mixed widths: 4-byte address with 16-byte mask, mapped address with 4-byte mask
		if r.chance(50) {
			return c08Pfx{append([]byte(nil), c08Bases4[r.intn(len(c08Bases4))]...), r.pick(0, 64, 96, 100, 104, 112, 120, 128), 128}
		}
		return c08Pfx{c08Mapped(c08Bases4[r.intn(len(c08Bases4))]), c08Ones4[r.intn(len(c08Ones4))], 32}
	case k < 94: // IPv6
		ip := c08V6(c08Bases6[r.intn(len(c08Bases6))])
		ones := c08Ones6[r.intn(len(c08Ones6))]
		if r.chance(50) {
			ip = net.IP(ip).Mask(net.CIDRMask(ones, 128))
		}
		return c08Pfx{ip, ones, 128}
	default: // malformed: odd address lengths, prefix length beyond the mask, nil mask, IPv6 address with 4-byte mask
		switch r.intn(5) {
		case 0:
			return c08Pfx{r.bytes(r.pick(0, 1, 3, 5, 15, 17)), r.intn(33), 32}
		case 1:
			return c08Pfx{append([]byte(nil), c08Bases4[r.intn(len(c08Bases4))]...), r.pick(33, 40, 128, 255), 32}
		case 2:
			return c08Pfx{c08V6(c08Bases6[r.intn(len(c08Bases6))]), r.pick(129, 200, 255), 128}
		case 3:
			return c08Pfx{append([]byte(nil), c08Bases4[r.intn(len(c08Bases4))]...), r.intn(33), 0}
		default:
			return c08Pfx{c08V6(c08Bases6[r.intn(len(c08Bases6))]), r.intn(33), 32}
		}
	}
}

func (p c08Pfx) String() string { return fmt.Sprintf("%s %d %d", hexTok(p.ip), p.ones, p.bits) }

// c08PickAddr draws a lookup address near the case's networks (so that most lookups match something).
func c08PickAddr(r *rng, pool []c08Pfx) []byte {
	if r.chance(8) {
		return r.bytes(r.pick(0, 3, 4, 5, 16, 16, 17))
	}
	p := pool[r.intn(len(pool))]
	ip := append([]byte(nil), p.ip...)
	if len(ip) == 4 || len(ip) == 16 {
		// keep a prefix of the network, randomise some of the rest
		n := len(ip)
		for i := n - 1; i >= 0 && i >= n-1-r.intn(3); i-- {
			if r.chance(70) {
				ip[i] = byte(r.intn(256))
			}
		}
		if r.chance(10) {
			ip[r.intn(n)] ^= 1 << uint(r.intn(8))
		}
	}
	if len(ip) == 4 && r.chance(25) {
		ip = c08Mapped(ip)
	} else if len(ip) == 16 && r.chance(25) {
		if v4 := net.IP(ip).To4(); v4 != nil {
			ip = []byte(v4)
		}
	}
	return ip
}

func c08PickPath(r *rng, self int) string {
	n := r.pick(0, 1, 1, 2, 3)
	if n == 0 {
		return "-"
	}
	xs := make([]string, n)
	for i := range xs {
		v := 2 + r.intn(6)
		if r.chance(6) {
			v = self
		}
		xs[i] = strconv.Itoa(v)
	}
	return strings.Join(xs, ".")
}

// c08Metrics / c08Seqs: small values that force ties plus the boundaries of uint16 / uint64 and of
// plausible buffer sizes.
var c08Metrics = []int{0, 1, 1, 2, 3, 5, 9, 255, 256, 257, 4095, 4096, 65534, 65535}
var c08Seqs = []uint64{1, 1, 2, 2, 3, 4, 255, 256, 65535, 65536, 1<<32 - 1, 1 << 32, 1<<63 - 1, 1 << 63, 1<<64 - 2, 1<<64 - 1}

// c08GenCase writes one history against a fresh table: `agents` bounds origins and next hops,
// `npool` the number of networks the history keeps returning to.
func c08GenCase(w *bufio.Writer, r *rng, nops, agents, npool int) {
	self := 1
	fmt.Fprintf(w, "reset %d\n", self)
	pool := make([]c08Pfx, npool)
	for i := range pool {
		pool[i] = c08PickPfx(r)
	}
	var last string // the previous add, re-sent now and then (duplicates, refreshes)
	for i := 0; i < nops; i++ {
		p := pool[r.intn(len(pool))]
		if r.chance(5) {
			p = c08PickPfx(r)
		}
		switch k := r.intn(100); {
		case k < 40:
			last = fmt.Sprintf("add %s %d %d %d %d %s", p, 1+r.intn(agents), 1+r.intn(agents), c08Metrics[r.intn(len(c08Metrics))], c08Seqs[r.intn(len(c08Seqs))], c08PickPath(r, self))
			fmt.Fprintln(w, last)
		case k < 44 && last != "":
			fmt.Fprintln(w, last) // exact duplicate: must be refused (same sequence, same metric)
		case k < 64:
			fmt.Fprintf(w, "%s %s\n", r.pickS("look", "look", "mlook"), hexTok(c08PickAddr(r, pool)))
		case k < 69:
			fmt.Fprintf(w, "lookall %s\n", hexTok(c08PickAddr(r, pool)))
		case k < 76:
			fmt.Fprintf(w, "rm %s %d\n", p, 1+r.intn(agents))
		case k < 81:
			fmt.Fprintf(w, "disc %d\n", 1+r.intn(agents))
		case k < 86:
			fmt.Fprintf(w, "age %d\n", r.pick(1, 1, 2, 3))
		case k < 91:
			fmt.Fprintf(w, "clean %d\n", r.pick(0, 1, 2, 3, 5))
		case k < 95:
			fmt.Fprintf(w, "get %s\n", p)
		case k < 98:
			fmt.Fprintf(w, "has %s %d\n", p, 1+r.intn(agents))
		case k < 99:
			fmt.Fprintln(w, "size")
		default:
			if r.chance(30) {
				fmt.Fprintln(w, "clear")
			} else {
				fmt.Fprintln(w, "size")
			}
		}
	}
}

// c08GenBig: one network announced by `n` origins with pairwise distinct metrics (more than 12
// entries under one key: Go's sort.Slice leaves insertion sort; distinct metrics keep the order
// determined), then lookups, refreshes and removals on the big slice; and a table with several
// hundred distinct prefixes.
func c08GenBig(w *bufio.Writer, r *rng, n int) {
	fmt.Fprintln(w, "reset 1")
	perm := make([]int, n)
	for i := range perm {
		perm[i] = i
	}
	for i := n - 1; i > 0; i-- {
		j := r.intn(i + 1)
		perm[i], perm[j] = perm[j], perm[i]
	}
	for i, m := range perm {
		fmt.Fprintf(w, "add 0a010203 8 32 %d %d %d 5 %d\n", 2+i%7, 100+i, 10+m, 100+i)
		if i%16 == 0 {
			fmt.Fprintln(w, "look 0a090909")
		}
	}
	fmt.Fprintln(w, "look 0a090909")
	fmt.Fprintln(w, "size")
	for i := 0; i < 10; i++ { // metric i < 10: stays distinct from the 10+m of the others
		o := 100 + r.intn(n)
		switch r.intn(3) {
		case 0: // refresh with a better metric (still distinct from all others: below 10)
			fmt.Fprintf(w, "add 0a000000 8 32 3 %d %d 6 %d\n", o, i, o)
		case 1:
			fmt.Fprintf(w, "rm 0a0000ff 8 32 %d\n", o)
		default:
			fmt.Fprintf(w, "disc %d\n", 2+r.intn(7))
		}
		fmt.Fprintln(w, "look 0a090909")
	}
	// many prefixes: 10.x.y.0/24 for a few hundred (x,y), nested under /16s and a /8
	fmt.Fprintln(w, "reset 1")
	for i := 0; i < n*3; i++ {
		x, y := r.intn(4), r.intn(256)
		fmt.Fprintf(w, "add 0a%02x%02x%02x %d 32 %d %d %d 1 -\n", x, y, r.intn(256), r.pick(24, 24, 24, 16, 8, 25, 32), 2+r.intn(5), 2+r.intn(5), r.intn(4))
		if i%8 == 0 {
			fmt.Fprintf(w, "look 0a%02x%02x%02x\n", r.intn(4), r.intn(256), r.intn(256))
		}
	}
	fmt.Fprintln(w, "size")
	fmt.Fprintln(w, "disc 3")
	fmt.Fprintln(w, "age 2")
	fmt.Fprintln(w, "clean 1")
}

// c08GenExhaustive: every history of length <= depth over a small alphabet engineered around one
// network in two spellings plus a nested one, each followed by the same three lookups.
func c08GenExhaustive(w *bufio.Writer, depth int) {
	var alpha []string
	for _, p := range []string{"0a000000 8 32", "0a010203 8 32", "0a010000 16 32", "00000000000000000000ffff0a000000 104 128"} {
		for _, o := range []int{2, 3} {
			for _, m := range []int{1, 2} {
				alpha = append(alpha, fmt.Sprintf("add %s %d %d %d 1 %d", p, o, o, m, o))
			}
			alpha = append(alpha, fmt.Sprintf("rm %s %d", p, o))
		}
	}
	alpha = append(alpha, "disc 2", "add 0a000000 8 32 3 2 1 2 3")
	var rec func(prefix []string, d int)
	rec = func(prefix []string, d int) {
		if len(prefix) > 0 {
			fmt.Fprintln(w, "reset 1")
			for _, l := range prefix {
				fmt.Fprintln(w, l)
			}
			fmt.Fprintln(w, "look 0a010909")
			fmt.Fprintln(w, "look 0a090909")
			fmt.Fprintln(w, "lookall 00000000000000000000ffff0a010909")
		}
		if d == 0 {
			return
		}
		for _, a := range alpha {
			rec(append(prefix, a), d-1)
		}
	}
	rec(nil, depth)
}

// c08Mix scrambles the seed (splitmix64 finaliser): newRng's streams for neighbouring seeds are one
// stream shifted by a single draw, which makes case-structured generators coalesce.
func c08Mix(seed int64) int64 {
	z := uint64(seed) + 0x9E3779B97F4A7C15
	z = (z ^ (z >> 30)) * 0xBF58476D1CE4E5B9
	z = (z ^ (z >> 27)) * 0x94D049BB133111EB
	return int64(z ^ (z >> 31))
}

// c08GenRace: cases around the concurrency stress op. Some state first, then goroutines doing the
// same first-time add / the same origin through several neighbours / different origins (one
// possible outcome: the case goes on with a withdraw and lookups), or conflicting add / remove /
// disconnect / cleanup (several admissible outcomes: the case ends there).
func c08GenRace(w *bufio.Writer, r *rng, kind int) {
	fmt.Fprintln(w, "reset 1")
	pfx := []string{"c0a83200 24 32", "0a000000 8 32", "0a010203 8 32", "20010db8000000000000000000000000 32 128"}
	p := pfx[r.intn(len(pfx))]
	for i := 0; i < r.intn(4); i++ {
		fmt.Fprintf(w, "add %s %d %d %d 1 %d\n", pfx[r.intn(len(pfx))], 2+r.intn(3), 6+r.intn(3), r.intn(5), 6+r.intn(3))
	}
	o := 2 + r.intn(3)
	switch kind % 5 {
	case 0: // the same advertisement, first time, n goroutines
		fmt.Fprintf(w, "race %d | add %s %d %d %d 1 %d\n", r.pick(2, 4, 8), p, 2+r.intn(3), o, 1+r.intn(5), o)
	case 1: // one origin through several neighbours with different hop counts
		fmt.Fprintf(w, "race 1 | add %s 2 %d 2 1 2.%d | add %s 3 %d 3 1 3.%d | add %s 4 %d 4 1 4.%d | add %s 5 %d 5 1 5.%d\n", p, o, o, p, o, o, p, o, o, p, o, o)
	case 2: // different origins, distinct metrics
		fmt.Fprintf(w, "race 2 | add %s 2 2 1 1 2 | add %s 3 3 2 1 3 | add %s 4 4 3 1 4\n", p, p, p)
	case 3: // conflicting: add vs withdraw vs disconnect
		fmt.Fprintf(w, "add %s 2 %d 3 1 %d\n", p, o, o)
		fmt.Fprintf(w, "race 2 | add %s 3 %d 1 2 %d | rm %s %d\n", p, o, o, p, o)
		return
	default:
		fmt.Fprintf(w, "add %s 2 %d 3 1 %d\nage 2\n", p, o, o)
		fmt.Fprintf(w, "race 1 | add %s 2 %d 3 2 %d | clean 1 | disc 2 | add %s 3 7 0 1 7\n", p, o, o, p)
		return
	}
	addr := "c0a83207"
	if strings.HasPrefix(p, "0a") {
		addr = "0a090909"
	} else if strings.HasPrefix(p, "2001") {
		addr = "20010db8000000000000000000000007"
	}
	fmt.Fprintf(w, "look %s\nhas %s %d\nrm %s %d\nlook %s\nhas %s %d\nsize\n", addr, p, o, p, o, addr, p, o)
}

// c08GenTies: one network announced by n > 12 origins with only a handful of metrics, so that the
// slice holds long runs of equal metric and Go's sort.Slice (pdqsort beyond 12 entries, not
// stable) orders them differently from the stable model: lookups must answer a member of the
// first run (the model prints `anyof` over it), dumps are compared with runs normalised.
// Followed by refreshes into an occupied metric, withdrawals, disconnects, cleanup, and the slice
// shrinking back below 13.
func c08GenTies(w *bufio.Writer, r *rng, n int) {
	fmt.Fprintln(w, "reset 1")
	p, addr := "0a010203 8 32", "0a090909"
	if r.chance(30) {
		p, addr = "20010db8000000000000000000000001 32 128", "20010db8000000000000000000000009"
	}
	for i := 0; i < n; i++ {
		fmt.Fprintf(w, "add %s %d %d %d 5 %d\n", p, 2+i%7, 100+i, r.pick(1, 2, 2, 3), 100+i)
		if i%6 == 5 {
			fmt.Fprintf(w, "look %s\n", addr)
		}
	}
	fmt.Fprintf(w, "look %s\nget %s\nsize\n", addr, p)
	for i := 0; i < 30; i++ {
		o := 100 + r.intn(n)
		switch r.intn(6) {
		case 0, 1: // refresh: newer sequence, a metric others hold too
			fmt.Fprintf(w, "add %s %d %d %d %d %d\n", p, 2+r.intn(7), o, r.pick(1, 1, 2, 3), 6+i, o)
		case 2, 3:
			fmt.Fprintf(w, "rm %s %d\n", p, o)
		case 4:
			fmt.Fprintf(w, "disc %d\n", 2+r.intn(7))
		default:
			fmt.Fprintf(w, "age 1\nadd %s 3 %d 1 %d %d\nclean 0\n", p, o, 100+i, o)
		}
		fmt.Fprintf(w, "look %s\nget %s\n", addr, p)
	}
}

// c08GenRaceCleanup: stale-route cleanup racing with the writers that reshuffle a slice holding a
// stale remote route in front of a local one (withdraw, peer disconnect, a re-sorting add): in every
// serial order only the stale remote route goes and the local one stays.
func c08GenRaceCleanup(w *bufio.Writer, r *rng, kind int) {
	p := r.pickS("c0a83200 24 32", "0a000000 8 32", "20010db8000000000000000000000000 32 128")
	fmt.Fprintln(w, "reset 1")
	n := 1 + r.intn(3)
	for i := 0; i < n; i++ {
		fmt.Fprintf(w, "add %s 2 %d %d 1 %d\n", p, 2+i, 1+i, 2+i) // remote, cheap: sorted first
	}
	fmt.Fprintf(w, "add %s 1 1 9 1 -\n", p) // local, expensive: sorted last
	for i := 0; i < 120; i++ { // a larger table: the cleanup scan takes longer
		fmt.Fprintf(w, "add ac%02x%02x00 24 32 3 %d 1 1 %d\n", i/256+16, i%256, 5+i%3, 5+i%3)
	}
	fmt.Fprintln(w, "age 3")
	switch kind % 3 {
	case 0:
		fmt.Fprintf(w, "race 1 | clean 1 | rm %s 2\n", p)
	case 1:
		fmt.Fprintf(w, "race 1 | clean 1 | disc 2\n")
	default:
		fmt.Fprintf(w, "race 1 | clean 1 | rm %s 2 | disc 2\n", p)
	}
	fmt.Fprintf(w, "has %s 1\nsize\n", p)
}

// c08Spellings of 10.20.0.0/16 and 2001:db8:5::/48: canonical, host bits set, 16-byte IPv4-mapped
// address with a 16-byte mask, 16-byte mapped address with a 4-byte mask, 4-byte address with a
// 16-byte mask.
var c08Spell4 = []string{"0a140000 16 32", "0a14fe07 16 32", "00000000000000000000ffff0a140000 112 128", "00000000000000000000ffff0a140900 16 32", "0a140000 112 128"}
var c08Spell6 = []string{"20010db8000500000000000000000000 48 128", "20010db80005ffff0000000000000001 48 128"}

// c08GenSpellings: for every (stored spelling, withdrawn spelling) of one network and every removal
// entry point: add, look it up through the Manager (hit, a miss, next hop), remove, and look it up
// again at once, twice - with nothing else touching that address family in between. `other` is a
// route of the other family that must keep answering.
func c08GenSpellings(w *bufio.Writer) {
	type fam struct {
		spell     []string
		hit, miss string
		other     string
		otherHit  string
	}
	fams := []fam{
		{c08Spell4, "0a140507", "0a150507", c08Spell6[0], "20010db8000500000000000000000009"},
		{c08Spell6, "20010db8000500000000000000000009", "20010db8000600000000000000000009", c08Spell4[0], "0a140507"},
	}
	removals := []string{"rm", "mwd", "disc", "mdisc", "clean", "mclean", "clear"}
	for _, f := range fams {
		for _, store := range f.spell {
			for _, wd := range f.spell {
				for _, rmv := range removals {
					fmt.Fprintln(w, "reset 1")
					fmt.Fprintf(w, "add %s 3 4 7 1 3.4\n", f.other)
					fmt.Fprintf(w, "add %s 2 5 3 1 2.5\n", store)
					fmt.Fprintf(w, "mlook %s\nmlook %s\nmnext %s\nmlook %s\n", f.hit, f.miss, f.hit, f.otherHit)
					switch rmv {
					case "rm":
						fmt.Fprintf(w, "rm %s 5\n", wd)
					case "mwd":
						fmt.Fprintf(w, "mwd 5 %s\n", wd)
					case "disc", "mdisc":
						fmt.Fprintf(w, "%s 2\n", rmv)
					case "clean", "mclean":
						fmt.Fprintf(w, "age 3\nadd %s 3 4 7 2 3.4\n%s 1\n", f.other, rmv) // the other family's route is refreshed and stays
					default:
						fmt.Fprintln(w, "clear")
					}
					fmt.Fprintf(w, "mlook %s\nmlook %s\nmnext %s\nmlook %s\nlook %s\nmlook %s\n", f.hit, f.hit, f.hit, f.miss, f.hit, f.otherHit)
					// and back: store again under the withdrawn spelling, the cached miss must not stick
					fmt.Fprintf(w, "add %s 2 5 3 2 2.5\nmlook %s\nmnext %s\n", wd, f.hit, f.hit)
				}
			}
		}
	}
}

func c08Gen(w *bufio.Writer, seed int64, tier string) {
	r := newRng(c08Mix(seed))
	c08GenSpellings(w)
	for c := 0; c < 4; c++ {
		c08GenRaceCleanup(w, r, c)
	}
	ties := 2
	if tier == "thorough" {
		ties = 25
	}
	for c := 0; c < ties; c++ {
		c08GenTies(w, r, 14+r.intn(40))
	}
	// concurrency cases: a few in quick, more in thorough and in the failing-input search (vlib's
	// search uses seeds >= 1000)
	races := 8
	if tier == "thorough" || seed >= 1000 {
		races = 60
	}
	for c := 0; c < races; c++ {
		c08GenRace(w, r, c)
	}
	cases, nops := 200, 40
	if tier == "thorough" {
		cases, nops = 5000, 50
	}
	for c := 0; c < cases; c++ {
		c08GenCase(w, r, nops, 5, 3+r.intn(5))
	}
	// low-probability streams: long histories over few networks, many origins, big slices / tables
	long, big := 2, 1
	if tier == "thorough" {
		long, big = 20, 6
	}
	for c := 0; c < long; c++ {
		c08GenCase(w, r, 600, 9, 4)
	}
	for c := 0; c < big; c++ {
		c08GenBig(w, r, 40+r.intn(c08TierPick(tier, 60, 260)))
	}
	if tier == "thorough" {
		c08GenExhaustive(w, 3)
	} else {
		c08GenExhaustive(w, 2)
	}
}

func c08TierPick(tier string, quick, thorough int) int {
	if tier == "thorough" {
		return thorough
	}
	return quick
}
