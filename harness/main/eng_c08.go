//go:build verif && (all || c08 || c10)

package main

import (
	"bufio"
	"encoding/binary"
	"encoding/hex"
	"fmt"
	"net"
	"sort"
	"strconv"
	"strings"
	"time"

	"github.com/postalsys/muti-metroo/internal/identity"
	"github.com/postalsys/muti-metroo/internal/routing"
)

// Engine c08: the real routing.Table driven op by op (see lean/MM/Engine/C08.lean for the protocol).

func init() {
	register("c08", &Engine{Gen: c08Gen, Run: c08Run})
}

var c08Tab *routing.Table

// c08ID maps the small integers of the op script to agent IDs (and back).
func c08ID(n uint64) identity.AgentID {
	var id identity.AgentID
	id[0] = 0xA7
	binary.BigEndian.PutUint64(id[8:], n)
	return id
}

func c08Num(id identity.AgentID) uint64 { return binary.BigEndian.Uint64(id[8:]) }

func c08U(s string) uint64 {
	v, err := strconv.ParseUint(s, 10, 64)
	if err != nil {
		panic("bad number " + s)
	}
	return v
}

func c08Path(s string) []identity.AgentID {
	if s == "-" {
		return nil
	}
	var p []identity.AgentID
	for _, x := range strings.Split(s, ".") {
		p = append(p, c08ID(c08U(x)))
	}
	return p
}

func c08ShowPath(p []identity.AgentID) string {
	if len(p) == 0 {
		return "-"
	}
	xs := make([]string, len(p))
	for i, id := range p {
		xs[i] = strconv.FormatUint(c08Num(id), 10)
	}
	return strings.Join(xs, ".")
}

func c08Net(ip, ones, bits string) *net.IPNet {
	return &net.IPNet{IP: net.IP(unhexTok(ip)), Mask: net.CIDRMask(int(c08U(ones)), int(c08U(bits)))}
}

// c08Hours is the age of a route in the harness's time unit (1 h); real elapsed time is far below 30 min.
func c08Hours(last time.Time) int64 {
	return int64((time.Since(last) + 30*time.Minute) / time.Hour)
}

func c08Entry(n *net.IPNet, nh, or identity.AgentID, metric uint16, seq uint64, path []identity.AgentID, last time.Time) string {
	ones, bits := n.Mask.Size()
	return fmt.Sprintf("E%s/%d/%d,%d,%d,%d,%d,%s,%d", hexTok(n.IP), ones, bits, c08Num(nh), c08Num(or), metric, seq, c08ShowPath(path), c08Hours(last))
}

func c08RouteStr(r *routing.Route) string {
	return c08Entry(r.Network, r.NextHop, r.OriginAgent, r.Metric, r.Sequence, r.Path, r.LastUpdate)
}

// c08Label renders a map key of the table (an IPNet.String()) as family:address:ones.
func c08Label(key string) string {
	ip, n, err := net.ParseCIDR(key)
	if err != nil {
		if key == "<nil>" {
			return "nil"
		}
		return "raw" + hex.EncodeToString([]byte(key))
	}
	ones, _ := n.Mask.Size()
	if ip4 := ip.To4(); ip4 != nil && !strings.Contains(key, ":") {
		return fmt.Sprintf("32:%s:%d", hex.EncodeToString(ip4), ones)
	}
	return fmt.Sprintf("128:%s:%d", hex.EncodeToString(ip.To16()), ones)
}

func c08JoinGroups(gs [][2]string) string {
	if len(gs) == 0 {
		return "empty"
	}
	sort.Slice(gs, func(i, j int) bool { return gs[i][0] < gs[j][0] })
	parts := make([]string, len(gs))
	for i, g := range gs {
		parts[i] = g[1]
	}
	return strings.Join(parts, " ")
}

func c08Dump(t *routing.Table) string {
	var gs [][2]string
	for k, rs := range routing.C08Groups(t) {
		lab := c08Label(k)
		toks := []string{"G" + lab}
		for _, r := range rs {
			toks = append(toks, c08RouteStr(r))
		}
		gs = append(gs, [2]string{lab, strings.Join(toks, " ")})
	}
	return c08JoinGroups(gs)
}

func c08Opt(r *routing.Route) string {
	if r == nil {
		return "none"
	}
	return "route " + c08RouteStr(r)
}

func c08TableOp(t *routing.Table, f []string) string {
	switch f[0] {
	case "add":
		ok := t.AddRoute(&routing.Route{Network: c08Net(f[1], f[2], f[3]), NextHop: c08ID(c08U(f[4])), OriginAgent: c08ID(c08U(f[5])),
			Metric: uint16(c08U(f[6])), Sequence: c08U(f[7]), Path: c08Path(f[8])})
		return fmt.Sprintf("%v ; %s", ok, c08Dump(t))
	case "rm":
		ok := t.RemoveRoute(c08Net(f[1], f[2], f[3]), c08ID(c08U(f[4])))
		return fmt.Sprintf("%v ; %s", ok, c08Dump(t))
	case "disc":
		n := t.RemoveRoutesFromPeer(c08ID(c08U(f[1])))
		return fmt.Sprintf("%d ; %s", n, c08Dump(t))
	case "age":
		routing.C08Age(t, time.Duration(c08U(f[1]))*time.Hour)
		return "ok ; " + c08Dump(t)
	case "clean":
		n := t.CleanupStaleRoutes(time.Duration(c08U(f[1]))*time.Hour + 30*time.Minute)
		return fmt.Sprintf("%d ; %s", n, c08Dump(t))
	case "look":
		return c08Opt(t.Lookup(net.IP(unhexTok(f[1]))))
	case "get":
		return c08Opt(t.GetRoute(c08Net(f[1], f[2], f[3])))
	}
	return "bad-op"
}

func c08Run(line string) string {
	f := fields(line)
	if f[0] == "reset" {
		c08Tab = routing.NewTable(c08ID(c08U(f[1])))
		return "ok"
	}
	if c08Tab == nil {
		c08Tab = routing.NewTable(c08ID(1))
	}
	return c08TableOp(c08Tab, f)
}

// ---------------------------------------------------------------- generator

type c08Pfx struct {
	ip   []byte
	ones int
	bits int
}

func c08V4(a, b, c, d byte) []byte { return []byte{a, b, c, d} }
func c08Mapped(v4 []byte) []byte {
	return append([]byte{0, 0, 0, 0, 0, 0, 0, 0, 0, 0, 0xff, 0xff}, v4...)
}
func c08V6(s string) []byte { return []byte(net.ParseIP(s).To16()) }

// c08Bases: addresses engineered to nest and collide.
var c08Bases4 = [][]byte{
	c08V4(10, 0, 0, 0), c08V4(10, 1, 0, 0), c08V4(10, 1, 2, 0), c08V4(10, 1, 2, 3), c08V4(10, 128, 0, 0),
	c08V4(10, 1, 3, 0), c08V4(11, 0, 0, 0), c08V4(192, 168, 1, 0), c08V4(0, 0, 0, 0), c08V4(255, 255, 255, 255), c08V4(128, 0, 0, 0),
}
var c08Bases6 = []string{"2001:db8::", "2001:db8:1::", "2001:db8:1:2::3", "::", "::1", "fe80::1", "::fffe:10.1.2.3", "8000::", "ffff:ffff:ffff:ffff:ffff:ffff:ffff:ffff"}
var c08Ones4 = []int{0, 1, 7, 8, 9, 15, 16, 17, 23, 24, 25, 30, 31, 32}
var c08Ones6 = []int{0, 1, 16, 32, 33, 48, 64, 95, 96, 97, 104, 112, 120, 127, 128}

// c08PickPfx draws one network: canonical and non-canonical spellings, IPv4 / IPv4-mapped / IPv6,
// mixed address and mask widths, and (rarely) malformed ones as the wire decoder can produce them.
func c08PickPfx(r *rng) c08Pfx {
	switch k := r.intn(100); {
	case k < 50: // IPv4, 4-byte address, 4-byte mask
		ip := append([]byte(nil), c08Bases4[r.intn(len(c08Bases4))]...)
		ones := c08Ones4[r.intn(len(c08Ones4))]
		if r.chance(45) { // canonical
			ip = net.IP(ip).Mask(net.CIDRMask(ones, 32))
		} else if r.chance(50) {
			ip[3] ^= byte(r.intn(256))
			ip[2] ^= byte(r.intn(4))
		}
		return c08Pfx{ip, ones, 32}
	case k < 65: // IPv4-mapped 16-byte address with a 16-byte mask
		ip := c08Mapped(c08Bases4[r.intn(len(c08Bases4))])
		ones := r.pick(0, 64, 80, 95, 96, 97, 104, 105, 112, 120, 127, 128, 96+c08Ones4[r.intn(len(c08Ones4))])
		if r.chance(40) {
			ip = net.IP(ip).Mask(net.CIDRMask(ones, 128))
		}
		return c08Pfx{ip, ones, 128}
	case k < 72: // mixed widths: 4-byte address with 16-byte mask, mapped address with 4-byte mask
		if r.chance(50) {
			return c08Pfx{append([]byte(nil), c08Bases4[r.intn(len(c08Bases4))]...), r.pick(0, 64, 96, 100, 104, 112, 120, 128), 128}
		}
		return c08Pfx{c08Mapped(c08Bases4[r.intn(len(c08Bases4))]), c08Ones4[r.intn(len(c08Ones4))], 32}
	case k < 94: // IPv6
		ip := c08V6(c08Bases6[r.intn(len(c08Bases6))])
		ones := c08Ones6[r.intn(len(c08Ones6))]
		if r.chance(50) {
			ip = net.IP(ip).Mask(net.CIDRMask(ones, 128))
		}
		return c08Pfx{ip, ones, 128}
	default: // malformed: odd address lengths, prefix length beyond the mask, nil mask, IPv6 address with 4-byte mask
		switch r.intn(5) {
		case 0:
			return c08Pfx{r.bytes(r.pick(0, 1, 3, 5, 15, 17)), r.intn(33), 32}
		case 1:
			return c08Pfx{append([]byte(nil), c08Bases4[r.intn(len(c08Bases4))]...), r.pick(33, 40, 128, 255), 32}
		case 2:
			return c08Pfx{c08V6(c08Bases6[r.intn(len(c08Bases6))]), r.pick(129, 200, 255), 128}
		case 3:
			return c08Pfx{append([]byte(nil), c08Bases4[r.intn(len(c08Bases4))]...), r.intn(33), 0}
		default:
			return c08Pfx{c08V6(c08Bases6[r.intn(len(c08Bases6))]), r.intn(33), 32}
		}
	}
}

func (p c08Pfx) String() string { return fmt.Sprintf("%s %d %d", hexTok(p.ip), p.ones, p.bits) }

// c08PickAddr draws a lookup address near the case's networks (so that most lookups match something).
func c08PickAddr(r *rng, pool []c08Pfx) []byte {
	if r.chance(8) {
		return r.bytes(r.pick(0, 3, 4, 5, 16, 16, 17))
	}
	p := pool[r.intn(len(pool))]
	ip := append([]byte(nil), p.ip...)
	if len(ip) == 4 || len(ip) == 16 {
		// keep a prefix of the network, randomise some of the rest
		n := len(ip)
		for i := n - 1; i >= 0 && i >= n-1-r.intn(3); i-- {
			if r.chance(70) {
				ip[i] = byte(r.intn(256))
			}
		}
		if r.chance(10) {
			ip[r.intn(n)] ^= 1 << uint(r.intn(8))
		}
	}
	if len(ip) == 4 && r.chance(25) {
		ip = c08Mapped(ip)
	} else if len(ip) == 16 && r.chance(25) {
		if v4 := net.IP(ip).To4(); v4 != nil {
			ip = []byte(v4)
		}
	}
	return ip
}

func c08PickPath(r *rng, self int) string {
	n := r.pick(0, 1, 1, 2, 3)
	if n == 0 {
		return "-"
	}
	xs := make([]string, n)
	for i := range xs {
		v := 2 + r.intn(6)
		if r.chance(6) {
			v = self
		}
		xs[i] = strconv.Itoa(v)
	}
	return strings.Join(xs, ".")
}

// c08GenCase writes one history against a fresh table.
func c08GenCase(w *bufio.Writer, r *rng, nops int) {
	self := 1
	fmt.Fprintf(w, "reset %d\n", self)
	pool := make([]c08Pfx, 3+r.intn(5))
	for i := range pool {
		pool[i] = c08PickPfx(r)
	}
	metrics := []int{0, 1, 1, 2, 3, 5, 9, 65535}
	seqs := []uint64{1, 1, 2, 2, 3, 4, 1 << 63, 1<<64 - 1}
	for i := 0; i < nops; i++ {
		p := pool[r.intn(len(pool))]
		if r.chance(5) {
			p = c08PickPfx(r)
		}
		switch k := r.intn(100); {
		case k < 45:
			fmt.Fprintf(w, "add %s %d %d %d %d %s\n", p, 1+r.intn(5), 1+r.intn(5), metrics[r.intn(len(metrics))], seqs[r.intn(len(seqs))], c08PickPath(r, self))
		case k < 70:
			fmt.Fprintf(w, "look %s\n", hexTok(c08PickAddr(r, pool)))
		case k < 78:
			fmt.Fprintf(w, "rm %s %d\n", p, 1+r.intn(5))
		case k < 83:
			fmt.Fprintf(w, "disc %d\n", 1+r.intn(5))
		case k < 89:
			fmt.Fprintf(w, "age %d\n", r.pick(1, 1, 2, 3))
		case k < 94:
			fmt.Fprintf(w, "clean %d\n", r.pick(0, 1, 2, 3, 5))
		default:
			fmt.Fprintf(w, "get %s\n", p)
		}
	}
}

func c08Gen(w *bufio.Writer, seed int64, tier string) {
	r := newRng(seed)
	cases, nops := 220, 40
	if tier == "thorough" {
		cases, nops = 6000, 50
	}
	for c := 0; c < cases; c++ {
		c08GenCase(w, r, nops)
	}
}
