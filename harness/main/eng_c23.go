//go:build verif && (all || c23)

package main

import (
	"bufio"
	"fmt"
	"net"
	"strconv"
	"strings"

	"github.com/postalsys/muti-metroo/internal/socks5"
)

// Engine c23: internal/socks5 Handler.Handle on one client byte stream (see MM/Engine/C23.lean
// for the op grammar).
//
//	h <auths> <dial> <udp><icmp> <input>  ->  r <msg>,... a <none|dial:<hex>|udp:..|icmp:..> | panic ... | hang
func init() {
	register("c23", &Engine{Run: c23Run, Gen: c23Gen})
}

func c23ParseAuths(s string) []socks5.Authenticator {
	if s == "-" {
		return nil
	}
	var out []socks5.Authenticator
	for _, it := range strings.Split(s, ",") {
		switch {
		case it == "N":
			out = append(out, &socks5.NoAuthAuthenticator{})
		case strings.HasPrefix(it, "S"):
			creds := socks5.StaticCredentials{}
			if body := it[1:]; body != "" {
				for _, c := range strings.Split(body, "/") {
					np := strings.Split(c, ".")
					creds[string(unhexTok(np[0]))] = string(unhexTok(np[1]))
				}
			}
			out = append(out, socks5.NewUserPassAuthenticator(creds))
		default:
			panic("bad auth token " + it)
		}
	}
	return out
}

func c23Run(line string) string {
	f := fields(line)
	switch {
	case f[0] == "j" && len(f) == 3: // net.JoinHostPort then net.SplitHostPort (what Agent.DialContext does)
		port, _ := strconv.Atoi(f[2])
		s := net.JoinHostPort(string(unhexTok(f[1])), strconv.Itoa(port))
		h, p, err := net.SplitHostPort(s)
		if err != nil {
			return "s " + hexTok([]byte(s)) + " err"
		}
		return "s " + hexTok([]byte(s)) + " ok " + hexTok([]byte(h)) + " " + hexTok([]byte(p))
	case f[0] == "ip" && len(f) == 2: // net.IP.String
		return "text " + hexTok([]byte(net.IP(unhexTok(f[1])).String()))
	}
	if (len(f) < 5 || len(f) > 7) || f[0] != "h" {
		return "bad-op"
	}
	frag := 0
	w := &c23World{dial: f[2], udp: f[3][0], icmp: f[3][1]}
	for _, x := range f[5:] {
		switch {
		case x[0] == 'f':
			frag, _ = strconv.Atoi(x[1:])
		case strings.HasPrefix(x, "relay:"): // relay:<client bytes after the reply>:<bytes the destination sends>
			p := strings.Split(x, ":")
			w.relay, w.clientData, w.targetData = true, unhexTok(p[1]), unhexTok(p[2])
		}
	}
	h := socks5.NewHandler(c23ParseAuths(f[1]), w)
	return c23Drive(h, w, unhexTok(f[4]), frag)
}

// ---- generator

type c23Dest struct {
	atyp byte
	addr []byte // wire form after ATYP
}

func c23Dests(r *rng) []c23Dest {
	v6 := func(b ...byte) []byte { x := make([]byte, 16); copy(x, b); return x }
	ds := []c23Dest{
		{1, []byte{127, 0, 0, 1}}, {1, []byte{0, 0, 0, 0}}, {1, []byte{255, 255, 255, 255}}, {1, []byte{10, 200, 3, 99}},
		{4, v6()}, // ::
		{4, append(make([]byte, 15), 1)},                            // ::1
		{4, v6(0x20, 0x01, 0x0d, 0xb8)},                             // 2001:db8::
		{4, []byte{0x20, 1, 0, 0, 0, 0, 0, 1, 0, 0, 0, 0, 0, 0, 0, 1}}, // 2001:0:0:1::1 (two runs, second longer)
		{4, []byte{0, 1, 0, 0, 0, 0, 0, 1, 0, 0, 0, 0, 0, 1, 0, 1}},    // equal runs: leftmost wins
		{4, []byte{0, 1, 0, 0, 0, 1, 0, 1, 0, 1, 0, 1, 0, 1, 0, 1}},    // single zero group: not compressed
		{4, []byte{0xfe, 0x80, 0, 0, 0, 0, 0, 0, 0xab, 0xcd, 0x0e, 0xf0, 0x00, 0x12, 0xff, 0xff}},
		{4, []byte{0, 0, 0, 0, 0, 0, 0, 0, 0, 0, 0xff, 0xff, 1, 2, 3, 4}}, // v4-mapped
		{4, []byte{0, 0, 0, 0, 0, 0, 0, 0, 0, 0, 0xff, 0xff, 0, 0, 0, 0}}, // v4-mapped unspecified
		{4, []byte{0, 0, 0, 0, 0, 0, 0, 0, 0, 0, 0xff, 0xfe, 1, 2, 3, 4}}, // nearly v4-mapped
		{4, []byte{1, 2, 3, 4, 5, 6, 7, 8, 9, 10, 11, 12, 13, 14, 15, 0}},
		{4, []byte{1, 2, 3, 4, 5, 6, 7, 8, 9, 10, 11, 12, 0, 0, 0, 0}}, // trailing run
	}
	dom := func(s string) c23Dest { return c23Dest{3, append([]byte{byte(len(s))}, s...)} }
	ds = append(ds, dom("a"), dom("example.com"), dom("host:with:colons"), dom("[::1]"), dom("1.2.3.4"), dom("::1"),
		dom("ex ample\x00\xff.\n"), dom(strings.Repeat("x", 255)), dom("%zone"), c23Dest{3, []byte{0}})
	ds = append(ds, c23Dest{4, r.bytes(16)}, c23Dest{1, r.bytes(4)})
	// random v6 with random zero groups
	for k := 0; k < 4; k++ {
		b := r.bytes(16)
		for g := 0; g < 8; g++ {
			if r.chance(55) {
				b[2*g], b[2*g+1] = 0, 0
			} else if r.chance(30) {
				b[2*g] = 0
			}
		}
		ds = append(ds, c23Dest{4, b})
	}
	return ds
}

func c23Request(cmd, rsv byte, d c23Dest, port uint16) []byte {
	b := []byte{5, cmd, rsv, d.atyp}
	b = append(b, d.addr...)
	return append(b, byte(port>>8), byte(port))
}

func c23Gen(w *bufio.Writer, seed int64, tier string) {
	r := newRng(seed)
	thorough := tier == "thorough"
	dials := []string{"ok.7f000001.8080", "ok.-.0", "ok.00000000000000000000000000000001.65535", "ok.00000000000000000000ffff0a000001.443",
		"ok.20010db8000000000000000000000001.1", "f.dns", "f.timeout", "f.dialop", "f.other"}
	backends := []string{"xx", "xx", "oo", "kf", "ff", "kx", "xf", "of"}
	greetings := [][]byte{{5, 1, 0}, {5, 2, 2, 0}, {5, 3, 1, 2, 0}, {5, 1, 2}, {5, 0}, {5, 2, 0, 0}}
	big := append([]byte{5, 255}, r.bytes(255)...) // 255 methods, "no auth" somewhere inside
	big[2+r.intn(255)] = 0
	big2 := append([]byte{5, 255}, make([]byte, 255)...)
	for i := range big2[2:] {
		big2[2+i] = byte(1 + r.intn(255)) // 255 methods, none acceptable
	}
	emit := func(auths, dial, be string, in []byte) {
		if r.chance(25) { // the same bytes arriving 1..3 at a time
			fmt.Fprintf(w, "h %s %s %s %s f%d\n", auths, dial, be, hexTok(in), 1+r.intn(3))
			return
		}
		fmt.Fprintf(w, "h %s %s %s %s\n", auths, dial, be, hexTok(in))
	}
	ports := []uint16{0, 1, 80, 443, 8080, 65535, 256, 255}
	cmds := []byte{1, 1, 1, 2, 3, 4, 0, 5, 0xff}
	dests := c23Dests(r)
	// 1. every prefix of valid requests: all address types x all commands
	for di, d := range dests {
		for ci, cmd := range cmds {
			if !thorough && (di+ci)%3 != int(seed%3+3)%3 && !(ci == 0 && di < 24) {
				continue
			}
			g := greetings[r.intn(3)]
			if r.chance(8) {
				g = big
			} else if r.chance(3) {
				g = big2
			}
			rsv := byte(0)
			if r.chance(20) {
				rsv = byte(r.intn(256))
			}
			msg := append(append([]byte{}, g...), c23Request(cmd, rsv, d, ports[r.intn(len(ports))])...)
			dial := dials[r.intn(len(dials))]
			be := backends[r.intn(len(backends))]
			auths := r.pickS("N", "N", "-", "N,S", "S6162.6364,N")
			step := 1
			if len(msg) > 40 && !thorough {
				step = 1 + len(msg)/24
			}
			for k := 0; k <= len(msg); k += step {
				if k+step > len(msg) {
					k = len(msg)
				}
				emit(auths, dial, be, msg[:k])
				if k == len(msg) {
					break
				}
			}
			if r.chance(25) { // trailing client data after the request
				emit(auths, dial, be, append(append([]byte{}, msg...), r.bytes(1+r.intn(5))...))
			}
		}
	}
	// 2. unsupported address types and versions
	for i := 0; i < 40; i++ {
		g := greetings[r.intn(len(greetings))]
		atyp := byte(r.pick(0, 2, 5, 6, 0x7f, 0xff, r.intn(256)))
		ver := byte(5)
		if r.chance(15) {
			ver = byte(r.pick(4, 0, 6, 1))
		}
		msg := append(append([]byte{}, g...), ver, cmds[r.intn(len(cmds))], 0, atyp)
		msg = append(msg, r.bytes(r.intn(8))...)
		emit(r.pickS("N", "-", "N,S6162.6364"), dials[r.intn(len(dials))], backends[r.intn(len(backends))], msg)
	}
	// 3. username/password sub-negotiation: every prefix
	creds := "S616c696365.70617373/626f62.-"
	upMsgs := [][]byte{
		{1, 5, 'a', 'l', 'i', 'c', 'e', 4, 'p', 'a', 's', 's'},
		{1, 5, 'a', 'l', 'i', 'c', 'e', 4, 'p', 'a', 's', 'x'},
		{1, 3, 'b', 'o', 'b', 0},
		{1, 3, 'e', 'v', 'e', 1, 'x'},
		{1, 0, 0},
		{2, 5, 'a', 'l', 'i', 'c', 'e', 4, 'p', 'a', 's', 's'},
		{1, 5, 'a', 'l', 'i', 'c', 'e', 0},
	}
	longU, longP := r.bytes(255), r.bytes(255)
	longCreds := "S" + hexTok(longU) + "." + hexTok(longP)
	longMsg := append(append(append([]byte{1, 255}, longU...), 255), longP...)
	longBad := append([]byte{}, longMsg...)
	longBad[len(longBad)-1] ^= 1
	for _, lm := range [][]byte{longMsg, longBad} {
		msg := append(append([]byte{5, 1, 2}, lm...), c23Request(1, 0, dests[0], 65535)...)
		emit(longCreds, "ok.7f000001.8080", "xx", msg)
		for k := 0; k < 8; k++ {
			emit(longCreds, "ok.7f000001.8080", "xx", msg[:r.intn(len(msg))])
		}
	}
	for _, up := range upMsgs {
		for _, au := range []string{creds, creds + ",N", "N," + creds, "S"} {
			g := []byte{5, 2, 0, 2}
			if r.chance(30) {
				g = []byte{5, 1, 2}
			}
			d := dests[r.intn(len(dests))]
			msg := append(append(append([]byte{}, g...), up...), c23Request(1, 0, d, 443)...)
			dial := dials[r.intn(len(dials))]
			step := 1
			if !thorough {
				step = 2
			}
			for k := 0; k <= len(msg); k += step {
				emit(au, dial, "xx", msg[:k])
			}
			emit(au, dial, "xx", msg)
		}
	}
	// 3b. relay phase: after the success reply the client's bytes reach the destination and the
	// destination's bytes reach the client, unchanged, until both sides are done
	nr := 40
	if thorough {
		nr = 1500
	}
	for i := 0; i < nr; i++ {
		d := dests[r.intn(len(dests))]
		msg := append(append([]byte{}, greetings[r.intn(3)]...), c23Request(1, 0, d, ports[r.intn(len(ports))])...)
		cl := r.bytes(r.pick(0, 1, 2, 17, 300, 4096, 70000))
		tg := r.bytes(r.pick(0, 1, 5, 64, 1000, 40000, 100000))
		dial := dials[r.intn(len(dials))]
		fr := ""
		if r.chance(20) {
			fr = fmt.Sprintf(" f%d", 1+r.intn(3))
			if len(cl) > 5000 {
				cl = cl[:5000]
			}
		}
		fmt.Fprintf(w, "h N %s xx %s relay:%s:%s%s\n", dial, hexTok(msg), hexTok(cl), hexTok(tg), fr)
	}
	// 3c. the text of addresses and the dial string, straight against net.IP.String and
	// net.JoinHostPort/net.SplitHostPort: every pattern of zero groups, bracket/colon-laden hosts
	for pat := 0; pat < 256; pat++ {
		if !thorough && pat%4 != int(seed)%4 && pat > 40 {
			continue
		}
		b := make([]byte, 16)
		for g := 0; g < 8; g++ {
			if pat&(1<<g) == 0 {
				v := uint16(r.pick(1, 0xf, 0x10, 0xff, 0x100, 0xfff, 0x1000, 0xffff, 1+r.intn(65535)))
				b[2*g], b[2*g+1] = byte(v>>8), byte(v)
			}
		}
		fmt.Fprintf(w, "ip %s\n", hexTok(b))
	}
	for i := 0; i < 30; i++ {
		fmt.Fprintf(w, "ip %s\n", hexTok(r.bytes(4)))
		m := append([]byte{0, 0, 0, 0, 0, 0, 0, 0, 0, 0, 0xff, 0xff}, r.bytes(4)...)
		if r.chance(30) {
			m[r.intn(12)] ^= byte(1 << r.intn(8))
		}
		fmt.Fprintf(w, "ip %s\n", hexTok(m))
	}
	alphabet := []byte("[]:a1.%-")
	hostsJ := []string{"a", "example.com", "[x]", "[1.2.3.4]", "[::1]", "::1", "a]:1[b", "[a", "a]", "[]", "[", "]", ":", "[:]", "x:y", "[x]y", "[x]:1", "1.2.3.4", "2001:db8::1", ""}
	for _, hst := range hostsJ {
		fmt.Fprintf(w, "j %s %d\n", hexTok([]byte(hst)), ports[r.intn(len(ports))])
	}
	nj := 150
	if thorough {
		nj = 5000
	}
	for i := 0; i < nj; i++ {
		n := 1 + r.intn(6)
		hb := make([]byte, n)
		for k := range hb {
			hb[k] = alphabet[r.intn(len(alphabet))]
		}
		fmt.Fprintf(w, "j %s %d\n", hexTok(hb), ports[r.intn(len(ports))])
	}
	// 4. random and mutated streams
	n := 300
	if thorough {
		n = 20000
	}
	for i := 0; i < n; i++ {
		var msg []byte
		switch r.intn(4) {
		case 0:
			msg = r.bytes(r.intn(300))
		case 1:
			msg = append([]byte{5}, r.bytes(r.intn(300))...)
		default:
			d := dests[r.intn(len(dests))]
			msg = append(append([]byte{}, greetings[r.intn(len(greetings))]...), c23Request(cmds[r.intn(len(cmds))], 0, d, uint16(r.intn(65536)))...)
			for m := r.intn(3); m >= 0 && len(msg) > 0; m-- {
				p := r.intn(len(msg))
				switch r.intn(3) {
				case 0:
					msg[p] ^= byte(1 << r.intn(8))
				case 1:
					msg = append(msg[:p], msg[p+1:]...)
				default:
					msg = append(msg[:p], append([]byte{byte(r.intn(256))}, msg[p:]...)...)
				}
			}
		}
		emit(r.pickS("N", "N", "-", "N,S6162.6364", "S6162.6364,N", "S6162.6364"), dials[r.intn(len(dials))], backends[r.intn(len(backends))], msg)
	}
}
