//go:build verif && (all || c24)

package main

import (
	"bufio"
	"context"
	"errors"
	"fmt"
	"net"
	"net/http"
	"net/http/httptest"
	"net/url"
	"os"
	"sort"
	"strconv"
	"strings"
	"sync"
	"sync/atomic"
	"time"

	"golang.org/x/crypto/bcrypt"

	"github.com/postalsys/muti-metroo/internal/agent"
	"github.com/postalsys/muti-metroo/internal/config"
	"github.com/postalsys/muti-metroo/internal/filetransfer"
	"github.com/postalsys/muti-metroo/internal/health"
	"github.com/postalsys/muti-metroo/internal/identity"
	"github.com/postalsys/muti-metroo/internal/protocol"
	"github.com/postalsys/muti-metroo/internal/shell"
)

// Engine c24: the real health.Server handler (NewServer(...).Handler()) under httptest with
// recording providers.
//
//	req <cfgtoken hex|-> <flags rdp e.g. 101> <method> <rawpath hex> <authorization hex|-> <hasquery 0|1> <querytoken hex|->
//	  -> pat=<Request.Pattern | - (mux never reached) | * (a 301)> st=<401|301|404|h> calls=<0|+>
//
// st=404 means status 404 with net/http's NotFound body; calls counts provider-method invocations
// during the request (any provider: stats, remote, route trigger, sleep, route/forward/display-name
// management, file browse, shell, icmp).
type c24Rec struct{ n *int64 }

var c24ErrRec = errors.New("verif recording provider")

func (r c24Rec) hit() { atomic.AddInt64(r.n, 1) }

func (r c24Rec) IsRunning() bool     { r.hit(); return true }
func (r c24Rec) Stats() health.Stats { r.hit(); return health.Stats{} }
func (r c24Rec) ID() identity.AgentID {
	r.hit()
	return identity.AgentID{}
}
func (r c24Rec) DisplayName() string { r.hit(); return "verif" }
func (r c24Rec) SendControlRequest(ctx context.Context, t identity.AgentID, ct uint8) (*protocol.ControlResponse, error) {
	r.hit()
	return nil, c24ErrRec
}
func (r c24Rec) SendControlRequestWithData(ctx context.Context, t identity.AgentID, ct uint8, d []byte) (*protocol.ControlResponse, error) {
	r.hit()
	return nil, c24ErrRec
}
func (r c24Rec) GetPeerIDs() []identity.AgentID                 { r.hit(); return nil }
func (r c24Rec) GetKnownAgentIDs() []identity.AgentID           { r.hit(); return nil }
func (r c24Rec) GetPeerDetails() []health.PeerDetails           { r.hit(); return nil }
func (r c24Rec) GetRouteDetails() []health.RouteDetails         { r.hit(); return nil }
func (r c24Rec) GetDomainRouteDetails() []health.DomainRouteDetails { r.hit(); return nil }
func (r c24Rec) GetAllDisplayNames() map[identity.AgentID]string { r.hit(); return nil }
func (r c24Rec) GetAllNodeInfo() map[identity.AgentID]*protocol.NodeInfo {
	r.hit()
	return nil
}
func (r c24Rec) GetLocalNodeInfo() *protocol.NodeInfo       { r.hit(); return nil }
func (r c24Rec) GetSOCKS5Info() health.SOCKS5Info           { r.hit(); return health.SOCKS5Info{} }
func (r c24Rec) GetUDPInfo() health.UDPInfo                 { r.hit(); return health.UDPInfo{} }
func (r c24Rec) GetPortForwardInfo() health.PortForwardInfo { r.hit(); return health.PortForwardInfo{} }
func (r c24Rec) GetPortForwardRouteDetails() []health.PortForwardRouteDetails {
	r.hit()
	return nil
}
func (r c24Rec) UploadFile(ctx context.Context, t identity.AgentID, l, rp string, o health.TransferOptions, p health.FileTransferProgress) error {
	r.hit()
	return c24ErrRec
}
func (r c24Rec) DownloadFile(ctx context.Context, t identity.AgentID, rp, l string, o health.TransferOptions, p health.FileTransferProgress) error {
	r.hit()
	return c24ErrRec
}
func (r c24Rec) DownloadFileStream(ctx context.Context, t identity.AgentID, rp string, o health.TransferOptions) (*health.DownloadStreamResult, error) {
	r.hit()
	return nil, c24ErrRec
}
func (r c24Rec) TriggerRouteAdvertise() { r.hit() }
func (r c24Rec) TriggerSleep() error    { r.hit(); return nil }
func (r c24Rec) TriggerWake() error     { r.hit(); return nil }
func (r c24Rec) GetSleepStatus() health.SleepStatusInfo {
	r.hit()
	return health.SleepStatusInfo{}
}
func (r c24Rec) IsSleepEnabled() bool { r.hit(); return true }
func (r c24Rec) ManageRoute(a, n string, m uint16) (*health.RouteManageResult, error) {
	r.hit()
	return nil, c24ErrRec
}
func (r c24Rec) ManageForwardListener(a, k, ad string, mc int) (*health.ForwardManageResult, error) {
	r.hit()
	return nil, c24ErrRec
}
func (r c24Rec) BrowseFiles(req *filetransfer.BrowseRequest) *filetransfer.BrowseResponse {
	r.hit()
	return &filetransfer.BrowseResponse{}
}
func (r c24Rec) ManageDisplayName(a, n string) (*health.DisplayNameManageResult, error) {
	r.hit()
	return nil, c24ErrRec
}
func (r c24Rec) OpenShellStream(ctx context.Context, t identity.AgentID, m *shell.ShellMeta, i bool) (*health.ShellSession, error) {
	r.hit()
	return nil, c24ErrRec
}
func (r c24Rec) OpenICMPSession(ctx context.Context, t identity.AgentID, ip net.IP) (*health.ICMPSession, error) {
	r.hit()
	return nil, c24ErrRec
}

type c24Srv struct {
	h     http.Handler
	calls *int64
}

var c24Servers = map[string]*c24Srv{}
var c24Hashes = map[string]string{}

func c24Server(tok string, flags string) *c24Srv {
	key := tok + "\x00" + flags
	if s, ok := c24Servers[key]; ok {
		return s
	}
	cfg := health.DefaultServerConfig()
	cfg.EnableRemoteAPI = flags[0] == '1'
	cfg.EnableDashboard = flags[1] == '1'
	cfg.EnablePprof = flags[2] == '1'
	if tok != "" {
		h, ok := c24Hashes[tok]
		if !ok {
			b, err := bcrypt.GenerateFromPassword([]byte(tok), bcrypt.MinCost)
			must(err)
			h = string(b)
			c24Hashes[tok] = h
		}
		cfg.TokenHash = h
	}
	n := new(int64)
	rec := c24Rec{n}
	s := health.NewServer(cfg, rec)
	s.SetRemoteProvider(rec)
	s.SetRouteAdvertiseTrigger(rec)
	s.SetSleepProvider(rec)
	s.SetRouteManageProvider(rec)
	s.SetForwardManageProvider(rec)
	s.SetFileBrowseProvider(rec)
	s.SetDisplayNameManageProvider(rec)
	s.SetShellProvider(rec)
	s.SetICMPProvider(rec)
	c := &c24Srv{h: s.Handler(), calls: n}
	c24Servers[key] = c
	return c
}

// c24Race: k requests carrying the same WRONG token hit a protected endpoint at the same moment,
// against a bcrypt cost-10 hash (a wide window between the start and the end of the comparison).
// Every one of them must be refused with 401 before the mux.
func c24Race(k, rounds int) string {
	if c24RaceHash == "" {
		b, err := bcrypt.GenerateFromPassword([]byte(c24Token), 10)
		must(err)
		c24RaceHash = string(b)
	}
	served := 0
	for rd := 0; rd < rounds; rd++ {
		cfg := health.DefaultServerConfig()
		cfg.TokenHash = c24RaceHash
		n := new(int64)
		rec := c24Rec{n}
		srv := health.NewServer(cfg, rec)
		srv.SetRemoteProvider(rec)
		srv.SetSleepProvider(rec)
		h := srv.Handler()
		wrong := fmt.Sprintf("wrong-token-%d", rd)
		start := make(chan struct{})
		var wg sync.WaitGroup
		var bad int64
		for g := 0; g < k; g++ {
			wg.Add(1)
			go func(g int) {
				defer wg.Done()
				target := "/agents"
				req := httptest.NewRequest("GET", target, nil)
				if g%2 == 0 {
					req.Header.Set("Authorization", "Bearer "+wrong)
				} else {
					req = httptest.NewRequest("GET", target+"?token="+wrong, nil)
				}
				<-start
				if g > 0 { // spread the arrivals over the comparison of the first one
					time.Sleep(time.Duration(g) * 3 * time.Millisecond)
				}
				rr := httptest.NewRecorder()
				h.ServeHTTP(rr, req)
				if rr.Code != 401 || req.Pattern != "" {
					atomic.AddInt64(&bad, 1)
				}
			}(g)
		}
		close(start)
		wg.Wait()
		served += int(bad)
	}
	if served > 0 {
		return fmt.Sprintf("race served %d", served)
	}
	return "race ok"
}

var c24RaceHash string

// c24HeaderSets: request headers other than Authorization. None of them may influence the 401 decision.
var c24HeaderSets = [][][2]string{
	{},
	{{"Origin", "https://evil.example"}, {"Access-Control-Request-Method", "GET"}},                                                  // CORS preflight
	{{"Origin", "null"}, {"Access-Control-Request-Method", "POST"}, {"Access-Control-Request-Headers", "authorization,content-type"}}, // CORS preflight with headers
	{{"Upgrade", "websocket"}, {"Connection", "Upgrade"}, {"Sec-WebSocket-Key", "dGhlIHNhbXBsZSBub25jZQ=="}, {"Sec-WebSocket-Version", "13"}},
	{{"X-HTTP-Method-Override", "GET"}, {"X-Original-URL", "/health"}, {"X-Rewrite-URL", "/health"}, {"X-Forwarded-Uri", "/"}},
	{{"X-Forwarded-For", "127.0.0.1"}, {"X-Forwarded-Proto", "https"}, {"X-Real-IP", "::1"}, {"Forwarded", "for=127.0.0.1"}, {"Via", "1.1 localhost"}},
	{{"Proxy-Authorization", "Bearer " + c24Token}, {"X-Authorization", "Bearer " + c24Token}, {"Cookie", "token=" + c24Token}, {"X-Api-Key", c24Token}},
	{{"Origin", "https://evil.example"}},
	{{"Access-Control-Request-Method", "DELETE"}},
	{{"Host", "localhost"}, {"Referer", "http://localhost/health"}, {"User-Agent", "kube-probe/1.29"}, {"Content-Type", "application/json"}, {"Accept", "*/*"}},
}

// gate <minimal 0|1> <pprof u|t|f> <dashboard u|t|f> <remote_api u|t|f> <method> <path hex>
//   -> pat=<Request.Pattern|-> st=<404|301|h>
// The HTTP server is the one the AGENT builds: the YAML configuration is parsed by config.Parse,
// agent.New wires cfg.HTTP into health.ServerConfig, and the request is served by that handler.
var c24Agents = map[string]http.Handler{}

func c24Gate(f []string) string {
	key := strings.Join(f[1:5], "")
	h, ok := c24Agents[key]
	if !ok {
		dir, err := os.MkdirTemp("", "verif-c24-agent-")
		must(err)
		y := "agent:\n  data_dir: \"" + dir + "\"\nhttp:\n  enabled: true\n  address: \"127.0.0.1:0\"\n"
		if f[1] == "1" {
			y += "  minimal: true\n"
		}
		for i, name := range []string{"pprof", "dashboard", "remote_api"} {
			switch f[2+i] {
			case "t":
				y += "  " + name + ": true\n"
			case "f":
				y += "  " + name + ": false\n"
			}
		}
		cfg, err := config.Parse([]byte(y))
		must(err)
		a, err := agent.New(cfg)
		must(err)
		h = agent.VerifC24Handler(a)
		if h == nil {
			panic("agent built no HTTP server")
		}
		c24Agents[key] = h
	}
	req := httptest.NewRequest(f[5], string(unhexTok(f[6])), nil)
	ctx, cancel := context.WithTimeout(req.Context(), 25*time.Millisecond)
	defer cancel()
	req = req.WithContext(ctx)
	rec := httptest.NewRecorder()
	h.ServeHTTP(rec, req)
	pat := req.Pattern
	if pat == "" {
		pat = "-"
	}
	st := "h"
	switch {
	case rec.Code == 301:
		st, pat = "301", "*"
	case rec.Code == 404 && rec.Body.String() == "404 page not found\n":
		st = "404"
	}
	return fmt.Sprintf("pat=%s st=%s", pat, st)
}

func c24Run(line string) string {
	f := fields(line)
	if f[0] == "race" && len(f) == 3 {
		k, _ := strconv.Atoi(f[1])
		rounds, _ := strconv.Atoi(f[2])
		return c24Race(k, rounds)
	}
	if f[0] == "gate" && len(f) == 7 {
		return c24Gate(f)
	}
	// reqh = req plus a trailing index into c24HeaderSets: extra request headers that must not matter
	hset := 0
	if f[0] == "reqh" && len(f) == 9 {
		hset, _ = strconv.Atoi(f[8])
		f = f[:8]
	} else if f[0] != "req" || len(f) != 8 {
		return "bad-op"
	}
	srv := c24Server(string(unhexTok(f[1])), f[2])
	target := string(unhexTok(f[4]))
	if f[6] == "1" {
		target += "?token=" + url.QueryEscape(string(unhexTok(f[7])))
	}
	req := httptest.NewRequest(f[3], target, nil)
	if f[5] != "-" {
		req.Header.Set("Authorization", string(unhexTok(f[5])))
	}
	if hset > 0 && hset < len(c24HeaderSets) {
		for _, kv := range c24HeaderSets[hset] {
			req.Header.Add(kv[0], kv[1])
		}
	}
	ctx, cancel := context.WithTimeout(req.Context(), 25*time.Millisecond)
	defer cancel()
	req = req.WithContext(ctx)
	atomic.StoreInt64(srv.calls, 0)
	rec := httptest.NewRecorder()
	srv.h.ServeHTTP(rec, req)
	calls := "0"
	if atomic.LoadInt64(srv.calls) > 0 {
		calls = "+"
	}
	pat := req.Pattern
	if pat == "" {
		pat = "-"
	}
	st := "h"
	switch {
	case rec.Code == 401:
		st = "401"
	case rec.Code == 301:
		st = "301"
		pat = "*"
	case rec.Code == 404 && rec.Body.String() == "404 page not found\n":
		st = "404"
	}
	return fmt.Sprintf("pat=%s st=%s calls=%s", pat, st, calls)
}

var c24Token = "s3cr3t-Token_1"
var c24Tok71 = "T71-" + strings.Repeat("abcdefghij", 6) + "1234567" // 71 bytes
var c24Tok72 = "T72-" + strings.Repeat("abcdefghij", 6) + "12345678" // 72 bytes

func c24Gen(w *bufio.Writer, seed int64, tier string) {
	r := newRng(seed)
	n := 2500
	if tier == "thorough" {
		n = 60000
	}
	exempt := health.VerifC24ExemptPaths()
	sort.Strings(exempt)
	base := []string{"/", "/health", "/healthz", "/ready", "/logo.png", "/agents", "/agents/", "/agents/abc", "/agents/abc/shell",
		"/agents/abc/file/upload", "/agents/abc/file/browse", "/agents/abc/icmp", "/routes/advertise", "/routes/manage", "/forward/manage", "/display-name/manage",
		"/sleep", "/sleep/status", "/wake", "/api/topology", "/api/dashboard", "/api/nodes", "/api/mesh-test", "/api/", "/api", "/api/x",
		"/debug/pprof/", "/debug/pprof", "/debug/pprof/cmdline", "/debug/pprof/heap", "/debug/pprof/symbol", "/debug/", "/debug", "/debug/x",
		"/nosuch", "/healthx", "/health/x", "/routes", "/routes/", "/sleep/", "/sleep/x", "/logo.png/", "/favicon.ico"}
	base = append(base, exempt...)
	enc := func(c byte) string {
		if r.chance(50) {
			return fmt.Sprintf("%%%02x", c)
		}
		return fmt.Sprintf("%%%02X", c)
	}
	mutate := func(p string) string {
		if p == "" {
			return "/"
		}
		switch r.intn(22) {
		case 0, 1: // percent-encode one character (never part of an existing escape)
			var idx []int
			for i := 0; i < len(p); i++ {
				if p[i] != '%' && (i < 1 || p[i-1] != '%') && (i < 2 || p[i-2] != '%') {
					idx = append(idx, i)
				}
			}
			if len(idx) == 0 {
				return p
			}
			i := idx[r.intn(len(idx))]
			return p[:i] + enc(p[i]) + p[i+1:]
		case 2: // percent-encode a slash or a dot if there is one
			var idx []int
			for i := 0; i < len(p); i++ {
				if (p[i] == '/' && i > 0) || p[i] == '.' {
					idx = append(idx, i)
				}
			}
			if len(idx) == 0 {
				return p + "%2f"
			}
			i := idx[r.intn(len(idx))]
			return p[:i] + enc(p[i]) + p[i+1:]
		case 3: // double a slash
			var idx []int
			for i := 0; i < len(p); i++ {
				if p[i] == '/' {
					idx = append(idx, i)
				}
			}
			if len(idx) == 0 {
				return "/" + p
			}
			i := idx[r.intn(len(idx))]
			return p[:i] + "/" + p[i:]
		case 4:
			return p + "/"
		case 5:
			return p + "/."
		case 6:
			return p + "/.."
		case 7:
			return "/x/.." + p
		case 8:
			return "/." + p
		case 9:
			return "/.." + p
		case 10: // case flip
			b := []byte(p)
			i := r.intn(len(b))
			if b[i] >= 'a' && b[i] <= 'z' {
				b[i] -= 32
			}
			return string(b)
		case 11:
			return p + "%2f.."
		case 12:
			return p + "/%2e%2e" + base[r.intn(len(base))]
		case 13:
			return p + "/.." + base[r.intn(len(base))]
		case 14:
			return p + "%2f..%2f" + strings.TrimPrefix(base[r.intn(len(base))], "/")
		case 15:
			return exempt[r.intn(len(exempt))] + "/.." + p
		case 16:
			return p + "%00"
		case 17:
			return p + ";x"
		case 18:
			return strings.TrimSuffix(p, "/")
		case 19:
			return p + "x"
		case 20:
			return "/%2e" + p
		default:
			return p + "/x"
		}
	}
	methods := []string{"GET", "GET", "GET", "POST", "POST", "PUT", "DELETE", "HEAD", "OPTIONS", "OPTIONS", "PATCH", "CONNECT", "TRACE"}
	for i := 0; i < n; i++ {
		p := base[r.intn(len(base))]
		for k := r.pick(0, 0, 0, 1, 1, 1, 2, 2, 3); k > 0; k-- {
			p = mutate(p)
		}
		if p == "" || p[0] != '/' {
			p = "/" + p
		}
		if r.chance(2) { // long paths: many segments / one very long segment in front of or behind a registered route
			switch r.intn(3) {
			case 0:
				p = strings.Repeat("/seg", r.pick(64, 300, 2000)) + p
			case 1:
				p = p + "/" + strings.Repeat("x", r.pick(255, 256, 4096, 20000))
			default:
				p = strings.Repeat("/..", r.pick(50, 500)) + p
			}
		} else if len(p) > 120 {
			p = p[:120]
			if j := strings.LastIndexByte(p, '%'); j >= len(p)-2 && j >= 0 {
				p = p[:j]
			}
		}
		// pprof.Profile / pprof.Trace run for the request-context timeout; keep them rare
		if strings.Contains(p, "pprof/profile") || strings.Contains(p, "pprof/trace") {
			if !r.chance(5) {
				p = strings.NewReplacer("pprof/profile", "pprof/cmdline", "pprof/trace", "pprof/symbol").Replace(p)
			}
		}
		// configured token: short, or at bcrypt's 72-byte boundary (71 / 72 bytes)
		tok := c24Token
		switch r.intn(10) {
		case 0, 1:
			tok = c24Tok71
		case 2, 3:
			tok = c24Tok72
		}
		cfgtok := tok
		if r.chance(25) {
			cfgtok = ""
		}
		flags := fmt.Sprintf("%d%d%d", r.intn(2), r.intn(2), r.intn(2))
		if r.chance(30) {
			flags = "111"
		}
		auth := ""
		switch r.intn(18) {
		case 0, 1, 2:
			auth = "Bearer " + tok
		case 3:
			auth = "Bearer wrong-token"
		case 4:
			auth = "Bearer "
		case 5:
			auth = "bearer " + tok
		case 6:
			auth = "Basic dXNlcjpwYXNz"
		case 7:
			auth = "Bearer  " + tok
		case 8:
			auth = tok
		case 9:
			auth = "Bearer " + tok + " "
		case 10:
			if r.chance(20) { // longer than bcrypt's 72-byte limit
				auth = "Bearer " + strings.Repeat(tok, r.pick(6, 100, 3000))
			}
		case 11: // the token plus a suffix: bcrypt ignores everything past 72 bytes
			auth = "Bearer " + tok + r.pickS("x", "-suffix", strings.Repeat("y", 128))
		case 12: // the token minus its last byte, or with the last byte changed
			auth = "Bearer " + tok[:len(tok)-1] + r.pickS("", "#")
		case 13:
			auth = "Bearer " + strings.Repeat("k", r.pick(71, 72, 73, 200))
		}
		hasq, qt := 0, ""
		switch r.intn(14) {
		case 0, 1:
			hasq, qt = 1, tok
		case 2:
			hasq, qt = 1, "wrong"
		case 3:
			hasq, qt = 1, ""
		case 4:
			hasq, qt = 1, tok+"x"
		case 5:
			if r.chance(20) {
				hasq, qt = 1, strings.Repeat("t", r.pick(73, 5000))
			}
		case 6: // NUL bytes reach the check through the query only: bcrypt NUL-terminates and cycles the key
			hasq, qt = 1, tok+"\x00"+r.pickS("", "x", tok, tok+"\x00", tok+"\x00"+tok)
		case 7:
			hasq, qt = 1, tok+strings.Repeat("z", r.pick(1, 58, 59, 200))
		case 8:
			hasq, qt = 1, r.pickS("\x00", tok[:len(tok)-1], "\x00"+tok)
		}
		if r.chance(35) {
			fmt.Fprintf(w, "reqh %s %s %s %s %s %d %s %d\n", hexTok([]byte(cfgtok)), flags, methods[r.intn(len(methods))], hexTok([]byte(p)), hexTok([]byte(auth)), hasq, hexTok([]byte(qt)), 1+r.intn(len(c24HeaderSets)-1))
		} else {
			fmt.Fprintf(w, "req %s %s %s %s %s %d %s\n", hexTok([]byte(cfgtok)), flags, methods[r.intn(len(methods))], hexTok([]byte(p)), hexTok([]byte(auth)), hasq, hexTok([]byte(qt)))
		}
	}
}

func init() {
	register("c24", &Engine{Run: c24Run, Gen: c24GenAll})
}

// c24GenAll = the request stream plus the concurrent wrong-token case (sparingly: bcrypt cost 10).
func c24GenAll(w *bufio.Writer, seed int64, tier string) {
	c24Gen(w, seed, tier)
	// headers other than Authorization never matter (always emitted, independent of the seed): every
	// protected path x every method x every header set, no token / a wrong token -> 401 before the mux
	prot := []string{"/agents", "/agents/", "/agents/abc/shell", "/agents/abc/file/upload", "/routes/advertise", "/routes/manage", "/forward/manage",
		"/display-name/manage", "/sleep", "/sleep/status", "/wake", "/api/topology", "/api/dashboard", "/api/nodes", "/api/mesh-test",
		"/debug/pprof/", "/debug/pprof/cmdline", "/debug/pprof/goroutine", "/debug/pprof/symbol", "/debug/pprof/heap", "/nosuch"}
	allMethods := []string{"GET", "POST", "PUT", "DELETE", "HEAD", "OPTIONS", "PATCH", "CONNECT", "TRACE"}
	for _, pp := range prot {
		for _, m := range allMethods {
			for hs := 1; hs < len(c24HeaderSets); hs++ {
				if tier != "thorough" && !(m == "OPTIONS" || m == "GET" || hs <= 4) {
					continue
				}
				auth := ""
				if (hs+len(pp))%3 == 0 {
					auth = "Bearer wrong-token"
				}
				fmt.Fprintf(w, "reqh %s 111 %s %s %s 0 - %d\n", hexTok([]byte(c24Token)), m, hexTok([]byte(pp)), hexTok([]byte(auth)), hs)
			}
		}
	}
	// configuration -> server wiring: every combination of minimal x {unset, true, false}^3, served by the
	// handler the agent itself builds from the parsed YAML (independent of the seed)
	gpaths := []string{"/agents", "/sleep/status", "/api/topology", "/api/nodes", "/debug/pprof/cmdline", "/debug/pprof/", "/health", "/", "/nosuch"}
	for _, m := range []string{"0", "1"} {
		for _, p := range []string{"u", "t", "f"} {
			for _, d := range []string{"u", "t", "f"} {
				for _, r := range []string{"u", "t", "f"} {
					for _, gp := range gpaths {
						if tier != "thorough" && m == "0" && (gp == "/sleep/status" || gp == "/api/nodes" || gp == "/debug/pprof/" || gp == "/nosuch") {
							continue
						}
						fmt.Fprintf(w, "gate %s %s %s %s GET %s\n", m, p, d, r, hexTok([]byte(gp)))
					}
				}
			}
		}
	}
	if tier == "thorough" {
		fmt.Fprintln(w, "race 12 6")
		fmt.Fprintln(w, "race 4 4")
	} else {
		fmt.Fprintln(w, "race 8 2")
	}
}
