//go:build verif && (all || c36)

package main

import (
	"bufio"
	"encoding/binary"
	"errors"
	"fmt"
	"os"
	"path/filepath"

	"github.com/postalsys/muti-metroo/internal/embed"
)

// Engine c36: internal/embed — AppendConfig / ReadEmbeddedConfig / GetOriginalBinarySize /
// CopyBinaryWithoutConfig / HasEmbeddedConfig on real files in a private temp dir.
//
//	read <file>          -> ok <cfg> | err noconfig | err toolarge | err other | panic ...
//	size <file>          -> size <n> | err toolarge | err other
//	strip <file>         -> ok <bytes> | err toolarge | err other
//	has <file>           -> has true|false
//	append <src> <cfg>   -> ok <out> | err already | err other
//	stripto <file> <old dst> / stripin <file>            strip onto an existing destination / in place
//	appendto <src> <cfg> <old dst> / appendin <src> <cfg>  embed onto an existing destination / in place
//	appendlink|appendhard|appendrel <src> <cfg>          destination is the source under another name
func init() {
	var dir string
	path := func(name string) string {
		if dir == "" {
			d, err := os.MkdirTemp("", "verif-c36-")
			if err != nil {
				panic(err)
			}
			dir = d
		}
		return filepath.Join(dir, name)
	}
	classify := func(err error) string {
		switch {
		case errors.Is(err, embed.ErrNoEmbeddedConfig):
			return "err noconfig"
		case errors.Is(err, embed.ErrConfigTooLarge):
			return "err toolarge"
		case errors.Is(err, embed.ErrAlreadyEmbedded):
			return "err already"
		default:
			return "err other"
		}
	}
	register("c36", &Engine{
		Run: func(line string) string {
			f := fields(line)
			defer func() {
				if dir != "" {
					os.RemoveAll(dir)
					dir = ""
				}
			}()
			switch f[0] {
			case "read":
				p := path("bin")
				must(os.WriteFile(p, unhexTok(f[1]), 0o600))
				cfg, err := embed.ReadEmbeddedConfig(p)
				if err != nil {
					return classify(err)
				}
				return "ok " + hexTok(cfg)
			case "size":
				p := path("bin")
				must(os.WriteFile(p, unhexTok(f[1]), 0o600))
				n, err := embed.GetOriginalBinarySize(p)
				if err != nil {
					return classify(err)
				}
				return fmt.Sprintf("size %d", n)
			case "strip":
				p, q := path("bin"), path("out")
				must(os.WriteFile(p, unhexTok(f[1]), 0o600))
				if err := embed.CopyBinaryWithoutConfig(p, q); err != nil {
					if errors.Is(err, embed.ErrConfigTooLarge) {
						return "err toolarge"
					}
					return "err other"
				}
				b, err := os.ReadFile(q)
				must(err)
				return "ok " + hexTok(b)
			case "stripto", "stripin": // destination already exists (stale longer content) / strip in place
				p, q := path("bin"), path("out")
				must(os.WriteFile(p, unhexTok(f[1]), 0o600))
				if f[0] == "stripin" {
					q = p
				} else {
					must(os.WriteFile(q, unhexTok(f[2]), 0o600))
				}
				if err := embed.CopyBinaryWithoutConfig(p, q); err != nil {
					if errors.Is(err, embed.ErrConfigTooLarge) {
						return "err toolarge"
					}
					return "err other"
				}
				b, err := os.ReadFile(q)
				must(err)
				return "ok " + hexTok(b)
			case "appendto", "appendin": // destination already exists / embed in place (src == dst is documented)
				p, q := path("bin"), path("out")
				must(os.WriteFile(p, unhexTok(f[1]), 0o600))
				if f[0] == "appendin" {
					q = p
				} else {
					must(os.WriteFile(q, unhexTok(f[3]), 0o600))
				}
				if err := embed.AppendConfig(p, q, unhexTok(f[2])); err != nil {
					return classify(err)
				}
				b, err := os.ReadFile(q)
				must(err)
				return "ok " + hexTok(b)
			case "appendlink", "appendhard", "appendrel": // destination = the same file under another NAME
				p := path("bin")
				must(os.WriteFile(p, unhexTok(f[1]), 0o600))
				q := path("alias")
				switch f[0] {
				case "appendlink":
					must(os.Symlink(p, q))
				case "appendhard":
					must(os.Link(p, q))
				default: // relative spelling of the same path
					wd, err := os.Getwd()
					must(err)
					rel, err := filepath.Rel(wd, p)
					must(err)
					q = rel
				}
				if err := embed.AppendConfig(p, q, unhexTok(f[2])); err != nil {
					return classify(err)
				}
				b, err := os.ReadFile(p) // the file itself, whatever name was used to write it
				must(err)
				return "ok " + hexTok(b)
			case "has":
				p := path("bin")
				must(os.WriteFile(p, unhexTok(f[1]), 0o600))
				h, err := embed.HasEmbeddedConfig(p)
				if err != nil {
					return "err other"
				}
				return fmt.Sprintf("has %v", h)
			case "append":
				p, q := path("bin"), path("out")
				must(os.WriteFile(p, unhexTok(f[1]), 0o600))
				if err := embed.AppendConfig(p, q, unhexTok(f[2])); err != nil {
					return classify(err)
				}
				b, err := os.ReadFile(q)
				must(err)
				return "ok " + hexTok(b)
			}
			return "bad-op"
		},
		Gen: func(w *bufio.Writer, seed int64, tier string) {
			r := newRng(seed)
			n := 400
			if tier == "thorough" {
				n = 20000
			}
			magic := embed.Magic[:]
			// always: large configurations around plausible chunk sizes, embedded honestly and read back
			for _, sz := range []int{4095, 4096, 4097, 5000, 8193, 16385, 65537} {
				body := r.bytes(r.pick(0, 17, 300))
				cfg := r.bytes(sz)
				fmt.Fprintf(w, "append %s %s\n", hexTok(body), hexTok(cfg))
				file := append(append(append([]byte{}, body...), embed.XOR(cfg)...), trailer(uint64(len(cfg)), magic)...)
				fmt.Fprintf(w, "read %s\n", hexTok(file))
				fmt.Fprintf(w, "stripto %s %s\n", hexTok(file), hexTok(r.bytes(len(file)+40)))
				fmt.Fprintf(w, "stripin %s\n", hexTok(file))
			}
			// always: embedding onto the same file reached through another name
			for _, op := range []string{"appendlink", "appendhard", "appendrel"} {
				fmt.Fprintf(w, "%s %s %s\n", op, hexTok(r.bytes(40)), hexTok(r.bytes(33)))
				fmt.Fprintf(w, "%s %s %s\n", op, hexTok(r.bytes(5000)), hexTok(r.bytes(7)))
			}
			for i := 0; i < n; i++ {
				body := r.bytes(r.pick(0, 0, 1, 7, 8, 15, 16, 17, 31, 32, 33, 40, 64, 100, 255, 300))
				switch r.intn(10) {
				case 0, 1, 2: // honest embed then read/strip: uses the real AppendConfig layout
					cfg := r.bytes(r.pick(1, 1, 2, 31, 32, 33, 64, 65, 200))
					if r.chance(10) {
						cfg = nil
					}
					if r.chance(12) { // large configurations: buffer/phase boundaries of any chunked reader
						cfg = r.bytes(r.pick(511, 512, 513, 1000, 4095, 4096, 4097, 4100, 5000, 8191, 8192, 8193, 10000, 16384, 16385, 32769, 65535, 65536, 65537))
					}
					if r.chance(15) { // source that already ends in the magic
						body = append(body, magic...)
					}
					switch r.intn(6) {
					case 0:
						fmt.Fprintf(w, "appendto %s %s %s\n", hexTok(body), hexTok(cfg), hexTok(r.bytes(r.pick(0, 1, len(body)+len(cfg)+15, len(body)+len(cfg)+17, len(body)+len(cfg)+300))))
					case 1:
						fmt.Fprintf(w, "appendin %s %s\n", hexTok(body), hexTok(cfg))
					default:
						fmt.Fprintf(w, "append %s %s\n", hexTok(body), hexTok(cfg))
					}
					file := append(append(append([]byte{}, body...), embed.XOR(cfg)...), trailer(uint64(len(cfg)), magic)...)
					switch r.intn(6) {
					case 0:
						fmt.Fprintf(w, "stripto %s %s\n", hexTok(file), hexTok(r.bytes(r.pick(0, 1, len(body)+1, len(file), len(file)+40))))
					case 1:
						fmt.Fprintf(w, "stripin %s\n", hexTok(file))
					default:
						fmt.Fprintf(w, "%s %s\n", r.pickS("read", "strip", "size", "has"), hexTok(file))
					}
				default: // arbitrary file with a chosen trailer length value
					size := uint64(len(body) + 16)
					lens := []uint64{0, 1, 2, size - 17, size - 16, size - 15, size, size + 1, uint64(len(body)), uint64(len(body)) + 1,
						1 << 31, 1<<63 - 1, 1 << 63, 1<<63 + 1, ^uint64(0), ^uint64(15), ^uint64(0) - uint64(len(body)) + 1, r.u64()}
					l := lens[r.intn(len(lens))]
					m := append([]byte{}, magic...)
					if r.chance(15) {
						m[r.intn(8)] ^= byte(1 << r.intn(8))
					}
					file := append(append([]byte{}, body...), trailer(l, m)...)
					if r.chance(10) {
						file = file[:r.intn(len(file)+1)]
					}
					fmt.Fprintf(w, "%s %s\n", r.pickS("read", "read", "strip", "size", "has"), hexTok(file))
				}
			}
		},
		Facts: func(w *bufio.Writer) {
			fmt.Fprintf(w, "-- GENERATED from /repo internal/embed by the harness (`harness c36 facts`). Do not edit.\n")
			fmt.Fprintf(w, "namespace MM.Gen.C36\n")
			fmt.Fprintf(w, "def magic : List UInt8 := %s\n", leanBytes(embed.Magic[:]))
			fmt.Fprintf(w, "def xorKey : List UInt8 := %s\n", leanBytes(embed.XORKey[:]))
			fmt.Fprintf(w, "def footerSize : Nat := %d\n", embed.FooterSize)
			fmt.Fprintf(w, "end MM.Gen.C36\n")
		},
	})
}

func trailer(l uint64, magic []byte) []byte {
	t := make([]byte, 8, 16)
	binary.LittleEndian.PutUint64(t, l)
	return append(t, magic...)
}

