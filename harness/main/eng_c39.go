//go:build verif && (all || c39)

package main

import (
	"bufio"
	"bytes"
	"context"
	"encoding/json"
	"errors"
	"fmt"
	"strconv"
	"strings"
	"time"

	"github.com/postalsys/muti-metroo/internal/agent"
	"github.com/postalsys/muti-metroo/internal/identity"
	"github.com/postalsys/muti-metroo/internal/protocol"
)

// Engine c39: control request/response forwarding of the REAL agent (injected peers, frames through
// Agent.processFrame, local requests through Agent.SendControlRequest in a goroutine).
//
//	reset | conn P | disc P
//	send T                      local status request to agent T (SendControlRequest in a goroutine)
//	cancel id                   the caller of local request id gives up (its context is cancelled)
//	sendfail T                  local request whose write to the next hop fails
//	sendstall T / release T ok|fail   the write stalls (request registered, not yet on the wire) and later completes / fails
//	sleep / wake                the agent's real enterSleep / exitSleep (all peers are disconnected by sleep)
//	req P id T [path…]          CONTROL_REQUEST from peer P (T = 0: for this agent)
//	resp P id ok|fail tag       CONTROL_RESPONSE from peer P; tag = number of the agent that answered
//	answer: out=[…] pending=[ids] fwd=[id:peer …]
//	  items: P:req:id:T:path | P:resp:id:ok|fail:tag | deliver:id:ok|fail:tag | senderr

type c39Call struct {
	id     uint64
	done   chan string
	cancel context.CancelFunc
}

var c39TimedOut bool

// c39Await waits for a call's goroutine to report, with a deadline (a caller that does not honour its
// context must not hang the harness).
func c39Await(ch chan string) string {
	limit := 3 * time.Second
	if c39TimedOut {
		limit = 100 * time.Millisecond
	}
	select {
	case r := <-ch:
		return r
	case <-time.After(limit):
		c39TimedOut = true
		return "caller-stuck"
	}
}

type c39Stalled struct {
	c    *c39Call
	gate chan error
}

func c39Tag(data []byte) string {
	var m map[string]interface{}
	if json.Unmarshal(data, &m) == nil {
		if s, ok := m["agent_id"].(string); ok {
			if id, err := identity.ParseAgentID(s); err == nil {
				return strconv.Itoa(c16Num(id))
			}
		}
	}
	s := string(data)
	if _, err := strconv.Atoi(s); err == nil {
		return s
	}
	return "0" // failure text produced by this agent
}

func c39OK(b bool) string {
	if b {
		return "ok"
	}
	return "fail"
}

func init() {
	var w *c16World
	var calls []*c39Call
	stalledCalls := map[int][]c39Stalled{}
	var routeSeq uint64
	dump := func(items []string) string {
		for _, s := range w.drain() {
			switch s.f.Type {
			case protocol.FrameControlRequest:
				r, err := protocol.DecodeControlRequest(s.f.Payload)
				must(err)
				var path []string
				for _, p := range r.Path {
					path = append(path, strconv.Itoa(c16Num(p)))
				}
				items = append(items, fmt.Sprintf("%d:req:%d:%d:%s", s.peer, r.RequestID, c16Num(r.TargetAgent), strings.Join(path, ",")))
			case protocol.FrameControlResponse:
				r, err := protocol.DecodeControlResponse(s.f.Payload)
				must(err)
				items = append(items, fmt.Sprintf("%d:resp:%d:%s:%s", s.peer, r.RequestID, c39OK(r.Success), c39Tag(r.Data)))
			default:
				items = append(items, fmt.Sprintf("%d:type%#x", s.peer, s.f.Type))
			}
		}
		pend, fwd := agent.C39Control(w.a)
		var ps, fs []string
		for _, id := range pend {
			ps = append(ps, strconv.FormatUint(id, 10))
		}
		for _, kv := range fwd {
			fs = append(fs, fmt.Sprintf("%d:%d", kv.ID, c16Num(kv.Source)))
		}
		return "out=[" + strings.Join(items, " ") + "] pending=[" + strings.Join(ps, " ") + "] fwd=[" + strings.Join(fs, " ") + "]" + fmt.Sprintf(" next=%d", agent.C39NextID(w.a))
	}
	register("c39", &Engine{
		Run: func(line string) string {
			f := fields(line)
			if w == nil {
				w = c16NewWorld()
			}
			switch f[0] {
			case "reset":
				for _, l := range stalledCalls {
					for _, sc := range l {
						sc.gate <- fmt.Errorf("verif: reset")
					}
				}
				stalledCalls = map[int][]c39Stalled{}
				for _, c := range calls {
					c.cancel()
					c39Await(c.done)
				}
				calls = nil
				w.resetPeers()
				agent.C39ResetControl(w.a)
				var all []identity.AgentID
				for n := 1; n <= 9; n++ {
					all = append(all, c16ID(n))
				}
				agent.C39ForgetAgentRoutes(w.a, all)
				return "ok"
			case "conn":
				w.connect(c16Atoi39(f[1]), true)
				return dump(nil)
			case "disc":
				w.disconnect(c16Atoi39(f[1]))
				return dump(nil)
			case "send", "sendstall", "sendfail":
				// send: the request frame is written at once. sendstall: the write to the next hop stalls until
				// `release`. sendfail: the write fails.
				t := c16Atoi39(f[1])
				var gate chan error
				if f[0] != "send" && w.bufs[t] != nil {
					gate = make(chan error, 1)
					w.bufs[t].mu.Lock()
					w.bufs[t].gate = gate
					w.bufs[t].mu.Unlock()
					if f[0] == "sendfail" {
						gate <- fmt.Errorf("verif: write to peer failed")
					}
				}
				// a gate that no write consumed must not catch a later, unrelated write to that peer
				disarm := func() {
					if w.bufs[t] != nil {
						w.bufs[t].mu.Lock()
						w.bufs[t].gate = nil
						w.bufs[t].mu.Unlock()
					}
				}
				ctx, cancel := context.WithCancel(context.Background())
				c := &c39Call{done: make(chan string, 1), cancel: cancel}
				go func() {
					resp, err := w.a.SendControlRequest(ctx, c16ID(t), protocol.ControlTypeStatus)
					if errors.Is(err, context.Canceled) || errors.Is(err, context.DeadlineExceeded) {
						c.done <- "cancelled"
						return
					}
					if err != nil {
						c.done <- "senderr"
						return
					}
					c.done <- fmt.Sprintf("deliver:%d:%s:%s", resp.RequestID, c39OK(resp.Success), c39Tag(resp.Data))
				}()
				// the call fails at once, or registers a pending request and (unless stalled) writes the frame
				limit := 8 * time.Second
				if c39TimedOut { // a broken tree: later waits give up quickly
					limit = 100 * time.Millisecond
				}
				deadline := time.Now().Add(limit)
				for {
					select {
					case r := <-c.done:
						cancel()
						disarm()
						return dump([]string{r})
					default:
					}
					written := f[0] == "send" && w.bufs[t] != nil && w.bufs[t].Len() > 0
					stalled := f[0] == "sendstall" && w.bufs[t] != nil && w.bufs[t].isWaiting()
					if written || stalled {
						// the id the agent gave this request: read it off the frame, or (stalled) off the counter
						c.id = agent.C39NextID(w.a)
						if written {
							if fr, err := protocol.NewFrameReader(bytes.NewReader(w.bufs[t].peek())).Read(); err == nil {
								if rq, err := protocol.DecodeControlRequest(fr.Payload); err == nil {
									c.id = rq.RequestID
								}
							}
						}
						calls = append(calls, c)
						if stalled {
							stalledCalls[t] = append(stalledCalls[t], c39Stalled{c, gate})
						}
						return dump(nil)
					}
					if time.Now().After(deadline) {
						c39TimedOut = true
						cancel()
						disarm()
						panic("send: neither failed nor registered")
					}
					time.Sleep(100 * time.Microsecond)
				}
			case "release": // release T ok|fail : the stalled write toward T completes / fails
				t := c16Atoi39(f[1])
				if len(stalledCalls[t]) == 0 {
					return dump(nil)
				}
				sc := stalledCalls[t][0]
				stalledCalls[t] = stalledCalls[t][1:]
				if f[2] == "ok" {
					sc.gate <- nil
					limit := 8 * time.Second
					if c39TimedOut {
						limit = 100 * time.Millisecond
					}
					deadline := time.Now().Add(limit)
					for w.bufs[t] == nil || w.bufs[t].Len() == 0 {
						if time.Now().After(deadline) {
							c39TimedOut = true
							panic("release: frame not written")
						}
						time.Sleep(100 * time.Microsecond)
					}
					return dump(nil)
				}
				sc.gate <- fmt.Errorf("verif: write to peer failed")
				var got string
				got = c39Await(sc.c.done)
				sc.c.cancel()
				for i, c := range calls {
					if c == sc.c {
						calls = append(calls[:i], calls[i+1:]...)
						break
					}
				}
				return dump([]string{got})
			case "route": // route A via Z: the routing table learns agent A behind peer Z
				routeSeq++
				agent.C39AddAgentRoute(w.a, c16ID(c16Atoi39(f[3])), c16ID(c16Atoi39(f[1])), routeSeq)
				return dump(nil)
			case "sleep": // the agent's real sleep transition: every peer connection is closed
				must(agent.C39EnterSleep(w.a))
				w.forgetPeers()
				stalledCalls = map[int][]c39Stalled{}
				return dump(nil)
			case "wake":
				must(agent.C39ExitSleep(w.a))
				return dump(nil)
			case "cancel": // the caller of local request <id> gives up (context cancelled / timed out)
				id := c39U64(f[1])
				for i, c := range calls {
					if c.id == id {
						c.cancel()
						got := c39Await(c.done)
						calls = append(calls[:i], calls[i+1:]...)
						return dump([]string{fmt.Sprintf("%s:%d", got, id)})
					}
				}
				return dump(nil)
			case "req":
				var path []identity.AgentID
				for _, p := range f[4:] {
					path = append(path, c16ID(c16Atoi39(p)))
				}
				target := c16ID(c16Atoi39(f[3]))
				r := &protocol.ControlRequest{RequestID: c39U64(f[2]), ControlType: protocol.ControlTypeStatus, TargetAgent: target, Path: path}
				agent.C16Process(w.a, c16ID(c16Atoi39(f[1])), &protocol.Frame{Type: protocol.FrameControlRequest, StreamID: protocol.ControlStreamID, Payload: r.Encode()})
				return dump(nil)
			case "resp":
				id := c39U64(f[2])
				pend, _ := agent.C39Control(w.a)
				waiting := false
				for _, x := range pend {
					waiting = waiting || x == id
				}
				r := &protocol.ControlResponse{RequestID: id, ControlType: protocol.ControlTypeStatus, Success: f[3] == "ok", Data: []byte(f[4])}
				agent.C16Process(w.a, c16ID(c16Atoi39(f[1])), &protocol.Frame{Type: protocol.FrameControlResponse, StreamID: protocol.ControlStreamID, Payload: r.Encode()})
				var items []string
				if waiting { // the local caller of that request id gets the answer
					for i, c := range calls {
						if c.id == id {
							select {
							case got := <-c.done:
								items = append(items, got)
							case <-time.After(8 * time.Second):
								items = append(items, "deliver-timeout")
							}
							c.cancel()
							calls = append(calls[:i], calls[i+1:]...)
							break
						}
					}
				}
				return dump(items)
			}
			return "bad-op"
		},
		Gen: c39Gen,
	})
}

func c16Atoi39(s string) int { n, _ := strconv.Atoi(s); return n }
func c39U64(s string) uint64 { n, _ := strconv.ParseUint(s, 10, 64); return n }

// c39Gen: one agent as transit and originator. Requesters behave like real agents: each numbers
// its own requests 1,2,3,… (so different requesters collide with each other and with this agent's
// own counter) or — in `distinct` cases — uses globally distinct ids. Responses come back from the
// next hop in FIFO order, out of order, twice, from the wrong peer, with unknown ids; explicit paths,
// direct targets, unknown targets, unconnected next hops, requests for this agent itself; peers
// disconnect while requests are in flight; boundary ids; long histories.
func c39Gen(w *bufio.Writer, seed int64, tier string) {
	r := newRng(seed)
	n := 500
	if tier == "thorough" {
		n = 20000
	}
	// fixed cases (independent of the seed): overlapping local requests with a send FAILURE, and local
	// requests across sleep / wake; responses in either order
	for order := 0; order < 2; order++ {
		resp := []string{"resp 5 2 ok 5", "resp 4 3 ok 4"}
		if order == 1 {
			resp = []string{"resp 4 3 ok 4", "resp 5 2 ok 5"}
		}
		fmt.Fprintf(w, "reset\nconn 4\nconn 5\nsendstall 4\nsend 5\nrelease 4 fail\nsend 4\n%s\n%s\n", resp[0], resp[1])
		fmt.Fprintf(w, "reset\nconn 4\nconn 5\nsend 4\nsendfail 5\nsend 5\nresp 4 1 ok 4\nresp 5 3 ok 5\n")
		fmt.Fprintf(w, "reset\nconn 4\nconn 5\nsendstall 4\nsend 5\nrelease 4 ok\nsend 4\nresp 4 1 ok 4\nresp 5 2 ok 5\nresp 4 3 ok 4\n")
		late := []string{"resp 4 1 ok 4", "resp 5 2 ok 5"}
		if order == 1 {
			late = []string{"resp 5 2 ok 5", "resp 4 1 ok 4"}
		}
		fmt.Fprintf(w, "reset\nconn 4\nconn 5\nsend 4\nsleep\nwake\nconn 4\nconn 5\nsend 5\n%s\n%s\n", late[0], late[1])
		fmt.Fprintf(w, "reset\nconn 1\nconn 4\nreq 1 7 4\nsend 4\nsleep\nwake\nconn 1\nconn 4\nsend 4\nresp 4 7 ok 4\nresp 4 1 ok 4\nresp 4 2 ok 4\n")
	}
	// fixed: the requester's link drops while its relayed request is in flight; the requester stays
	// reachable through another peer (routing table). The answer must go to nobody — or to the requester
	// itself once it has reconnected — never to an agent that neither issued nor relayed the request.
	fmt.Fprintf(w, "reset\nconn 1\nconn 2\nconn 4\nreq 1 7 4\ndisc 1\nroute 1 via 2\nresp 4 7 ok 4\ndisc 2\n")
	fmt.Fprintf(w, "reset\nconn 1\nconn 2\nconn 4\nroute 1 via 2\nreq 1 8 4\ndisc 1\nresp 4 8 ok 4\ndisc 2\n")
	fmt.Fprintf(w, "reset\nconn 1\nconn 2\nconn 4\nreq 1 9 4\ndisc 1\nroute 1 via 2\nconn 1\nresp 4 9 ok 4\ndisc 2\n")
	for c := 0; c < n; c++ {
		fmt.Fprintf(w, "reset\n")
		np := 3 + r.intn(3)
		connected := map[int]bool{}
		for p := 1; p <= np; p++ {
			fmt.Fprintf(w, "conn %d\n", p)
			connected[p] = true
		}
		distinct := r.chance(40)
		counter := map[int]uint64{}
		var global uint64 = 1000
		type fl struct {
			hop    int
			id     uint64
			target int
		}
		var inflight []fl
		nOps := 2 + r.intn(14)
		if r.chance(3) {
			nOps = 120
		}
		var own uint64
		for k := 0; k < nOps; k++ {
			switch x := r.intn(100); {
			case x < 35:
				src := 1 + r.intn(np)
				if !connected[src] { // frames only arrive from connected peers
					continue
				}
				target := 1 + r.intn(np+1)
				for target == src {
					target = 1 + r.intn(np+1)
				}
				var id uint64
				if distinct {
					global++
					id = global
				} else {
					counter[src]++
					id = counter[src]
					if r.chance(3) {
						id = []uint64{0, 1 << 63, ^uint64(0)}[r.intn(3)]
					}
				}
				switch y := r.intn(10); {
				case y < 5: // direct target, empty path
					fmt.Fprintf(w, "req %d %d %d\n", src, id, target)
					if target <= np {
						inflight = append(inflight, fl{target, id, target})
					}
				case y < 8: // explicit path through another peer
					hop := 1 + r.intn(np+1)
					fmt.Fprintf(w, "req %d %d %d %d\n", src, id, 7, hop)
					if hop <= np {
						inflight = append(inflight, fl{hop, id, 7})
					}
				case y < 9: // two-element path
					hop := 1 + r.intn(np)
					fmt.Fprintf(w, "req %d %d %d %d %d\n", src, id, 9, hop, 8)
					inflight = append(inflight, fl{hop, id, 9})
				default: // for this agent itself
					fmt.Fprintf(w, "req %d %d 0\n", src, id)
				}
			case x < 50:
				t := 1 + r.intn(np+1)
				fmt.Fprintf(w, "send %d\n", t)
				if t <= np && connected[t] {
					own++
					inflight = append(inflight, fl{t, own, t})
					// local request lifecycle: the caller gives up, a new request follows at once; the answer
					// to the abandoned request stays in flight and arrives before or after the new one's
					if r.chance(35) {
						fmt.Fprintf(w, "cancel %d\n", own)
						if r.chance(70) {
							t2 := 1 + r.intn(np)
							fmt.Fprintf(w, "send %d\n", t2)
							if connected[t2] {
								own++
								inflight = append(inflight, fl{t2, own, t2})
								if r.chance(50) { // the stale answer first
									k := len(inflight) - 2
									fmt.Fprintf(w, "resp %d %d ok %d\n", inflight[k].hop, inflight[k].id, inflight[k].target)
									inflight = append(inflight[:k], inflight[k+1:]...)
								}
							}
						}
					}
				}
			case x < 53 && own > 0:
				fmt.Fprintf(w, "cancel %d\n", 1+uint64(r.intn(int(own))))
			case x < 57:
				// a local request whose write fails (the id is burnt), or stalls and then fails / completes
				t := 1 + r.intn(np)
				if !connected[t] {
					continue
				}
				own++
				switch r.intn(3) {
				case 0:
					fmt.Fprintf(w, "sendfail %d\n", t)
				case 1:
					fmt.Fprintf(w, "sendstall %d\n", t)
					t2 := 1 + r.intn(np)
					if t2 != t && connected[t2] {
						fmt.Fprintf(w, "send %d\n", t2)
						own++
						inflight = append(inflight, fl{t2, own, t2})
					}
					fmt.Fprintf(w, "release %d fail\n", t)
				default:
					fmt.Fprintf(w, "sendstall %d\nrelease %d ok\n", t, t)
					inflight = append(inflight, fl{t, own, t})
				}
			case x < 59:
				// sleep / wake: every peer is gone, reconnects afterwards; requests in flight may still be answered
				fmt.Fprintf(w, "sleep\nwake\n")
				for p := 1; p <= np; p++ {
					connected[p] = false
					if r.chance(80) {
						fmt.Fprintf(w, "conn %d\n", p)
						connected[p] = true
					}
				}
			case x < 85 && len(inflight) > 0:
				i := 0
				if r.chance(30) {
					i = r.intn(len(inflight))
				}
				f := inflight[i]
				if !connected[f.hop] {
					inflight = append(inflight[:i], inflight[i+1:]...)
					continue
				}
				fmt.Fprintf(w, "resp %d %d %s %d\n", f.hop, f.id, r.pickS("ok", "ok", "ok", "fail"), f.target)
				if !r.chance(8) { // sometimes the same response arrives twice
					inflight = append(inflight[:i], inflight[i+1:]...)
				}
			case x < 90:
				if p := 1 + r.intn(np); connected[p] {
					fmt.Fprintf(w, "resp %d %d ok %d\n", p, 1+uint64(r.intn(4)), 1+r.intn(np))
				}
			case x < 95:
				p := 1 + r.intn(np)
				fmt.Fprintf(w, "disc %d\n", p)
				connected[p] = false
			default:
				p := 1 + r.intn(np)
				fmt.Fprintf(w, "conn %d\n", p)
				connected[p] = true
			}
		}
		for _, f := range inflight {
			if connected[f.hop] {
				fmt.Fprintf(w, "resp %d %d ok %d\n", f.hop, f.id, f.target)
			}
		}
	}
}
