//go:build verif && (all || c27)

package main

import (
	"archive/tar"
	"bufio"
	"bytes"
	"compress/gzip"
	"fmt"
	"hash/fnv"
	"os"
	"path/filepath"
	"sort"
	"strconv"
	"strings"
	"syscall"

	"github.com/postalsys/muti-metroo/internal/filetransfer"
	"github.com/postalsys/muti-metroo/internal/health"
)

// Engine c27: the real filetransfer.UntarDirectory on real directories inside a throw-away
// sandbox, with an outside sentinel tree next to the destination.
//
//	reset                         -> ok        (fresh empty sandbox root R)
//	pre dir <p> | pre file <p> <content> | pre sym <p> <target> | pre hard <p> <old>   -> ok|err
//	snap                          -> <listing>
//	untar <dest> <entry>...       -> ok|err <listing>
//	  entry = d:<name> | f:<name>:<content> | s:<name>:<target> | h:<name>:<target> | o:<name>
//
// Paths are relative to R; an absolute symlink target "/x" means R/x.  A content token "<id>x<n>"
// stands for n pseudo-random bytes derived from the token (n may be large).  Listing: all entries
// below R sorted by path, `p=d`, `p=f<k>:<content>` (k = index of the first listed path with the
// same inode), `p=l:<target>`.  R sits at the bottom of a 48-level chain of private directories so
// that an escaping extraction cannot reach real files; if that chain is touched the listing
// starts with ESCAPED.
var c27Base, c27Root string
var c27Case int
var c27Tokens = map[string]string{} // "<len>:<fnv>" -> token

const c27Chain = 48

func c27ChainIntact() bool {
	p := filepath.Join(c27Base, strconv.Itoa(c27Case))
	for i := 0; i <= c27Chain; i++ {
		ents, err := os.ReadDir(p)
		want := "z"
		if i == c27Chain {
			want = "r"
		}
		if err != nil || len(ents) != 1 || ents[0].Name() != want || !ents[0].IsDir() {
			return false
		}
		p = filepath.Join(p, want)
	}
	return true
}

func c27Setup() {
	if c27Base == "" {
		d, err := os.MkdirTemp("", "verif-c27-")
		must(err)
		d, err = filepath.EvalSymlinks(d)
		must(err)
		c27Base = d
	}
	c27Tokens = map[string]string{}
	// reuse the private chain while nothing escaped into it: only empty R
	if c27Root != "" && c27ChainIntact() {
		ents, _ := os.ReadDir(c27Root)
		for _, e := range ents {
			must(os.RemoveAll(filepath.Join(c27Root, e.Name())))
		}
		return
	}
	if c27Root != "" {
		os.RemoveAll(filepath.Join(c27Base, strconv.Itoa(c27Case)))
	}
	c27Case++
	p := filepath.Join(c27Base, strconv.Itoa(c27Case))
	for i := 0; i < c27Chain; i++ {
		p = filepath.Join(p, "z")
	}
	p = filepath.Join(p, "r")
	must(os.MkdirAll(p, 0o755))
	c27Root = p
}

func c27Content(tok string) []byte {
	// the token text itself followed by pseudo-random padding up to the requested size: distinct
	// tokens always give distinct contents
	n := 0
	if i := strings.LastIndexByte(tok, 'x'); i >= 0 {
		n, _ = strconv.Atoi(tok[i+1:])
	}
	b := []byte(tok + ":")
	r := newRng(int64(len(tok)))
	h := fnv.New64a()
	h.Write([]byte(tok))
	r.s ^= h.Sum64()
	for len(b) < n {
		v := r.u64()
		for k := 0; k < 8 && len(b) < n; k++ {
			b = append(b, byte(v>>(8*k)))
		}
	}
	h2 := fnv.New64a()
	h2.Write(b)
	c27Tokens[fmt.Sprintf("%d:%x", len(b), h2.Sum64())] = tok
	return b
}

func c27Real(p string) string { return filepath.Join(c27Root, filepath.FromSlash(p)) }

func c27RealTarget(t string) string {
	if strings.HasPrefix(t, "/") {
		return c27Root + t
	}
	return t
}

func c27Snapshot() string { return c27SnapshotExcept("") }

// c27SnapshotExcept lists the sandbox without what lies strictly below `below` (a path relative to R).
func c27SnapshotExcept(below string) string {
	type ent struct {
		p, desc string
		ino     uint64
		file    bool
	}
	var es []ent
	filepath.Walk(c27Root, func(path string, info os.FileInfo, err error) error {
		if err != nil || path == c27Root {
			return nil
		}
		rel, _ := filepath.Rel(c27Root, path)
		rel = filepath.ToSlash(rel)
		if below != "" && strings.HasPrefix(rel, below+"/") {
			return nil
		}
		switch {
		case info.Mode()&os.ModeSymlink != 0:
			t, _ := os.Readlink(path)
			if strings.HasPrefix(t, c27Root+"/") || t == c27Root {
				t = strings.TrimPrefix(t, c27Root)
				if t == "" {
					t = "/"
				}
			}
			es = append(es, ent{p: rel, desc: "l:" + t})
		case info.IsDir():
			es = append(es, ent{p: rel, desc: "d"})
		case info.Mode().IsRegular():
			b, _ := os.ReadFile(path)
			h := fnv.New64a()
			h.Write(b)
			tok, ok := c27Tokens[fmt.Sprintf("%d:%x", len(b), h.Sum64())]
			if !ok {
				tok = fmt.Sprintf("?%d", len(b))
			}
			var ino uint64
			if st, ok := info.Sys().(*syscall.Stat_t); ok {
				ino = st.Ino
			}
			es = append(es, ent{p: rel, desc: tok, ino: ino, file: true})
		default:
			es = append(es, ent{p: rel, desc: "other"})
		}
		return nil
	})
	sort.Slice(es, func(i, j int) bool { return es[i].p < es[j].p })
	first := map[uint64]int{}
	var parts []string
	for i, e := range es {
		if e.file {
			k, ok := first[e.ino]
			if !ok {
				k = i
				first[e.ino] = i
			}
			parts = append(parts, fmt.Sprintf("%s=f%d:%s", e.p, k, e.desc))
		} else if e.desc == "d" {
			parts = append(parts, e.p+"=d")
		} else {
			parts = append(parts, e.p+"="+e.desc)
		}
	}
	out := strings.Join(parts, ",")
	if out == "" {
		out = "-"
	}
	// the private chain above R must be exactly as created
	if !c27ChainIntact() {
		return "ESCAPED:" + out
	}
	return out
}

func c27Archive(entries []string, plain bool) ([]byte, error) {
	var buf bytes.Buffer
	gz := gzip.NewWriter(&buf)
	tw := tar.NewWriter(gz)
	if plain {
		tw = tar.NewWriter(&buf)
	}
	for _, e := range entries {
		f := strings.Split(e, ":")
		var h *tar.Header
		var body []byte
		switch f[0] {
		case "d":
			h = &tar.Header{Name: f[1], Typeflag: tar.TypeDir, Mode: 0o755}
		case "f":
			body = c27Content(f[2])
			h = &tar.Header{Name: f[1], Typeflag: tar.TypeReg, Mode: 0o644, Size: int64(len(body))}
		case "s":
			h = &tar.Header{Name: f[1], Typeflag: tar.TypeSymlink, Linkname: c27RealTarget(f[2]), Mode: 0o777}
		case "h":
			h = &tar.Header{Name: f[1], Typeflag: tar.TypeLink, Linkname: c27RealTarget(f[2]), Mode: 0o644}
		case "o":
			h = &tar.Header{Name: f[1], Typeflag: tar.TypeFifo, Mode: 0o644}
		case "c": // character / block device entries: skipped like every other unsupported type
			h = &tar.Header{Name: f[1], Typeflag: tar.TypeChar, Mode: 0o644, Devmajor: 1, Devminor: 3}
		case "b":
			h = &tar.Header{Name: f[1], Typeflag: tar.TypeBlock, Mode: 0o644, Devmajor: 8, Devminor: 0}
		case "F": // regular file in GNU format (long names use ././@LongLink entries instead of PAX records)
			body = c27Content(f[2])
			h = &tar.Header{Name: f[1], Typeflag: tar.TypeReg, Mode: 0o644, Size: int64(len(body)), Format: tar.FormatGNU}
		case "S": // symlink in GNU format
			h = &tar.Header{Name: f[1], Typeflag: tar.TypeSymlink, Linkname: c27RealTarget(f[2]), Mode: 0o777, Format: tar.FormatGNU}
		default:
			return nil, fmt.Errorf("bad entry %q", e)
		}
		if err := tw.WriteHeader(h); err != nil {
			return nil, err
		}
		if len(body) > 0 {
			if _, err := tw.Write(body); err != nil {
				return nil, err
			}
		}
	}
	if err := tw.Close(); err != nil {
		return nil, err
	}
	if !plain {
		if err := gz.Close(); err != nil {
			return nil, err
		}
	}
	return buf.Bytes(), nil
}

// c27RawArchive builds an archive from the entries and then damages it / makes it hostile.
func c27RawArchive(variant string, seed int64, entries []string) []byte {
	r := newRng(seed)
	plain, err := c27Archive(entries, true)
	must(err)
	gz := func(b []byte) []byte {
		var buf bytes.Buffer
		w := gzip.NewWriter(&buf)
		w.Write(b)
		w.Close()
		return buf.Bytes()
	}
	octal := func(b []byte, off, n int, v string) { // overwrite a numeric header field
		for i := 0; i < n; i++ {
			b[off+i] = 0
		}
		copy(b[off:off+n], v)
	}
	fixsum := func(b []byte, off int) {
		for i := 148; i < 156; i++ {
			b[off+i] = ' '
		}
		var sum int
		for i := 0; i < 512; i++ {
			sum += int(b[off+i])
		}
		copy(b[off+148:off+156], fmt.Sprintf("%06o\x00 ", sum))
	}
	hdr := 0 // offset of a header block to damage: the first one, or a later 512-aligned block that looks like one
	if len(plain) >= 1024 && r.chance(60) {
		for try := 0; try < 20; try++ {
			o := 512 * r.intn(len(plain)/512)
			if plain[o+257] == 'u' && plain[o+258] == 's' { // "ustar"
				hdr = o
				break
			}
		}
	}
	switch variant {
	case "truncgz": // the gzip stream is cut
		g := gz(plain)
		return g[:r.intn(len(g)+1)]
	case "trunctar": // the tar stream is cut (inside a header, inside a body, before the end marker)
		return gz(plain[:r.intn(len(plain)+1)])
	case "badsum":
		if len(plain) >= 512 {
			plain[hdr+148+r.intn(6)] ^= 0x15
		}
	case "hugesize": // the header announces far more data than follows
		if len(plain) >= 512 {
			octal(plain, hdr+124, 12, r.pickS("77777777777", "00000200000", "37777777777"))
			fixsum(plain, hdr)
		}
	case "badsize":
		if len(plain) >= 512 {
			octal(plain, hdr+124, 12, r.pickS("-0000000001", "zzzzzzzzzzz", "\x80\xff\xff\xff\xff\xff\xff\xff\xff\xff\xff\xff"))
			fixsum(plain, hdr)
		}
	case "badtype":
		if len(plain) >= 512 {
			plain[hdr+156] = byte(r.pickS("Z", "7", "D", "M", "N", "V", "\x00", "x", "g", "L", "K")[0])
			fixsum(plain, hdr)
		}
	case "garbage":
		plain = append(plain, r.bytes(r.pick(1, 511, 512, 2000))...)
	case "noise":
		for k := r.pick(1, 3, 20); k > 0 && len(plain) > 0; k-- {
			plain[r.intn(len(plain))] ^= byte(1 << r.intn(8))
		}
	case "nulname":
		if len(plain) >= 512 {
			plain[hdr+r.intn(6)] = 0
			fixsum(plain, hdr)
		}
	case "dotdotname": // a raw header name that the writer would not produce
		if len(plain) >= 512 {
			octal(plain, hdr, 100, r.pickS("../raw-escape", "a/../../raw-escape", "/raw-abs", "..", "a/../..", "./../x"))
			fixsum(plain, hdr)
		}
	case "pax": // PAX records override name / link name after the header was built
		var buf bytes.Buffer
		tw := tar.NewWriter(&buf)
		body := []byte("pax-body")
		tw.WriteHeader(&tar.Header{Name: "innocent", Typeflag: tar.TypeReg, Mode: 0o644, Size: int64(len(body)),
			PAXRecords: map[string]string{"path": r.pickS("../pax-escape", "/pax-abs", "a/../../pax-escape", strings.Repeat("d/", 300) + "deep")}})
		tw.Write(body)
		tw.WriteHeader(&tar.Header{Name: "lnk", Typeflag: tar.TypeSymlink, Linkname: "x", Mode: 0o777,
			PAXRecords: map[string]string{"linkpath": r.pickS("../..", "/etc", "..")}})
		tw.WriteHeader(&tar.Header{Name: "lnk/through", Typeflag: tar.TypeReg, Mode: 0o644, Size: int64(len(body))})
		tw.Write(body)
		tw.Close()
		plain = append(buf.Bytes(), plain...)
		_ = plain
		plain = buf.Bytes()
	}
	if seed%2 == 0 && seed%3 == 0 { // the HTTP upload path also takes a plain tar
		return plain
	}
	return gz(plain)
}

func c27Ok(err error) string {
	if err != nil {
		return "err"
	}
	return "ok"
}

func c27Run(line string) string {
	f := fields(line)
	switch f[0] {
	case "reset":
		c27Setup()
		return "ok"
	case "pre":
		switch f[1] {
		case "dir":
			return c27Ok(os.Mkdir(c27Real(f[2]), 0o755))
		case "file":
			return c27Ok(os.WriteFile(c27Real(f[2]), c27Content(f[3]), 0o644))
		case "sym":
			return c27Ok(os.Symlink(c27RealTarget(f[3]), c27Real(f[2])))
		case "hard":
			return c27Ok(os.Link(c27Real(f[3]), c27Real(f[2])))
		}
	case "snap":
		return c27Snapshot()
	case "untar":
		ar, err := c27Archive(f[2:], false)
		if err != nil {
			return "bad-archive " + strings.ReplaceAll(err.Error(), " ", "_")
		}
		err = filetransfer.UntarDirectory(bytes.NewReader(ar), c27Real(f[1]))
		return c27Ok(err) + " " + c27Snapshot()
	case "untarraw":
		// malformed / hostile streams: untarraw <dest> <variant> <seed> <entry>...  -> done <listing without what is below dest>
		// totality (no panic, the call returns) and "outside unchanged"; what is left below dest is not predicted
		seed, _ := strconv.ParseInt(f[3], 10, 64)
		ar := c27RawArchive(f[2], seed, f[4:])
		if seed%3 == 0 {
			health.VerifC27ExtractTar(bytes.NewReader(ar), c27Real(f[1]))
		} else {
			filetransfer.UntarDirectory(bytes.NewReader(ar), c27Real(f[1]))
		}
		return "done " + c27SnapshotExcept(f[1])
	case "untarh", "untarhp":
		// the HTTP directory-upload path: health.extractTarWithFallback, gzip ("untarh") or plain tar ("untarhp")
		ar, err := c27Archive(f[2:], f[0] == "untarhp")
		if err != nil {
			return "bad-archive " + strings.ReplaceAll(err.Error(), " ", "_")
		}
		err = health.VerifC27ExtractTar(bytes.NewReader(ar), c27Real(f[1]))
		return c27Ok(err) + " " + c27Snapshot()
	}
	return "bad-op"
}

func c27Gen(w *bufio.Writer, seed int64, tier string) {
	r := newRng(seed)
	names := []string{"a", "a/b", "a/b/c", "a/b/c/x", "b", "x", "b/x", "c", "a/x", "a/b/x"}
	odd := []string{".", "a/..", "../x", "/abs", "a/../../x", "a/./b", "..", "a/../b", "../d/x"}
	targets := []string{"..", "../..", "b", "a", "a/b", "../x", "../../out", "../../out/secret", "c/..", "x", "../b", "../../..", "b/..", "a/b/..", "../a", "."}
	dest := "w/d"
	sentinels := func() {
		fmt.Fprintln(w, "reset")
		fmt.Fprintln(w, "pre dir out")
		fmt.Fprintln(w, "pre file out/secret s1")
		fmt.Fprintln(w, "pre dir out/sub")
		fmt.Fprintln(w, "pre file out/sub/f s2")
		fmt.Fprintln(w, "pre file top s3")
		fmt.Fprintln(w, "pre dir w")
		fmt.Fprintln(w, "pre file w/other s4")
	}
	mkEntry := func(k int) string {
		name := names[r.intn(len(names))]
		if r.chance(8) {
			name = odd[r.intn(len(odd))]
		}
		switch r.intn(10) {
		case 0, 1:
			return "d:" + name
		case 2, 3, 4:
			return fmt.Sprintf("f:%s:c%dx%d", name, k, r.pick(0, 1, 5, 100))
		case 5, 6, 7:
			return "s:" + name + ":" + targets[r.intn(len(targets))]
		case 8:
			return "h:" + name + ":" + names[r.intn(len(names))]
		default:
			switch r.intn(6) {
			case 0:
				return "o:" + name
			case 1:
				return r.pickS("c:", "b:") + name
			case 2:
				return fmt.Sprintf("F:%s:g%dx%d", name, k, r.pick(0, 9))
			case 3:
				return "S:" + name + ":" + targets[r.intn(len(targets))]
			}
			return "h:" + name + ":" + targets[r.intn(len(targets))]
		}
	}
	pre := func() {
		// state left at the destination by earlier activity: directories, files, symbolic links
		// (also escaping and absolute ones), hard links inside the destination.  Nothing is created
		// THROUGH an earlier symbolic link and no relative target climbs above the sandbox root
		// (the model's root is the sandbox root).
		if r.chance(60) {
			fmt.Fprintln(w, "pre dir "+dest)
		}
		var links []string
		through := func(p string) bool {
			for _, l := range links {
				if strings.HasPrefix(p, l+"/") {
					return true
				}
			}
			return false
		}
		ups := func(t string) int { return strings.Count(t, "..") }
		for k := r.pick(0, 0, 1, 2, 4); k > 0; k-- {
			p := dest + "/" + names[r.intn(len(names))]
			if through(p) {
				continue
			}
			depth := strings.Count(p, "/") // depth of the directory that holds the entry
			switch r.intn(8) {
			case 0, 1:
				fmt.Fprintln(w, "pre dir "+p)
			case 2, 3:
				fmt.Fprintf(w, "pre file %s p%d\n", p, k)
			case 4:
				t := r.pickS("../../out", "/out", "..", "../..", "/out/secret", "../../out/secret", "/top", "a", "nonexistent", "/w/d")
				if ups(t) <= depth {
					fmt.Fprintf(w, "pre sym %s %s\n", p, t)
					links = append(links, p)
				}
			case 5:
				t := targets[r.intn(len(targets))]
				if ups(t) <= depth {
					fmt.Fprintf(w, "pre sym %s %s\n", p, t)
					links = append(links, p)
				}
			case 6:
				old := dest + "/" + names[r.intn(len(names))]
				if !through(old) {
					fmt.Fprintf(w, "pre hard %s %s\n", p, old)
				}
			default:
				fmt.Fprintf(w, "pre sym %s %s\n", p, p[strings.LastIndexByte(p, '/')+1:]) // self loop
				links = append(links, p)
			}
		}
	}
	// the same archives go through UntarDirectory ("untar") and through the HTTP upload path
	// health.extractTarWithFallback, gzip-compressed ("untarh") or as a plain tar ("untarhp")
	untarOp := func() string {
		switch r.intn(20) {
		case 0, 1, 2, 3, 4:
			return "untarh"
		case 5, 6, 7:
			return "untarhp"
		}
		return "untar"
	}
	cases := 320
	if tier == "thorough" {
		cases = 12000
	}
	for i := 0; i < cases; i++ {
		sentinels()
		pre()
		rounds := r.pick(1, 1, 1, 2, 3) // later archives meet what earlier ones left behind
		for j := 0; j < rounds; j++ {
			n := r.pick(1, 2, 3, 3, 4, 5, 8)
			var es []string
			for k := 0; k < n; k++ {
				es = append(es, mkEntry(k))
			}
			fmt.Fprintln(w, "snap")
			fmt.Fprintf(w, "%s %s %s\n", untarOp(), dest, strings.Join(es, " "))
		}
	}
	// structured chains: a name is re-used across entry kinds (an empty directory replaced by a
	// symbolic link or hard link, a link replaced by a directory or a file), link targets are built
	// from the names of earlier link entries with "/.." suffixes, and later entries go below the
	// replaced name.  First an enumeration of the basic shape, then random longer ones.
	chain := func(es ...string) {
		sentinels()
		fmt.Fprintln(w, "pre file w/neighbour n1")
		if r.chance(30) {
			fmt.Fprintln(w, "pre dir "+dest)
		}
		fmt.Fprintln(w, "snap")
		fmt.Fprintf(w, "%s %s %s\n", untarOp(), dest, strings.Join(es, " "))
	}
	helperT := []string{".", "q/..", "..", "d"}
	replT := []string{"p/..", "p/../..", "p", "p/../../out", "../d", "p/x/.."}
	payload := []string{"f:d/escaped:e1", "d:d/sub", "s:d/l:..", "h:d/h:p/../neighbour", "f:d/sub/deep:e2", "f:d/../neighbour:e3"}
	for _, ht := range helperT {
		for _, rt := range replT {
			for _, pl := range payload {
				if tier != "thorough" && r.chance(40) {
					continue
				}
				chain("s:p:"+ht, "d:d", "s:d:"+rt, pl)
				if r.chance(35) {
					chain("d:d", "s:p:"+ht, "d:q", "s:d:"+rt, pl, "f:d/second:e4")
				}
			}
		}
	}
	nchains := 100
	if tier == "thorough" {
		nchains = 2500
	}
	pool := []string{"a", "b", "d", "p", "q"}
	for i := 0; i < nchains; i++ {
		var es []string
		var linkNames []string
		var dirNames []string
		n := 4 + r.intn(6)
		for k := 0; k < n; k++ {
			nm := pool[r.intn(len(pool))]
			if len(dirNames) > 0 && r.chance(35) { // below an earlier directory name (which may be a link by now)
				nm = dirNames[r.intn(len(dirNames))] + "/" + r.pickS("x", "sub", "l", nm)
			}
			tgt := func() string {
				t := r.pickS(".", "..", "x")
				if len(linkNames) > 0 && r.chance(70) {
					t = linkNames[r.intn(len(linkNames))]
				} else if len(dirNames) > 0 && r.chance(50) {
					t = dirNames[r.intn(len(dirNames))]
				}
				join := func(x string) { // keep targets normalised: no "." components
					if t == "." {
						t = x
					} else {
						t += "/" + x
					}
				}
				for j := r.pick(0, 1, 1, 2); j > 0; j-- {
					join("..")
				}
				if r.chance(15) {
					join(r.pickS("neighbour", "out", "d"))
				}
				return t
			}
			switch r.intn(10) {
			case 0, 1, 2:
				es = append(es, "d:"+nm)
				dirNames = append(dirNames, nm)
			case 3, 4, 5:
				es = append(es, "s:"+nm+":"+tgt())
				linkNames = append(linkNames, nm)
			case 6:
				es = append(es, "h:"+nm+":"+tgt())
			default:
				es = append(es, fmt.Sprintf("f:%s:k%dx%d", nm, k, r.pick(0, 3, 40)))
			}
		}
		chain(es...)
	}
	// malformed and hostile streams: truncated, bad checksums, absurd sizes, unknown type flags, raw
	// traversal names, PAX overrides, GNU long names — the extractor must return and leave the outside alone
	variants := []string{"truncgz", "trunctar", "badsum", "hugesize", "badsize", "badtype", "garbage", "noise", "nulname", "dotdotname", "pax"}
	nraw := 8
	if tier == "thorough" {
		nraw = 300
	}
	for _, v := range variants {
		for i := 0; i < nraw; i++ {
			sentinels()
			fmt.Fprintln(w, "pre file w/neighbour n1")
			if r.chance(40) {
				fmt.Fprintln(w, "pre dir "+dest)
			}
			var es []string
			for k := r.pick(1, 2, 3, 5); k > 0; k-- {
				es = append(es, mkEntry(k))
			}
			if r.chance(30) { // long names: PAX records / GNU long-name entries in front of the header
				long := strings.Repeat("n", r.pick(101, 200, 255))
				es = append(es, r.pickS("f:", "F:")+long+"/"+long+":c1x3")
			}
			fmt.Fprintln(w, "snap")
			fmt.Fprintf(w, "untarraw %s %s %d %s\n", dest, v, r.intn(1000), strings.Join(es, " "))
		}
	}
	// large / boundary inputs
	big := 6
	if tier == "thorough" {
		big = 60
	}
	for i := 0; i < big; i++ {
		sentinels()
		pre()
		var es []string
		switch r.intn(4) {
		case 0: // many entries, the same few paths over and over
			for k := 0; k < 300; k++ {
				es = append(es, mkEntry(k%7))
			}
		case 1: // large bodies (chunked copies), overwriting each other
			es = append(es, fmt.Sprintf("f:a/big:Lx%d", r.pick(32768, 32769, 70000, 1<<20)), "h:a/alias:a/big", fmt.Sprintf("f:a/alias:Mx%d", r.pick(1, 40000)), "s:a/l:big", fmt.Sprintf("f:a/l:Nx%d", 33000))
		case 2: // long component names (255 bytes is the limit) and deep paths
			long := strings.Repeat("n", 255)
			es = append(es, "d:"+long, "f:"+long+"/"+long+":c1x3", "s:"+long+"/l:..", "f:"+long+"/l/x:c2x3", "d:a/a/a/a/a/a/a/a/a/a/a/a/a/a/a/a", "s:a/a/a/a/a/a/a/a/up:../../../../../../../..", "f:a/a/a/a/a/a/a/a/up/y:c3x3")
		default: // symlink chains of growing depth
			es = append(es, "d:a")
			p := "a"
			for k := 0; k < r.pick(2, 3, 5); k++ {
				p += "/l"
				es = append(es, "s:"+p+":..")
			}
			es = append(es, "f:"+p+"/x:c9x9", "d:"+p+"/newdir", "s:"+p+"/s2:..", "h:h1:"+p+"/secret")
		}
		fmt.Fprintln(w, "snap")
		fmt.Fprintf(w, "%s %s %s\n", untarOp(), dest, strings.Join(es, " "))
	}
	// exhaustive small archives over a small alphabet
	en := []string{"a", "a/b", "a/b/c", "a/b/c/x", "x"}
	et := []string{"..", "b", "../..", "../x"}
	var kinds []string
	for _, n := range en {
		kinds = append(kinds, "d:"+n, "f:"+n+":e")
		for _, t := range et {
			kinds = append(kinds, "s:"+n+":"+t)
		}
		kinds = append(kinds, "h:"+n+":x", "h:"+n+":a/b/c/secret")
	}
	emit := func(es ...string) {
		sentinels()
		fmt.Fprintln(w, "pre file out/sub/secret s5")
		fmt.Fprintln(w, "snap")
		fmt.Fprintf(w, "%s %s %s\n", untarOp(), dest, strings.Join(es, " "))
	}
	if tier == "thorough" {
		for _, a := range kinds {
			for _, b := range kinds {
				emit(a, b)
				for _, c := range kinds {
					if r.chance(12) { // a sample of the 3-entry archives; the chain witness is in the corpus
						emit(a, b, c)
					}
				}
			}
		}
	} else {
		for _, a := range kinds {
			for _, b := range kinds {
				if r.chance(14) {
					emit(a, b)
				}
			}
		}
	}
}

func init() {
	register("c27", &Engine{Run: c27Run, Gen: c27Gen})
}
