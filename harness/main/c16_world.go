//go:build verif && (all || c16 || c17 || c18 || c39)

package main

import (
	"bytes"
	"fmt"
	"os"
	"sort"
	"strings"
	"sync"

	"github.com/postalsys/muti-metroo/internal/agent"
	"github.com/postalsys/muti-metroo/internal/config"
	"github.com/postalsys/muti-metroo/internal/identity"
	"github.com/postalsys/muti-metroo/internal/peer"
	"github.com/postalsys/muti-metroo/internal/protocol"
)

// c16World: one REAL agent (agent.New from a generated config, never started, so no listeners and
// no background loops) whose peer manager holds injected handshake-less connections. Frames the
// agent sends to a peer are written into that peer's buffer and decoded by the harness; incoming
// frames are dispatched through Agent.processFrame exactly as the peer read loop would.
// Shared by the c16 / c17r (relay dispatch) and c39 (control forwarding) engines.
type c16World struct {
	a     *agent.Agent
	dir   string
	self  identity.AgentID
	bufs  map[int]*c16Buf
	conns map[int]*peer.Connection
}

// c16Buf is a peer's write buffer (the agent may write from several goroutines).
type c16Buf struct {
	mu      sync.Mutex
	b       bytes.Buffer
	gate    chan error // when set, the next Write stalls until the script releases it (nil = proceed, error = write fails)
	waiting bool       // a Write is stalled at the gate
}

func (b *c16Buf) Write(p []byte) (int, error) {
	b.mu.Lock()
	gate := b.gate
	if gate != nil {
		b.gate = nil
		b.waiting = true
	}
	b.mu.Unlock()
	if gate != nil {
		err := <-gate
		b.mu.Lock()
		b.waiting = false
		b.mu.Unlock()
		if err != nil {
			return 0, err
		}
	}
	b.mu.Lock()
	defer b.mu.Unlock()
	return b.b.Write(p)
}

func (b *c16Buf) isWaiting() bool {
	b.mu.Lock()
	defer b.mu.Unlock()
	return b.waiting
}

func (b *c16Buf) Len() int {
	b.mu.Lock()
	defer b.mu.Unlock()
	return b.b.Len()
}

// peek returns a copy of the buffered bytes without consuming them.
func (b *c16Buf) peek() []byte {
	b.mu.Lock()
	defer b.mu.Unlock()
	return append([]byte(nil), b.b.Bytes()...)
}

// take returns and clears the buffered bytes.
func (b *c16Buf) take() []byte {
	b.mu.Lock()
	defer b.mu.Unlock()
	out := append([]byte(nil), b.b.Bytes()...)
	b.b.Reset()
	return out
}

// c16ID maps a small integer to a 16-byte agent id (0 = the agent under test).
func c16ID(n int) identity.AgentID {
	var id identity.AgentID
	id[0] = 0xA0
	id[15] = byte(n)
	id[14] = byte(n >> 8)
	return id
}

func c16Num(id identity.AgentID) int { return int(id[15]) | int(id[14])<<8 }

func c16NewWorld() *c16World { return c16NewWorldCfg(true, true, true) }

// c16NewWorldCfg: exitOn / udpOn / icmpOn choose which exit features the agent is configured with
// (a transit relays every kind of tunnel whatever its own exit configuration).
func c16NewWorldCfg(exitOn, udpOn, icmpOn bool) *c16World {
	dir, err := os.MkdirTemp("", "verif-c16-")
	must(err)
	cfg := config.Default()
	cfg.Agent.ID = c16ID(0).String()
	cfg.Agent.DataDir = dir
	cfg.Agent.LogLevel = "error"
	cfg.Exit.Enabled = exitOn // the agent is exit endpoint (loopback only) AND transit
	if exitOn {
		cfg.Exit.Routes = []string{"127.0.0.0/8"}
	}
	cfg.UDP.Enabled = udpOn // … and exit endpoint for UDP associations
	if !icmpOn {
		cfg.ICMP.Enabled = false
	}
	a, err := agent.New(cfg)
	must(err)
	return &c16World{a: a, dir: dir, self: c16ID(0), bufs: map[int]*c16Buf{}, conns: map[int]*peer.Connection{}}
}

func (w *c16World) close() {
	if w.dir != "" {
		os.RemoveAll(w.dir)
	}
}

// resetPeers drops every injected peer (start of a new case).
func (w *c16World) resetPeers() {
	for n := range w.conns {
		peer.C16RemovePeer(agent.C16PeerManager(w.a), c16ID(n))
	}
	w.bufs = map[int]*c16Buf{}
	w.conns = map[int]*peer.Connection{}
}

func (w *c16World) connect(n int, dialer bool) {
	if _, ok := w.conns[n]; ok {
		peer.C16RemovePeer(agent.C16PeerManager(w.a), c16ID(n))
	}
	b := &c16Buf{}
	w.bufs[n] = b
	w.conns[n] = peer.C16InjectPeer(agent.C16PeerManager(w.a), w.self, c16ID(n), dialer, b)
}

// forgetPeers drops the harness-side handles after the agent itself closed every connection (sleep).
func (w *c16World) forgetPeers() {
	w.bufs = map[int]*c16Buf{}
	w.conns = map[int]*peer.Connection{}
}

// disconnect mirrors peer.Manager.handleDisconnect: remove from the peer table, then the callback.
func (w *c16World) disconnect(n int) {
	c := w.conns[n]
	if c == nil {
		return
	}
	peer.C16RemovePeer(agent.C16PeerManager(w.a), c16ID(n))
	delete(w.conns, n)
	delete(w.bufs, n)
	agent.C16Disconnect(w.a, c)
}

type c16Sent struct {
	peer int
	f    *protocol.Frame
}

// drain returns every frame written to any peer since the last call, ordered by peer number
// (frames to one peer keep their order).
func (w *c16World) drain() []c16Sent {
	var ns []int
	for n := range w.bufs {
		ns = append(ns, n)
	}
	sort.Ints(ns)
	var out []c16Sent
	for _, n := range ns {
		data := w.bufs[n].take()
		if len(data) == 0 {
			continue
		}
		r := protocol.NewFrameReader(bytes.NewReader(data))
		for {
			f, err := r.Read()
			if err != nil {
				break
			}
			out = append(out, c16Sent{n, f})
		}
	}
	return out
}

func c16ShowTable(t *agent.C16Table) string {
	up, down := agent.C16Dump(t)
	show := func(kvs []agent.C16KV) string {
		var parts []string
		for _, kv := range kvs {
			parts = append(parts, fmt.Sprintf("%d:(%d,%d,%d,%d)", kv.Key, c16Num(kv.E.UpstreamPeer), kv.E.UpstreamID, c16Num(kv.E.DownstreamPeer), kv.E.DownstreamID))
		}
		return "[" + strings.Join(parts, " ") + "]"
	}
	return "up=" + show(up) + " down=" + show(down)
}
