//go:build verif && (all || c08 || c09 || c10)

package main

import (
	"os"
	"sort"
	"strconv"
	"strings"
	"sync"
)

// c08NormRuns sorts, by text, every run of consecutive entry tokens that carry one metric (field 3):
// sort.Slice is not stable, so the order inside such a run is unspecified; the order of the metrics
// themselves is printed as stored (an unsorted slice stays visible). The Lean side prints slices
// the same way (`renderGroup`).
func c08NormRuns(toks []string) []string {
	metric := func(t string) string {
		f := strings.Split(t, ",")
		if len(f) < 4 {
			return ""
		}
		return f[3]
	}
	out := append([]string(nil), toks...)
	for i := 0; i < len(out); {
		j := i + 1
		for j < len(out) && metric(out[j]) == metric(out[i]) {
			j++
		}
		sort.Strings(out[i:j])
		i = j
	}
	return out
}

// Concurrency stress op shared by the c08 / c09 / c10 engines:
//
//	race <n> | <op> | <op> ...
//
// Every listed (mutating) op is executed by n goroutines, all released at once, on the real table.
// Because a racy interleaving is rare, the experiment is repeated: a fresh state is built, the
// case's history is replayed on it sequentially, the goroutines run. The first attempt whose table
// is visibly broken (two entries in one slot, or a slice not sorted by metric) is reported; if none
// is, the last attempt is. The verdict is the model's: the table must be well formed and equal to
// the result of some serial order of the ops (Lean side: `raceVerdict`).

// c08RaceTries: attempts per race op (VERIF_RACE_TRIES overrides).
func c08RaceTries() int {
	if v, err := strconv.Atoi(os.Getenv("VERIF_RACE_TRIES")); err == nil && v > 0 {
		return v
	}
	return 400
}

// c08RaceOps parses the line into the list of ops, each repeated n times.
func c08RaceOps(line string) []string {
	parts := strings.Split(line, " | ")
	n := 1
	if f := strings.Fields(parts[0]); len(f) > 1 {
		if v, err := strconv.Atoi(f[1]); err == nil {
			n = v
		}
	}
	var ops []string
	for _, p := range parts[1:] {
		for i := 0; i < n; i++ {
			ops = append(ops, strings.TrimSpace(p))
		}
	}
	return ops
}

// c08Sane: no two entries of a slice in one slot (origin; origin+next hop when byHop), metrics ascending.
func c08Sane(dump string, byHop bool) bool {
	seen := map[string]bool{}
	last := -1
	for _, tok := range strings.Fields(dump) {
		if strings.HasPrefix(tok, "G") {
			seen = map[string]bool{}
			last = -1
			continue
		}
		f := strings.Split(tok, ",")
		if len(f) < 4 {
			continue
		}
		slot := f[2]
		if byHop {
			slot = f[1] + "/" + f[2]
		}
		if seen[slot] {
			return false
		}
		seen[slot] = true
		m, _ := strconv.Atoi(f[3])
		if m < last {
			return false
		}
		last = m
	}
	return true
}

// c08Race runs the experiment. fresh() builds a new state with the history replayed and returns
// (do, dump, commit): do executes one op without printing, dump prints the table the race is
// about, commit installs the state as the engine's current one.
func c08Race(line string, byHop bool, fresh func() (do func(op string), dump func() string, commit func())) string {
	ops := c08RaceOps(line)
	tries := c08RaceTries()
	// what the real code yields when the ops run one after the other, in every order (only used to
	// pick which attempt to report: an outcome no serial order produces is worth reporting)
	serial := map[string]bool{}
	for _, ord := range c08Orders(ops, 120) {
		do, dump, _ := fresh()
		for _, op := range ord {
			do(op)
		}
		serial[dump()] = true
	}
	out := ""
	for a := 0; a < tries; a++ {
		do, dump, commit := fresh()
		start := make(chan struct{})
		var wg sync.WaitGroup
		for _, op := range ops {
			wg.Add(1)
			go func(op string) {
				defer wg.Done()
				<-start
				do(op)
			}(op)
		}
		close(start)
		wg.Wait()
		out = dump()
		if !c08Sane(out, byHop) || !serial[out] || a == tries-1 {
			commit()
			break
		}
	}
	return "race ; " + out
}

// c08Orders: the distinct orders of a multiset of ops (at most limit of them).
func c08Orders(ops []string, limit int) [][]string {
	var res [][]string
	var rec func(rest []string, acc []string)
	rec = func(rest []string, acc []string) {
		if len(res) >= limit {
			return
		}
		if len(rest) == 0 {
			res = append(res, append([]string(nil), acc...))
			return
		}
		seen := map[string]bool{}
		for i, op := range rest {
			if seen[op] {
				continue
			}
			seen[op] = true
			next := append(append([]string(nil), rest[:i]...), rest[i+1:]...)
			rec(next, append(acc, op))
		}
	}
	rec(ops, nil)
	return res
}
