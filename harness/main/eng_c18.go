//go:build verif && (all || c18)

package main

import (
	"bufio"
	"context"
	"fmt"
	"io"
	"runtime"
	"sort"
	"strconv"
	"strings"
	"sync"
	"sync/atomic"
	"time"

	"github.com/postalsys/muti-metroo/internal/identity"
	"github.com/postalsys/muti-metroo/internal/protocol"
	"github.com/postalsys/muti-metroo/internal/stream"
	"github.com/postalsys/muti-metroo/internal/verifhook"
)

// Engine c18: real stream.Manager / stream.Stream with a reader goroutine parked in Read.
// The FIN-with-data interleaving is scripted through the verifhook point inside
// Manager.HandleStreamData ("between-push-and-fin"): op `frame … h` runs a parked reader that is
// ready to completion exactly there.
//
// Reader answers are collected deterministically: whether a parked reader is ready is decided from
// monotone facts only (accepted pushes minus collected chunks > 0, remoteFinCh closed, closed);
// when ready its answer is awaited, otherwise it is reported `parked`.

const c18HookName = "stream.HandleStreamData.between-push-and-fin"

type c18Stream struct {
	id        uint64
	s         *stream.Stream
	reqID     uint64 // pending OpenStream request (0 = none)
	reader    chan string
	cancel    context.CancelFunc
	pushed    int
	delivered int
}

type c18World struct {
	m       *stream.Manager
	streams map[uint64]*c18Stream
	stuck   bool
}

func c18New() *c18World {
	return &c18World{m: stream.NewManager(stream.DefaultManagerConfig(), identity.AgentID{1}), streams: map[uint64]*c18Stream{}}
}

func (w *c18World) teardown() {
	for _, st := range w.streams {
		if st.cancel != nil {
			st.cancel()
		}
		if st.reqID != 0 {
			w.m.CancelPendingRequest(st.reqID)
		}
	}
	w.m.Close()
}

func (w *c18World) ready(st *c18Stream) bool {
	sn := stream.C18Snapshot(st.s)
	return st.pushed-st.delivered > 0 || sn.FinCh || sn.Done
}

func (w *c18World) collect(st *c18Stream) string {
	if st.reader == nil {
		return "-"
	}
	if !w.ready(st) {
		return "parked"
	}
	to := 3 * time.Second
	if w.stuck {
		to = 50 * time.Millisecond
	}
	select {
	case r := <-st.reader:
		st.reader = nil
		st.cancel()
		st.cancel = nil
		if strings.HasPrefix(r, "data:") {
			st.delivered++
		}
		return r
	case <-time.After(to):
		w.stuck = true
		return "stuck"
	}
}

func (w *c18World) startReader(st *c18Stream) {
	ctx, cancel := context.WithCancel(context.Background())
	ch := make(chan string, 1)
	st.reader, st.cancel = ch, cancel
	s := st.s
	go func() {
		d, err := s.Read(ctx)
		switch {
		case err == nil:
			ch <- "data:" + hexTok(d)
		case err == io.EOF:
			ch <- "eof"
		default:
			ch <- "ctx"
		}
	}()
}

func c18b(b bool) string {
	if b {
		return "1"
	}
	return "0"
}

func (w *c18World) dump() string {
	ids := make([]uint64, 0, len(w.streams))
	for id := range w.streams {
		ids = append(ids, id)
	}
	sort.Slice(ids, func(i, j int) bool { return ids[i] < ids[j] })
	var parts []string
	for _, id := range ids {
		st := w.streams[id]
		sn := stream.C18Snapshot(st.s)
		letter := map[stream.StreamState]string{stream.StateOpening: "P", stream.StateOpen: "O", stream.StateHalfClosedLocal: "L",
			stream.StateHalfClosedRemote: "R", stream.StateClosed: "C"}[sn.State]
		parts = append(parts, fmt.Sprintf("%d:st=%s lf=%s rf=%s fc=%s cl=%s n=%d reg=%s cw=%s cr=%s", id, letter, c18b(sn.LocalFin), c18b(sn.RemoteFin),
			c18b(sn.FinCh), c18b(sn.Done), st.pushed-st.delivered, c18b(stream.C18Registered(w.m, id, st.s)), c18b(st.s.CanWrite()), c18b(st.s.CanRead())))
	}
	return strings.Join(parts, " ; ")
}

func (w *c18World) out(res, mid, end string) string {
	return fmt.Sprintf("%s mid=%s end=%s | %s", res, mid, end, w.dump())
}

func init() {
	var w *c18World
	register("c18", &Engine{
		Run: func(line string) string {
			f := fields(line)
			if f[0] == "reset" || w == nil {
				if w != nil {
					w.teardown()
				}
				w = c18New()
				if f[0] == "reset" {
					return w.out("ok", "-", "-")
				}
			}
			if f[0] == "race" {
				n, _ := strconv.Atoi(f[2])
				return w.out(c18Race(f[1], n), "-", "-")
			}
			id, _ := strconv.ParseUint(f[1], 10, 64)
			st := w.streams[id]
			switch f[0] {
			case "accept":
				if st != nil && st.cancel != nil {
					st.cancel()
				}
				s, err := w.m.AcceptStream(id, 7, identity.AgentID{2}, "dest", 80)
				must(err)
				w.streams[id] = &c18Stream{id: id, s: s}
				return w.out("ok", "-", "-")
			case "openreq":
				if st != nil && st.cancel != nil {
					st.cancel()
				}
				p := w.m.OpenStream(id, identity.AgentID{2}, "dest", 80, time.Hour)
				s := stream.C18PendingStream(w.m, p.RequestID)
				if s == nil {
					return "err no-pending-stream"
				}
				w.streams[id] = &c18Stream{id: id, s: s, reqID: p.RequestID}
				return w.out("ok", "-", "-")
			}
			if st == nil {
				switch f[0] {
				case "frame":
					if err := w.m.HandleStreamData(id, 0, nil); err != nil {
						return w.out("unknown", "-", "-")
					}
					return w.out("ok", "-", "-")
				case "rclose":
					w.m.HandleStreamClose(id)
					return w.out("ok", "-", "-")
				case "rreset":
					w.m.HandleStreamReset(id, 1)
					return w.out("ok", "-", "-")
				case "lremove":
					w.m.RemoveStream(id)
					return w.out("ok", "-", "-")
				}
				return w.out("unknown", "-", "-")
			}
			switch f[0] {
			case "ack":
				if st.reqID == 0 {
					if _, err := w.m.HandleStreamOpenAck(1<<40, nil, 0, [32]byte{}); err == nil {
						return "err ack-of-unknown-request-accepted"
					}
					return w.out("err", "-", "-")
				}
				_, err := w.m.HandleStreamOpenAck(st.reqID, nil, 0, [32]byte{})
				st.reqID = 0
				if err != nil {
					return w.out("err", "-", "-")
				}
				return w.out("ok", "-", w.collect(st))
			case "frame":
				var flags uint8
				if f[2] == "1" {
					flags = protocol.FlagFinWrite
				}
				data := unhexTok(f[3])
				hooked := f[4] == "h"
				mid := "-"
				fired := false
				prev := verifhook.Point
				verifhook.Point = func(name string) {
					if name != c18HookName || fired {
						if prev != nil {
							prev(name)
						}
						return
					}
					fired = true
					if len(data) > 0 {
						st.pushed++ // the point is reached only after PushData accepted the payload
					}
					if hooked {
						mid = w.collect(st)
					}
				}
				err := w.m.HandleStreamData(id, flags, data)
				verifhook.Point = prev
				res := "ok"
				switch {
				case err == io.EOF:
					res = "eof"
				case err != nil:
					res = "unknown"
				case !fired && len(data) > 0:
					st.pushed++ // call site missing: fall back to the return value
				}
				return w.out(res, mid, w.collect(st))
			case "rclose":
				w.m.HandleStreamClose(id)
				return w.out("ok", "-", w.collect(st))
			case "rreset":
				w.m.HandleStreamReset(id, 1)
				return w.out("ok", "-", w.collect(st))
			case "lremove": // Manager.RemoveStream, the entry point meshConn.Close uses
				w.m.RemoveStream(id)
				return w.out("ok", "-", w.collect(st))
			case "read":
				if st.reader == nil {
					w.startReader(st)
				}
				return w.out("ok", "-", w.collect(st))
			case "closewrite":
				if st.reqID != 0 {
					return w.out("err", "-", "-")
				}
				st.s.CloseWrite()
				return w.out("ok", "-", w.collect(st))
			case "close":
				if st.reqID != 0 {
					return w.out("err", "-", "-")
				}
				st.s.Close()
				return w.out("ok", "-", w.collect(st))
			}
			return "bad-op"
		},
		Gen: c18Gen,
		Facts: func(w *bufio.Writer) {
			fmt.Fprintf(w, "-- GENERATED from /repo internal/stream by the harness (`harness c18 facts`). Do not edit.\n")
			fmt.Fprintf(w, "namespace MM.Gen.C18\n")
			fmt.Fprintf(w, "def readBufferCap : Nat := %d\n", stream.C18ReadBufferCap())
			fmt.Fprintf(w, "end MM.Gen.C18\n")
		},
	})
}

// c18Race runs, for n fresh open streams, HandleRemoteFinWrite against CloseWrite ("cw") or Close
// ("close") in two goroutines released by a spin barrier, and checks that the final state is one a
// serial order of the two calls (equivalently: any interleaving of their critical sections) can
// produce: CLOSED, CanWrite()=false, both flags as set by the calls. Correct code always answers
// "race-ok"; the first non-serialisable outcome is reported as race-bad:<state>/<lf>/<rf>/<cw>.
func c18Race(kind string, n int) string {
	for i := 0; i < n; i++ {
		s := stream.NewStream(uint64(i)+1, identity.AgentID{1}, identity.AgentID{2}, 1)
		s.Open()
		var ready, goFlag atomic.Int32
		var wg sync.WaitGroup
		wg.Add(2)
		run := func(delay int, f func()) {
			defer wg.Done()
			ready.Add(1)
			for goFlag.Load() == 0 {
			}
			for d := 0; d < delay; d++ { // land at different offsets inside the other call
				_ = goFlag.Load()
			}
			f()
		}
		go run(0, s.HandleRemoteFinWrite)
		if kind == "cw" {
			go run(i%97, s.CloseWrite)
		} else {
			go run(i%97, func() { s.Close() })
		}
		for ready.Load() != 2 {
			runtime.Gosched()
		}
		if i%3 == 1 { // vary which goroutine is ahead
			runtime.Gosched()
		}
		goFlag.Store(1)
		wg.Wait()
		sn := stream.C18Snapshot(s)
		okFlags := sn.RemoteFin && (kind != "cw" || sn.LocalFin) && (kind != "close" || sn.Done)
		if sn.State != stream.StateClosed || s.CanWrite() || !okFlags {
			return fmt.Sprintf("race-bad:%s/%s/%s/%s", sn.State, c18b(sn.LocalFin), c18b(sn.RemoteFin), c18b(s.CanWrite()))
		}
	}
	return "race-ok"
}

// c18Gen: (a) exhaustive frame sequences over {data, data+FIN, FIN, close, reset} up to a length,
// each with the reader parked before every frame or not, hook release on; (b) random cases mixing
// two streams, local CloseWrite/Close, OpenStream/ack, reads, hooked and plain frames; (c) the
// buffer-capacity case.
func c18Gen(w *bufio.Writer, seed int64, tier string) {
	r := newRng(seed)
	maxLen, nRandom := 3, 500
	if tier == "thorough" {
		maxLen, nRandom = 5, 20000
	}
	kinds := []string{"d", "df", "f", "c", "r"}
	payload := 0
	emit := func(k string, id int, mode string) {
		switch k {
		case "d":
			payload++
			fmt.Fprintf(w, "frame %d 0 %04x %s\n", id, payload&0xffff, mode)
		case "df":
			payload++
			fmt.Fprintf(w, "frame %d 1 %04x %s\n", id, payload&0xffff, mode)
		case "f":
			fmt.Fprintf(w, "frame %d 1 - %s\n", id, mode)
		case "c":
			fmt.Fprintf(w, "rclose %d\n", id)
		case "r":
			fmt.Fprintf(w, "rreset %d\n", id)
		}
	}
	var rec func(seq []string)
	rec = func(seq []string) {
		if len(seq) > 0 {
			for _, parked := range []bool{true, false} {
				fmt.Fprintf(w, "reset\naccept 1\naccept 3\n")
				for _, k := range seq {
					if parked {
						fmt.Fprintf(w, "read 1\n")
					}
					emit(k, 1, "h")
				}
				fmt.Fprintf(w, "read 1\nread 1\nread 1\nread 3\n")
			}
		}
		if len(seq) == maxLen {
			return
		}
		for _, k := range kinds {
			rec(append(append([]string{}, seq...), k))
		}
	}
	rec(nil)
	// concurrency stress of the half-close/close critical sections (see c18Race)
	nRace := 30000
	if tier == "thorough" {
		nRace = 300000
	}
	fmt.Fprintf(w, "reset\nrace cw %d\nrace close %d\n", nRace, nRace)
	// capacity: 64 chunks are accepted without a reader
	fmt.Fprintf(w, "reset\naccept 1\n")
	for i := 0; i < stream.C18ReadBufferCap(); i++ {
		emit("d", 1, "n")
	}
	fmt.Fprintf(w, "read 1\nframe 1 1 beef h\nread 1\n")
	// more chunks than the buffer holds over the life of a stream, drained by interleaved reads
	fmt.Fprintf(w, "reset\naccept 1\n")
	for i := 0; i < 150; i++ {
		emit("d", 1, "n")
		if i >= 60 {
			fmt.Fprintf(w, "read 1\n")
		}
	}
	fmt.Fprintf(w, "frame 1 1 - h\n")
	for i := 0; i < 62; i++ {
		fmt.Fprintf(w, "read 1\n")
	}
	idPool := []uint64{1, 3, 2, 1<<63 - 1, 1 << 63, ^uint64(0)}
	bigSizes := []int{1, 16383, 16384, 16385}
	for i := 0; i < nRandom; i++ {
		fmt.Fprintf(w, "reset\n")
		ids := []uint64{idPool[r.intn(len(idPool))]}
		for r.chance(45) && len(ids) < 4 {
			c := idPool[r.intn(len(idPool))]
			dup := false
			for _, x := range ids {
				dup = dup || x == c
			}
			if !dup {
				ids = append(ids, c)
			}
		}
		opening := map[uint64]bool{}
		for _, id := range ids {
			if r.chance(25) {
				fmt.Fprintf(w, "openreq %d\n", id)
				opening[id] = true
			} else {
				fmt.Fprintf(w, "accept %d\n", id)
			}
		}
		n := 1 + r.intn(12)
		if r.chance(4) {
			n = 40 + r.intn(80) // long history on the same streams
		}
		buffered := map[uint64]int{}
		for j := 0; j < n; j++ {
			id := ids[r.intn(len(ids))]
			if opening[id] && r.chance(60) {
				fmt.Fprintf(w, "ack %d\n", id)
				opening[id] = false
				continue
			}
			mode := "h"
			if r.chance(35) {
				mode = "n"
			}
			frame := func(fin int, withData bool) {
				if buffered[id] >= 60 { // never fill the buffer without a reader (PushData would block)
					fmt.Fprintf(w, "read %d\n", id)
					return
				}
				pl := "-"
				if withData {
					payload++
					pl = fmt.Sprintf("%04x", payload&0xffff)
					if r.chance(3) {
						pl = hexTok(r.bytes(bigSizes[r.intn(len(bigSizes))]))
					}
					buffered[id]++
				}
				fmt.Fprintf(w, "frame %d %d %s %s\n", id, fin, pl, mode)
			}
			switch x := r.intn(100); {
			case x < 22:
				frame(0, true)
			case x < 38:
				frame(1, true)
			case x < 46:
				frame(1, false)
			case x < 48:
				frame(0, false)
			case x < 68:
				fmt.Fprintf(w, "read %d\n", id)
			case x < 77:
				if !opening[id] {
					fmt.Fprintf(w, "closewrite %d\n", id)
				}
			case x < 83:
				if !opening[id] {
					fmt.Fprintf(w, "close %d\n", id)
				}
			case x < 88:
				fmt.Fprintf(w, "rclose %d\n", id)
			case x < 92:
				fmt.Fprintf(w, "rreset %d\n", id)
			case x < 95:
				fmt.Fprintf(w, "lremove %d\n", id)
			case x < 97:
				// state left by earlier ops is reused: the id is accepted again (after close/reset or live)
				fmt.Fprintf(w, "accept %d\n", id)
				opening[id] = false
				buffered[id] = 0
			case x < 99:
				fmt.Fprintf(w, "ack %d\n", id)
				opening[id] = false
			default:
				fmt.Fprintf(w, "frame 9 0 aa n\n") // unknown stream id
			}
		}
		for _, id := range ids {
			fmt.Fprintf(w, "read %d\nread %d\n", id, id)
		}
	}
}
