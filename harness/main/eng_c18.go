//go:build verif && (all || c18)

package main

import (
	"bufio"
	"bytes"
	"context"
	"fmt"
	"io"
	"runtime"
	"runtime/pprof"
	"sort"
	"strconv"
	"strings"
	"sync"
	"sync/atomic"
	"time"

	"github.com/postalsys/muti-metroo/internal/agent"
	"github.com/postalsys/muti-metroo/internal/identity"
	"github.com/postalsys/muti-metroo/internal/protocol"
	"github.com/postalsys/muti-metroo/internal/stream"
	"github.com/postalsys/muti-metroo/internal/verifhook"
)

// Engine c18: real stream.Manager / stream.Stream with a reader goroutine parked in Read.
// The FIN-with-data interleaving is scripted through the verifhook point inside
// Manager.HandleStreamData ("between-push-and-fin"): op `frame … h` runs a parked reader that is
// ready to completion exactly there.
//
// Reader answers are collected deterministically: whether a parked reader is ready is decided from
// monotone facts only (accepted pushes minus collected chunks > 0, remoteFinCh closed, closed);
// when ready its answer is awaited, otherwise it is reported `parked`.

const c18HookName = "stream.HandleStreamData.between-push-and-fin"

type c18Stream struct {
	id        uint64
	s         *stream.Stream
	reqID     uint64 // pending OpenStream request (0 = none)
	reader    chan string
	cancel    context.CancelFunc
	pushed    int
	delivered int
}

type c18World struct {
	m       *stream.Manager
	streams map[uint64]*c18Stream
	stuck   bool
	ag      *c16World // agent mode: frames travel Agent.processFrame -> handleStreamData -> the agent's stream manager
}

// c18Agent is the one real agent used by `reset agent` cases (created lazily, re-used).
var c18Agent *c16World

func c18New(viaAgent bool) *c18World {
	if !viaAgent {
		return &c18World{m: stream.NewManager(stream.DefaultManagerConfig(), identity.AgentID{1}), streams: map[uint64]*c18Stream{}}
	}
	if c18Agent == nil {
		c18Agent = c16NewWorld()
	}
	c18Agent.resetPeers()
	c18Agent.connect(1, false)
	return &c18World{m: agent.C18StreamManager(c18Agent.a), streams: map[uint64]*c18Stream{}, ag: c18Agent}
}

// deliver hands one frame to the stream layer: directly to the manager, or — agent mode — through the
// agent's frame dispatch as a frame received from peer 1. The agent path returns no error, so the
// answer is reconstructed from what the manager would say (unknown stream / closed stream).
func (w *c18World) deliver(id uint64, flags uint8, data []byte) string {
	if w.ag == nil {
		err := w.m.HandleStreamData(id, flags, data)
		switch {
		case err == io.EOF:
			return "eof"
		case err != nil:
			return "unknown"
		}
		return "ok"
	}
	res := "ok"
	if st := w.streams[id]; st == nil || !stream.C18Registered(w.m, id, st.s) {
		res = "unknown"
	} else if len(data) > 0 && stream.C18Snapshot(st.s).Done {
		res = "eof"
	}
	agent.C16Process(w.ag.a, c16ID(1), &protocol.Frame{Type: protocol.FrameStreamData, StreamID: id, Flags: flags, Payload: data})
	w.ag.drain()
	return res
}

func (w *c18World) closeFrame(id uint64, reset bool) {
	switch {
	case w.ag == nil && reset:
		w.m.HandleStreamReset(id, 1)
	case w.ag == nil:
		w.m.HandleStreamClose(id)
	case reset:
		agent.C16Process(w.ag.a, c16ID(1), &protocol.Frame{Type: protocol.FrameStreamReset, StreamID: id, Payload: (&protocol.StreamReset{ErrorCode: 1}).Encode()})
	default:
		agent.C16Process(w.ag.a, c16ID(1), &protocol.Frame{Type: protocol.FrameStreamClose, StreamID: id})
	}
	if w.ag != nil {
		w.ag.drain()
	}
}

func (w *c18World) teardown() {
	for _, st := range w.streams {
		if st.cancel != nil {
			st.cancel()
		}
		if st.reqID != 0 {
			w.m.CancelPendingRequest(st.reqID)
		}
	}
	w.m.Close()
}

func (w *c18World) ready(st *c18Stream) bool {
	sn := stream.C18Snapshot(st.s)
	return st.pushed-st.delivered > 0 || sn.FinCh || sn.Done
}

func (w *c18World) collect(st *c18Stream) string {
	if st.reader == nil {
		return "-"
	}
	if !w.ready(st) {
		return "parked"
	}
	to := 3 * time.Second
	if w.stuck {
		to = 50 * time.Millisecond
	}
	select {
	case r := <-st.reader:
		st.reader = nil
		st.cancel()
		st.cancel = nil
		if strings.HasPrefix(r, "data:") {
			st.delivered++
		}
		return r
	case <-time.After(to):
		w.stuck = true
		return "stuck"
	}
}

func (w *c18World) startReader(st *c18Stream) {
	ctx, cancel := context.WithCancel(context.Background())
	ch := make(chan string, 1)
	st.reader, st.cancel = ch, cancel
	s := st.s
	go func() {
		d, err := s.Read(ctx)
		switch {
		case err == nil:
			ch <- "data:" + hexTok(d)
		case err == io.EOF:
			ch <- "eof"
		default:
			ch <- "ctx"
		}
	}()
}

func c18b(b bool) string {
	if b {
		return "1"
	}
	return "0"
}

func (w *c18World) dump() string {
	ids := make([]uint64, 0, len(w.streams))
	for id := range w.streams {
		ids = append(ids, id)
	}
	sort.Slice(ids, func(i, j int) bool { return ids[i] < ids[j] })
	var parts []string
	for _, id := range ids {
		st := w.streams[id]
		sn := stream.C18Snapshot(st.s)
		letter := map[stream.StreamState]string{stream.StateOpening: "P", stream.StateOpen: "O", stream.StateHalfClosedLocal: "L",
			stream.StateHalfClosedRemote: "R", stream.StateClosed: "C"}[sn.State]
		parts = append(parts, fmt.Sprintf("%d:st=%s lf=%s rf=%s fc=%s cl=%s n=%d reg=%s cw=%s cr=%s", id, letter, c18b(sn.LocalFin), c18b(sn.RemoteFin),
			c18b(sn.FinCh), c18b(sn.Done), st.pushed-st.delivered, c18b(stream.C18Registered(w.m, id, st.s)), c18b(st.s.CanWrite()), c18b(st.s.CanRead())))
	}
	return strings.Join(parts, " ; ")
}

func (w *c18World) out(res, mid, end string) string {
	return fmt.Sprintf("%s mid=%s end=%s | %s", res, mid, end, w.dump())
}

func init() {
	var w *c18World
	register("c18", &Engine{
		Run: func(line string) string {
			f := fields(line)
			if f[0] == "reset" || w == nil {
				if w != nil {
					w.teardown()
				}
				w = c18New(len(f) > 1 && f[1] == "agent")
				if f[0] == "reset" {
					return w.out("ok", "-", "-")
				}
			}
			if f[0] == "race" {
				n, _ := strconv.Atoi(f[2])
				return w.out(c18Race(f[1], n), "-", "-")
			}
			if f[0] == "stall" {
				return w.out(c18Stall(f[1]), "-", "-")
			}
			id, _ := strconv.ParseUint(f[1], 10, 64)
			st := w.streams[id]
			switch f[0] {
			case "accept":
				if st != nil && st.cancel != nil {
					st.cancel()
				}
				s, err := w.m.AcceptStream(id, 7, identity.AgentID{2}, "dest", 80)
				must(err)
				w.streams[id] = &c18Stream{id: id, s: s}
				return w.out("ok", "-", "-")
			case "openreq":
				if st != nil && st.cancel != nil {
					st.cancel()
				}
				p := w.m.OpenStream(id, identity.AgentID{2}, "dest", 80, time.Hour)
				s := stream.C18PendingStream(w.m, p.RequestID)
				if s == nil {
					return "err no-pending-stream"
				}
				w.streams[id] = &c18Stream{id: id, s: s, reqID: p.RequestID}
				return w.out("ok", "-", "-")
			}
			if st == nil {
				switch f[0] {
				case "frame":
					return w.out(w.deliver(id, 0, nil), "-", "-")
				case "rclose":
					w.closeFrame(id, false)
					return w.out("ok", "-", "-")
				case "rreset":
					w.closeFrame(id, true)
					return w.out("ok", "-", "-")
				case "lremove":
					w.m.RemoveStream(id)
					return w.out("ok", "-", "-")
				}
				return w.out("unknown", "-", "-")
			}
			switch f[0] {
			case "ack":
				if st.reqID == 0 {
					if _, err := w.m.HandleStreamOpenAck(1<<40, nil, 0, [32]byte{}); err == nil {
						return "err ack-of-unknown-request-accepted"
					}
					return w.out("err", "-", "-")
				}
				_, err := w.m.HandleStreamOpenAck(st.reqID, nil, 0, [32]byte{})
				st.reqID = 0
				if err != nil {
					return w.out("err", "-", "-")
				}
				return w.out("ok", "-", w.collect(st))
			case "frame":
				var flags uint8
				if f[2] == "1" {
					flags = protocol.FlagFinWrite
				}
				data := unhexTok(f[3])
				hooked := f[4] == "h"
				mid := "-"
				fired := false
				prev := verifhook.Point
				verifhook.Point = func(name string) {
					if name != c18HookName || fired {
						if prev != nil {
							prev(name)
						}
						return
					}
					fired = true
					if len(data) > 0 {
						st.pushed++ // the point is reached only after PushData accepted the payload
					}
					if hooked {
						mid = w.collect(st)
					}
				}
				res := w.deliver(id, flags, data)
				verifhook.Point = prev
				if res == "ok" && !fired && len(data) > 0 && w.ag == nil {
					st.pushed++ // call site missing: fall back to the return value
				}
				return w.out(res, mid, w.collect(st))
			case "rclose":
				w.closeFrame(id, false)
				return w.out("ok", "-", w.collect(st))
			case "rreset":
				w.closeFrame(id, true)
				return w.out("ok", "-", w.collect(st))
			case "lremove": // Manager.RemoveStream, the entry point meshConn.Close uses
				w.m.RemoveStream(id)
				return w.out("ok", "-", w.collect(st))
			case "read":
				if st.reader == nil {
					w.startReader(st)
				}
				return w.out("ok", "-", w.collect(st))
			case "closewrite":
				if st.reqID != 0 {
					return w.out("err", "-", "-")
				}
				st.s.CloseWrite()
				return w.out("ok", "-", w.collect(st))
			case "close":
				if st.reqID != 0 {
					return w.out("err", "-", "-")
				}
				st.s.Close()
				return w.out("ok", "-", w.collect(st))
			}
			return "bad-op"
		},
		Gen: c18Gen,
		Facts: func(w *bufio.Writer) {
			fmt.Fprintf(w, "-- GENERATED from /repo internal/stream by the harness (`harness c18 facts`). Do not edit.\n")
			fmt.Fprintf(w, "namespace MM.Gen.C18\n")
			fmt.Fprintf(w, "def readBufferCap : Nat := %d\n", stream.C18ReadBufferCap())
			fmt.Fprintf(w, "end MM.Gen.C18\n")
		},
	})
}

// c18Race runs, for n fresh open streams, HandleRemoteFinWrite against CloseWrite ("cw") or Close
// ("close") in two goroutines released by a spin barrier, and checks that the final state is one a
// serial order of the two calls (equivalently: any interleaving of their critical sections) can
// produce: CLOSED, CanWrite()=false, both flags as set by the calls. Correct code always answers
// "race-ok"; the first non-serialisable outcome is reported as race-bad:<state>/<lf>/<rf>/<cw>.
func c18Race(kind string, n int) string {
	for i := 0; i < n; i++ {
		s := stream.NewStream(uint64(i)+1, identity.AgentID{1}, identity.AgentID{2}, 1)
		s.Open()
		var ready, goFlag atomic.Int32
		var wg sync.WaitGroup
		wg.Add(2)
		run := func(delay int, f func()) {
			defer wg.Done()
			ready.Add(1)
			for goFlag.Load() == 0 {
			}
			for d := 0; d < delay; d++ { // land at different offsets inside the other call
				_ = goFlag.Load()
			}
			f()
		}
		go run(0, s.HandleRemoteFinWrite)
		if kind == "cw" {
			go run(i%97, s.CloseWrite)
		} else {
			go run(i%97, func() { s.Close() })
		}
		for ready.Load() != 2 {
			runtime.Gosched()
		}
		if i%3 == 1 { // vary which goroutine is ahead
			runtime.Gosched()
		}
		goFlag.Store(1)
		wg.Wait()
		sn := stream.C18Snapshot(s)
		okFlags := sn.RemoteFin && (kind != "cw" || sn.LocalFin) && (kind != "close" || sn.Done)
		if sn.State != stream.StateClosed || s.CanWrite() || !okFlags {
			return fmt.Sprintf("race-bad:%s/%s/%s/%s", sn.State, c18b(sn.LocalFin), c18b(sn.RemoteFin), c18b(s.CanWrite()))
		}
	}
	return "race-ok"
}

// c18Within runs f and reports whether it returned within the deadline.
func c18Within(d time.Duration, f func()) bool {
	done := make(chan struct{})
	go func() { f(); close(done) }()
	select {
	case <-done:
		return true
	case <-time.After(d):
		return false
	}
}

func c18PushBlocked() bool {
	var b bytes.Buffer
	pprof.Lookup("goroutine").WriteTo(&b, 2)
	return strings.Contains(b.String(), "stream.(*Stream).PushData(")
}

// c18Stall: the frame loop of one peer is blocked in PushData (65th chunk into a full read buffer of
// stream 1, nobody reads). Tearing stream 1 down (kind = close | reset | remove | lclose) must complete
// and release the blocked push with io.EOF, and another stream (3) must keep working — every step
// within 2 s. Answer stall:<pusher>/<teardown>/<other data>/<other close>.
func c18Stall(kind string) string {
	m := stream.NewManager(stream.DefaultManagerConfig(), identity.AgentID{1})
	s1, err := m.AcceptStream(1, 7, identity.AgentID{2}, "d", 80)
	must(err)
	_, err = m.AcceptStream(3, 8, identity.AgentID{2}, "d", 80)
	must(err)
	for i := 0; i < stream.C18ReadBufferCap(); i++ {
		must(m.HandleStreamData(1, 0, []byte{byte(i)}))
	}
	pusher := make(chan string, 1)
	go func() {
		switch err := m.HandleStreamData(1, 0, []byte{0xff}); {
		case err == io.EOF:
			pusher <- "eof"
		case err != nil:
			pusher <- "err"
		default:
			pusher <- "ok"
		}
	}()
	deadline := time.Now().Add(2 * time.Second)
	for !c18PushBlocked() && time.Now().Before(deadline) {
		time.Sleep(200 * time.Microsecond)
	}
	ok := func(b bool) string {
		if b {
			return "ok"
		}
		return "timeout"
	}
	d := 2 * time.Second
	tear := ok(c18Within(d, func() {
		switch kind {
		case "close":
			m.HandleStreamClose(1)
		case "reset":
			m.HandleStreamReset(1, 1)
		case "remove":
			m.RemoveStream(1)
		default:
			s1.Close()
		}
	}))
	other := ok(c18Within(d, func() { m.HandleStreamData(3, 0, []byte{1}) }))
	otherClose := ok(c18Within(d, func() { m.HandleStreamClose(3) }))
	p := "timeout"
	select {
	case p = <-pusher:
	case <-time.After(d):
	}
	return fmt.Sprintf("stall:%s/%s/%s/%s", p, tear, other, otherClose)
}

// c18Gen: (a) exhaustive frame sequences over {data, data+FIN, FIN, close, reset} up to a length,
// each with the reader parked before every frame or not, hook release on; (b) random cases mixing
// two streams, local CloseWrite/Close, OpenStream/ack, reads, hooked and plain frames; (c) the
// buffer-capacity case.
func c18Gen(w *bufio.Writer, seed int64, tier string) {
	r := newRng(seed)
	maxLen, nRandom := 3, 500
	if tier == "thorough" {
		maxLen, nRandom = 5, 20000
	}
	kinds := []string{"d", "df", "f", "c", "r"}
	payload := 0
	emit := func(k string, id int, mode string) {
		switch k {
		case "d":
			payload++
			fmt.Fprintf(w, "frame %d 0 %04x %s\n", id, payload&0xffff, mode)
		case "df":
			payload++
			fmt.Fprintf(w, "frame %d 1 %04x %s\n", id, payload&0xffff, mode)
		case "f":
			fmt.Fprintf(w, "frame %d 1 - %s\n", id, mode)
		case "c":
			fmt.Fprintf(w, "rclose %d\n", id)
		case "r":
			fmt.Fprintf(w, "rreset %d\n", id)
		}
	}
	var rec func(seq []string)
	rec = func(seq []string) {
		if len(seq) > 0 {
			for _, parked := range []bool{true, false} {
				fmt.Fprintf(w, "reset\naccept 1\naccept 3\n")
				for _, k := range seq {
					if parked {
						fmt.Fprintf(w, "read 1\n")
					}
					emit(k, 1, "h")
				}
				fmt.Fprintf(w, "read 1\nread 1\nread 1\nread 3\n")
			}
		}
		if len(seq) == maxLen {
			return
		}
		for _, k := range kinds {
			rec(append(append([]string{}, seq...), k))
		}
	}
	rec(nil)
	// concurrency stress of the half-close/close critical sections (see c18Race)
	nRace := 30000
	if tier == "thorough" {
		nRace = 300000
	}
	fmt.Fprintf(w, "reset\nrace cw %d\nrace close %d\n", nRace, nRace)
	// a frame loop blocked on a full buffer must not block teardown or other streams (see c18Stall)
	fmt.Fprintf(w, "reset\nstall close\nstall reset\nstall remove\nstall lclose\n")
	// agent level: the same frames through Agent.processFrame -> handleStreamData -> stream manager, payload
	// sizes around the AEAD overhead (0, 1, 27, 28, 29 bytes), with and without FIN, reader parked or not
	for _, parked := range []bool{false, true} {
		for _, fin := range []int{0, 1} {
			for _, n := range []int{0, 1, 27, 28, 29} {
				fmt.Fprintf(w, "reset agent\naccept 1\naccept 3\n")
				if parked {
					fmt.Fprintf(w, "read 1\n")
				}
				fmt.Fprintf(w, "frame 1 0 %s h\nframe 1 %d %s h\nread 1\nread 1\nread 1\nframe 3 1 - n\nread 3\nrclose 1\nrreset 3\n", hexTok(r.bytes(29)), fin, hexTok(r.bytes(n)))
			}
		}
	}
	// capacity: 64 chunks are accepted without a reader
	fmt.Fprintf(w, "reset\naccept 1\n")
	for i := 0; i < stream.C18ReadBufferCap(); i++ {
		emit("d", 1, "n")
	}
	fmt.Fprintf(w, "read 1\nframe 1 1 beef h\nread 1\n")
	// more chunks than the buffer holds over the life of a stream, drained by interleaved reads
	fmt.Fprintf(w, "reset\naccept 1\n")
	for i := 0; i < 150; i++ {
		emit("d", 1, "n")
		if i >= 60 {
			fmt.Fprintf(w, "read 1\n")
		}
	}
	fmt.Fprintf(w, "frame 1 1 - h\n")
	for i := 0; i < 62; i++ {
		fmt.Fprintf(w, "read 1\n")
	}
	idPool := []uint64{1, 3, 2, 1<<63 - 1, 1 << 63, ^uint64(0)}
	bigSizes := []int{1, 16383, 16384, 16385}
	for i := 0; i < nRandom; i++ {
		if r.chance(25) {
			fmt.Fprintf(w, "reset agent\n")
		} else {
			fmt.Fprintf(w, "reset\n")
		}
		ids := []uint64{idPool[r.intn(len(idPool))]}
		for r.chance(45) && len(ids) < 4 {
			c := idPool[r.intn(len(idPool))]
			dup := false
			for _, x := range ids {
				dup = dup || x == c
			}
			if !dup {
				ids = append(ids, c)
			}
		}
		opening := map[uint64]bool{}
		for _, id := range ids {
			if r.chance(25) {
				fmt.Fprintf(w, "openreq %d\n", id)
				opening[id] = true
			} else {
				fmt.Fprintf(w, "accept %d\n", id)
			}
		}
		n := 1 + r.intn(12)
		if r.chance(4) {
			n = 40 + r.intn(80) // long history on the same streams
		}
		buffered := map[uint64]int{}
		for j := 0; j < n; j++ {
			id := ids[r.intn(len(ids))]
			if opening[id] && r.chance(60) {
				fmt.Fprintf(w, "ack %d\n", id)
				opening[id] = false
				continue
			}
			mode := "h"
			if r.chance(35) {
				mode = "n"
			}
			frame := func(fin int, withData bool) {
				if buffered[id] >= 60 { // never fill the buffer without a reader (PushData would block)
					fmt.Fprintf(w, "read %d\n", id)
					return
				}
				pl := "-"
				if withData {
					payload++
					pl = fmt.Sprintf("%04x", payload&0xffff)
					if r.chance(3) {
						pl = hexTok(r.bytes(bigSizes[r.intn(len(bigSizes))]))
					}
					buffered[id]++
				}
				fmt.Fprintf(w, "frame %d %d %s %s\n", id, fin, pl, mode)
			}
			switch x := r.intn(100); {
			case x < 22:
				frame(0, true)
			case x < 38:
				frame(1, true)
			case x < 46:
				frame(1, false)
			case x < 48:
				frame(0, false)
			case x < 68:
				fmt.Fprintf(w, "read %d\n", id)
			case x < 77:
				if !opening[id] {
					fmt.Fprintf(w, "closewrite %d\n", id)
				}
			case x < 83:
				if !opening[id] {
					fmt.Fprintf(w, "close %d\n", id)
				}
			case x < 88:
				fmt.Fprintf(w, "rclose %d\n", id)
			case x < 92:
				fmt.Fprintf(w, "rreset %d\n", id)
			case x < 95:
				fmt.Fprintf(w, "lremove %d\n", id)
			case x < 97:
				// state left by earlier ops is reused: the id is accepted again (after close/reset or live)
				fmt.Fprintf(w, "accept %d\n", id)
				opening[id] = false
				buffered[id] = 0
			case x < 99:
				fmt.Fprintf(w, "ack %d\n", id)
				opening[id] = false
			default:
				fmt.Fprintf(w, "frame 9 0 aa n\n") // unknown stream id
			}
		}
		for _, id := range ids {
			fmt.Fprintf(w, "read %d\nread %d\n", id, id)
		}
	}
}
