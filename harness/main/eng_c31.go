//go:build verif && (all || c31)

package main

import (
	"bufio"
	"context"
	"errors"
	"fmt"
	"os"
	"strconv"
	"sync"
	"sync/atomic"
	"time"

	"github.com/postalsys/muti-metroo/internal/identity"
	"github.com/postalsys/muti-metroo/internal/peer"
	"github.com/postalsys/muti-metroo/internal/transport"
)

// Engine c31: the real peer.Reconnector driving the real peer.Manager.handleReconnect for one
// persistent peer, over an in-memory transport whose Dial blocks until the script releases it
// (so "pause while an attempt is in flight" is a scripted schedule). Real timers, ms-scale delays.
//
//   reset <I_ms> <M_ms> <mnum> <mden> <jnum> <jden> <maxAttempts>   new manager + reconnector        -> ok
//                   (config = peer.DefaultReconnectConfig() with these fields overridden, as the agent builds it)
//   Ops that concern one peer address take an optional trailing address number (default 0; ten
//   persistent peers 0..9 are configured): schedule, cancel, wait, release, preset.
//   schedule [a] | cancel [a] | pause | resume | clearall | stop | disconnectall                    -> ok
//   preset <n> [a]  (only while paused) set the address's attempt counter to n and its next delay to the
//                   n-th element of the backoff sequence, as n consecutive failures would have    -> ok | notpaused
//   wait [a]        wait for the next attempt of that address (= Dial invoked by the reconnect callback)
//                   -> attempt n=<attempts> d=<ns> early=<0|1> late=<0|1> paused=<0|1> | none
//                      n      GetAttempts() when the dial starts
//                      d      un-jittered delay (state.nextDelay) read from the reconnector at the
//                             moment the script last caused a timer to be armed
//                      early  the attempt started less than (1-j)*d after that moment  (STRICT: a timer
//                             cannot be made early by scheduling noise)
//                      late   more than (1+j)*d + slack after it (generous slack)
//                      paused IsPaused() was true when the dial started
//                   none = no attempt within (1+j)*M + slack
//   release fail|ok [a] the oldest blocked dial of that address fails / succeeds (handshake with a remote manager); returns after
//                   the reconnector has processed the callback's result                             -> ok | noflight

const (
	c31Slack = 300 * time.Millisecond
	c31NAddr = 10
)

func c31AddrName(i int) string { return fmt.Sprintf("peer-%d", i) }

type c31Event struct {
	at     time.Time
	n      int
	paused bool
}

type c31Snap struct {
	exists bool
	next   time.Duration
	timer  *time.Timer
}

// c31Peer is the harness's bookkeeping for one peer address.
type c31Peer struct {
	addr      string
	gates     []chan bool
	events    chan c31Event
	cbDone    chan c31Snap
	armRef    time.Time
	armD      time.Duration
	armStalls int64 // stall counter when the timer was armed
}

type c31World struct {
	m, remote *peer.Manager
	r         *peer.Reconnector
	rc        peer.ReconnectConfig
	jitter    float64
	maxDelay  time.Duration

	mu    sync.Mutex
	peers map[string]*c31Peer
}

var c31W *c31World

// Stall monitor: the strict comparisons below assume that this process is not frozen for long
// (VM steal, CPU starvation on a loaded machine). A goroutine that sleeps 2 ms in a loop counts the
// oversleeps above 20 ms; an op that would report something only lateness can cause ("none",
// late=1) while a stall was seen waits again / does not report it.
var c31Stalls atomic.Int64

func c31StallMonitor() {
	for {
		t0 := time.Now()
		time.Sleep(2 * time.Millisecond)
		if time.Since(t0) > 22*time.Millisecond {
			c31Stalls.Add(1)
		}
	}
}

var c31MonitorOnce sync.Once

func (w *c31World) dial(ctx context.Context, addr string) (transport.PeerConn, error) {
	ev := c31Event{at: time.Now(), n: w.r.GetAttempts(addr), paused: w.r.IsPaused()}
	p := w.peers[addr]
	gate := make(chan bool, 1)
	w.mu.Lock()
	p.gates = append(p.gates, gate)
	w.mu.Unlock()
	p.events <- ev
	var ok bool
	select {
	case ok = <-gate:
	case <-ctx.Done():
		return nil, ctx.Err()
	}
	if !ok {
		return nil, errors.New("connection refused (scripted)")
	}
	a, b := pmtPair("c31")
	go func() {
		ctx, cancel := context.WithTimeout(context.Background(), 10*time.Second)
		defer cancel()
		_, _ = w.remote.Accept(ctx, b)
	}()
	return a, nil
}

func (w *c31World) noteArm(p *c31Peer, ref time.Time) {
	if exists, _, next, _ := w.r.VerifC31State(p.addr); exists {
		p.armRef, p.armD, p.armStalls = ref, next, c31Stalls.Load()
	}
}

func c31Reset(f []string) string {
	c31MonitorOnce.Do(func() { go c31StallMonitor() })
	if c31W != nil {
		c31W.shutdown()
	}
	num := func(i int) int {
		v, err := strconv.Atoi(f[i])
		must(err)
		return v
	}
	w := &c31World{peers: map[string]*c31Peer{}}
	// As the agent does: start from the package defaults and override the configured fields, so that
	// whatever else the defaults switch on is live here too.
	rc := peer.DefaultReconnectConfig()
	rc.InitialDelay = time.Duration(num(1)) * time.Millisecond
	rc.MaxDelay = time.Duration(num(2)) * time.Millisecond
	rc.Multiplier = float64(num(3)) / float64(num(4))
	rc.Jitter = float64(num(5)) / float64(num(6))
	rc.MaxAttempts = num(7)
	w.rc = rc
	w.jitter, w.maxDelay = rc.Jitter, rc.MaxDelay
	var lid, rid identity.AgentID
	lid[0], rid[0] = 0x31, 0x32
	cfg := peer.DefaultManagerConfig(lid, &pmtTransport{dial: w.dial})
	cfg.HandshakeTimeout = 30 * time.Second
	cfg.KeepaliveInterval = time.Hour
	cfg.ReconnectConfig = rc
	w.m = peer.NewManager(cfg)
	for i := 0; i < c31NAddr; i++ {
		a := c31AddrName(i)
		w.peers[a] = &c31Peer{addr: a, events: make(chan c31Event, 64), cbDone: make(chan c31Snap, 64)}
		w.m.AddPeer(peer.PeerInfo{Address: a, Persistent: true})
	}
	w.r = peer.NewReconnector(rc, func(addr string) error {
		err := w.m.VerifC31HandleReconnect(addr) // the real callback
		ex, _, next, t := w.r.VerifC31State(addr)
		w.peers[addr].cbDone <- c31Snap{ex, next, t}
		return err
	})
	w.m.VerifC31SetReconnector(w.r)
	rcfg := peer.DefaultManagerConfig(rid, &pmtTransport{dial: func(context.Context, string) (transport.PeerConn, error) {
		return nil, errors.New("remote does not dial")
	}})
	rcfg.KeepaliveInterval = time.Hour
	w.remote = peer.NewManager(rcfg)
	c31W = w
	return "ok"
}

func (w *c31World) shutdown() {
	w.mu.Lock()
	for _, p := range w.peers {
		for _, g := range p.gates {
			g <- false
		}
		p.gates = nil
	}
	w.mu.Unlock()
	w.r.Stop()
	done := make(chan struct{})
	go func() { w.m.Close(); w.remote.Close(); close(done) }()
	select {
	case <-done:
	case <-time.After(2 * time.Second):
	}
}

// c31Backoff: the n-th element of the backoff sequence, computed the way n consecutive failures
// compute it (used only to put the reconnector into the state "n failures so far" quickly).
func c31Backoff(rc peer.ReconnectConfig, n int) time.Duration {
	d := rc.InitialDelay
	for i := 0; i < n; i++ {
		nd := time.Duration(float64(d) * rc.Multiplier)
		if nd > rc.MaxDelay {
			nd = rc.MaxDelay
		}
		if nd == d && i > 0 {
			return d // fixed point (cap reached, or multiplier 1)
		}
		d = nd
	}
	return d
}

func c31Run(line string) string {
	f := fields(line)
	if f[0] == "reset" {
		return c31Reset(f)
	}
	w := c31W
	if w == nil {
		return "no-world"
	}
	// optional trailing address number
	peerArg := func(i int) *c31Peer {
		a := 0
		if len(f) > i {
			v, err := strconv.Atoi(f[i])
			must(err)
			a = v
		}
		return w.peers[c31AddrName(a)]
	}
	switch f[0] {
	case "schedule":
		p := peerArg(1)
		ref := time.Now()
		w.r.Schedule(p.addr)
		if !w.r.IsPaused() {
			w.noteArm(p, ref)
		}
		return "ok"
	case "pause":
		w.r.Pause()
		return "ok"
	case "disconnectall":
		_ = w.m.DisconnectAll()
		return "ok"
	case "resume":
		w.r.Resume()
		return "ok"
	case "clearall":
		w.r.ResetAll()
		return "ok"
	case "cancel":
		w.r.Cancel(peerArg(1).addr)
		return "ok"
	case "stop":
		w.r.Stop()
		return "ok"
	case "preset":
		n, err := strconv.Atoi(f[1])
		must(err)
		p := peerArg(2)
		if !w.r.IsPaused() || !w.r.VerifC31Preset(p.addr, n, c31Backoff(w.rc, n)) {
			return "notpaused"
		}
		return "ok"
	case "wait":
		p := peerArg(1)
		limit := time.Duration(float64(w.maxDelay)*(1+w.jitter)) + c31Slack
		for try := 0; ; try++ {
			stalls := c31Stalls.Load()
			select {
			case ev := <-p.events:
				gap := ev.at.Sub(p.armRef)
				lo := time.Duration(float64(p.armD)*(1-w.jitter)) - time.Microsecond
				hi := time.Duration(float64(p.armD)*(1+w.jitter)) + c31Slack
				b := func(x bool) int {
					if x {
						return 1
					}
					return 0
				}
				late := gap > hi && c31Stalls.Load() == p.armStalls
				if os.Getenv("VERIF_C31_DEBUG") != "" {
					fmt.Fprintf(os.Stderr, "c31 debug: gap=%v d=%v stalls=%d armStalls=%d\n", gap, p.armD, c31Stalls.Load(), p.armStalls)
				}
				return fmt.Sprintf("attempt n=%d d=%d early=%d late=%d paused=%d", ev.n, p.armD.Nanoseconds(), b(gap < lo), b(late), b(ev.paused))
			case <-time.After(limit):
				if c31Stalls.Load() != stalls && try < 8 {
					continue // the process was frozen meanwhile: "nothing happened" proves nothing, wait again
				}
				return "none"
			}
		}
	case "release":
		p := peerArg(2)
		w.mu.Lock()
		if len(p.gates) == 0 {
			w.mu.Unlock()
			return "noflight"
		}
		gate := p.gates[0]
		p.gates = p.gates[1:]
		w.mu.Unlock()
		// drain stale completion signals
		for len(p.cbDone) > 0 {
			<-p.cbDone
		}
		ref := time.Now()
		gate <- f[1] == "ok"
		var snap c31Snap
		select {
		case snap = <-p.cbDone:
		case <-time.After(5 * time.Second):
			return "callback-did-not-return"
		}
		// The second critical section of attemptReconnect runs right after the callback returned.
		// It is over once the state disappeared or holds another timer than at return time;
		// when it changes nothing (paused, state replaced) give it time.
		ex0, t0 := snap.exists, snap.timer
		paused := w.r.IsPaused()
		limit := 3 * time.Millisecond
		if paused {
			limit = 30 * time.Millisecond // nothing is armed while paused; the order w.r.t. a following resume matters
		}
		for try := 0; try < 8; try++ {
			stalls := c31Stalls.Load()
			changed := false
			deadline := time.Now().Add(limit)
			for time.Now().Before(deadline) {
				ex, _, _, t := w.r.VerifC31State(p.addr)
				if ex != ex0 || t != t0 {
					changed = true
					break
				}
				time.Sleep(200 * time.Microsecond)
			}
			if changed || c31Stalls.Load() == stalls {
				break
			}
		}
		time.Sleep(time.Millisecond)
		// Whatever timer is armed now was armed after `ref` (by the manager's own Schedule inside the
		// callback and/or by the reconnector afterwards) with the delay the state held when the callback
		// returned (read then: once the timer fires the delay is already the next one).
		if f[1] != "ok" && !paused && snap.exists {
			p.armRef, p.armD, p.armStalls = ref, snap.next, c31Stalls.Load()
		}
		return "ok"
	}
	return "bad-op"
}

func init() {
	register("c31", &Engine{
		Run: c31Run,
		Gen: func(w *bufio.Writer, seed int64, tier string) {
			r := newRng(seed)
			cases := 22
			if tier == "thorough" {
				cases = 120
			}
			p := func(s string) { fmt.Fprintln(w, s) }
			for i := 0; i < cases; i++ {
				// delays comfortably above scheduling noise, multipliers exact in float64
				I := r.pick(30, 40, 50)
				mult := [][2]int{{1, 1}, {5, 4}, {3, 2}, {2, 1}, {3, 1}}[r.intn(5)]
				M := r.pick(I, 60, 80, 120)
				if M < I {
					M = I
				}
				jit := [][2]int{{0, 1}, {1, 10}, {1, 5}, {1, 2}}[r.intn(4)]
				maxAtt := r.pick(0, 0, 0, 2, 3)
				kind := r.intn(10)
				if i < 3 {
					kind = 7 + i // every run has a long failure run, a preset case and a multi-address case
				}
				if i == 3 {
					kind = 10 // every run has a success that lands while the reconnector is paused
				}
				if kind >= 7 {
					maxAtt = 0
				}
				switch kind {
				case 7: // ms-scale delays: 100 consecutive failures cost well under a second
					I, M = r.pick(1, 2), r.pick(4, 6)
					mult = [][2]int{{2, 1}, {3, 1}, {3, 2}}[r.intn(3)]
					if i < 3 {
						mult = [][2]int{{2, 1}, {3, 1}}[r.intn(2)] // the always-present instance: I*m^100 leaves the int64 range
					}
					jit = [][2]int{{0, 1}, {1, 5}}[r.intn(2)]
				case 8:
					I, M = r.pick(1, 2), r.pick(10, 20)
					mult = [][2]int{{2, 1}, {3, 1}, {3, 2}, {5, 4}}[r.intn(4)]
					jit = [][2]int{{0, 1}, {1, 5}}[r.intn(2)]
				case 9:
					I, M = 20, 40
					jit = [][2]int{{0, 1}, {1, 5}}[r.intn(2)]
				}
				fmt.Fprintf(w, "reset %d %d %d %d %d %d %d\n", I, M, mult[0], mult[1], jit[0], jit[1], maxAtt)
				switch kind {
				case 7: // a long outage: the cap region is exercised for dozens of consecutive attempts
					p("schedule")
					nfail := r.pick(60, 80, 100)
					if i < 3 {
						nfail = 100
					}
					for k := 0; k < nfail; k++ {
						p("wait")
						p("release fail")
					}
					p("wait")
					p("release ok")
					p("wait")
				case 8: // the delay computation far out: attempt counter preset to 30 .. 1000 failures
					n := r.pick(30, 40, 63, 64, 100, 1000)
					if i < 3 {
						n = 1000 // the always-present instance: far beyond any representable I*m^n
					}
					p("schedule")
					p("pause")
					fmt.Fprintf(w, "preset %d\n", n)
					p("resume")
					p("schedule")
					p("wait")
					p("release fail")
					p("wait")
					p("release fail")
					p("wait")
				case 9: // many peers reconnecting at once with slow dials; pause while they are in flight
					na := r.pick(6, 7, 8, 10)
					for a := 0; a < na; a++ {
						fmt.Fprintf(w, "schedule %d\n", a)
					}
					for a := 0; a < na; a++ {
						fmt.Fprintf(w, "wait %d\n", a)
					}
					p(r.pickS("pause", "disconnectall"))
					for a := 0; a < na; a++ {
						fmt.Fprintf(w, "release fail %d\n", a)
					}
					for _, a := range []int{na - 1, na - 2, 0} {
						fmt.Fprintf(w, "wait %d\n", a) // nothing may START while paused
					}
					p("resume")
					fmt.Fprintf(w, "wait %d\n", na-1)
					for a := 0; a < na; a++ {
						fmt.Fprintf(w, "schedule %d\n", a)
					}
					for a := 0; a < na; a++ {
						fmt.Fprintf(w, "wait %d\n", a)
					}
					fmt.Fprintf(w, "release ok %d\n", na-1)
					fmt.Fprintf(w, "wait %d\n", na-1)
				case 0: // long run of failures up to (and past) the cap, then success
					p("schedule")
					for k := 0; k < r.pick(4, 5, 6); k++ {
						p("wait")
						p("release fail")
					}
					p("wait")
					p("release ok")
					p("wait")
				case 1: // pause while an attempt is in flight, let it fail, resume, reschedule: backoff continues
					p("schedule")
					p("wait")
					if r.chance(50) {
						p("release fail")
						p("wait")
					}
					p(r.pickS("pause", "disconnectall"))
					p("release fail")
					if r.chance(50) {
						p("wait")
					}
					p("resume") // resumed before anything armed during the pause could have fired: still nothing may be armed
					p("wait")
					p("schedule")
					p("wait")
					p("release fail")
					p("wait")
				case 2: // pause before the timer fires; repeated pause/resume
					p("schedule")
					p("pause")
					if r.chance(50) {
						p("wait")
					}
					p("resume") // Pause must have stopped the timer: nothing fires after an immediate Resume
					if r.chance(50) {
						p("wait")
					}
					p("schedule")
					p("wait")
					p("pause")
					p("resume")
					p("release fail")
					p("wait")
					p("pause")
					p("release fail")
					p("resume")
					p("schedule")
					p("wait")
				case 3: // Schedule from elsewhere (handleDisconnect) while an attempt is in flight
					p("schedule")
					p("wait")
					p("schedule")
					p("release fail")
					p("wait")
					p("release fail")
					p("wait")
					p("wait")
				case 4: // ResetAll / Cancel while in flight; the stale callback must not re-arm
					p("schedule")
					p("wait")
					p(r.pickS("clearall", "cancel"))
					if r.chance(60) {
						p("schedule")
					}
					p("release fail")
					p("wait")
					p("wait")
				case 5: // success, then a new episode starts from the initial delay
					p("schedule")
					p("wait")
					p("release fail")
					p("wait")
					p("release ok")
					p("wait")
					p("schedule")
					p("wait")
					p("release fail")
					p("wait")
				case 10: // an in-flight attempt SUCCEEDS while paused: the episode is over, the next one starts from the initial delay
					p("schedule")
					p("wait")
					p("release fail")
					p("wait")
					p("release fail")
					p("wait")
					p("pause")
					p("release ok")
					p("resume")
					if r.chance(50) {
						p("wait")
					}
					p("schedule")
					p("wait")
					p("release fail")
					p("wait")
				default: // random soup
					p("schedule")
					for k := 0; k < 10; k++ {
						switch r.intn(9) {
						case 0, 1, 2:
							p("wait")
						case 3, 4:
							p("release fail")
						case 5:
							p("schedule")
						case 6:
							p("pause")
						case 7:
							p("resume")
						default:
							p(r.pickS("release ok", "clearall", "cancel", "release fail"))
						}
					}
					p("wait")
				}
			}
		},
	})
}
