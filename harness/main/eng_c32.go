//go:build verif && (all || c32)

package main

import (
	"bufio"
	"context"
	"errors"
	"fmt"
	"net"
	"os"
	"strconv"
	"sync"
	"time"

	"github.com/postalsys/muti-metroo/internal/agent"
	"github.com/postalsys/muti-metroo/internal/config"
	"github.com/postalsys/muti-metroo/internal/identity"
	"github.com/postalsys/muti-metroo/internal/peer"
	"github.com/postalsys/muti-metroo/internal/protocol"
	"github.com/postalsys/muti-metroo/internal/routing"
	"github.com/postalsys/muti-metroo/internal/transport"
	"github.com/postalsys/muti-metroo/internal/verifhook"
)

// Engine c32: a real Agent (agent.New, not started) with its real peer.Manager, whose
// OnPeerConnected / OnPeerDisconnect are the agent's real handlers. Remote peers are scripted:
// each connection is an in-memory transport pair; the remote end does the real handshake
// (peer.Handshaker) and then only answers keepalives. The in-memory transport HOLDS the read error
// of a closed connection until the script releases it, so "the read loop notices the close only
// after the peer has reconnected" is a scripted schedule; the scheduling hook
// verifhook.At("peer.Manager.handleDisconnect:done") tells the script when a teardown has finished.
//
//   reset                       new agent                                          -> ok
//   connect in|out <p>          a handshake with peer p completes, through the AGENT's own paths (inbound:
//                               Agent.handleIncomingConnection, outbound: Agent.connectToPeer on a configured peer)                              -> registered c<k> | rejected c<k>
//   race <p> <k> held|free      k handshakes with peer p complete SIMULTANEOUSLY (held: all inbound, released together
//                               from behind the manager's lock; free: both directions, goroutines started together);
//                               then a frame is sent on each: exactly one may be registered, stay open, deliver
//                                                                                  -> race registered=<n> open=<n> delivered=<n>
//   sendblock <c> / unblock <c> the remote end sends a frame whose HANDLER (the frame callback) is held by the script
//                               until unblock: a slow downstream                   -> blocked|dropped / ok|notblocked
//   frame <c>                   the remote end sends a STREAM_DATA frame on c      -> delivered | dropped
//   rclose <c>                  the remote closes c; the read error is held, the keepalive loop's next
//                               send (real timer, 100 ms interval) fails and it tears the connection
//                               down: `conn.Close(); handleDisconnect(conn, err)`  -> ok | notopen
//   ktimeout <c>                the remote stops answering keepalives; deadline interval+timeout+3 ticks for the
//                               keepalive loop's idle teardown                      -> ok | no-teardown | notopen
//                               (on the pinned code: no-teardown — Connection.WriteFrame refreshes lastActivity, so the
//                               loop's own sends keep `since(lastActivity) > interval+timeout` false; which of the two the
//                               code does is measured by `facts` and enters the model as MM.Gen.C32.keepaliveTimeoutFires)
//   stall <c> / send <c> / unstall <c>   bytes in flight: reads on c deliver nothing while stalled; `send` writes a frame;
//                               `unstall` lets the read loop have it. If the connection was closed meanwhile
//                               (Disconnect/DisconnectAll) the read loop handles the frame, finds the connection
//                               done and exits WITHOUT a teardown                  -> ok|notopen / sent|dropped|notstalled / resumed|silent|teardown|notstalled
//   disconnect <p>              Manager.Disconnect(id)                             -> ok | notfound
//   disconnectall               Manager.DisconnectAll()                            -> ok
//   disconnectall-re <p>        DisconnectAll; from inside the transport Close of p's connection its read loop's
//                               teardown is released and p reconnects inbound      -> ok registered c<k> | nopeer
//   sendhold <p> / sendfail     Manager.SendToPeer(p) with the transport write held by the script; later the held
//                               write fails                                         -> held|nopeer / ok|notheld
//   readerr <c>                 the held read error of c surfaces: the read loop runs its teardown -> ok | noloop
//   learn <p> <n>               n routes with next hop p enter the route table     -> ok | noconn
//   relay <p> <q>               a relay entry between p and q is created           -> ok | noconn
//   routes <p> | relays <p> | peer <p>     observations                           -> routes <n> | relays <n> | peer c<k>|-

const (
	c32KAInterval = 100 * time.Millisecond
	c32KATimeout  = 300 * time.Millisecond
)

type c32Conn struct {
	idx        int
	p          int
	local      *peer.Connection
	remote     *peer.Connection
	end        *pmtConn
	registered bool
	released   bool
	stalled    bool
	blockedSID uint64
	silent     bool // its read loop was seen to exit without a teardown
	mu         sync.Mutex
	responsive bool
}

type c32World struct {
	dir     string
	a       *agent.Agent
	m       *peer.Manager
	conns   []*c32Conn
	done    chan struct{}
	frames  chan uint64
	nextSID uint64
	nextNet int

	outMu   sync.Mutex
	outNext transport.PeerConn // the connection the agent's next outbound dial gets (nil: dial fails)

	held     *c32Conn // connection whose writes are held (sendhold)
	sendDone chan struct{}

	blockMu sync.Mutex
	blocked map[uint64]chan struct{} // frames whose handler is held by the script: stream id -> gate
	entered chan uint64
}

var c32W *c32World

func c32ID(p int) identity.AgentID {
	var id identity.AgentID
	for i := range id {
		id[i] = byte(0xc0 + p)
	}
	return id
}

func c32Reset() string {
	if c32W != nil {
		c32W.shutdown()
	}
	dir, err := os.MkdirTemp("", "verif-c32-")
	must(err)
	cfg := config.Default()
	cfg.Agent.DataDir = dir
	cfg.Agent.LogLevel = "error"
	cfg.Connections.IdleThreshold = c32KAInterval
	cfg.Connections.Timeout = c32KATimeout
	cfg.Connections.KeepaliveJitter = 0
	cfg.Connections.Reconnect.InitialDelay = time.Hour // configured (persistent) peers are re-dialled by the script only
	cfg.Connections.Reconnect.MaxDelay = time.Hour
	a, err := agent.New(cfg)
	must(err)
	w := &c32World{dir: dir, a: a, m: a.VerifC32PeerMgr(), done: make(chan struct{}, 64), frames: make(chan uint64, 256), nextSID: 1000}
	w.blocked = map[uint64]chan struct{}{}
	w.entered = make(chan uint64, 16)
	w.m.SetFrameCallback(func(_ identity.AgentID, f *protocol.Frame) {
		if f.Type == protocol.FrameStreamData {
			w.blockMu.Lock()
			gate := w.blocked[f.StreamID]
			w.blockMu.Unlock()
			if gate != nil { // a slow handler: held until the script lets it return
				w.entered <- f.StreamID
				<-gate
				return
			}
			w.frames <- f.StreamID
		}
	})
	a.VerifC32SetTransport("mem", &pmtTransport{dial: func(context.Context, string) (transport.PeerConn, error) {
		w.outMu.Lock()
		defer w.outMu.Unlock()
		if w.outNext == nil {
			return nil, errors.New("no scripted connection")
		}
		pc := w.outNext
		w.outNext = nil
		return pc, nil
	}})
	verifhook.Point = func(name string) {
		if name == "peer.Manager.handleDisconnect:done" {
			select {
			case w.done <- struct{}{}:
			default:
			}
		}
	}
	c32W = w
	return "ok"
}

func (w *c32World) shutdown() {
	verifhook.Point = nil
	w.blockMu.Lock()
	for sid, g := range w.blocked {
		close(g)
		delete(w.blocked, sid)
	}
	w.blockMu.Unlock()
	for _, c := range w.conns {
		c.end.releaseReadErrors()
		if c.remote != nil {
			c.remote.Close()
		}
	}
	fin := make(chan struct{})
	go func() { w.a.VerifC32Close(); close(fin) }()
	select {
	case <-fin:
	case <-time.After(3 * time.Second):
	}
	os.RemoveAll(w.dir)
}

func (w *c32World) drainDone() {
	for len(w.done) > 0 {
		<-w.done
	}
}

func (w *c32World) waitDone(d time.Duration) bool {
	select {
	case <-w.done:
		return true
	case <-time.After(d):
		return false
	}
}

// remoteLoop: the scripted remote end reads frames and answers keepalives while responsive.
func (c *c32Conn) remoteLoop() {
	for {
		f, err := c.remote.VerifC32ReadFrame()
		if err != nil {
			return
		}
		if f.Type == protocol.FrameKeepalive {
			c.mu.Lock()
			r := c.responsive
			c.mu.Unlock()
			if r {
				if ka, err := protocol.DecodeKeepalive(f.Payload); err == nil {
					_ = c.remote.SendKeepaliveAck(ka.Timestamp)
				}
			}
		}
	}
}

// handshake performs one complete handshake with peer p (real Accept / ConnectWithTransport on the
// agent's manager, real Handshaker on the scripted remote end). `ready`, if not nil, is closed when the
// remote end has finished its part (the local side is then at or in registerConnection).
func (w *c32World) handshake(dir string, p int, name string, ready chan<- struct{}) *c32Conn {
	c := &c32Conn{idx: -1, p: p, responsive: true}
	dialEnd, listenEnd := pmtPair(name)
	dialEnd.holdReadErrors()
	c.end = dialEnd
	ctx, cancel := context.WithTimeout(context.Background(), 5*time.Second)
	defer cancel()
	h := peer.NewHandshaker(c32ID(p), fmt.Sprintf("peer-%d", p), nil, 5*time.Second)
	rcfg := peer.DefaultConnectionConfig(c32ID(p))
	type res struct {
		conn *peer.Connection
		err  error
	}
	rch := make(chan res, 1)
	var local *peer.Connection
	var err error
	tr := &pmtTransport{dial: func(context.Context, string) (transport.PeerConn, error) { return dialEnd, nil }}
	if dir == "in" {
		go func() {
			rc, err := h.DialAndHandshake(ctx, tr, "mem", rcfg, transport.DialOptions{})
			if ready != nil {
				close(ready)
			}
			rch <- res{rc, err}
		}()
		local, err = w.m.Accept(ctx, listenEnd)
	} else {
		go func() {
			rc, err := h.AcceptHandshake(ctx, listenEnd, rcfg)
			if ready != nil {
				close(ready)
			}
			rch <- res{rc, err}
		}()
		local, err = w.m.ConnectWithTransport(ctx, tr, fmt.Sprintf("mem-peer-%d", p))
	}
	r := <-rch
	if err != nil || r.err != nil {
		return nil
	}
	c.local, c.remote = local, r.conn
	go c.remoteLoop()
	return c
}

// connect: one complete handshake pushed through the AGENT's own paths — Agent.handleIncomingConnection for an
// inbound transport connection, Agent.connectToPeer (a configured, persistent peer on the in-memory transport) for
// an outbound one — which call peerMgr.Accept / ConnectWithTransport and act on what those hand back.
func (w *c32World) connect(dir string, p int) string {
	c := &c32Conn{idx: len(w.conns), p: p, responsive: true}
	dialEnd, listenEnd := pmtPair(fmt.Sprintf("c%d", c.idx))
	dialEnd.holdReadErrors()
	c.end = dialEnd
	ctx, cancel := context.WithTimeout(context.Background(), 5*time.Second)
	defer cancel()
	h := peer.NewHandshaker(c32ID(p), fmt.Sprintf("peer-%d", p), nil, 5*time.Second)
	rcfg := peer.DefaultConnectionConfig(c32ID(p))
	type res struct {
		conn *peer.Connection
		err  error
	}
	rch := make(chan res, 1)
	before := w.m.GetPeer(c32ID(p))
	if dir == "in" {
		tr := &pmtTransport{dial: func(context.Context, string) (transport.PeerConn, error) { return dialEnd, nil }}
		go func() {
			rc, err := h.DialAndHandshake(ctx, tr, "mem", rcfg, transport.DialOptions{})
			rch <- res{rc, err}
		}()
		w.a.VerifC32HandleIncoming(listenEnd)
	} else {
		go func() {
			rc, err := h.AcceptHandshake(ctx, listenEnd, rcfg)
			rch <- res{rc, err}
		}()
		w.outMu.Lock()
		w.outNext = dialEnd
		w.outMu.Unlock()
		w.a.VerifC32ConnectToPeer(config.PeerConfig{Transport: "mem", Address: fmt.Sprintf("mem-peer-%d-%d", p, c.idx)})
	}
	var r res
	select {
	case r = <-rch:
	case <-time.After(6 * time.Second):
		return "handshake-failed"
	}
	if r.err != nil {
		return "handshake-failed"
	}
	c.remote = r.conn
	after := w.m.GetPeer(c32ID(p))
	if before == nil && after != nil {
		c.local, c.registered = after, true
	}
	w.conns = append(w.conns, c)
	go c.remoteLoop()
	if c.registered {
		c.settle()
		return fmt.Sprintf("registered c%d", c.idx)
	}
	return fmt.Sprintf("rejected c%d", c.idx)
}

// race: k simultaneous handshakes of one identity.
func (w *c32World) race(p, k int, held bool) string {
	res := make([]*c32Conn, k)
	ready := make([]chan struct{}, k)
	start := make(chan struct{})
	var wg sync.WaitGroup
	if held {
		w.m.VerifC32LockMu()
	}
	for i := 0; i < k; i++ {
		dir := "in"
		if !held && i%2 == 1 {
			dir = "out"
		}
		ready[i] = make(chan struct{})
		wg.Add(1)
		go func(i int, dir string) {
			defer wg.Done()
			<-start
			res[i] = w.handshake(dir, p, fmt.Sprintf("race%d-%d", len(w.conns), i), ready[i])
		}(i, dir)
	}
	close(start)
	if held {
		for i := 0; i < k; i++ {
			select {
			case <-ready[i]:
			case <-time.After(3 * time.Second):
			}
		}
		time.Sleep(5 * time.Millisecond) // all k are now waiting in registerConnection
		w.m.VerifC32UnlockMu()
	}
	wg.Wait()
	cur := w.m.GetPeer(c32ID(p))
	var winner *c32Conn
	var rest []*c32Conn
	registered, open := 0, 0
	for _, c := range res {
		if c == nil {
			return "handshake-failed"
		}
		if c.local == cur {
			c.registered = true
			registered++
			winner = c
		} else {
			rest = append(rest, c)
		}
	}
	order := rest
	if winner != nil {
		order = append([]*c32Conn{winner}, rest...)
	}
	for _, c := range order {
		c.idx = len(w.conns)
		w.conns = append(w.conns, c)
	}
	time.Sleep(2 * time.Millisecond)
	for _, c := range order {
		if !c.localClosed() {
			open++
			c.settle()
		}
	}
	delivered := 0
	for _, c := range order {
		if w.sendFrame(c) {
			delivered++
		}
	}
	return fmt.Sprintf("race registered=%d open=%d delivered=%d", registered, open, delivered)
}

// sendFrame: the remote end writes one STREAM_DATA frame; was it handed to the frame callback?
func (w *c32World) sendFrame(c *c32Conn) bool {
	w.nextSID++
	sid := w.nextSID
	for len(w.frames) > 0 {
		<-w.frames
	}
	if err := c.remote.WriteFrame(&protocol.Frame{Type: protocol.FrameStreamData, StreamID: sid, Payload: []byte{1}}); err != nil {
		return false
	}
	deadline := time.After(60 * time.Millisecond)
	for {
		select {
		case got := <-w.frames:
			if got == sid {
				c.settle()
				return true
			}
		case <-deadline:
			return false
		}
	}
}

// settle waits until the manager's read loop (and the scripted remote reader) are blocked in Read.
// A read loop that has not reached Read yet (just started, or between two frames) when its
// connection is closed exits WITHOUT calling handleDisconnect; the scripts keep that race out.
func (c *c32Conn) settle() {
	deadline := time.Now().Add(time.Second)
	for c.end.blockedReaders() < 2 && time.Now().Before(deadline) {
		time.Sleep(100 * time.Microsecond)
	}
}

func (w *c32World) conn(tok string) *c32Conn {
	i, err := strconv.Atoi(tok)
	if err != nil || i < 0 || i >= len(w.conns) {
		return nil
	}
	return w.conns[i]
}

func (c *c32Conn) localClosed() bool {
	if c.local == nil { // a rejected duplicate of the agent path: the manager closed it
		return true
	}
	select {
	case <-c.local.Done():
		return true
	default:
		return false
	}
}

func c32Run(line string) string {
	f := fields(line)
	if f[0] == "reset" {
		return c32Reset()
	}
	w := c32W
	if w == nil {
		return "no-world"
	}
	num := func(i int) int {
		v, err := strconv.Atoi(f[i])
		must(err)
		return v
	}
	switch f[0] {
	case "connect":
		return w.connect(f[1], num(2))
	case "race":
		return w.race(num(1), num(2), f[3] == "held")
	case "frame":
		c := w.conn(f[1])
		if c == nil {
			return "dropped"
		}
		if w.sendFrame(c) {
			return "delivered"
		}
		return "dropped"
	case "ktimeout", "rclose":
		c := w.conn(f[1])
		if c == nil || !c.registered || c.localClosed() || c.end.isClosed() {
			return "notopen"
		}
		w.drainDone()
		if f[0] == "ktimeout" {
			c.mu.Lock()
			c.responsive = false
			c.mu.Unlock()
			// deadline: the idle check runs at every keepalive tick; interval+timeout of silence plus two ticks
			if !w.waitDone(c32KAInterval + c32KATimeout + 3*c32KAInterval) {
				return "no-teardown"
			}
			return "ok"
		}
		c.remote.Close()
		if !w.waitDone(2 * time.Second) {
			return "no-teardown"
		}
		return "ok"
	case "sendblock": // a frame whose handler (the agent's frame callback) does not return until `unblock`
		c := w.conn(f[1])
		if c == nil {
			return "dropped"
		}
		w.nextSID++
		sid := w.nextSID
		gate := make(chan struct{})
		w.blockMu.Lock()
		w.blocked[sid] = gate
		w.blockMu.Unlock()
		c.blockedSID = sid
		if err := c.remote.WriteFrame(&protocol.Frame{Type: protocol.FrameStreamData, StreamID: sid, Payload: []byte{1}}); err == nil {
			select {
			case <-w.entered:
				c.settle()
				return "blocked"
			case <-time.After(300 * time.Millisecond):
			}
		}
		w.blockMu.Lock()
		delete(w.blocked, sid)
		w.blockMu.Unlock()
		c.blockedSID = 0
		return "dropped"
	case "unblock":
		c := w.conn(f[1])
		if c == nil || c.blockedSID == 0 {
			return "notblocked"
		}
		w.drainDone()
		w.blockMu.Lock()
		gate := w.blocked[c.blockedSID]
		delete(w.blocked, c.blockedSID)
		w.blockMu.Unlock()
		c.blockedSID = 0
		close(gate)
		// Nothing may be waiting for that handler. Give a teardown that (wrongly) did wait for it time to run
		// before the next observation.
		w.waitDone(400 * time.Millisecond)
		return "ok"
	case "stall":
		c := w.conn(f[1])
		if c == nil || !c.registered || c.localClosed() || c.end.isClosed() {
			return "notopen"
		}
		c.stalled = true
		c.end.stallReads(true)
		return "ok"
	case "send":
		c := w.conn(f[1])
		if c == nil || !c.stalled {
			return "notstalled"
		}
		w.nextSID++
		if err := c.remote.WriteFrame(&protocol.Frame{Type: protocol.FrameStreamData, StreamID: w.nextSID, Payload: []byte{1}}); err != nil {
			return "dropped"
		}
		return "sent"
	case "unstall":
		c := w.conn(f[1])
		if c == nil || !c.stalled {
			return "notstalled"
		}
		c.stalled = false
		closed := c.localClosed()
		w.drainDone()
		c.end.stallReads(false)
		if !closed {
			c.settle()
			return "resumed"
		}
		// The connection was closed while bytes were still in flight to the read loop: it now reads the
		// frame. Deadline for a teardown to follow.
		if w.waitDone(150 * time.Millisecond) {
			return "teardown"
		}
		c.silent = true
		return "silent"
	case "disconnect":
		if err := w.m.Disconnect(c32ID(num(1))); err != nil {
			return "notfound"
		}
		return "ok"
	case "disconnectall":
		_ = w.m.DisconnectAll()
		return "ok"
	case "disconnectall-re": // DisconnectAll; the moment the connection of peer p is closed, its read loop notices and
		// the peer reconnects inbound — i.e. possibly while the other peers are still being closed
		p := num(1)
		var old *c32Conn
		for _, c := range w.conns {
			if c.registered && c.local != nil && c.local == w.m.GetPeer(c32ID(p)) {
				old = c
			}
		}
		if old == nil {
			return "nopeer"
		}
		res := ""
		fin := make(chan struct{})
		old.end.sh.onClose = func() {
			old.end.sh.onClose = nil
			go func() { // p's side of things, as soon as its connection is completely closed
				defer close(fin)
				select {
				case <-old.local.Done():
				case <-time.After(2 * time.Second):
				}
				w.drainDone()
				old.released = true
				old.end.releaseReadErrors()
				w.waitDone(2 * time.Second)
				res = w.connect("in", p)
			}()
		}
		for _, c := range w.conns { // the close of every OTHER connection waits until p is back
			if c != old && c.registered && !c.localClosed() {
				c := c
				c.end.sh.onClose = func() {
					c.end.sh.onClose = nil
					if old.end.isClosed() {
						select {
						case <-fin:
						case <-time.After(4 * time.Second):
						}
					}
				}
			}
		}
		_ = w.m.DisconnectAll()
		select {
		case <-fin:
		case <-time.After(4 * time.Second):
		}
		return "ok " + res
	case "sendhold": // Manager.SendToPeer(p) whose write on the transport is held by the script
		p := num(1)
		var cur *c32Conn
		for _, c := range w.conns {
			if c.registered && c.local != nil && c.local == w.m.GetPeer(c32ID(p)) {
				cur = c
			}
		}
		if cur == nil || w.held != nil {
			return "nopeer"
		}
		cur.end.holdWrites()
		w.held = cur
		w.sendDone = make(chan struct{})
		go func() {
			_ = w.m.SendToPeer(c32ID(p), &protocol.Frame{Type: protocol.FrameStreamData, StreamID: 7, Payload: []byte{1}})
			close(w.sendDone)
		}()
		deadline := time.Now().Add(time.Second)
		for cur.end.blockedWriters() == 0 && time.Now().Before(deadline) {
			time.Sleep(100 * time.Microsecond)
		}
		return "held"
	case "sendfail": // the held write now fails (the transport of that connection is long gone)
		if w.held == nil {
			return "notheld"
		}
		w.drainDone()
		w.held.end.releaseWrites(true)
		w.held = nil
		select {
		case <-w.sendDone:
		case <-time.After(2 * time.Second):
			return "send-did-not-return"
		}
		w.waitDone(200 * time.Millisecond) // a teardown that the failed send (wrongly) caused
		return "ok"
	case "readerr":
		c := w.conn(f[1])
		if c == nil || !c.registered || c.released || c.silent || !c.end.isClosed() {
			return "noloop"
		}
		w.drainDone()
		c.released = true
		c.end.releaseReadErrors()
		if !w.waitDone(2 * time.Second) {
			return "no-teardown"
		}
		return "ok"
	case "learn":
		p, n := num(1), num(2)
		if w.m.GetPeer(c32ID(p)) == nil {
			return "noconn"
		}
		for i := 0; i < n; i++ {
			w.nextNet++
			_, ipn, err := net.ParseCIDR(fmt.Sprintf("10.%d.%d.0/24", w.nextNet/250, w.nextNet%250))
			must(err)
			var origin identity.AgentID
			origin[0], origin[1], origin[2] = 0xee, byte(w.nextNet>>8), byte(w.nextNet)
			if !w.a.VerifC32RouteMgr().Table().AddRoute(&routing.Route{Network: ipn, NextHop: c32ID(p), OriginAgent: origin, Metric: 1, Sequence: 1, Path: []identity.AgentID{c32ID(p), origin}}) {
				return "route-rejected"
			}
		}
		return "ok"
	case "relay":
		p, q := num(1), num(2)
		if w.m.GetPeer(c32ID(p)) == nil || w.m.GetPeer(c32ID(q)) == nil {
			return "noconn"
		}
		w.nextSID += 2
		w.a.VerifC32AddRelay(c32ID(p), w.nextSID, c32ID(q), w.nextSID+1)
		return "ok"
	case "routes":
		n := 0
		for _, r := range w.a.VerifC32RouteMgr().Table().GetAllRoutes() {
			if r.NextHop == c32ID(num(1)) {
				n++
			}
		}
		return fmt.Sprintf("routes %d", n)
	case "relays":
		return fmt.Sprintf("relays %d", w.a.VerifC32RelayCount(c32ID(num(1))))
	case "peer":
		lc := w.m.GetPeer(c32ID(num(1)))
		if lc == nil {
			return "peer -"
		}
		for _, c := range w.conns {
			if c.local == lc {
				return fmt.Sprintf("peer c%d", c.idx)
			}
		}
		return "peer unknown"
	}
	return "bad-op"
}

func init() {
	register("c32", &Engine{
		Run: c32Run,
		Facts: func(w *bufio.Writer) {
			// Does the keepalive loop tear down a connection whose peer stopped answering? (measured, not assumed)
			c32Reset()
			fires := c32Run("connect in 1") == "registered c0" && c32Run("ktimeout 0") == "ok"
			c32W.shutdown()
			c32W = nil
			fmt.Fprintf(w, "-- GENERATED by `harness c32 facts` from the real peer.Manager. Do not edit.\nnamespace MM.Gen.C32\n")
			fmt.Fprintf(w, "/-- a connection whose remote end stops answering keepalives is torn down by the keepalive loop\n    within KeepaliveInterval+KeepaliveTimeout (+3 ticks) -/\ndef keepaliveTimeoutFires : Bool := %v\nend MM.Gen.C32\n", fires)
		},
		Gen: func(w *bufio.Writer, seed int64, tier string) {
			r := newRng(seed)
			cases := 40
			if tier == "thorough" {
				cases = 90
			}
			p := func(format string, a ...any) { fmt.Fprintf(w, format+"\n", a...) }
			obs := func() {
				for _, q := range []int{1, 2} {
					p("peer %d", q)
					p("routes %d", q)
					p("relays %d", q)
				}
			}
			dir := func() string { return r.pickS("in", "out") }
			for i := 0; i < cases; i++ {
				p("reset")
				kind := r.intn(13)
				if i < 2 {
					kind = 6 // every run stresses simultaneous registration
				} else if i < 8 {
					kind = 5 + i // ... and has the cases 7 (frame in flight at close), 8 (keepalive timeout),
					// 9 (duplicate through the agent's accept/connect paths), 10 (blocked frame handler),
					// 11 (late send error), 12 (reconnect during DisconnectAll)
				}
				switch kind {
				case 11: // a send picked up connection 0, its transport write hangs; 0 dies, the peer reconnects; the write fails late
					p("connect %s 1", dir())
					p("connect %s 2", dir())
					p("learn 1 1")
					p("sendhold 1")
					p("disconnect 1")
					p("readerr 0")
					p("connect %s 1", dir())
					p("learn 1 %d", r.pick(2, 3))
					p("relay 1 2")
					p("sendfail")
					obs()
					p("frame 2")
				case 12: // DisconnectAll with several peers; peer 1 reconnects inbound the moment its connection is closed
					for round := 0; round < 2; round++ {
						for q := 1; q <= 4; q++ {
							p("connect %s %d", dir(), q)
						}
						p("learn 1 1")
						p("disconnectall-re 1")
						p("peer 1")
						p("learn 1 2")
						p("connect in 1")
						p("peer 1")
						p("routes 1")
						p("disconnect 1")
					}
					obs()
				case 9: // a second handshake with the identity of a connected peer, through the agent's own accept /
					// connect paths: the first connection stays registered, open, delivering, its routes intact
					p("connect %s 1", dir())
					p("connect %s 2", dir())
					p("learn 1 %d", r.pick(2, 3))
					p("relay 1 2")
					p("connect in 1")
					p("peer 1")
					p("frame 0")
					p("connect out 1")
					p("peer 1")
					p("frame 0")
					p("frame %d", r.pick(2, 3))
					p("readerr 0")
					obs()
					p("connect %s 2", dir())
					p("frame 1")
					obs()
				case 10: // a frame handler of connection 0 is blocked (slow downstream) while its transport dies, the peer
					// reconnects and its routes are learned again; then the handler returns
					p("connect %s 1", dir())
					p("connect %s 2", dir())
					p("learn 1 1")
					p("sendblock 0")
					p(r.pickS("rclose 0", "rclose 0", "disconnect 1"))
					p("connect %s 1", dir())
					p("learn 1 %d", r.pick(2, 4))
					p("relay 1 2")
					if r.chance(50) {
						p("readerr 0")
					}
					p("unblock 0")
					obs()
					p("readerr 0")
					obs()
					p("frame 2")
				case 7: // Disconnect / DisconnectAll while a frame is still in flight to the read loop: the loop exits
					// without a teardown, the old routes stay until the NEXT teardown of that peer
					p("connect %s 1", dir())
					p("connect %s 2", dir())
					p("learn 1 %d", r.pick(1, 2))
					p("relay 1 2")
					p("stall 0")
					p("send 0")
					if r.chance(50) {
						p("send 0")
					}
					p(r.pickS("disconnect 1", "disconnectall"))
					p("unstall 0")
					p("readerr 0")
					obs()
					p("connect %s 1", dir())
					p("learn 1 %d", r.pick(1, 3))
					p("readerr 0")
					obs()
					p("readerr 1")
					p("rclose 2")
					p("rclose 3")
					obs()
				case 8: // the peer stops answering keepalives (deadline), then tries to come back
					p("connect %s 1", dir())
					p("learn 1 2")
					p("ktimeout 0")
					p("peer 1")
					p("routes 1")
					p("connect %s 1", dir())
					p("frame 1")
					p("readerr 0")
					p("connect %s 1", dir())
					obs()
				case 6: // k simultaneous handshakes of one identity: exactly one registers, stays open, delivers
					for q := 1; q <= 4; q++ {
						mode := r.pickS("held", "held", "free")
						if q == 1 {
							mode = "held" // always present: released together from behind the manager's lock
						}
						p("race %d %d %s", q, r.pick(2, 4, 8), mode)
						p("peer %d", q)
					}
					p("race 1 %d held", r.pick(2, 6)) // peer 1 is connected already: all are rejected
					p("frame 0")
					p("learn 1 2")
					p("disconnect 1")
					p("race 1 %d %s", r.pick(3, 5), r.pickS("held", "free"))
					obs()
				case 0: // keepalive timeout, fast reconnect, THEN the old read loop's teardown
					p("connect %s 1", dir())
					p("connect %s 2", dir())
					p("learn 1 %d", r.pick(1, 2, 3))
					p("relay 1 2")
					p("rclose 0")
					obs()
					p("connect %s 1", dir())
					p("learn 1 %d", r.pick(1, 2, 5))
					p("relay %s", r.pickS("1 2", "2 1"))
					p("readerr 0")
					obs()
					p("frame 2")
				case 1: // Disconnect / DisconnectAll, reconnect before the old read loop notices
					p("connect %s 1", dir())
					p("connect %s 2", dir())
					p("learn 1 2")
					p("learn 2 1")
					p(r.pickS("disconnect 1", "disconnectall"))
					p("connect %s 1", dir())
					p("learn 1 %d", r.pick(1, 3))
					if r.chance(50) {
						p("relay 1 2")
					}
					p("readerr 0")
					obs()
					p("readerr 1")
					obs()
				case 2: // simultaneous dials: duplicates are rejected and silent
					p("connect in 1")
					p("connect out 1")
					p("connect %s 1", dir())
					p("frame 1")
					p("frame 2")
					p("frame 0")
					p("learn 1 2")
					p("readerr 1")
					obs()
					p("disconnect 1")
					p("frame 0")
					p("connect %s 1", dir())
					p("frame 3")
					obs()
				case 3: // ordinary teardown (no replacement): routes and relays of the peer go
					p("connect %s 1", dir())
					p("connect %s 2", dir())
					p("learn 1 3")
					p("learn 2 2")
					p("relay 1 2")
					p(r.pickS("rclose 0", "rclose 0", "disconnect 1"))
					p("readerr 0")
					obs()
					p("readerr 0")
					p("connect %s 1", dir())
					obs()
				case 4: // two generations of replacement
					p("connect %s 1", dir())
					p("learn 1 1")
					p("disconnect 1")
					p("connect %s 1", dir())
					p("learn 1 2")
					p("disconnect 1")
					p("connect %s 1", dir())
					p("learn 1 4")
					p("readerr %d", r.pick(0, 1))
					obs()
					p("readerr %d", r.pick(0, 1))
					obs()
				default: // random soup (keepalive timeouts are slow: few of them)
					nconn := 0
					for k := 0; k < 14; k++ {
						switch r.intn(12) {
						case 0, 1, 2:
							p("connect %s %d", dir(), r.pick(1, 1, 2))
							nconn++
						case 3:
							p("learn %d %d", r.pick(1, 2), r.pick(1, 2))
						case 4:
							p("relay 1 2")
						case 5:
							p("disconnect %d", r.pick(1, 2))
						case 6:
							p("disconnectall")
						case 7, 8:
							p("readerr %d", r.intn(nconn+1))
						case 9:
							p("frame %d", r.intn(nconn+1))
						case 10:
							if r.chance(40) {
								p("rclose %d", r.intn(nconn+1))
							}
						default:
							p("peer %d", r.pick(1, 2))
						}
					}
					obs()
				}
			}
		},
	})
}
