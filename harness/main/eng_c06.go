//go:build verif && (all || c06)

package main

import (
	"bufio"
	"encoding/hex"
	"fmt"
	"net"
	"sort"
	"strconv"
	"strings"

	"github.com/postalsys/muti-metroo/internal/flood"
	"github.com/postalsys/muti-metroo/internal/identity"
	"github.com/postalsys/muti-metroo/internal/protocol"
	"github.com/postalsys/muti-metroo/internal/routing"
)

// Engine c06: route announcement framing. Real flood.Flooder + routing.Manager on the sending
// agent A, a capturing PeerSender standing for the connection (Frame.Encode -> bytes ->
// protocol.Decode), and a second real Flooder + Manager as the neighbour B whose tables are
// dumped afterwards.
//
//	announce <selfA> <nameA> <entries…>
//	    A originates the entries, AnnounceLocalRoutes(); B handles every frame that survives
//	    Frame.Encode.
//	replay <selfA> <nameA> <local entries…> [| <originO> <nameO> <entries…>]…
//	    A additionally learns one group per remote origin O (advertised by O itself as A's
//	    peer), then SendFullTable(B).
//	withdraw <selfA> <nameA> <entries…>
//	    A originates the entries and announces them, B learns them; then A.WithdrawLocalRoutes() and B
//	    handles the ROUTE_WITHDRAW frames: the dump shows what B still holds.
//	forward <selfA> <routeadv tokens as in engine c05>
//	    A receives the advertisement from a peer P and floods it; B handles what A sent to B.
//	-> ok drops=<frames refused by Frame.Encode> errs=<frames B could not decode> learned <sorted entries…>
//
// entry tokens:  c <ipHex> <ones> <metric> | d <patternHex> <wild> <metric> | f <keyHex> <targetHex> <metric>
// learned entry: c:<origin8>:<ipHex>/<ones>:<metric>  d:<origin8>:<patternHex>:<metric>
//                f:<origin8>:<keyHex>:<targetHex>:<metric>  a:<origin8>:<idHex>:<metric>   (metrics as stored by B)

type c06Sender struct {
	peers  []identity.AgentID
	frames map[identity.AgentID][]*protocol.Frame
}

func (s *c06Sender) SendToPeer(p identity.AgentID, f *protocol.Frame) error {
	if s.frames == nil {
		s.frames = map[identity.AgentID][]*protocol.Frame{}
	}
	// what the peer connection does with it: Frame.Encode; an oversized payload is refused
	if _, err := f.Encode(); err != nil {
		s.frames[p] = append(s.frames[p], nil)
		return err
	}
	s.frames[p] = append(s.frames[p], f)
	return nil
}
func (s *c06Sender) GetPeerIDs() []identity.AgentID { return s.peers }

func c06ID(tok string) (id identity.AgentID) {
	b := unhexTok(tok)
	if len(b) != 16 {
		panic("c06: id must be 16 bytes")
	}
	copy(id[:], b)
	return
}

type c06Entry struct {
	kind        string
	a, b        []byte
	ones        int
	wild        bool
	metric      uint16
}

// parse entries until "|" or end; returns entries and remaining tokens (after the "|")
func c06Entries(f []string) ([]c06Entry, []string) {
	var es []c06Entry
	i := 0
	for i < len(f) && f[i] != "|" {
		switch f[i] {
		case "c":
			ones, _ := strconv.Atoi(f[i+2])
			m, _ := strconv.Atoi(f[i+3])
			es = append(es, c06Entry{kind: "c", a: unhexTok(f[i+1]), ones: ones, metric: uint16(m)})
			i += 4
		case "d":
			m, _ := strconv.Atoi(f[i+3])
			es = append(es, c06Entry{kind: "d", a: unhexTok(f[i+1]), wild: f[i+2] == "1", metric: uint16(m)})
			i += 4
		case "f":
			m, _ := strconv.Atoi(f[i+3])
			es = append(es, c06Entry{kind: "f", a: unhexTok(f[i+1]), b: unhexTok(f[i+2]), metric: uint16(m)})
			i += 4
		default:
			panic("c06: bad entry token " + f[i])
		}
	}
	if i < len(f) {
		i++ // skip "|"
	}
	return es, f[i:]
}

func c06AddLocal(m *routing.Manager, es []c06Entry) {
	for _, e := range es {
		switch e.kind {
		case "c":
			ip := net.IP(append([]byte{}, e.a...))
			if !m.AddLocalRoute(&net.IPNet{IP: ip, Mask: net.CIDRMask(e.ones, 8*len(ip))}, e.metric) {
				panic("c06: AddLocalRoute refused")
			}
		case "d":
			if !m.AddLocalDomainRoute(string(e.a), e.metric) {
				panic("c06: AddLocalDomainRoute refused " + string(e.a))
			}
		case "f":
			if !m.AddLocalForwardRoute(string(e.a), string(e.b), e.metric) {
				panic("c06: AddLocalForwardRoute refused")
			}
		}
	}
}

// the advertisement(s) a remote origin O would send for its entries (at most 255 routes each,
// built with the real encoder types; O is not the agent under test)
func c06OriginAdverts(origin identity.AgentID, name string, es []c06Entry) []*protocol.RouteAdvertise {
	var routes []protocol.Route
	for _, e := range es {
		switch e.kind {
		case "c":
			fam := protocol.AddrFamilyIPv4
			if len(e.a) == 16 {
				fam = protocol.AddrFamilyIPv6
			}
			routes = append(routes, protocol.Route{AddressFamily: fam, PrefixLength: uint8(e.ones), Prefix: e.a, Metric: e.metric})
		case "d":
			pl := uint8(0)
			if e.wild {
				pl = 1
			}
			routes = append(routes, protocol.Route{AddressFamily: protocol.AddrFamilyDomain, PrefixLength: pl, Prefix: protocol.EncodeDomainPrefix(string(e.a)), Metric: e.metric})
		case "f":
			routes = append(routes, protocol.Route{AddressFamily: protocol.AddrFamilyForward, Prefix: protocol.EncodeForwardKeyWithTarget(string(e.a), string(e.b)), Metric: e.metric})
		}
	}
	routes = append(routes, protocol.Route{AddressFamily: protocol.AddrFamilyAgent, Prefix: protocol.EncodeAgentPrefix(origin)})
	var out []*protocol.RouteAdvertise
	seq := uint64(1)
	for len(routes) > 0 {
		n := len(routes)
		if n > 200 {
			n = 200
		}
		out = append(out, &protocol.RouteAdvertise{OriginAgent: origin, OriginDisplayName: name, Sequence: seq, Routes: routes[:n],
			EncPath: &protocol.EncryptedData{Data: protocol.EncodePath([]identity.AgentID{origin})}, SeenBy: []identity.AgentID{origin}})
		routes = routes[n:]
		seq++
	}
	return out
}

func c06Dump(m *routing.Manager) []string {
	var out []string
	o8 := func(id identity.AgentID) string { return hex.EncodeToString(id[:4]) }
	for _, r := range m.Table().GetAllRoutes() {
		ones, _ := r.Network.Mask.Size()
		out = append(out, fmt.Sprintf("c:%s:%s/%d:%d", o8(r.OriginAgent), hexTok(r.Network.IP), ones, r.Metric))
	}
	for _, r := range m.DomainTable().GetAllRoutes() {
		out = append(out, fmt.Sprintf("d:%s:%s:%d", o8(r.OriginAgent), hexTok([]byte(r.Pattern)), r.Metric))
	}
	for _, r := range m.ForwardTable().GetAllRoutes() {
		out = append(out, fmt.Sprintf("f:%s:%s:%s:%d", o8(r.OriginAgent), hexTok([]byte(r.Key)), hexTok([]byte(r.Target)), r.Metric))
	}
	for _, r := range m.AgentTable().GetAllRoutes() {
		out = append(out, fmt.Sprintf("a:%s:%s:%d", o8(r.OriginAgent), hexTok(r.AgentID[:]), r.Metric))
	}
	sort.Strings(out)
	return out
}

var c06PeerB = identity.AgentID{0xbb, 0xbb, 0xbb, 0xbb, 0xb0, 0xb1, 0xb2, 0xb3, 0xb4, 0xb5, 0xb6, 0xb7, 0xb8, 0xb9, 0xba, 0xbb}

// c06B is the neighbour: a real Flooder + Manager fed with what A sent "over the wire".
type c06B struct {
	m           *routing.Manager
	f           *flood.Flooder
	drops, errs int
}

func c06NewB() *c06B {
	mB := routing.NewManager(c06PeerB)
	return &c06B{m: mB, f: flood.NewFlooder(flood.DefaultFloodConfig(), c06PeerB, mB, &c06Sender{})}
}

func (b *c06B) deliver(fromA identity.AgentID, frames []*protocol.Frame) {
	for _, fr := range frames {
		if fr == nil {
			b.drops++
			continue
		}
		wire, err := fr.Encode()
		if err != nil {
			b.drops++
			continue
		}
		got, err := protocol.Decode(wire)
		if err != nil {
			b.errs++
			continue
		}
		switch got.Type {
		case protocol.FrameRouteAdvertise:
			adv, err := protocol.DecodeRouteAdvertise(got.Payload)
			if err != nil {
				b.errs++
				continue
			}
			b.f.HandleRouteAdvertise(fromA, adv.OriginAgent, adv.OriginDisplayName, adv.Sequence, adv.Routes, adv.EncPath, adv.SeenBy)
		case protocol.FrameRouteWithdraw:
			wd, err := protocol.DecodeRouteWithdraw(got.Payload)
			if err != nil {
				b.errs++
				continue
			}
			b.f.HandleRouteWithdraw(fromA, wd.OriginAgent, wd.Sequence, wd.Routes, wd.SeenBy)
		default:
			b.errs++
		}
	}
}

func (b *c06B) result() string {
	defer b.f.Stop()
	return fmt.Sprintf("ok drops=%d errs=%d learned %s", b.drops, b.errs, strings.Join(c06Dump(b.m), " "))
}

// deliver the frames A sent to B over "the wire" and let B's real flooder handle them
func c06Neighbour(fromA identity.AgentID, frames []*protocol.Frame) string {
	b := c06NewB()
	b.deliver(fromA, frames)
	return b.result()
}

func c06Run(line string) string {
	f := fields(line)
	switch f[0] {
	case "announce", "replay", "withdraw":
		self, name := c06ID(f[1]), string(unhexTok(f[2]))
		local, rest := c06Entries(f[3:])
		mA := routing.NewManager(self)
		sA := &c06Sender{peers: []identity.AgentID{c06PeerB}}
		cfg := flood.DefaultFloodConfig()
		cfg.LocalDisplayName = name
		fA := flood.NewFlooder(cfg, self, mA, sA)
		defer fA.Stop()
		c06AddLocal(mA, local)
		if f[0] == "announce" {
			fA.AnnounceLocalRoutes()
			return c06Neighbour(self, sA.frames[c06PeerB])
		}
		if f[0] == "withdraw" { // announce, let B learn everything, then withdraw the local (CIDR) routes
			b := c06NewB()
			fA.AnnounceLocalRoutes()
			b.deliver(self, sA.frames[c06PeerB])
			if b.drops+b.errs > 0 {
				return "ok announce-failed " + b.result()
			}
			sA.frames = nil
			fA.WithdrawLocalRoutes()
			b.deliver(self, sA.frames[c06PeerB])
			return b.result()
		}
		for len(rest) > 0 {
			origin, oname := c06ID(rest[0]), string(unhexTok(rest[1]))
			var es []c06Entry
			es, rest = c06Entries(rest[2:])
			for _, adv := range c06OriginAdverts(origin, oname, es) {
				fA.HandleRouteAdvertise(origin, adv.OriginAgent, adv.OriginDisplayName, adv.Sequence, adv.Routes, adv.EncPath, adv.SeenBy)
			}
		}
		sA.frames = nil // only the replay to B is observed
		fA.SendFullTable(c06PeerB)
		return c06Neighbour(self, sA.frames[c06PeerB])
	case "forward":
		self := c06ID(f[1])
		adv := c05AdvFrom(&c05R{f: f[2:]})
		fromP := identity.AgentID{0xcc, 1, 2, 3}
		mA := routing.NewManager(self)
		sA := &c06Sender{peers: []identity.AgentID{fromP, c06PeerB}}
		fA := flood.NewFlooder(flood.DefaultFloodConfig(), self, mA, sA)
		defer fA.Stop()
		enc := adv.EncPath
		if enc == nil {
			enc = &protocol.EncryptedData{Data: protocol.EncodePath(adv.Path)}
		}
		fA.HandleRouteAdvertise(fromP, adv.OriginAgent, adv.OriginDisplayName, adv.Sequence, adv.Routes, enc, adv.SeenBy)
		return c06Neighbour(self, sA.frames[c06PeerB])
	}
	return "bad-op"
}

// ---- generator

func c06GenEntries(w *strings.Builder, r *rng, nc, nd, nf int, tag int, longNames bool) {
	for i := 0; i < nc; i++ {
		if r.chance(15) { // IPv6 /64s
			ip := make([]byte, 16)
			ip[0], ip[1], ip[2], ip[3] = 0x20, 0x01, byte(tag), byte(i>>8)
			ip[4] = byte(i)
			fmt.Fprintf(w, " c %s 64 %d", hexTok(ip), r.pick(0, 1, 5, 65534, 65535))
		} else {
			ip := []byte{10, byte(tag), byte(i >> 8), byte(i)}
			fmt.Fprintf(w, " c %s 32 %d", hexTok(ip), r.pick(0, 1, 5, 65534, 65535))
		}
	}
	if nc > 0 && r.chance(50) { // a default route early in the list: its bytes read as an empty EncryptedData when the count wraps
		fmt.Fprintf(w, " c 00000000 0 0")
	}
	for i := 0; i < nd; i++ {
		p := fmt.Sprintf("h%d-%d.example.com", tag, i)
		if longNames { // up to 253 bytes: crosses the payload limit well below 255 routes
			p = fmt.Sprintf("h%d-%d.%s.example.com", tag, i, strings.Repeat("a", r.pick(200, 220, 230)))
		}
		wild := 0
		if r.chance(30) {
			p, wild = "*."+p, 1
		}
		fmt.Fprintf(w, " d %s %d %d", hexTok([]byte(p)), wild, r.pick(0, 1, 7))
	}
	// always: an exact pattern AND the wildcard over the same base (mixed case too), and a base / a forward key
	// that other origins use as well - structurally related routes must all survive announce, replay and withdraw
	for _, base := range []string{fmt.Sprintf("pair%d.example.com", tag), fmt.Sprintf("MiXed%d.Example.COM", tag), "shared.example.org"} {
		fmt.Fprintf(w, " d %s 0 %d", hexTok([]byte(base)), r.pick(0, 1, 7))
		fmt.Fprintf(w, " d %s 1 %d", hexTok([]byte("*."+base)), r.pick(0, 1, 7))
	}
	fmt.Fprintf(w, " f %s %s %d", hexTok([]byte("svc-shared")), hexTok([]byte(fmt.Sprintf("10.%d.9.9:80", tag))), r.pick(0, 1, 9))
	for i := 0; i < nf; i++ {
		key := fmt.Sprintf("svc-%d-%d", tag, i)
		target := fmt.Sprintf("10.%d.0.%d:%d", tag, i%250, 1000+i)
		if longNames {
			key += strings.Repeat("k", r.pick(100, 200, 240))
			target += strings.Repeat("t", r.pick(100, 200, 230))
		}
		fmt.Fprintf(w, " f %s %s %d", hexTok([]byte(key)), hexTok([]byte(target)), r.pick(0, 1, 9))
	}
}

func c06Gen(w *bufio.Writer, seed int64, tier string) {
	r := newRng(seed)
	counts := []int{0, 1, 2, 254, 255, 256, 257, 300, 511, 512, 1000}
	n := 120
	if tier == "thorough" {
		n = 400
	}
	selfTok := func(b byte) string { return hexTok(append([]byte{b, b, b, b}, r.bytes(12)...)) }
	small := func() int { return r.pick(0, 0, 1, 2, 3, 5) }
	for i := 0; i < n; i++ {
		var sb strings.Builder
		name := hexTok([]byte(c05GenStr(r)))
		if len(name) > 510 {
			name = hexTok([]byte("agent-a"))
		}
		switch {
		case i%13 == 5 || i%13 == 11: // announce then withdraw the local CIDR routes
			nc := counts[r.intn(len(counts))]
			if r.chance(25) {
				nc = r.pick(2030, 2100, 3000) // over one frame of 8-byte routes
			}
			fmt.Fprintf(&sb, "withdraw %s %s", selfTok(0xaa), name)
			c06GenEntries(&sb, r, nc, small(), small(), 1, false)
		case i%13 < 6: // announce: one family large, the others small, or a mixture
			nc, nd, nf := small(), small(), small()
			long := false
			switch r.intn(6) {
			case 0:
				nc = counts[r.intn(len(counts))]
			case 1:
				nd = counts[r.intn(len(counts))]
			case 2:
				nf = counts[r.intn(len(counts))]
			case 3:
				nc, nd, nf = r.pick(100, 254, 255), r.pick(0, 1, 2), r.pick(0, 1)
			case 4: // long names: payload limit reached with few routes
				nd, nf, long = r.pick(20, 40, 70, 120), r.pick(0, 10, 40), true
			}
			fmt.Fprintf(&sb, "announce %s %s", selfTok(0xaa), name)
			c06GenEntries(&sb, r, nc, nd, nf, 1, long)
		case i%13 < 10: // replay to a new peer
			fmt.Fprintf(&sb, "replay %s %s", selfTok(0xaa), name)
			c06GenEntries(&sb, r, small(), small(), small(), 1, false)
			for g, ng := 0, r.pick(0, 1, 1, 2, 3); g < ng; g++ {
				nc, nd, nf := small(), small(), small()
				long := false
				switch r.intn(5) {
				case 0:
					nc = counts[r.intn(len(counts))]
				case 1:
					nd = r.pick(254, 255, 256, 300)
				case 2:
					nf = r.pick(255, 256, 257)
				case 3:
					nd, nf, long = r.pick(20, 40, 70), r.pick(0, 10, 30), true
				}
				fmt.Fprintf(&sb, " | %s %s", selfTok(byte(0xd0+g)), hexTok([]byte(c05GenStr(r)[:0]+fmt.Sprintf("origin-%d", g))))
				c06GenEntries(&sb, r, nc, nd, nf, 2+g, long)
			}
		default: // forward a received advertisement (distinct, well-formed routes; varying path / seen-by / name sizes)
			var eb strings.Builder
			nc, nd, nf := small(), small(), small()
			long := false
			switch r.intn(5) {
			case 0:
				nc = r.pick(100, 200, 250) // with the presence route still at most 255
			case 1:
				nd, nf, long = r.pick(20, 40, 60), r.pick(0, 5), true
			case 2: // near the payload limit: forwarding adds 32 bytes (path + seen-by)
				nd, long = r.pick(63, 64, 65), true
			}
			c06GenEntries(&eb, r, nc, nd, nf, 7, long)
			es, _ := c06Entries(strings.Fields(eb.String()))
			var origin identity.AgentID
			copy(origin[:], append([]byte{0xd7, 0xd7, 0xd7, 0xd7}, r.bytes(12)...))
			advs := c06OriginAdverts(origin, c05GenStr(r), es)
			adv := advs[0]
			if len(adv.OriginDisplayName) > 255 {
				adv.OriginDisplayName = "x"
			}
			adv.Sequence = c05GenU64(r)
			hops := r.pick(0, 1, 2, 5, 15)
			if r.chance(5) {
				hops = r.pick(100, 252, 253) // path and seen-by stay below the 255-entry wire limit after forwarding (beyond it the forwarder refuses, see dae7f66)
			}
			path, seen := []identity.AgentID{origin}, []identity.AgentID{origin}
			for h := 0; h < hops; h++ {
				var id identity.AgentID
				copy(id[:], append([]byte{0xe0, byte(h)}, r.bytes(14)...))
				path = append([]identity.AgentID{id}, path...)
				seen = append(seen, id)
			}
			adv.SeenBy = seen
			if r.chance(10) { // legacy encrypted path: forwarded as is
				adv.EncPath = &protocol.EncryptedData{Encrypted: true, Data: r.bytes(r.pick(0, 48, 200))}
			} else {
				adv.Path, adv.EncPath = path, &protocol.EncryptedData{Data: protocol.EncodePath(path)}
			}
			if r.chance(25) { // pad the payload to just below / at / above what still fits after forwarding
				target := r.pick(16351, 16352, 16353, 16384)
				for len(adv.Encode())+8+230 <= target && len(adv.Routes) < 255 {
					k := len(adv.Routes)
					adv.Routes = append(adv.Routes, protocol.Route{AddressFamily: protocol.AddrFamilyDomain,
						Prefix: protocol.EncodeDomainPrefix(fmt.Sprintf("pad%d.%s.example.com", k, strings.Repeat("b", 200))), Metric: 1})
				}
				if gap := target - len(adv.Encode()) - 4 - 1; gap >= 12 && gap <= 255 && len(adv.Routes) < 255 {
					adv.Routes = append(adv.Routes, protocol.Route{AddressFamily: protocol.AddrFamilyDomain,
						Prefix: protocol.EncodeDomainPrefix("z." + strings.Repeat("c", gap-6) + ".org"), Metric: 1})
				}
			}
			w2 := &c05W{}
			c05AdvTo(w2, adv)
			fmt.Fprintf(&sb, "forward %s %s", selfTok(0xaa), strings.Join(w2.out, " "))
		}
		fmt.Fprintln(w, sb.String())
	}
}

func init() {
	register("c06", &Engine{Run: c06Run, Gen: c06Gen})
}
