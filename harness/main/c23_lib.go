//go:build verif && (all || c23 || c21)

package main

import (
	"context"
	"errors"
	"fmt"
	"io"
	"net"
	"os"
	"runtime"
	"strconv"
	"strings"
	"sync"
	"time"

	"github.com/postalsys/muti-metroo/internal/socks5"
)

// Shared by engines c23 and c21: a scripted client connection, a recording dialer and recording
// UDP / ICMP back-ends, and the driver that runs one client byte stream through a real
// socks5.Handler.

// c23Conn is the server side of a connection whose client sends a fixed byte stream and then
// stays silent: once the stream is exhausted, a Read under a short deadline (the disconnect
// monitor of handleConnect polls with 100 ms) waits for the deadline and reports a timeout, any
// other Read reports EOF (the client has gone). Every Write is recorded as one message.
type c23Conn struct {
	mu     sync.Mutex
	cond   *sync.Cond
	in     []byte
	rdl    time.Time
	closed bool
	writes [][]byte
	frag   int // > 0: deliver at most this many bytes per Read (fragmented client writes)
	// relay phase: bytes the client sends only after it has seen the success reply, and what the
	// server writes to the client after that reply
	stage2   []byte
	released bool
	relayOut []byte
}

func c23NewConn(in []byte) *c23Conn {
	c := &c23Conn{in: in}
	c.cond = sync.NewCond(&c.mu)
	return c
}

func (c *c23Conn) Read(b []byte) (int, error) {
	c.mu.Lock()
	defer c.mu.Unlock()
	for {
		if c.closed {
			return 0, net.ErrClosed
		}
		if len(b) == 0 {
			return 0, nil
		}
		if len(c.in) > 0 {
			if c.frag > 0 && len(b) > c.frag {
				b = b[:c.frag]
			}
			n := copy(b, c.in)
			c.in = c.in[n:]
			return n, nil
		}
		if c.rdl.IsZero() {
			return 0, io.EOF
		}
		d := time.Until(c.rdl)
		if d <= 0 {
			return 0, os.ErrDeadlineExceeded
		}
		if d > time.Second {
			return 0, io.EOF
		}
		t := time.AfterFunc(d, func() { c.mu.Lock(); c.cond.Broadcast(); c.mu.Unlock() })
		c.cond.Wait()
		t.Stop()
	}
}

func (c *c23Conn) Write(b []byte) (int, error) {
	c.mu.Lock()
	defer c.mu.Unlock()
	if c.released {
		c.relayOut = append(c.relayOut, b...)
		return len(b), nil
	}
	c.writes = append(c.writes, append([]byte{}, b...))
	if c.stage2 != nil && len(b) >= 10 && b[0] == 5 && b[1] == 0 { // success reply: the client starts talking
		c.in = append(c.in, c.stage2...)
		c.released = true
		c.cond.Broadcast()
	}
	return len(b), nil
}

func (c *c23Conn) Close() error {
	c.mu.Lock()
	c.closed = true
	c.cond.Broadcast()
	c.mu.Unlock()
	return nil
}
func (c *c23Conn) LocalAddr() net.Addr {
	return &net.TCPAddr{IP: net.IPv4(127, 0, 0, 1).To4(), Port: 1080}
}
func (c *c23Conn) RemoteAddr() net.Addr {
	return &net.TCPAddr{IP: net.IPv4(127, 0, 0, 1).To4(), Port: 40000}
}
func (c *c23Conn) SetDeadline(t time.Time) error { return c.SetReadDeadline(t) }
func (c *c23Conn) SetReadDeadline(t time.Time) error {
	c.mu.Lock()
	c.rdl = t
	c.cond.Broadcast()
	c.mu.Unlock()
	return nil
}
func (c *c23Conn) SetWriteDeadline(t time.Time) error { return nil }

// c23Target is the connection a successful dial returns: EOF at once, writes discarded.
type c23Target struct {
	local *net.TCPAddr
	mu    sync.Mutex
	data  []byte // what the destination sends
	got   []byte // what the destination receives
}

func (t *c23Target) Read(b []byte) (int, error) {
	t.mu.Lock()
	defer t.mu.Unlock()
	if len(t.data) == 0 {
		return 0, io.EOF
	}
	n := copy(b, t.data)
	t.data = t.data[n:]
	return n, nil
}
func (t *c23Target) Write(b []byte) (int, error) {
	t.mu.Lock()
	t.got = append(t.got, b...)
	t.mu.Unlock()
	return len(b), nil
}
func (t *c23Target) Close() error                       { return nil }
func (t *c23Target) LocalAddr() net.Addr                { return t.local }
func (t *c23Target) RemoteAddr() net.Addr               { return &net.TCPAddr{} }
func (t *c23Target) SetDeadline(time.Time) error        { return nil }
func (t *c23Target) SetReadDeadline(time.Time) error    { return nil }
func (t *c23Target) SetWriteDeadline(time.Time) error   { return nil }

// c23World records what the handler asked of its environment.
type c23World struct {
	mu      sync.Mutex
	actions []string
	dial    string // ok.<ip>.<port> | f.<kind>
	udp     byte   // x o k f
	icmp    byte
	assoc   *socks5.UDPAssociation
	// relay phase (optional)
	relay      bool
	clientData []byte
	targetData []byte
	target     *c23Target
}

func (w *c23World) act(s string) {
	w.mu.Lock()
	w.actions = append(w.actions, s)
	w.mu.Unlock()
}

func (w *c23World) Dial(network, address string) (net.Conn, error) {
	return w.DialContext(context.Background(), network, address)
}

func (w *c23World) DialContext(ctx context.Context, network, address string) (net.Conn, error) {
	w.act("dial:" + hexTok([]byte(address)))
	if network != "tcp" {
		w.act("network:" + network)
	}
	p := strings.Split(w.dial, ".")
	switch {
	case p[0] == "ok":
		port, _ := strconv.Atoi(p[2])
		ip := net.IP(unhexTok(p[1]))
		t := &c23Target{local: &net.TCPAddr{IP: ip, Port: port}, data: append([]byte{}, w.targetData...)}
		w.mu.Lock()
		w.target = t
		w.mu.Unlock()
		return t, nil
	case p[1] == "dns":
		return nil, &net.OpError{Op: "dial", Net: "tcp", Err: &net.DNSError{Err: "no such host", Name: "x", IsNotFound: true}}
	case p[1] == "timeout":
		return nil, &net.OpError{Op: "dial", Net: "tcp", Err: os.ErrDeadlineExceeded}
	case p[1] == "dialop":
		return nil, &net.OpError{Op: "dial", Net: "tcp", Err: errors.New("connection refused")}
	}
	return nil, errors.New("mesh: no route")
}

type c23UDP struct{ w *c23World }

func (u c23UDP) CreateUDPAssociation(ctx context.Context, clientAddr *net.UDPAddr) (uint64, error) {
	if clientAddr == nil {
		u.w.act("udp:-")
	} else {
		u.w.act(fmt.Sprintf("udp:%s.%d", hexTok(clientAddr.IP), clientAddr.Port))
	}
	if u.w.udp == 'k' {
		return 7, nil
	}
	return 0, errors.New("mesh: no udp route")
}
func (u c23UDP) SetSOCKS5UDPAssociation(streamID uint64, assoc *socks5.UDPAssociation) {
	u.w.mu.Lock()
	u.w.assoc = assoc
	u.w.mu.Unlock()
}
func (u c23UDP) RelayUDPDatagram(streamID uint64, destAddr net.Addr, destPort uint16, addrType byte, rawAddr []byte, data []byte) error {
	return nil
}
func (u c23UDP) CloseUDPAssociation(streamID uint64) {}
func (u c23UDP) IsUDPEnabled() bool                  { return u.w.udp != 'o' }

type c23ICMP struct{ w *c23World }

func (i c23ICMP) CreateICMPSession(ctx context.Context, destIP net.IP) (uint64, error) {
	i.w.act("icmp:" + hexTok(destIP))
	return 0, errors.New("mesh: no icmp route")
}
func (i c23ICMP) SetSOCKS5ICMPAssociation(streamID uint64, assoc *socks5.ICMPAssociation) {}
func (i c23ICMP) RelayICMPEcho(streamID uint64, identifier, sequence uint16, payload []byte) error {
	return nil
}
func (i c23ICMP) CloseICMPSession(streamID uint64) {}
func (i c23ICMP) IsICMPEnabled() bool              { return i.w.icmp != 'o' }

// c23Drive feeds `input` to h.Handle over a scripted connection and renders what happened:
// "r <msg>,<msg>,... a <action>".
func c23Drive(h *socks5.Handler, w *c23World, input []byte, frag int) string {
	if w.udp != 'x' {
		h.SetUDPHandler(c23UDP{w})
	}
	if w.icmp != 'x' {
		h.SetICMPHandler(c23ICMP{w})
	}
	conn := c23NewConn(input)
	conn.frag = frag
	if w.relay {
		conn.stage2 = append([]byte{}, w.clientData...)
	}
	done := make(chan string, 1)
	go func() {
		defer func() {
			if r := recover(); r != nil {
				done <- "panic " + strings.ReplaceAll(strings.ReplaceAll(fmt.Sprint(r), "\n", " "), " ", "_")
			}
		}()
		h.Handle(conn)
		done <- ""
	}()
	select {
	case s := <-done:
		if s != "" {
			return s
		}
	case <-time.After(10 * time.Second):
		conn.Close()
		return "hang"
	}
	conn.mu.Lock()
	writes := conn.writes
	conn.mu.Unlock()
	w.mu.Lock()
	defer w.mu.Unlock()
	// the success reply of UDP ASSOCIATE carries the relay socket's port: blank it when (and only
	// when) it is that socket's real port
	if w.assoc != nil && len(writes) > 0 {
		last := writes[len(writes)-1]
		port := w.assoc.LocalAddr().Port
		if n := len(last); n >= 10 && last[1] == 0 && int(last[n-2])<<8|int(last[n-1]) == port && port != 0 {
			last[n-2], last[n-1] = 0, 0
		}
	}
	msgs := make([]string, len(writes))
	for i, m := range writes {
		msgs[i] = hexTok(m)
	}
	r := "-"
	if len(msgs) > 0 {
		r = strings.Join(msgs, ",")
	}
	a := "none"
	if len(w.actions) > 0 {
		a = strings.Join(w.actions, "+")
	}
	out := "r " + r + " a " + a
	if w.relay {
		conn.mu.Lock()
		ro := conn.relayOut
		conn.mu.Unlock()
		var got []byte
		if w.target != nil {
			w.target.mu.Lock()
			got = w.target.got
			w.target.mu.Unlock()
		}
		out += " t " + hexTok(got) + " c " + hexTok(ro)
	}
	return out
}

// c23AtRest waits (at most `budget`) until every goroutine that has a frame from one of the given
// packages is parked (innermost frame runtime.gopark), three polls in a row. The goroutine
// profile is used (a full runtime.Stack dump can crash on frames it cannot unwind).
var c23Recs = make([]runtime.StackRecord, 256)

func c23AtRest(budget time.Duration, pkgs ...string) bool {
	busy := func() bool {
		n, ok := runtime.GoroutineProfile(c23Recs)
		for !ok {
			c23Recs = make([]runtime.StackRecord, 2*n+64)
			n, ok = runtime.GoroutineProfile(c23Recs)
		}
		for _, rec := range c23Recs[:n] {
			pcs := rec.Stack()
			if len(pcs) == 0 {
				continue
			}
			frames := runtime.CallersFrames(pcs)
			top, hit := "", false
			for {
				fr, more := frames.Next()
				if top == "" {
					top = fr.Function
				}
				for _, p := range pkgs {
					if strings.Contains(fr.Function, p) {
						hit = true
					}
				}
				if !more {
					break
				}
			}
			if hit && top != "runtime.gopark" {
				return true
			}
		}
		return false
	}
	stable := 0
	for dl := time.Now().Add(budget); time.Now().Before(dl); {
		if !busy() {
			stable++
			if stable >= 3 {
				return true
			}
		} else {
			stable = 0
		}
		time.Sleep(200 * time.Microsecond)
	}
	return false
}
