//go:build verif && (all || c19)

package main

import (
	"bufio"
	"context"
	"fmt"
	"net"
	"net/netip"
	"os"
	"runtime"
	"sort"
	"strconv"
	"strings"
	"sync"
	"sync/atomic"
	"time"

	"github.com/postalsys/muti-metroo/internal/agent"
	"github.com/postalsys/muti-metroo/internal/config"
	"github.com/postalsys/muti-metroo/internal/crypto"
	"github.com/postalsys/muti-metroo/internal/exit"
	"github.com/postalsys/muti-metroo/internal/identity"
	"github.com/postalsys/muti-metroo/internal/protocol"
	"github.com/postalsys/muti-metroo/internal/verifhook"
	"golang.org/x/net/dns/dnsmessage"
)

// Engine c19: a real Agent built by agent.New; dynamic routes through Agent.ManageRoute; opens
// through exit.Handler.HandleStreamOpen with real dials to loopback listeners (grammar:
// MM/Engine/C19.lean).
func init() {
	register("c19", &Engine{Run: c19Run, Gen: c19Gen})
}

type c19Event struct {
	ack  bool
	code uint16
}

// c19Writer is the exit handler's StreamWriter: it reports the outcome of each open.
type c19Writer struct{ ch chan c19Event }

func (w *c19Writer) WriteStreamData(peerID identity.AgentID, streamID uint64, data []byte, flags uint8) error {
	return nil
}
func (w *c19Writer) WriteStreamOpenAck(peerID identity.AgentID, streamID uint64, requestID uint64, boundIP net.IP, boundPort uint16, eph [crypto.KeySize]byte) error {
	w.ch <- c19Event{ack: true}
	return nil
}
func (w *c19Writer) WriteStreamOpenErr(peerID identity.AgentID, streamID uint64, requestID uint64, errorCode uint16, message string) error {
	w.ch <- c19Event{code: errorCode}
	return nil
}
func (w *c19Writer) WriteStreamClose(peerID identity.AgentID, streamID uint64) error { return nil }

type c19World struct {
	a      *agent.Agent
	dir    string
	w      *c19Writer
	stream uint64
	seq    uint64 // sequence numbers of injected peer announcements
}

// c19Peer is the id of mesh peer k (1..3).
func c19Peer(k int) identity.AgentID {
	var id identity.AgentID
	id[0], id[15] = 0xC1, byte(k)
	return id
}

// c19PeerFrame injects a ROUTE_WITHDRAW / ROUTE_ADVERTISE for the network, as received from peer
// `from`, naming `origin` ("self" = this agent, which a peer is free to claim) as its origin.
func c19PeerFrame(kind, netTok, origin string, from int, metric uint16) string {
	ip, bits := c19ParseNet(netTok)
	_, ipn, err := net.ParseCIDR(c19CIDR(netTok))
	must(err)
	fam := uint8(protocol.AddrFamilyIPv4)
	prefix := []byte(ipn.IP)
	if len(ip) == 16 {
		fam = protocol.AddrFamilyIPv6
		prefix = []byte(ipn.IP.To16())
	}
	var org identity.AgentID
	if origin == "self" {
		org = c19W.a.ID()
	} else {
		org = c19Peer(int(origin[0] - '0'))
	}
	c19W.seq++
	routes := []protocol.Route{{AddressFamily: fam, PrefixLength: uint8(bits), Prefix: prefix, Metric: metric}}
	var fr *protocol.Frame
	if kind == "withdraw" {
		fr = &protocol.Frame{Type: protocol.FrameRouteWithdraw, Payload: (&protocol.RouteWithdraw{OriginAgent: org, Sequence: 1<<40 + c19W.seq, Routes: routes}).Encode()}
	} else {
		fr = &protocol.Frame{Type: protocol.FrameRouteAdvertise, Payload: (&protocol.RouteAdvertise{OriginAgent: org, Sequence: 1<<40 + c19W.seq, Routes: routes,
			Path: []identity.AgentID{org}}).Encode()}
	}
	c19W.a.VerifC19Frame(c19Peer(from), fr)
	return "ok"
}

// c19DynList renders the manager's own list of dynamic routes (sorted keys).
func c19DynList() string {
	var dyn []string
	for _, r := range c19W.a.VerifC19DynamicRoutes() {
		dyn = append(dyn, c19Key(r.Network))
	}
	sort.Strings(dyn)
	if len(dyn) == 0 {
		return "-"
	}
	return strings.Join(dyn, ",")
}

var (
	c19W        *c19World
	c19Once     sync.Once
	c19Port     uint16 // every loopback address answers on this port
	c19PortSel  uint16 // only c19SelAddrs answer on this one (127.0.0.1 and the 127.1/16 addresses refuse)
	c19Accepted = make(chan net.IP, 64)
	c19DNSAddr  string
	c19DNSMu    sync.Mutex
	c19DNSTable = map[string][]net.IP{} // lower-case FQDN -> records, in answer order
)

var c19SelAddrs = []string{"127.0.0.2", "127.9.9.9", "127.77.0.1", "::1"}

// c19DNS is a tiny authoritative DNS server on loopback: A / AAAA records from c19DNSTable in table
// order, NXDOMAIN for unknown names. The agent's exit resolver is pointed at it (exit.dns.servers).
func c19DNS(pc net.PacketConn) {
	buf := make([]byte, 1500)
	for {
		n, from, err := pc.ReadFrom(buf)
		if err != nil {
			return
		}
		var p dnsmessage.Parser
		hdr, err := p.Start(buf[:n])
		if err != nil {
			continue
		}
		q, err := p.Question()
		if err != nil {
			continue
		}
		c19DNSMu.Lock()
		recs, known := c19DNSTable[strings.ToLower(q.Name.String())]
		c19DNSMu.Unlock()
		rh := dnsmessage.Header{ID: hdr.ID, Response: true, Authoritative: true, RecursionAvailable: true}
		if !known {
			rh.RCode = dnsmessage.RCodeNameError
		}
		b := dnsmessage.NewBuilder(nil, rh)
		b.EnableCompression()
		b.StartQuestions()
		b.Question(q)
		b.StartAnswers()
		for _, ip := range recs {
			h := dnsmessage.ResourceHeader{Name: q.Name, Class: dnsmessage.ClassINET, TTL: 60}
			if v4 := ip.To4(); v4 != nil && q.Type == dnsmessage.TypeA {
				var a [4]byte
				copy(a[:], v4)
				h.Type = dnsmessage.TypeA
				b.AResource(h, dnsmessage.AResource{A: a})
			} else if v4 == nil && q.Type == dnsmessage.TypeAAAA {
				var a [16]byte
				copy(a[:], ip.To16())
				h.Type = dnsmessage.TypeAAAA
				b.AAAAResource(h, dnsmessage.AAAAResource{AAAA: a})
			}
		}
		if out, err := b.Finish(); err == nil {
			pc.WriteTo(out, from)
		}
	}
}

// c19Listen opens the loopback listeners every permitted open is dialled to: one on 0.0.0.0 (all
// of 127.0.0.0/8) and, when available, one on [::1], on the same port.
func c19Listen() {
	c19Once.Do(func() {
		l4, err := net.Listen("tcp4", "0.0.0.0:0")
		must(err)
		c19Port = uint16(l4.Addr().(*net.TCPAddr).Port)
		serve := func(l net.Listener) {
			for {
				c, err := l.Accept()
				if err != nil {
					return
				}
				c19Accepted <- c.LocalAddr().(*net.TCPAddr).IP
				c.Close()
			}
		}
		go serve(l4)
		if l6, err := net.Listen("tcp6", fmt.Sprintf("[::1]:%d", c19Port)); err == nil {
			go serve(l6)
		}
		// the selective port: free on 127.0.0.1, bound on the c19SelAddrs only
		for attempt := 0; attempt < 50 && c19PortSel == 0; attempt++ {
			first, err := net.Listen("tcp4", "127.0.0.2:0")
			must(err)
			p := first.Addr().(*net.TCPAddr).Port
			if c, err := net.DialTimeout("tcp4", fmt.Sprintf("127.0.0.1:%d", p), 300*time.Millisecond); err == nil {
				c.Close()
				first.Close()
				continue
			}
			ls := []net.Listener{first}
			ok := true
			for _, a := range c19SelAddrs[1:] {
				l, err := net.Listen("tcp", net.JoinHostPort(a, strconv.Itoa(p)))
				if err != nil {
					if a == "::1" {
						continue // no IPv6 loopback here: its cases end in dialfail, which the model admits
					}
					ok = false
					break
				}
				ls = append(ls, l)
			}
			if !ok {
				for _, l := range ls {
					l.Close()
				}
				continue
			}
			for _, l := range ls {
				go serve(l)
			}
			c19PortSel = uint16(p)
		}
		if c19PortSel == 0 {
			panic("no selective port")
		}
		pc, err := net.ListenPacket("udp", "127.0.0.1:0")
		must(err)
		c19DNSAddr = pc.LocalAddr().String()
		go c19DNS(pc)
	})
}

func c19ParseNet(s string) (ip []byte, bits int) {
	p := strings.Split(s, "/")
	bits, _ = strconv.Atoi(p[1])
	return unhexTok(p[0]), bits
}

// c19CIDR renders the op's network as the CIDR text an operator would write; 16-byte addresses
// keep their IPv6 spelling even when IPv4-mapped.
func c19CIDR(s string) string {
	ip, bits := c19ParseNet(s)
	if len(ip) == 4 {
		return fmt.Sprintf("%s/%d", net.IP(ip).String(), bits)
	}
	var a [16]byte
	copy(a[:], ip)
	return fmt.Sprintf("%s/%d", netip.AddrFrom16(a).String(), bits)
}

// c19Key renders a network the way IPNet.String() identifies it (networkNumberAndMask).
func c19Key(n *net.IPNet) string {
	ip := n.IP.To4()
	if ip == nil {
		ip = n.IP
	}
	m := n.Mask
	if len(m) == 16 && len(ip) == 4 {
		m = m[12:]
	}
	ones, _ := net.IPMask(m).Size()
	return fmt.Sprintf("%s/%d", hexTok(ip), ones)
}

func c19Reset(f []string) string {
	if c19W != nil {
		c19W.a.VerifC19Close()
		os.RemoveAll(c19W.dir)
		c19W = nil
	}
	c19Listen()
	dir, err := os.MkdirTemp("", "verif-c19-")
	must(err)
	cfg := config.Default()
	cfg.Agent.DataDir = dir
	cfg.Agent.LogLevel = "error"
	cfg.Exit.Enabled = f[1] == "1"
	cfg.Exit.DNS.Timeout = 500 * time.Millisecond
	cfg.Exit.DNS.Servers = []string{c19DNSAddr} // the harness's DNS server: NXDOMAIN for unknown names
	if f[2] != "-" {
		for _, n := range strings.Split(f[2], ",") {
			cfg.Exit.Routes = append(cfg.Exit.Routes, c19CIDR(n))
		}
	}
	if f[3] != "-" {
		for _, p := range strings.Split(f[3], ",") {
			cfg.Exit.DomainRoutes = append(cfg.Exit.DomainRoutes, string(unhexTok(p)))
		}
	}
	a, err := agent.New(cfg)
	must(err)
	w := &c19World{a: a, dir: dir, w: &c19Writer{ch: make(chan c19Event, 16)}}
	if h := a.VerifC19ExitHandler(); h != nil {
		h.Start() // Agent.Start does this
	}
	c19W = w
	return "ok"
}

func c19Manage(action, netTok string, metric uint16) string {
	_, err := c19W.a.ManageRoute(action, c19CIDR(netTok), metric)
	res := "err other"
	switch {
	case err == nil:
		res = "ok"
	case strings.Contains(err.Error(), "config route"):
		res = "err config-route"
	case strings.HasSuffix(err.Error(), "not found"):
		res = "err not-found"
	}
	// every answer carries what the manager lists afterwards: whatever the API said, a network
	// the manager no longer lists must not stay permitted
	return res + " dyn " + c19DynList()
}

func c19Open(tok string) string {
	h := c19W.a.VerifC19ExitHandler()
	if h == nil {
		return "denied" // Agent.handleStreamOpen ignores the open when there is no exit handler
	}
	h.SetWriter(c19W.w)
	p := strings.Split(tok, ":")
	var dest string
	port := c19Port
	switch p[0] {
	case "i":
		b := unhexTok(p[1])
		if len(b) == 4 {
			dest = net.IP(b).String()
		} else {
			var a [16]byte
			copy(a[:], b)
			dest = netip.AddrFrom16(a).String()
		}
	case "m": // m:<name>:<addr,addr,...>:<p|q> — resolved for real, through the harness's DNS server
		dest = string(unhexTok(p[1]))
		var recs []net.IP
		if p[2] != "-" {
			for _, a := range strings.Split(p[2], ",") {
				recs = append(recs, net.IP(unhexTok(a)))
			}
		}
		c19DNSMu.Lock()
		c19DNSTable[strings.ToLower(dest)+"."] = recs
		c19DNSMu.Unlock()
		h.VerifC19Forget(dest)
		if p[3] == "q" {
			port = c19PortSel
		}
	case "n":
		dest = string(unhexTok(p[1]))
		if p[2] == "-" {
			h.VerifC19Forget(dest)
		} else {
			h.VerifC19Resolve(dest, net.IP(unhexTok(p[2])))
		}
	}
	for len(c19Accepted) > 0 {
		<-c19Accepted
	}
	c19W.stream++
	sid := c19W.stream
	ctx, cancel := context.WithTimeout(context.Background(), 400*time.Millisecond)
	defer cancel()
	var remote identity.AgentID
	remote[0] = 9
	var eph [crypto.KeySize]byte
	eph[0] = 9 // any non-degenerate X25519 point
	if err := h.HandleStreamOpen(ctx, sid, sid, remote, dest, port, eph); err != nil {
		return "err open"
	}
	select {
	case ev := <-c19W.w.ch:
		if ev.ack {
			var ip net.IP
			select {
			case ip = <-c19Accepted:
			case <-time.After(2 * time.Second):
				return "dial ?"
			}
			h.HandleStreamClose(remote, sid)
			if v4 := ip.To4(); v4 != nil {
				ip = v4
			}
			return "dial " + hexTok(ip)
		}
		switch ev.code {
		case protocol.ErrNotAllowed:
			return "denied"
		case protocol.ErrHostUnreachable:
			return "unresolved"
		}
		return "dialfail"
	case <-time.After(5 * time.Second):
		return "hang"
	}
}

func c19State() string {
	var dyn []string
	for _, r := range c19W.a.VerifC19DynamicRoutes() {
		dyn = append(dyn, fmt.Sprintf("%s=%d", c19Key(r.Network), r.Metric))
	}
	sort.Strings(dyn)
	d := "-"
	if len(dyn) > 0 {
		d = strings.Join(dyn, ",")
	}
	al := "none"
	if h := c19W.a.VerifC19ExitHandler(); h != nil {
		var ks []string
		for _, n := range h.VerifC19Allowed() {
			ks = append(ks, c19Key(n))
		}
		al = "-"
		if len(ks) > 0 {
			al = strings.Join(ks, ",")
		}
	}
	return "dyn " + d + " allowed " + al
}

func c19Run(line string) string {
	f := fields(line)
	if f[0] == "reset" && len(f) == 4 {
		return c19Reset(f)
	}
	if c19W == nil {
		c19Reset([]string{"reset", "0", "-", "-"})
	}
	switch {
	case f[0] == "add" && len(f) == 3:
		m, _ := strconv.Atoi(f[2])
		return c19Manage("add", f[1], uint16(m))
	case f[0] == "remove" && len(f) == 2:
		return c19Manage("remove", f[1], 0)
	case f[0] == "open" && len(f) == 2:
		return c19Open(f[1])
	case f[0] == "state":
		return c19State()
	case (f[0] == "withdraw" || f[0] == "advertise") && len(f) == 4:
		// withdraw|advertise <net> <self|1|2|3> <from-peer 1..3>
		return c19PeerFrame(f[0], f[1], f[2], int(f[3][0]-'0'), 3)
	case f[0] == "peerdown" && len(f) == 2:
		c19W.a.VerifC19PeerGone(c19Peer(int(f[1][0] - '0')))
		return "ok"
	case f[0] == "stale":
		c19W.a.VerifC19Stale()
		return "ok"
	case f[0] == "sched" && len(f) == 3:
		return c19Sched(f[1], f[2])
	case f[0] == "race" && len(f) == 4:
		// race <net> <k> <n>: k goroutines, each n times ManageRoute add then remove of the SAME network,
		// concurrently; every goroutine ends with a remove, so afterwards the route must be gone — from
		// the manager AND from the allow list
		k, _ := strconv.Atoi(f[2])
		n, _ := strconv.Atoi(f[3])
		cidr := c19CIDR(f[1])
		var wg sync.WaitGroup
		start := make(chan struct{})
		for g := 0; g < k; g++ {
			wg.Add(1)
			go func(g int) {
				defer wg.Done()
				<-start
				for i := 0; i < n; i++ {
					c19W.a.ManageRoute("add", cidr, uint16(g+1))
					if (i+g)%3 == 0 {
						runtime.Gosched()
					}
					c19W.a.ManageRoute("remove", cidr, 0)
				}
			}(g)
		}
		close(start)
		done := make(chan struct{})
		go func() { wg.Wait(); close(done) }()
		select {
		case <-done:
		case <-time.After(20 * time.Second):
			return "timeout race"
		}
		return "ok dyn " + c19DynList()
	}
	return "bad-op"
}

var _ = exit.DefaultHandlerConfig

// c19AtRest waits (at most budget) until every goroutine running internal/agent code is parked.
var c19Recs = make([]runtime.StackRecord, 256)

func c19AtRest(budget time.Duration) bool {
	busy := func() bool {
		n, ok := runtime.GoroutineProfile(c19Recs)
		for !ok {
			c19Recs = make([]runtime.StackRecord, 2*n+64)
			n, ok = runtime.GoroutineProfile(c19Recs)
		}
		for _, rec := range c19Recs[:n] {
			pcs := rec.Stack()
			if len(pcs) == 0 {
				continue
			}
			frames := runtime.CallersFrames(pcs)
			top, hit := "", false
			for {
				fr, more := frames.Next()
				if top == "" {
					top = fr.Function
				}
				if strings.Contains(fr.Function, "internal/agent.(*Agent).ManageRoute") {
					hit = true
				}
				if !more {
					break
				}
			}
			if hit && top != "runtime.gopark" {
				return true
			}
		}
		return false
	}
	stable := 0
	for dl := time.Now().Add(budget); time.Now().Before(dl); {
		if !busy() {
			stable++
			if stable >= 3 {
				return true
			}
		} else {
			stable = 0
		}
		time.Sleep(200 * time.Microsecond)
	}
	return false
}

// c19Sched: sched <add|remove> <net> — a deterministic schedule of two concurrent ManageRoute calls on
// the same network. T1 (add, resp. remove) is held at the scheduling point between its routing-manager
// step and its allow-list step; T2 (remove, resp. add) is started and runs until it has finished
// or is parked (on the lock that serializes ManageRoute); then T1 is released. Serialized calls give
// the result of "T1 then T2". Without the scheduling points in the source the two calls simply run
// one after the other.
func c19Sched(first, netTok string) string {
	cidr := c19CIDR(netTok)
	second, point := "remove", "agent.ManageRoute.add.between"
	if first == "remove" {
		second, point = "add", "agent.ManageRoute.remove.between"
	}
	hold := make(chan struct{})
	reached := make(chan struct{}, 1)
	var armed int32 = 1
	verifhook.Point = func(name string) {
		if name == point && atomic.CompareAndSwapInt32(&armed, 1, 0) {
			reached <- struct{}{}
			<-hold
		}
	}
	defer func() { verifhook.Point = nil }()
	res := func(err error) string {
		switch {
		case err == nil:
			return "ok"
		case strings.Contains(err.Error(), "config route"):
			return "err-config-route"
		case strings.HasSuffix(err.Error(), "not found"):
			return "err-not-found"
		}
		return "err-other"
	}
	var r1, r2 string
	done1, done2 := make(chan struct{}), make(chan struct{})
	go func() {
		_, err := c19W.a.ManageRoute(first, cidr, 5)
		r1 = res(err)
		close(done1)
	}()
	select {
	case <-reached:
	case <-done1: // no scheduling point (or T1 failed before it): sequential
	case <-time.After(3 * time.Second):
		close(hold)
		return "timeout sched-t1"
	}
	started2 := make(chan struct{})
	go func() {
		close(started2)
		_, err := c19W.a.ManageRoute(second, cidr, 7)
		r2 = res(err)
		close(done2)
	}()
	<-started2
	time.Sleep(2 * time.Millisecond) // let T2 reach the lock (or run through, when nothing serializes the calls)
	// T2 finishes (nothing serializes the calls) or parks on the lock
	fin := false
	for dl := time.Now().Add(3 * time.Second); time.Now().Before(dl) && !fin; {
		select {
		case <-done2:
			fin = true
		default:
			if c19AtRest(50 * time.Millisecond) {
				fin = true
			}
		}
	}
	close(hold)
	for _, d := range []chan struct{}{done1, done2} {
		select {
		case <-d:
		case <-time.After(3 * time.Second):
			return "timeout sched"
		}
	}
	return "t1 " + r1 + " t2 " + r2 + " dyn " + c19DynList()
}

// ---- generator

func c19Gen(w *bufio.Writer, seed int64, tier string) {
	r := newRng(seed)
	cases := 60
	if tier == "thorough" {
		cases = 700
	}
	hx := func(s string) string { return hexTok([]byte(s)) }
	v6 := func(b ...byte) string { x := make([]byte, 16); copy(x, b); return hexTok(x) }
	mapped := func(a, b, c, d byte) string {
		return hexTok([]byte{0, 0, 0, 0, 0, 0, 0, 0, 0, 0, 0xff, 0xff, a, b, c, d})
	}
	// the network pool: nested / overlapping loopback networks, their IPv4-mapped spellings,
	// non-canonical host bits, ::1, and off-host networks (never dialled unless a bug permits them)
	pool := []string{
		"7f010000/16", "7f010200/24", "7f010203/32", "7f000000/8", "7f800000/9", "7f010280/25",
		"7f0102ff/16", // 127.1.2.255/16 -> same network as 127.1.0.0/16
		mapped(127, 1, 0, 0) + "/112", mapped(127, 1, 2, 0) + "/120", mapped(127, 2, 0, 0) + "/111",
		mapped(0, 0, 0, 0) + "/96", // = 0.0.0.0/0
		v6(0, 0, 0, 0, 0, 0, 0, 0, 0, 0, 0, 0, 0, 0, 0, 1) + "/128", v6() + "/0", v6() + "/127",
		"0a000000/8", "c0a80100/24", "00000000/0", "7f020000/15",
	}
	ips := []string{"7f000001", "7f010203", "7f010204", "7f0102fe", "7f01ff01", "7f020304", "7f030405", "7f800001", "7fffffff",
		mapped(127, 1, 2, 3), mapped(127, 9, 9, 9), mapped(127, 2, 0, 1), v6(0, 0, 0, 0, 0, 0, 0, 0, 0, 0, 0, 0, 0, 0, 0, 1),
		"0a010203", "c0a80105", "08080808"}
	patsPool := []string{"*.invalid", "example.com", "*.example.com", "*.Corp.Local", "API.test.local", " *.spaced.org ", "*.", "*", "a.b"}
	names := []string{"example.com", "EXAMPLE.com", "www.example.com", "a.b.example.com", ".example.com", "example.com.", "xexample.com",
		"x.corp.local", "api.test.local", "api.test.local.", "y.spaced.org", "a.b", "foo.", "localhost", "other.org", "*.example.com"}
	pick := func(xs []string) string { return xs[r.intn(len(xs))] }
	// domain cases: the resolved address lies in NO permitted network, so the decision rests on the
	// pattern match alone; every pattern is probed with names derived from it
	domainCase := func() {
		var nets, pats []string
		for k := r.intn(2); k > 0; k-- {
			nets = append(nets, r.pickS("7f010000/16", "7f010200/24"))
		}
		for k := 1 + r.intn(3); k > 0; k-- {
			pats = append(pats, pick(patsPool))
		}
		hp := make([]string, len(pats))
		for i, p := range pats {
			hp[i] = hx(p)
		}
		e := "1"
		if r.chance(10) {
			e = "0"
		}
		ns := "-"
		if len(nets) > 0 {
			ns = strings.Join(nets, ",")
		}
		fmt.Fprintf(w, "reset %s %s %s\n", e, ns, strings.Join(hp, ","))
		outside := "7f4d0001" // 127.77.0.1
		for _, p := range pats {
			base := strings.TrimPrefix(strings.TrimSpace(p), "*.")
			derived := []string{base, "x." + base, "a.b." + base, "a.b.c." + base, "x" + base, base + ".", "." + base,
				strings.ToUpper("w." + base), strings.ToUpper(base), "x." + base + ".evil.org", "*." + base, "x-y." + base}
			for _, d := range derived {
				if d == "" || len(d) > 250 || !r.chance(70) {
					continue
				}
				fmt.Fprintf(w, "open n:%s:%s\n", hx(d), outside)
			}
		}
		if r.chance(50) {
			fmt.Fprintf(w, "add 7f4d0000/16 1\nopen n:%s:%s\nremove 7f4d0000/16\nopen n:%s:%s\n", hx("other.org"), outside, hx("other.org"), outside)
		}
	}
	// perturbation cases: add X; something removes/replaces X's routing-table entry; remove X (and
	// retry, as an operator would after an error); X must be gone from the allow list
	perturbCase := func() {
		x := r.pickS("7f010000/16", "7f010200/24", "7f000000/8", mapped(127, 1, 0, 0)+"/112")
		e := "0"
		if r.chance(50) {
			e = "1"
		}
		cfgn := "-"
		if e == "1" && r.chance(50) {
			cfgn = "7f030000/16"
		}
		fmt.Fprintf(w, "reset %s %s -\nadd %s %d\n", e, cfgn, x, r.pick(1, 5))
		if r.chance(40) {
			fmt.Fprintf(w, "add 7f020000/15 1\n") // an unrelated dynamic route stays
		}
		for k := 1 + r.intn(2); k > 0; k-- {
			switch r.intn(5) {
			case 0, 1:
				fmt.Fprintf(w, "withdraw %s self %d\n", x, 1+r.intn(3))
			case 2:
				fmt.Fprintf(w, "advertise %s self %d\nwithdraw %s self %d\n", x, 1+r.intn(3), x, 1+r.intn(3))
			case 3:
				fmt.Fprintf(w, "advertise %s 1 1\npeerdown 1\nstale\n", x)
			default:
				fmt.Fprintf(w, "withdraw %s 2 2\n", x)
			}
		}
		fmt.Fprintf(w, "open i:7f010203\nremove %s\n", x)
		if r.chance(70) {
			fmt.Fprintf(w, "remove %s\n", x)
		}
		fmt.Fprintf(w, "state\nopen i:7f010203\nopen i:7f000001\nopen i:7f020304\n")
		if r.chance(50) { // life goes on: re-add and remove normally
			fmt.Fprintf(w, "add %s 7\nopen i:7f010203\nremove %s\nstate\nopen i:7f010203\n", x, x)
		}
	}
	// multi-address names, resolved for real: only the address that was CHECKED may be dialled
	multiCase := func(i int) {
		l1, l2, r9, l77, v6lo := "7f000001", "7f000002", "7f090909", "7f4d0001", v6(0, 0, 0, 0, 0, 0, 0, 0, 0, 0, 0, 0, 0, 0, 0, 1)
		in116 := "7f010203" // inside 127.1.0.0/16, nothing listens there on the selective port
		nets := [][]string{{"7f000001/32"}, {"7f010000/16"}, {"7f000001/32", "7f010000/16"}, {"7f000002/32"}, {v6lo + "/128", "7f000001/32"}, {"-"}}[i%6]
		pat := "-"
		if i%4 == 3 {
			pat = hx("*.ok.test")
		}
		fmt.Fprintf(w, "reset 1 %s %s\n", strings.Join(nets, ","), pat)
		sets := [][]string{
			{l1}, {l2}, {l1, l2}, {l2, l1}, {in116, r9}, {r9, in116}, {l1, l2, r9}, {in116, l2, l77},
			{v6lo, l1}, {l1, v6lo}, {v6lo}, {v6lo, l2}, {l2, v6lo}, {},
		}
		for k, set := range sets {
			name := fmt.Sprintf("h%d-%d.multi.test", i, k)
			if pat != "-" && k%3 == 0 {
				name = fmt.Sprintf("h%d-%d.ok.test", i, k)
			}
			rs := "-"
			if len(set) > 0 {
				rs = strings.Join(set, ",")
			}
			fmt.Fprintf(w, "open m:%s:%s:q\n", hx(name), rs)
			if k%4 == 0 {
				fmt.Fprintf(w, "open m:%s:%s:p\n", hx("p-"+name), rs)
			}
		}
		// a dynamic route makes the second address permitted too, then not any more
		fmt.Fprintf(w, "add 7f000002/32 1\nopen m:%s:%s,%s:q\nremove 7f000002/32\nopen m:%s:%s,%s:q\n", hx(fmt.Sprintf("dyn%d.multi.test", i)), l1, l2, hx(fmt.Sprintf("dyn%db.multi.test", i)), l1, l2)
	}
	for i := 0; i < 6; i++ {
		multiCase(i)
	}
	// concurrency cases: two ManageRoute calls on one network in a fixed schedule, and k goroutines
	// adding/removing the same network; afterwards the allow list must again be config + dynamic routes
	concCase := func(i int) {
		x := r.pickS("7f010000/16", "7f010200/24", mapped(127, 1, 0, 0)+"/112")
		e, cfgn := "0", "-"
		if i%2 == 1 {
			e, cfgn = "1", "7f030000/16"
		}
		fmt.Fprintf(w, "reset %s %s -\n", e, cfgn)
		switch i % 3 {
		case 0:
			fmt.Fprintf(w, "sched add %s\nstate\nopen i:7f010203\n", x)
		case 1:
			fmt.Fprintf(w, "add %s 1\nsched remove %s\nstate\nopen i:7f010203\nremove %s\nstate\nopen i:7f010203\n", x, x, x)
		default:
			fmt.Fprintf(w, "add 7f020000/15 1\nsched add %s\nstate\nrace %s %d %d\nstate\nopen i:7f010203\nopen i:7f020304\n", x, x, 2+r.intn(3), 20+r.intn(40))
		}
	}
	for i := 0; i < 6; i++ {
		concCase(i)
	}
	for c := 0; c < cases; c++ {
		if r.chance(30) {
			domainCase()
			continue
		}
		if r.chance(25) {
			perturbCase()
			continue
		}
		exitOn := r.chance(60)
		var nets, pats []string
		if r.chance(70) {
			for k := r.intn(3); k >= 0; k-- {
				nets = append(nets, pick(pool))
			}
		}
		if exitOn && r.chance(50) || r.chance(10) {
			for k := r.intn(3); k >= 0; k-- {
				pats = append(pats, hx(pick(patsPool)))
			}
		}
		join := func(xs []string) string {
			if len(xs) == 0 {
				return "-"
			}
			return strings.Join(xs, ",")
		}
		e := "0"
		if exitOn {
			e = "1"
		}
		fmt.Fprintf(w, "reset %s %s %s\n", e, join(nets), join(pats))
		// a small working set so that re-adds, updates and removals of the SAME network are frequent
		work := []string{pick(pool), pick(pool), pick(pool)}
		if r.chance(40) && len(nets) > 0 {
			work[0] = nets[0] // dynamic operations on a config route
		}
		n := 4 + r.intn(10)
		if r.chance(10) {
			n = 40 + r.intn(40) // long histories
		}
		for k := 0; k < n; k++ {
			if r.chance(22) { // the routing table changes underneath: peer traffic, disconnects, expiry
				switch r.intn(6) {
				case 0, 1:
					fmt.Fprintf(w, "withdraw %s %s %d\n", pick(work), r.pickS("self", "self", "1", "2"), 1+r.intn(3))
				case 2, 3:
					fmt.Fprintf(w, "advertise %s %s %d\n", pick(work), r.pickS("self", "1", "2", "3"), 1+r.intn(3))
				case 4:
					fmt.Fprintf(w, "peerdown %d\n", 1+r.intn(3))
				default:
					fmt.Fprintf(w, "stale\n")
				}
				continue
			}
			switch x := r.intn(10); {
			case x < 4:
				fmt.Fprintf(w, "add %s %d\n", pick(work), r.pick(0, 1, 5, 7, 65535))
			case x < 6:
				fmt.Fprintf(w, "remove %s\n", pick(work))
			case x < 9:
				if r.chance(25) {
					res := "-"
					if r.chance(85) {
						res = pick(ips)
					}
					if res == "-" && !r.chance(30) {
						res = pick(ips) // keep slow failing lookups rare
					}
					name := pick(names)
					if res == "-" {
						// no injected answer: the real lookup must fail, so use a name that cannot resolve
						name = r.pickS("nonexistent.invalid", "www.example.invalid", "x.corp.invalid")
					}
					fmt.Fprintf(w, "open n:%s:%s\n", hx(name), res)
				} else {
					fmt.Fprintf(w, "open i:%s\n", pick(ips))
				}
			default:
				fmt.Fprintf(w, "state\n")
			}
		}
		fmt.Fprintf(w, "state\n")
		// after the history: probe every interesting address once
		for k := 0; k < 3; k++ {
			fmt.Fprintf(w, "open i:%s\n", pick(ips))
		}
	}
}
