//go:build verif && (all || c07)

package main

import (
	"bufio"
	"bytes"
	"context"
	"encoding/binary"
	"errors"
	"fmt"
	"io"
	"log/slog"
	"net"
	"os"
	"path/filepath"
	"runtime"
	"strconv"
	"sync"
	"time"

	"github.com/postalsys/muti-metroo/internal/agent"
	"github.com/postalsys/muti-metroo/internal/crypto"
	"github.com/postalsys/muti-metroo/internal/exit"
	"github.com/postalsys/muti-metroo/internal/forward"
	"github.com/postalsys/muti-metroo/internal/health"
	"github.com/postalsys/muti-metroo/internal/identity"
	"github.com/postalsys/muti-metroo/internal/protocol"
	"github.com/postalsys/muti-metroo/internal/shell"
	"github.com/postalsys/muti-metroo/internal/stream"
)

// Engine c07b: the two ends the path ops of engine c07 do not stress.
//
//	fw <n>     protocol.FrameWriter.Write of one frame with an n-byte payload into a buffer
//	wf <n>     protocol.FrameWriter.WriteFrame, same
//	conn <n>   peer.Manager.SendToPeer -> Connection.WriteFrame of the capture peer, same
//	    -> ok wrote=<bytes on the wire> decoded=<payload length the real FrameReader gets back>
//	     | err toolarge wrote=<bytes on the wire>        (nothing may have been written)
//	     | ... decoded=bad                                (what was written is not a frame the peer accepts)
//
//	msg <kind> <n>   one message of n bytes on a sender that seals/encodes it into ONE frame without chunking:
//	       shmsg     Agent.forwardShellClientData with a non-STDIN shell message (RESIZE-type byte + n bytes)
//	       ctrlreq   Agent.SendControlRequestWithData to a direct peer with n data bytes
//	       ctrlresp  Agent.sendControlResponse with n data bytes (the encoder clips)
//	       shopen    Agent.OpenShellStream to the (direct) peer with an n-byte command argument; the STREAM_OPEN is
//	                 acknowledged through the real stream manager, then the sealed META message goes out
//	       fupmeta   Agent.UploadFile of a 1-byte file with an n-byte remote path (metadata, then content)
//	       fdownmeta Agent.DownloadFile with an n-byte remote path (metadata request)
//	    -> ok big=<frames on the wire with payload > MaxPayloadSize> parse=ok|bad
//
//	conc <n> <cap>   stdout and stderr (n bytes each, at most cap bytes per read) of ONE shell stream pumped concurrently by the
//	       real pumpStdout / pumpStderr through a DataWriter that delays each send a little; the client opens the frames in
//	       wire order with one stateful session key
//	    -> ok rejected=<frames that did not open> stdout=equal|lost:<k>/<n> stderr=…
//
//	nf <path> <size>…   the application writes the given sizes (each Write chunked by the real meshConn.Write; shin: one
//	       transfer cut into STDIN messages of the first size) and does NOT close; the far end must hold every byte
//	       within 2 s.  exit / fwd: the real Handler.HandleStreamOpen dials a loopback listener, the initiator key comes
//	       from the handler's own STREAM_OPEN_ACK, frames go through Handler.HandleStreamData, the listener side reads;
//	       mesh: Agent.handleStreamData -> stream manager -> meshConn.Read; shin: shell.Handler.HandleStreamData -> stdin
//	    -> ok delivered <N> | ok pending <k>/<N> | ok differ <k>/<N>
//
//	stall <n> <ms>   receive path with back-pressure: the real exit readLoop produces the frames of an n-byte
//	       transfer; they are pushed, from a goroutine, through the REAL Agent.handleStreamData ->
//	       stream.Manager.HandleStreamData -> Stream.PushData into a stream accepted by the agent's stream
//	       manager, while the application (meshConn.Read) reads 1 KiB, stalls <ms> milliseconds and then reads
//	       to EOF.
//	    -> ok frames=<data frames pushed> rx=equal|short:<m>|differ|timeout

func c07bWire(raw []byte) (big int, ok bool, lens []int) {
	for len(raw) > 0 {
		if len(raw) < protocol.HeaderSize {
			return big, false, lens
		}
		l := int(binary.BigEndian.Uint32(raw[2:6]))
		if len(raw) < protocol.HeaderSize+l {
			return big, false, lens
		}
		if l > protocol.MaxPayloadSize {
			big++
		}
		lens = append(lens, l)
		raw = raw[protocol.HeaderSize+l:]
	}
	return big, true, lens
}

func c07bWriterResult(err error, raw []byte) string {
	decoded := "none"
	if len(raw) > 0 {
		f, derr := protocol.NewFrameReader(bytes.NewReader(raw)).Read()
		if derr != nil {
			decoded = "bad"
		} else if len(raw) != protocol.HeaderSize+len(f.Payload) {
			decoded = "bad"
		} else {
			decoded = strconv.Itoa(len(f.Payload))
		}
	}
	if err != nil {
		cls := "other"
		if errors.Is(err, protocol.ErrFrameTooLarge) {
			cls = "toolarge"
		}
		if len(raw) == 0 {
			return fmt.Sprintf("err %s wrote=0", cls)
		}
		return fmt.Sprintf("err %s wrote=%d decoded=%s", cls, len(raw), decoded)
	}
	return fmt.Sprintf("ok wrote=%d decoded=%s", len(raw), decoded)
}

func c07bRun(line string) string {
	f := fields(line)
	e := c07Setup()
	e.sink.take()
	e.sid++
	sid := e.sid
	switch f[0] {
	case "fw", "wf", "conn":
		n, err := strconv.Atoi(f[1])
		if err != nil || n < 0 {
			return "bad-op"
		}
		fr := &protocol.Frame{Type: protocol.FrameStreamData, Flags: 0, StreamID: sid, Payload: c07Data(n, sid)}
		var buf bytes.Buffer
		switch f[0] {
		case "fw":
			werr := protocol.NewFrameWriter(&buf).Write(fr)
			return c07bWriterResult(werr, buf.Bytes())
		case "wf":
			werr := protocol.NewFrameWriter(&buf).WriteFrame(fr.Type, fr.Flags, fr.StreamID, fr.Payload)
			return c07bWriterResult(werr, buf.Bytes())
		default:
			werr := agent.C07PeerMgr(e.a).SendToPeer(e.peer, fr)
			return c07bWriterResult(werr, e.sink.take())
		}
	case "msg":
		n, err := strconv.Atoi(f[2])
		if err != nil || n < 0 {
			return "bad-op"
		}
		data := c07Data(n, sid)
		switch f[1] {
		case "shmsg":
			keys := c07NewKeys(sid, true)
			ad := health.NewShellStreamAdapter(sid, e.peer, func() {})
			ad.SetSessionKey(keys.send)
			done := make(chan struct{})
			go func() {
				defer close(done)
				agent.C07ForwardShellClientData(e.a, sid, e.peer, ad)
			}()
			sess := ad.ToSession()
			msg := append([]byte{shell.MsgResize}, data...)
			select {
			case sess.Send <- msg:
			case <-sess.Done:
			}
			for i := 0; i < 200000 && len(sess.Send) > 0; i++ {
				select {
				case <-sess.Done:
					i = 200000
				default:
					time.Sleep(20 * time.Microsecond)
				}
			}
			time.Sleep(2 * time.Millisecond)
			ad.Close()
			<-done
		case "ctrlreq":
			ctx, cancel := context.WithCancel(context.Background())
			cancel() // the request is written before the (never arriving) response is awaited
			e.a.SendControlRequestWithData(ctx, e.peer, protocol.ControlTypeRPC, data)
		case "ctrlresp":
			agent.C07SendControlResponse(e.a, e.peer, sid, protocol.ControlTypeRPC, true, data)
		case "shopen", "fupmeta", "fdownmeta":
			// the far end acknowledges the STREAM_OPEN as soon as it appears on the wire, so the real client
			// function goes on to seal and send its metadata message
			stop := make(chan struct{})
			go func() {
				for i := 0; i < 4000; i++ {
					select {
					case <-stop:
						return
					default:
					}
					raw := e.sink.peek()
					for len(raw) >= protocol.HeaderSize {
						l := int(binary.BigEndian.Uint32(raw[2:6]))
						if len(raw) < protocol.HeaderSize+l {
							break
						}
						if raw[0] == protocol.FrameStreamOpen {
							if so, err := protocol.DecodeStreamOpen(raw[protocol.HeaderSize : protocol.HeaderSize+l]); err == nil {
								_, rpub, err := crypto.GenerateEphemeralKeypair()
								must(err)
								agent.C07StreamMgr(e.a).HandleStreamOpenAck(so.RequestID, nil, 0, rpub)
								return
							}
						}
						raw = raw[protocol.HeaderSize+l:]
					}
					time.Sleep(500 * time.Microsecond)
				}
			}()
			ctx, cancel := context.WithTimeout(context.Background(), 300*time.Millisecond)
			big := string(bytes.Repeat([]byte("a"), n))
			fin := make(chan struct{})
			go func() {
				defer close(fin)
				switch f[1] {
				case "shopen":
					sess, err := e.a.OpenShellStream(ctx, e.peer, &shell.ShellMeta{Command: "echo", Args: []string{big}}, false)
					if err == nil && sess != nil {
						sess.Close()
					}
				case "fupmeta":
					lp := filepath.Join(e.dir, "up.bin")
					must(os.WriteFile(lp, []byte("x"), 0o600))
					e.a.UploadFile(ctx, e.peer, lp, "/tmp/"+big, health.TransferOptions{}, nil)
					os.Remove(lp)
				case "fdownmeta":
					e.a.DownloadFile(ctx, e.peer, "/tmp/"+big, filepath.Join(e.dir, "down.bin"), health.TransferOptions{}, nil)
				}
			}()
			select {
			case <-fin:
			case <-time.After(450 * time.Millisecond):
				// the client is waiting for the far end's answer: end the stream under it
				for _, st := range agent.C07StreamMgr(e.a).GetAllStreams() {
					agent.C07StreamMgr(e.a).RemoveStream(st.ID)
				}
				select {
				case <-fin:
				case <-time.After(3 * time.Second):
				}
			}
			cancel()
			close(stop)
			time.Sleep(5 * time.Millisecond)
			// not vacuous: a metadata message that fits must have been sent
			if n < protocol.MaxPayloadSize/2 {
				_, _, lens := c07bWire(e.sink.peek())
				if len(lens) < 2 {
					e.sink.take()
					return "ok big=0 parse=ok no-metadata-frame-seen"
				}
			}
		default:
			return "bad-op"
		}
		big, ok, _ := c07bWire(e.sink.take())
		p := "ok"
		if !ok {
			p = "bad"
		}
		return fmt.Sprintf("ok big=%d parse=%s", big, p)
	case "conc":
		n, err1 := strconv.Atoi(f[1])
		cp, err2 := strconv.Atoi(f[2])
		if err1 != nil || err2 != nil || n < 0 || cp <= 0 {
			return "bad-op"
		}
		return c07ConcRun(e, n, cp, sid)
	case "nf":
		var sizes []int
		for _, t := range f[2:] {
			k, err := strconv.Atoi(t)
			if err != nil || k < 0 {
				return "bad-op"
			}
			sizes = append(sizes, k)
		}
		if len(sizes) == 0 {
			return "bad-op"
		}
		return c07nfRun(e, f[1], sizes, sid)
	case "stall":
		n, err1 := strconv.Atoi(f[1])
		ms, err2 := strconv.Atoi(f[2])
		if err1 != nil || err2 != nil || n < 0 || ms < 0 {
			return "bad-op"
		}
		data := c07Data(n, sid)
		keys := c07NewKeys(sid, false) // the exit side (responder) sends
		c07Send(e, "exit", data, 0, false, keys, sid)
		var frames []*protocol.Frame
		rd := protocol.NewFrameReader(bytes.NewReader(e.sink.take()))
		nData := 0
		for {
			fr, err := rd.Read()
			if err == io.EOF {
				break
			}
			if err != nil {
				panic("captured bytes do not parse as frames: " + err.Error())
			}
			if fr.Type == protocol.FrameStreamData {
				frames = append(frames, fr)
				if len(fr.Payload) > 0 {
					nData++
				}
			}
		}
		// ingress end: a stream accepted by the agent's real stream manager, read through meshConn
		rsid := sid + 1<<40
		st, err := agent.C07StreamMgr(e.a).AcceptStream(rsid, rsid, e.peer, "", 0)
		must(err)
		st.SetSessionKey(keys.newRecv())
		mc := agent.C07MeshConn(e.a, e.peer, rsid, st)
		pushed := make(chan struct{})
		go func() { // the peer connection's sequential frame processor
			defer close(pushed)
			sawFin := false
			for _, fr := range frames {
				g := *fr
				g.StreamID = rsid
				agent.C07HandleStreamData(e.a, e.peer, &g)
				sawFin = sawFin || g.Flags&protocol.FlagFinWrite != 0
			}
			if !sawFin {
				agent.C07HandleStreamData(e.a, e.peer, &protocol.Frame{Type: protocol.FrameStreamData, StreamID: rsid, Flags: protocol.FlagFinWrite})
			}
		}()
		type res struct{ got []byte }
		rc := make(chan res, 1)
		go func() { // the application
			var got []byte
			buf := make([]byte, 1024)
			k, err := mc.Read(buf)
			got = append(got, buf[:k]...)
			if err == nil {
				time.Sleep(time.Duration(ms) * time.Millisecond)
				big := make([]byte, 32768)
				for {
					k, err := mc.Read(big)
					got = append(got, big[:k]...)
					if err != nil {
						break
					}
				}
			}
			rc <- res{got}
		}()
		rx := "timeout"
		select {
		case r := <-rc:
			switch {
			case bytes.Equal(r.got, data):
				rx = "equal"
			case len(r.got) < len(data) && bytes.Equal(r.got, data[:len(r.got)]):
				rx = fmt.Sprintf("short:%d", len(r.got))
			default:
				rx = fmt.Sprintf("differ:%d", len(r.got))
			}
		case <-time.After(time.Duration(ms)*time.Millisecond*time.Duration(2+len(frames)/32) + 60*time.Second):
		}
		agent.C07StreamMgr(e.a).RemoveStream(rsid)
		select {
		case <-pushed:
		case <-time.After(5 * time.Second):
		}
		e.sink.take()
		return fmt.Sprintf("ok frames=%d rx=%s", nData, rx)
	}
	return "bad-op"
}

// ---- delivery without a following FIN (request/response traffic)

type c07nfEnv struct {
	ln    net.Listener
	conns chan net.Conn
	exitH *exit.Handler
	fwdH  *forward.Handler
}

var c07nf *c07nfEnv

func c07nfSetup(e *c07Env) *c07nfEnv {
	if c07nf != nil {
		return c07nf
	}
	ln, err := net.Listen("tcp", "127.0.0.1:0")
	must(err)
	n := &c07nfEnv{ln: ln, conns: make(chan net.Conn, 16)}
	go func() {
		for {
			c, err := ln.Accept()
			if err != nil {
				return
			}
			n.conns <- c
		}
	}()
	ec := exit.DefaultHandlerConfig()
	_, lo, _ := net.ParseCIDR("127.0.0.0/8")
	ec.AllowedRoutes = []*net.IPNet{lo}
	ec.IdleTimeout = 0
	n.exitH = exit.NewHandler(ec, e.a.ID(), e.a) // opened through the real HandleStreamOpen (dial, ACK, readLoop)
	n.exitH.Start()
	fc := forward.DefaultHandlerConfig()
	fc.IdleTimeout = 0
	fc.Endpoints = []forward.Endpoint{{Key: "c07", Target: ln.Addr().String()}}
	n.fwdH = forward.NewHandler(fc, e.a.ID(), e.a)
	n.fwdH.Start()
	c07nf = n
	return n
}

// c07nfRun: the application writes the given sizes (each Write chunked by the real meshConn.Write), does NOT
// close, and waits for the answer; the far end must have every byte within the deadline.
func c07nfRun(e *c07Env, path string, sizes []int, sid uint64) string {
	total := 0
	for _, k := range sizes {
		total += k
	}
	data := c07Data(total, sid)
	deadline := 2 * time.Second
	report := func(got []byte) string {
		switch {
		case bytes.Equal(got, data):
			return fmt.Sprintf("ok delivered %d", total)
		case len(got) < len(data) && bytes.Equal(got, data[:len(got)]):
			return fmt.Sprintf("ok pending %d/%d", len(got), total)
		default:
			return fmt.Sprintf("ok differ %d/%d", len(got), total)
		}
	}
	// frames of the writes, sealed with `key`, produced by the real meshConn.Write
	framesOf := func(key *crypto.SessionKey) []*protocol.Frame {
		st := stream.NewStream(sid, e.a.ID(), e.peer, sid)
		st.Open()
		st.SetSessionKey(key)
		mc := agent.C07MeshConn(e.a, e.peer, sid, st)
		rest := data
		for _, k := range sizes {
			if n, err := mc.Write(rest[:k]); err != nil || n != k {
				panic("meshConn.Write failed")
			}
			rest = rest[k:]
		}
		var out []*protocol.Frame
		rd := protocol.NewFrameReader(bytes.NewReader(e.sink.take()))
		for {
			fr, err := rd.Read()
			if err != nil {
				break
			}
			if fr.Type == protocol.FrameStreamData && fr.StreamID == sid {
				out = append(out, fr)
			}
		}
		return out
	}
	switch path {
	case "exit", "fwd":
		n := c07nfSetup(e)
		ipriv, ipub, err := crypto.GenerateEphemeralKeypair()
		must(err)
		ctx := context.Background()
		if path == "exit" {
			port := n.ln.Addr().(*net.TCPAddr).Port
			must(n.exitH.HandleStreamOpen(ctx, sid, sid, e.peer, "127.0.0.1", uint16(port), ipub))
		} else {
			must(n.fwdH.HandleStreamOpen(ctx, sid, sid, e.peer, "c07", ipub))
		}
		var target net.Conn
		select {
		case target = <-n.conns:
		case <-time.After(5 * time.Second):
			return "ok open-failed"
		}
		defer target.Close()
		// the STREAM_OPEN_ACK the handler sent carries its ephemeral key
		var rpub [crypto.KeySize]byte
		found := false
		for i := 0; i < 4000 && !found; i++ {
			raw := e.sink.peek()
			for len(raw) >= protocol.HeaderSize && !found {
				l := int(binary.BigEndian.Uint32(raw[2:6]))
				if len(raw) < protocol.HeaderSize+l {
					break
				}
				if raw[0] == protocol.FrameStreamOpenAck && binary.BigEndian.Uint64(raw[6:14]) == sid {
					ack, err := protocol.DecodeStreamOpenAck(raw[protocol.HeaderSize : protocol.HeaderSize+l])
					must(err)
					rpub, found = ack.EphemeralPubKey, true
				}
				raw = raw[protocol.HeaderSize+l:]
			}
			if !found {
				time.Sleep(500 * time.Microsecond)
			}
		}
		if !found {
			return "ok open-failed"
		}
		e.sink.take()
		shared, err := crypto.ComputeECDH(ipriv, rpub)
		must(err)
		key := crypto.DeriveSessionKey(shared, sid, ipub, rpub, true)
		for _, fr := range framesOf(key) {
			var herr error
			if path == "exit" {
				herr = n.exitH.HandleStreamData(e.peer, sid, fr.Payload, fr.Flags)
			} else {
				herr = n.fwdH.HandleStreamData(e.peer, sid, fr.Payload, fr.Flags)
			}
			if herr != nil {
				break
			}
		}
		// the target application reads what has arrived; nothing else will be sent until it answers
		got := make([]byte, 0, total)
		buf := make([]byte, 65536)
		end := time.Now().Add(deadline)
		for len(got) < total {
			target.SetReadDeadline(end)
			k, err := target.Read(buf)
			got = append(got, buf[:k]...)
			if err != nil {
				break
			}
		}
		res := report(got)
		if path == "exit" {
			n.exitH.HandleStreamClose(e.peer, sid)
		} else {
			n.fwdH.HandleStreamClose(e.peer, sid)
		}
		time.Sleep(2 * time.Millisecond)
		e.sink.take()
		return res
	case "mesh": // ingress side: frames from the exit arrive through the real frame dispatcher, the app reads
		keys := c07NewKeys(sid, false)
		frames := framesOf(keys.send)
		rsid := sid + 1<<41
		st, err := agent.C07StreamMgr(e.a).AcceptStream(rsid, rsid, e.peer, "", 0)
		must(err)
		st.SetSessionKey(keys.newRecv())
		mc := agent.C07MeshConn(e.a, e.peer, rsid, st)
		go func() {
			for _, fr := range frames {
				g := *fr
				g.StreamID = rsid
				agent.C07HandleStreamData(e.a, e.peer, &g)
			}
		}()
		rc := make(chan []byte, 1)
		var mu sync.Mutex
		var got []byte
		go func() {
			buf := make([]byte, 7000)
			for {
				k, err := mc.Read(buf)
				mu.Lock()
				got = append(got, buf[:k]...)
				done := len(got) >= total
				mu.Unlock()
				if err != nil || done {
					break
				}
			}
			mu.Lock()
			rc <- append([]byte(nil), got...)
			mu.Unlock()
		}()
		var res string
		if total == 0 {
			res = report(nil)
		} else {
			select {
			case g := <-rc:
				res = report(g)
			case <-time.After(deadline):
				mu.Lock()
				res = report(append([]byte(nil), got...))
				mu.Unlock()
			}
		}
		agent.C07StreamMgr(e.a).RemoveStream(rsid)
		e.sink.take()
		return res
	case "shin": // shell target side: STDIN messages reach the session's stdin
		keys := c07NewKeys(sid, true)
		c07Send(e, "shin", data, maxInt(1, sizes[0]), false, keys, sid)
		w := &c07WC{}
		h := agent.C07ShellHandler(e.a)
		shell.C07StdinSink(h, e.peer, sid, keys.newRecv(), w)
		rd := protocol.NewFrameReader(bytes.NewReader(e.sink.take()))
		for {
			fr, err := rd.Read()
			if err != nil {
				break
			}
			if fr.Type == protocol.FrameStreamData && fr.StreamID == sid && len(fr.Payload) > 0 && fr.Flags&protocol.FlagFinWrite == 0 {
				h.HandleStreamData(e.peer, sid, fr.Payload, fr.Flags)
			}
		}
		end := time.Now().Add(deadline)
		for len(w.got) < total && time.Now().Before(end) {
			time.Sleep(time.Millisecond)
		}
		res := report(w.got)
		shell.C07Forget(h, sid)
		e.sink.take()
		return res
	}
	return "bad-op"
}

// c07SlowWriter is the shell handler's DataWriter: it delays every send by a pseudo-random few microseconds before
// the frame reaches "the wire" (a list, in arrival order), as a peer connection under load does.
type c07SlowWriter struct {
	mu     sync.Mutex
	r      *rng
	frames [][]byte
}

func (w *c07SlowWriter) WriteStreamData(p identity.AgentID, sid uint64, data []byte, flags uint8) error {
	w.mu.Lock()
	d := w.r.intn(60)
	w.mu.Unlock()
	if d > 20 {
		time.Sleep(time.Duration(d) * time.Microsecond)
	} else {
		runtime.Gosched()
	}
	w.mu.Lock()
	w.frames = append(w.frames, append([]byte(nil), data...))
	w.mu.Unlock()
	return nil
}
func (w *c07SlowWriter) WriteStreamClose(p identity.AgentID, sid uint64) error { return nil }

// c07ConcRun: stdout and stderr of one shell stream written concurrently through the real pumps; the client opens
// the frames in wire order with one stateful key: every frame must open and each of the two byte streams must be
// complete and in order.
func c07ConcRun(e *c07Env, n, cap int, sid uint64) string {
	out, errb := c07Data(n, sid), c07Data(n, sid+7)
	w := &c07SlowWriter{r: newRng(int64(sid))}
	h := shell.NewHandler(shell.NewExecutor(shell.DefaultConfig()), w, slog.New(slog.NewTextHandler(io.Discard, nil)))
	keys := c07NewKeys(sid, false)
	shell.C07PumpBoth(h, e.peer, sid, keys.send, &c07Src{data: out, cap: cap}, &c07Src{data: errb, cap: cap})
	rk := keys.newRecv()
	var gotO, gotE []byte
	rejected := 0
	for _, fr := range w.frames {
		pt, err := rk.Decrypt(fr)
		if err != nil {
			rejected++
			continue
		}
		mt, pl, derr := shell.DecodeMessage(pt)
		if derr != nil {
			continue
		}
		switch mt {
		case shell.MsgStdout:
			gotO = append(gotO, pl...)
		case shell.MsgStderr:
			gotE = append(gotE, pl...)
		}
	}
	st := func(got, want []byte) string {
		if bytes.Equal(got, want) {
			return "equal"
		}
		return fmt.Sprintf("lost:%d/%d", len(want)-len(got), len(want))
	}
	return fmt.Sprintf("ok rejected=%d stdout=%s stderr=%s", rejected, st(gotO, out), st(gotE, errb))
}

func maxInt(a, b int) int {
	if a > b {
		return a
	}
	return b
}

func c07bGen(w *bufio.Writer, seed int64, tier string) {
	r := newRng(seed)
	mp := protocol.MaxPayloadSize
	sizes := []int{0, 1, 100, mp - 29, mp - 28, mp - 1, mp, mp + 1, mp + 28, mp + 29, 20000, 32768, 65535, 65536, 100000, 1 << 20}
	for _, op := range []string{"fw", "wf", "conn"} {
		for _, n := range sizes {
			fmt.Fprintf(w, "%s %d\n", op, n)
		}
	}
	msgSizes := []int{0, 10, mp - 200, mp - 41, mp - 30, mp - 29, mp - 28, mp - 13, mp - 12, mp - 11, mp, mp + 1, 20000, 65536, 200000}
	for _, k := range []string{"shopen", "fupmeta", "fdownmeta"} { // real client entry points; metadata message of ~n bytes
		for _, n := range []int{10, mp - 300, mp - 120, mp - 60, mp - 29, mp, 20000, 70000} {
			fmt.Fprintf(w, "msg %s %d\n", k, n)
		}
	}
	for _, k := range []string{"shmsg", "ctrlreq", "ctrlresp"} {
		for _, n := range msgSizes {
			fmt.Fprintf(w, "msg %s %d\n", k, n)
		}
	}
	extra := 40
	if tier == "thorough" {
		extra = 1500
	}
	for i := 0; i < extra; i++ {
		n := r.pick(r.intn(200), mp-60+r.intn(120), r.intn(3*mp), 60000+r.intn(20000))
		if r.chance(50) {
			fmt.Fprintf(w, "%s %d\n", r.pickS("fw", "wf", "conn"), n)
		} else {
			fmt.Fprintf(w, "msg %s %d\n", r.pickS("shmsg", "ctrlreq", "ctrlresp"), n)
		}
	}
	// two writers on ONE shell stream (stdout and stderr pumps running concurrently, sends delayed at random):
	// the client must be able to open every frame in wire order
	for _, c := range [][2]int{{60000, 100}, {100000, 257}, {20000, 16}} {
		fmt.Fprintf(w, "conc %d %d\n", c[0], c[1])
	}
	if tier == "thorough" {
		for i := 0; i < 20; i++ {
			fmt.Fprintf(w, "conc %d %d\n", 20000+r.intn(100000), r.pick(16, 64, 100, 333, 1000, 4096))
		}
	}
	// delivery WITHOUT a following FIN: the application writes, keeps the tunnel open and waits for the answer
	mpl := mp - 28
	nfSizes := [][]int{{1}, {100}, {mpl - 1}, {mpl}, {mpl + 1}, {2 * mpl}, {2*mpl - 1}, {32768}, {3 * mpl}, {65536}, {4 * mpl},
		{mpl, mpl}, {mpl, mpl, mpl}, {1, mpl}, {mpl, 1}, {100, 2 * mpl}, {mpl - 1, 1, mpl}, {5 * mpl}}
	for _, p := range []string{"exit", "fwd", "mesh", "shin"} {
		for _, sz := range nfSizes {
			if p == "shin" && len(sz) > 1 {
				continue
			}
			fmt.Fprintf(w, "nf %s", p)
			for _, k := range sz {
				fmt.Fprintf(w, " %d", k)
			}
			fmt.Fprintln(w)
		}
	}
	nfx := 12
	if tier == "thorough" {
		nfx = 300
	}
	for i := 0; i < nfx; i++ {
		p := r.pickS("exit", "fwd", "mesh")
		fmt.Fprintf(w, "nf %s", p)
		for j, c := 0, r.pick(1, 1, 2, 3); j < c; j++ {
			fmt.Fprintf(w, " %d", r.pick(1, 7, mpl-1, mpl, mpl, mpl+1, 2*mpl, r.intn(4*mpl)+1))
		}
		fmt.Fprintln(w)
	}
	// receive side: reader keeps up / stalls briefly / stalls for seconds with far more than the 64-slot
	// stream buffer in flight
	eb := mp - 100 - 28 // bytes per frame on the exit path (only used to size the cases)
	fmt.Fprintf(w, "stall %d 0\n", 10*eb+5)
	fmt.Fprintf(w, "stall %d 50\n", 70*eb)
	fmt.Fprintf(w, "stall %d 300\n", 300*eb+17)
	fmt.Fprintf(w, "stall %d 3000\n", 200*eb+1) // ONE multi-second stall in the quick tier
	if tier == "thorough" {
		fmt.Fprintf(w, "stall %d 2200\n", 65*eb)
		fmt.Fprintf(w, "stall %d 5000\n", 1000*eb+3)
		fmt.Fprintf(w, "stall %d 7000\n", 66*eb)
		for i := 0; i < 6; i++ {
			fmt.Fprintf(w, "stall %d %d\n", (1+r.intn(400))*eb+r.intn(eb), r.pick(0, 10, 500, 2500, 4000))
		}
	}
}

func init() {
	register("c07b", &Engine{Run: c07bRun, Gen: c07bGen})
}
