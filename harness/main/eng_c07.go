//go:build verif && (all || c07)

package main

import (
	"bufio"
	"bytes"
	"fmt"
	"io"
	"net"
	"os"
	"path/filepath"
	"strconv"
	"strings"
	"sync"
	"syscall"
	"time"

	"github.com/postalsys/muti-metroo/internal/agent"
	"github.com/postalsys/muti-metroo/internal/config"
	"github.com/postalsys/muti-metroo/internal/crypto"
	"github.com/postalsys/muti-metroo/internal/exit"
	"github.com/postalsys/muti-metroo/internal/forward"
	"github.com/postalsys/muti-metroo/internal/health"
	"github.com/postalsys/muti-metroo/internal/identity"
	"github.com/postalsys/muti-metroo/internal/peer"
	"github.com/postalsys/muti-metroo/internal/protocol"
	"github.com/postalsys/muti-metroo/internal/shell"
	"github.com/postalsys/muti-metroo/internal/stream"
)

// Engine c07: every data path's REAL sender is run against a capturing peer.
//
// A real agent (agent.New, never started) owns a real peer.Manager in which one connection to a
// fake peer is registered whose frame writer is the real protocol.FrameWriter over a buffer. So
// every frame travels Manager.SendToPeer -> Connection.WriteFrame -> FrameWriter.Write ->
// Frame.Encode and is then parsed back with the real protocol.FrameReader. The far end is the
// real crypto.SessionKey.Decrypt with the peer half of a real X25519/HKDF session.
//
//	w <path> <n> <cap> <e>   write n pseudo-random bytes on <path>; the byte source hands out at
//	                         most <cap> bytes per Read/Write call (0 = unlimited); e=0: EOF is
//	                         returned by a separate Read, e=1: together with the last bytes.
//	  paths: tcp    agent.meshConn.Write          (SOCKS5 / forward-listener side, io.Copy target)
//	         exit   exit.Handler.readLoop          -> Agent.WriteStreamData
//	         fwd    forward.Handler.readLoop       -> Agent.WriteStreamData
//	         shout  shell.Handler.pumpStdout       -> writeEncrypted -> Agent.WriteStreamData
//	         sherr  shell.Handler.pumpStderr
//	         shpty  shell.Handler.pumpPTYOutput    (+ sendExit + closeStream)
//	         shin   Agent.forwardShellClientData   (one STDIN message per <cap> bytes, as
//	                handleShellWebSocket queues them; cap > 0)
//	         fup    Agent.streamFileContent        -> Agent.WriteStreamData
//	         fdown  Agent.sendFileDownload         (real file on disk; cap ignored)
//	-> ok data=<k> max=<m> lens=<rle> ctl=ok|big:<len> rx=equal|openfail@<i>|short:<m>|differ
//	   data/lens: payload lengths, in order, of the frames that carry stream bytes (or cannot be
//	   opened); max: the largest of them; ctl: every other frame written to the peer is within
//	   MaxPayloadSize; rx: result of opening every data frame in order and concatenating.

type c07Sink struct {
	mu  sync.Mutex
	buf bytes.Buffer
}

func (s *c07Sink) Write(p []byte) (int, error) {
	s.mu.Lock()
	defer s.mu.Unlock()
	return s.buf.Write(p)
}

func (s *c07Sink) peek() []byte {
	s.mu.Lock()
	defer s.mu.Unlock()
	return append([]byte(nil), s.buf.Bytes()...)
}

func (s *c07Sink) take() []byte {
	s.mu.Lock()
	defer s.mu.Unlock()
	b := append([]byte(nil), s.buf.Bytes()...)
	s.buf.Reset()
	return b
}

type c07Env struct {
	a     *agent.Agent
	peer  identity.AgentID
	sink  *c07Sink
	exitH *exit.Handler
	fwdH  *forward.Handler
	dir   string
	sid   uint64
}

var c07env *c07Env

func c07Setup() *c07Env {
	if c07env != nil {
		return c07env
	}
	dir, err := os.MkdirTemp("", "verif-c07-")
	must(err)
	cfg := config.Default()
	cfg.Agent.DataDir = filepath.Join(dir, "data")
	cfg.Agent.LogLevel = "error"
	must(os.MkdirAll(cfg.Agent.DataDir, 0o700))
	a, err := agent.New(cfg)
	must(err)
	pid, err := identity.NewAgentID()
	must(err)
	e := &c07Env{a: a, peer: pid, sink: &c07Sink{}, dir: dir, sid: 100}
	peer.C07AttachCapturePeer(agent.C07PeerMgr(a), pid, e.sink)
	ec := exit.DefaultHandlerConfig()
	ec.IdleTimeout = 0
	e.exitH = exit.NewHandler(ec, a.ID(), a) // the real Agent is the StreamWriter, as in production
	fc := forward.DefaultHandlerConfig()
	fc.IdleTimeout = 0
	e.fwdH = forward.NewHandler(fc, a.ID(), a)
	c07env = e
	return e
}

// c07Keys: a real end-to-end session; newRecv() returns a fresh receive-side key object.
type c07Keys struct {
	send    *crypto.SessionKey
	newRecv func() *crypto.SessionKey
}

func c07NewKeys(reqID uint64, senderIsInitiator bool) c07Keys {
	ipriv, ipub, err := crypto.GenerateEphemeralKeypair()
	must(err)
	rpriv, rpub, err := crypto.GenerateEphemeralKeypair()
	must(err)
	s1, err := crypto.ComputeECDH(ipriv, rpub)
	must(err)
	s2, err := crypto.ComputeECDH(rpriv, ipub)
	must(err)
	if s1 != s2 {
		panic("ecdh mismatch")
	}
	return c07Keys{
		send:    crypto.DeriveSessionKey(s1, reqID, ipub, rpub, senderIsInitiator),
		newRecv: func() *crypto.SessionKey { return crypto.DeriveSessionKey(s2, reqID, ipub, rpub, !senderIsInitiator) },
	}
}

// c07Src hands out `data` at most `cap` bytes per Read and records the largest len(p) it was offered.
type c07Src struct {
	data   []byte
	cap    int
	eofTog bool
	maxBuf int
}

func (s *c07Src) Read(p []byte) (int, error) {
	if len(p) > s.maxBuf {
		s.maxBuf = len(p)
	}
	if len(s.data) == 0 {
		return 0, io.EOF
	}
	n := len(p)
	if s.cap > 0 && n > s.cap {
		n = s.cap
	}
	if n > len(s.data) {
		n = len(s.data)
	}
	copy(p, s.data[:n])
	s.data = s.data[n:]
	if len(s.data) == 0 && s.eofTog {
		return n, io.EOF
	}
	return n, nil
}

type c07Addr struct{}

func (c07Addr) Network() string { return "tcp" }
func (c07Addr) String() string  { return "c07" }

// c07Conn: a net.Conn whose read side is a c07Src (the "destination" of exit/forward).
type c07Conn struct {
	src *c07Src
	got []byte
}

func (c *c07Conn) Read(p []byte) (int, error)         { return c.src.Read(p) }
func (c *c07Conn) Write(p []byte) (int, error)        { c.got = append(c.got, p...); return len(p), nil }
func (c *c07Conn) Close() error                       { return nil }
func (c *c07Conn) LocalAddr() net.Addr                { return c07Addr{} }
func (c *c07Conn) RemoteAddr() net.Addr               { return c07Addr{} }
func (c *c07Conn) SetDeadline(t time.Time) error      { return nil }
func (c *c07Conn) SetReadDeadline(t time.Time) error  { return nil }
func (c *c07Conn) SetWriteDeadline(t time.Time) error { return nil }

// c07PTY: a PTY session whose output is a c07Src.
type c07PTY struct{ src *c07Src }

func (p *c07PTY) Read(b []byte) (int, error)      { return p.src.Read(b) }
func (p *c07PTY) Write(b []byte) (int, error)     { return len(b), nil }
func (p *c07PTY) Resize(rows, cols uint16) error  { return nil }
func (p *c07PTY) Signal(sig syscall.Signal) error { return nil }
func (p *c07PTY) Wait() int32                     { return 0 }
func (p *c07PTY) Close()                          {}

func c07Data(n int, seed uint64) []byte {
	r := &rng{s: seed*0x9E3779B97F4A7C15 + uint64(n)}
	b := make([]byte, n)
	i := 0
	for ; i+8 <= n; i += 8 {
		v := r.u64()
		for k := 0; k < 8; k++ {
			b[i+k] = byte(v >> (8 * k))
		}
	}
	for ; i < n; i++ {
		b[i] = byte(r.u64())
	}
	return b
}

var c07Paths = []string{"tcp", "exit", "fwd", "shout", "sherr", "shpty", "shin", "fup", "fdown"}

func c07IsShell(path string) bool { return strings.HasPrefix(path, "sh") }

// c07Send runs the real sender of `path`; returns the largest read buffer the source was offered (0 if n/a).
func c07Send(e *c07Env, path string, data []byte, cap int, eofTog bool, keys c07Keys, sid uint64) int {
	src := &c07Src{data: data, cap: cap, eofTog: eofTog}
	switch path {
	case "tcp":
		st := stream.NewStream(sid, e.a.ID(), e.peer, sid)
		st.Open()
		st.SetSessionKey(keys.send)
		mc := agent.C07MeshConn(e.a, e.peer, sid, st)
		// the application (io.Copy in socks5.relay / forward.relay) calls Write with what it read
		rest := data
		for len(rest) > 0 {
			k := len(rest)
			if cap > 0 && k > cap {
				k = cap
			}
			n, err := mc.Write(rest[:k])
			if err != nil || n != k {
				break
			}
			rest = rest[k:]
		}
		if len(data) == 0 {
			mc.Write(nil)
		}
	case "exit":
		exit.C07ReadLoop(e.exitH, e.peer, sid, &c07Conn{src: src}, keys.send)
	case "fwd":
		forward.C07ReadLoop(e.fwdH, e.peer, sid, &c07Conn{src: src}, keys.send)
	case "shout":
		shell.C07PumpStd(agent.C07ShellHandler(e.a), e.peer, sid, keys.send, src, false)
	case "sherr":
		shell.C07PumpStd(agent.C07ShellHandler(e.a), e.peer, sid, keys.send, src, true)
	case "shpty":
		shell.C07PumpPTY(agent.C07ShellHandler(e.a), e.peer, sid, keys.send, &c07PTY{src})
	case "shin":
		if cap <= 0 {
			panic("shin needs cap > 0")
		}
		ad := health.NewShellStreamAdapter(sid, e.peer, func() {})
		ad.SetSessionKey(keys.send)
		done := make(chan struct{})
		go func() {
			defer close(done)
			agent.C07ForwardShellClientData(e.a, sid, e.peer, ad)
		}()
		sess := ad.ToSession()
		rest := data
	loop:
		for len(rest) > 0 {
			k := len(rest)
			if k > cap {
				k = cap
			}
			select { // what handleShellWebSocket does with each client message
			case sess.Send <- shell.EncodeStdin(rest[:k]):
			case <-sess.Done:
				break loop
			}
			rest = rest[k:]
		}
		// let the sender take everything that was queued, then end the session
	drain:
		for i := 0; i < 200000 && len(sess.Send) > 0; i++ {
			select {
			case <-sess.Done:
				break drain
			default:
				time.Sleep(20 * time.Microsecond)
			}
		}
		ad.Close()
		<-done
	case "fup":
		agent.C07StreamFileContent(e.a, e.peer, sid, src, int64(len(data)), keys.send)
	case "fdown":
		p := filepath.Join(e.dir, "dl.bin")
		must(os.WriteFile(p, data, 0o600))
		agent.C07SendFileDownload(e.a, e.peer, sid, sid, p, keys.send)
		os.Remove(p)
	default:
		panic("unknown path " + path)
	}
	return src.maxBuf
}

type c07Frame struct {
	typ, flags uint8
	payload    []byte
}

type c07Obs struct {
	frames   []c07Frame // everything written to the peer for this stream, in order
	lens     []int      // payload lengths of data-bearing (or unopenable) frames
	plain    []int      // for each of them the length of the stream bytes it yielded (-1: did not open)
	ctlBig   int
	rx       string
	received []byte
}

func c07Observe(e *c07Env, path string, data []byte, keys c07Keys, sid uint64) c07Obs {
	raw := e.sink.take()
	fr := protocol.NewFrameReader(bytes.NewReader(raw))
	var o c07Obs
	inOrder := keys.newRecv() // the far end's stateful key, used in arrival order until the first failure
	failed := -1
	first := true
	for {
		f, err := fr.Read()
		if err == io.EOF {
			break
		}
		if err != nil {
			panic("captured bytes do not parse as frames: " + err.Error())
		}
		if f.StreamID != sid {
			panic(fmt.Sprintf("frame for unexpected stream %d", f.StreamID))
		}
		isData := f.Type == protocol.FrameStreamData && len(f.Payload) > 0
		if !(isData && path == "fdown" && first) {
			o.frames = append(o.frames, c07Frame{f.Type, f.Flags, f.Payload})
		}
		if isData && path == "fdown" && first { // response metadata precedes the file bytes
			first = false
			if _, err := keys.newRecv().Decrypt(f.Payload); err != nil {
				panic("download metadata frame does not open")
			}
			isData = false
		}
		if !isData {
			if len(f.Payload) > o.ctlBig {
				o.ctlBig = len(f.Payload)
			}
			continue
		}
		// classify with a fresh key object (independent of what happened to earlier frames)
		pt, err := keys.newRecv().Decrypt(f.Payload)
		var body []byte
		opened := err == nil
		if opened {
			body = pt
			if c07IsShell(path) {
				mt, pl, derr := shell.DecodeMessage(pt)
				if derr != nil || (mt != shell.MsgStdout && mt != shell.MsgStderr && mt != shell.MsgStdin) {
					if len(f.Payload) > o.ctlBig { // EXIT etc.
						o.ctlBig = len(f.Payload)
					}
					continue
				}
				want := map[string]uint8{"shout": shell.MsgStdout, "sherr": shell.MsgStderr, "shpty": shell.MsgStdout, "shin": shell.MsgStdin}[path]
				if mt != want {
					panic("unexpected shell message type")
				}
				body = pl
			}
			if len(body) == 0 { // e.g. the empty FIN message of streamFileContent
				if len(f.Payload) > o.ctlBig {
					o.ctlBig = len(f.Payload)
				}
				continue
			}
		}
		idx := len(o.lens)
		o.lens = append(o.lens, len(f.Payload))
		if failed < 0 {
			// the far end proper: stateful key, arrival order
			pt2, err2 := inOrder.Decrypt(f.Payload)
			if err2 != nil {
				failed = idx
			} else if !opened || !bytes.Equal(pt2, pt) {
				panic("stateful and fresh receive keys disagree")
			} else {
				o.received = append(o.received, body...)
			}
		}
		if opened {
			o.plain = append(o.plain, len(body))
		} else {
			o.plain = append(o.plain, -1)
		}
	}
	switch {
	case failed >= 0:
		o.rx = fmt.Sprintf("openfail@%d", failed)
	case bytes.Equal(o.received, data):
		o.rx = "equal"
	case len(o.received) < len(data) && bytes.Equal(o.received, data[:len(o.received)]):
		o.rx = fmt.Sprintf("short:%d", len(o.received))
	default:
		o.rx = "differ"
	}
	return o
}

type c07WC struct{ got []byte }

func (w *c07WC) Write(p []byte) (int, error) { w.got = append(w.got, p...); return len(p), nil }
func (w *c07WC) Close() error                { return nil }

// c07RealReceive feeds the captured frames, in order, to the REAL far-end receiver of the path and
// returns the stream bytes that come out of it:
//
//	tcp              exit.Handler.HandleStreamData -> destination conn
//	exit, fwd        stream.PushData / HandleRemoteFinWrite -> agent.meshConn.Read (odd-sized reads)
//	shout/sherr/shpty Agent.handleShellClientData -> ShellStreamAdapter -> session.Receive (as the WebSocket handler drains it)
//	shin             shell.Handler.HandleStreamData -> session stdin
//	fup, fdown       stream.PushData -> Agent.receiveEncryptedStreamData
func c07RealReceive(e *c07Env, path string, frames []c07Frame, keys c07Keys, sid uint64) []byte {
	defer e.sink.take() // receivers may send CLOSE frames of their own
	dataFrames := func(fn func(fr c07Frame) bool) {
		for _, fr := range frames {
			if fr.typ == protocol.FrameStreamData && !fn(fr) {
				return
			}
		}
	}
	switch path {
	case "tcp":
		c := &c07Conn{src: &c07Src{}}
		exit.C07Register(e.exitH, e.peer, sid, c, keys.newRecv())
		dataFrames(func(fr c07Frame) bool {
			return e.exitH.HandleStreamData(e.peer, sid, fr.payload, fr.flags) == nil
		})
		e.exitH.HandleStreamClose(e.peer, sid)
		return c.got
	case "exit", "fwd", "fup", "fdown":
		st := stream.NewStream(sid, e.a.ID(), e.peer, sid)
		st.Open()
		rk := keys.newRecv()
		st.SetSessionKey(rk)
		go func() { // what Agent.handleStreamData -> stream.Manager.HandleStreamData does per frame
			dataFrames(func(fr c07Frame) bool {
				if len(fr.payload) > 0 && st.PushData(fr.payload) != nil {
					return false
				}
				if fr.flags&protocol.FlagFinWrite != 0 {
					st.HandleRemoteFinWrite()
				}
				return true
			})
			st.HandleRemoteFinWrite()
		}()
		defer st.Close()
		if path == "fup" || path == "fdown" {
			got, _ := agent.C07ReceiveEncrypted(e.a, st, rk, -1)
			return got
		}
		mc := agent.C07MeshConn(e.a, e.peer, sid, st)
		var got []byte
		buf := make([]byte, 1+int(sid*7919%40000))
		for {
			n, err := mc.Read(buf)
			got = append(got, buf[:n]...)
			if err != nil {
				return got
			}
		}
	case "shout", "sherr", "shpty":
		ad := health.NewShellStreamAdapter(sid, e.peer, func() {})
		ad.SetSessionKey(keys.newRecv())
		agent.C07RegisterShellClient(e.a, sid, ad)
		sess := ad.ToSession()
		var got []byte
		take := func(m []byte) {
			if mt, pl, err := shell.DecodeMessage(m); err == nil && (mt == shell.MsgStdout || mt == shell.MsgStderr) {
				got = append(got, pl...)
			}
		}
		// the WebSocket side of handleShellWebSocket takes messages off session.Receive; done here after every
		// frame, in the same goroutine, so the adapter's drop-when-stalled timeout can never be the cause of a loss
		drain := func() {
			for {
				select {
				case m := <-sess.Receive:
					take(m)
				default:
					return
				}
			}
		}
		dataFrames(func(fr c07Frame) bool {
			if len(fr.payload) == 0 {
				return true
			}
			ok := agent.C07HandleShellClientData(e.a, sid, fr.payload, fr.flags)
			drain()
			return ok
		})
		ad.Close()
		drain()
		return got
	case "shin":
		w := &c07WC{}
		h := agent.C07ShellHandler(e.a)
		shell.C07StdinSink(h, e.peer, sid, keys.newRecv(), w)
		dataFrames(func(fr c07Frame) bool {
			h.HandleStreamData(e.peer, sid, fr.payload, fr.flags)
			return true
		})
		shell.C07Forget(h, sid)
		return w.got
	}
	panic("unknown path " + path)
}

func c07RLE(xs []int) string {
	if len(xs) == 0 {
		return "-"
	}
	var sb strings.Builder
	for i := 0; i < len(xs); {
		j := i
		for j < len(xs) && xs[j] == xs[i] {
			j++
		}
		if i > 0 {
			sb.WriteByte(',')
		}
		if j-i == 1 {
			fmt.Fprintf(&sb, "%d", xs[i])
		} else {
			fmt.Fprintf(&sb, "%dx%d", xs[i], j-i)
		}
		i = j
	}
	return sb.String()
}

func c07Run(line string) string {
	f := fields(line)
	if len(f) != 5 || f[0] != "w" {
		return "bad-op"
	}
	path := f[1]
	n, err1 := strconv.Atoi(f[2])
	cap, err2 := strconv.Atoi(f[3])
	if err1 != nil || err2 != nil || n < 0 || cap < 0 {
		return "bad-op"
	}
	ok := false
	for _, p := range c07Paths {
		ok = ok || p == path
	}
	if !ok || (path == "shin" && cap == 0) {
		return "bad-op"
	}
	e := c07Setup()
	e.sink.take()
	e.sid++
	sid := e.sid
	data := c07Data(n, sid)
	keys := c07NewKeys(sid, path == "tcp" || path == "shin" || path == "fup")
	c07Send(e, path, data, cap, f[4] == "1", keys, sid)
	o := c07Observe(e, path, data, keys, sid)
	max := 0
	for _, l := range o.lens {
		if l > max {
			max = l
		}
	}
	ctl := "ok"
	if o.ctlBig > protocol.MaxPayloadSize {
		ctl = fmt.Sprintf("big:%d", o.ctlBig)
	}
	out := fmt.Sprintf("ok data=%d max=%d lens=%s ctl=%s rx=%s", len(o.lens), max, c07RLE(o.lens), ctl, o.rx)
	// the path's real receiver must agree with the frame-by-frame verdict
	real := bytes.Equal(c07RealReceive(e, path, o.frames, keys, sid), data)
	if real != (o.rx == "equal") {
		out += fmt.Sprintf(" realrx=%v", real)
	}
	return out
}

func c07Gen(w *bufio.Writer, seed int64, tier string) {
	r := newRng(seed)
	mp := protocol.MaxPayloadSize
	ov := crypto.EncryptionOverhead
	base := []int{0, 1, 2, 100, 4095, 4096, 4097, 8192,
		mp - 100 - ov - 1, mp - 100 - ov, mp - 100 - ov + 1,
		mp - ov - 2, mp - ov - 1, mp - ov, mp - ov + 1, mp - 1, mp, mp + 1, mp + ov, mp + ov + 1,
		2*(mp-ov) - 1, 2 * (mp - ov), 2*(mp-ov) + 1, 2 * mp, 2*mp + 1, 3*(mp-ov) + 7, 65536, 100000}
	caps := []int{0, 0, 0, 1000, 4096, mp - ov - 1, mp - ov, mp - ov + 1, mp, 32768}
	emit := func(path string, n, cap int) {
		if path == "shin" && cap == 0 { // one STDIN message per `cap` bytes: the CLI reads 4096 at a time, API clients send anything
			cap = []int{4096, 4096, 4095, 1000, 1, 77, mp - ov - 1, mp - ov, mp, 20000, 32768, 100000}[r.intn(12)]
		}
		if cap > 0 && n/cap > 20000 {
			cap = n/20000 + 1
		}
		fmt.Fprintf(w, "w %s %d %d %d\n", path, n, cap, r.intn(2))
	}
	for _, p := range c07Paths {
		for _, n := range base {
			emit(p, n, 0)
		}
		for i := 0; i < 12; i++ {
			emit(p, base[r.intn(len(base))], caps[r.intn(len(caps))])
		}
		emit(p, 1<<20, 0)
		emit(p, 1<<20+r.intn(40000), caps[r.intn(len(caps))])
	}
	extra := 60
	big := 2
	if tier == "thorough" {
		extra = 4000
		big = 40
	}
	for i := 0; i < extra; i++ {
		p := c07Paths[r.intn(len(c07Paths))]
		var n int
		switch r.intn(4) {
		case 0:
			n = r.intn(200)
		case 1:
			n = base[r.intn(len(base))] + r.intn(5) - 2
			if n < 0 {
				n = 0
			}
		case 2:
			n = r.intn(5 * mp)
		default:
			n = r.intn(300000)
		}
		cap := caps[r.intn(len(caps))]
		if r.chance(30) {
			cap = 1 + r.intn(2*mp)
		}
		if cap > 0 && cap < 64 && n > 20000 {
			cap = 64 + r.intn(1000)
		}
		emit(p, n, cap)
	}
	for i := 0; i < big; i++ {
		p := c07Paths[r.intn(len(c07Paths))]
		n := 1<<20 + r.intn(3<<20+1)
		if tier == "thorough" && i < len(c07Paths) {
			p = c07Paths[i]
			n = 4 << 20
		}
		emit(p, n, []int{0, 0, 32768, mp}[r.intn(4)])
	}
}

// c07Facts measures, on the compiled code, the numbers the theorems' premises are decided on.
func c07Facts(w *bufio.Writer) {
	e := c07Setup()
	probe := func(path string) (maxBuf, maxPlain int) {
		e.sink.take()
		e.sid++
		sid := e.sid
		data := c07Data(300000, sid)
		keys := c07NewKeys(sid, path == "tcp" || path == "shin" || path == "fup")
		pcap := 0
		if path == "shin" {
			pcap = len(data) // one STDIN message
		}
		maxBuf = c07Send(e, path, data, pcap, false, keys, sid)
		// largest message (stream bytes per sealed message), recovered from the captured frames
		raw := e.sink.take()
		fr := protocol.NewFrameReader(bytes.NewReader(raw))
		var pending []byte
		first := true
		for {
			f, err := fr.Read()
			if err != nil {
				break
			}
			if f.Type != protocol.FrameStreamData || len(f.Payload) == 0 {
				continue
			}
			if path == "fdown" && first {
				first = false
				continue
			}
			// re-join fragments: try the frame alone, else appended to the pending fragment
			try := append(append([]byte(nil), pending...), f.Payload...)
			pt, err := keys.newRecv().Decrypt(try)
			if err != nil {
				pending = try
				continue
			}
			pending = nil
			if len(pt) > maxPlain {
				maxPlain = len(pt)
			}
		}
		return
	}
	fmt.Fprintf(w, "-- GENERATED by `harness c07 facts`: measured on the code compiled from the working tree. Do not edit.\n")
	fmt.Fprintf(w, "namespace MM.Gen.C07\n")
	fmt.Fprintf(w, "/-- protocol.MaxPayloadSize -/\ndef maxPayload : Nat := %d\n", protocol.MaxPayloadSize)
	fmt.Fprintf(w, "/-- crypto.NonceSize, crypto.TagSize, crypto.EncryptionOverhead -/\ndef nonceSize : Nat := %d\ndef tagSize : Nat := %d\ndef overhead : Nat := %d\n", crypto.NonceSize, crypto.TagSize, crypto.EncryptionOverhead)
	// measured: len(Encrypt(x)) - len(x)
	k := c07NewKeys(1, true)
	ct, err := k.send.Encrypt(make([]byte, 1000))
	must(err)
	fmt.Fprintf(w, "/-- len(SessionKey.Encrypt(x)) - len(x), measured -/\ndef sealGrowth : Nat := %d\n", len(ct)-1000)
	fmt.Fprintf(w, "/-- len(shell.EncodeStdout(x)) - len(x), measured -/\ndef shellHdr : Nat := %d\n", len(shell.EncodeStdout(make([]byte, 10)))-10)
	// rechunk size of Agent.WriteStreamData: the largest frame it makes of one 300000-byte blob
	e.sink.take()
	e.sid++
	werr := e.a.WriteStreamData(e.peer, e.sid, make([]byte, 300000), 0)
	fr := protocol.NewFrameReader(bytes.NewReader(e.sink.take()))
	rech := 0
	for {
		f, err := fr.Read()
		if err != nil {
			break
		}
		if len(f.Payload) > rech {
			rech = len(f.Payload)
		}
	}
	if werr != nil && rech == 0 {
		// the very first slice was refused by Frame.Encode: the slice size is above the frame limit (how far
		// above makes no difference to any frame that can be written); record the probe size.
		fmt.Fprintf(w, "/-- Agent.WriteStreamData: the first slice of a 300000-byte blob was refused by Frame.Encode (slice size > MaxPayloadSize) -/\ndef rechunk : Nat := 300000\n")
	} else {
		if werr != nil {
			panic("WriteStreamData: " + werr.Error())
		}
		fmt.Fprintf(w, "/-- largest frame payload Agent.WriteStreamData makes of one 300000-byte blob -/\ndef rechunk : Nat := %d\n", rech)
	}
	for _, p := range []string{"tcp", "exit", "fwd", "shout", "sherr", "shpty", "shin", "fup", "fdown"} {
		mb, mpl := probe(p)
		if (p == "shin" || p == "tcp") && mpl == 0 {
			// one-frame-per-message paths: the 300000-byte probe write produced no frame at all, i.e. it was not cut
			// into frame-sized messages (the first message was refused by Frame.Encode). Any bound above the frame
			// size behaves the same; record the probe size.
			fmt.Fprintf(w, "/-- path %s: a 300000-byte write was NOT cut into messages that fit a frame (first message refused) -/\ndef %sBuf : Nat := 300000\n", p, p)
			continue
		}
		hdr := 0
		if c07IsShell(p) {
			hdr = 1
		}
		if mb != 0 && mb != mpl-hdr {
			panic(fmt.Sprintf("path %s: read buffer %d but largest message %d", p, mb, mpl-hdr))
		}
		fmt.Fprintf(w, "/-- path %s: stream bytes per sealed message when the source never runs dry (read-buffer size%s) -/\ndef %sBuf : Nat := %d\n",
			p, map[bool]string{true: " as offered to Read", false: ", from the largest message"}[mb != 0], p, mpl-hdr)
	}
	fmt.Fprintf(w, "end MM.Gen.C07\n")
}

func init() {
	register("c07", &Engine{Run: c07Run, Gen: c07Gen, Facts: c07Facts})
}
