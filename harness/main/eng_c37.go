//go:build verif && (all || c37)

package main

import (
	"bufio"
	"fmt"
	"os"
	"strconv"
	"strings"

	"github.com/postalsys/muti-metroo/internal/config"
)

// Engine c37: internal/config.expandEnvVars on the real process environment.
//
//	exp <text> [<key>=<value>]...   environment := exactly these bindings; -> ok <expanded text>
//	reset [<key>=<value>]...        environment := exactly these bindings; -> ok          (starts a case)
//	set <key>=<value>               os.Setenv                              -> ok
//	unset <key>                     os.Unsetenv                            -> ok
//	x <text>                        expand under the environment left by the earlier ops -> ok <expanded text>
//
// All fields hex.  The process environment is cleared by exp/reset, so nothing of the harness's own
// environment is visible.
func init() {
	setAll := func(kvs []string) {
		os.Clearenv()
		for _, kv := range kvs {
			p := strings.SplitN(kv, "=", 2)
			if len(p) != 2 {
				panic("c37: bad binding " + kv)
			}
			must(os.Setenv(string(unhexTok(p[0])), string(unhexTok(p[1]))))
		}
	}
	register("c37", &Engine{
		Run: func(line string) string {
			f := fields(line)
			switch {
			case f[0] == "exp" && len(f) >= 2:
				setAll(f[2:])
				return "ok " + hexTok([]byte(config.C37ExpandEnvVars(string(unhexTok(f[1])))))
			case f[0] == "reset":
				setAll(f[1:])
				return "ok"
			case f[0] == "set" && len(f) == 2:
				p := strings.SplitN(f[1], "=", 2)
				must(os.Setenv(string(unhexTok(p[0])), string(unhexTok(p[1]))))
				return "ok"
			case f[0] == "unset" && len(f) == 2:
				must(os.Unsetenv(string(unhexTok(f[1]))))
				return "ok"
			case f[0] == "x" && len(f) == 2:
				return "ok " + hexTok([]byte(config.C37ExpandEnvVars(string(unhexTok(f[1])))))
			}
			return "bad-op"
		},
		Gen: func(w *bufio.Writer, seed int64, tier string) {
			r := newRngMixed(seed)
			n := 600
			c37BigPerMille = 2
			if tier == "thorough" {
				n = 6000
				c37BigPerMille = 5
			}
			okKey := func(k string) bool { return k != "" && !strings.ContainsAny(k, "=\x00") }
			for i := 0; i < n; i++ {
				// one case: an initial environment, then expansions interleaved with changes to it
				var texts []string
				for j, m := 0, 1+r.intn(4); j < m; j++ {
					texts = append(texts, c37Text(r, c37Size(r)))
				}
				var cands []string // names occurring in the texts, plus the pool
				for _, text := range texts {
					if len(text) > 4000 {
						text = text[:4000]
					}
					for _, part := range strings.Split(text, "$") {
						p := strings.TrimPrefix(part, "{")
						for _, cut := range []string{"}", ":-", ":", "-", " "} {
							if j := strings.Index(p, cut); j > 0 && r.chance(50) {
								p = p[:j]
							}
						}
						cands = append(cands, p)
					}
				}
				cands = append(cands, c37Names...)
				if r.chance(5) { // long names around typical buffer sizes
					ln := strings.Repeat("N", r.pick(255, 256, 257, 4095, 4096, 4097))
					cands = append(cands, ln)
					texts = append(texts, "a${"+ln+"}b$"+ln+" ${"+ln+":-d}")
				}
				fmt.Fprint(w, "reset")
				seen := map[string]bool{}
				for _, k := range cands {
					if !okKey(k) || seen[k] || !r.chance(45) {
						continue
					}
					seen[k] = true
					fmt.Fprintf(w, " %s=%s", hexTok([]byte(k)), hexTok([]byte(c37Value(r))))
				}
				fmt.Fprintln(w)
				for _, text := range texts {
					for c := r.intn(3); c > 0; c-- { // change the environment between expansions
						k := cands[r.intn(len(cands))]
						if !okKey(k) {
							continue
						}
						if r.chance(35) {
							fmt.Fprintf(w, "unset %s\n", hexTok([]byte(k)))
						} else {
							fmt.Fprintf(w, "set %s=%s\n", hexTok([]byte(k)), hexTok([]byte(c37Value(r))))
						}
					}
					if r.chance(15) { // self-contained form (replaces the environment)
						fmt.Fprintf(w, "exp %s", hexTok([]byte(text)))
						for _, k := range cands {
							if okKey(k) && r.chance(20) && !strings.Contains(k, " ") {
								fmt.Fprintf(w, " %s=%s", hexTok([]byte(k)), hexTok([]byte(c37Value(r))))
							}
						}
						fmt.Fprintln(w)
					} else {
						fmt.Fprintf(w, "x %s\n", hexTok([]byte(text)))
					}
				}
			}
		},
		Facts: func(w *bufio.Writer) {
			fmt.Fprintf(w, "-- GENERATED from /repo internal/config (envVarRegex.String()) by `harness c37 facts`. Do not edit.\n")
			fmt.Fprintf(w, "namespace MM.Gen.C37\n")
			fmt.Fprintf(w, "/-- source text of the compiled pattern -/\ndef pattern : String := %s\n", strconv.Quote(config.C37EnvVarPattern()))
			fmt.Fprintf(w, "end MM.Gen.C37\n")
		},
	})
}

// c37Size: number of pieces of a text — mostly small, with a thin stream of large ones (texts of
// tens of kilobytes with thousands of references).
func c37Size(r *rng) int {
	switch x := r.intn(1000); {
	case x < 1000-12*c37BigPerMille:
		return 1 + r.intn(10)
	case x < 1000-3*c37BigPerMille:
		return 100 + r.intn(600)
	case x < 1000-c37BigPerMille/2:
		return 2000 + r.intn(3000)
	default:
		return 20000
	}
}

// c37BigPerMille: how often (per mille) an environment value / a text is a large one; set per tier.
var c37BigPerMille = 2

var c37Names = []string{"V", "W", "V1", "VAR", "X", "A", "b", "_", "_a9", "V:-d", "V W", "\xc3\xa9", "V:", "{V"}

var c37Pieces = []string{
	"$", "{", "}", ":", "-", "_", ":-", "${", "$$", "${}", "$}", "$:", "$-", "$1", "$_",
	"A", "b", "V", "W", "V1", "VAR", "X", "9", "0", " ", "\n", "\t", "=", "\"", "'", "#",
	"\xc3\xa9", "\xff", "\x80", "\xe2\x82", "\x00",
	"${V}", "${W}", "$V", "$W", "$VAR", "$V1", "$_a9", "${V1}", "${ V }", "${V W}",
	"${V:-d}", "${W:-}", "${:-d}", "${V:-${W}}", "${V:-a:-b}", "${V-d}", "${V:d}", "${V:-d", "${V:-$W}",
	"${\xc3\xa9}", "${\xff}", "$\xc3\xa9", "${V\n}", "${{V}", "${V}}", "$${V}", "$V$W", "$V-$W", "$V:-d", "${V:-d:-e}",
	"key: ", "value", "path/to", "http://h:1", "0.0.0.0:4433",
}

func c37Text(r *rng, n int) string {
	var sb strings.Builder
	for i := 0; i < n; i++ {
		if r.chance(4) {
			sb.Write(r.bytes(1 + r.intn(3)))
			continue
		}
		sb.WriteString(c37Pieces[r.intn(len(c37Pieces))])
	}
	return sb.String()
}

// c37Value: environment values, many of which look like references themselves.
func c37Value(r *rng) string {
	if r.intn(1000) < c37BigPerMille { // large values around typical buffer sizes, themselves full of references
		return strings.Repeat("${V}$W-", r.pick(255, 256, 257, 4095, 4096, 4097, 65535, 65536, 65537)/7+1)
	}
	switch r.intn(8) {
	case 0:
		return ""
	case 1:
		return "val"
	case 2:
		return r.pickS("$V", "$W", "${V}", "${W}", "${V:-x}", "${W:-$V}", "$", "}", "${", "$$V")
	default:
		return strings.ReplaceAll(c37Text(r, 1+r.intn(4)), "\x00", "0")
	}
}
