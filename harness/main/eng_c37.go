//go:build verif && (all || c37)

package main

import (
	"bufio"
	"fmt"
	"os"
	"strings"

	"github.com/postalsys/muti-metroo/internal/config"
)

// Engine c37: internal/config.expandEnvVars on the real process environment.
//
//	exp <text> [<key>=<value>]...   (hex)  -> ok <expanded>
//
// The process environment is cleared before every op and then holds exactly the listed bindings.
func init() {
	register("c37", &Engine{
		Run: func(line string) string {
			f := fields(line)
			if len(f) < 2 || f[0] != "exp" {
				return "bad-op"
			}
			os.Clearenv()
			for _, kv := range f[2:] {
				p := strings.SplitN(kv, "=", 2)
				if len(p) != 2 {
					return "bad-op"
				}
				must(os.Setenv(string(unhexTok(p[0])), string(unhexTok(p[1]))))
			}
			return "ok " + hexTok([]byte(config.C37ExpandEnvVars(string(unhexTok(f[1])))))
		},
		Gen: func(w *bufio.Writer, seed int64, tier string) {
			r := newRng(seed)
			n := 2500
			if tier == "thorough" {
				n = 120000
			}
			for i := 0; i < n; i++ {
				text := c37Text(r, 1+r.intn(10))
				fmt.Fprintf(w, "exp %s", hexTok([]byte(text)))
				seen := map[string]bool{}
				// names that occur in the text (between "${" and "}" / after "$"), plus the pool
				var cands []string
				for _, part := range strings.Split(text, "$") {
					p := strings.TrimPrefix(part, "{")
					for _, cut := range []string{"}", ":-", ":", "-", " "} {
						if j := strings.Index(p, cut); j > 0 && r.chance(50) {
							p = p[:j]
						}
					}
					cands = append(cands, p)
				}
				cands = append(cands, c37Names...)
				for _, k := range cands {
					if k == "" || strings.ContainsAny(k, "=\x00") || seen[k] || !r.chance(45) {
						continue
					}
					seen[k] = true
					fmt.Fprintf(w, " %s=%s", hexTok([]byte(k)), hexTok([]byte(c37Value(r))))
				}
				fmt.Fprintln(w)
			}
		},
	})
}

var c37Names = []string{"V", "W", "V1", "VAR", "X", "A", "b", "_", "_a9", "V:-d", "V W", "\xc3\xa9", "V:", "{V"}

var c37Pieces = []string{
	"$", "{", "}", ":", "-", "_", ":-", "${", "$$", "${}", "$}", "$:", "$-", "$1", "$_",
	"A", "b", "V", "W", "V1", "VAR", "X", "9", "0", " ", "\n", "\t", "=", "\"", "'", "#",
	"\xc3\xa9", "\xff", "\x80", "\xe2\x82", "\x00",
	"${V}", "${W}", "$V", "$W", "$VAR", "$V1", "$_a9", "${V1}", "${ V }", "${V W}",
	"${V:-d}", "${W:-}", "${:-d}", "${V:-${W}}", "${V:-a:-b}", "${V-d}", "${V:d}", "${V:-d", "${V:-$W}",
	"${\xc3\xa9}", "${\xff}", "$\xc3\xa9", "${V\n}", "${{V}", "${V}}", "$${V}", "$V$W", "$V-$W", "$V:-d", "${V:-d:-e}",
	"key: ", "value", "path/to", "http://h:1", "0.0.0.0:4433",
}

func c37Text(r *rng, n int) string {
	var sb strings.Builder
	for i := 0; i < n; i++ {
		if r.chance(4) {
			sb.Write(r.bytes(1 + r.intn(3)))
			continue
		}
		sb.WriteString(c37Pieces[r.intn(len(c37Pieces))])
	}
	return sb.String()
}

// c37Value: environment values, many of which look like references themselves.
func c37Value(r *rng) string {
	switch r.intn(8) {
	case 0:
		return ""
	case 1:
		return "val"
	case 2:
		return r.pickS("$V", "$W", "${V}", "${W}", "${V:-x}", "${W:-$V}", "$", "}", "${", "$$V")
	default:
		return strings.ReplaceAll(c37Text(r, 1+r.intn(4)), "\x00", "0")
	}
}
