//go:build verif && (all || c39)

package main

import (
	"bufio"
	"context"
	"fmt"
	"net"
	"os"
	"path/filepath"
	"sync"
	"time"

	"github.com/postalsys/muti-metroo/internal/agent"
	"github.com/postalsys/muti-metroo/internal/config"
	"github.com/postalsys/muti-metroo/internal/protocol"
	"github.com/postalsys/muti-metroo/internal/transport"
)

// Engine c39m: system-level run of the control channel. Five REAL agents (agent.New from generated
// configs, loopback QUIC listeners, Start()): requesters 1 and 2, targets 4 and 5 all dial transit 3;
// agent routes are learned by flooding (advertise interval 500 ms).
//
//	mesh one T   agent 1 asks agent T for its status, alone       -> r1=<agent that answered | timeout>
//	mesh two     agents 1 and 2 ask 4 resp. 5 at the same moment  -> r1=… r2=…
type c39Mesh struct {
	agents map[int]*agent.Agent
}

func c39FreeUDP() string {
	c, err := net.ListenUDP("udp", &net.UDPAddr{IP: net.IPv4(127, 0, 0, 1)})
	must(err)
	defer c.Close()
	return c.LocalAddr().String()
}

func c39NewMesh() *c39Mesh {
	m := &c39Mesh{agents: map[int]*agent.Agent{}}
	base, err := os.MkdirTemp("", "verif-c39m-")
	must(err)
	hub := c39FreeUDP()
	for _, n := range []int{3, 1, 2, 4, 5} {
		dir := filepath.Join(base, fmt.Sprint(n))
		must(os.MkdirAll(dir, 0o700))
		cfg := config.Default()
		cfg.Agent.ID = c16ID(n).String()
		cfg.Agent.DataDir = dir
		cfg.Agent.LogLevel = "error"
		cfg.Routing.AdvertiseInterval = 500 * time.Millisecond
		if n == 3 {
			certPEM, keyPEM, err := transport.GenerateSelfSignedCert("verif-hub", 24*time.Hour)
			must(err)
			must(os.WriteFile(filepath.Join(dir, "cert.pem"), certPEM, 0o600))
			must(os.WriteFile(filepath.Join(dir, "key.pem"), keyPEM, 0o600))
			cfg.Listeners = []config.ListenerConfig{{Transport: "quic", Address: hub,
				TLS: config.TLSConfig{Cert: filepath.Join(dir, "cert.pem"), Key: filepath.Join(dir, "key.pem")}}}
		} else {
			cfg.Peers = []config.PeerConfig{{ID: "auto", Transport: "quic", Address: hub}}
		}
		a, err := agent.New(cfg)
		must(err)
		must(a.Start())
		m.agents[n] = a
	}
	// wait until both requesters can reach both targets (route flooding)
	deadline := time.Now().Add(20 * time.Second)
	for _, r := range []int{1, 2} {
		for _, t := range []int{4, 5} {
			for {
				ctx, cancel := context.WithTimeout(context.Background(), time.Second)
				resp, err := m.agents[r].SendControlRequest(ctx, c16ID(t), protocol.ControlTypeStatus)
				cancel()
				if err == nil && resp.Success && c39Tag(resp.Data) == fmt.Sprint(t) {
					break
				}
				if time.Now().After(deadline) {
					panic(fmt.Sprintf("mesh did not converge: %d cannot reach %d: %v", r, t, err))
				}
				time.Sleep(100 * time.Millisecond)
			}
		}
	}
	// bring the two requesters' request id counters level (every agent numbers its requests 1,2,3,…;
	// a freshly started pair of agents is level by construction)
	for agent.C39NextID(m.agents[1]) != agent.C39NextID(m.agents[2]) {
		lag := 1
		if agent.C39NextID(m.agents[2]) < agent.C39NextID(m.agents[1]) {
			lag = 2
		}
		m.ask(lag, 4, 3*time.Second)
	}
	return m
}

func (m *c39Mesh) ask(from, target int, timeout time.Duration) string {
	ctx, cancel := context.WithTimeout(context.Background(), timeout)
	defer cancel()
	resp, err := m.agents[from].SendControlRequest(ctx, c16ID(target), protocol.ControlTypeStatus)
	if err != nil {
		return "timeout"
	}
	return c39Tag(resp.Data)
}

func init() {
	var m *c39Mesh
	register("c39m", &Engine{
		Run: func(line string) string {
			f := fields(line)
			if f[0] == "reset" {
				return "ok"
			}
			if m == nil {
				m = c39NewMesh()
			}
			switch {
			case f[0] == "mesh" && f[1] == "one":
				r1 := m.ask(1, c16Atoi39(f[2]), 3*time.Second)
				// keep the two requesters' id counters in step (agent 2 asks too, afterwards, alone)
				m.ask(2, c16Atoi39(f[2]), 3*time.Second)
				return "r1=" + r1
			case f[0] == "mesh" && f[1] == "two":
				var wg sync.WaitGroup
				var r1, r2 string
				start := make(chan struct{})
				wg.Add(2)
				go func() { defer wg.Done(); <-start; r1 = m.ask(1, 4, 1500*time.Millisecond) }()
				go func() { defer wg.Done(); <-start; r2 = m.ask(2, 5, 1500*time.Millisecond) }()
				close(start)
				wg.Wait()
				time.Sleep(50 * time.Millisecond) // let a late answer of this round drain
				return "r1=" + r1 + " r2=" + r2
			}
			return "bad-op"
		},
		Gen: func(w *bufio.Writer, seed int64, tier string) {
			n := 2
			if tier == "thorough" {
				n = 8
			}
			fmt.Fprintf(w, "reset\n")
			for i := 0; i < n; i++ {
				fmt.Fprintf(w, "mesh one 4\nmesh one 5\nmesh two\n")
			}
		},
	})
}
