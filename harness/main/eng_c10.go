//go:build verif && (all || c10)

package main

import (
	"bufio"
	"bytes"
	"fmt"
	"net"
	"strings"
	"time"

	"github.com/postalsys/muti-metroo/internal/identity"
	"github.com/postalsys/muti-metroo/internal/routing"
)

// Engine c10: all four route tables plus routing.Manager (see lean/MM/Engine/C10.lean).
// The CIDR table of the `c…` ops is a stand-alone routing.Table; the `m…` ops drive a real
// routing.Manager; the `d…`/`f…`/`a…` ops act on that Manager's domain/forward/agent tables.

func init() {
	register("c10", &Engine{Gen: c10Gen, Run: c10Run})
}

type c10State struct {
	tab *routing.Table
	mgr *routing.Manager
	oth *c09Tables
}

var c10S *c10State

func c10New(self uint64) *c10State {
	id := c08ID(self)
	m := routing.NewManager(id)
	return &c10State{tab: routing.NewTable(id), mgr: m, oth: &c09Tables{m.DomainTable(), m.ForwardTable(), m.AgentTable(), m}}
}

var c10Hist []string
var c10Self uint64 = 1

func c10Run(line string) string {
	f := fields(line)
	if f[0] == "reset" {
		c10Self = c08U(f[1])
		c10S = c10New(c10Self)
		c10Hist = nil
		return c09CheckOracle(f[2:])
	}
	if c10S == nil {
		c10S = c10New(c10Self)
	}
	if f[0] == "crace" || f[0] == "race" {
		// crace: inner ops are CIDR-table ops without prefix
		raceLine := line
		if f[0] == "crace" {
			parts := strings.Split(line, " | ")
			for i := 1; i < len(parts); i++ {
				parts[i] = "c" + strings.TrimSpace(parts[i])
			}
			parts[0] = "race" + strings.TrimPrefix(strings.TrimSpace(parts[0]), "crace")
			raceLine = strings.Join(parts, " | ")
		}
		hist := c10Hist
		ops := c08RaceOps(raceLine)
		out := c08Race(raceLine, ops[0][0] == 'a', func() (func(string), func() string, func()) {
			s := c10New(c10Self)
			for _, h := range hist {
				c10Do(s, fields(h))
			}
			dump := func() string {
				if ops[0][0] == 'c' {
					return c08Dump(s.tab)
				}
				return c09DumpOf(s.oth, ops[0])
			}
			return func(op string) { c10Do(s, fields(op)) }, dump, func() { c10S = s }
		})
		c10Hist = append(c10Hist, ops...)
		return out
	}
	c10Hist = append(c10Hist, line)
	return c10Apply(c10S, f)
}

// c10Do executes an op without printing where a silent form exists.
func c10Do(s *c10State, f []string) {
	switch {
	case strings.HasPrefix(f[0], "m"):
		c10Apply(s, f)
	case strings.HasPrefix(f[0], "c"):
		c08Do(s.tab, append([]string{f[0][1:]}, f[1:]...))
	default:
		c09Do(s.oth, f)
	}
}

func c10Apply(s *c10State, f []string) string {
	m := s.mgr
	switch f[0] {
	case "mlocal":
		ok := m.AddLocalRoute(c08Net(f[1], f[2], f[3]), uint16(c08U(f[4])))
		return fmt.Sprintf("%v ; %s", ok, c08Dump(m.Table()))
	case "mrmlocal":
		ok := m.RemoveLocalRoute(c08Net(f[1], f[2], f[3]))
		return fmt.Sprintf("%v ; %s", ok, c08Dump(m.Table()))
	case "madv":
		acc := m.ProcessRouteAdvertise(c08ID(c08U(f[1])), c08ID(c08U(f[2])), c08U(f[3]),
			[]routing.RouteEntry{{Network: c08Net(f[5], f[6], f[7]), Metric: uint16(c08U(f[8]))}}, c08Path(f[4]), nil)
		return fmt.Sprintf("%v ; %s", len(acc) == 1, c08Dump(m.Table()))
	case "mwd":
		ok := m.ProcessRouteWithdraw(c08ID(c08U(f[1])), []routing.RouteEntry{{Network: c08Net(f[2], f[3], f[4])}})
		return fmt.Sprintf("%v ; %s", ok, c08Dump(m.Table()))
	case "mdyn":
		err := m.AddDynamicRoute(c08Net(f[1], f[2], f[3]), uint16(c08U(f[4])))
		return fmt.Sprintf("%s ; %s", c10Err(err), c08Dump(m.Table()))
	case "mrmdyn":
		err := m.RemoveDynamicRoute(c08Net(f[1], f[2], f[3]))
		return fmt.Sprintf("%s ; %s", c10Err(err), c08Dump(m.Table()))
	case "mdlocal":
		ok := m.AddLocalDomainRoute(c09Str(f[1]), uint16(c08U(f[2])))
		return fmt.Sprintf("%v ; %s", ok, c09DDump(m.DomainTable()))
	case "mdrmlocal":
		ok := m.RemoveLocalDomainRoute(c09Str(f[1]))
		return fmt.Sprintf("%v ; %s", ok, c09DDump(m.DomainTable()))
	case "mflocal":
		ok := m.AddLocalForwardRoute(c09Str(f[1]), c09Str(f[2]), uint16(c08U(f[3])))
		return fmt.Sprintf("%v ; %s", ok, c09FDump(m.ForwardTable()))
	case "mfrmlocal":
		ok := m.RemoveLocalForwardRoute(c09Str(f[1]))
		return fmt.Sprintf("%v ; %s", ok, c09FDump(m.ForwardTable()))
	case "mddisc":
		return fmt.Sprintf("%d ; %s", m.HandlePeerDisconnectDomain(c08ID(c08U(f[1]))), c09DDump(m.DomainTable()))
	case "mfdisc":
		return fmt.Sprintf("%d ; %s", m.HandlePeerDisconnectForward(c08ID(c08U(f[1]))), c09FDump(m.ForwardTable()))
	case "madisc":
		return fmt.Sprintf("%d ; %s", m.HandlePeerDisconnectAgent(c08ID(c08U(f[1]))), c09ADump(m.AgentTable()))
	case "mnext":
		if nh, ok := m.LookupNextHop(net.IP(unhexTok(f[1]))); ok {
			return fmt.Sprintf("next %d", c08Num(nh))
		}
		return "none"
	case "mdisc":
		return fmt.Sprintf("%d ; %s", m.HandlePeerDisconnect(c08ID(c08U(f[1]))), c08Dump(m.Table()))
	case "mclean":
		return fmt.Sprintf("%d ; %s", m.CleanupStaleRoutes(time.Duration(c08U(f[1]))*time.Hour+30*time.Minute), c08Dump(m.Table()))
	case "mage":
		routing.C08Age(m.Table(), time.Duration(c08U(f[1]))*time.Hour)
		return "ok ; " + c08Dump(m.Table())
	case "mlook":
		return c08Opt(m.Lookup(net.IP(unhexTok(f[1]))))
	case "mdadv":
		acc := m.ProcessDomainRouteAdvertise(c08ID(c08U(f[1])), c08ID(c08U(f[2])), c08U(f[3]),
			[]routing.DomainRouteEntry{{Pattern: c09Str(f[5]), Metric: uint16(c08U(f[6]))}}, c08Path(f[4]), nil)
		return fmt.Sprintf("%v ; %s", len(acc) == 1, c09DDump(m.DomainTable()))
	case "mfadv":
		acc := m.ProcessForwardRouteAdvertise(c08ID(c08U(f[1])), c08ID(c08U(f[2])), c08U(f[3]),
			[]routing.ForwardRouteEntry{{Key: c09Str(f[5]), Target: c09Str(f[6]), Metric: uint16(c08U(f[7]))}}, c08Path(f[4]), nil)
		return fmt.Sprintf("%v ; %s", len(acc) == 1, c09FDump(m.ForwardTable()))
	case "maadv":
		ok := m.ProcessAgentRouteAdvertise(c08ID(c08U(f[1])), c08ID(c08U(f[2])), c08U(f[3]), c08ID(c08U(f[5])), c08Path(f[4]), nil, uint16(c08U(f[6])))
		return fmt.Sprintf("%v ; %s", ok, c09ADump(m.AgentTable()))
	}
	if strings.HasPrefix(f[0], "c") {
		g := append([]string{f[0][1:]}, f[1:]...)
		return c08TableOp(s.tab, g)
	}
	return c09TablesOp(s.oth, f)
}

var _ = identity.AgentID{}

func c10Err(err error) string {
	if err != nil {
		return "err"
	}
	return "ok"
}

// c10Pre is the metric an advertisement must carry for the Manager (which adds 1 in uint16) to store
// the metric the original script meant - this keeps the metrics of the big-slice streams pairwise distinct.
func c10Pre(metric string) string {
	return fmt.Sprintf("%d", (c08U(metric)+65535)%65536)
}

// ---------------------------------------------------------------- generator

// c10Rewrite turns a c08 / c09 case into c10 ops: CIDR ops get the `c` prefix; a share of the adds
// goes through the Manager entry points instead.
func c10Rewrite(w *bufio.Writer, r *rng, script []byte, cidr bool) {
	for _, line := range strings.Split(string(script), "\n") {
		if line == "" {
			continue
		}
		f := strings.Fields(line)
		switch {
		case f[0] == "reset", f[0] == "mlook":
			fmt.Fprintln(w, line)
		case cidr && r.chance(35):
			// the same op through the Manager
			switch f[0] {
			case "add": // add ip ones bits nh or metric seq path
				if f[5] == "1" && r.chance(50) {
					fmt.Fprintf(w, "%s %s %s %s %s\n", r.pickS("mlocal", "mlocal", "mdyn"), f[1], f[2], f[3], f[6])
				} else {
					fmt.Fprintf(w, "madv %s %s %s %s %s %s %s %s\n", f[4], f[5], f[7], f[8], f[1], f[2], f[3], c10Pre(f[6]))
				}
			case "rm":
				if f[4] == "1" {
					fmt.Fprintf(w, "%s %s %s %s\n", r.pickS("mrmlocal", "mrmlocal", "mrmdyn"), f[1], f[2], f[3])
				} else {
					fmt.Fprintf(w, "mwd %s %s %s %s\n", f[4], f[1], f[2], f[3])
				}
			case "disc", "clean", "age", "look":
				fmt.Fprintf(w, "m%s\n", line)
			case "lookall", "has", "size", "clear", "get":
				fmt.Fprintf(w, "c%s\n", line)
			default:
				fmt.Fprintf(w, "c%s\n", line)
			}
		case cidr:
			fmt.Fprintf(w, "c%s\n", line)
		default:
			// dadv pattern nh or metric seq path  -> mdadv from origin seq path pattern metric
			switch {
			case f[0] == "dadv" && f[3] == "1" && r.chance(60): // a route of the local agent: through AddLocalDomainRoute
				fmt.Fprintf(w, "mdlocal %s %s\n", f[1], f[4])
			case f[0] == "drm" && f[2] == "1" && r.chance(60):
				fmt.Fprintf(w, "mdrmlocal %s\n", f[1])
			case f[0] == "fadd" && f[4] == "1" && r.chance(60):
				fmt.Fprintf(w, "mflocal %s %s %s\n", f[1], f[2], f[5])
			case f[0] == "frm" && f[2] == "1" && r.chance(60):
				fmt.Fprintf(w, "mfrmlocal %s\n", f[1])
			case f[0] == "dadv" && r.chance(40):
				fmt.Fprintf(w, "mdadv %s %s %s %s %s %s\n", f[2], f[3], f[5], f[6], f[1], c10Pre(f[4]))
			case f[0] == "fadd" && r.chance(40): // fadd key target nh or metric seq path
				fmt.Fprintf(w, "mfadv %s %s %s %s %s %s %s\n", f[3], f[4], f[6], f[7], f[1], f[2], c10Pre(f[5]))
			case f[0] == "aadd" && r.chance(40): // aadd agent nh or metric seq path
				fmt.Fprintf(w, "maadv %s %s %s %s %s %s\n", f[2], f[3], f[5], f[6], f[1], f[4])
			default:
				fmt.Fprintln(w, line)
			}
		}
	}
}

// c10GenLocals: the Manager's local-route entry points with their validation and their shared
// sequence counter: every accepted AddLocalRoute / AddDynamicRoute / AddLocalDomainRoute /
// AddLocalForwardRoute takes the next sequence number (visible in the dumps), a refused one takes
// none; removals only of what was added through the same door.
func c10GenLocals(w *bufio.Writer, r *rng) {
	hx := func(s string) string { return hexTok([]byte(s)) }
	fmt.Fprintln(w, "reset 1")
	pats := []string{"a.b", "*.a.b", "A.b", "*.A.B", " a.b", "a.b ", " *.a.b", "*.a.b\t", "*.", "*", "a", "*.a", "a..b", "*.a..b", ".a.b", "a.b.", "*..a.b",
		"a_b.c", "a b.c", "x-1.Example.COM", "*.x-1.example.com", "\xc3\xa4.com", "*.\xc3\xa4.com", "", "1.2", "*.*.a.b", "a.b.c.d.e.f"}
	nets := []string{"0a000000 8 32", "0a010203 8 32", "c0a80100 24 32", "20010db8000000000000000000000000 32 128", "00000000000000000000ffff0a000000 104 128", "0a000000 40 32"}
	keys := []string{"web", "Web", "", "k 1"}
	n := 40 + r.intn(30)
	for i := 0; i < n; i++ {
		switch r.intn(14) {
		case 0, 1, 2:
			fmt.Fprintf(w, "mdlocal %s %d\n", hx(pats[r.intn(len(pats))]), r.pick(0, 1, 5, 65535))
		case 3:
			fmt.Fprintf(w, "mdrmlocal %s\n", hx(pats[r.intn(len(pats))]))
		case 4, 5:
			fmt.Fprintf(w, "mflocal %s %s %d\n", hx(keys[r.intn(len(keys))]), hx(r.pickS("h:1", "", "h:2")), r.pick(0, 1, 5))
		case 6:
			fmt.Fprintf(w, "mfrmlocal %s\n", hx(keys[r.intn(len(keys))]))
		case 7, 8:
			fmt.Fprintf(w, "mlocal %s %d\n", nets[r.intn(len(nets))], r.pick(0, 1, 5))
		case 9:
			fmt.Fprintf(w, "mrmlocal %s\n", nets[r.intn(len(nets))])
		case 10:
			fmt.Fprintf(w, "mdyn %s %d\n", nets[r.intn(len(nets))], r.pick(0, 1, 5))
		case 11:
			fmt.Fprintf(w, "mrmdyn %s\n", nets[r.intn(len(nets))])
		case 12: // advertisements from peers interleave with the local counter
			fmt.Fprintf(w, "mdadv 2 3 %d 2.3 %s 4\n", 1+r.intn(3), hx(pats[r.intn(4)]))
			fmt.Fprintf(w, "madv 2 3 %d 2.3 %s 4\n", 1+r.intn(3), nets[r.intn(2)])
		default:
			fmt.Fprintf(w, "mdlook %s\nmflook %s\nmlook 0a090909\n", hx(r.pickS("x.a.b", "A.B", "a.b", "x.y.a.b")), hx(keys[r.intn(2)]))
		}
	}
}

// c10GenSpellings: c08GenSpellings on the Manager's own table: stored through
// ProcessRouteAdvertise / AddLocalRoute / AddDynamicRoute, removed through ProcessRouteWithdraw /
// RemoveLocalRoute / RemoveDynamicRoute / HandlePeerDisconnect / CleanupStaleRoutes in every
// spelling, looked up through Manager.Lookup / LookupNextHop right before and right after.
func c10GenSpellings(w *bufio.Writer) {
	type fam struct {
		spell               []string
		hit, miss, other, o string
	}
	fams := []fam{
		{c08Spell4, "0a140507", "0a150507", c08Spell6[0], "20010db8000500000000000000000009"},
		{c08Spell6, "20010db8000500000000000000000009", "20010db8000600000000000000000009", c08Spell4[0], "0a140507"},
	}
	for _, f := range fams {
		for _, store := range f.spell {
			for _, wd := range f.spell {
				for _, kind := range []string{"adv-wd", "adv-disc", "adv-clean", "local", "dyn"} {
					fmt.Fprintln(w, "reset 1")
					fmt.Fprintf(w, "madv 3 4 1 3.4 %s 7\n", f.other)
					switch kind {
					case "local":
						fmt.Fprintf(w, "mlocal %s 3\n", store)
					case "dyn":
						fmt.Fprintf(w, "mdyn %s 3\n", store)
					default:
						fmt.Fprintf(w, "madv 2 5 1 2.5 %s 3\n", store)
					}
					fmt.Fprintf(w, "mlook %s\nmlook %s\nmnext %s\nmlook %s\n", f.hit, f.miss, f.hit, f.o)
					switch kind {
					case "adv-wd":
						fmt.Fprintf(w, "mwd 5 %s\n", wd)
					case "adv-disc":
						fmt.Fprintln(w, "mdisc 2")
					case "adv-clean":
						fmt.Fprintf(w, "mage 3\nmadv 3 4 2 3.4 %s 7\nmclean 1\n", f.other)
					case "local":
						fmt.Fprintf(w, "mrmlocal %s\n", wd)
					default:
						fmt.Fprintf(w, "mrmdyn %s\n", wd)
					}
					fmt.Fprintf(w, "mlook %s\nmlook %s\nmnext %s\nmlook %s\nmlook %s\n", f.hit, f.hit, f.hit, f.miss, f.o)
					fmt.Fprintf(w, "madv 2 5 2 2.5 %s 3\nmlook %s\nmnext %s\n", wd, f.hit, f.hit)
				}
			}
		}
	}
}

// c10GenDisconnect: what Agent.handlePeerDisconnect does - HandlePeerDisconnect, ...Domain,
// ...Forward, ...Agent, in that order - on tables where every destination is reachable through two
// or three peers (same origin, different next hops in the agent table; different origins behind
// different peers elsewhere). Each peer in turn goes down: best path first, worst path first.
func c10GenDisconnect(w *bufio.Writer, r *rng) {
	hx := func(s string) string { return hexTok([]byte(s)) }
	for _, order := range [][]int{{4, 3, 2}, {2, 3, 4}, {3, 2, 4}, {3, 4, 2}} {
		fmt.Fprintln(w, "reset 1")
		for _, ag := range []int{7, 8} {
			for i, nh := range []int{2, 3, 4} {
				// agent `ag` announces itself (origin = ag); we hear it through three neighbours, metric grows with the peer number
				fmt.Fprintf(w, "maadv %d %d 1 %d.%d %d %d\n", nh, ag, nh, ag, ag, 1+2*i)
				fmt.Fprintf(w, "madv %d %d 1 %d.%d 0a140000 16 32 %d\n", nh, ag+10*i, nh, ag, 1+2*i)
				fmt.Fprintf(w, "mdadv %d %d 1 %d.%d %s %d\n", nh, ag+10*i, nh, ag, hx("*.Corp.example"), 1+2*i)
				fmt.Fprintf(w, "mfadv %d %d 1 %d.%d %s %s %d\n", nh, ag+10*i, nh, ag, hx("web"), hx("h:1"), 1+2*i)
			}
		}
		fmt.Fprintf(w, "mlocal 0a140000 16 32 9\nmdlocal %s 9\nmflocal %s %s 9\n", hx("*.corp.example"), hx("web"), hx("h:2"))
		looks := func() {
			fmt.Fprintf(w, "malook 7\nmalook 8\naroutes 7\nmlook 0a140101\nmnext 0a140101\nmdlook %s\nmflook %s\n", hx("x.corp.EXAMPLE"), hx("web"))
		}
		looks()
		for _, p := range order {
			fmt.Fprintf(w, "mdisc %d\nmddisc %d\nmfdisc %d\nmadisc %d\n", p, p, p, p)
			looks()
			if r.chance(30) { // the peer comes back with a newer sequence
				fmt.Fprintf(w, "maadv %d 7 2 %d.7 7 %d\n", p, p, r.intn(6))
				looks()
			}
		}
	}
}

func c10Gen(w *bufio.Writer, seed int64, tier string) {
	r := newRng(c08Mix(seed ^ 0x10))
	c10GenSpellings(w)
	c10GenDisconnect(w, r)
	locals := 4
	if tier == "thorough" {
		locals = 80
	}
	for c := 0; c < locals; c++ {
		c10GenLocals(w, r)
		// non-ASCII / ill-formed names through the same tables (and Manager.ProcessDomainRouteAdvertise)
		var buf bytes.Buffer
		bw := bufio.NewWriter(&buf)
		c09GenUnicode(bw, r, 30)
		bw.Flush()
		c10Rewrite(w, r, buf.Bytes(), false)
	}
	cases, nops := 150, 45
	if tier == "thorough" {
		cases, nops = 4000, 60
	}
	for c := 0; c < cases; c++ {
		var buf bytes.Buffer
		bw := bufio.NewWriter(&buf)
		cidr := c%2 == 0
		if cidr {
			c08GenCase(bw, r, nops, 5, 3+r.intn(5))
		} else {
			c09GenCase(bw, r, nops, 4)
		}
		bw.Flush()
		c10Rewrite(w, r, buf.Bytes(), cidr)
	}
	// concurrency cases (see c08GenRace / c09GenRace); `race` on the CIDR table becomes `crace`
	races := 12
	if tier == "thorough" || seed >= 1000 {
		races = 60
	}
	for c := 0; c < races; c++ {
		var buf bytes.Buffer
		bw := bufio.NewWriter(&buf)
		cidr := c%2 == 0
		if cidr && c%4 == 0 {
			c08GenRaceCleanup(bw, r, c/4)
		} else if cidr {
			c08GenRace(bw, r, c/2)
		} else {
			c09GenRace(bw, r, c/2)
		}
		bw.Flush()
		c10Rewrite(w, r, buf.Bytes(), cidr)
	}
	// long histories and big slices / tables, through the same rewriting
	extra := 4
	if tier == "thorough" {
		extra = 8
	}
	for c := 0; c < extra; c++ {
		for _, cidr := range []bool{true, false} {
			var buf bytes.Buffer
			bw := bufio.NewWriter(&buf)
			switch {
			case cidr && c%2 == 0:
				c08GenCase(bw, r, 500, 9, 4)
			case cidr && c%4 == 1:
				c08GenTies(bw, r, 14+r.intn(40))
			case cidr:
				c08GenBig(bw, r, 30+r.intn(c08TierPick(tier, 40, 200)))
			case c%2 == 0:
				c09GenCase(bw, r, 600, 8)
			case c%4 == 1:
				c09GenTies(bw, r, 14+r.intn(40))
			default:
				c09GenBig(bw, r, 30+r.intn(c08TierPick(tier, 40, 200)))
			}
			bw.Flush()
			c10Rewrite(w, r, buf.Bytes(), cidr)
		}
	}
}
