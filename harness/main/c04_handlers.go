//go:build verif && (all || c03 || c04)

package main

// Handler-level cases for C03/C04 ("hs" ops): the REAL exit-side handlers (exit = TCP streams,
// forward = port forwards, udp, shell) driven frame by frame with a capturing writer that plays
// the link towards the transit. The harness plays the ingress end of the key exchange, so it holds
// the tunnel's real key and can say of every payload the handler writes whether it authenticates
// under that key.
//
//	(kind `file`: a real Agent with file transfer enabled as the exit of a DOWNLOAD stream, its frames to the
//	 peer captured through a handshake-less peer connection; one transfer per stream)
//	hs new tcp|fwd|udp|shell|file <failk>     fresh handler; the writer fails its <failk>-th data write once
//	                                     (then recovers); 0 = no fault                  -> ok
//	hs open <stream> <req> fresh|same    (re)send an open for <stream>; `same` re-uses the ingress
//	                                     ephemeral key of the previous open on that stream
//	                                                                                     -> ack | refused | noack
//	hs ping <stream> <payload>           ingress seals the payload, the handler relays it to a local
//	                                     echo service and writes the echo back
//	                                     -> pong|nopong <leak> <unauth>
//	        leak   = payloads handed to the writer (failed attempts included) that contain the payload
//	        unauth = data payloads handed to the writer that do not authenticate under the ingress's key
//	hs close <stream>                                                                    -> ok
//	hs oversize <stream> <payload>       a datagram at / beyond the size the handler relays  -> sent <leak> <unauth>
//	(leak counts look at EVERYTHING handed to the writer for the stream: data payloads and the content of every
//	 control frame — open-ack/err messages, closes —, for the payload, its first 16 bytes, and their hex forms)
//	hs open … hibit                      as `fresh`, but the ingress public key goes out with bit 255 set (a
//	                                     non-canonical encoding X25519 accepts); the ingress salts with the bytes it sent
//	hs pingclose <stream> <payload> fail|stall <k>
//	                                     as ping, but the k-th data write from now fails once / is held; as soon as the
//	                                     handler has reached it the stream is CLOSED by the peer (close frame), then the
//	                                     writer recovers / is released; everything written until the handler is quiet is
//	                                     examined                                        -> closed <leak> <unauth> <zk>
//	        zk = payloads that open under the all-zero key
//	(kinds `file` = download, `fileup` = upload: a real Agent as the exit end, frames captured through a peer connection)

import (
	"bytes"
	"context"
	"os"
	"path/filepath"
	"encoding/hex"
	"fmt"
	"io"
	"log/slog"
	"net"
	"strconv"
	"sync"
	"time"

	"golang.org/x/crypto/chacha20poly1305"

	"github.com/postalsys/muti-metroo/internal/agent"
	"github.com/postalsys/muti-metroo/internal/config"
	"github.com/postalsys/muti-metroo/internal/crypto"
	"github.com/postalsys/muti-metroo/internal/exit"
	"github.com/postalsys/muti-metroo/internal/filetransfer"
	"github.com/postalsys/muti-metroo/internal/forward"
	"github.com/postalsys/muti-metroo/internal/icmp"
	"github.com/postalsys/muti-metroo/internal/identity"
	"github.com/postalsys/muti-metroo/internal/peer"
	"github.com/postalsys/muti-metroo/internal/protocol"
	"github.com/postalsys/muti-metroo/internal/shell"
	"github.com/postalsys/muti-metroo/internal/udp"
)

type c04hAck struct {
	stream uint64
	req    uint64
	pub    [32]byte
	ok     bool
}

// c04hWriter implements exit.StreamWriter, forward.StreamWriter, shell.DataWriter and udp.DataWriter.
type c04hWriter struct {
	mu      sync.Mutex
	failK   int // fail the failK-th data write once
	nData   int
	data    map[uint64][][]byte // per stream: every payload handed to a data write (failed attempts too)
	acks    []c04hAck
	ctrl    map[uint64][][]byte // per stream: the content of every NON-data frame handed to the writer (open-ack/err, close, ...)
	changed chan struct{}
	// one-shot trap on a stream's data writes (pingclose)
	armStream uint64
	armLeft   int    // 0 = not armed
	armMode   string // fail | stall
	reached   chan struct{}
	release   chan struct{}
}

func (w *c04hWriter) note() {
	select {
	case w.changed <- struct{}{}:
	default:
	}
}

func (w *c04hWriter) dataWrite(streamID uint64, p []byte) error {
	w.mu.Lock()
	w.nData++
	w.data[streamID] = append(w.data[streamID], append([]byte{}, p...))
	w.note()
	if w.failK > 0 && w.nData == w.failK {
		w.mu.Unlock()
		return fmt.Errorf("verif: transient write failure")
	}
	if w.armLeft > 0 && streamID == w.armStream {
		w.armLeft--
		if w.armLeft == 0 {
			mode, reached, release := w.armMode, w.reached, w.release
			w.mu.Unlock()
			close(reached)
			if mode == "fail" {
				return fmt.Errorf("verif: transient write failure")
			}
			<-release
			return nil
		}
	}
	w.mu.Unlock()
	return nil
}

func (w *c04hWriter) WriteStreamData(peerID identity.AgentID, streamID uint64, data []byte, flags uint8) error {
	return w.dataWrite(streamID, data)
}
func (w *c04hWriter) WriteStreamOpenAck(peerID identity.AgentID, streamID uint64, requestID uint64, boundIP net.IP, boundPort uint16, pub [crypto.KeySize]byte) error {
	w.mu.Lock()
	w.acks = append(w.acks, c04hAck{streamID, requestID, pub, true})
	w.note()
	w.mu.Unlock()
	return nil
}
// control records everything a non-data frame carries (unsealed, readable at every transit).
func (w *c04hWriter) control(streamID uint64, parts ...[]byte) {
	if w.ctrl == nil {
		w.ctrl = map[uint64][][]byte{}
	}
	for _, p := range parts {
		w.ctrl[streamID] = append(w.ctrl[streamID], append([]byte{}, p...))
	}
}

func (w *c04hWriter) WriteStreamOpenErr(peerID identity.AgentID, streamID uint64, requestID uint64, errorCode uint16, message string) error {
	w.mu.Lock()
	w.control(streamID, []byte(message))
	w.acks = append(w.acks, c04hAck{stream: streamID, req: requestID})
	w.note()
	w.mu.Unlock()
	return nil
}
func (w *c04hWriter) WriteStreamClose(peerID identity.AgentID, streamID uint64) error { return nil }
func (w *c04hWriter) WriteUDPDatagram(peerID identity.AgentID, streamID uint64, d *protocol.UDPDatagram) error {
	return w.dataWrite(streamID, d.Data)
}
func (w *c04hWriter) WriteUDPClose(peerID identity.AgentID, streamID uint64, reason uint8) error {
	return nil
}
func (w *c04hWriter) WriteUDPOpenAck(peerID identity.AgentID, streamID uint64, ack *protocol.UDPOpenAck) error {
	w.mu.Lock()
	w.control(streamID, ack.Encode())
	w.acks = append(w.acks, c04hAck{streamID, ack.RequestID, ack.EphemeralPubKey, true})
	w.note()
	w.mu.Unlock()
	return nil
}
func (w *c04hWriter) WriteUDPOpenErr(peerID identity.AgentID, streamID uint64, e *protocol.UDPOpenErr) error {
	w.mu.Lock()
	w.control(streamID, []byte(e.Message), e.Encode())
	w.acks = append(w.acks, c04hAck{stream: streamID, req: e.RequestID})
	w.note()
	w.mu.Unlock()
	return nil
}

// c04hFrameSink is the io.Writer behind the capturing peer connection of the `file` kind: every Write is
// one wire-encoded frame; it is decoded and routed into the capturing writer (a failing data write makes
// the agent's Connection.WriteFrame fail).
type c04hFrameSink struct {
	w    *c04hWriter
	peer identity.AgentID
}

func (k *c04hFrameSink) Write(p []byte) (int, error) {
	f, err := protocol.NewFrameReader(bytes.NewReader(p)).Read()
	if err != nil {
		return len(p), nil
	}
	if f.Type != protocol.FrameStreamData {
		k.w.mu.Lock()
		k.w.control(f.StreamID, f.Payload)
		k.w.mu.Unlock()
	}
	switch f.Type {
	case protocol.FrameStreamData:
		if err := k.w.dataWrite(f.StreamID, f.Payload); err != nil {
			return 0, err
		}
	case protocol.FrameStreamOpenAck:
		if a, err := protocol.DecodeStreamOpenAck(f.Payload); err == nil {
			k.w.WriteStreamOpenAck(k.peer, f.StreamID, a.RequestID, nil, 0, a.EphemeralPubKey)
		}
	case protocol.FrameStreamOpenErr:
		if e, err := protocol.DecodeStreamOpenErr(f.Payload); err == nil {
			k.w.WriteStreamOpenErr(k.peer, f.StreamID, e.RequestID, e.ErrorCode, e.Message)
		}
	}
	return len(p), nil
}

type c04hIngress struct {
	priv, pub [32]byte
	req       uint64
	key       *crypto.SessionKey // ingress end, from the LAST ack on this stream
	raw       [32]byte
	held      [][32]byte // every key this stream's ingress end has held (earlier handshakes included)
	closed    bool
	shellMeta bool
}

type c04hState struct {
	kind    string
	w       *c04hWriter
	peer    identity.AgentID
	exitH   *exit.Handler
	fwdH    *forward.Handler
	udpH    *udp.Handler
	shellH  *shell.Handler
	fileA   *agent.Agent
	fileDir string
	tcpEcho net.Listener
	udpEcho net.PacketConn
	ing     map[uint64]*c04hIngress
	connMu  sync.Mutex
	conns   []net.Conn
	sawDead bool // a ping of this case already ran into the long deadline: later ones use a short one
	seen    map[uint64]bool
	reused  map[uint64]bool // tcp/fwd stream ids opened more than once: liveness is a race in the code (model: anyof)
}

var c04hCur *c04hState

func (s *c04hState) stop() {
	if s == nil {
		return
	}
	if s.tcpEcho != nil {
		s.tcpEcho.Close()
	}
	if s.udpEcho != nil {
		s.udpEcho.Close()
	}
	if s.fileDir != "" {
		os.RemoveAll(s.fileDir)
	}
	s.connMu.Lock()
	for _, c := range s.conns {
		c.Close()
	}
	s.connMu.Unlock()
	// the handlers' Stop waits for their loops; do not hold the op stream up for that
	go func() {
		if s.exitH != nil {
			s.exitH.Stop()
		}
		if s.fwdH != nil {
			s.fwdH.Stop()
		}
		if s.udpH != nil {
			s.udpH.Close()
		}
		if s.shellH != nil {
			s.shellH.Close()
		}
	}()
}

func c04hNew(kind string, failK int) (*c04hState, error) {
	s := &c04hState{kind: kind, ing: map[uint64]*c04hIngress{}}
	s.w = &c04hWriter{failK: failK, data: map[uint64][][]byte{}, changed: make(chan struct{}, 1)}
	s.peer, _ = identity.NewAgentID()
	local, _ := identity.NewAgentID()
	quiet := slog.New(slog.NewTextHandler(io.Discard, nil))
	var err error
	switch kind {
	case "tcp", "fwd":
		if s.tcpEcho, err = net.Listen("tcp", "127.0.0.1:0"); err != nil {
			return nil, err
		}
		go func(l net.Listener) {
			for {
				c, err := l.Accept()
				if err != nil {
					return
				}
				s.connMu.Lock()
				s.conns = append(s.conns, c)
				s.connMu.Unlock()
				go func() { defer c.Close(); io.Copy(c, c) }()
			}
		}(s.tcpEcho)
		if kind == "tcp" {
			_, all, _ := net.ParseCIDR("0.0.0.0/0")
			s.exitH = exit.NewHandler(exit.HandlerConfig{AllowedRoutes: []*net.IPNet{all}, ConnectTimeout: 3 * time.Second, IdleTimeout: time.Minute, MaxConnections: 100, Logger: quiet}, local, s.w)
			s.exitH.Start()
		} else {
			s.fwdH = forward.NewHandler(forward.HandlerConfig{Endpoints: []forward.Endpoint{{Key: "k", Target: s.tcpEcho.Addr().String()}}, ConnectTimeout: 3 * time.Second, IdleTimeout: time.Minute, MaxConnections: 100, Logger: quiet}, local, s.w)
			s.fwdH.Start()
		}
	case "udp":
		if s.udpEcho, err = net.ListenPacket("udp", "127.0.0.1:0"); err != nil {
			return nil, err
		}
		go func(pc net.PacketConn) {
			buf := make([]byte, 65535)
			for {
				n, src, err := pc.ReadFrom(buf)
				if err != nil {
					return
				}
				pc.WriteTo(buf[:n], src)
			}
		}(s.udpEcho)
		cfg := udp.DefaultConfig()
		cfg.Enabled = true
		s.udpH = udp.NewHandler(cfg, s.w, quiet)
	case "shell":
		cfg := shell.DefaultConfig()
		cfg.Enabled = true
		cfg.Whitelist = []string{"*"}
		s.shellH = shell.NewHandler(shell.NewExecutor(cfg), s.w, quiet)
	case "file", "fileup":
		dir, err := os.MkdirTemp("", "verif-c04h-")
		if err != nil {
			return nil, err
		}
		s.fileDir = dir
		cfg := config.Default()
		cfg.Agent.DataDir = filepath.Join(dir, "data")
		cfg.Agent.LogLevel = "error"
		cfg.FileTransfer.Enabled = true
		cfg.FileTransfer.AllowedPaths = []string{"*"}
		if s.fileA, err = agent.New(cfg); err != nil {
			return nil, err
		}
		peer.VerifC04CapturePeer(agent.VerifC04PeerMgr(s.fileA), s.fileA.ID(), s.peer, &c04hFrameSink{w: s.w, peer: s.peer})
	default:
		return nil, fmt.Errorf("unknown kind")
	}
	return s, nil
}

// wait until cond holds or the deadline passes
func (s *c04hState) waitFor(d time.Duration, cond func() bool) bool {
	deadline := time.After(d)
	for {
		s.w.mu.Lock()
		ok := cond()
		s.w.mu.Unlock()
		if ok {
			return true
		}
		select {
		case <-s.w.changed:
		case <-time.After(20 * time.Millisecond):
		case <-deadline:
			s.w.mu.Lock()
			ok := cond()
			s.w.mu.Unlock()
			return ok
		}
	}
}

func (s *c04hState) open(stream, req uint64, mode string) string {
	if s.seen == nil {
		s.seen, s.reused = map[uint64]bool{}, map[uint64]bool{}
	}
	if s.seen[stream] && (s.kind == "tcp" || s.kind == "fwd") {
		s.reused[stream] = true
	}
	s.seen[stream] = true
	in := s.ing[stream]
	if s.kind == "shell" && in != nil && in.shellMeta && !in.closed {
		// the command of the previous handshake has been run: wait (event: handler's stream count) until that
		// session is torn down, so that its asynchronous teardown cannot hit the new handshake
		want := 0
		for id, o := range s.ing {
			if id != stream && o.key != nil && !o.closed && !o.shellMeta {
				want++
			}
		}
		for i := 0; i < 3000 && s.shellH.ActiveStreams() > want; i++ {
			time.Sleep(10 * time.Millisecond)
		}
	}
	if in == nil || mode == "fresh" || mode == "hibit" {
		priv, pub, err := crypto.GenerateEphemeralKeypair()
		must(err)
		if mode == "hibit" {
			pub[31] |= 0x80 // X25519 ignores bit 255: same point, different bytes on the wire and in the salt
		}
		var held [][32]byte
		if in != nil {
			held = in.held
		}
		in = &c04hIngress{priv: priv, pub: pub, held: held}
		s.ing[stream] = in
	}
	in.req = req
	s.w.mu.Lock()
	n0 := len(s.w.acks)
	s.w.mu.Unlock()
	var ack *c04hAck
	switch s.kind {
	case "tcp":
		a := s.tcpEcho.Addr().(*net.TCPAddr)
		s.exitH.HandleStreamOpen(context.Background(), stream, req, s.peer, a.IP.String(), uint16(a.Port), in.pub)
	case "fwd":
		s.fwdH.HandleStreamOpen(context.Background(), stream, req, s.peer, "k", in.pub)
	case "udp":
		s.udpH.HandleUDPOpen(context.Background(), s.peer, stream, &protocol.UDPOpen{RequestID: req, AddressType: protocol.AddrTypeIPv4, Address: []byte{0, 0, 0, 0}, Port: 0, TTL: 10}, in.pub)
	case "shell":
		code, pub := s.shellH.HandleStreamOpen(s.peer, stream, req, false, in.pub)
		ack = &c04hAck{stream: stream, req: req, pub: pub, ok: code == 0}
	case "file":
		agent.VerifC04FileOpen(s.fileA, s.peer, stream, req, in.pub)
	case "fileup":
		agent.VerifC04FileOpenUp(s.fileA, s.peer, stream, req, in.pub)
	}
	if ack == nil {
		s.waitFor(60*time.Second, func() bool { return len(s.w.acks) > n0 }) // event-driven; only a handler that never answers pays this
		s.w.mu.Lock()
		if len(s.w.acks) > n0 {
			a := s.w.acks[len(s.w.acks)-1]
			ack = &a
		}
		s.w.mu.Unlock()
	}
	if ack == nil {
		return "noack"
	}
	if !ack.ok {
		return "refused"
	}
	// the ingress keys itself from the ack it received (agent.DialContext / handleUDPOpenAck)
	secret, err := crypto.ComputeECDH(in.priv, ack.pub)
	if err != nil {
		return "refused"
	}
	in.key = crypto.DeriveSessionKey(secret, req, in.pub, ack.pub, true)
	in.raw = in.key.Key()
	in.held = append(in.held, in.raw)
	in.closed = false
	in.shellMeta = false
	return "ack"
}

// send puts one payload on its way through the handler; returns the marker to look for, whether anything
// was sent, and a re-send function (udp).
func (s *c04hState) send(stream uint64, payload []byte, fin bool) (marker []byte, sent bool, resend func()) {
	in := s.ing[stream]
	marker = payload
	resend = func() {}
	if in != nil && in.key != nil && !in.closed {
		sent = true
		switch s.kind {
		case "tcp", "fwd":
			ct, err := in.key.Encrypt(payload)
			must(err)
			if s.kind == "tcp" {
				s.exitH.HandleStreamData(s.peer, stream, ct, 0)
			} else {
				s.fwdH.HandleStreamData(s.peer, stream, ct, 0)
			}
		case "udp":
			resend = func() { // datagrams may be lost: each re-send is a new datagram under the next counter
				ct, err := in.key.Encrypt(payload)
				must(err)
				a := s.udpEcho.LocalAddr().(*net.UDPAddr)
				s.udpH.HandleUDPDatagram(s.peer, stream, &protocol.UDPDatagram{AddressType: protocol.AddrTypeIPv4, Address: a.IP.To4(), Port: uint16(a.Port), Data: ct})
			}
			resend()
		case "file":
			// one download per stream: the request metadata names a file that holds the payload
			if in.shellMeta {
				sent = false
			} else {
				in.shellMeta = true
				path := filepath.Join(s.fileDir, fmt.Sprintf("f-%d.bin", stream))
				must(os.WriteFile(path, payload, 0o600))
				meta, err := filetransfer.EncodeMetadata(&filetransfer.TransferMetadata{Path: path, Compress: false})
				must(err)
				ct, err := in.key.Encrypt(meta)
				must(err)
				agent.VerifC04FileData(s.fileA, s.peer, stream, ct, 0)
			}
		case "fileup":
			// one upload per stream: metadata, then the payload as one data frame (FIN unless the caller
			// wants the transfer left open)
			if in.shellMeta {
				sent = false
			} else {
				in.shellMeta = true
				path := filepath.Join(s.fileDir, fmt.Sprintf("up-%d.bin", stream))
				meta, err := filetransfer.EncodeMetadata(&filetransfer.TransferMetadata{Path: path, Mode: 0o600, Size: int64(len(payload)), Compress: false})
				must(err)
				ct, err := in.key.Encrypt(meta)
				must(err)
				agent.VerifC04FileData(s.fileA, s.peer, stream, ct, 0)
				ct, err = in.key.Encrypt(payload)
				must(err)
				flags := uint8(0)
				if fin {
					flags = protocol.FlagFinWrite
				}
				agent.VerifC04FileData(s.fileA, s.peer, stream, ct, flags)
			}
		case "shell":
			marker = []byte(hex.EncodeToString(payload))
			if in.shellMeta {
				sent = false // the stream's one command has been run already
			} else {
				in.shellMeta = true
				meta, err := shell.EncodeMeta(&shell.ShellMeta{Command: "echo", Args: []string{string(marker)}})
				must(err)
				ct, err := in.key.Encrypt(meta)
				must(err)
				s.shellH.HandleStreamData(s.peer, stream, ct, 0)
			}
		}
	}
	return marker, sent, resend
}

func c04hOpenWith(key [32]byte, p []byte) []byte {
	if len(p) < crypto.EncryptionOverhead {
		return nil
	}
	aead, err := chacha20poly1305.New(key[:])
	if err != nil {
		return nil
	}
	pt, err := aead.Open(nil, p[:crypto.NonceSize], p[crypto.NonceSize:], nil)
	if err != nil {
		return nil
	}
	if pt == nil {
		pt = []byte{}
	}
	return pt
}

// authentic: under the key of this or an earlier handshake of the stream (late frames of a replaced handshake)
func (in *c04hIngress) authentic(p []byte) bool {
	if in == nil {
		return false
	}
	for _, k := range in.held {
		if c04hOpenWith(k, p) != nil {
			return true
		}
	}
	return false
}

// c04hLeaks: does a byte string handed to the writer show the application payload — whole, its first 16
// bytes (truncated quotes), or either of them in hex?
func c04hLeaks(p, marker []byte) bool {
	if len(marker) < 8 {
		return false
	}
	cands := [][]byte{marker, []byte(hex.EncodeToString(marker))}
	if len(marker) > 16 {
		cands = append(cands, marker[:16], []byte(hex.EncodeToString(marker[:16])))
	}
	for _, c := range cands {
		if bytes.Contains(p, c) {
			return true
		}
	}
	return false
}

// ctrlLeaks counts the control-frame contents of a stream, from index c0 on, that show the payload.
func (w *c04hWriter) ctrlLeaks(stream uint64, c0 int, marker []byte) int {
	n := 0
	if c0 > len(w.ctrl[stream]) {
		c0 = len(w.ctrl[stream])
	}
	for _, p := range w.ctrl[stream][c0:] {
		if c04hLeaks(p, marker) {
			n++
		}
	}
	return n
}

// oversize: one datagram / chunk larger than the handler relays; nothing it writes in answer — data or
// control — may show the payload.  -> sent <leak> <unauth>
func (s *c04hState) oversize(stream uint64, payload []byte) string {
	in := s.ing[stream]
	if in == nil || in.key == nil || in.closed {
		return "sent 0 0"
	}
	w := s.w
	w.mu.Lock()
	n0, c0 := len(w.data[stream]), len(w.ctrl[stream])
	w.mu.Unlock()
	s.send(stream, payload, false)
	last, quiet := -1, 0
	for i := 0; i < 100 && quiet < 3; i++ {
		time.Sleep(150 * time.Millisecond)
		w.mu.Lock()
		n := len(w.data[stream]) + len(w.ctrl[stream])
		w.mu.Unlock()
		if n == last {
			quiet++
		} else {
			quiet, last = 0, n
		}
	}
	w.mu.Lock()
	defer w.mu.Unlock()
	leak, unauth := w.ctrlLeaks(stream, c0, payload), 0
	for _, p := range w.data[stream][n0:] {
		if c04hLeaks(p, payload) {
			leak++
		}
		if len(p) > 0 && !in.authentic(p) {
			unauth++
		}
	}
	return fmt.Sprintf("sent %d %d", leak, unauth)
}

// pingclose: see the header comment.
func (s *c04hState) pingclose(stream uint64, payload []byte, mode string, k int) string {
	in := s.ing[stream]
	if in == nil || in.key == nil || in.closed {
		return "closed 0 0 0"
	}
	w := s.w
	w.mu.Lock()
	n0, c0 := len(w.data[stream]), len(w.ctrl[stream])
	w.armStream, w.armLeft, w.armMode = stream, k, mode
	w.reached, w.release = make(chan struct{}), make(chan struct{})
	reached, release := w.reached, w.release
	w.mu.Unlock()
	// a handler may perform the trapped write synchronously inside the call that delivers the payload
	// (shell: the ack to the metadata frame), so the delivery runs beside the waiting
	marker := payload
	if s.kind == "shell" {
		marker = []byte(hex.EncodeToString(payload))
	}
	type sendRes struct{ resend func() }
	sendCh := make(chan sendRes, 1)
	go func() {
		_, _, rs := s.send(stream, payload, false)
		sendCh <- sendRes{rs}
	}()
	resend := func() {}
	// wait (event) until the handler has run into the trapped write; udp datagrams are re-sent meanwhile
	rounds := 20
	if s.kind == "fileup" {
		rounds = 1 // an unfinished upload makes the exit write nothing: the close simply arrives mid-transfer
	}
	for i := 0; i < rounds; i++ {
		select {
		case <-reached:
			i = 1000
		case r := <-sendCh:
			resend = r.resend
			i--
		case <-time.After(time.Second):
			if s.kind == "udp" {
				resend()
			}
		}
	}
	// the peer's close arrives while the write is failing / held. A handler may serialise the close behind
	// the write it is blocked in, so the close runs beside the release, not before it.
	closed := make(chan struct{})
	go func() { s.close(stream); close(closed) }()
	select {
	case <-closed:
	case <-time.After(200 * time.Millisecond):
	}
	w.mu.Lock()
	w.armLeft = 0
	w.mu.Unlock()
	close(release)
	select {
	case <-closed:
	case <-time.After(60 * time.Second):
	}
	// examine everything written until the handler has been quiet for a while
	last, quiet := -1, 0
	for i := 0; i < 200 && quiet < 4; i++ {
		time.Sleep(150 * time.Millisecond)
		w.mu.Lock()
		n := len(w.data[stream])
		w.mu.Unlock()
		if n == last {
			quiet++
		} else {
			quiet, last = 0, n
		}
	}
	w.mu.Lock()
	defer w.mu.Unlock()
	var zero [32]byte
	leak, unauth, zk := w.ctrlLeaks(stream, c0, marker), 0, 0
	for _, p := range w.data[stream][n0:] {
		if c04hLeaks(p, marker) {
			leak++
		}
		if len(p) == 0 {
			continue
		}
		if !in.authentic(p) {
			unauth++
		}
		if c04hOpenWith(zero, p) != nil {
			zk++
		}
	}
	return fmt.Sprintf("closed %d %d %d", leak, unauth, zk)
}

func (s *c04hState) ping(stream uint64, payload []byte) string {
	in := s.ing[stream]
	s.w.mu.Lock()
	n0, c0 := len(s.w.data[stream]), len(s.w.ctrl[stream])
	faulty := s.w.failK > 0
	s.w.mu.Unlock()
	marker, sent, resend := s.send(stream, payload, true)
	openWith := c04hOpenWith
	// under the key of the CURRENT handshake (agreement)
	opened := func(p []byte) []byte {
		if in == nil || in.key == nil {
			return nil
		}
		return openWith(in.raw, p)
	}
	authentic := in.authentic
	gotEcho := func() bool {
		if s.kind == "fileup" { // the upload arrived: the destination file holds the payload
			if in == nil {
				return false
			}
			b, err := os.ReadFile(filepath.Join(s.fileDir, fmt.Sprintf("up-%d.bin", stream)))
			return err == nil && bytes.Equal(b, payload) && len(payload) > 0
		}
		var all []byte
		for _, p := range s.w.data[stream][n0:] {
			if pt := opened(p); pt != nil {
				if s.kind == "shell" {
					if typ, body, err := shell.DecodeMessage(pt); err == nil && typ == shell.MsgStdout {
						all = append(all, body...)
					}
					continue
				}
				all = append(all, pt...)
			}
		}
		return len(marker) > 0 && bytes.Contains(all, marker)
	}
	// Liveness must not depend on machine load: when something was sent, wait on the writer's events with
	// a long deadline (a healthy handler answers in milliseconds; only a dead tunnel pays it), re-sending
	// UDP datagrams every second. Nothing sent (no handshake, closed, shell command already run): no wait.
	// Fault cases are answered `anyof pong | nopong` by the model, so a short wait is enough there — it only
	// has to leave room for a retry path to show what it writes.
	got := false
	switch {
	case !sent:
	case faulty:
		got = s.waitFor(900*time.Millisecond, gotEcho)
		if !got {
			time.Sleep(450 * time.Millisecond)
		}
	default:
		rounds := 25 // seconds; a healthy handler answers in milliseconds, only a dead tunnel pays this
		if s.sawDead || s.reused[stream] {
			rounds = 3
		}
		for i := 0; i < rounds && !got; i++ {
			got = s.waitFor(time.Second, gotEcho)
			if !got && s.kind == "udp" {
				resend()
			}
		}
		if !got {
			s.sawDead = true
		}
	}
	s.w.mu.Lock()
	defer s.w.mu.Unlock()
	leak, unauth := s.w.ctrlLeaks(stream, c0, marker), 0
	for _, p := range s.w.data[stream][n0:] {
		if c04hLeaks(p, marker) {
			leak++
		}
		if len(p) > 0 && !authentic(p) {
			unauth++
		}
	}
	r := "nopong"
	if gotEcho() {
		r = "pong"
	}
	return fmt.Sprintf("%s %d %d", r, leak, unauth)
}

func (s *c04hState) close(stream uint64) string {
	switch s.kind {
	case "tcp":
		s.exitH.HandleStreamClose(s.peer, stream)
	case "fwd":
		s.fwdH.HandleStreamClose(s.peer, stream)
	case "udp":
		s.udpH.HandleUDPClose(s.peer, stream)
	case "shell":
		s.shellH.HandleStreamClose(stream)
	case "file", "fileup":
		// the requester's STREAM_CLOSE through the agent's real dispatch
		agent.VerifC04Process(s.fileA, s.peer, &protocol.Frame{Type: protocol.FrameStreamClose, StreamID: stream})
	}
	if in := s.ing[stream]; in != nil {
		in.closed = true // late frames of this handshake still have to authenticate under its key
	}
	return "ok"
}

// c04IcmpKx: both ICMP key-derivation call sites, live: the exit's Handler.performKeyExchange on a real
// Session (no raw socket needed) and the ingress's agent.deriveICMPSessionKey on the ack key; then one echo
// payload through Session.Decrypt / Session.Encrypt and back; then the same again on the SAME session (a
// repeated ICMP_OPEN), and a third time with bit 255 of the ingress key set.  -> icmpkx agree <a1> <a2> <a3> rt <0|1> leak <n>
func c04IcmpKx(req uint64, payload []byte) string {
	quiet := slog.New(slog.NewTextHandler(io.Discard, nil))
	w := &c04hWriter{data: map[uint64][][]byte{}, changed: make(chan struct{}, 1)}
	h := icmp.NewHandler(icmp.DefaultConfig(), c04hIcmpWriter{w}, quiet)
	defer h.Close()
	peerID, _ := identity.NewAgentID()
	sess := icmp.NewSession(1, req, peerID, net.IPv4(127, 0, 0, 1))
	defer sess.Close()
	agree := [3]int{}
	rt, leak := 1, 0
	for round := 0; round < 3; round++ {
		priv, pub, err := crypto.GenerateEphemeralKeypair()
		must(err)
		if round == 2 {
			pub[31] |= 0x80 // the ingress key on the wire with bit 255 set (same point for X25519)
		}
		exitPub, err := icmp.VerifC03KeyExchange(h, sess, &protocol.ICMPOpen{RequestID: req, DestIP: net.IPv4(127, 0, 0, 1).To4(), TTL: 64}, pub)
		if err != nil {
			return "icmpkx err"
		}
		ik, err := agent.VerifC04DeriveICMP(&priv, pub, exitPub, req)
		if err != nil || ik == nil {
			return "icmpkx err"
		}
		ek := sess.GetSessionKey()
		if ek != nil && ek.Key() == ik.Key() {
			agree[round] = 1
		}
		ct, err := ik.Encrypt(payload)
		must(err)
		if len(payload) >= 8 && bytes.Contains(ct, payload) {
			leak++
		}
		pt, err := sess.Decrypt(ct)
		if err != nil || !bytes.Equal(pt, payload) {
			rt = 0
			continue
		}
		back, err := sess.Encrypt(pt)
		if err != nil {
			rt = 0
			continue
		}
		if len(payload) >= 8 && bytes.Contains(back, payload) {
			leak++
		}
		if pt2, err := ik.Decrypt(back); err != nil || !bytes.Equal(pt2, payload) {
			rt = 0
		}
	}
	return fmt.Sprintf("icmpkx agree %d %d %d rt %d leak %d", agree[0], agree[1], agree[2], rt, leak)
}

type c04hIcmpWriter struct{ w *c04hWriter }

func (c04hIcmpWriter) WriteICMPOpenAck(identity.AgentID, uint64, *protocol.ICMPOpenAck) error { return nil }
func (c04hIcmpWriter) WriteICMPOpenErr(identity.AgentID, uint64, *protocol.ICMPOpenErr) error { return nil }
func (c04hIcmpWriter) WriteICMPEcho(identity.AgentID, uint64, *protocol.ICMPEcho) error       { return nil }
func (c04hIcmpWriter) WriteICMPClose(identity.AgentID, uint64, uint8) error                   { return nil }

// c04hRun executes one `hs …` op (also used by engine c03 through c03Handshake).
func c04hRun(f []string) string {
	if len(f) < 2 {
		return "bad-op"
	}
	u := func(s string) uint64 { v, err := strconv.ParseUint(s, 10, 64); must(err); return v }
	switch {
	case f[1] == "uiack" && len(f) == 3:
		k := int(u(f[2]))
		if k < 1 || k > 64 {
			return "bad-op"
		}
		fr, ua, dup, pub, err := c04UIAck(k)
		if err != nil {
			return "uiack err"
		}
		return fmt.Sprintf("uiack frames %d unauth %d dupnonce %d pubkey %d", fr, ua, dup, pub)
	case f[1] == "icmpkx" && len(f) == 4:
		return c04IcmpKx(u(f[2]), unhexTok(f[3]))
	case f[1] == "new" && len(f) == 4:
		c04hCur.stop()
		c04hCur = nil
		s, err := c04hNew(f[2], int(u(f[3])))
		if err != nil {
			return "bad-op"
		}
		c04hCur = s
		return "ok"
	case c04hCur == nil:
		return "bad-op"
	case f[1] == "oversize" && len(f) == 4:
		return c04hCur.oversize(u(f[2]), unhexTok(f[3]))
	case f[1] == "pingclose" && len(f) == 6 && (f[4] == "fail" || f[4] == "stall"):
		return c04hCur.pingclose(u(f[2]), unhexTok(f[3]), f[4], int(u(f[5])))
	case f[1] == "open" && len(f) == 5 && (f[4] == "fresh" || f[4] == "same" || f[4] == "hibit"):
		return c04hCur.open(u(f[2]), u(f[3]), f[4])
	case f[1] == "ping" && len(f) == 4:
		return c04hCur.ping(u(f[2]), unhexTok(f[3]))
	case f[1] == "close" && len(f) == 3:
		return c04hCur.close(u(f[2]))
	}
	return "bad-op"
}

// c04hGen writes handler-level cases: multi-step handshakes (duplicate open with the same / a fresh
// ingress key, re-open after close, the same request id on another stream) and write-fault cases.
func c04hGen(w interface{ WriteString(string) (int, error) }, r *rng, nPerKind int, faults bool) {
	for i := 0; i < 2+nPerKind; i++ {
		fmt.Fprintf(w.(io.Writer), "reset\nhs icmpkx %d %s\n", r.u64()>>uint(r.intn(64)), hex.EncodeToString(r.bytes(r.pick(0, 8, 56, 1400))))
	}
	if faults { // engine c04 only: the ingress side under a replayed UDP_OPEN_ACK, always for k = 1 and 3
		fmt.Fprintf(w.(io.Writer), "reset\nhs uiack 1\nreset\nhs uiack 3\n")
	}
	kindNow := ""
	pl := func() string {
		if kindNow == "shell" {
			return hex.EncodeToString(r.bytes(r.pick(16, 32, 100)))
		}
		if kindNow == "file" || kindNow == "fileup" {
			return hex.EncodeToString(r.bytes(r.pick(16, 1000, 16384, 40000)))
		}
		return hex.EncodeToString(r.bytes(r.pick(16, 32, 200, 1000)))
	}
	big := func() string { return hex.EncodeToString(r.bytes(200000)) }
	for _, kind := range []string{"udp", "tcp", "fwd", "shell", "file", "fileup"} {
		kindNow = kind
		W := w.(io.Writer)
		if kind != "shell" && kind != "file" && kind != "fileup" {
			// always: the scripted multi-step handshake (duplicate open with the same and with a fresh ingress
			// key, close + re-open, the same request id on another stream), a ping after every step
			fmt.Fprintf(W, "reset\nhs new %s 0\nhs open 1 500 fresh\nhs ping 1 %s\nhs open 1 500 same\nhs ping 1 %s\nhs open 1 500 fresh\nhs ping 1 %s\n"+
				"hs close 1\nhs open 1 501 fresh\nhs ping 1 %s\nhs open 3 501 fresh\nhs ping 3 %s\nhs ping 1 %s\n", kind, pl(), pl(), pl(), pl(), pl(), pl())
		} else {
			// always, for the single-use kinds: a second open with IDENTICAL (peer, stream id, request id) and a
			// fresh initiator key before anything ran on the first handshake (nothing to tear down, so no race):
			// refused, or both ends agree
			fmt.Fprintf(W, "reset\nhs new %s 0\nhs open 1 600 fresh\nhs open 1 600 fresh\nhs ping 1 %s\n", kind, pl())
			if kind == "shell" {
				// and once more after the command has completed (the harness waits for the old session's teardown)
				fmt.Fprintf(W, "hs open 1 600 fresh\nhs ping 1 %s\n", pl())
			}
		}
		if kind == "udp" {
			// always: datagrams at and beyond MaxDatagramSize (1472); the payload starts with printable text so
			// that a quoted / truncated copy in a control message is recognisable
			fmt.Fprintf(W, "reset\nhs new udp 0\nhs open 1 900 fresh\n")
			for _, n := range []int{1472, 1473, 2000, 65507} {
				head := []byte("VERIF-" + hex.EncodeToString(r.bytes(9)))
				body := append(head, r.bytes(n-len(head))...)
				fmt.Fprintf(W, "hs oversize 1 %s\n", hex.EncodeToString(body))
			}
		}
		// always: an initiator key with bit 255 set (valid for X25519, never produced by GenerateEphemeralKeypair)
		fmt.Fprintf(W, "reset\nhs new %s 0\nhs open 7 700 hibit\nhs ping 7 %s\n", kind, pl())
		if faults {
			// always: a write fails (or is held), the peer's close arrives, the writer recovers
			k := 1
			p1, p2 := pl(), pl()
			if kind == "file" {
				k, p1, p2 = 2, big(), big() // a download of a dozen chunks, aborted by the requester after the first
			}
			fmt.Fprintf(W, "reset\nhs new %s 0\nhs open 1 800 fresh\nhs pingclose 1 %s fail %d\n", kind, p1, k)
			fmt.Fprintf(W, "reset\nhs new %s 0\nhs open 1 801 fresh\nhs pingclose 1 %s stall %d\n", kind, p2, k)
		}
		for c := 0; c < nPerKind; c++ {
			fmt.Fprintf(w.(io.Writer), "reset\nhs new %s 0\n", kind)
			req := uint64(1000 + r.intn(1<<20))
			next := uint64(1)
			live := []uint64{}
			steps := 4 + r.intn(5)
			for st := 0; st < steps; st++ {
				switch d := r.intn(10); {
				case len(live) == 0 || d < 2: // new stream
					sid := next
					next += 2
					fmt.Fprintf(w.(io.Writer), "hs open %d %d fresh\nhs ping %d %s\n", sid, req, sid, pl())
					req++
					live = append(live, sid)
				case kind == "shell" || kind == "file" || kind == "fileup": // one command / one transfer per stream: only fresh streams (old sessions tear down asynchronously)
					sid := next
					next += 2
					rq := req
					if r.chance(30) {
						rq = req - 1 // the same request id on another stream
					} else {
						req++
					}
					fmt.Fprintf(w.(io.Writer), "hs open %d %d fresh\nhs ping %d %s\n", sid, rq, sid, pl())
					live = append(live, sid)
				case d < 5: // duplicate open for a live stream: same request id; same or fresh ingress key
					sid := live[r.intn(len(live))]
					fmt.Fprintf(w.(io.Writer), "hs open %d %d %s\nhs ping %d %s\n", sid, req-1, r.pickS("same", "fresh"), sid, pl())
				case d < 6: // the same request id on another stream
					sid := next
					next += 2
					fmt.Fprintf(w.(io.Writer), "hs open %d %d fresh\nhs ping %d %s\n", sid, req-1, sid, pl())
					live = append(live, sid)
				case d < 8: // close, then re-open the same stream id
					i := r.intn(len(live))
					sid := live[i]
					fmt.Fprintf(w.(io.Writer), "hs close %d\nhs open %d %d fresh\nhs ping %d %s\n", sid, sid, req, sid, pl())
					req++
				default:
					sid := live[r.intn(len(live))]
					fmt.Fprintf(w.(io.Writer), "hs ping %d %s\n", sid, pl())
				}
			}
		}
		if faults {
			// k = 1 always (the first data write fails once, then the link recovers); k = 2 when asked for more
			ks := []int{1}
			if nPerKind > 1 {
				ks = []int{1, 2}
			}
			for _, k := range ks {
				fmt.Fprintf(w.(io.Writer), "reset\nhs new %s %d\nhs open 1 77 fresh\nhs ping 1 %s\nhs ping 1 %s\n", kind, k, pl(), pl())
			}
		}

	}
}

// ------------------------------------------------------------------------------------------------
// ingress side: a replayed UDP_OPEN_ACK

type c04uiSink struct {
	mu     sync.Mutex
	opens  []*protocol.Frame
	dgrams [][]byte // Data field of every UDP_DATAGRAM the peer received
	ch     chan struct{}
}

func (k *c04uiSink) Write(p []byte) (int, error) {
	f, err := protocol.NewFrameReader(bytes.NewReader(p)).Read()
	if err != nil {
		return len(p), nil
	}
	k.mu.Lock()
	switch f.Type {
	case protocol.FrameUDPOpen:
		k.opens = append(k.opens, f)
	case protocol.FrameUDPDatagram:
		if d, err := protocol.DecodeUDPDatagram(f.Payload); err == nil {
			k.dgrams = append(k.dgrams, append([]byte{}, d.Data...))
		}
	}
	k.mu.Unlock()
	select {
	case k.ch <- struct{}{}:
	default:
	}
	return len(p), nil
}

func (k *c04uiSink) wait(cond func() bool) bool {
	for i := 0; i < 3000; i++ {
		k.mu.Lock()
		ok := cond()
		k.mu.Unlock()
		if ok {
			return true
		}
		select {
		case <-k.ch:
		case <-time.After(10 * time.Millisecond):
		}
	}
	return false
}

// c04UIAck: a real agent as SOCKS5-UDP ingress with one capturing peer; the harness plays the exit.
// k datagrams, the SAME ack delivered again, k more datagrams.
// returns frames seen, frames not under the exit's key, repeated 12-byte nonces, frames that open under
// the key anybody can compute from a wiped (all-zero) ingress private key.
func c04UIAck(k int) (frames, unauth, dup, pub int, err error) {
	dir, err := os.MkdirTemp("", "verif-c04ui-")
	if err != nil {
		return
	}
	defer os.RemoveAll(dir)
	cfg := config.Default()
	cfg.Agent.DataDir = dir
	cfg.Agent.LogLevel = "error"
	a, err := agent.New(cfg)
	if err != nil {
		return
	}
	exitID, _ := identity.NewAgentID()
	sink := &c04uiSink{ch: make(chan struct{}, 1)}
	if err = agent.VerifC04IngressSetup(a, exitID, sink); err != nil {
		return
	}
	base, err := a.CreateUDPAssociation(context.Background(), nil)
	if err != nil {
		return
	}
	dst := net.IPv4(10, 9, 8, 7).To4()
	relay := func(i int) error {
		return a.RelayUDPDatagram(base, &net.UDPAddr{IP: dst, Port: 53}, 53, protocol.AddrTypeIPv4, dst, []byte(fmt.Sprintf("verif-c04-datagram-%04d-payload", i)))
	}
	first := make(chan error, 1)
	go func() { first <- relay(0) }() // blocks until the open is answered
	if !sink.wait(func() bool { return len(sink.opens) > 0 }) {
		return 0, 0, 0, 0, fmt.Errorf("no UDP_OPEN")
	}
	sink.mu.Lock()
	of := sink.opens[0]
	sink.mu.Unlock()
	open, err := protocol.DecodeUDPOpen(of.Payload)
	if err != nil {
		return
	}
	privE, pubE, err := crypto.GenerateEphemeralKeypair()
	if err != nil {
		return
	}
	sec, err := crypto.ComputeECDH(privE, open.EphemeralPubKey)
	if err != nil {
		return
	}
	exitKey := crypto.DeriveSessionKey(sec, open.RequestID, open.EphemeralPubKey, pubE, false).Key()
	// the key derivable by ANYBODY if the ingress re-derives from its wiped private key
	var zeroPriv [32]byte
	pubKeyOK := false
	var pubKey [32]byte
	if s2, e2 := crypto.ComputeECDH(zeroPriv, pubE); e2 == nil {
		pubKey = crypto.DeriveSessionKey(s2, open.RequestID, open.EphemeralPubKey, pubE, true).Key()
		pubKeyOK = true
	}
	ack := &protocol.Frame{Type: protocol.FrameUDPOpenAck, StreamID: of.StreamID, Payload: (&protocol.UDPOpenAck{RequestID: open.RequestID, BoundAddrType: protocol.AddrTypeIPv4, BoundAddr: []byte{127, 0, 0, 1}, BoundPort: 9, EphemeralPubKey: pubE}).Encode()}
	agent.VerifC04Process(a, exitID, ack)
	select {
	case e := <-first:
		if e != nil {
			return 0, 0, 0, 0, e
		}
	case <-time.After(30 * time.Second):
		return 0, 0, 0, 0, fmt.Errorf("first datagram never went out")
	}
	for i := 1; i < k; i++ {
		if err = relay(i); err != nil {
			return
		}
	}
	agent.VerifC04Process(a, exitID, ack) // the same ack again
	for i := 0; i < k; i++ {
		if e := relay(k + i); e != nil {
			break // an ingress that shuts the association on a replayed ack sends nothing more: fine
		}
	}
	sink.wait(func() bool { return len(sink.dgrams) >= 2*k })
	sink.mu.Lock()
	defer sink.mu.Unlock()
	seen := map[string]bool{}
	for _, d := range sink.dgrams {
		frames++
		if c04hOpenWith(exitKey, d) == nil {
			unauth++
		}
		if pubKeyOK && c04hOpenWith(pubKey, d) != nil {
			pub++
		}
		if len(d) >= crypto.NonceSize {
			n := string(d[:crypto.NonceSize])
			if seen[n] {
				dup++
			}
			seen[n] = true
		}
	}
	return frames, unauth, dup, pub, nil
}
