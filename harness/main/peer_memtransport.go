//go:build verif && (all || c31 || c32)

package main

// In-memory transport.PeerConn / transport.Stream pair for peer-manager level schedules
// (engines c31, c32).  pmtPair() returns the two ends of one connection; a stream opened on one
// end is accepted on the other; bytes written on one end of a stream are read on the other in
// order; closing either end of the connection fails all reads on both ends (as a closed QUIC /
// WebSocket connection does).

import (
	"context"
	"errors"
	"io"
	"net"
	"sync"
	"time"

	"github.com/postalsys/muti-metroo/internal/transport"
)

var pmtErrClosed = errors.New("memtransport: connection closed")

type pmtPipe struct {
	mu     sync.Mutex
	cond   *sync.Cond
	buf    []byte
	closed bool
	waiters int  // readers currently blocked in Read
	wheld    bool // writers block until releaseWrites(); then the write fails if wfail is set (or the pipe is closed)
	wfail    bool
	wwaiters int
	stalled bool // readers get nothing (not even buffered data) until unstall(): "the bytes are still in flight"
	held   bool // end-of-stream is not reported to readers before release() (scripted "the read error surfaces now")
}

func pmtNewPipe(held bool) *pmtPipe {
	p := &pmtPipe{held: held}
	p.cond = sync.NewCond(&p.mu)
	return p
}

func (p *pmtPipe) release() {
	p.mu.Lock()
	p.held = false
	p.cond.Broadcast()
	p.mu.Unlock()
}

func (p *pmtPipe) setStalled(v bool) {
	p.mu.Lock()
	p.stalled = v
	p.cond.Broadcast()
	p.mu.Unlock()
}

func (p *pmtPipe) Read(b []byte) (int, error) {
	p.mu.Lock()
	defer p.mu.Unlock()
	for p.stalled || (len(p.buf) == 0 && (!p.closed || p.held)) {
		p.waiters++
		p.cond.Wait()
		p.waiters--
	}
	if len(p.buf) == 0 {
		return 0, io.EOF
	}
	n := copy(b, p.buf)
	p.buf = p.buf[n:]
	return n, nil
}

func (p *pmtPipe) Write(b []byte) (int, error) {
	p.mu.Lock()
	defer p.mu.Unlock()
	for p.wheld {
		p.wwaiters++
		p.cond.Wait()
		p.wwaiters--
	}
	if p.wfail {
		return 0, pmtErrClosed
	}
	if p.closed {
		return 0, pmtErrClosed
	}
	p.buf = append(p.buf, b...)
	p.cond.Broadcast()
	return len(b), nil
}

func (p *pmtPipe) Close() {
	p.mu.Lock()
	p.closed = true
	p.cond.Broadcast()
	p.mu.Unlock()
}

type pmtStream struct {
	id   uint64
	r, w *pmtPipe
}

func (s *pmtStream) Read(b []byte) (int, error)       { return s.r.Read(b) }
func (s *pmtStream) Write(b []byte) (int, error)      { return s.w.Write(b) }
func (s *pmtStream) StreamID() uint64                 { return s.id }
func (s *pmtStream) CloseWrite() error                { s.w.Close(); return nil }
func (s *pmtStream) Close() error                     { s.w.Close(); s.r.Close(); return nil }
func (s *pmtStream) SetDeadline(time.Time) error      { return nil }
func (s *pmtStream) SetReadDeadline(time.Time) error  { return nil }
func (s *pmtStream) SetWriteDeadline(time.Time) error { return nil }

type pmtAddr string

func (a pmtAddr) Network() string { return "mem" }
func (a pmtAddr) String() string  { return string(a) }

type pmtShared struct {
	onClose func() // called once, after the connection has been closed (scripted reaction of the remote side)
	mu     sync.Mutex
	pipes  []*pmtPipe
	hold   bool // new pipes hold their end-of-stream until releaseReadErrors()
	closed chan struct{}
	once   sync.Once
	nextID uint64
}

type pmtConn struct {
	dialer   bool
	sh       *pmtShared
	incoming chan *pmtStream
	peer     *pmtConn
	name     string
}

// pmtPair returns (dialer end, listener end) of a fresh connection.
func pmtPair(name string) (*pmtConn, *pmtConn) {
	sh := &pmtShared{closed: make(chan struct{})}
	a := &pmtConn{dialer: true, sh: sh, incoming: make(chan *pmtStream, 16), name: name}
	b := &pmtConn{dialer: false, sh: sh, incoming: make(chan *pmtStream, 16), name: name}
	a.peer, b.peer = b, a
	return a, b
}

func (c *pmtConn) OpenStream(ctx context.Context) (transport.Stream, error) {
	c.sh.mu.Lock()
	select {
	case <-c.sh.closed:
		c.sh.mu.Unlock()
		return nil, pmtErrClosed
	default:
	}
	ab, ba := pmtNewPipe(c.sh.hold), pmtNewPipe(c.sh.hold)
	c.sh.pipes = append(c.sh.pipes, ab, ba)
	c.sh.nextID++
	id := c.sh.nextID
	c.sh.mu.Unlock()
	local := &pmtStream{id: id, r: ba, w: ab}
	remote := &pmtStream{id: id, r: ab, w: ba}
	select {
	case c.peer.incoming <- remote:
		return local, nil
	case <-ctx.Done():
		return nil, ctx.Err()
	case <-c.sh.closed:
		return nil, pmtErrClosed
	}
}

func (c *pmtConn) AcceptStream(ctx context.Context) (transport.Stream, error) {
	select {
	case s := <-c.incoming:
		return s, nil
	case <-ctx.Done():
		return nil, ctx.Err()
	case <-c.sh.closed:
		return nil, pmtErrClosed
	}
}

func (c *pmtConn) Close() error {
	c.sh.once.Do(func() {
		c.sh.mu.Lock()
		close(c.sh.closed)
		for _, p := range c.sh.pipes {
			p.Close()
		}
		c.sh.mu.Unlock()
		if f := c.sh.onClose; f != nil {
			f()
		}
	})
	return nil
}

// holdWrites: writes on both ends block; releaseWrites(fail) lets them go on (and fail when fail is set).
func (c *pmtConn) holdWrites() {
	c.sh.mu.Lock()
	pipes := append([]*pmtPipe{}, c.sh.pipes...)
	c.sh.mu.Unlock()
	for _, p := range pipes {
		p.mu.Lock()
		p.wheld = true
		p.mu.Unlock()
	}
}

func (c *pmtConn) releaseWrites(fail bool) {
	c.sh.mu.Lock()
	pipes := append([]*pmtPipe{}, c.sh.pipes...)
	c.sh.mu.Unlock()
	for _, p := range pipes {
		p.mu.Lock()
		p.wheld = false
		p.wfail = fail
		p.cond.Broadcast()
		p.mu.Unlock()
	}
}

func (c *pmtConn) blockedWriters() int {
	c.sh.mu.Lock()
	pipes := append([]*pmtPipe{}, c.sh.pipes...)
	c.sh.mu.Unlock()
	n := 0
	for _, p := range pipes {
		p.mu.Lock()
		n += p.wwaiters
		p.mu.Unlock()
	}
	return n
}

// holdReadErrors: after a close of either end, blocked reads keep blocking until releaseReadErrors.
func (c *pmtConn) holdReadErrors() {
	c.sh.mu.Lock()
	c.sh.hold = true
	c.sh.mu.Unlock()
}

func (c *pmtConn) releaseReadErrors() {
	c.sh.mu.Lock()
	c.sh.hold = false
	pipes := append([]*pmtPipe{}, c.sh.pipes...)
	c.sh.mu.Unlock()
	for _, p := range pipes {
		p.release()
	}
}

// stallReads / unstallReads: reads on both ends deliver nothing while stalled (writes still succeed).
func (c *pmtConn) stallReads(v bool) {
	c.sh.mu.Lock()
	pipes := append([]*pmtPipe{}, c.sh.pipes...)
	c.sh.mu.Unlock()
	for _, p := range pipes {
		p.setStalled(v)
	}
}

// blockedReaders: number of pipes of this connection on which a reader is blocked in Read.
func (c *pmtConn) blockedReaders() int {
	c.sh.mu.Lock()
	pipes := append([]*pmtPipe{}, c.sh.pipes...)
	c.sh.mu.Unlock()
	n := 0
	for _, p := range pipes {
		p.mu.Lock()
		if p.waiters > 0 {
			n++
		}
		p.mu.Unlock()
	}
	return n
}

func (c *pmtConn) isClosed() bool {
	select {
	case <-c.sh.closed:
		return true
	default:
		return false
	}
}

func (c *pmtConn) LocalAddr() net.Addr  { return pmtAddr("mem-local-" + c.name) }
func (c *pmtConn) RemoteAddr() net.Addr { return pmtAddr("mem-remote-" + c.name) }
func (c *pmtConn) IsDialer() bool       { return c.dialer }
func (c *pmtConn) TransportType() transport.TransportType {
	return transport.TransportQUIC
}

// pmtTransport is a transport.Transport whose Dial is a harness-supplied function.
type pmtTransport struct {
	dial func(ctx context.Context, addr string) (transport.PeerConn, error)
}

func (t *pmtTransport) Dial(ctx context.Context, addr string, _ transport.DialOptions) (transport.PeerConn, error) {
	return t.dial(ctx, addr)
}
func (t *pmtTransport) Listen(string, transport.ListenOptions) (transport.Listener, error) {
	return nil, errors.New("memtransport: Listen not supported")
}
func (t *pmtTransport) Type() transport.TransportType { return transport.TransportQUIC }
func (t *pmtTransport) Close() error                  { return nil }
