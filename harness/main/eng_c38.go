//go:build verif && (all || c38)

package main

import (
	"bufio"
	"bytes"
	"context"
	"errors"
	"fmt"
	"net"
	"os"
	"reflect"
	"regexp"
	"runtime"
	"strconv"
	"strings"
	"sync"
	"sync/atomic"
	"time"

	"github.com/postalsys/muti-metroo/internal/agent"
	"github.com/postalsys/muti-metroo/internal/config"
	"github.com/postalsys/muti-metroo/internal/identity"
	"github.com/postalsys/muti-metroo/internal/peer"
	"github.com/postalsys/muti-metroo/internal/protocol"
	"github.com/postalsys/muti-metroo/internal/shell"
	"github.com/postalsys/muti-metroo/internal/transport"
)

// Engine c38: stream-id allocation.
//
//	conc <d|l> <g> <p>   g goroutines x p calls of peer.Connection.NextStreamID() on one connection end
//	                     -> ok n=<g*p> distinct=<k> min=<m> max=<M> zero=<c> badparity=<c>
//	warm <d|l> <k> <g> <p>  k sequential calls first (state left by earlier use), then as conc; statistics over all ids
//	cold <d|l> <conns> <g>  <conns> FRESH connections; on each, g goroutines make their FIRST allocation behind a barrier
//	                     -> ok conns=<n> g=<g> dup=<conns with a repeated id> zero=<c> badparity=<c> exact=<conns whose id set is start,start+2,…>
//	life|alife <d|l> <n> (on a connection | on a bare allocator) n rounds of: allocate a, allocate b, "give a back" through every public method of the connection /
//	                     its allocator whose name matches release|reset|return|free|rewind (reflection), allocate c;
//	                     statistics over all 3n ids -> ok n=… distinct=… (as conc)
//	mix <d|l> <seq>      ONE real agent with one peer connection (this end has the given role) and a default route through
//	                     it; seq is a string over t (TCP: Agent.DialContext), u (UDP association), i (ICMP session),
//	                     s (shell stream): each letter runs that ingress path until its open frame is on the wire; the
//	                     StreamIDs of all STREAM_OPEN / UDP_OPEN / ICMP_OPEN frames the peer received
//	                     -> ok n=… distinct=… min=… max=… zero=… badparity=… kinds=<S|U|I per frame>
//	pair <g> <p>         both ends of a connection at the same time
//	                     -> ok d: n=… distinct=… min=… max=… zero=… badparity=… l: … overlap=<k>
//	seq <d|l> <k>        first k ids of a fresh transport.StreamIDAllocator -> ok id id …
//	wrap <d|l> <ctr> <k> counter positioned at ctr (accessor), then k ids -> ok id id …

type c38Conn struct{ dialer bool }

func (c *c38Conn) OpenStream(ctx context.Context) (transport.Stream, error) {
	return nil, errors.New("c38: no streams")
}
func (c *c38Conn) AcceptStream(ctx context.Context) (transport.Stream, error) {
	<-ctx.Done()
	return nil, ctx.Err()
}
func (c *c38Conn) Close() error                           { return nil }
func (c *c38Conn) LocalAddr() net.Addr                    { return &net.TCPAddr{IP: net.IPv4(127, 0, 0, 1), Port: 1} }
func (c *c38Conn) RemoteAddr() net.Addr                   { return &net.TCPAddr{IP: net.IPv4(127, 0, 0, 1), Port: 2} }
func (c *c38Conn) IsDialer() bool                         { return c.dialer }
func (c *c38Conn) TransportType() transport.TransportType { return transport.TransportQUIC }

func c38Hammer(next func() uint64, g, p int, start *sync.WaitGroup, done *sync.WaitGroup, out [][]uint64) {
	for i := 0; i < g; i++ {
		i := i
		done.Add(1)
		go func() {
			defer done.Done()
			ids := make([]uint64, 0, p)
			start.Wait()
			for j := 0; j < p; j++ {
				ids = append(ids, next())
			}
			out[i] = ids
		}()
	}
}

func c38Stats(out [][]uint64, dialer bool) (string, map[uint64]struct{}) {
	set := map[uint64]struct{}{}
	n, zero, bad := 0, 0, 0
	min, max := ^uint64(0), uint64(0)
	want := uint64(0)
	if dialer {
		want = 1
	}
	for _, ids := range out {
		for _, id := range ids {
			n++
			set[id] = struct{}{}
			if id == 0 {
				zero++
			}
			if id%2 != want {
				bad++
			}
			if id < min {
				min = id
			}
			if id > max {
				max = id
			}
		}
	}
	if n == 0 {
		min = 0
	}
	return fmt.Sprintf("n=%d distinct=%d min=%d max=%d zero=%d badparity=%d", n, len(set), min, max, zero, bad), set
}

// c38Buf collects the frames an agent writes to its peer.
type c38Buf struct {
	mu sync.Mutex
	b  bytes.Buffer
}

func (b *c38Buf) Write(p []byte) (int, error) {
	b.mu.Lock()
	defer b.mu.Unlock()
	return b.b.Write(p)
}

func (b *c38Buf) snapshot() []byte {
	b.mu.Lock()
	defer b.mu.Unlock()
	return append([]byte(nil), b.b.Bytes()...)
}

// c38Opens parses the frames written so far and returns (stream id, kind) of the stream-opening ones.
func c38Opens(data []byte) (ids []uint64, kinds string) {
	r := protocol.NewFrameReader(bytes.NewReader(data))
	for {
		fr, err := r.Read()
		if err != nil {
			return
		}
		switch fr.Type {
		case protocol.FrameStreamOpen:
			ids, kinds = append(ids, fr.StreamID), kinds+"S"
		case protocol.FrameUDPOpen:
			ids, kinds = append(ids, fr.StreamID), kinds+"U"
		case protocol.FrameICMPOpen:
			ids, kinds = append(ids, fr.StreamID), kinds+"I"
		}
	}
}

func c38Mix(dialer bool, seq string) string {
	dir, err := os.MkdirTemp("", "verif-c38-")
	must(err)
	defer os.RemoveAll(dir)
	var self, remote identity.AgentID
	for i := range self {
		self[i], remote[i] = 0x51, 0x52
	}
	cfg := config.Default()
	cfg.Agent.ID = self.String()
	cfg.Agent.DataDir = dir
	cfg.Agent.LogLevel = "error"
	a, err := agent.New(cfg)
	must(err)
	buf := &c38Buf{}
	must(agent.C38Setup(a, remote, dialer, buf))
	var cancels []context.CancelFunc
	var done sync.WaitGroup
	for n, k := range seq {
		ctx, cancel := context.WithCancel(context.Background())
		cancels = append(cancels, cancel)
		dest := net.IPv4(10, 9, byte(n>>8), byte(n+1))
		done.Add(1)
		go func(k rune) {
			defer done.Done()
			switch k {
			case 't':
				if c, err := a.DialContext(ctx, "tcp", net.JoinHostPort(dest.String(), "80")); err == nil {
					c.Close()
				}
			case 'u':
				agent.C38OpenUDP(a, ctx, dest)
			case 'i':
				a.CreateICMPSession(ctx, dest)
			case 's':
				a.OpenShellStream(ctx, remote, &shell.ShellMeta{Command: "true"}, false)
			}
		}(k)
		// this ingress path has done its allocation once its open frame is on the wire
		deadline := time.Now().Add(20 * time.Second)
		for {
			ids, _ := c38Opens(buf.snapshot())
			if len(ids) > n || time.Now().After(deadline) {
				break
			}
			time.Sleep(100 * time.Microsecond)
		}
	}
	ids, kinds := c38Opens(buf.snapshot())
	for _, c := range cancels {
		c()
	}
	done.Wait()
	st, _ := c38Stats([][]uint64{ids}, dialer)
	return "ok " + st + " kinds=" + kinds
}

var c38GiveBackRe = regexp.MustCompile(`(?i)release|reset|return|free|rewind`)

// c38GiveBackMethods: every exported method of v (a *peer.Connection or a *transport.StreamIDAllocator)
// whose name suggests that an id can be handed back, with signature func(uint64) or func().  On a
// connection the name must also mention the stream ids.  None exists in the code the check was written for.
func c38GiveBackMethods(v reflect.Value, mustMentionStream bool) []func(id uint64) {
	var out []func(uint64)
	t := v.Type()
	for i := 0; i < t.NumMethod(); i++ {
		name := t.Method(i).Name
		low := strings.ToLower(name)
		if !c38GiveBackRe.MatchString(name) || (mustMentionStream && !strings.Contains(low, "stream") && !strings.Contains(low, "id")) {
			continue
		}
		fn := v.Method(i)
		switch ft := fn.Type(); {
		case ft.NumIn() == 1 && ft.In(0).Kind() == reflect.Uint64:
			out = append(out, func(id uint64) { fn.Call([]reflect.Value{reflect.ValueOf(id)}) })
		case ft.NumIn() == 0:
			out = append(out, func(uint64) { fn.Call(nil) })
		}
	}
	return out
}

func c38NewConn(dialer bool) *peer.Connection {
	var id identity.AgentID
	return peer.NewConnection(&c38Conn{dialer: dialer}, peer.DefaultConnectionConfig(id))
}

func init() {
	atoi := func(s string) int { n, err := strconv.Atoi(s); must(err); return n }
	register("c38", &Engine{
		Run: func(line string) string {
			f := fields(line)
			switch f[0] {
			case "conc", "warm":
				dialer := f[1] == "d"
				g, p := atoi(f[len(f)-2]), atoi(f[len(f)-1])
				c := c38NewConn(dialer)
				defer c.Close()
				var start, done sync.WaitGroup
				start.Add(1)
				out := make([][]uint64, g+1)
				if f[0] == "warm" {
					for i, k := 0, atoi(f[2]); i < k; i++ {
						out[g] = append(out[g], c.NextStreamID())
					}
				}
				c38Hammer(c.NextStreamID, g, p, &start, &done, out)
				start.Done()
				done.Wait()
				s, _ := c38Stats(out, dialer)
				return "ok " + s
			case "cold":
				dialer := f[1] == "d"
				conns, g := atoi(f[2]), atoi(f[3])
				want, first := uint64(0), uint64(2)
				if dialer {
					want, first = 1, 1
				}
				dup, zero, bad, exact := 0, 0, 0, 0
				for n := 0; n < conns; n++ {
					c := c38NewConn(dialer)
					ids := make([]uint64, g)
					var ready atomic.Int32
					var done sync.WaitGroup
					for i := 0; i < g; i++ {
						i := i
						done.Add(1)
						go func() {
							defer done.Done()
							ready.Add(1)
							// barrier: all first allocations start together — a tight spin (so that they really
							// collide), bounded, then yielding (a pure spin starves an overloaded machine)
							for spins := 0; ready.Load() < int32(g); spins++ {
								if spins > 50000 {
									runtime.Gosched()
								}
							}
							ids[i] = c.NextStreamID()
						}()
					}
					done.Wait()
					c.Close()
					seen := map[uint64]bool{}
					isDup, isExact := false, true
					for _, id := range ids {
						if seen[id] {
							isDup = true
						}
						seen[id] = true
						if id == 0 {
							zero++
						}
						if id%2 != want {
							bad++
						}
					}
					for k := 0; k < g; k++ {
						if !seen[first+2*uint64(k)] {
							isExact = false
						}
					}
					if isDup {
						dup++
					}
					if isExact {
						exact++
					}
				}
				return fmt.Sprintf("ok conns=%d g=%d dup=%d zero=%d badparity=%d exact=%d", conns, g, dup, zero, bad, exact)
			case "life", "alife":
				dialer := f[1] == "d"
				n := atoi(f[2])
				var next func() uint64
				var giveBack []func(uint64)
				if f[0] == "life" {
					c := c38NewConn(dialer)
					defer c.Close()
					next, giveBack = c.NextStreamID, c38GiveBackMethods(reflect.ValueOf(c), true)
				} else {
					a := transport.NewStreamIDAllocator(dialer)
					next, giveBack = a.Next, c38GiveBackMethods(reflect.ValueOf(a), false)
				}
				var ids []uint64
				for i := 0; i < n; i++ {
					a := next()
					b := next()
					for _, m := range giveBack {
						m(a)
					}
					ids = append(ids, a, b, next())
				}
				st, _ := c38Stats([][]uint64{ids}, dialer)
				return "ok " + st
			case "mix":
				return c38Mix(f[1] == "d", f[2])
			case "pair":
				g, p := atoi(f[1]), atoi(f[2])
				cd, cl := c38NewConn(true), c38NewConn(false)
				defer cd.Close()
				defer cl.Close()
				var start, done sync.WaitGroup
				start.Add(1)
				outD, outL := make([][]uint64, g), make([][]uint64, g)
				c38Hammer(cd.NextStreamID, g, p, &start, &done, outD)
				c38Hammer(cl.NextStreamID, g, p, &start, &done, outL)
				start.Done()
				done.Wait()
				sd, setD := c38Stats(outD, true)
				sl, setL := c38Stats(outL, false)
				overlap := 0
				for id := range setD {
					if _, ok := setL[id]; ok {
						overlap++
					}
				}
				return fmt.Sprintf("ok d: %s l: %s overlap=%d", sd, sl, overlap)
			case "seq", "wrap":
				a := transport.NewStreamIDAllocator(f[1] == "d")
				k := atoi(f[len(f)-1])
				if f[0] == "wrap" {
					v, err := strconv.ParseUint(f[2], 10, 64)
					must(err)
					transport.C38SetNext(a, v)
				}
				var sb strings.Builder
				sb.WriteString("ok")
				for i := 0; i < k; i++ {
					fmt.Fprintf(&sb, " %d", a.Next())
				}
				return sb.String()
			}
			return "bad-op"
		},
		Gen: func(w *bufio.Writer, seed int64, tier string) {
			r := newRngMixed(seed)
			reps := 1
			if tier == "thorough" {
				reps = 10
			}
			for rep := 0; rep < reps; rep++ {
				for _, g := range []int{1, 2, 3, 8, 16, 64} {
					for _, p := range []int{1, 2, 100, 10000} {
						fmt.Fprintf(w, "conc %s %d %d\n", r.pickS("d", "l"), g, p)
					}
				}
				for _, g := range []int{1, 4, 32, 64} {
					fmt.Fprintf(w, "pair %d %d\n", g, r.pick(1, 50, 5000, 10000))
				}
				fmt.Fprintf(w, "conc d 64 %d\nconc l 64 %d\n", 10000+r.intn(5000), 10000+r.intn(5000))
				for i := 0; i < 6; i++ { // boundary totals and state left by earlier sequential use
					fmt.Fprintf(w, "warm %s %d %d %d\n", r.pickS("d", "l"), r.pick(1, 255, 256, 257, 4095, 4096, 4097, 65535, 65536, 65537), r.pick(1, 2, 8, 64), r.pick(1, 2, 255, 256, 257, 4096, 4097))
					fmt.Fprintf(w, "conc %s %d %d\n", r.pickS("d", "l"), r.pick(1, 2, 16), r.pick(255, 256, 257, 4095, 4096, 4097, 65535, 65536, 65537))
				}
				// cold connections: the very first allocations race
				for _, g := range []int{2, 3, 4} {
					fmt.Fprintf(w, "cold d %d %d\ncold l %d %d\n", 700+r.intn(300), g, 700+r.intn(300), g)
				}
				// who allocates: all ingress paths of one agent on one connection
				for _, role := range []string{"d", "l"} {
					seq := ""
					for j, m := 0, 4+r.intn(10); j < m; j++ {
						seq += r.pickS("t", "t", "u", "u", "i", "s")
					}
					fmt.Fprintf(w, "mix %s %s\nmix %s ttutiust\n", role, seq, role)
				}
				fmt.Fprintf(w, "life d %d\nlife l %d\nalife d %d\nalife l %d\n", 1+r.intn(50), 1+r.intn(50), 1+r.intn(50), 1+r.intn(50))
				for i := 0; i < 20; i++ {
					fmt.Fprintf(w, "seq %s %d\n", r.pickS("d", "l"), r.pick(0, 1, 2, 3, 10, 100))
				}
				for i := 0; i < 60; i++ {
					base := []uint64{0, 1, 2, 3, 1 << 32, 1<<63 - 2, 1 << 63, ^uint64(0) - 8, ^uint64(0) - 3, ^uint64(0) - 2, ^uint64(0) - 1, ^uint64(0), r.u64()}
					fmt.Fprintf(w, "wrap %s %d %d\n", r.pickS("d", "l"), base[r.intn(len(base))], r.pick(1, 2, 5, 8))
				}
			}
		},
		Facts: func(w *bufio.Writer) {
			d, l := transport.NewStreamIDAllocator(true), transport.NewStreamIDAllocator(false)
			d0, d1 := d.Next(), d.Next()
			l0 := l.Next()
			fmt.Fprintf(w, "-- GENERATED from /repo internal/transport (behaviour of fresh StreamIDAllocators) by `harness c38 facts`. Do not edit.\n")
			fmt.Fprintf(w, "namespace MM.Gen.C38\n")
			fmt.Fprintf(w, "def startDialer : Nat := %d\n", d0)
			fmt.Fprintf(w, "def startListener : Nat := %d\n", l0)
			fmt.Fprintf(w, "def delta : Nat := %d\n", d1-d0)
			fmt.Fprintf(w, "end MM.Gen.C38\n")
		},
	})
}
