//go:build verif && (all || c11)

package main

import (
	"bufio"
	"fmt"
	"net"
	"reflect"
	"sort"
	"strconv"
	"strings"
	"sync"
	"sync/atomic"
	"time"

	"github.com/postalsys/muti-metroo/internal/flood"
	"github.com/postalsys/muti-metroo/internal/identity"
	"github.com/postalsys/muti-metroo/internal/protocol"
	"github.com/postalsys/muti-metroo/internal/routing"
)

// Engine c11 (shared by C11..C15): N real flood.Flooder + routing.Manager pairs wired through a
// queueing PeerSender. Nothing runs concurrently: the op script decides which queued
// ROUTE_ADVERTISE frame on which directed link is delivered, duplicated or lost, which seen-cache
// key expires, which node announces / replays its table / cleans stale routes.
//
//	reset <N> <maxHops> <loc0> .. <locN-1>   loc = kind.key.metric+... | _   (kind 0 cidr 1 domain 2 forward)
//	connect a b        link a<->b comes up (no traffic yet)
//	disconnect a b     the connection a<->b is lost: queued frames are dropped, both ends run handlePeerDisconnect
//	replay a b         a runs SendFullTable(b)              -> r=ord:<origins in emission order>
//	announce a         a runs AnnounceLocalRoutes()
//	withdraw a         a runs WithdrawLocalRoutes() (ROUTE_WITHDRAW frames share the seen cache and floodFrame)
//	deliver a b i      frame i (mod queue length) of link a->b is handled by b   -> r=new|seen|drop|empty
//	dup a b i          same, but the frame also stays queued (duplicate delivery)
//	drop a b i         frame is lost
//	expire a o s       seen-cache key (o,s) of a expires (production cleanupSeenCache)  -> r=removed|absent
//	stale a age        a runs CleanupStale*Routes with a cutoff of `age` logical ticks -> r=removed:<n>
//	dump               full state
//	inject limit len   stateless: a fresh agent with max_hops = limit is handed an advertisement with all four
//	                   route families whose path has `len` agents -> r=inject stored=<cidr>/<domain>/<forward>/<agent> fwd=<n>
//	race k rounds      stateless stress: the same announcement reaches a fresh agent from k neighbours at
//	                   once (k goroutines, start barrier), `rounds` times -> r=race accepted=<max #true> fwd=<max
//	                   frames to one downstream neighbour> (must be 1 and 1: processed once, forwarded once)
//
// Output: r=<res> followed by the state of the acting node (n<i>=<seq>/<seen>/<table>) and the queues
// it touched (q<a>.<b>=<msgs>). Logical time = op index inside the case; LastUpdate is printed as the
// tick of the op that last added/refreshed the entry.
type c11Node struct {
	idx int
	id  identity.AgentID
	mgr *routing.Manager
	fl  *flood.Flooder
}

type c11Net struct {
	n       int
	maxHops []int // routing.max_hops per agent
	nodes   []*c11Node
	links   map[[2]int]bool
	q       map[[2]int][]c11Frame
	clock   int
	t0      time.Time
}

// c11Frame is a queued ROUTE_ADVERTISE (wd=false) or ROUTE_WITHDRAW (wd=true) payload.
type c11Frame struct {
	wd      bool
	payload []byte
}

type c11Sender struct {
	net  *c11Net
	self int
}

func c11ID(i int) identity.AgentID {
	var id identity.AgentID
	id[0], id[1], id[14], id[15] = 0xC1, 0x1F, byte((i+1)>>8), byte(i+1)
	return id
}

func c11Idx(id identity.AgentID) int {
	if id[0] == 0xC1 && id[1] == 0x1F && (id[14] != 0 || id[15] != 0) {
		return (int(id[14])<<8 | int(id[15])) - 1
	}
	return 99
}

func (s *c11Sender) SendToPeer(peerID identity.AgentID, frame *protocol.Frame) error {
	if frame.Type != protocol.FrameRouteAdvertise && frame.Type != protocol.FrameRouteWithdraw {
		return nil
	}
	k := [2]int{s.self, c11Idx(peerID)}
	s.net.q[k] = append(s.net.q[k], c11Frame{wd: frame.Type == protocol.FrameRouteWithdraw, payload: append([]byte(nil), frame.Payload...)})
	return nil
}

func (s *c11Sender) GetPeerIDs() []identity.AgentID {
	var out []identity.AgentID
	for _, p := range s.net.peers(s.self) {
		out = append(out, c11ID(p))
	}
	return out
}

func (nw *c11Net) peers(a int) []int {
	var out []int
	for b := 0; b < nw.n; b++ {
		if nw.links[[2]int{a, b}] {
			out = append(out, b)
		}
	}
	return out
}

func (nw *c11Net) syn(k int) time.Time {
	return nw.t0.Add(-100000*time.Hour + time.Duration(k)*time.Hour)
}

func (nw *c11Net) tick(t time.Time) int {
	d := t.Sub(nw.t0) + 100000*time.Hour
	return int((d + 30*time.Minute) / time.Hour)
}

func (nw *c11Net) stop() {
	for _, nd := range nw.nodes {
		nd.fl.Stop()
	}
}

func c11CIDR(k int) *net.IPNet {
	if k < 50 {
		return routing.MustParseCIDR(fmt.Sprintf("10.%d.0.0/16", k))
	}
	return routing.MustParseCIDR(fmt.Sprintf("fd00:%x::/32", k))
}

func c11CIDRKey(ip net.IP) int {
	if v4 := ip.To4(); v4 != nil {
		if v4[0] == 10 {
			return int(v4[1])
		}
		return 999
	}
	if len(ip) == 16 && ip[0] == 0xfd && ip[1] == 0 {
		return int(ip[2])<<8 | int(ip[3])
	}
	return 999
}

func c11Domain(k int) string {
	if k%2 == 1 {
		return fmt.Sprintf("*.d%d.example.com", k)
	}
	return fmt.Sprintf("d%d.example.com", k)
}

func c11NumAfter(s string, prefix string) int {
	i := strings.Index(s, prefix)
	if i < 0 {
		return 999
	}
	s = s[i+len(prefix):]
	j := 0
	for j < len(s) && s[j] >= '0' && s[j] <= '9' {
		j++
	}
	n, err := strconv.Atoi(s[:j])
	if err != nil {
		return 999
	}
	return n
}

type c11Loc struct{ kind, key, metric int }

func c11ParseLocs(tok string) []c11Loc {
	if tok == "_" {
		return nil
	}
	var out []c11Loc
	for _, p := range strings.Split(tok, "+") {
		f := strings.Split(p, ".")
		k, _ := strconv.Atoi(f[0])
		key, _ := strconv.Atoi(f[1])
		m, _ := strconv.Atoi(f[2])
		out = append(out, c11Loc{k, key, m})
	}
	return out
}

func c11New(n int, maxHops []int, locs [][]c11Loc) *c11Net {
	nw := &c11Net{n: n, maxHops: maxHops, links: map[[2]int]bool{}, q: map[[2]int][]c11Frame{}, t0: time.Now()}
	for i := 0; i < n; i++ {
		id := c11ID(i)
		mgr := routing.NewManager(id)
		cfg := flood.DefaultFloodConfig()
		// Hop limit: the field exists only on trees carrying the C15 repair; set it reflectively so
		// this engine also builds (and shows the difference) on trees without it.
		if fld := reflect.ValueOf(&cfg).Elem().FieldByName("MaxHops"); fld.IsValid() && fld.CanSet() && fld.Kind() == reflect.Int {
			fld.SetInt(int64(maxHops[i]))
		}
		fl := flood.NewFlooder(cfg, id, mgr, &c11Sender{net: nw, self: i})
		nw.nodes = append(nw.nodes, &c11Node{idx: i, id: id, mgr: mgr, fl: fl})
		for _, l := range locs[i] {
			switch l.kind {
			case 0:
				mgr.AddLocalRoute(c11CIDR(l.key), uint16(l.metric))
			case 1:
				mgr.AddLocalDomainRoute(c11Domain(l.key), uint16(l.metric))
			case 2:
				mgr.AddLocalForwardRoute(fmt.Sprintf("f%d", l.key), fmt.Sprintf("127.0.0.1:%d", 8000+l.key), uint16(l.metric))
			}
		}
		routing.C11Stamp(mgr, nw.t0, nw.syn(0))
	}
	return nw
}

type c11Entry struct {
	kind, key, origin, nh, metric int
	seq                           uint64
	lu                            int
	path                          []int
}

func c11Path(p []identity.AgentID) []int {
	out := make([]int, len(p))
	for i, id := range p {
		out[i] = c11Idx(id)
	}
	return out
}

func c11PathStr(p []int) string {
	if len(p) == 0 {
		return "_"
	}
	s := make([]string, len(p))
	for i, x := range p {
		s[i] = strconv.Itoa(x)
	}
	return strings.Join(s, "-")
}

func (nw *c11Net) entries(i int) []c11Entry {
	m := nw.nodes[i].mgr
	var es []c11Entry
	for _, r := range m.Table().GetAllRoutes() {
		es = append(es, c11Entry{0, c11CIDRKey(r.Network.IP), c11Idx(r.OriginAgent), c11Idx(r.NextHop), int(r.Metric), r.Sequence, nw.tick(r.LastUpdate), c11Path(r.Path)})
	}
	for _, r := range m.DomainTable().GetAllRoutes() {
		es = append(es, c11Entry{1, c11NumAfter(r.Pattern, "d"), c11Idx(r.OriginAgent), c11Idx(r.NextHop), int(r.Metric), r.Sequence, nw.tick(r.LastUpdate), c11Path(r.Path)})
	}
	for _, r := range m.ForwardTable().GetAllRoutes() {
		es = append(es, c11Entry{2, c11NumAfter(r.Key, "f"), c11Idx(r.OriginAgent), c11Idx(r.NextHop), int(r.Metric), r.Sequence, nw.tick(r.LastUpdate), c11Path(r.Path)})
	}
	for _, r := range m.AgentTable().GetAllRoutes() {
		es = append(es, c11Entry{3, c11Idx(r.AgentID), c11Idx(r.OriginAgent), c11Idx(r.NextHop), int(r.Metric), r.Sequence, nw.tick(r.LastUpdate), c11Path(r.Path)})
	}
	// canonical order: (kind,key); inside a key by origin for the three origin-keyed tables, and in
	// the table's own list order for the agent table (its order decides SendFullTable's path choice)
	sort.SliceStable(es, func(a, b int) bool {
		x, y := es[a], es[b]
		if x.kind != y.kind {
			return x.kind < y.kind
		}
		if x.key != y.key {
			return x.key < y.key
		}
		if x.kind < 3 && x.origin != y.origin {
			return x.origin < y.origin
		}
		return false
	})
	return es
}

func (nw *c11Net) nodeStr(i int) string {
	nd := nw.nodes[i]
	var seen []string
	for _, k := range flood.C11SeenKeys(nd.fl) {
		seen = append(seen, fmt.Sprintf("%d:%d", c11Idx(k.OriginAgent), k.Sequence))
	}
	sort.Slice(seen, func(a, b int) bool {
		fa, fb := strings.Split(seen[a], ":"), strings.Split(seen[b], ":")
		oa, _ := strconv.Atoi(fa[0])
		ob, _ := strconv.Atoi(fb[0])
		if oa != ob {
			return oa < ob
		}
		sa, _ := strconv.ParseUint(fa[1], 10, 64)
		sb, _ := strconv.ParseUint(fb[1], 10, 64)
		return sa < sb
	})
	var tab []string
	for _, e := range nw.entries(i) {
		tab = append(tab, fmt.Sprintf("%d:%d:%d:%d:%d:%d:%d:%s", e.kind, e.key, e.origin, e.nh, e.metric, e.seq, e.lu, c11PathStr(e.path)))
	}
	return fmt.Sprintf("n%d=%d/%s/%s", i, nd.mgr.GetCurrentSequence(), c11Join(seen), c11Join(tab))
}

func c11Join(xs []string) string {
	if len(xs) == 0 {
		return "_"
	}
	return strings.Join(xs, ",")
}

type c11Msg struct {
	origin int
	seq    uint64
	path   []int
	seenBy []int
	routes []c11Loc
	wd     bool
}

// c11DecodeWd decodes a ROUTE_WITHDRAW payload (what Agent.handleRouteWithdraw does first).
func c11DecodeWd(payload []byte) (*protocol.RouteWithdraw, *c11Msg) {
	w, err := protocol.DecodeRouteWithdraw(payload)
	if err != nil {
		return nil, nil
	}
	m := &c11Msg{origin: c11Idx(w.OriginAgent), seq: w.Sequence, seenBy: c11Path(w.SeenBy), wd: true}
	for _, r := range w.Routes {
		m.routes = append(m.routes, c11Loc{0, c11CIDRKey(net.IP(r.Prefix)), int(r.Metric)})
	}
	sort.SliceStable(m.routes, func(a, b int) bool { return m.routes[a].key < m.routes[b].key })
	return w, m
}

func c11DecodeFrame(f c11Frame) *c11Msg {
	if f.wd {
		_, m := c11DecodeWd(f.payload)
		return m
	}
	_, m := c11Decode(f.payload)
	return m
}

func c11Decode(payload []byte) (*protocol.RouteAdvertise, *c11Msg) {
	adv, err := protocol.DecodeRouteAdvertise(payload)
	if err != nil {
		return nil, nil
	}
	m := &c11Msg{origin: c11Idx(adv.OriginAgent), seq: adv.Sequence, path: c11Path(adv.Path), seenBy: c11Path(adv.SeenBy)}
	for _, r := range adv.Routes {
		var l c11Loc
		l.metric = int(r.Metric)
		switch r.AddressFamily {
		case protocol.AddrFamilyDomain:
			l.kind, l.key = 1, c11NumAfter(protocol.DecodeDomainPrefix(r.Prefix), "d")
		case protocol.AddrFamilyForward:
			k, _ := protocol.DecodeForwardKeyAndTarget(r.Prefix)
			l.kind, l.key = 2, c11NumAfter(k, "f")
		case protocol.AddrFamilyAgent:
			l.kind, l.key = 3, c11Idx(protocol.DecodeAgentPrefix(r.Prefix))
		default:
			l.kind, l.key = 0, c11CIDRKey(net.IP(r.Prefix))
		}
		m.routes = append(m.routes, l)
	}
	sort.SliceStable(m.routes, func(a, b int) bool {
		if m.routes[a].kind != m.routes[b].kind {
			return m.routes[a].kind < m.routes[b].kind
		}
		return m.routes[a].key < m.routes[b].key
	})
	return adv, m
}

func (m *c11Msg) String() string {
	var rs []string
	for _, r := range m.routes {
		rs = append(rs, fmt.Sprintf("%d.%d.%d", r.kind, r.key, r.metric))
	}
	r := "_"
	if len(rs) > 0 {
		r = strings.Join(rs, "+")
	}
	out := fmt.Sprintf("%d:%d:%s:%s:%s", m.origin, m.seq, c11PathStr(m.path), c11PathStr(m.seenBy), r)
	if m.wd {
		out += ":w"
	}
	return out
}

func (nw *c11Net) queueStr(a, b int) string {
	var ms []string
	for _, p := range nw.q[[2]int{a, b}] {
		m := c11DecodeFrame(p)
		if m == nil {
			ms = append(ms, "undecodable")
		} else {
			ms = append(ms, m.String())
		}
	}
	return fmt.Sprintf("q%d.%d=%s", a, b, c11Join(ms))
}

func (nw *c11Net) outQueues(a int) []string {
	var out []string
	for _, p := range nw.peers(a) {
		out = append(out, nw.queueStr(a, p))
	}
	return out
}

// apply executes one op (not reset) on the real objects.
func (nw *c11Net) apply(f []string) string {
	nw.clock++
	start := time.Now()
	defer func() {
		for _, nd := range nw.nodes {
			routing.C11Stamp(nd.mgr, start, nw.syn(nw.clock))
		}
	}()
	arg := func(i int) int {
		if i >= len(f) {
			return -1
		}
		v, err := strconv.Atoi(f[i])
		if err != nil {
			return -1
		}
		return v
	}
	node := func(v int) bool { return v >= 0 && v < nw.n }
	// out stamps first (LastUpdate -> logical tick) and only then renders the state
	out := func(res string, parts ...func() []string) string {
		for _, nd := range nw.nodes {
			routing.C11Stamp(nd.mgr, start, nw.syn(nw.clock))
		}
		all := []string{"r=" + res}
		for _, p := range parts {
			all = append(all, p()...)
		}
		return strings.Join(all, " ")
	}
	nodeS := func(i int) func() []string { return func() []string { return []string{nw.nodeStr(i)} } }
	queueS := func(a, b int) func() []string { return func() []string { return []string{nw.queueStr(a, b)} } }
	outQ := func(a int) func() []string { return func() []string { return nw.outQueues(a) } }
	switch f[0] {
	case "connect":
		a, b := arg(1), arg(2)
		if !node(a) || !node(b) || a == b {
			return "r=bad"
		}
		nw.links[[2]int{a, b}] = true
		nw.links[[2]int{b, a}] = true
		return "r=ok"
	case "disconnect":
		a, b := arg(1), arg(2)
		if !node(a) || !node(b) || !nw.links[[2]int{a, b}] {
			return "r=nolink"
		}
		delete(nw.links, [2]int{a, b})
		delete(nw.links, [2]int{b, a})
		delete(nw.q, [2]int{a, b})
		delete(nw.q, [2]int{b, a})
		// Agent.handlePeerDisconnect at both ends
		for _, e := range [][2]int{{a, b}, {b, a}} {
			m, peer := nw.nodes[e[0]].mgr, c11ID(e[1])
			m.HandlePeerDisconnect(peer)
			m.HandlePeerDisconnectDomain(peer)
			m.HandlePeerDisconnectForward(peer)
			m.HandlePeerDisconnectAgent(peer)
		}
		return out("ok", nodeS(a), nodeS(b))
	case "replay":
		a, b := arg(1), arg(2)
		if !node(a) || !node(b) || !nw.links[[2]int{a, b}] {
			return "r=nolink"
		}
		before := len(nw.q[[2]int{a, b}])
		nw.nodes[a].fl.SendFullTable(c11ID(b))
		var ord []string
		for _, p := range nw.q[[2]int{a, b}][before:] {
			if m := c11DecodeFrame(p); m != nil {
				ord = append(ord, strconv.Itoa(m.origin))
			} else {
				ord = append(ord, "x")
			}
		}
		return out("ord:"+c11Join(ord), nodeS(a), queueS(a, b))
	case "announce":
		a := arg(1)
		if !node(a) {
			return "r=bad"
		}
		nw.nodes[a].fl.AnnounceLocalRoutes()
		return out("ok", nodeS(a), outQ(a))
	case "withdraw":
		a := arg(1)
		if !node(a) {
			return "r=bad"
		}
		nw.nodes[a].fl.WithdrawLocalRoutes()
		return out("ok", nodeS(a), outQ(a))
	case "deliver", "dup", "drop":
		a, b, i := arg(1), arg(2), arg(3)
		if !node(a) || !node(b) || !nw.links[[2]int{a, b}] || i < 0 {
			return "r=nolink"
		}
		k := [2]int{a, b}
		if len(nw.q[k]) == 0 {
			return "r=empty"
		}
		i %= len(nw.q[k])
		frame := nw.q[k][i]
		payload := frame.payload
		if f[0] != "dup" {
			nq := append([]c11Frame(nil), nw.q[k][:i]...)
			nw.q[k] = append(nq, nw.q[k][i+1:]...)
		}
		if f[0] == "drop" {
			return out("ok", queueS(a, b))
		}
		fl := nw.nodes[b].fl
		if frame.wd {
			// what Agent.handleRouteWithdraw does with a ROUTE_WITHDRAW frame from peer a
			w, _ := c11DecodeWd(payload)
			if w == nil {
				return out("undecodable", nodeS(b), queueS(a, b))
			}
			pre := fl.HasSeen(w.OriginAgent, w.Sequence)
			ret := fl.HandleRouteWithdraw(c11ID(a), w.OriginAgent, w.Sequence, w.Routes, w.SeenBy)
			res := "new"
			if pre {
				res = "seen"
			} else if !ret {
				res = "drop"
			}
			if pre && ret {
				res = "seen-but-processed"
			}
			return out(res, nodeS(b), queueS(a, b), outQ(b))
		}
		// what Agent.handleRouteAdvertise does with a ROUTE_ADVERTISE frame from peer a
		adv, _ := c11Decode(payload)
		if adv == nil {
			return out("undecodable", nodeS(b), queueS(a, b))
		}
		pre := fl.HasSeen(adv.OriginAgent, adv.Sequence)
		ret := fl.HandleRouteAdvertise(c11ID(a), adv.OriginAgent, adv.OriginDisplayName, adv.Sequence, adv.Routes, adv.EncPath, adv.SeenBy)
		res := "new"
		if pre {
			res = "seen"
		} else if !ret {
			res = "drop"
		}
		if pre && ret {
			res = "seen-but-processed"
		}
		return out(res, nodeS(b), queueS(a, b), outQ(b))
	case "expire":
		a, o, s := arg(1), arg(2), arg(3)
		if !node(a) || o < 0 || s < 0 {
			return "r=bad"
		}
		res := "absent"
		if flood.C11ExpireSeen(nw.nodes[a].fl, c11ID(o), uint64(s)) {
			res = "removed"
		}
		return out(res, nodeS(a))
	case "stale":
		a, age := arg(1), arg(2)
		if !node(a) || age < 0 {
			return "r=bad"
		}
		maxAge := time.Since(nw.syn(nw.clock-age)) + 30*time.Minute
		m := nw.nodes[a].mgr
		n := m.CleanupStaleRoutes(maxAge) + m.CleanupStaleDomainRoutes(maxAge) + m.CleanupStaleForwardRoutes(maxAge) + m.CleanupStaleAgentRoutes(maxAge)
		return out(fmt.Sprintf("removed:%d", n), nodeS(a))
	case "walk", "uwalk":
		if fn := c11ExtraOps[f[0]]; fn != nil {
			return fn(f)
		}
		return "r=bad"
	case "inject":
		limit, plen := arg(1), arg(2)
		if limit < 0 || limit > 255 || plen < 1 || plen > 250 {
			return "r=bad"
		}
		return c11Inject(limit, plen)
	case "race":
		k, rounds := arg(1), arg(2)
		if k < 2 || k > 16 || rounds < 1 || rounds > 5000 {
			return "r=bad"
		}
		return c11Race(k, rounds)
	case "dump":
		return out("dump", func() []string {
			var parts []string
			for i := 0; i < nw.n; i++ {
				parts = append(parts, nw.nodeStr(i))
			}
			for a := 0; a < nw.n; a++ {
				parts = append(parts, nw.outQueues(a)...)
			}
			return parts
		})
	}
	return "r=bad"
}

// c11Inject hands a fresh Flooder (max_hops = limit) one advertisement of origin 50 that has travelled
// plen hops (path = sender 1, agents 10.., origin 50) and carries a CIDR, a domain, a forward and the
// presence route, and reports what each of the four tables stored and how many copies went on.
func c11Inject(limit, plen int) string {
	self, from, down, origin := c11ID(0), c11ID(1), c11ID(2), c11ID(50)
	snd := &c11RaceSender{sent: map[identity.AgentID]int{}, peers: []identity.AgentID{from, down}}
	mgr := routing.NewManager(self)
	cfg := flood.DefaultFloodConfig()
	if fld := reflect.ValueOf(&cfg).Elem().FieldByName("MaxHops"); fld.IsValid() && fld.CanSet() && fld.Kind() == reflect.Int {
		fld.SetInt(int64(limit))
	}
	fl := flood.NewFlooder(cfg, self, mgr, snd)
	defer fl.Stop()
	path := []identity.AgentID{from}
	for i := 0; len(path) < plen-1; i++ {
		path = append(path, c11ID(60+i))
	}
	if plen > 1 {
		path = append(path, origin)
	} else {
		path[0], from = origin, origin
		snd.peers[0] = origin
	}
	seenBy := make([]identity.AgentID, len(path))
	for i := range path {
		seenBy[i] = path[len(path)-1-i]
	}
	m := uint16(plen - 1)
	routes := []protocol.Route{
		{AddressFamily: protocol.AddrFamilyIPv4, PrefixLength: 16, Prefix: []byte{10, 1, 0, 0}, Metric: m},
		{AddressFamily: protocol.AddrFamilyDomain, Prefix: protocol.EncodeDomainPrefix(c11Domain(2)), Metric: m},
		{AddressFamily: protocol.AddrFamilyForward, Prefix: protocol.EncodeForwardKeyWithTarget("f1", "127.0.0.1:8001"), Metric: m},
		{AddressFamily: protocol.AddrFamilyAgent, Prefix: protocol.EncodeAgentPrefix(origin), Metric: m},
	}
	enc := &protocol.EncryptedData{Data: protocol.EncodePath(path)}
	fl.HandleRouteAdvertise(from, origin, "", 9, routes, enc, seenBy)
	return fmt.Sprintf("r=inject stored=%d/%d/%d/%d fwd=%d", mgr.Table().TotalRoutes(), mgr.DomainTable().TotalRoutes(),
		mgr.ForwardTable().TotalRoutes(), mgr.AgentTable().TotalRoutes(), snd.sent[down])
}

// c11RaceSender counts frames per peer; safe for concurrent use.
type c11RaceSender struct {
	mu    sync.Mutex
	peers []identity.AgentID
	sent  map[identity.AgentID]int
}

func (s *c11RaceSender) SendToPeer(peerID identity.AgentID, frame *protocol.Frame) error {
	s.mu.Lock()
	s.sent[peerID]++
	s.mu.Unlock()
	return nil
}

func (s *c11RaceSender) GetPeerIDs() []identity.AgentID { return s.peers }

// c11Race delivers one announcement (same origin and sequence number, one copy per neighbour, each
// with that neighbour's path / seen-by) to a fresh Flooder from k goroutines released together.
// With an atomic seen-cache test-and-set exactly one copy is accepted and every other neighbour
// receives exactly one forwarded frame.
func c11Race(k, rounds int) string {
	maxAcc, maxFwd := 0, 0
	for r := 0; r < rounds; r++ {
		self, origin, down := c11ID(0), c11ID(200), c11ID(100)
		snd := &c11RaceSender{sent: map[identity.AgentID]int{}}
		for i := 1; i <= k; i++ {
			snd.peers = append(snd.peers, c11ID(i))
		}
		snd.peers = append(snd.peers, down)
		mgr := routing.NewManager(self)
		fl := flood.NewFlooder(flood.DefaultFloodConfig(), self, mgr, snd)
		routes := []protocol.Route{
			{AddressFamily: protocol.AddrFamilyIPv4, PrefixLength: 16, Prefix: []byte{10, 1, 0, 0}, Metric: 1},
			{AddressFamily: protocol.AddrFamilyAgent, Prefix: protocol.EncodeAgentPrefix(origin), Metric: 1},
		}
		var wg sync.WaitGroup
		start := make(chan struct{})
		var acc int32
		for i := 1; i <= k; i++ {
			from := c11ID(i)
			enc := &protocol.EncryptedData{Data: protocol.EncodePath([]identity.AgentID{from, origin})}
			seenBy := []identity.AgentID{origin, from}
			wg.Add(1)
			go func() {
				defer wg.Done()
				<-start
				if fl.HandleRouteAdvertise(from, origin, "", uint64(7+r), routes, enc, seenBy) {
					atomic.AddInt32(&acc, 1)
				}
			}()
		}
		close(start)
		wg.Wait()
		fl.Stop()
		if int(acc) > maxAcc {
			maxAcc = int(acc)
		}
		if snd.sent[down] > maxFwd {
			maxFwd = snd.sent[down]
		}
	}
	return fmt.Sprintf("r=race accepted=%d fwd=%d", maxAcc, maxFwd)
}

// c11ExtraOps: stateless ops contributed by other files of this package (own build tags), e.g. the
// STREAM_OPEN walk of eng_c12w.go. They still take one logical tick.
var c11ExtraOps = map[string]func(f []string) string{}

func c11Reset(f []string) (*c11Net, string) {
	if len(f) < 3 {
		return nil, "r=bad"
	}
	n, err1 := strconv.Atoi(f[1])
	if err1 != nil || n < 1 || n > 300 || len(f) != 3+n {
		return nil, "r=bad"
	}
	// one limit for the whole mesh, or one per agent: h0,h1,...
	var mh []int
	for _, t := range strings.Split(f[2], ",") {
		v, err := strconv.Atoi(t)
		if err != nil || v < 0 {
			return nil, "r=bad"
		}
		mh = append(mh, v)
	}
	if len(mh) == 1 {
		for len(mh) < n {
			mh = append(mh, mh[0])
		}
	}
	if len(mh) != n {
		return nil, "r=bad"
	}
	locs := make([][]c11Loc, n)
	for i := 0; i < n; i++ {
		locs[i] = c11ParseLocs(f[3+i])
	}
	nw := c11New(n, mh, locs)
	var parts []string
	for i := 0; i < n; i++ {
		parts = append(parts, nw.nodeStr(i))
	}
	return nw, "r=reset " + strings.Join(parts, " ")
}

func init() {
	var cur *c11Net
	eng := &Engine{
		Run: func(line string) string {
			f := fields(line)
			if f[0] == "reset" {
				if cur != nil {
					cur.stop()
					cur = nil
				}
				nw, out := c11Reset(f)
				cur = nw
				return out
			}
			if cur == nil {
				return "r=noreset"
			}
			return cur.apply(f)
		},
		Gen: c11Gen,
	}
	// one engine, five names: each property has its own Lean driver (own `spec` mode) and its own
	// generator profile, all run the same real objects
	for _, name := range []string{"c11", "c12", "c13", "c14", "c15"} {
		e := *eng
		prof := name
		e.Gen = func(w *bufio.Writer, seed int64, tier string) { c11GenProfile(w, seed, tier, prof) }
		register(name, &e)
	}
}

// ---------------------------------------------------------------------------------- generator

func c11Topology(r *rng, n int, kind int) [][2]int {
	var es [][2]int
	has := map[[2]int]bool{}
	add := func(a, b int) {
		if a == b {
			return
		}
		if a > b {
			a, b = b, a
		}
		if !has[[2]int{a, b}] {
			has[[2]int{a, b}] = true
			es = append(es, [2]int{a, b})
		}
	}
	perm := make([]int, n)
	for i := range perm {
		perm[i] = i
	}
	for i := n - 1; i > 0; i-- {
		j := r.intn(i + 1)
		perm[i], perm[j] = perm[j], perm[i]
	}
	if kind < 0 {
		kind = r.intn(6)
	}
	switch kind {
	case 0: // chain
		for i := 0; i+1 < n; i++ {
			add(perm[i], perm[i+1])
		}
	case 1: // ring
		for i := 0; i < n; i++ {
			add(perm[i], perm[(i+1)%n])
		}
	case 2: // star
		for i := 1; i < n; i++ {
			add(perm[0], perm[i])
		}
	case 3: // clique
		for i := 0; i < n; i++ {
			for j := i + 1; j < n; j++ {
				add(i, j)
			}
		}
	default: // random tree plus extra edges
		for i := 1; i < n; i++ {
			add(perm[i], perm[r.intn(i)])
		}
		for k := r.intn(n); k > 0; k-- {
			add(r.intn(n), r.intn(n))
		}
	}
	// random order in which the links come up
	for i := len(es) - 1; i > 0; i-- {
		j := r.intn(i + 1)
		es[i], es[j] = es[j], es[i]
	}
	return es
}

func c11GenLocs(r *rng, n int) []string {
	out := make([]string, n)
	for i := 0; i < n; i++ {
		var ls []string
		used := map[[2]int]bool{}
		for k := r.pick(0, 0, 1, 1, 1, 2, 3); k > 0; k-- {
			kind := r.pick(0, 0, 0, 1, 2)
			key := r.pick(1, 1, 2, 3)
			if kind == 0 && r.chance(15) {
				key = 60 + r.intn(2)
			}
			if used[[2]int{kind, key}] {
				continue
			}
			used[[2]int{kind, key}] = true
			metric := r.pick(0, 0, 0, 1, 1, 2, 5, 10)
			if r.chance(3) {
				metric = 65534
			}
			ls = append(ls, fmt.Sprintf("%d.%d.%d", kind, key, metric))
		}
		if len(ls) == 0 {
			out[i] = "_"
		} else {
			out[i] = strings.Join(ls, "+")
		}
	}
	return out
}

// c11Gen drives a private instance of the real mesh while it writes the script, so that deliveries
// address non-empty queues and expiries address cached keys. (Indices are taken modulo the queue
// length by both sides, so the script stays meaningful when SendFullTable's map-iteration order,
// which the model follows from the implementation's answer, differs between runs.)
func c11Gen(w *bufio.Writer, seed int64, tier string) { c11GenProfile(w, seed, tier, "c11") }

func c11GenProfile(w *bufio.Writer, seed int64, tier string, prof string) {
	r := newRng(seed)
	cases, maxN, steps := 100, 5, 45
	if tier == "thorough" {
		cases, maxN, steps = 1800, 7, 70
	}
	if prof == "c15" {
		// always: an agent with limit h (1..4) behind neighbours with a larger limit is handed the
		// announcement from h+1 hops away; and direct injections at limit-1, limit, limit+1, limit+2
		for h := 1; h <= 4; h++ {
			n := h + 3
			mhs, locs := make([]string, n), make([]string, n)
			for i := range mhs {
				mhs[i], locs[i] = "16", "_"
				if i > h {
					mhs[i] = strconv.Itoa(h)
				}
			}
			locs[0] = "0.1.0+1.2.1+2.1.2"
			fmt.Fprintf(w, "reset %d %s %s\n", n, strings.Join(mhs, ","), strings.Join(locs, " "))
			for i := 0; i+1 < n; i++ {
				fmt.Fprintf(w, "connect %d %d\n", i, i+1)
			}
			fmt.Fprintln(w, "announce 0")
			for i := 0; i+1 < n; i++ {
				fmt.Fprintf(w, "deliver %d %d 0\n", i, i+1)
			}
			fmt.Fprintf(w, "replay %d %d\n", h, h+1)
			fmt.Fprintf(w, "deliver %d %d 0\n", h, h+1)
			for _, d := range []int{-1, 0, 1, 2} {
				if h+d >= 1 {
					fmt.Fprintf(w, "inject %d %d\n", h, h+d)
				}
			}
			fmt.Fprintln(w, "dump")
		}
		fmt.Fprintln(w, "inject 0 40")
		fmt.Fprintln(w, "inject 16 17")
	}
	if prof == "c12" {
		// learned routes at distance exactly max_hops and max_hops-1, for max_hops 1..4 (always), a few
		// longer ones: a stream opened along the recorded path must reach the advertising agent
		fmt.Fprintln(w, "reset 1 0 _")
		for mh := 1; mh <= 4; mh++ {
			for _, l := range []int{mh, mh - 1} {
				if l < 1 {
					continue
				}
				var p []string
				for i := 1; i <= l; i++ {
					p = append(p, strconv.Itoa(i))
				}
				fmt.Fprintf(w, "walk %d 0 %s\n", mh, strings.Join(p, "-"))
			}
		}
		// UDP_OPEN built by the real ingress code, for routes of 1, 2, 3 (and 5) hops
		for _, mh := range []int{16, 3} {
			fmt.Fprintf(w, "uwalk %d 0 1\n", mh)
			fmt.Fprintf(w, "uwalk %d 0 1-2\n", mh)
			fmt.Fprintf(w, "uwalk %d 0 1-2-3\n", mh)
		}
		fmt.Fprintln(w, "uwalk 16 4 3-0-7-2-9")
		fmt.Fprintln(w, "walk 16 0 1-2-3-4-5-6-7-8-9-10-11-12-13-14-15-16")
		fmt.Fprintln(w, "walk 8 3 2-5-0-7-1-4-6")
		fmt.Fprintln(w, "walk 0 0 4-3-2-1")
	}
	for c := 0; c < cases; c++ {
		n := 2 + r.intn(maxN-1)
		if r.chance(50) && n > 4 {
			n = 3 + r.intn(2)
		}
		g := c11CaseCfg{n: n, steps: steps + r.intn(steps), eagerPct: 60, replayPct: 4, topo: -1}
		if r.chance(3) { // rare: big mesh / long chain (paths of 8-20 hops), long history on re-used state
			g.n = 9 + r.intn(12)
			g.steps = 3 * steps
			if r.chance(60) {
				g.topo = r.pick(0, 0, 1)
			}
		} else if r.chance(6) { // long history on a small mesh: many reconnect/expiry/redelivery rounds
			g.steps = 6 * steps
		} else if r.chance(2) || (prof == "c14" && r.chance(3)) {
			// an origin with more than 255 routes: announcements and replays span several
			// advertisements, each with its own sequence number (splitRoutes)
			g.n = 3 + r.intn(2)
			g.big = 256 + r.intn(60)
			g.steps = 25 + r.intn(15)
			g.eagerPct, g.replayPct = 40, 14
		}
		switch prof {
		case "c11":
			if r.chance(30) {
				g.mh = r.pick(1, 2, 2, 3, 3, 4, 16)
			}
		case "c12":
			if r.chance(12) {
				c11GenReroute(w, r)
				continue
			}
			g.walk = r.chance(30)
			if tier == "thorough" {
				g.walk = r.chance(5)
			}
			chainPct := 12
			if tier == "thorough" {
				chainPct = 4
			}
			if r.chance(chainPct) { // chains exactly as long as the hop limit and one longer
				g.mh = r.pick(1, 2, 3, 4)
				g.n = g.mh + 1 + r.intn(2)
				g.topo, g.walk = 0, true
			}
			if r.chance(45) {
				g.clean = true
			} else if r.chance(15) {
				g.mh = r.pick(2, 3, 16)
			}
		case "c13":
			g.eagerPct, g.replayPct = 50, 6
			if r.chance(10) {
				g.mh = r.pick(3, 4, 16)
			}
		case "c14":
			g.eagerPct, g.replayPct = 25, 12
			if r.chance(25) {
				// convergence case with a link that comes up late: its table replay re-advertises other
				// origins' routes; afterwards every agent announces and everything is delivered
				g.clean, g.late = true, r.chance(70)
			}
		case "c15":
			// chains / rings / meshes longer than the limit
			g.mh = r.pick(1, 1, 2, 2, 3, 3, 4)
			if r.chance(10) || (tier == "thorough" && r.chance(20)) {
				g.mh = r.pick(5, 8, 16)
			}
			g.n = g.mh + 1 + r.intn(4)
			if g.n > 22 {
				g.n = 22
			}
			if r.chance(55) {
				g.topo = 0 // chain
			} else if r.chance(50) {
				g.topo = 1 // ring
			}
			if r.chance(10) {
				g.mh = 0
			}
			g.mixed = r.chance(40)
		}
		c11GenCase(w, r, g)
	}
}

// c11GenReroute: a link BEHIND the next hop disappears while an equally long alternative exists
// (D - C, C - X, C - Y, X - A, Y - A): after the origin's next announcements the recorded paths
// must follow the links that exist now.
func c11GenReroute(w *bufio.Writer, r *rng) {
	n := 5 + r.intn(2)
	locs := c11GenLocs(r, n)
	locs[0] = fmt.Sprintf("0.1.%d", r.pick(0, 0, 1, 3))
	head := fmt.Sprintf("reset %d 0 %s", n, strings.Join(locs, " "))
	nw, _ := c11Reset(fields(head))
	defer nw.stop()
	fmt.Fprintln(w, head)
	emit := func(format string, a ...interface{}) {
		line := fmt.Sprintf(format, a...)
		fmt.Fprintln(w, line)
		nw.apply(fields(line))
	}
	drain := func() {
		for k := 0; k < 2000; k++ {
			var ne [][2]int
			for a := 0; a < n; a++ {
				for _, b := range nw.peers(a) {
					if len(nw.q[[2]int{a, b}]) > 0 {
						ne = append(ne, [2]int{a, b})
					}
				}
			}
			if len(ne) == 0 {
				return
			}
			l := ne[0]
			if r.chance(50) {
				l = ne[r.intn(len(ne))]
			}
			emit("deliver %d %d 0", l[0], l[1])
		}
	}
	links := [][2]int{{3, 4}, {3, 1}, {3, 2}, {1, 0}, {2, 0}}
	if n == 6 {
		links = append(links, [2]int{4, 5})
	}
	for i := len(links) - 1; i > 0; i-- {
		j := r.intn(i + 1)
		links[i], links[j] = links[j], links[i]
	}
	for _, l := range links {
		emit("connect %d %d", l[0], l[1])
		emit("replay %d %d", l[0], l[1])
		emit("replay %d %d", l[1], l[0])
	}
	emit("announce 0")
	drain()
	// which of X (1) / Y (2) does C's route to A's network run through?
	via := 1
	for _, e := range nw.entries(3) {
		if e.kind == 0 && e.origin == 0 && len(e.path) > 0 {
			via = e.path[0]
		}
	}
	if via != 1 && via != 2 {
		via = 1
	}
	emit("disconnect %d 0", via)
	for k := 2 + r.intn(2); k > 0; k-- {
		emit("announce 0")
		if r.chance(30) {
			emit("announce %d", 1+r.intn(n-1))
		}
		drain()
	}
	emit("dump")
}

type c11CaseCfg struct {
	n, mh, steps        int
	eagerPct, replayPct int
	topo                int  // -1 random, else c11Topology kind
	clean               bool // convergence case: see convergeChecks in MM/Model/C11Wire.lean
	big                 int  // > 0: agent 0 has that many CIDR routes
	late                bool // clean case: one more link comes up (with table replays) half-way
	mixed               bool // every agent gets its own max_hops
	walk                bool // end the case with STREAM_OPEN walks along learned routes (engine c12)
}

func c11GenCase(w *bufio.Writer, r *rng, g c11CaseCfg) {
	n := g.n
	locs := c11GenLocs(r, n)
	if g.big > 0 {
		var ls []string
		for k := 0; k < g.big; k++ {
			ls = append(ls, fmt.Sprintf("0.%d.%d", 300+k, r.pick(0, 0, 1, 2)))
		}
		if r.chance(50) {
			ls = append(ls, "1.2.0", "2.1.3")
		}
		locs[0] = strings.Join(ls, "+")
	}
	mhTok := strconv.Itoa(g.mh)
	if g.mixed {
		// every agent has its own limit: the one of the case, a larger one, or none
		var ms []string
		for i := 0; i < n; i++ {
			ms = append(ms, strconv.Itoa(r.pick(g.mh, g.mh, g.mh+1, g.mh+2, 16, 1, 2, 0)))
		}
		mhTok = strings.Join(ms, ",")
	}
	head := fmt.Sprintf("reset %d %s %s", n, mhTok, strings.Join(locs, " "))
	nw, _ := c11Reset(fields(head))
	defer nw.stop()
	fmt.Fprintln(w, head)
	emit := func(format string, a ...interface{}) {
		line := fmt.Sprintf(format, a...)
		fmt.Fprintln(w, line)
		nw.apply(fields(line))
	}
	pending := c11Topology(r, n, g.topo)
	bringUp := func() {
		e := pending[0]
		pending = pending[1:]
		a, b := e[0], e[1]
		if r.chance(50) {
			a, b = b, a
		}
		emit("connect %d %d", a, b)
		if g.clean || r.chance(92) {
			emit("replay %d %d", a, b)
		}
		if g.clean || r.chance(92) {
			emit("replay %d %d", b, a)
		}
	}
	if g.clean || r.chance(g.eagerPct) { // bring the whole topology up before any delivery
		for len(pending) > 0 {
			bringUp()
		}
	}
	nonEmptyLinks := func() [][2]int {
		var ne [][2]int
		for a := 0; a < n; a++ {
			for _, b := range nw.peers(a) {
				if len(nw.q[[2]int{a, b}]) > 0 {
					ne = append(ne, [2]int{a, b})
				}
			}
		}
		return ne
	}
	for s := 0; s < g.steps; s++ {
		if g.late && s == g.steps/2 {
			for tries := 0; tries < 20; tries++ {
				a, b := r.intn(n), r.intn(n)
				if a != b && !nw.links[[2]int{a, b}] {
					emit("connect %d %d", a, b)
					emit("replay %d %d", a, b)
					emit("replay %d %d", b, a)
					break
				}
			}
		}
		nonEmpty := nonEmptyLinks()
		x := r.intn(100)
		if g.clean { // only deliveries, duplicates and announcements
			switch {
			case x < 75 && len(nonEmpty) > 0:
				x = 20
			case x < 85 && len(nonEmpty) > 0:
				x = 72
			default:
				x = 80
			}
		}
		switch {
		case len(pending) > 0 && (x < 12 || len(nw.links) == 0):
			bringUp()
		case x < 70 && len(nonEmpty) > 0:
			l := nonEmpty[r.intn(len(nonEmpty))]
			i := 0
			if r.chance(40) {
				i = r.intn(len(nw.q[l]))
			}
			emit("deliver %d %d %d", l[0], l[1], i)
		case x < 76 && len(nonEmpty) > 0:
			l := nonEmpty[r.intn(len(nonEmpty))]
			emit("dup %d %d %d", l[0], l[1], r.intn(len(nw.q[l])))
		case x < 78 && len(nonEmpty) > 0:
			l := nonEmpty[r.intn(len(nonEmpty))]
			emit("drop %d %d %d", l[0], l[1], r.intn(len(nw.q[l])))
		case x < 86:
			emit("announce %d", r.intn(n))
		case x < 91:
			a := r.intn(n)
			keys := flood.C11SeenKeys(nw.nodes[a].fl)
			if len(keys) > 0 && r.chance(90) {
				k := keys[r.intn(len(keys))]
				emit("expire %d %d %d", a, c11Idx(k.OriginAgent), k.Sequence)
			} else {
				emit("expire %d %d %d", a, r.intn(n), 1+r.intn(6))
			}
		case x < 91+g.replayPct && len(nw.links) > 0:
			a := r.intn(n)
			if ps := nw.peers(a); len(ps) > 0 {
				emit("replay %d %d", a, ps[r.intn(len(ps))])
			}
		case x < 96:
			emit("stale %d %d", r.intn(n), r.pick(0, 1, 3, 8, 20))
		case x < 97:
			emit("withdraw %d", r.intn(n))
		case x < 98:
			if r.chance(50) || len(nw.links) == 0 {
				emit("connect %d %d", r.intn(n), r.intn(n))
			} else { // lose a random live connection
				a := r.intn(n)
				if ps := nw.peers(a); len(ps) > 0 {
					emit("disconnect %d %d", a, ps[r.intn(len(ps))])
				}
			}
		default:
			if len(nonEmpty) > 0 {
				l := nonEmpty[0]
				emit("deliver %d %d 0", l[0], l[1])
			} else {
				emit("announce %d", r.intn(n))
			}
		}
	}
	if g.clean {
		for a := 0; a < n; a++ {
			emit("announce %d", a)
		}
	}
	// drain: run to quiescence in FIFO order (bounded), then show everything
	drained := false
	for k := 0; k < 3000; k++ {
		ne := nonEmptyLinks()
		if len(ne) == 0 {
			drained = true
			break
		}
		emit("deliver %d %d 0", ne[0][0], ne[0][1])
	}
	if r.chance(2) {
		emit("race %d %d", 2+r.intn(5), 150)
	}
	if g.walk {
		// open a stream along up to two learned routes of this case (prefer the longest paths)
		type cand struct {
			x    int
			path []int
		}
		var cs []cand
		for x := 0; x < n; x++ {
			for _, e := range nw.entries(x) {
				if len(e.path) > 0 && len(e.path) <= 8 && (g.mh == 0 || len(e.path) <= g.mh) && e.path[len(e.path)-1] == e.origin {
					cs = append(cs, cand{x, e.path})
				}
			}
		}
		sort.SliceStable(cs, func(a, b int) bool { return len(cs[a].path) > len(cs[b].path) })
		for i := 0; i < len(cs) && i < 2; i++ {
			emit("walk %d %d %s", g.mh, cs[i].x, c11PathStr(cs[i].path))
		}
	}
	if g.clean && drained {
		emit("dump converged")
	} else {
		emit("dump")
	}
}
