//go:build verif && (all || c25)

package main

import (
	"bufio"
	"context"
	"fmt"
	"os"
	"regexp/syntax"
	"sort"
	"strconv"
	"strings"
	"sync"
	"sync/atomic"

	"golang.org/x/crypto/bcrypt"

	"github.com/postalsys/muti-metroo/internal/shell"
)

// Engine c25: internal/shell Executor admission (validateAndAcquire through an accessor, the real
// NewSession / NewPTYSession) and the session counter.
//
//	reset <enabled 0|1> <max> <cfgpw hex> <n> <w1 hex> ... <wn hex>   -> ok
//	admit <pw hex> <cmd hex> <arg hex>...    -> ok <sessions> | err <class> [i] <sessions>
//	session <pw> <cmd> <arg>...              -> same (real NewSession + Start, then cleaned up and released)
//	pty <pw> <cmd> <arg>...                  -> same (real NewPTYSession, then closed and released)
//	rel                                      -> sessions <n>
//	stress <max> <threads> <iters>           -> stress ok | stress exceeded <maxheld> | stress leak <final>
//
// The configured password travels in clear in the script; the Go side turns it into a real bcrypt
// hash (MinCost), the model side instantiates the abstract predicate with string equality.
var c25Exec *shell.Executor
var c25Live = map[string]*shell.Session{}

func c25CloseLive() {
	for id, s := range c25Live {
		s.Close()
		delete(c25Live, id)
	}
}

func c25Counts() string {
	return fmt.Sprintf(" counter=%d live=%d", c25Exec.ActiveSessions(), len(c25Live))
}
var c25HashCache = map[string]string{}

func c25Hash(pw []byte) string {
	if len(pw) == 0 {
		return ""
	}
	if h, ok := c25HashCache[string(pw)]; ok {
		return h
	}
	h, err := bcrypt.GenerateFromPassword(pw, bcrypt.MinCost)
	must(err)
	c25HashCache[string(pw)] = string(h)
	return string(h)
}

func c25Classify(err error, n int) string {
	if err == nil {
		return fmt.Sprintf("ok %d", n)
	}
	s := err.Error()
	var idx int
	switch {
	case s == "shell is disabled":
		return fmt.Sprintf("err disabled %d", n)
	case s == "authentication required":
		return fmt.Sprintf("err authreq %d", n)
	case s == "invalid credentials":
		return fmt.Sprintf("err badcreds %d", n)
	case strings.HasPrefix(s, "command '") && strings.HasSuffix(s, "' is not allowed"):
		return fmt.Sprintf("err notallowed %d", n)
	case strings.HasPrefix(s, "max sessions ("):
		return fmt.Sprintf("err maxsessions %d", n)
	}
	if k, _ := fmt.Sscanf(s, "argument %d contains dangerous characters", &idx); k == 1 && strings.HasSuffix(s, "contains dangerous characters") {
		return fmt.Sprintf("err dangerous %d %d", idx, n)
	}
	if k, _ := fmt.Sscanf(s, "argument %d: absolute paths not allowed", &idx); k == 1 && strings.HasSuffix(s, "absolute paths not allowed") {
		return fmt.Sprintf("err abs %d %d", idx, n)
	}
	return "err other " + strings.ReplaceAll(s, " ", "_")
}

func c25Argv(a []string) string {
	if a == nil {
		return "-"
	}
	parts := make([]string, len(a))
	for i, x := range a {
		parts[i] = hexTok([]byte(x))
	}
	return strings.Join(parts, ",")
}

func c25Meta(f []string) *shell.ShellMeta {
	m := &shell.ShellMeta{Password: string(unhexTok(f[1])), Command: string(unhexTok(f[2]))}
	for _, a := range f[3:] {
		m.Args = append(m.Args, string(unhexTok(a)))
	}
	return m
}

func c25Run(line string) string {
	f := fields(line)
	switch f[0] {
	case "reseth":
		// like reset, but the password hash is given RAW (malformed / foreign bcrypt strings)
		c25CloseLive()
		max, _ := strconv.Atoi(f[2])
		n, _ := strconv.Atoi(f[4])
		cfg := shell.Config{Enabled: f[1] == "1", MaxSessions: max, PasswordHash: string(unhexTok(f[3]))}
		for i := 0; i < n; i++ {
			cfg.Whitelist = append(cfg.Whitelist, string(unhexTok(f[5+i])))
		}
		c25Exec = shell.NewExecutor(cfg)
		return "ok"
	case "open":
		// open <id> <pw> <cmd> <args>...: a session that stays alive (started, not closed) until `close <id>`
		m := c25Meta(f[1:])
		sess, err := c25Exec.NewSession(context.Background(), m)
		if err != nil {
			return c25Classify(err, c25Exec.ActiveSessions()) + c25Counts()
		}
		if err := sess.Start(); err != nil { // what handler.go does on a failed start
			c25Exec.ReleaseSession()
			return "startfail" + c25Counts()
		}
		c25Live[f[1]] = sess
		return fmt.Sprintf("ok %d", c25Exec.ActiveSessions()) + c25Counts()
	case "close":
		if sess, ok := c25Live[f[1]]; ok { // handler.go releaseSession: Close + ReleaseSession, once
			sess.Close()
			c25Exec.ReleaseSession()
			delete(c25Live, f[1])
		}
		return "closed" + c25Counts()
	case "fails", "failp":
		// a start that FAILS after admission: fails/failp <pw> <cmd> <dir> <args>... (nonexistent binary, bad work_dir)
		m := &shell.ShellMeta{Password: string(unhexTok(f[1])), Command: string(unhexTok(f[2])), WorkDir: string(unhexTok(f[3]))}
		for _, a := range f[4:] {
			m.Args = append(m.Args, string(unhexTok(a)))
		}
		if f[0] == "fails" {
			sess, err := c25Exec.NewSession(context.Background(), m)
			if err != nil {
				return c25Classify(err, c25Exec.ActiveSessions()) + c25Counts()
			}
			if err := sess.Start(); err != nil {
				c25Exec.ReleaseSession()
				shell.VerifC25SessionDiscard(sess)
				return "startfail" + c25Counts()
			}
			sess.Close()
			c25Exec.ReleaseSession()
			return "started" + c25Counts()
		}
		m.TTY = &shell.TTYSettings{Rows: 24, Cols: 80}
		ps, err := c25Exec.NewPTYSession(context.Background(), m)
		if err != nil {
			if strings.HasPrefix(err.Error(), "failed to start PTY") || strings.HasPrefix(err.Error(), "invalid working directory") {
				return "startfail" + c25Counts()
			}
			return c25Classify(err, c25Exec.ActiveSessions()) + c25Counts()
		}
		ps.Close()
		c25Exec.ReleaseSession()
		return "started" + c25Counts()
	case "reset":
		c25CloseLive()
		max, _ := strconv.Atoi(f[2])
		n, _ := strconv.Atoi(f[4])
		cfg := shell.Config{Enabled: f[1] == "1", MaxSessions: max, PasswordHash: c25Hash(unhexTok(f[3]))}
		for i := 0; i < n; i++ {
			cfg.Whitelist = append(cfg.Whitelist, string(unhexTok(f[5+i])))
		}
		c25Exec = shell.NewExecutor(cfg)
		return "ok"
	case "admit":
		err := shell.VerifC25ValidateAndAcquire(c25Exec, c25Meta(f))
		return c25Classify(err, c25Exec.ActiveSessions())
	case "session":
		s, err := c25Exec.NewSession(context.Background(), c25Meta(f))
		out := c25Classify(err, c25Exec.ActiveSessions())
		if err == nil {
			// what handler.go does next: Start; on failure release, else the session lives until closed
			if s.Start() == nil {
				s.Close()
			}
			c25Exec.ReleaseSession()
		}
		return out
	case "pty":
		m := c25Meta(f)
		m.TTY = &shell.TTYSettings{Rows: 24, Cols: 80}
		s, err := c25Exec.NewPTYSession(context.Background(), m)
		if err != nil && strings.HasPrefix(err.Error(), "failed to start PTY") {
			// admitted, slot acquired, start failed, slot released by NewPTYSession itself:
			// report the admission (counter as it was while the slot was held).
			return fmt.Sprintf("ok %d", c25Exec.ActiveSessions()+1)
		}
		out := c25Classify(err, c25Exec.ActiveSessions())
		if err == nil {
			s.Close()
			c25Exec.ReleaseSession()
		}
		return out
	case "argv":
		// what would RUN: the session is built by the real NewSession (never started, so any admitted
		// command and argument is harmless) and the exec.Cmd argument vector is read back
		sess, err := c25Exec.NewSession(context.Background(), c25Meta(f))
		out := c25Classify(err, c25Exec.ActiveSessions())
		if err == nil {
			out += " argv=" + c25Argv(shell.VerifC25SessionArgv(sess))
			shell.VerifC25SessionDiscard(sess)
			c25Exec.ReleaseSession()
		}
		return out
	case "argvp":
		// the same through NewPTYSession, which starts the process: the generator uses /bin/echo only
		m := c25Meta(f)
		m.TTY = &shell.TTYSettings{Rows: 24, Cols: 80}
		s, err := c25Exec.NewPTYSession(context.Background(), m)
		if err != nil && strings.HasPrefix(err.Error(), "failed to start PTY") {
			return fmt.Sprintf("ok %d argv=-", c25Exec.ActiveSessions()+1)
		}
		out := c25Classify(err, c25Exec.ActiveSessions())
		if err == nil {
			out += " argv=" + c25Argv(shell.VerifC25PTYArgv(s))
			s.Close()
			c25Exec.ReleaseSession()
		}
		return out
	case "exec", "execp":
		// everything request-controlled that reaches exec.Cmd: argv, the entries appended to the
		// inherited environment, the working directory.   exec <pw> <cmd> <dir> <nenv> <k=v>... <args>...
		nenv, _ := strconv.Atoi(f[4])
		m := &shell.ShellMeta{Password: string(unhexTok(f[1])), Command: string(unhexTok(f[2])), WorkDir: string(unhexTok(f[3]))}
		if nenv > 0 {
			m.Env = map[string]string{}
		}
		for _, kv := range f[5 : 5+nenv] {
			k, v, _ := strings.Cut(string(unhexTok(kv)), "=")
			m.Env[k] = v
		}
		for _, a := range f[5+nenv:] {
			m.Args = append(m.Args, string(unhexTok(a)))
		}
		inherited := len(os.Environ())
		show := func(argv, env []string, dir string) string {
			extra := []string{}
			if len(env) >= inherited {
				extra = env[inherited:]
			} else if env != nil {
				return " argv=" + c25Argv(argv) + " env=short dir=" + hexTok([]byte(dir))
			}
			inh := "inherit"
			if env != nil {
				inh = "copy"
				for i, e := range os.Environ() {
					if env[i] != e {
						inh = "altered"
					}
				}
			}
			first := ""
			if f[0] == "execp" && len(extra) > 0 { // TERM comes first, the request's entries follow in map order
				first = hexTok([]byte(extra[0])) + ";"
				extra = extra[1:]
			}
			sorted := append([]string(nil), extra...)
			sort.Strings(sorted)
			return " argv=" + c25Argv(argv) + " env=" + inh + ":" + first + c25Argv(sorted) + " dir=" + hexTok([]byte(dir))
		}
		if f[0] == "exec" {
			sess, err := c25Exec.NewSession(context.Background(), m)
			out := c25Classify(err, c25Exec.ActiveSessions())
			if err == nil {
				env, dir := shell.VerifC25SessionEnvDir(sess)
				out += show(shell.VerifC25SessionArgv(sess), env, dir)
				shell.VerifC25SessionDiscard(sess)
				c25Exec.ReleaseSession()
			}
			return out
		}
		m.TTY = &shell.TTYSettings{Rows: 24, Cols: 80, Term: "vt100"}
		ps, err := c25Exec.NewPTYSession(context.Background(), m)
		if err != nil && strings.HasPrefix(err.Error(), "failed to start PTY") {
			return fmt.Sprintf("ok %d unstarted", c25Exec.ActiveSessions()+1)
		}
		out := c25Classify(err, c25Exec.ActiveSessions())
		if err == nil {
			if env, dir, ok := shell.VerifC25PTYEnvDir(ps); ok {
				out += show(shell.VerifC25PTYArgv(ps), env, dir)
			}
			ps.Close()
			c25Exec.ReleaseSession()
		}
		return out
	case "rel":
		c25Exec.ReleaseSession()
		return fmt.Sprintf("sessions %d", c25Exec.ActiveSessions())
	case "stressv":
		// admission under concurrency: `threads` authenticated requests arrive together (bcrypt in
		// between widens any gap between the limit check and the increment); nobody releases, so the
		// number admitted must not exceed max
		max, _ := strconv.Atoi(f[1])
		threads, _ := strconv.Atoi(f[2])
		h, err := bcrypt.GenerateFromPassword([]byte("secret"), 8)
		must(err)
		e := shell.NewExecutor(shell.Config{Enabled: true, Whitelist: []string{"true"}, MaxSessions: max, PasswordHash: string(h)})
		var admitted int64
		var wg sync.WaitGroup
		start := make(chan struct{})
		for t := 0; t < threads; t++ {
			wg.Add(1)
			go func() {
				defer wg.Done()
				<-start
				if shell.VerifC25ValidateAndAcquire(e, &shell.ShellMeta{Command: "true", Password: "secret"}) == nil {
					atomic.AddInt64(&admitted, 1)
				}
			}()
		}
		close(start)
		wg.Wait()
		if max > 0 && (admitted > int64(max) || e.ActiveSessions() > max) {
			return fmt.Sprintf("stress exceeded %d", admitted)
		}
		return "stress ok"
	case "stress":
		max, _ := strconv.Atoi(f[1])
		threads, _ := strconv.Atoi(f[2])
		iters, _ := strconv.Atoi(f[3])
		e := shell.NewExecutor(shell.Config{Enabled: true, Whitelist: []string{"true"}, MaxSessions: max})
		var held, worst int64
		var wg sync.WaitGroup
		meta := &shell.ShellMeta{Command: "true"}
		for t := 0; t < threads; t++ {
			wg.Add(1)
			go func(t int) {
				defer wg.Done()
				for i := 0; i < iters; i++ {
					var err error
					if (i+t)%2 == 0 {
						err = e.AcquireSession()
					} else {
						err = shell.VerifC25ValidateAndAcquire(e, meta)
					}
					if err != nil {
						continue
					}
					h := atomic.AddInt64(&held, 1)
					for {
						w := atomic.LoadInt64(&worst)
						if h <= w || atomic.CompareAndSwapInt64(&worst, w, h) {
							break
						}
					}
					atomic.AddInt64(&held, -1)
					e.ReleaseSession()
				}
			}(t)
		}
		wg.Wait()
		if max > 0 && worst > int64(max) {
			return fmt.Sprintf("stress exceeded %d", worst)
		}
		if e.ActiveSessions() != 0 {
			return fmt.Sprintf("stress leak %d", e.ActiveSessions())
		}
		return "stress ok"
	}
	return "bad-op"
}

func c25Gen(w *bufio.Writer, seed int64, tier string) {
	r := newRng(seed)
	cases := 150
	if tier == "thorough" {
		cases = 6000
	}
	class := c25ClassChars()
	cmds := []string{"true", "echo", "ls", "whoami", "cat", "sh", "bash", "id"}
	near := func(c string) string {
		if c == "" {
			return "x"
		}
		switch r.intn(12) {
		case 0:
			return "/bin/" + c
		case 1:
			return "./" + c
		case 2:
			return "../" + c
		case 3:
			return c + " "
		case 4:
			return " " + c
		case 5:
			return strings.ToUpper(c)
		case 6:
			return c[:len(c)-1]
		case 7:
			return c + "x"
		case 8:
			return "\\" + c
		case 9:
			return c + "\x00"
		case 10:
			return "*"
		default:
			return ""
		}
	}
	benign := []string{"-l", "-la", "hello", "a b", "file.txt", "dir/file", "--color=auto", "x=1", "\"q\"", "'q'", "a\nb", "caf\xc3\xa9", "\xff\xfe", "-", "", "%s", "#", "^", "@", ":", ",", "+", "=", "a/../b", "C:"}
	long := func() string {
		n := r.pick(255, 256, 1023, 4095, 4096, 4097, 70000)
		b := []byte(strings.Repeat("a-b_c.d ", n/8+1)[:n])
		switch r.intn(4) {
		case 0: // one metacharacter at the very end / start / middle
			b[len(b)-1] = class[r.intn(len(class))]
		case 1:
			b[0] = '/'
		case 2:
			b[len(b)/2] = class[r.intn(len(class))]
		}
		return string(b)
	}
	mkArg := func() string {
		if r.chance(3) {
			return long()
		}
		switch r.intn(10) {
		case 0, 1, 2, 3:
			return benign[r.intn(len(benign))]
		case 4, 5: // one class character, somewhere
			b := benign[r.intn(len(benign))]
			c := string(class[r.intn(len(class))])
			k := r.intn(len(b) + 1)
			return b[:k] + c + b[k:]
		case 6: // any single byte
			return string([]byte{byte(r.intn(256))})
		case 7:
			return "/" + benign[r.intn(len(benign))]
		case 8:
			return "/etc/passwd"
		default:
			return string(r.bytes(r.intn(6)))
		}
	}
	for i := 0; i < cases; i++ {
		// configuration
		var wl []string
		switch r.intn(10) {
		case 0: // empty
		case 1:
			wl = []string{"*"}
		case 2:
			wl = []string{cmds[r.intn(len(cmds))], "*"}
		case 4: // a long whitelist, the wildcard (sometimes) last
			for j := 0; j < 200; j++ {
				wl = append(wl, fmt.Sprintf("tool%d", j))
			}
			wl = append(wl, cmds[r.intn(len(cmds))])
			if r.chance(30) {
				wl = append(wl, "*")
			}
		case 3: // entries that are not base names
			wl = []string{"/bin/true", "a/b", "**", "* ", ""}
		default:
			k := 1 + r.intn(4)
			for j := 0; j < k; j++ {
				wl = append(wl, cmds[r.intn(len(cmds))])
			}
		}
		cfgpw := ""
		if r.chance(50) {
			cfgpw = r.pickS("secret", "pässword", "p w", "x")
		}
		max := r.pick(0, 0, 1, 2, 3, -1)
		en := 1
		if r.chance(12) {
			en = 0
		}
		fmt.Fprintf(w, "reset %d %d %s %d", en, max, hexTok([]byte(cfgpw)), len(wl))
		for _, x := range wl {
			fmt.Fprintf(w, " %s", hexTok([]byte(x)))
		}
		fmt.Fprintln(w)
		ops := 3 + r.intn(8)
		for j := 0; j < ops; j++ {
			k := r.intn(20)
			if k == 0 {
				fmt.Fprintln(w, "rel")
				continue
			}
			pw := cfgpw
			switch r.intn(14) {
			case 0:
				pw = ""
			case 1:
				pw = cfgpw + "x"
			case 2:
				pw = "secret"
			case 3:
				pw = "Secret"
			}
			var cmd string
			if len(wl) > 0 && r.chance(60) {
				cmd = wl[r.intn(len(wl))]
			} else {
				cmd = cmds[r.intn(len(cmds))]
			}
			if r.chance(25) {
				cmd = near(cmd)
			}
			if r.chance(1) {
				cmd = long()
			}
			var args []string
			na := r.pick(0, 0, 1, 1, 2, 3)
			if r.chance(2) { // long argument vectors: the offending one, if any, is late
				na = r.pick(40, 300)
			}
			for a := 0; a < na; a++ {
				if r.chance(70) {
					args = append(args, benign[r.intn(len(benign))])
				} else {
					args = append(args, mkArg())
				}
			}
			op := "admit"
			if k == 1 || k == 2 {
				// real process start: only harmless binaries with harmless arguments
				op = r.pickS("session", "pty")
				if cmd != "true" && cmd != "echo" && cmd != "/bin/true" {
					cmd = r.pickS("true", "echo", "/bin/true", "verif-no-such-binary")
				}
				args = nil
				if r.chance(50) {
					args = []string{r.pickS("hello", "-n", "/x", "a;b")}
				}
			}
			fmt.Fprintf(w, "%s %s %s", op, hexTok([]byte(pw)), hexTok([]byte(cmd)))
			for _, a := range args {
				fmt.Fprintf(w, " %s", hexTok([]byte(a)))
			}
			fmt.Fprintln(w)
		}
	}
	// failing starts interleaved with live sessions (fixed script, independent of the seed): after every
	// op the counter must equal the number of live sessions, and admissions must stop at the limit
	hx := func(x string) string { return hexTok([]byte(x)) }
	for _, max := range []int{3, 2, 0} {
		fmt.Fprintf(w, "reset 1 %d - 2 %s %s\n", max, hx("sleep"), hx("verif-no-such-binary"))
		fmt.Fprintf(w, "open a - %s %s\n", hx("sleep"), hx("30"))
		fmt.Fprintf(w, "open b - %s %s\n", hx("sleep"), hx("30"))
		fmt.Fprintf(w, "failp - %s -\n", hx("verif-no-such-binary"))
		fmt.Fprintf(w, "failp - %s %s %s\n", hx("sleep"), hx("/verif-no-such-dir"), hx("30"))
		fmt.Fprintf(w, "fails - %s -\n", hx("verif-no-such-binary"))
		fmt.Fprintf(w, "fails - %s %s %s\n", hx("sleep"), hx("/verif-no-such-dir"), hx("30"))
		fmt.Fprintf(w, "failp - %s %s\n", hx("verif-no-such-binary"), hx("/tmp"))
		fmt.Fprintf(w, "open c - %s %s\n", hx("sleep"), hx("30"))
		fmt.Fprintf(w, "open d - %s %s\n", hx("sleep"), hx("30"))
		fmt.Fprintf(w, "open e - %s %s\n", hx("sleep"), hx("30"))
		fmt.Fprintf(w, "close a\n")
		fmt.Fprintf(w, "failp - %s -\n", hx("verif-no-such-binary"))
		fmt.Fprintf(w, "open f - %s %s\n", hx("sleep"), hx("30"))
		fmt.Fprintf(w, "open g - %s %s\n", hx("sleep"), hx("30"))
		fmt.Fprintf(w, "close b\nclose c\nclose d\nclose e\nclose f\nclose g\n")
		fmt.Fprintf(w, "admit - %s\n", hx("sleep"))
	}
	// a configured password hash that is not a well-formed bcrypt string (or is one for another password)
	// admits nothing, whatever is presented (fixed script)
	foreign, _ := bcrypt.GenerateFromPassword([]byte("another-password"), bcrypt.MinCost)
	badHashes := []string{"x", "secret", "$2a$", "$1$abcdefgh$abcdefghijklmnopqrstuv", "$2a$99$" + strings.Repeat("a", 53), "$2a$04$" + strings.Repeat("!", 53),
		"$2a$04$" + strings.Repeat("a", 20), "$9z$04$" + strings.Repeat("a", 53), "$2a$4$" + strings.Repeat("a", 53), "$2a$04" + strings.Repeat("a", 54), " ", string(foreign), string(foreign)[:59], string(foreign) + "x"}
	for _, bh := range badHashes {
		fmt.Fprintf(w, "reseth 1 0 %s 1 %s\n", hx(bh), hx("echo"))
		for _, pw := range []string{"", "x", "secret", bh, "another-password!", strings.Repeat("p", 80)} {
			fmt.Fprintf(w, "admit %s %s\n", hx(pw), hx("echo"))
		}
		fmt.Fprintf(w, "argv %s %s %s\n", hx("secret"), hx("echo"), hx("hi"))
	}
	// what runs: arguments with leading / trailing white space, CR / LF, tabs, NUL, quotes around
	// absolute paths and around metacharacters — the process must get exactly the validated vector
	pads := []string{" ", "\n", "\r\n", "\t", "  ", "\x00", "\v", "\f", "\u00a0", "\u2003", "\"", "'"}
	cores := []string{"/etc/shadow", "/", "hello", "a;b", "$(id)", "-n", "", "x y", "`id`", "../x", "~root", "C:\\x", "*"}
	nargv := 120
	if tier == "thorough" {
		nargv = 6000
	}
	for i := 0; i < nargv; i++ {
		wl := []string{"echo", "ls"}
		if r.chance(25) {
			wl = []string{"*"}
		}
		fmt.Fprintf(w, "reset 1 %d - %d", r.pick(0, 0, 2), len(wl))
		for _, x := range wl {
			fmt.Fprintf(w, " %s", hexTok([]byte(x)))
		}
		fmt.Fprintln(w)
		for j := 0; j < 4; j++ {
			var args []string
			for a := r.pick(1, 1, 2, 3); a > 0; a-- {
				core := cores[r.intn(len(cores))]
				arg := core
				switch r.intn(6) {
				case 0:
					arg = pads[r.intn(len(pads))] + core
				case 1:
					arg = core + pads[r.intn(len(pads))]
				case 2:
					p := pads[r.intn(len(pads))]
					arg = p + core + p
				case 3:
					arg = pads[r.intn(len(pads))] + pads[r.intn(len(pads))] + core + pads[r.intn(len(pads))]
				}
				args = append(args, arg)
			}
			op, cmd := "argv", r.pickS("echo", "echo", "ls", "cat")
			if r.chance(20) {
				op, cmd = "argvp", "echo"
				for k := range args { // the PTY variant starts the process: no NUL bytes
					args[k] = strings.ReplaceAll(args[k], "\x00", "\n")
				}
			}
			fmt.Fprintf(w, "%s - %s", op, hexTok([]byte(cmd)))
			for _, a := range args {
				fmt.Fprintf(w, " %s", hexTok([]byte(a)))
			}
			fmt.Fprintln(w)
		}
	}
	// the rest of what reaches exec.Cmd: environment entries and working directory of the request
	nexec := 40
	if tier == "thorough" {
		nexec = 2000
	}
	envs := []string{"LD_PRELOAD=/tmp/x.so", "PATH=/tmp", "A=1", "B=", "TERM=dumb", "IFS=;", "X=a=b", "BASH_ENV=/tmp/rc", "LANG=C"}
	dirs := []string{"", "", "/tmp", "/", "relative/dir", "/nonexistent-verif", "..", "/tmp/a;b"}
	for i := 0; i < nexec; i++ {
		fmt.Fprintf(w, "reset 1 0 - 2 %s %s\n", hexTok([]byte("echo")), hexTok([]byte("ls")))
		for j := 0; j < 3; j++ {
			op, cmd := "exec", r.pickS("echo", "ls", "cat")
			dir := dirs[r.intn(len(dirs))]
			if r.chance(25) {
				op, cmd = "execp", "echo"
				dir = r.pickS("", "/tmp", "/") // the PTY variant starts the process
			}
			ne := r.pick(0, 0, 1, 2, 3)
			seen := map[string]bool{}
			var es []string
			for len(es) < ne {
				e := envs[r.intn(len(envs))]
				k, _, _ := strings.Cut(e, "=")
				if !seen[k] {
					seen[k] = true
					es = append(es, e)
				}
			}
			fmt.Fprintf(w, "%s - %s %s %d", op, hexTok([]byte(cmd)), hexTok([]byte(dir)), len(es))
			for _, e := range es {
				fmt.Fprintf(w, " %s", hexTok([]byte(e)))
			}
			for a := r.pick(0, 1, 2); a > 0; a-- {
				fmt.Fprintf(w, " %s", hexTok([]byte(r.pickS("hello", "-n", "x y", "/abs", "a;b"))))
			}
			fmt.Fprintln(w)
		}
	}
	// every byte value as a one-byte argument and inside an argument, non-wildcard whitelist
	fmt.Fprintf(w, "reset 1 0 - 1 %s\n", hexTok([]byte("echo")))
	for b := 0; b < 256; b++ {
		fmt.Fprintf(w, "admit - %s %s\n", hexTok([]byte("echo")), hexTok([]byte{byte(b)}))
		fmt.Fprintf(w, "admit - %s %s %s\n", hexTok([]byte("echo")), hexTok([]byte("ok")), hexTok([]byte{'a', byte(b), 'z'}))
		fmt.Fprintf(w, "admit - %s\n", hexTok([]byte{'e', byte(b)}))
	}
	// concurrent acquire/release on the real executor
	st := 6
	if tier == "thorough" {
		st = 60
	}
	for i := 0; i < st; i++ {
		fmt.Fprintf(w, "reset 1 0 - 0\nstress %d %d %d\n", r.pick(1, 1, 2, 3, 5, 0), r.pick(2, 4, 8, 16), r.pick(200, 1000, 3000))
	}
	for i := 0; i < st/2; i++ {
		fmt.Fprintf(w, "reset 1 0 - 0\nstressv %d %d\n", r.pick(1, 1, 2, 3), r.pick(6, 12, 24))
	}
}

// c25ClassRanges parses the compiled filter; it must be a single character class.
func c25ClassRanges() ([]rune, error) {
	src := shell.VerifC25DangerousPattern()
	re, err := syntax.Parse(src, syntax.Perl)
	if err != nil {
		return nil, err
	}
	if re.Op == syntax.OpLiteral && len(re.Rune) == 1 {
		return []rune{re.Rune[0], re.Rune[0]}, nil
	}
	if re.Op != syntax.OpCharClass {
		return nil, fmt.Errorf("dangerousArgPattern %q is no longer a single character class (op %v): the C25 model does not cover it", src, re.Op)
	}
	for _, x := range re.Rune {
		if x >= 0x80 {
			return nil, fmt.Errorf("dangerousArgPattern %q has non-ASCII members: byte-level model does not apply", src)
		}
	}
	return re.Rune, nil
}

func c25ClassChars() []byte {
	rs, err := c25ClassRanges()
	must(err)
	var out []byte
	for i := 0; i+1 < len(rs); i += 2 {
		for c := rs[i]; c <= rs[i+1]; c++ {
			out = append(out, byte(c))
		}
	}
	return out
}

func c25Facts(w *bufio.Writer) {
	rs, err := c25ClassRanges()
	if err != nil {
		fmt.Fprintln(os.Stderr, err)
		w.Flush()
		os.Exit(1)
	}
	fmt.Fprintf(w, "-- GENERATED from /repo internal/shell by the harness (`harness c25 facts`). Do not edit.\n")
	fmt.Fprintf(w, "namespace MM.Gen.C25\n")
	fmt.Fprintf(w, "/-- source text of `dangerousArgPattern`: %s -/\n", strings.ReplaceAll(shell.VerifC25DangerousPattern(), "-/", "- /"))
	fmt.Fprintf(w, "def dangerousClass : List (Nat × Nat) := [")
	for i := 0; i+1 < len(rs); i += 2 {
		if i > 0 {
			fmt.Fprintf(w, ", ")
		}
		fmt.Fprintf(w, "(%d, %d)", rs[i], rs[i+1])
	}
	fmt.Fprintf(w, "]\nend MM.Gen.C25\n")
}

func init() {
	register("c25", &Engine{Run: c25Run, Gen: c25Gen, Facts: c25Facts})
}
