//go:build verif && (all || c20)

package main

import (
	"bufio"
	"bytes"
	"context"
	"fmt"
	"net"
	"os"
	"strconv"
	"strings"
	"sync"
	"syscall"
	"time"

	"github.com/postalsys/muti-metroo/internal/agent"
	"github.com/postalsys/muti-metroo/internal/config"
	"github.com/postalsys/muti-metroo/internal/crypto"
	"github.com/postalsys/muti-metroo/internal/forward"
	"github.com/postalsys/muti-metroo/internal/identity"
	"github.com/postalsys/muti-metroo/internal/protocol"
)

// Engine c20: forward.Handler and Agent.handleStreamOpen with real loopback listeners as targets.
// Target index 0..5 = live listener, 6..7 = address nobody listens on.
//
//	reset started=<0|1> max=<n> [<key>:<target>]...   new handler (+ agent around it)   -> ok
//	start                                              Handler.Start()                   -> ok
//	open <key>                                         Handler.HandleStreamOpen          -> notrunning | err <code> | dial <target> | dialerr <code>
//	agent <addrType> <addr> <none|self|other|selfother|otherself> <w>
//	                                                   Agent.handleStreamOpen(frame)     -> none | err <code> | dial <target>   (a failed dial is err <code> too)
//	      (w=1: the generator expects an asynchronous answer, wait for it; w=0: only a short grace period)
//	ingress <key> <w>                                  the INGRESS side: a second, real agent (agent.New, not started) with a learned route
//	                                                   for <key> runs Agent.DialForward(key); the STREAM_OPEN it sends is captured and handed,
//	                                                   byte for byte, to the exit agent's handleStreamOpen -> noroute | undecodable | as agent
//	reopen <i> <key>                                   HandleStreamOpen for <key> RE-USING the stream id of the i-th dialled stream (live or
//	                                                   closed) with a fresh request id -> as open   (i out of range: same as open)
//	data <i>                                           a unique token, encrypted under the session of the LAST ACKed open of that stream id, is
//	                                                   passed to HandleStreamData; which listener reads it? -> data <target> | data none | data skipped
//	                                                   (skipped: the stream was opened by the ingress agent, its session key is not ours)
//	close <i>                                          HandleStreamClose of the i-th dialled stream -> ok
//
// Every answer gets " stray=<target>" appended for each connection a listener accepted that does
// not belong to the answer.

const c20Live = 6

type c20Accept struct {
	idx  int
	port int
	conn net.Conn
}

type c20Event struct {
	kind      string // ack | err
	streamID  uint64
	requestID uint64
	peer      identity.AgentID
	code      uint16
	port      uint16
	eph       [crypto.KeySize]byte
}

// c20Data: bytes a target listener read from an accepted connection.
type c20Data struct {
	idx  int
	data string
}

// c20Kx: our side of the key exchange of one open request.
type c20Kx struct {
	rid       uint64
	priv, pub [crypto.KeySize]byte
}

type c20Writer struct{ ev chan c20Event }

func (w *c20Writer) WriteStreamData(peerID identity.AgentID, streamID uint64, data []byte, flags uint8) error {
	return nil
}
func (w *c20Writer) WriteStreamOpenAck(peerID identity.AgentID, streamID uint64, requestID uint64, boundIP net.IP, boundPort uint16, eph [crypto.KeySize]byte) error {
	w.ev <- c20Event{"ack", streamID, requestID, peerID, 0, boundPort, eph}
	return nil
}
func (w *c20Writer) WriteStreamOpenErr(peerID identity.AgentID, streamID uint64, requestID uint64, errorCode uint16, message string) error {
	w.ev <- c20Event{"err", streamID, requestID, peerID, errorCode, 0, [crypto.KeySize]byte{}}
	return nil
}
func (w *c20Writer) WriteStreamClose(peerID identity.AgentID, streamID uint64) error { return nil }

type c20State struct {
	once    sync.Once
	addrs   []string
	acc     chan c20Accept
	pending []c20Accept // accepted, not yet attributed

	h       *forward.Handler
	ag      *agent.Agent
	w       *c20Writer
	nextSID uint64
	nextRID uint64
	maxConn int
	dataCh  chan c20Data
	sidConn map[uint64][2]int              // live stream id -> (source port, listener) of its current connection
	keys    map[uint64]c20Kx             // stream id -> keys of the request in flight
	sess    map[uint64]*crypto.SessionKey  // stream id -> session of its last ACKed open
	tokenN  int
	ing      *agent.Agent // ingress agent (lazily created, lives for the whole run)
	ingBuf   *c20Buf
	ingID    identity.AgentID
	routeSeq uint64
	hostOK  bool // "localhost" resolves here (to loopback addresses we could cover)
	dialled []uint64   // stream ids of successful dials (for close)
	conns   []net.Conn // accepted connections of this case
	self    identity.AgentID
	other   identity.AgentID
	remote  identity.AgentID
	ephPub  [crypto.KeySize]byte
}

func (s *c20State) init() {
	s.once.Do(func() {
		s.acc = make(chan c20Accept, 1024)
		s.dataCh = make(chan c20Data, 4096)
		for i := 0; i < c20Live+2; i++ {
			if i >= c20Live {
				// dead target: a socket that is bound (so no other process can take the port) but never
				// listens — connections to it are refused
				fd, err := syscall.Socket(syscall.AF_INET, syscall.SOCK_STREAM, 0)
				must(err)
				must(syscall.Bind(fd, &syscall.SockaddrInet4{Port: 0, Addr: [4]byte{127, 0, 0, 1}}))
				sa, err := syscall.Getsockname(fd)
				must(err)
				s.addrs = append(s.addrs, fmt.Sprintf("127.0.0.1:%d", sa.(*syscall.SockaddrInet4).Port))
				continue
			}
			l, err := net.Listen("tcp", "127.0.0.1:0")
			must(err)
			s.addrs = append(s.addrs, l.Addr().String())
			i := i
			go func() {
				for {
					c, err := l.Accept()
					if err != nil {
						return
					}
					s.acc <- c20Accept{i, c.RemoteAddr().(*net.TCPAddr).Port, c}
					go s.readTarget(i, c)
				}
			}()
		}
		// hostname targets: "localhost:<port>".  Every address localhost resolves to must lead to the
		// same listener, so the live ports are also opened on the other loopback addresses (best effort).
		if addrs, err := net.LookupHost("localhost"); err == nil && len(addrs) > 0 {
			s.hostOK = true
			for _, a := range addrs {
				ip := net.ParseIP(a)
				if ip == nil || !ip.IsLoopback() {
					s.hostOK = false
				}
				if a == "127.0.0.1" || !s.hostOK {
					continue
				}
				for i := 0; i < c20Live; i++ {
					port := s.addrs[i][strings.LastIndex(s.addrs[i], ":")+1:]
					if l, err := net.Listen("tcp", net.JoinHostPort(a, port)); err == nil {
						i := i
						go func() {
							for {
								c, err := l.Accept()
								if err != nil {
									return
								}
								s.acc <- c20Accept{i, c.RemoteAddr().(*net.TCPAddr).Port, c}
								go s.readTarget(i, c)
					go s.readTarget(i, c)
							}
						}()
					}
				}
			}
		}
		for i := range s.self {
			s.self[i], s.other[i], s.remote[i] = 0x11, 0x22, 0x33
		}
		_, pub, err := crypto.GenerateEphemeralKeypair()
		must(err)
		s.ephPub = pub
	})
}

// c20Buf collects what the ingress agent writes to its next hop.
type c20Buf struct {
	mu sync.Mutex
	b  bytes.Buffer
}

func (b *c20Buf) Write(p []byte) (int, error) {
	b.mu.Lock()
	defer b.mu.Unlock()
	return b.b.Write(p)
}

func (b *c20Buf) take() []byte {
	b.mu.Lock()
	defer b.mu.Unlock()
	out := append([]byte(nil), b.b.Bytes()...)
	b.b.Reset()
	return out
}

func (s *c20State) ingInit() {
	if s.ing != nil {
		return
	}
	dir, err := os.MkdirTemp("", "verif-c20-")
	must(err)
	for i := range s.ingID {
		s.ingID[i] = 0x44
	}
	cfg := config.Default()
	cfg.Agent.ID = s.ingID.String()
	cfg.Agent.DataDir = dir
	cfg.Agent.LogLevel = "error"
	a, err := agent.New(cfg)
	must(err)
	s.ing, s.ingBuf = a, &c20Buf{}
	agent.C20InjectPeer(a, s.self, s.ingBuf)
}

// ingressOpen runs the real DialForward for key and returns the payload of the STREAM_OPEN it sent.
func (s *c20State) ingressOpen(key string) ([]byte, string) {
	s.ingInit()
	s.routeSeq++
	agent.C20AddForwardRoute(s.ing, key, s.self, s.routeSeq)
	s.ingBuf.take()
	ctx, cancel := context.WithCancel(context.Background())
	errCh := make(chan error, 1)
	go func() {
		_, err := s.ing.DialForward(ctx, key)
		errCh <- err
	}()
	var data []byte
	deadline := time.Now().Add(10 * time.Second)
	for len(data) == 0 && time.Now().Before(deadline) {
		select {
		case err := <-errCh:
			cancel()
			if d := s.ingBuf.take(); len(d) > 0 { // sent, then failed for another reason
				data = d
				break
			}
			if err != nil && strings.Contains(err.Error(), "no route") {
				return nil, "noroute"
			}
			return nil, "ingress-error"
		case <-time.After(200 * time.Microsecond):
			data = s.ingBuf.take()
		}
	}
	cancel()
	if len(data) == 0 {
		return nil, "ingress-timeout"
	}
	fr, err := protocol.NewFrameReader(bytes.NewReader(data)).Read()
	if err != nil || fr.Type != protocol.FrameStreamOpen {
		return nil, "ingress-badframe"
	}
	return fr.Payload, ""
}

// readTarget: what the target side of a forwarded connection receives.
func (s *c20State) readTarget(idx int, c net.Conn) {
	buf := make([]byte, 4096)
	for {
		n, err := c.Read(buf)
		if n > 0 {
			s.dataCh <- c20Data{idx, string(buf[:n])}
		}
		if err != nil {
			return
		}
	}
}

// newKeys prepares our half of the key exchange for a request on stream sid.
func (s *c20State) newKeys(sid uint64) (uint64, [crypto.KeySize]byte) {
	s.nextRID++
	rid := s.nextRID*7 + 1
	priv, pub, err := crypto.GenerateEphemeralKeypair()
	must(err)
	s.keys[sid] = c20Kx{rid, priv, pub}
	return rid, pub
}

func (s *c20State) drain(wait time.Duration) {
	deadline := time.After(wait)
	for {
		select {
		case a := <-s.acc:
			s.pending = append(s.pending, a)
			s.conns = append(s.conns, a.conn)
		case <-deadline:
			return
		}
	}
}

// attribute finds (waiting if needed) the accepted connection whose remote port is `port`.
func (s *c20State) attribute(sid uint64, port int) int {
	// an ACK that re-uses the connection this stream id already has (same source port while the
	// stream is live) is not a new dial: it still talks to the same listener
	if cur, ok := s.sidConn[sid]; ok && cur[0] == port {
		return cur[1]
	}
	for tries := 0; tries < 2000; tries++ {
		for i, a := range s.pending {
			if a.port == port {
				s.pending = append(s.pending[:i], s.pending[i+1:]...)
				s.sidConn[sid] = [2]int{port, a.idx}
				return a.idx
			}
		}
		s.drain(5 * time.Millisecond)
	}
	return -1
}

func (s *c20State) strays() string {
	out := ""
	for _, a := range s.pending {
		out += fmt.Sprintf(" stray=%d", a.idx)
	}
	s.pending = nil
	return out
}

func (s *c20State) teardown() {
	if s.h != nil {
		s.h.Stop()
		s.h = nil
	}
	s.drain(2 * time.Millisecond)
	for _, c := range s.conns {
		c.Close()
	}
	s.conns, s.pending, s.dialled = nil, nil, nil
	s.sidConn, s.keys, s.sess = map[uint64][2]int{}, map[uint64]c20Kx{}, map[uint64]*crypto.SessionKey{}
	for len(s.dataCh) > 0 {
		<-s.dataCh
	}
}

// outcome collects the reply to stream sid: it waits for it when waitAsync (the call under test
// accepted the request, the answer comes from its goroutine), otherwise it takes what is already
// queued and gives stragglers a short grace period.  errTag is how a refusal is printed ("err" when
// the caller knows it was decided synchronously or cannot tell, "dialerr" when it is the outcome of
// the asynchronous dial).
func (s *c20State) outcome(sid, rid uint64, waitAsync bool, errTag string) string {
	var ev *c20Event
	wait := 5 * time.Millisecond
	if waitAsync {
		wait = 20 * time.Second
	}
	timeout := time.After(wait)
	for ev == nil {
		select {
		case e := <-s.w.ev:
			if e.streamID == sid {
				e := e
				ev = &e
			}
		case <-timeout:
			if waitAsync {
				return "timeout" + s.strays()
			}
			s.drain(time.Millisecond)
			return "none" + s.strays()
		}
	}
	if ev.requestID != rid || ev.peer != s.remote {
		return "badreply" + s.strays()
	}
	if ev.kind == "err" {
		s.drain(2 * time.Millisecond)
		return fmt.Sprintf("%s %d", errTag, ev.code) + s.strays()
	}
	idx := s.attribute(sid, int(ev.port))
	if k, ok := s.keys[sid]; ok && k.rid == rid {
		if shared, err := crypto.ComputeECDH(k.priv, ev.eph); err == nil {
			s.sess[sid] = crypto.DeriveSessionKey(shared, rid, k.pub, ev.eph, true)
		}
	} else {
		delete(s.sess, sid) // opened with somebody else's keys (ingress agent)
	}
	known := false
	for _, d := range s.dialled {
		known = known || d == sid
	}
	if !known {
		s.dialled = append(s.dialled, sid)
	}
	s.drain(time.Millisecond)
	return fmt.Sprintf("dial %d", idx) + s.strays()
}

func init() {
	s := &c20State{}
	register("c20", &Engine{
		Run: func(line string) string {
			s.init()
			f := fields(line)
			switch f[0] {
			case "reset":
				s.teardown()
				cfg := forward.DefaultHandlerConfig()
				cfg.ConnectTimeout = 5 * time.Second
				cfg.IdleTimeout = 0
				started := false
				for _, tok := range f[1:] {
					switch {
					case strings.HasPrefix(tok, "started="):
						started = tok == "started=1"
					case strings.HasPrefix(tok, "max="):
						n, err := strconv.Atoi(tok[4:])
						must(err)
						cfg.MaxConnections = n
					default:
						p := strings.SplitN(tok, ":", 2)
						byName := strings.HasSuffix(p[1], "h") // target written as localhost:<port> instead of 127.0.0.1:<port>
						t, err := strconv.Atoi(strings.TrimSuffix(p[1], "h"))
						must(err)
						target := s.addrs[t]
						if byName && s.hostOK {
							target = "localhost" + target[strings.LastIndex(target, ":"):]
						}
						cfg.Endpoints = append(cfg.Endpoints, forward.Endpoint{Key: string(unhexTok(p[0])), Target: target})
					}
				}
				s.maxConn = cfg.MaxConnections
				s.w = &c20Writer{ev: make(chan c20Event, 1024)}
				s.h = forward.NewHandler(cfg, s.self, s.w)
				s.ag = agent.C20NewAgent(s.self, s.h)
				if started {
					s.h.Start()
				}
				return "ok"
			case "start":
				s.h.Start()
				return "ok"
			case "open", "reopen":
				s.nextSID += 2
				sid := s.nextSID
				keyArg := f[1]
				if f[0] == "reopen" {
					keyArg = f[2]
					if i, err := strconv.Atoi(f[1]); err == nil && i < len(s.dialled) {
						sid = s.dialled[i]
					}
				}
				rid, pub := s.newKeys(sid)
				err := s.h.HandleStreamOpen(context.Background(), sid, rid, s.remote, string(unhexTok(keyArg)), pub)
				if err != nil {
					out := s.outcome(sid, rid, false, "err")
					if strings.HasPrefix(out, "none") {
						if err.Error() == "handler not running" {
							return "notrunning" + out[4:]
						}
						return "error-without-reply" + out[4:]
					}
					return out
				}
				return s.outcome(sid, rid, true, "dialerr")
			case "agent":
				at, err := strconv.Atoi(f[1])
				must(err)
				var path []identity.AgentID
				switch f[3] {
				case "self":
					path = []identity.AgentID{s.self}
				case "other":
					path = []identity.AgentID{s.other}
				case "selfother":
					path = []identity.AgentID{s.self, s.other}
				case "otherself":
					path = []identity.AgentID{s.other, s.self}
				}
				s.nextSID += 2
				sid := s.nextSID
				rid, pub := s.newKeys(sid)
				open := &protocol.StreamOpen{RequestID: rid, AddressType: uint8(at), Address: unhexTok(f[2]), Port: 80, TTL: 8, RemainingPath: path, EphemeralPubKey: pub}
				s.ag.C20HandleStreamOpen(s.remote, &protocol.Frame{Type: protocol.FrameStreamOpen, StreamID: sid, Payload: open.Encode()})
				// wait for an asynchronous answer only when the generator expects a dial AND the handler is
				// in a state to accept (public accessors; a synchronous refusal is picked up either way)
				wait := f[4] == "1" && s.h.IsRunning() && (s.maxConn <= 0 || s.h.ConnectionCount() < int64(s.maxConn))
				return s.outcome(sid, rid, wait, "err")
			case "ingress":
				payload, verdict := s.ingressOpen(string(unhexTok(f[1])))
				if verdict != "" {
					return verdict
				}
				open, err := protocol.DecodeStreamOpen(payload)
				if err != nil {
					return "undecodable"
				}
				s.nextSID += 2
				sid := s.nextSID
				s.ag.C20HandleStreamOpen(s.remote, &protocol.Frame{Type: protocol.FrameStreamOpen, StreamID: sid, Payload: payload})
				wait := f[2] == "1" && s.h.IsRunning() && (s.maxConn <= 0 || s.h.ConnectionCount() < int64(s.maxConn))
				return s.outcome(sid, open.RequestID, wait, "err")
			case "data":
				i, err := strconv.Atoi(f[1])
				must(err)
				if i >= len(s.dialled) {
					return "data none"
				}
				sid := s.dialled[i]
				sk := s.sess[sid]
				if sk == nil {
					return "data skipped"
				}
				s.tokenN++
				token := fmt.Sprintf("<tok-%d-%d>", sid, s.tokenN)
				ct, err := sk.Encrypt([]byte(token))
				must(err)
				if err := s.h.HandleStreamData(s.remote, sid, ct, 0); err != nil {
					return "data none"
				}
				// the handler wrote the plaintext to a TCP connection: some listener will read it
				deadline := time.After(20 * time.Second)
				for {
					select {
					case d := <-s.dataCh:
						if strings.Contains(d.data, token) {
							return fmt.Sprintf("data %d", d.idx)
						}
					case <-deadline:
						return "data lost"
					}
				}
			case "close":
				i, err := strconv.Atoi(f[1])
				must(err)
				if i < len(s.dialled) {
					delete(s.sidConn, s.dialled[i])
					s.h.HandleStreamClose(s.remote, s.dialled[i])
				}
				return "ok"
			}
			return "bad-op"
		},
		Gen: func(w *bufio.Writer, seed int64, tier string) {
			r := newRngMixed(seed)
			cases := 60
			if tier == "thorough" {
				cases = 1000
			}
			for c := 0; c < cases; c++ {
				c20GenCase(w, r)
			}
		},
		Facts: func(w *bufio.Writer) {
			fmt.Fprintf(w, "-- GENERATED from /repo internal/protocol + internal/forward by `harness c20 facts`. Do not edit.\n")
			fmt.Fprintf(w, "namespace MM.Gen.C20\n")
			fmt.Fprintf(w, "def forwardPrefix : List UInt8 := %s\n", leanBytes([]byte(protocol.ForwardStreamPrefix)))
			fmt.Fprintf(w, "def reserved : List (List UInt8) := [%s, %s, %s, %s]\n", leanBytes([]byte(protocol.FileTransferUpload)),
				leanBytes([]byte(protocol.FileTransferDownload)), leanBytes([]byte(protocol.ShellStream)), leanBytes([]byte(protocol.ShellInteractive)))
			fmt.Fprintf(w, "def addrTypeDomain : Nat := %d\n", protocol.AddrTypeDomain)
			fmt.Fprintf(w, "def errForwardNotFound : Nat := %d\n", protocol.ErrForwardNotFound)
			fmt.Fprintf(w, "def errConnectionLimit : Nat := %d\n", protocol.ErrConnectionLimit)
			fmt.Fprintf(w, "def errConnectionRefused : Nat := %d\n", protocol.ErrConnectionRefused)
			fmt.Fprintf(w, "end MM.Gen.C20\n")
		},
	})
}

var c20Keys = []string{"web", "db", "ssh", "a", "", "Web", "WEB", "web ", " web", "web\n", "web\x00", "we", "webb", "forward:web", "w\xc3\xa9b", "\xff\xfe", "my-service_01", "web.internal:8080"}

// c20Pct: the key with its first byte percent-encoded.
func c20Pct(k string) string {
	if len(k) == 0 {
		return "%00"
	}
	return fmt.Sprintf("%%%02x", k[0]) + k[1:]
}

func c20Mutate(r *rng, k string) string {
	switch r.intn(19) {
	case 0:
		return strings.ToUpper(k)
	case 1:
		return k + " "
	case 2:
		return " " + k
	case 3:
		if len(k) > 0 {
			return k[:len(k)-1]
		}
		return "x"
	case 4:
		return k + k
	case 5:
		return k + "\x00"
	case 6:
		return "forward:" + k
	case 7:
		if len(k) > 0 {
			b := []byte(k)
			b[r.intn(len(b))] ^= 0x20
			return string(b)
		}
		return "\x20"
	case 8:
		return k + "\n"
	case 9:
		return strings.TrimSpace(k)
	case 10:
		return k + "/"
	case 11:
		return k + "."
	case 12:
		return "." + k
	case 13:
		return k + "\t"
	case 14:
		return c20Pct(k)
	case 15:
		return "forward:forward:" + k
	case 16:
		return k + ".."
	case 17:
		return strings.ToLower(k)
	default:
		return string(r.bytes(1 + r.intn(6)))
	}
}

func c20GenCase(w *bufio.Writer, r *rng) {
	nEp := r.pick(0, 1, 1, 2, 3, 3, 4, 6)
	if r.chance(3) {
		nEp = 40
	}
	var keys []string
	var targets []int
	fmt.Fprintf(w, "reset started=%d max=%d", r.pick(1, 1, 1, 1, 1, 1, 1, 1, 1, 0), r.pick(0, -1, 1, 2, 3, 1000, 1000, 1000))
	for i := 0; i < nEp; i++ {
		k := c20Keys[r.intn(len(c20Keys))]
		switch {
		case r.chance(4):
			k = strings.Repeat("k", r.pick(255, 256, 257, 4095, 4096, 4097, 65535, 65536, 65537))
		case r.chance(10) && len(keys) > 0:
			k = keys[r.intn(len(keys))] // duplicate key
		case r.chance(10):
			k = string(r.bytes(1 + r.intn(8)))
		}
		t := r.intn(c20Live + 2)
		if r.chance(70) {
			t = r.intn(c20Live)
		}
		keys = append(keys, k)
		targets = append(targets, t)
		form := ""
		if r.chance(45) { // hostname target: several endpoints then share one host and differ in the port only
			form = "h"
		}
		fmt.Fprintf(w, " %s:%d%s", hexTok([]byte(k)), t, form)
	}
	fmt.Fprintln(w)
	known := func(k string) (int, bool) {
		for i := len(keys) - 1; i >= 0; i-- {
			if keys[i] == k {
				return targets[i], true
			}
		}
		return 0, false
	}
	pickKey := func() string {
		switch {
		case len(keys) > 0 && r.chance(50):
			return keys[r.intn(len(keys))]
		case len(keys) > 0 && r.chance(70):
			return c20Mutate(r, keys[r.intn(len(keys))])
		case r.chance(50):
			return c20Keys[r.intn(len(c20Keys))]
		default:
			return string(r.bytes(r.intn(5)))
		}
	}
	if len(keys) > 0 && r.chance(50) {
		// re-use of a LIVE stream id: open one key, then send STREAM_OPEN again on the same stream id for the
		// same key / another configured key / an unknown key / near-misses, and after each see where data goes
		k0 := keys[r.intn(len(keys))]
		fmt.Fprintf(w, "open %s\ndata 0\n", hexTok([]byte(k0)))
		for _, k := range []string{k0, keys[r.intn(len(keys))], "no-such-key", c20Mutate(r, k0), k0 + ".", keys[r.intn(len(keys))]} {
			fmt.Fprintf(w, "reopen 0 %s\ndata 0\n", hexTok([]byte(k)))
		}
		if r.chance(50) {
			fmt.Fprintf(w, "close 0\ndata 0\nreopen 0 %s\ndata 0\n", hexTok([]byte(keys[r.intn(len(keys))])))
		}
	}
	if len(keys) > 0 && r.chance(35) {
		// every configured key in order, in reverse order, and again (state kept by the handler between
		// opens — e.g. anything cached per host — must not redirect a later open)
		for rep := 0; rep < 2; rep++ {
			for i := range keys {
				fmt.Fprintf(w, "open %s\n", hexTok([]byte(keys[i])))
			}
			for i := len(keys) - 1; i >= 0; i-- {
				fmt.Fprintf(w, "open %s\n", hexTok([]byte(keys[i])))
			}
		}
	}
	if len(keys) > 0 && r.chance(35) {
		// systematic near-misses of one configured key through the agent path
		k := keys[r.intn(len(keys))]
		if len(k) <= 200 {
			for _, nm := range []string{k + ".", "." + k, k + " ", k + "\x00", k + "\t", strings.ToUpper(k), strings.ToLower(k), "forward:" + k, k + "..", c20Pct(k), k} {
				dom := "forward:" + nm
				wait := 0
				if _, ok := known(nm); ok {
					wait = 1
				}
				fmt.Fprintf(w, "agent 3 %s %s %d\n", hexTok(append([]byte{byte(len(dom))}, dom...)), r.pickS("none", "self"), wait)
			}
		}
	}
	nOps := 2 + r.intn(14)
	if r.chance(4) {
		nOps = 120 // long history: connection accounting
	}
	dials := 0
	for i := 0; i < nOps; i++ {
		switch x := r.intn(100); {
		case x < 46:
			k := pickKey()
			fmt.Fprintf(w, "open %s\n", hexTok([]byte(k)))
			dials++
		case x < 54:
			fmt.Fprintf(w, "reopen %d %s\n", r.intn(dials+1), hexTok([]byte(pickKey())))
		case x < 58:
			fmt.Fprintf(w, "data %d\n", r.intn(dials+1))
		case x >= 58 && x < 61 && r.chance(60):
			fmt.Fprintf(w, "close %d\n", r.intn(dials+1))
		case x >= 61 && x < 71:
			k := pickKey()
			if r.chance(6) {
				k = strings.Repeat("k", r.pick(246, 247, 248, 255)) // around the one-byte length of the address field
			} else if len(k) > 247 {
				k = k[:247]
			}
			wait := 0
			if _, ok := known(k); ok && len(k) <= 247 {
				wait = 1
			}
			fmt.Fprintf(w, "ingress %s %d\n", hexTok([]byte(k)), wait)
			dials++
		case x < 61:
			fmt.Fprintf(w, "start\n")
		default:
			k := pickKey()
			if len(k) > 240 {
				k = k[:240]
			}
			prefix := "forward:"
			if r.chance(35) {
				prefix = r.pickS("Forward:", "forward", "forward::", " forward:", "forward;", "FORWARD:", "forwar:", "", "forward:\x00", "fo", "xforward:", "forward: ")
			}
			dom := prefix + k
			if r.chance(5) {
				dom = r.pickS("file:uploadx", "file:uploa", "shell:tt", "shell:stream2", "udp:assoc", "icmp:echo", "example.com", "forward")
			}
			at := 3
			addr := append([]byte{byte(len(dom))}, dom...)
			if r.chance(12) {
				at = r.pick(1, 4, 0, 2, 255)
				if at == 1 {
					addr = []byte("forw")
				} else if at == 4 {
					addr = []byte("forward:web\x00\x00\x00\x00\x00")
				} else {
					addr = nil
				}
			}
			path := r.pickS("none", "none", "self", "self", "other", "selfother", "otherself")
			// w: does the generator expect the forward handler to answer asynchronously (a dial)?
			wait := 0
			if at == 3 && strings.HasPrefix(dom, "forward:") && (path == "none" || path == "self") {
				if _, ok := known(dom[len("forward:"):]); ok {
					wait = 1
				}
			}
			fmt.Fprintf(w, "agent %d %s %s %d\n", at, hexTok(addr), path, wait)
			dials++
		}
	}
}
