//go:build verif && (all || c35)

package main

import (
	"bufio"
	"fmt"
	"reflect"
	"regexp"
	"strconv"
	"strings"

	"gopkg.in/yaml.v3"

	"github.com/postalsys/muti-metroo/internal/config"
)

// Engine c35: config.Config.Redacted()/String() on configurations built by reflection.
//
// A location is the dotted yaml path of a string leaf with concrete list indices
// (peers.1.tls.key, exit.routes.0).  Values are hex.
//
//	red <loc>=<val> ...     -> ok orig=<same|changed> n=<k|?> <val'|?>/<seen> ...
//	     (one token per assignment: the value at that location after parsing String()'s output
//	      back into a Config; seen=1 iff the value's marker occurs anywhere in the output;
//	      n = number of non-empty string leaves in the parsed-back output)
//	hos <loc>=<val>[!] ...  -> ok orig=<same|changed> <seen> ...   (only for assignments marked "!")
//
// Options (tokens before the assignments): m=s String() once (default) | m=ss String() twice, the second
// output is judged | m=rs Redacted() first, then String() | m=d Redacted() inspected directly (no YAML
// parse of the output; the struct is marshalled only to search for markers);  b=def start from
// config.Default() instead of the zero Config (hos only: the defaults add leaves of their own).
//
// Facts: the schema of string leaves (yaml path + Go field path) and the set of paths that
// Redacted() blanks, determined behaviourally on a configuration with a marker in every leaf.

type c35Leaf struct {
	yaml, goN []string
}

func c35YamlName(f reflect.StructField) (string, bool) {
	tag := f.Tag.Get("yaml")
	name := strings.Split(tag, ",")[0]
	if name == "-" {
		return "", false
	}
	if name == "" {
		name = strings.ToLower(f.Name)
	}
	return name, true
}

func c35Walk(t reflect.Type, y, g []string, out *[]c35Leaf) {
	cp := func(a []string, x ...string) []string { return append(append([]string{}, a...), x...) }
	switch t.Kind() {
	case reflect.String:
		*out = append(*out, c35Leaf{cp(y), cp(g)})
	case reflect.Struct:
		for i := 0; i < t.NumField(); i++ {
			f := t.Field(i)
			if !f.IsExported() {
				continue
			}
			name, ok := c35YamlName(f)
			if !ok {
				continue
			}
			c35Walk(f.Type, cp(y, name), cp(g, f.Name), out)
		}
	case reflect.Slice:
		c35Walk(t.Elem(), cp(y, "[]"), cp(g, "[]"), out)
	case reflect.Ptr:
		c35Walk(t.Elem(), y, g, out)
	case reflect.Map:
		panic("c35: map-typed configuration field — extend the walker: " + strings.Join(y, "."))
	}
}

func c35Schema() []c35Leaf {
	var out []c35Leaf
	c35Walk(reflect.TypeOf(config.Config{}), nil, nil, &out)
	return out
}

// c35At navigates to the string leaf at loc, growing slices on the way.
func c35At(v reflect.Value, comps []string) reflect.Value {
	for _, c := range comps {
		for v.Kind() == reflect.Ptr {
			if v.IsNil() {
				v.Set(reflect.New(v.Type().Elem()))
			}
			v = v.Elem()
		}
		switch v.Kind() {
		case reflect.Struct:
			found := false
			for i := 0; i < v.NumField(); i++ {
				if n, ok := c35YamlName(v.Type().Field(i)); ok && n == c {
					v = v.Field(i)
					found = true
					break
				}
			}
			if !found {
				panic("c35: no field " + c)
			}
		case reflect.Slice:
			idx, err := strconv.Atoi(c)
			must(err)
			for v.Len() <= idx {
				v.Set(reflect.Append(v, reflect.Zero(v.Type().Elem())))
			}
			v = v.Index(idx)
		default:
			panic("c35: cannot descend into " + v.Kind().String() + " at " + c)
		}
	}
	if v.Kind() != reflect.String {
		panic("c35: not a string leaf")
	}
	return v
}

// c35Leaves lists every string leaf value of a configuration.
func c35Leaves(v reflect.Value, loc string, fn func(loc, val string)) {
	switch v.Kind() {
	case reflect.String:
		fn(loc, v.String())
	case reflect.Struct:
		for i := 0; i < v.NumField(); i++ {
			if !v.Type().Field(i).IsExported() {
				continue
			}
			if n, ok := c35YamlName(v.Type().Field(i)); ok {
				c35Leaves(v.Field(i), strings.TrimPrefix(loc+"."+n, "."), fn)
			}
		}
	case reflect.Slice:
		for i := 0; i < v.Len(); i++ {
			c35Leaves(v.Index(i), loc+"."+strconv.Itoa(i), fn)
		}
	case reflect.Ptr:
		if !v.IsNil() {
			c35Leaves(v.Elem(), loc, fn)
		}
	}
}

type c35Assign struct {
	loc   string
	val   string
	watch bool
}

func c35Parse(f []string) []c35Assign {
	var as []c35Assign
	for _, tok := range f {
		if strings.HasPrefix(tok, "m=") || strings.HasPrefix(tok, "b=") {
			continue
		}
		w := strings.HasSuffix(tok, "!")
		tok = strings.TrimSuffix(tok, "!")
		p := strings.SplitN(tok, "=", 2)
		if len(p) != 2 {
			panic("c35: bad assignment " + tok)
		}
		as = append(as, c35Assign{p[0], string(unhexTok(p[1])), w})
	}
	return as
}

func c35Build(as []c35Assign, def bool) *config.Config {
	cfg := &config.Config{}
	if def {
		cfg = config.Default()
	}
	for _, a := range as {
		c35At(reflect.ValueOf(cfg).Elem(), strings.Split(a.loc, ".")).SetString(a.val)
	}
	return cfg
}

// c35Core: the marker of a value (generated values carry a unique `Zq<2 digits><6 alnum>` marker;
// other values are their own marker).
var c35MarkerRe = regexp.MustCompile(`Zq[0-9]{2}[A-Za-z0-9]{6}`)

func c35Core(s string) string {
	if m := c35MarkerRe.FindString(s); m != "" {
		return m
	}
	return s
}

func init() {
	register("c35", &Engine{
		Run: func(line string) string {
			f := fields(line)
			if len(f) < 1 || (f[0] != "red" && f[0] != "hos") {
				return "bad-op"
			}
			as := c35Parse(f[1:])
			mode, def := "s", false
			for _, tok := range f[1:] {
				if strings.HasPrefix(tok, "m=") {
					mode = tok[2:]
				}
				if tok == "b=def" {
					def = true
				}
			}
			cfg, twin := c35Build(as, def), c35Build(as, def)
			var raw string
			back := &config.Config{}
			parsed := false
			switch mode {
			case "ss":
				_ = cfg.String()
				raw = cfg.String()
			case "rs":
				_ = cfg.Redacted()
				raw = cfg.String()
			case "d":
				back = cfg.Redacted()
				parsed = true
				data, _ := yaml.Marshal(back)
				raw = string(data)
			default:
				raw = cfg.String()
			}
			orig := "same"
			if !reflect.DeepEqual(cfg, twin) {
				orig = "changed"
			}
			if mode != "d" {
				parsed = yaml.Unmarshal([]byte(raw), back) == nil
			}
			leaves := map[string]string{}
			n := 0
			if parsed {
				c35Leaves(reflect.ValueOf(back).Elem(), "", func(loc, val string) {
					leaves[loc] = val
					if val != "" {
						n++
					}
				})
			}
			seen := func(a c35Assign) string {
				if a.val == "" {
					return "0"
				}
				core := c35Core(a.val)
				if strings.Contains(raw, core) {
					return "1"
				}
				for _, v := range leaves {
					if strings.Contains(v, core) {
						return "1"
					}
				}
				return "0"
			}
			var sb strings.Builder
			sb.WriteString("ok orig=" + orig)
			if f[0] == "red" {
				if parsed {
					fmt.Fprintf(&sb, " n=%d", n)
				} else {
					sb.WriteString(" n=?")
				}
				for _, a := range as {
					v := "?"
					if parsed {
						v = hexTok([]byte(leaves[a.loc]))
					}
					sb.WriteString(" " + v + "/" + seen(a))
				}
			} else {
				for _, a := range as {
					if a.watch {
						sb.WriteString(" " + seen(a))
					}
				}
			}
			return sb.String()
		},
		Gen: func(w *bufio.Writer, seed int64, tier string) {
			r := newRngMixed(seed)
			n := 600
			if tier == "thorough" {
				n = 20000
			}
			schema := c35Schema()
			for i := 0; i < n; i++ {
				hostileEverywhere := r.chance(25)
				kind := "red"
				if hostileEverywhere {
					kind = "hos"
				}
				fmt.Fprint(w, kind)
				fmt.Fprintf(w, " m=%s", r.pickS("s", "s", "s", "ss", "rs", "d", "d"))
				if kind == "hos" && r.chance(30) {
					fmt.Fprint(w, " b=def")
				}
				used := map[string]bool{}
				k := 1 + r.intn(14)
				if r.chance(5) {
					k = 0
				}
				if r.chance(3) {
					k = 40 + r.intn(40) // many leaves at once
				}
				for j := 0; j < k; j++ {
					var lf c35Leaf
					if r.chance(65) { // favour secret-looking leaves
						for tries := 0; tries < 50; tries++ {
							lf = schema[r.intn(len(schema))]
							if c35LooksSecret(lf) {
								break
							}
						}
					} else {
						lf = schema[r.intn(len(schema))]
					}
					var comps []string
					for _, c := range lf.yaml {
						if c == "[]" {
							c = strconv.Itoa(r.pick(0, 0, 1, 1, 2, 3))
							if r.chance(2) { // long lists
								c = strconv.Itoa(r.pick(31, 32, 255, 256, 257))
							}
						}
						comps = append(comps, c)
					}
					loc := strings.Join(comps, ".")
					if used[loc] {
						continue
					}
					used[loc] = true
					marker := fmt.Sprintf("Zq%02d%s", j, c35Alnum(r, 6))
					val := marker
					watch := false
					if c35LooksSecret(lf) {
						val = c35Hostile(r, marker)
						watch = true
					} else if hostileEverywhere && r.chance(50) {
						val = c35Hostile(r, marker)
					}
					if r.chance(6) {
						val = ""
					}
					fmt.Fprintf(w, " %s=%s", loc, hexTok([]byte(val)))
					if kind == "hos" && watch {
						fmt.Fprint(w, "!")
					}
				}
				fmt.Fprintln(w)
			}
		},
		Facts: func(w *bufio.Writer) {
			schema := c35Schema()
			// behavioural extraction of the redacted paths: a marker in every string leaf, two
			// entries in every list
			var as []c35Assign
			idx := 0
			var expand func(lf c35Leaf, i int, prefix []string)
			expand = func(lf c35Leaf, i int, prefix []string) {
				if i == len(lf.yaml) {
					idx++
					as = append(as, c35Assign{strings.Join(prefix, "."), fmt.Sprintf("Mk%04dx", idx), false})
					return
				}
				if lf.yaml[i] == "[]" {
					for _, k := range []string{"0", "1"} {
						expand(lf, i+1, append(append([]string{}, prefix...), k))
					}
					return
				}
				expand(lf, i+1, append(append([]string{}, prefix...), lf.yaml[i]))
			}
			for _, lf := range schema {
				expand(lf, 0, nil)
			}
			red := c35Build(as, false).Redacted()
			blank, kept := map[string]int{}, map[string]int{}
			c35Leaves(reflect.ValueOf(red).Elem(), "", func(loc, val string) {
				var p []string
				for _, c := range strings.Split(loc, ".") {
					if _, err := strconv.Atoi(c); err == nil {
						c = "[]"
					}
					p = append(p, c)
				}
				key := strings.Join(p, ".")
				if val == config.C35RedactedValue {
					blank[key]++
				} else {
					kept[key]++
				}
			})
			q := func(xs []string) string {
				var s []string
				for _, x := range xs {
					s = append(s, strconv.Quote(x))
				}
				return "[" + strings.Join(s, ", ") + "]"
			}
			fmt.Fprintf(w, "-- GENERATED from /repo internal/config (reflection over config.Config + behaviour of Redacted()) by `harness c35 facts`. Do not edit.\n")
			fmt.Fprintf(w, "namespace MM.Gen.C35\n")
			fmt.Fprintf(w, "structure Leaf where\n  yaml : List String\n  go : List String\n  /-- the leaf's yaml name or Go field name matches (?i)key|password|secret|private|token|hash|credential|passphrase -/\n  looksSecret : Bool\n\n")
			fmt.Fprintf(w, "def placeholder : List UInt8 := %s\n\n", leanBytes([]byte(config.C35RedactedValue)))
			fmt.Fprintf(w, "/-- every string-typed leaf of config.Config (yaml path, Go field path); `[]` = list entry -/\n")
			fmt.Fprintf(w, "def leaves : List Leaf := [\n")
			for i, lf := range schema {
				sep := ","
				if i == len(schema)-1 {
					sep = ""
				}
				fmt.Fprintf(w, "  ⟨%s, %s, %v⟩%s\n", q(lf.yaml), q(lf.goN), c35NameLooksSecret(lf), sep)
			}
			fmt.Fprintf(w, "]\n\n/-- paths whose every instance Redacted() replaced by the placeholder -/\n")
			fmt.Fprintf(w, "def redactedPaths : List (List String) := [\n")
			first := true
			var partial []string
			for _, lf := range schema {
				key := strings.Join(lf.yaml, ".")
				if blank[key] > 0 && kept[key] == 0 {
					if !first {
						fmt.Fprintf(w, ",\n")
					}
					first = false
					fmt.Fprintf(w, "  %s", q(lf.yaml))
				} else if blank[key] > 0 {
					partial = append(partial, key)
				}
			}
			fmt.Fprintf(w, "\n]\n\n/-- paths blanked in some list entries but not in others (must be empty) -/\n")
			fmt.Fprintf(w, "def partialPaths : List String := %s\n", q(partial))
			// lists whose elements are written, and whether the original's element survives the call
			var lists [][]string
			seenList := map[string]bool{}
			for _, lf := range schema {
				key := strings.Join(lf.yaml, ".")
				if blank[key] == 0 {
					continue
				}
				for i, c := range lf.yaml {
					if c == "[]" {
						pre := strings.Join(lf.yaml[:i], ".")
						if !seenList[pre] {
							seenList[pre] = true
							lists = append(lists, lf.yaml[:i])
						}
						break
					}
				}
			}
			fmt.Fprintf(w, "\n/-- lists whose elements Redacted() writes (prefix of a redacted path up to its first `[]`) -/\n")
			fmt.Fprintf(w, "def writtenLists : List (List String) := [")
			for i, l := range lists {
				if i > 0 {
					fmt.Fprint(w, ", ")
				}
				fmt.Fprint(w, q(l))
			}
			fmt.Fprintf(w, "]\n\n/-- for each of them: does a write by Redacted() leave the original's element untouched (list detached first)? -/\n")
			fmt.Fprintf(w, "def detached : List Bool := [")
			for i, l := range lists {
				// every redacted leaf below this list, set in entries 0 and 1 of the original
				var las []c35Assign
				for _, lf := range schema {
					key := strings.Join(lf.yaml, ".")
					if blank[key] > 0 && strings.HasPrefix(key, strings.Join(l, ".")+".[]") {
						for _, k := range []string{"0", "1"} {
							loc := strings.Replace(key, "[]", k, 1)
							if !strings.Contains(loc, "[]") {
								las = append(las, c35Assign{loc, "Orig" + k + "secret", false})
							}
						}
					}
				}
				cfg, twin := c35Build(las, false), c35Build(las, false)
				_ = cfg.Redacted()
				_ = cfg.String()
				if i > 0 {
					fmt.Fprint(w, ", ")
				}
				fmt.Fprint(w, reflect.DeepEqual(cfg, twin) && len(las) > 0)
			}
			fmt.Fprintf(w, "]\n")
			fmt.Fprintf(w, "end MM.Gen.C35\n")
		},
	})
}

var c35SecretNameRe = regexp.MustCompile(`(?i)key|password|secret|private|token|hash|credential|passphrase`)

// c35NameLooksSecret: the broad, name-based screen emitted as the `looksSecret` fact (every such leaf
// must be redacted or be on the commented allow-list in MM/Props/C35.lean).
func c35NameLooksSecret(lf c35Leaf) bool {
	return c35SecretNameRe.MatchString(lf.yaml[len(lf.yaml)-1]) || c35SecretNameRe.MatchString(lf.goN[len(lf.goN)-1])
}

// c35LooksSecret is only a generator heuristic (where to put hostile values and what to watch);
// the classification the property is checked against lives in Lean (MM.C35.isSecretLeaf).
func c35LooksSecret(lf c35Leaf) bool {
	last := lf.yaml[len(lf.yaml)-1]
	return strings.Contains(last, "password") || strings.Contains(last, "private_key") ||
		(len(lf.yaml) >= 2 && lf.yaml[len(lf.yaml)-2] == "tls" && (last == "key" || last == "key_pem"))
}

func c35Alnum(r *rng, n int) string {
	const cs = "abcdefghijklmnopqrstuvwxyzABCDEFGHIJKLMNOPQRSTUVWXYZ0123456789"
	b := make([]byte, n)
	for i := range b {
		b[i] = cs[r.intn(len(cs))]
	}
	return string(b)
}

var c35Pre = []string{"", "", "", "\t\n ", "\t\n", "\t", "\n", " ", "  ", "\n ", "- ", "? ", ": ", "#", " #", "&a ", "*a", "!!binary ", "!!str ",
	"|", ">", "|-\n", "'", "\"", "{", "[", "]", "}", ",", "%", "@", "`", "\xff", "\xc3", "\x00", "\x7f", "\u2028", "\u0085", "\ufeff", "\r\n", "\r",
	"---\n", "...\n", "x: y\nagent:\n  id: ", "\ta\n b", "~", "null", "true ", "0x", "<<: ", "=", "\\", "\\n", "\x1b[31m"}
var c35Suf = []string{"", "", "", "\n", " ", "\t", ":", ": ", " #x", "\n\t", "\xfe", "\n  x: y", "\n\n", "'", "\"", "\\", "\n- a", "\n...", "\x00", "\u2028", "}", "]"}

func c35Hostile(r *rng, marker string) string {
	s := c35Pre[r.intn(len(c35Pre))] + marker + c35Suf[r.intn(len(c35Suf))]
	if r.chance(10) {
		s = c35Pre[r.intn(len(c35Pre))] + s
	}
	if r.chance(4) { // long multi-line (PEM-like)
		s += "\n" + strings.Repeat("QUJDREVGR0hJSktMTU5PUFFSU1RVVldYWVo=\n", 20+r.intn(60))
	}
	if r.chance(3) {
		s = string(r.bytes(1+r.intn(6))) + s
	}
	if r.chance(2) { // values around typical buffer sizes
		n := r.pick(255, 256, 257, 4095, 4096, 4097, 65535, 65536, 65537)
		s += r.pickS(" ", "\n", "\t\n", "") + strings.Repeat(r.pickS("x", "ab\n", "\t", "k: v\n"), n)[:n]
	}
	return s
}
