//go:build verif

package main

// newRngMixed seeds the shared splitmix64 generator from a HASH of the seed.  (newRng(seed) uses
// seed*increment as the initial state, which makes the stream of seed k a copy of the stream of
// seed 1 shifted by k-1 draws; different VERIF_SEEDs would then re-run almost the same cases.)
// Used by engines c20, c35, c37, c38.
func newRngMixed(seed int64) *rng {
	z := uint64(seed) + 0x9E3779B97F4A7C15
	z = (z ^ (z >> 30)) * 0xBF58476D1CE4E5B9
	z = (z ^ (z >> 27)) * 0x94D049BB133111EB
	return &rng{s: z ^ (z >> 31)}
}
