//go:build verif && (all || c01 || c02 || c03 || c04)

package main

// Source-level facts for C02/C03/C04 (T-gen): a go/ast pass over the working tree the harness was
// built from (env VERIF_REPO, default /repo). Syntax only — no type checking — so it depends on
// nothing but the files themselves. Every fact carries file:line. When an expected shape cannot be
// found the caller exits non-zero: a broken tie is reported, never ignored.

import (
	"bufio"
	"bytes"
	"fmt"
	"go/ast"
	"go/parser"
	"go/printer"
	"go/token"
	"os"
	"path/filepath"
	"sort"
	"strings"
)

// c03Tunnel runs one live tunnel of the given kind through the in-process mesh (set by eng_c04.go,
// which is compiled into every build that carries tag c04 or all).
var c03Tunnel func(kind string, payload []byte) string

// c03Handshake runs one handler-level `hs …` op, c03HandshakeGen writes such cases (c04_handlers.go).
var c03Handshake func(f []string) string
var c03HandshakeGen func(w *bufio.Writer, r *rng, nPerKind int)

func c03RepoRoot() string {
	if r := os.Getenv("VERIF_REPO"); r != "" {
		return r
	}
	return "/repo"
}

type c03Pkg struct {
	fset  *token.FileSet
	files map[string]*ast.File // path relative to the repo root
}

// c03Parse parses every non-test, non-verif .go file below the given repo-relative directories.
func c03Parse(dirs ...string) (*c03Pkg, error) {
	root := c03RepoRoot()
	p := &c03Pkg{fset: token.NewFileSet(), files: map[string]*ast.File{}}
	for _, d := range dirs {
		ents, err := os.ReadDir(filepath.Join(root, d))
		if err != nil {
			return nil, err
		}
		for _, e := range ents {
			n := e.Name()
			if e.IsDir() || !strings.HasSuffix(n, ".go") || strings.HasSuffix(n, "_test.go") || strings.HasPrefix(n, "zz_verif_") {
				continue
			}
			f, err := parser.ParseFile(p.fset, filepath.Join(root, d, n), nil, parser.SkipObjectResolution)
			if err != nil {
				return nil, err
			}
			p.files[filepath.Join(d, n)] = f
		}
	}
	return p, nil
}

func (p *c03Pkg) txt(n ast.Node) string {
	var b bytes.Buffer
	printer.Fprint(&b, p.fset, n)
	return b.String()
}

func (p *c03Pkg) line(n ast.Node) int { return p.fset.Position(n.Pos()).Line }

func (p *c03Pkg) sortedFiles() []string {
	var names []string
	for n := range p.files {
		names = append(names, n)
	}
	sort.Strings(names)
	return names
}

// c03CallName returns the last selector component / identifier of a call's function.
func c03CallName(c *ast.CallExpr) string {
	switch f := c.Fun.(type) {
	case *ast.Ident:
		return f.Name
	case *ast.SelectorExpr:
		return f.Sel.Name
	}
	return ""
}

func c03StripAddr(s string) string {
	s = strings.TrimSpace(s)
	s = strings.TrimPrefix(s, "&")
	s = strings.TrimPrefix(s, "*")
	return s
}

// ---------------------------------------------------------------------------------------------
// key-derivation call sites

type c03Site struct {
	File, Func string
	Line       int
	IsInit     string // "true" | "false" | other expression text
	Secret     string
	Req        string
	InitPub    string
	RespPub    string
	HasECDH    bool
	ECDHLine   int
	Priv       string // ECDH arg 0 (leading * or & stripped)
	Remote     string // ECDH arg 1
	ErrChecked bool   // the ECDH error is tested and the failing branch returns before the derivation
	InitRole   string // "local" | "remote" | "other"
	RespRole   string
	Kind       string
}

var c03Kinds = map[string]string{
	"internal/agent/agent.go:DialContext":                   "tcp",
	"internal/agent/agent.go:dialViaDomainRouteWithContext": "tcp",
	"internal/exit/handler.go:handleStreamOpenAsync":        "tcp",
	"internal/agent/agent.go:DialForward":                   "forward",
	"internal/forward/handler.go:handleStreamOpenAsync":     "forward",
	"internal/agent/udp.go:handleUDPOpenAck":                "udp",
	"internal/udp/handler.go:performKeyExchange":            "udp",
	"internal/agent/icmp.go:deriveICMPSessionKey":           "icmp",
	"internal/icmp/handler.go:performKeyExchange":           "icmp",
	"internal/agent/agent.go:OpenShellStream":               "shell",
	"internal/shell/handler.go:HandleStreamOpen":            "shell",
	"internal/agent/agent.go:UploadFile":                    "file",
	"internal/agent/agent.go:DownloadFile":                  "file",
	"internal/agent/agent.go:DownloadFileStream":            "file",
	"internal/agent/agent.go:deriveResponderSessionKey":     "file",
}

var c03SiteDirs = []string{"internal/agent", "internal/exit", "internal/forward", "internal/udp", "internal/icmp", "internal/shell"}

// c03GeneratedPair: does fn contain `priv, pub, … := [crypto.]GenerateEphemeralKeypair()`?
func c03GeneratedPair(fn *ast.FuncDecl, priv, pub string) bool {
	found := false
	ast.Inspect(fn.Body, func(n ast.Node) bool {
		as, ok := n.(*ast.AssignStmt)
		if !ok || len(as.Rhs) != 1 || len(as.Lhs) < 2 {
			return true
		}
		c, ok := as.Rhs[0].(*ast.CallExpr)
		if !ok || c03CallName(c) != "GenerateEphemeralKeypair" {
			return true
		}
		a, ok1 := as.Lhs[0].(*ast.Ident)
		b, ok2 := as.Lhs[1].(*ast.Ident)
		if ok1 && ok2 && a.Name == priv && b.Name == pub {
			found = true
		}
		return true
	})
	return found
}

func c03FieldPair(priv, pub string) bool {
	return strings.HasSuffix(priv, ".EphemeralPrivKey") && strings.HasSuffix(pub, ".EphemeralPubKey") &&
		strings.TrimSuffix(priv, ".EphemeralPrivKey") == strings.TrimSuffix(pub, ".EphemeralPubKey")
}

func c03ParamIndex(fn *ast.FuncDecl, name string) int {
	i := 0
	for _, f := range fn.Type.Params.List {
		for _, n := range f.Names {
			if n.Name == name {
				return i
			}
			i++
		}
	}
	return -1
}

// c03StructPairsOK: every composite literal that sets EphemeralPrivKey sets EphemeralPubKey too, both
// from one GenerateEphemeralKeypair() pair of the enclosing function.
func c03StructPairsOK(p *c03Pkg) (bool, string) {
	count := 0
	for _, name := range p.sortedFiles() {
		for _, d := range p.files[name].Decls {
			fn, ok := d.(*ast.FuncDecl)
			if !ok || fn.Body == nil {
				continue
			}
			bad := ""
			ast.Inspect(fn.Body, func(n ast.Node) bool {
				cl, ok := n.(*ast.CompositeLit)
				if !ok {
					return true
				}
				var priv, pub string
				for _, e := range cl.Elts {
					kv, ok := e.(*ast.KeyValueExpr)
					if !ok {
						continue
					}
					switch p.txt(kv.Key) {
					case "EphemeralPrivKey":
						priv = p.txt(kv.Value)
					case "EphemeralPubKey":
						pub = p.txt(kv.Value)
					}
				}
				if priv != "" {
					count++
					if pub == "" || !c03GeneratedPair(fn, priv, pub) {
						bad = fmt.Sprintf("%s:%d", name, p.line(cl))
					}
				}
				return true
			})
			if bad != "" {
				return false, bad
			}
			// plain assignments x.EphemeralPrivKey = … are not expected anywhere
			ast.Inspect(fn.Body, func(n ast.Node) bool {
				as, ok := n.(*ast.AssignStmt)
				if !ok {
					return true
				}
				for _, l := range as.Lhs {
					if strings.HasSuffix(p.txt(l), ".EphemeralPrivKey") {
						bad = fmt.Sprintf("%s:%d", name, p.line(as))
					}
				}
				return true
			})
			if bad != "" {
				return false, bad
			}
		}
	}
	return count > 0, fmt.Sprintf("%d literals", count)
}

// c03Paired: is `pub` the public half of `priv` at this site?
func c03Paired(p *c03Pkg, fn *ast.FuncDecl, priv, pub string, depth int) bool {
	if c03GeneratedPair(fn, priv, pub) {
		return true
	}
	if c03FieldPair(priv, pub) {
		return true
	}
	// both are parameters of a helper: every caller must pass a pair
	ip, iq := c03ParamIndex(fn, priv), c03ParamIndex(fn, pub)
	if ip < 0 || iq < 0 || depth > 1 {
		return false
	}
	calls := 0
	ok := true
	for _, name := range p.sortedFiles() {
		for _, d := range p.files[name].Decls {
			caller, isFn := d.(*ast.FuncDecl)
			if !isFn || caller.Body == nil {
				continue
			}
			ast.Inspect(caller.Body, func(n ast.Node) bool {
				c, isCall := n.(*ast.CallExpr)
				if !isCall || c03CallName(c) != fn.Name.Name || len(c.Args) <= ip || len(c.Args) <= iq {
					return true
				}
				calls++
				if !c03Paired(p, caller, c03StripAddr(p.txt(c.Args[ip])), c03StripAddr(p.txt(c.Args[iq])), depth+1) {
					ok = false
				}
				return true
			})
		}
	}
	return ok && calls > 0
}

// c03ErrChecked: directly after the statement holding the ECDH call there is `if err != nil { … return … }`.
func c03ErrChecked(p *c03Pkg, fn *ast.FuncDecl, ecdh *ast.CallExpr) bool {
	res := false
	ast.Inspect(fn.Body, func(n ast.Node) bool {
		blk, ok := n.(*ast.BlockStmt)
		if !ok {
			return true
		}
		for i, st := range blk.List {
			as, ok := st.(*ast.AssignStmt)
			if !ok || len(as.Rhs) != 1 || as.Rhs[0] != ast.Expr(ecdh) || len(as.Lhs) != 2 {
				continue
			}
			errName := p.txt(as.Lhs[1])
			if i+1 >= len(blk.List) {
				continue
			}
			ifs, ok := blk.List[i+1].(*ast.IfStmt)
			if !ok || ifs.Init != nil || p.txt(ifs.Cond) != errName+" != nil" || len(ifs.Body.List) == 0 {
				continue
			}
			if _, ok := ifs.Body.List[len(ifs.Body.List)-1].(*ast.ReturnStmt); ok {
				res = true
			}
		}
		return true
	})
	return res
}

func c03Sites() ([]c03Site, *c03Pkg, error) {
	p, err := c03Parse(c03SiteDirs...)
	if err != nil {
		return nil, nil, err
	}
	var sites []c03Site
	for _, name := range p.sortedFiles() {
		for _, d := range p.files[name].Decls {
			fn, ok := d.(*ast.FuncDecl)
			if !ok || fn.Body == nil {
				continue
			}
			// all ECDH assignments of this function, by the name of the variable they define
			type ecdh struct {
				call *ast.CallExpr
				pos  token.Pos
			}
			ecdhs := map[string][]ecdh{}
			ast.Inspect(fn.Body, func(n ast.Node) bool {
				as, ok := n.(*ast.AssignStmt)
				if !ok || len(as.Rhs) != 1 || len(as.Lhs) < 1 {
					return true
				}
				if c, ok := as.Rhs[0].(*ast.CallExpr); ok && c03CallName(c) == "ComputeECDH" && len(c.Args) == 2 {
					v := p.txt(as.Lhs[0])
					ecdhs[v] = append(ecdhs[v], ecdh{c, as.Pos()})
				}
				return true
			})
			ast.Inspect(fn.Body, func(n ast.Node) bool {
				c, ok := n.(*ast.CallExpr)
				if !ok || c03CallName(c) != "DeriveSessionKey" || len(c.Args) != 5 {
					return true
				}
				s := c03Site{File: name, Func: fn.Name.Name, Line: p.line(c), Secret: p.txt(c.Args[0]), Req: p.txt(c.Args[1]),
					InitPub: p.txt(c.Args[2]), RespPub: p.txt(c.Args[3]), IsInit: p.txt(c.Args[4]), InitRole: "other", RespRole: "other"}
				s.Kind = c03Kinds[name+":"+fn.Name.Name]
				if s.Kind == "" {
					s.Kind = "unlisted"
				}
				var best *ecdh
				for i := range ecdhs[s.Secret] {
					e := &ecdhs[s.Secret][i]
					if e.pos < c.Pos() && (best == nil || e.pos > best.pos) {
						best = e
					}
				}
				if best != nil {
					s.HasECDH = true
					s.ECDHLine = p.line(best.call)
					s.Priv = c03StripAddr(p.txt(best.call.Args[0]))
					s.Remote = p.txt(best.call.Args[1])
					s.ErrChecked = c03ErrChecked(p, fn, best.call)
					role := func(e string) string {
						switch {
						case e == s.Remote:
							return "remote"
						case c03Paired(p, fn, s.Priv, e, 0):
							return "local"
						}
						return "other"
					}
					s.InitRole, s.RespRole = role(s.InitPub), role(s.RespPub)
				}
				sites = append(sites, s)
				return true
			})
		}
	}
	sort.Slice(sites, func(i, j int) bool {
		if sites[i].File != sites[j].File {
			return sites[i].File < sites[j].File
		}
		return sites[i].Line < sites[j].Line
	})
	return sites, p, nil
}

// ---------------------------------------------------------------------------------------------
// mutex region of SessionKey.Encrypt (C02)

type c03EncryptFacts struct {
	Line               int
	LockStmt           int
	UnlockStmt         int // index of the top-level Unlock after Lock; 1000000 when deferred
	NonceStmts         []int
	IncStmts           []int
	EarlyUnlocksReturn bool
	SealUsesLocalNonce bool
	Writers            []string // functions of package crypto that modify .sendNonce
	NonceBuilders      []string // functions that call buildSendNonce
}

func c03IsMuCall(p *c03Pkg, e ast.Expr, method string) bool {
	c, ok := e.(*ast.CallExpr)
	if !ok || len(c.Args) != 0 {
		return false
	}
	return strings.HasSuffix(p.txt(c.Fun), ".mu."+method)
}

func c03ModifiesSendNonce(p *c03Pkg, n ast.Node) bool {
	switch s := n.(type) {
	case *ast.IncDecStmt:
		return strings.HasSuffix(p.txt(s.X), ".sendNonce")
	case *ast.AssignStmt:
		for _, l := range s.Lhs {
			if strings.HasSuffix(p.txt(l), ".sendNonce") {
				return true
			}
		}
	case *ast.UnaryExpr:
		if s.Op == token.AND && strings.HasSuffix(p.txt(s.X), ".sendNonce") {
			return true // address taken (atomic.AddUint64(&s.sendNonce, …) and the like)
		}
	}
	return false
}

func c03Encrypt() (*c03EncryptFacts, error) {
	p, err := c03Parse("internal/crypto")
	if err != nil {
		return nil, err
	}
	f := &c03EncryptFacts{LockStmt: -1, UnlockStmt: -1, EarlyUnlocksReturn: true}
	writers, builders := map[string]bool{}, map[string]bool{}
	var enc *ast.FuncDecl
	for _, name := range p.sortedFiles() {
		for _, d := range p.files[name].Decls {
			fn, ok := d.(*ast.FuncDecl)
			if !ok || fn.Body == nil {
				continue
			}
			if fn.Name.Name == "Encrypt" && fn.Recv != nil && strings.Contains(p.txt(fn.Recv.List[0].Type), "SessionKey") {
				enc = fn
			}
			ast.Inspect(fn.Body, func(n ast.Node) bool {
				if n != nil && c03ModifiesSendNonce(p, n) {
					writers[fn.Name.Name] = true
				}
				if c, ok := n.(*ast.CallExpr); ok && c03CallName(c) == "buildSendNonce" {
					builders[fn.Name.Name] = true
				}
				return true
			})
		}
	}
	if enc == nil {
		return nil, fmt.Errorf("method (*SessionKey).Encrypt not found in internal/crypto")
	}
	f.Line = p.line(enc)
	for w := range writers {
		f.Writers = append(f.Writers, w)
	}
	for b := range builders {
		f.NonceBuilders = append(f.NonceBuilders, b)
	}
	sort.Strings(f.Writers)
	sort.Strings(f.NonceBuilders)
	nonceVar := ""
	for i, st := range enc.Body.List {
		if es, ok := st.(*ast.ExprStmt); ok {
			if c03IsMuCall(p, es.X, "Lock") && f.LockStmt < 0 {
				f.LockStmt = i
				continue
			}
			if c03IsMuCall(p, es.X, "Unlock") && f.LockStmt >= 0 && f.UnlockStmt < 0 {
				f.UnlockStmt = i
				continue
			}
		}
		if ds, ok := st.(*ast.DeferStmt); ok && f.LockStmt >= 0 && f.UnlockStmt < 0 && c03IsMuCall(p, ds.Call, "Unlock") {
			f.UnlockStmt = 1000000
			continue
		}
		hasNonce, hasInc := false, false
		ast.Inspect(st, func(n ast.Node) bool {
			if n == nil {
				return true
			}
			if c, ok := n.(*ast.CallExpr); ok && c03CallName(c) == "buildSendNonce" {
				hasNonce = true
			}
			if c03ModifiesSendNonce(p, n) {
				hasInc = true
			}
			// an Unlock nested inside the region must be followed by a return in its block
			if blk, ok := n.(*ast.BlockStmt); ok && f.LockStmt >= 0 && f.UnlockStmt < 0 {
				for _, b := range blk.List {
					if es, ok := b.(*ast.ExprStmt); ok && c03IsMuCall(p, es.X, "Unlock") {
						if _, isRet := blk.List[len(blk.List)-1].(*ast.ReturnStmt); !isRet {
							f.EarlyUnlocksReturn = false
						}
					}
				}
			}
			return true
		})
		if hasNonce {
			f.NonceStmts = append(f.NonceStmts, i)
			if as, ok := st.(*ast.AssignStmt); ok && len(as.Lhs) == 1 {
				nonceVar = p.txt(as.Lhs[0])
			}
		}
		if hasInc {
			f.IncStmts = append(f.IncStmts, i)
		}
	}
	// the nonce given to aead.Seal is the local copy taken under the lock
	ast.Inspect(enc.Body, func(n ast.Node) bool {
		if c, ok := n.(*ast.CallExpr); ok && c03CallName(c) == "Seal" && len(c.Args) == 4 && nonceVar != "" {
			if p.txt(c.Args[1]) == nonceVar+"[:]" {
				f.SealUsesLocalNonce = true
			}
		}
		return true
	})
	if f.LockStmt < 0 || f.UnlockStmt < 0 {
		return nil, fmt.Errorf("internal/crypto Encrypt (line %d): no top-level s.mu.Lock()/Unlock() pair found", f.Line)
	}
	return f, nil
}

func c03LeanNatList(xs []int) string {
	var s []string
	for _, x := range xs {
		s = append(s, fmt.Sprint(x))
	}
	return "[" + strings.Join(s, ", ") + "]"
}

func c03LeanStrList(xs []string) string {
	var s []string
	for _, x := range xs {
		s = append(s, fmt.Sprintf("%q", x))
	}
	return "[" + strings.Join(s, ", ") + "]"
}
