//go:build verif

package main

import (
	"encoding/hex"
	"fmt"
	"strings"
)

// hexTok renders bytes as lowercase hex, "-" for empty (every field is a non-empty token).
func hexTok(b []byte) string {
	if len(b) == 0 {
		return "-"
	}
	return hex.EncodeToString(b)
}

func unhexTok(s string) []byte {
	if s == "-" {
		return nil
	}
	b, err := hex.DecodeString(s)
	if err != nil {
		panic("bad hex token " + s)
	}
	return b
}

func fields(line string) []string { return strings.Fields(line) }

// rng is a tiny deterministic PRNG (splitmix64) so op scripts replay exactly from one seed.
type rng struct{ s uint64 }

// newRng scrambles the seed first (splitmix finaliser) so that consecutive seeds give unrelated
// streams rather than the same stream shifted by one draw.
func newRng(seed int64) *rng {
	z := uint64(seed) + 0x9E3779B97F4A7C15
	z = (z ^ (z >> 30)) * 0xBF58476D1CE4E5B9
	z = (z ^ (z >> 27)) * 0x94D049BB133111EB
	return &rng{s: z ^ (z >> 31)}
}
func (r *rng) u64() uint64 {
	r.s += 0x9E3779B97F4A7C15
	z := r.s
	z = (z ^ (z >> 30)) * 0xBF58476D1CE4E5B9
	z = (z ^ (z >> 27)) * 0x94D049BB133111EB
	return z ^ (z >> 31)
}
func (r *rng) intn(n int) int {
	if n <= 0 {
		return 0
	}
	return int(r.u64() % uint64(n))
}
func (r *rng) bytes(n int) []byte {
	b := make([]byte, n)
	for i := range b {
		b[i] = byte(r.u64())
	}
	return b
}
func (r *rng) pick(xs ...int) int    { return xs[r.intn(len(xs))] }
func (r *rng) chance(pct int) bool   { return r.intn(100) < pct }
func (r *rng) pickS(xs ...string) string { return xs[r.intn(len(xs))] }

func must(err error) {
	if err != nil {
		panic(err)
	}
}

func leanBytes(b []byte) string {
	s := "["
	for i, x := range b {
		if i > 0 {
			s += ", "
		}
		s += fmt.Sprintf("0x%02x", x)
	}
	return s + "]"
}
