//go:build verif && (all || c09 || c10)

package main

import (
	"bufio"
	"encoding/binary"
	"fmt"
	"strconv"
	"strings"
	"time"

	"github.com/postalsys/muti-metroo/internal/identity"
	"github.com/postalsys/muti-metroo/internal/routing"
)

// Engine c09: the real DomainTable / ForwardTable / AgentTable driven op by op
// (see lean/MM/Engine/C09.lean for the protocol).

func init() {
	register("c09", &Engine{Gen: c09Gen, Run: c09Run})
}

type c09Tables struct {
	d *routing.DomainTable
	f *routing.ForwardTable
	a *routing.AgentTable
	m *routing.Manager // owner of the three tables (nil when they are stand-alone)
}

var c09S *c09Tables

func c09New(self uint64) *c09Tables {
	// the tables are a Manager's, so that mdlook / mflook / malook go through Manager.LookupDomain /
	// LookupForward / LookupAgent, the entry points the agent's dial path uses
	m := routing.NewManager(c09ID(self))
	return &c09Tables{m.DomainTable(), m.ForwardTable(), m.AgentTable(), m}
}

func c09ID(n uint64) identity.AgentID {
	var id identity.AgentID
	id[0] = 0xA7
	binary.BigEndian.PutUint64(id[8:], n)
	return id
}
func c09Num(id identity.AgentID) uint64 { return binary.BigEndian.Uint64(id[8:]) }

func c09U(s string) uint64 {
	v, err := strconv.ParseUint(s, 10, 64)
	if err != nil {
		panic("bad number " + s)
	}
	return v
}

func c09Path(s string) []identity.AgentID {
	if s == "-" {
		return nil
	}
	var p []identity.AgentID
	for _, x := range strings.Split(s, ".") {
		p = append(p, c09ID(c09U(x)))
	}
	return p
}

func c09ShowPath(p []identity.AgentID) string {
	if len(p) == 0 {
		return "-"
	}
	xs := make([]string, len(p))
	for i, id := range p {
		xs[i] = strconv.FormatUint(c09Num(id), 10)
	}
	return strings.Join(xs, ".")
}

func c09Hours(last time.Time) int64 { return int64((time.Since(last) + 30*time.Minute) / time.Hour) }

func c09Tail(nh, or identity.AgentID, metric uint16, seq uint64, path []identity.AgentID, last time.Time) string {
	return fmt.Sprintf(",%d,%d,%d,%d,%s,%d", c09Num(nh), c09Num(or), metric, seq, c09ShowPath(path), c09Hours(last))
}

func c09B(b bool) int {
	if b {
		return 1
	}
	return 0
}

func c09DomStr(r *routing.DomainRoute) string {
	return fmt.Sprintf("E%s/%d/%s", hexTok([]byte(r.Pattern)), c09B(r.IsWildcard), hexTok([]byte(r.BaseDomain))) +
		c09Tail(r.NextHop, r.OriginAgent, r.Metric, r.Sequence, r.Path, r.LastUpdate)
}
func c09FwdStr(r *routing.ForwardRoute) string {
	return fmt.Sprintf("E%s/%s", hexTok([]byte(r.Key)), hexTok([]byte(r.Target))) +
		c09Tail(r.NextHop, r.OriginAgent, r.Metric, r.Sequence, r.Path, r.LastUpdate)
}
func c09AgStr(r *routing.AgentRoute) string {
	return fmt.Sprintf("E%d", c09Num(r.AgentID)) + c09Tail(r.NextHop, r.OriginAgent, r.Metric, r.Sequence, r.Path, r.LastUpdate)
}

func c09JoinGroups(gs [][2]string) string {
	if len(gs) == 0 {
		return "empty"
	}
	// insertion sort by label (byte order), as the Lean side does
	for i := 1; i < len(gs); i++ {
		for j := i; j > 0 && gs[j][0] < gs[j-1][0]; j-- {
			gs[j], gs[j-1] = gs[j-1], gs[j]
		}
	}
	parts := make([]string, len(gs))
	for i, g := range gs {
		parts[i] = g[1]
	}
	return strings.Join(parts, " ")
}

func c09DDump(t *routing.DomainTable) string {
	var gs [][2]string
	exact, wild := routing.C09DomainGroups(t)
	for pfx, m := range map[string]map[string][]*routing.DomainRoute{"x:": exact, "w:": wild} {
		for k, rs := range m {
			lab := pfx + hexTok([]byte(k))
			var es []string
			for _, r := range rs {
				es = append(es, c09DomStr(r))
			}
			toks := append([]string{"G" + lab}, c08NormRuns(es)...)
			gs = append(gs, [2]string{lab, strings.Join(toks, " ")})
		}
	}
	return c09JoinGroups(gs)
}

func c09FDump(t *routing.ForwardTable) string {
	var gs [][2]string
	for k, rs := range routing.C09ForwardGroups(t) {
		lab := hexTok([]byte(k))
		var es []string
		for _, r := range rs {
			es = append(es, c09FwdStr(r))
		}
		toks := append([]string{"G" + lab}, c08NormRuns(es)...)
		gs = append(gs, [2]string{lab, strings.Join(toks, " ")})
	}
	return c09JoinGroups(gs)
}

func c09ADump(t *routing.AgentTable) string {
	var gs [][2]string
	for k, rs := range routing.C09AgentGroups(t) {
		lab := strconv.FormatUint(c09Num(k), 10)
		var es []string
		for _, r := range rs {
			es = append(es, c09AgStr(r))
		}
		toks := append([]string{"G" + lab}, c08NormRuns(es)...)
		gs = append(gs, [2]string{lab, strings.Join(toks, " ")})
	}
	return c09JoinGroups(gs)
}

func c09Str(tok string) string { return string(unhexTok(tok)) }

func c09TablesOp(s *c09Tables, f []string) string {
	hours := func(x string) time.Duration { return time.Duration(c09U(x)) * time.Hour }
	switch f[0] {
	case "oracle": // the generator's claim about strings.ToLower / strings.TrimSpace, verified here
		in, out := c09Str(f[2]), c09Str(f[3])
		if (f[1] == "fold" && strings.ToLower(in) == out) || (f[1] == "trim" && strings.TrimSpace(in) == out) {
			return "ok"
		}
		return "bad-oracle"
	case "mdlook":
		if r := s.m.LookupDomain(c09Str(f[1])); r != nil {
			return "route " + c09DomStr(r)
		}
		return "none"
	case "mflook":
		if r := s.m.LookupForward(c09Str(f[1])); r != nil {
			return "route " + c09FwdStr(r)
		}
		return "none"
	case "malook":
		if r := s.m.LookupAgent(c09ID(c09U(f[1]))); r != nil {
			return "route " + c09AgStr(r)
		}
		return "none"
	case "dadd":
		ok := s.d.AddRoute(&routing.DomainRoute{Pattern: c09Str(f[1]), IsWildcard: f[2] == "1", BaseDomain: c09Str(f[3]),
			NextHop: c09ID(c09U(f[4])), OriginAgent: c09ID(c09U(f[5])), Metric: uint16(c09U(f[6])), Sequence: c09U(f[7]), Path: c09Path(f[8])})
		return fmt.Sprintf("%v ; %s", ok, c09DDump(s.d))
	case "dadv":
		w, base := routing.ParseDomainPattern(c09Str(f[1]))
		ok := s.d.AddRoute(&routing.DomainRoute{Pattern: c09Str(f[1]), IsWildcard: w, BaseDomain: base,
			NextHop: c09ID(c09U(f[2])), OriginAgent: c09ID(c09U(f[3])), Metric: uint16(c09U(f[4])), Sequence: c09U(f[5]), Path: c09Path(f[6])})
		return fmt.Sprintf("%v ; %s", ok, c09DDump(s.d))
	case "drm":
		return fmt.Sprintf("%v ; %s", s.d.RemoveRoute(c09Str(f[1]), c09ID(c09U(f[2]))), c09DDump(s.d))
	case "ddisc":
		return fmt.Sprintf("%d ; %s", s.d.RemoveRoutesFromPeer(c09ID(c09U(f[1]))), c09DDump(s.d))
	case "dage":
		routing.C09AgeDomain(s.d, hours(f[1]))
		return "ok ; " + c09DDump(s.d)
	case "dclean":
		return fmt.Sprintf("%d ; %s", s.d.CleanupStaleRoutes(hours(f[1])+30*time.Minute), c09DDump(s.d))
	case "dlook":
		if r := s.d.Lookup(c09Str(f[1])); r != nil {
			return "route " + c09DomStr(r)
		}
		return "none"
	case "fadd":
		ok := s.f.AddRoute(&routing.ForwardRoute{Key: c09Str(f[1]), Target: c09Str(f[2]),
			NextHop: c09ID(c09U(f[3])), OriginAgent: c09ID(c09U(f[4])), Metric: uint16(c09U(f[5])), Sequence: c09U(f[6]), Path: c09Path(f[7])})
		return fmt.Sprintf("%v ; %s", ok, c09FDump(s.f))
	case "frm":
		return fmt.Sprintf("%v ; %s", s.f.RemoveRoute(c09Str(f[1]), c09ID(c09U(f[2]))), c09FDump(s.f))
	case "fdisc":
		return fmt.Sprintf("%d ; %s", s.f.RemoveRoutesFromPeer(c09ID(c09U(f[1]))), c09FDump(s.f))
	case "fage":
		routing.C09AgeForward(s.f, hours(f[1]))
		return "ok ; " + c09FDump(s.f)
	case "fclean":
		return fmt.Sprintf("%d ; %s", s.f.CleanupStaleRoutes(hours(f[1])+30*time.Minute), c09FDump(s.f))
	case "flook":
		if r := s.f.Lookup(c09Str(f[1])); r != nil {
			return "route " + c09FwdStr(r)
		}
		return "none"
	case "aadd":
		ok := s.a.AddRoute(&routing.AgentRoute{AgentID: c09ID(c09U(f[1])),
			NextHop: c09ID(c09U(f[2])), OriginAgent: c09ID(c09U(f[3])), Metric: uint16(c09U(f[4])), Sequence: c09U(f[5]), Path: c09Path(f[6])})
		return fmt.Sprintf("%v ; %s", ok, c09ADump(s.a))
	case "arm":
		return fmt.Sprintf("%v ; %s", s.a.RemoveRoute(c09ID(c09U(f[1])), c09ID(c09U(f[2]))), c09ADump(s.a))
	case "adisc":
		return fmt.Sprintf("%d ; %s", s.a.RemoveRoutesFromPeer(c09ID(c09U(f[1]))), c09ADump(s.a))
	case "aage":
		routing.C09AgeAgent(s.a, hours(f[1]))
		return "ok ; " + c09ADump(s.a)
	case "aclean":
		return fmt.Sprintf("%d ; %s", s.a.CleanupStaleRoutes(hours(f[1])+30*time.Minute), c09ADump(s.a))
	case "alook":
		if r := s.a.Lookup(c09ID(c09U(f[1]))); r != nil {
			return "route " + c09AgStr(r)
		}
		return "none"
	case "aroutes":
		var es []string
		for _, r := range s.a.GetRoutesForAgent(c09ID(c09U(f[1]))) {
			es = append(es, c09AgStr(r))
		}
		return strings.Join(append([]string{"routes"}, c08NormRuns(es)...), " ")
	case "dhas":
		return fmt.Sprintf("%v", s.d.HasRoute(c09Str(f[1]), c09ID(c09U(f[2]))))
	case "fhas":
		return fmt.Sprintf("%v", s.f.HasRoute(c09Str(f[1]), c09ID(c09U(f[2]))))
	case "dsize":
		return fmt.Sprintf("size %d %d", s.d.Size(), s.d.TotalRoutes())
	case "fsize":
		return fmt.Sprintf("size %d %d", s.f.Size(), s.f.TotalRoutes())
	case "asize":
		return fmt.Sprintf("size %d %d", s.a.Size(), s.a.TotalRoutes())
	case "dclear":
		s.d.Clear()
		return "ok ; " + c09DDump(s.d)
	case "fclear":
		s.f.Clear()
		return "ok ; " + c09FDump(s.f)
	case "aclear":
		s.a.Clear()
		return "ok ; " + c09ADump(s.a)
	}
	return "bad-op"
}

var c09Hist []string
var c09Self uint64 = 1

// c09DumpOf prints the table an op (by its first letter) works on.
func c09DumpOf(s *c09Tables, op string) string {
	switch op[0] {
	case 'd':
		return c09DDump(s.d)
	case 'f':
		return c09FDump(s.f)
	}
	return c09ADump(s.a)
}

func c09Run(line string) string {
	f := fields(line)
	if f[0] == "reset" {
		c09Self = c09U(f[1])
		c09S = c09New(c09Self)
		c09Hist = nil
		return c09CheckOracle(f[2:])
	}
	if c09S == nil {
		c09S = c09New(c09Self)
	}
	if f[0] == "race" {
		hist := c09Hist
		ops := c08RaceOps(line)
		out := c08Race(line, ops[0][0] == 'a', func() (func(string), func() string, func()) {
			s := c09New(c09Self)
			for _, h := range hist {
				c09Do(s, fields(h))
			}
			return func(op string) { c09Do(s, fields(op)) }, func() string { return c09DumpOf(s, ops[0]) }, func() { c09S = s }
		})
		c09Hist = append(c09Hist, ops...)
		return out
	}
	c09Hist = append(c09Hist, line)
	return c09TablesOp(c09S, f)
}

// c09CheckOracle verifies the claims about strings.ToLower (f:in:out) / strings.TrimSpace (t:in:out)
// a reset line carries against the standard library.
func c09CheckOracle(toks []string) string {
	for _, tok := range toks {
		p := strings.Split(tok, ":")
		if len(p) != 3 {
			return "bad-oracle"
		}
		in, out := c09Str(p[1]), c09Str(p[2])
		if !((p[0] == "f" && strings.ToLower(in) == out) || (p[0] == "t" && strings.TrimSpace(in) == out)) {
			return "bad-oracle"
		}
	}
	return "ok"
}

// c09Do executes an op without printing.
func c09Do(s *c09Tables, f []string) {
	hours := func(x string) time.Duration { return time.Duration(c09U(x)) * time.Hour }
	switch f[0] {
	case "dadd":
		s.d.AddRoute(&routing.DomainRoute{Pattern: c09Str(f[1]), IsWildcard: f[2] == "1", BaseDomain: c09Str(f[3]),
			NextHop: c09ID(c09U(f[4])), OriginAgent: c09ID(c09U(f[5])), Metric: uint16(c09U(f[6])), Sequence: c09U(f[7]), Path: c09Path(f[8])})
	case "dadv":
		w, base := routing.ParseDomainPattern(c09Str(f[1]))
		s.d.AddRoute(&routing.DomainRoute{Pattern: c09Str(f[1]), IsWildcard: w, BaseDomain: base,
			NextHop: c09ID(c09U(f[2])), OriginAgent: c09ID(c09U(f[3])), Metric: uint16(c09U(f[4])), Sequence: c09U(f[5]), Path: c09Path(f[6])})
	case "drm":
		s.d.RemoveRoute(c09Str(f[1]), c09ID(c09U(f[2])))
	case "ddisc":
		s.d.RemoveRoutesFromPeer(c09ID(c09U(f[1])))
	case "dage":
		routing.C09AgeDomain(s.d, hours(f[1]))
	case "dclean":
		s.d.CleanupStaleRoutes(hours(f[1]) + 30*time.Minute)
	case "dclear":
		s.d.Clear()
	case "fadd":
		s.f.AddRoute(&routing.ForwardRoute{Key: c09Str(f[1]), Target: c09Str(f[2]),
			NextHop: c09ID(c09U(f[3])), OriginAgent: c09ID(c09U(f[4])), Metric: uint16(c09U(f[5])), Sequence: c09U(f[6]), Path: c09Path(f[7])})
	case "frm":
		s.f.RemoveRoute(c09Str(f[1]), c09ID(c09U(f[2])))
	case "fdisc":
		s.f.RemoveRoutesFromPeer(c09ID(c09U(f[1])))
	case "fage":
		routing.C09AgeForward(s.f, hours(f[1]))
	case "fclean":
		s.f.CleanupStaleRoutes(hours(f[1]) + 30*time.Minute)
	case "fclear":
		s.f.Clear()
	case "aadd":
		s.a.AddRoute(&routing.AgentRoute{AgentID: c09ID(c09U(f[1])),
			NextHop: c09ID(c09U(f[2])), OriginAgent: c09ID(c09U(f[3])), Metric: uint16(c09U(f[4])), Sequence: c09U(f[5]), Path: c09Path(f[6])})
	case "arm":
		s.a.RemoveRoute(c09ID(c09U(f[1])), c09ID(c09U(f[2])))
	case "adisc":
		s.a.RemoveRoutesFromPeer(c09ID(c09U(f[1])))
	case "aage":
		routing.C09AgeAgent(s.a, hours(f[1]))
	case "aclean":
		s.a.CleanupStaleRoutes(hours(f[1]) + 30*time.Minute)
	case "aclear":
		s.a.Clear()
	case "dlook":
		s.d.Lookup(c09Str(f[1]))
	case "flook":
		s.f.Lookup(c09Str(f[1]))
	case "alook":
		s.a.Lookup(c09ID(c09U(f[1])))
	}
}

// ---------------------------------------------------------------- generator

var c09Labels = []string{"a", "b", "www", "WWW", "api", "Api", "example", "Example", "EXAMPLE", "com", "COM", "x", "X-1", "*", "z9"}

// c09Name draws a name of 1–4 labels with mixed case; sometimes with stray dots or empty.
func c09Name(r *rng, pool []string) string {
	if len(pool) > 0 && r.chance(75) {
		// derive from a pattern of the case: strip "*.", maybe add labels in front, flip case
		p := strings.TrimSpace(pool[r.intn(len(pool))])
		p = strings.TrimPrefix(p, "*.")
		switch r.intn(6) {
		case 0, 1:
			p = c09Labels[r.intn(len(c09Labels))] + "." + p
		case 2:
			p = c09Labels[r.intn(len(c09Labels))] + "." + c09Labels[r.intn(len(c09Labels))] + "." + p
		case 3:
			p = "." + p
		}
		return c09FlipCase(r, p)
	}
	n := 1 + r.intn(4)
	parts := make([]string, n)
	for i := range parts {
		parts[i] = c09Labels[r.intn(len(c09Labels))]
	}
	s := strings.Join(parts, ".")
	switch r.intn(12) {
	case 0:
		s = "." + s
	case 1:
		s = s + "."
	case 2:
		s = ""
	case 3:
		s = strings.Replace(s, ".", "..", 1)
	}
	return s
}

func c09FlipCase(r *rng, s string) string {
	b := []byte(s)
	for i, c := range b {
		if r.chance(30) {
			if c >= 'a' && c <= 'z' {
				b[i] = c - 32
			} else if c >= 'A' && c <= 'Z' {
				b[i] = c + 32
			}
		}
	}
	return string(b)
}

// c09Pattern draws a pattern: exact names, `*.x`, `*.a.b`, and odd ones (` *.x`, `*.`, `*`, `x.*.y`).
func c09Pattern(r *rng) string {
	base := c09Name(r, nil)
	switch r.intn(12) {
	case 0, 1, 2, 3, 4:
		return "*." + base
	case 5:
		return " *." + base
	case 6:
		return "*." + base + "\t"
	case 7:
		return r.pickS("*.", "*", ".", " ", "*.*.a", "a.*.b")
	default:
		return base
	}
}

func c09GenPath(r *rng, self int) string {
	n := r.pick(0, 1, 1, 2, 3)
	if n == 0 {
		return "-"
	}
	xs := make([]string, n)
	for i := range xs {
		v := 2 + r.intn(6)
		if r.chance(6) {
			v = self
		}
		xs[i] = strconv.Itoa(v)
	}
	return strings.Join(xs, ".")
}

var c09Metrics = []int{0, 1, 1, 2, 3, 5, 9, 255, 256, 257, 4095, 4096, 65534, 65535}
var c09Seqs = []uint64{1, 1, 2, 2, 3, 4, 255, 256, 65535, 65536, 1<<32 - 1, 1 << 32, 1<<63 - 1, 1 << 63, 1<<64 - 2, 1<<64 - 1}

// c09LongLabel: labels at the DNS limits and at plausible buffer boundaries.
func c09LongLabel(r *rng) string {
	n := r.pick(62, 63, 64, 253, 255, 256, 257, 1023, 4095, 4096, 4097)
	b := make([]byte, n)
	for i := range b {
		b[i] = "abcXYZ019-"[r.intn(10)]
	}
	return string(b)
}

func c09GenCase(w *bufio.Writer, r *rng, nops, agents int) {
	self := 1
	fmt.Fprintf(w, "reset %d\n", self)
	pats := make([]string, 3+r.intn(4))
	for i := range pats {
		pats[i] = c09Pattern(r)
	}
	// a few case variants of one pattern so that keys collide
	pats = append(pats, c09FlipCase(r, pats[0]), c09FlipCase(r, pats[1]))
	keys := []string{"web", "Web", "db", "k", "", "a b"}
	if r.chance(10) { // a long name / key in the pools
		l := c09LongLabel(r)
		pats = append(pats, "*."+l+".com", l+".com", "www."+l+".com")
		keys = append(keys, l)
	}
	tail := func() string {
		return fmt.Sprintf("%d %d %d %d %s", 1+r.intn(agents+1), 1+r.intn(agents+1), c09Metrics[r.intn(len(c09Metrics))], c09Seqs[r.intn(len(c09Seqs))], c09GenPath(r, self))
	}
	hx := func(s string) string { return hexTok([]byte(s)) }
	var last [3]string
	common := func(tbl string, k int) bool {
		switch {
		case k < 5:
			fmt.Fprintf(w, "%sdisc %d\n", tbl, 1+r.intn(agents+1))
		case k < 10:
			fmt.Fprintf(w, "%sage %d\n", tbl, r.pick(1, 1, 2, 3))
		case k < 15:
			fmt.Fprintf(w, "%sclean %d\n", tbl, r.pick(0, 1, 2, 3, 5))
		case k < 17:
			fmt.Fprintf(w, "%ssize\n", tbl)
		case k < 18:
			if r.chance(30) {
				fmt.Fprintf(w, "%sclear\n", tbl)
			} else {
				fmt.Fprintf(w, "%ssize\n", tbl)
			}
		default:
			return false
		}
		return true
	}
	for i := 0; i < nops; i++ {
		k := r.intn(100)
		switch tbl := r.intn(10); {
		case tbl < 6: // domain table
			p := pats[r.intn(len(pats))]
			if common("d", k) {
				continue
			}
			switch {
			case k < 42:
				last[0] = fmt.Sprintf("dadv %s %s", hx(p), tail())
				fmt.Fprintln(w, last[0])
			case k < 45 && last[0] != "":
				fmt.Fprintln(w, last[0]) // exact duplicate
			case k < 52: // caller-supplied fields that need not fit the pattern
				fmt.Fprintf(w, "dadd %s %d %s %s\n", hx(p), r.intn(2), hx(c09Name(r, pats)), tail())
			case k < 60:
				fmt.Fprintf(w, "drm %s %d\n", hx(p), 1+r.intn(agents+1))
			case k < 64:
				fmt.Fprintf(w, "dhas %s %d\n", hx(p), 1+r.intn(agents+1))
			default:
				fmt.Fprintf(w, "%s %s\n", r.pickS("dlook", "dlook", "mdlook"), hx(c09Name(r, pats)))
			}
		case tbl < 8: // forward table
			key := keys[r.intn(len(keys))]
			if common("f", k) {
				continue
			}
			switch {
			case k < 50:
				last[1] = fmt.Sprintf("fadd %s %s %s", hx(key), hx(r.pickS("h:1", "h:2", "")), tail())
				fmt.Fprintln(w, last[1])
			case k < 54 && last[1] != "":
				fmt.Fprintln(w, last[1])
			case k < 64:
				fmt.Fprintf(w, "frm %s %d\n", hx(key), 1+r.intn(agents+1))
			case k < 68:
				fmt.Fprintf(w, "fhas %s %d\n", hx(key), 1+r.intn(agents+1))
			default:
				fmt.Fprintf(w, "%s %s\n", r.pickS("flook", "mflook"), hx(key))
			}
		default: // agent table: at most 3 origins x 4 next hops = 12 entries per agent
			if common("a", k) {
				continue
			}
			switch {
			case k < 50:
				last[2] = fmt.Sprintf("aadd %d %d %d %d %d %s", 1+r.intn(4), 1+r.intn(4), 1+r.intn(3), c09Metrics[r.intn(len(c09Metrics))], c09Seqs[r.intn(len(c09Seqs))], c09GenPath(r, self))
				fmt.Fprintln(w, last[2])
			case k < 54 && last[2] != "":
				fmt.Fprintln(w, last[2])
			case k < 64:
				fmt.Fprintf(w, "arm %d %d\n", 1+r.intn(4), 1+r.intn(3))
			case k < 70:
				fmt.Fprintf(w, "aroutes %d\n", 1+r.intn(5))
			default:
				fmt.Fprintf(w, "%s %d\n", r.pickS("alook", "malook"), 1+r.intn(5))
			}
		}
	}
}

// c09GenBig: slices of more than 12 entries under one key (pairwise distinct metrics, so the order
// is determined whatever sort.Slice does) and tables with several hundred keys.
func c09GenBig(w *bufio.Writer, r *rng, n int) {
	fmt.Fprintln(w, "reset 1")
	hx := func(s string) string { return hexTok([]byte(s)) }
	perm := make([]int, n)
	for i := range perm {
		perm[i] = i
	}
	for i := n - 1; i > 0; i-- {
		j := r.intn(i + 1)
		perm[i], perm[j] = perm[j], perm[i]
	}
	for i, m := range perm {
		fmt.Fprintf(w, "dadv %s %d %d %d 5 %d\n", hx(r.pickS("*.Big.example", "*.big.EXAMPLE")), 2+i%7, 100+i, 10+m, 100+i)
		fmt.Fprintf(w, "fadd %s %s %d %d %d 5 %d\n", hx("bigkey"), hx("h:1"), 2+i%7, 100+i, 10+m, 100+i)
		fmt.Fprintf(w, "aadd 7 %d %d %d 5 %d\n", 2+i%7, 100+i/7, 10+m, 100+i)
		if i%16 == 0 {
			fmt.Fprintf(w, "dlook %s\nflook %s\nalook 7\n", hx("x.BIG.example"), hx("bigkey"))
		}
	}
	fmt.Fprintf(w, "dlook %s\nflook %s\nalook 7\ndsize\nfsize\nasize\n", hx("x.BIG.example"), hx("bigkey"))
	for i := 0; i < 9; i++ {
		o := 100 + r.intn(n)
		switch r.intn(3) {
		case 0:
			fmt.Fprintf(w, "dadv %s 3 %d %d 6 %d\nfadd %s %s 3 %d %d 6 %d\n", hx("*.big.example"), o, i, o, hx("bigkey"), hx("h:2"), o, i, o)
		case 1:
			fmt.Fprintf(w, "drm %s %d\nfrm %s %d\narm 7 %d\n", hx("*.BIG.EXAMPLE"), o, hx("bigkey"), o, 100+r.intn(n/7+1))
		default:
			p := 2 + r.intn(7)
			fmt.Fprintf(w, "ddisc %d\nfdisc %d\nadisc %d\n", p, p, p)
		}
		fmt.Fprintf(w, "dlook %s\nflook %s\nalook 7\n", hx("x.BIG.example"), hx("bigkey"))
	}
	// many keys
	fmt.Fprintln(w, "reset 1")
	for i := 0; i < n*2; i++ {
		name := fmt.Sprintf("h%d.Zone%d.test", r.intn(40), r.intn(12))
		if r.chance(40) {
			name = fmt.Sprintf("*.Zone%d.test", r.intn(12))
		}
		fmt.Fprintf(w, "dadv %s %d %d %d 1 -\n", hx(name), 2+r.intn(5), 2+r.intn(5), r.intn(4))
		fmt.Fprintf(w, "fadd %s %s %d %d %d 1 -\n", hx(fmt.Sprintf("key-%d", r.intn(300))), hx("t"), 2+r.intn(5), 2+r.intn(5), r.intn(4))
		fmt.Fprintf(w, "aadd %d %d %d %d 1 -\n", 1000+r.intn(300), 2+r.intn(3), 2+r.intn(3), r.intn(4))
		if i%8 == 0 {
			fmt.Fprintf(w, "dlook %s\nflook %s\nalook %d\n", hx(fmt.Sprintf("H%d.zone%d.TEST", r.intn(40), r.intn(12))), hx(fmt.Sprintf("key-%d", r.intn(300))), 1000+r.intn(300))
		}
	}
	fmt.Fprintln(w, "dsize\nfsize\nasize\nddisc 3\nfdisc 3\nadisc 3\ndage 2\nfage 2\naage 2\ndclean 1\nfclean 1\naclean 1")
}

// c09Mix scrambles the seed (see c08Mix; duplicated because the engines carry separate build tags).
func c09Mix(seed int64) int64 {
	z := uint64(seed) + 0x9E3779B97F4A7C15
	z = (z ^ (z >> 30)) * 0xBF58476D1CE4E5B9
	z = (z ^ (z >> 27)) * 0x94D049BB133111EB
	return int64(z ^ (z >> 31))
}

// c09GenRace: the concurrency stress op on the domain / forward / agent tables (see c08GenRace).
func c09GenRace(w *bufio.Writer, r *rng, kind int) {
	fmt.Fprintln(w, "reset 1")
	hx := func(s string) string { return hexTok([]byte(s)) }
	o := 2 + r.intn(3)
	switch kind % 6 {
	case 0:
		fmt.Fprintf(w, "race %d | dadv %s %d %d %d 1 %d\n", r.pick(2, 4, 8), hx("*.Race.test"), 2+r.intn(3), o, 1+r.intn(5), o)
		fmt.Fprintf(w, "dlook %s\ndrm %s %d\ndlook %s\ndhas %s %d\ndsize\n", hx("a.race.TEST"), hx("*.race.test"), o, hx("a.race.TEST"), hx("*.race.test"), o)
	case 1:
		fmt.Fprintf(w, "race 1 | dadv %s 2 %d 2 1 2.%d | dadv %s 3 %d 3 1 3.%d | dadv %s 4 %d 4 1 4.%d\n", hx("race.test"), o, o, hx("RACE.test"), o, o, hx("Race.Test"), o, o)
		fmt.Fprintf(w, "dlook %s\ndrm %s %d\ndlook %s\n", hx("race.test"), hx("race.test"), o, hx("race.test"))
	case 2:
		fmt.Fprintf(w, "race %d | fadd %s %s %d %d %d 1 %d\n", r.pick(2, 4, 8), hx("rk"), hx("h:1"), 2+r.intn(3), o, 1+r.intn(5), o)
		fmt.Fprintf(w, "flook %s\nfrm %s %d\nflook %s\nfhas %s %d\nfsize\n", hx("rk"), hx("rk"), o, hx("rk"), hx("rk"), o)
	case 3:
		fmt.Fprintf(w, "race %d | aadd 7 2 %d %d 1 2.%d\n", r.pick(2, 4, 8), o, 1+r.intn(5), o)
		fmt.Fprintf(w, "aroutes 7\narm 7 %d\nalook 7\nasize\n", o)
	case 4:
		fmt.Fprintf(w, "race 2 | fadd %s %s 2 2 1 1 2 | fadd %s %s 3 3 2 1 3 | fadd %s %s 4 4 3 1 4\nflook %s\n", hx("rk"), hx("t"), hx("rk"), hx("t"), hx("rk"), hx("t"), hx("rk"))
	default: // conflicting ops: several admissible outcomes, the case ends here
		fmt.Fprintf(w, "dadv %s 2 %d 3 1 %d\n", hx("*.race.test"), o, o)
		fmt.Fprintf(w, "race 2 | dadv %s 3 %d 1 2 %d | drm %s %d\n", hx("*.RACE.test"), o, o, hx("*.race.test"), o)
	}
}

// c09CaseVariants: per-label case variations of a name: as given, all lower, all upper, first
// label upper only, one letter of the first label, everything but the first label upper, one
// letter of the rest, and a random flip.
func c09CaseVariants(r *rng, name string) []string {
	lower, upper := strings.ToLower(name), strings.ToUpper(name)
	first, rest := lower, ""
	if i := strings.Index(lower, "."); i >= 0 {
		first, rest = lower[:i], lower[i:]
	}
	oneUp := func(s string) string {
		b := []byte(s)
		for tries := 0; tries < 20 && len(b) > 0; tries++ {
			if i := r.intn(len(b)); b[i] >= 'a' && b[i] <= 'z' {
				b[i] -= 32
				break
			}
		}
		return string(b)
	}
	return []string{name, lower, upper, strings.ToUpper(first) + rest, oneUp(first) + rest,
		first + strings.ToUpper(rest), first + oneUp(rest), c09FlipCase(r, name)}
}

// c09GenCaseMatrix: an exact pattern E and the wildcards covering it (`*.base(E)`, sometimes
// `*.base(base(E))`) stored together, with metrics that make the wildcard the cheaper one; then E,
// a sibling of E and a deeper name are looked up in every per-label case variation - before and
// after withdrawing the exact route, and the other way round (wildcard withdrawn, exact kept).
func c09GenCaseMatrix(w *bufio.Writer, r *rng) {
	hx := func(s string) string { return hexTok([]byte(s)) }
	fmt.Fprintln(w, "reset 1")
	labels := []string{"api", "www", "Mail", "db-1", "x"}
	bases := []string{"example.com", "Example.COM", "corp.internal", "a.b.c", "Zone9.test"}
	e := labels[r.intn(len(labels))] + "." + bases[r.intn(len(bases))]
	base := e[strings.Index(e, ".")+1:]
	// stored spellings are themselves case-varied
	fmt.Fprintf(w, "dadv %s 2 2 %d 1 2\n", hx(c09FlipCase(r, e)), 5+r.intn(4))
	fmt.Fprintf(w, "dadv %s 3 3 %d 1 3\n", hx("*."+c09FlipCase(r, base)), r.intn(3))
	if i := strings.Index(base, "."); i >= 0 && r.chance(50) {
		fmt.Fprintf(w, "dadv %s 4 4 0 1 4\n", hx("*."+base[i+1:]))
	}
	if r.chance(50) { // a second origin on the exact pattern, cheaper than the first
		fmt.Fprintf(w, "dadv %s 4 4 %d 1 4\n", hx(strings.ToUpper(e)), 3+r.intn(2))
	}
	names := []string{e, "other." + base, "deep." + e, base}
	look := func() {
		for _, n := range names {
			for _, v := range c09CaseVariants(r, n) {
				fmt.Fprintf(w, "dlook %s\n", hx(v))
			}
		}
	}
	look()
	if r.chance(50) {
		fmt.Fprintf(w, "drm %s 2\ndrm %s 4\n", hx(strings.ToLower(e)), hx(e))
	} else {
		fmt.Fprintf(w, "drm %s 3\n", hx("*."+strings.ToUpper(base)))
	}
	look()
}

// c09GenTies: more than 12 entries with few distinct metrics under one key of each table (see
// c08GenTies). In the agent table every entry has its own origin, so that RemoveRoute (first entry
// of the origin) stays unambiguous whatever order sort.Slice left inside a run.
func c09GenTies(w *bufio.Writer, r *rng, n int) {
	fmt.Fprintln(w, "reset 1")
	hx := func(s string) string { return hexTok([]byte(s)) }
	for i := 0; i < n; i++ {
		m := r.pick(1, 2, 2, 3)
		fmt.Fprintf(w, "dadv %s %d %d %d 5 %d\n", hx(r.pickS("*.Tie.example", "*.tie.EXAMPLE")), 2+i%7, 100+i, m, 100+i)
		fmt.Fprintf(w, "fadd %s %s %d %d %d 5 %d\n", hx("tiekey"), hx("h:1"), 2+i%7, 100+i, m, 100+i)
		fmt.Fprintf(w, "aadd 7 %d %d %d 5 %d\n", 2+i%7, 100+i, m, 100+i)
		if i%6 == 5 {
			fmt.Fprintf(w, "dlook %s\nflook %s\nalook 7\n", hx("x.TIE.example"), hx("tiekey"))
		}
	}
	fmt.Fprintf(w, "dlook %s\nflook %s\nalook 7\naroutes 7\n", hx("x.TIE.example"), hx("tiekey"))
	for i := 0; i < 24; i++ {
		o := 100 + r.intn(n)
		m := r.pick(1, 1, 2, 3)
		switch r.intn(5) {
		case 0, 1:
			fmt.Fprintf(w, "dadv %s 3 %d %d %d %d\nfadd %s %s 3 %d %d %d %d\naadd 7 %d %d %d %d %d\n", hx("*.tie.example"), o, m, 6+i, o, hx("tiekey"), hx("h:2"), o, m, 6+i, o, 2+(o-100)%7, o, m, 6+i, o)
		case 2, 3:
			fmt.Fprintf(w, "drm %s %d\nfrm %s %d\narm 7 %d\n", hx("*.TIE.EXAMPLE"), o, hx("tiekey"), o, o)
		default:
			p := 2 + r.intn(7)
			fmt.Fprintf(w, "ddisc %d\nfdisc %d\nadisc %d\n", p, p, p)
		}
		fmt.Fprintf(w, "dlook %s\nflook %s\nalook 7\naroutes 7\n", hx("x.TIE.example"), hx("tiekey"))
	}
}

// c09Exotic: labels outside ASCII - letters whose lower-casing changes the byte length (İ, K),
// letters without a lower case (ß), final/medial sigma, long s, full-width letters and full stop,
// NUL, Unicode spaces, and ill-formed UTF-8 (lone lead/continuation bytes, an overlong '.').
var c09Exotic = []string{"\u0130", "\u0131", "I", "i", "\u00df", "SS", "\u212a", "K", "k", "\u017f", "S", "\u03a3", "\u03c3", "\u03c2",
	"\uff21\uff22", "\uff41\uff42", "\uff0e", "\x00", "a\x00b", "\u00a0", "\u0085", "\u00c4", "\u00e4", "\u01c5", "\u01c4", "\u01c6",
	"\xff", "\xfe", "\xc3", "\xa4", "\xe2\x84", "\xc0\xae", "\xed\xa0\x80", "\u1e9e", "\u0390", "\U00010400", "\U00010428"}

func c09ExoticName(r *rng, labels int) string {
	parts := make([]string, labels)
	for i := range parts {
		switch r.intn(3) {
		case 0:
			parts[i] = c09Exotic[r.intn(len(c09Exotic))]
		case 1:
			parts[i] = c09Exotic[r.intn(len(c09Exotic))] + c09Labels[r.intn(len(c09Labels))]
		default:
			parts[i] = c09Labels[r.intn(len(c09Labels))]
		}
	}
	return strings.Join(parts, ".")
}

// c09GenUnicode: domain-table histories over non-ASCII and ill-formed names. The model is
// parametric in strings.ToLower / strings.TrimSpace; for every string of the case the generator
// states Go's own result in an `oracle` line (the harness re-checks it when the script runs), so
// model and spec use exactly the folding the code uses - including where it changes the byte
// length or maps distinct ill-formed names onto one key.
func c09GenUnicode(w *bufio.Writer, r *rng, nops int) {
	hx := func(s string) string { return hexTok([]byte(s)) }
	var pats, names []string
	for i := 0; i < 4; i++ {
		base := c09ExoticName(r, 1+r.intn(2))
		exact := c09ExoticName(r, 1) + "." + base
		pats = append(pats, exact, "*."+base, c09FlipCase(r, exact), "*."+strings.ToUpper(base), strings.ToLower(exact))
		names = append(names, exact, strings.ToUpper(exact), strings.ToLower(exact), c09ExoticName(r, 1)+"."+base,
			c09ExoticName(r, 1)+"."+strings.ToUpper(base), "x."+exact, base, "."+base, exact+".")
	}
	pats = append(pats, "\u00a0*."+pats[1][2:], pats[0]+"\u0085", " "+pats[2])
	header := []string{"reset", "1"}
	told := map[string]bool{}
	tell := func(kind, in, out string) {
		nonASCII := false
		for i := 0; i < len(in); i++ {
			if in[i] >= 0x80 {
				nonASCII = true
			}
		}
		if nonASCII && !told[kind+in] {
			told[kind+in] = true
			header = append(header, kind[:1]+":"+hx(in)+":"+hx(out))
		}
	}
	for _, p := range pats {
		tell("fold", p, strings.ToLower(p))
		tell("trim", p, strings.TrimSpace(p))
		_, base := routing.ParseDomainPattern(p)
		tell("fold", base, strings.ToLower(base))
	}
	for _, n := range names {
		tell("fold", n, strings.ToLower(n))
	}
	fmt.Fprintln(w, strings.Join(header, " "))
	for i := 0; i < nops; i++ {
		p := pats[r.intn(len(pats))]
		switch k := r.intn(100); {
		case k < 35:
			fmt.Fprintf(w, "dadv %s %d %d %d %d -\n", hx(p), 2+r.intn(3), 2+r.intn(3), r.intn(4), 1+r.intn(3))
		case k < 42:
			b := names[r.intn(len(names))]
			fmt.Fprintf(w, "dadd %s %d %s %d %d %d %d -\n", hx(p), r.intn(2), hx(b), 2+r.intn(3), 2+r.intn(3), r.intn(4), 1+r.intn(3))
		case k < 50:
			fmt.Fprintf(w, "drm %s %d\n", hx(p), 2+r.intn(3))
		case k < 54:
			fmt.Fprintf(w, "dhas %s %d\n", hx(p), 2+r.intn(3))
		default:
			fmt.Fprintf(w, "%s %s\n", r.pickS("dlook", "mdlook"), hx(names[r.intn(len(names))]))
		}
	}
}

func c09Gen(w *bufio.Writer, seed int64, tier string) {
	r := newRng(c09Mix(seed))
	uni := 12
	if tier == "thorough" {
		uni = 400
	}
	for c := 0; c < uni; c++ {
		c09GenUnicode(w, r, 40)
	}
	ties := 2
	if tier == "thorough" {
		ties = 25
	}
	for c := 0; c < ties; c++ {
		c09GenTies(w, r, 14+r.intn(40))
	}
	matrix := 6
	if tier == "thorough" || seed >= 1000 {
		matrix = 120
	}
	for c := 0; c < matrix; c++ {
		c09GenCaseMatrix(w, r)
	}
	races := 8
	if tier == "thorough" || seed >= 1000 {
		races = 60
	}
	for c := 0; c < races; c++ {
		c09GenRace(w, r, c)
	}
	cases, nops := 180, 50
	if tier == "thorough" {
		cases, nops = 5000, 60
	}
	for c := 0; c < cases; c++ {
		c09GenCase(w, r, nops, 4)
	}
	long, big := 2, 1
	if tier == "thorough" {
		long, big = 20, 6
	}
	for c := 0; c < long; c++ {
		c09GenCase(w, r, 800, 8)
	}
	for c := 0; c < big; c++ {
		c09GenBig(w, r, 30+r.intn(c09TierPick(tier, 70, 230)))
	}
}

func c09TierPick(tier string, quick, thorough int) int {
	if tier == "thorough" {
		return thorough
	}
	return quick
}
