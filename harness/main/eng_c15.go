//go:build verif && (all || c15)

package main

import (
	"bufio"
	"fmt"
	"os"
	"strconv"
	"strings"

	"github.com/postalsys/muti-metroo/internal/agent"
	"github.com/postalsys/muti-metroo/internal/config"
	"github.com/postalsys/muti-metroo/internal/flood"
)

// Engine c15w: the configuration -> flooder wiring of the hop limit, through the REAL agent
// constructor (agent.New -> initComponents -> flood.NewFlooder).
//
//	wire <h>       build config.Default() with routing.max_hops = h, run agent.New, report the hop
//	               limit the agent's flooder ended up with      -> mh=<n> | mh=-1 (no such field) | err new
//	validate <h>   config.Validate() on the same configuration  -> valid | invalid
func init() {
	mk := func(h int) (*config.Config, string) {
		dir, err := os.MkdirTemp("", "verif-c15-")
		must(err)
		cfg := config.Default()
		cfg.Agent.DataDir = dir
		cfg.Agent.LogLevel = "error"
		cfg.Routing.MaxHops = h
		return cfg, dir
	}
	register("c15w", &Engine{
		Run: func(line string) string {
			f := fields(line)
			if len(f) != 2 {
				return "bad-op"
			}
			h, err := strconv.Atoi(f[1])
			if err != nil {
				return "bad-op"
			}
			cfg, dir := mk(h)
			defer os.RemoveAll(dir)
			switch f[0] {
			case "wire":
				a, err := agent.New(cfg)
				if err != nil {
					return "err new " + strings.ReplaceAll(err.Error(), " ", "_")
				}
				fl := agent.C15Flooder(a)
				defer fl.Stop()
				return fmt.Sprintf("mh=%d", flood.C15MaxHops(fl))
			case "validate":
				if err := cfg.Validate(); err != nil {
					if strings.Contains(err.Error(), "max_hops") {
						return "invalid"
					}
					return "err other " + strings.ReplaceAll(err.Error(), " ", "_")
				}
				return "valid"
			}
			return "bad-op"
		},
		Gen: func(w *bufio.Writer, seed int64, tier string) {
			r := newRng(seed)
			for _, h := range []int{1, 2, 3, 15, 16, 17, 254, 255} {
				fmt.Fprintf(w, "wire %d\n", h)
			}
			for _, h := range []int{-1, 0, 1, 2, 16, 255, 256, 257, 65536} {
				fmt.Fprintf(w, "validate %d\n", h)
			}
			n := 12
			if tier == "thorough" {
				n = 120
			}
			for i := 0; i < n; i++ {
				fmt.Fprintf(w, "wire %d\n", 1+r.intn(255))
				fmt.Fprintf(w, "validate %d\n", r.intn(300)-20)
			}
		},
	})
}
