//go:build verif && (all || c33)

package main

import (
	"bufio"
	"fmt"
	"math/big"
	"time"

	"github.com/postalsys/muti-metroo/internal/identity"
	"github.com/postalsys/muti-metroo/internal/sleep"
)

// Engine c33: internal/sleep WindowCalculator (NextWindow, GetWindowInfo, IsInWindow,
// TimeUntilWindow, PreviousWindow) on explicit instants.
//
//	reset <cycle ns> <window ns> <tolerance ns> <epoch ns>      -> ok  (ONE calculator for the following q ops)
//	q <agentID:32 hex> <t ns>                                    -> as w, asked of the case's calculator
//	w <agentID:32 hex> <cycle ns> <window ns> <tolerance ns> <epoch ns> <t ns>   (fresh calculator)
//	  -> ok <nextS> <nextE> <infoS> <infoE> <safeS> <safeE> <mid> <timeUntil> <active> <isIn> <tuw> <prevS> <prevE>
//
// Instants are decimal nanoseconds since the Unix epoch (arbitrary precision, may be negative).

var c33E9 = big.NewInt(1000000000)

func c33Time(ns *big.Int) time.Time {
	sec, nsec := new(big.Int), new(big.Int)
	sec.DivMod(ns, c33E9, nsec) // Euclidean: 0 <= nsec < 1e9
	return time.Unix(sec.Int64(), nsec.Int64()).UTC()
}

func c33Ns(t time.Time) string {
	v := new(big.Int).Mul(big.NewInt(t.Unix()), c33E9)
	v.Add(v, big.NewInt(int64(t.Nanosecond())))
	return v.String()
}

func c33Big(s string) *big.Int {
	v, ok := new(big.Int).SetString(s, 10)
	if !ok {
		panic("bad integer " + s)
	}
	return v
}

// c33Calc is the ONE calculator of the current case (`reset`), asked again and again by `q` ops.
var c33Calc *sleep.WindowCalculator

func c33Cfg(f []string) sleep.WindowConfig {
	return sleep.WindowConfig{
		CycleLength:    time.Duration(c33Big(f[0]).Int64()),
		WindowLength:   time.Duration(c33Big(f[1]).Int64()),
		ClockTolerance: time.Duration(c33Big(f[2]).Int64()),
		Epoch:          c33Time(c33Big(f[3])),
	}
}

func c33Run(line string) string {
	f := fields(line)
	var id identity.AgentID
	var now time.Time
	var calc *sleep.WindowCalculator
	switch {
	case len(f) == 5 && f[0] == "reset":
		c33Calc = sleep.NewWindowCalculator(c33Cfg(f[1:]))
		return "ok"
	case len(f) == 3 && f[0] == "q" && c33Calc != nil:
		copy(id[:], unhexTok(f[1]))
		now = c33Time(c33Big(f[2]))
		calc = c33Calc
	case len(f) == 7 && f[0] == "w":
		copy(id[:], unhexTok(f[1]))
		now = c33Time(c33Big(f[6]))
		calc = sleep.NewWindowCalculator(c33Cfg(f[2:6]))
	default:
		return "bad-op"
	}
	ns, ne := calc.NextWindow(id, now)
	info := calc.GetWindowInfo(id, now)
	in := calc.IsInWindow(id, now)
	tuw := calc.TimeUntilWindow(id, now)
	ps, pe := calc.PreviousWindow(id, now)
	return fmt.Sprintf("ok %s %s %s %s %s %s %s %d %v %v %d %s %s",
		c33Ns(ns), c33Ns(ne), c33Ns(info.Start), c33Ns(info.End), c33Ns(info.SafeStart), c33Ns(info.SafeEnd),
		c33Ns(info.Midpoint), int64(info.TimeUntil), info.CurrentlyActive, in, int64(tuw), c33Ns(ps), c33Ns(pe))
}

func c33Gen(w *bufio.Writer, seed int64, tier string) {
	r := newRng(seed)
	n := 1500
	if tier == "thorough" {
		n = 60000
	}
	sec := int64(time.Second)
	cycles := []int64{1, 2, 5, 6, 7, 60, 1000, sec, 60 * sec, 5 * 60 * sec, 3600 * sec, 24 * 3600 * sec, 1<<40 + 12345, 1 << 62}
	// the zero time.Time (constructor replaces it by the Unix epoch), Unix epoch, 2020, 2030, far past, odd ns
	epochs := []string{"-62135596800000000000", "0", "0", "0", "1577836800000000000", "1893456000000000000", "-5000000000000000000", "123456789"}
	for i := 0; i < n; i++ {
		C := cycles[r.intn(len(cycles))]
		if r.chance(20) {
			C = int64(r.u64()%uint64(3600*sec)) + 1
		}
		var W int64
		switch r.intn(8) {
		case 0:
			W = 0
		case 1:
			W = C - 1
		case 2:
			W = C // clamp: becomes C/6
		case 3:
			W = C + int64(r.intn(100)) // clamp
		case 4:
			W = C / 10
		default:
			W = int64(r.u64() % uint64(C))
		}
		var tol int64
		switch r.intn(6) {
		case 0:
			tol = 0
		case 1:
			tol = 1
		case 2:
			tol = C // larger than the gap between windows
		case 3:
			tol = 5 * sec
		default:
			tol = int64(r.u64() % uint64(C/4+1))
		}
		var id [16]byte
		switch r.intn(5) {
		case 0: // zero id: offset 0
		case 1: // seed = maxOffset-1 when possible (largest offset)
			copy(id[:], r.bytes(16))
		default:
			copy(id[:], r.bytes(16))
		}
		ep := c33Big(epochs[r.intn(len(epochs))])
		epEff := new(big.Int).Set(ep)
		if ep.String() == "-62135596800000000000" {
			epEff = big.NewInt(0)
		}
		// recompute what the code will use, to aim at the boundaries
		Weff := W
		if W >= C {
			Weff = C / 6
		}
		hi := uint64(0)
		lo := uint64(0)
		for j := 0; j < 8; j++ {
			hi = hi<<8 | uint64(id[j])
			lo = lo<<8 | uint64(id[8+j])
		}
		off := int64(0)
		if C-Weff > 0 {
			off = int64((hi ^ lo) % uint64(C-Weff))
		}
		// instant: around a boundary of cycle k in -3..+3 (or far away), +-1 ns
		k := int64(r.intn(7) - 3)
		if r.chance(15) {
			k = int64(r.intn(2000001) - 1000000)
		}
		if C >= 1<<40 && (k > 3 || k < -3) {
			k = int64(r.intn(7) - 3)
		}
		base := new(big.Int).Mul(big.NewInt(k), big.NewInt(C))
		base.Add(base, epEff)
		var d int64
		switch r.intn(9) {
		case 0:
			d = 0 // cycle start
		case 1:
			d = off // window start
		case 2:
			d = off + Weff // window end
		case 3:
			d = off - tol // safe start
		case 4:
			d = off + Weff + tol // safe end
		case 5:
			d = off + Weff/2
		case 6:
			d = off + Weff + tol/2 // inside the trailing tolerance
		case 7:
			d = C - 1
		default:
			d = int64(r.u64() % uint64(C))
		}
		d += int64(r.pick(-1, 0, 0, 1))
		t := new(big.Int).Add(base, big.NewInt(d))
		if r.chance(3) { // beyond the Duration range: Sub saturates
			t.Add(epEff, new(big.Int).Lsh(big.NewInt(int64(r.pick(-1, 1))), uint(r.pick(63, 64, 65))))
		}
		if r.chance(4) { // at the edges of the Duration range (+-2^63 ns from the epoch), +- a few cycles
			edge := new(big.Int).Lsh(big.NewInt(1), 63)
			if r.chance(50) {
				edge.Neg(edge)
			}
			edge.Add(edge, big.NewInt(int64(r.pick(-2, -1, 0, 1, 2))*(C%(1<<40))+int64(r.pick(-1, 0, 1))))
			t.Add(epEff, edge)
		}
		if r.chance(4) && C < 1<<40 { // very many cycles away from the epoch, on a window boundary
			kk := int64(r.u64()%(uint64(1)<<62)/uint64(C)) * int64(r.pick(-1, 1))
			far := new(big.Int).Mul(big.NewInt(kk), big.NewInt(C))
			far.Add(far, epEff)
			t.Add(far, big.NewInt(d))
		}
		fmt.Fprintf(w, "w %s %d %d %d %s %s\n", hexTok(id[:]), C, W, tol, ep.String(), t.String())
	}
	// Stateful cases: one calculator queried many times, NON-monotonically in time (later, then one or
	// more cycles earlier, the same instant twice, before the epoch) with agent ids interleaved; the
	// answer must not depend on what was asked before.
	ncase := 120
	if tier == "thorough" {
		ncase = 4000
	}
	for c := 0; c < ncase; c++ {
		C := cycles[r.intn(len(cycles)-1)] // not 2^62
		if r.chance(30) {
			C = int64(r.u64()%uint64(3600*sec)) + 1
		}
		W := int64(r.u64() % uint64(C))
		if r.chance(15) {
			W = C
		}
		tol := int64(r.u64() % uint64(C/4+1))
		ep := c33Big(epochs[r.intn(len(epochs))])
		epEff := new(big.Int).Set(ep)
		if ep.String() == "-62135596800000000000" {
			epEff = big.NewInt(0)
		}
		fmt.Fprintf(w, "reset %d %d %d %s\n", C, W, tol, ep.String())
		var ids [3][16]byte
		for j := 1; j < 3; j++ {
			copy(ids[j][:], r.bytes(16))
		}
		nid := 1 + r.intn(3)
		k := int64(r.intn(9) - 4)
		var last *big.Int
		lastID := 0
		for q := 0; q < 6+r.intn(25); q++ {
			idx := r.intn(nid)
			var t *big.Int
			switch x := r.intn(100); {
			case x < 12 && last != nil: // the same instant again (same or other agent)
				t = last
				if r.chance(70) {
					idx = lastID
				}
			case x < 45: // earlier: back by one or more cycles, or just a little
				k -= int64(r.pick(1, 1, 2, 3, 10))
				if r.chance(30) {
					idx = lastID
				}
			case x < 80: // later
				k += int64(r.pick(0, 1, 1, 2, 5))
			default: // jump across the epoch
				k = -k - int64(r.intn(2))
			}
			if t == nil {
				t = new(big.Int).Mul(big.NewInt(k), big.NewInt(C))
				t.Add(t, epEff)
				t.Add(t, big.NewInt(int64(r.u64()%uint64(C))))
				if r.chance(30) && last != nil { // exactly one or two cycles before / after the previous instant
					t = new(big.Int).Add(last, big.NewInt(C*int64(r.pick(-2, -1, -1, 1))))
				}
			}
			fmt.Fprintf(w, "q %s %s\n", hexTok(ids[idx][:]), t.String())
			last, lastID = t, idx
		}
	}
}

func init() {
	register("c33", &Engine{Run: c33Run, Gen: c33Gen})
}
