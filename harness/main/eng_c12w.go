//go:build verif && (all || c12)

package main

import (
	"fmt"
	"os"
	"strconv"
	"strings"
	"time"

	"github.com/postalsys/muti-metroo/internal/agent"
	"github.com/postalsys/muti-metroo/internal/config"
	"github.com/postalsys/muti-metroo/internal/crypto"
	"github.com/postalsys/muti-metroo/internal/identity"
	"github.com/postalsys/muti-metroo/internal/peer"
	"github.com/postalsys/muti-metroo/internal/protocol"
	"github.com/postalsys/muti-metroo/internal/routing"
)

// Op `walk <maxHops> <x> <p0-p1-...-pk>` of the flood engines (used by C12): agent x holds a learned
// route with next hop p0 and recorded path p0..pk (pk = the advertising agent). The op builds one
// REAL agent per path element (agent.New from a generated config with routing.max_hops = maxHops,
// never started: no listeners, no loops; handshake-less injected peers exactly as the relay
// engines' c16World does), lets the ingress do what Agent.dialViaMesh does — STREAM_OPEN to
// route.NextHop with RemainingPath = route.Path[1:] — and carries the frame hop by hop through
// Agent.processFrame -> handleStreamOpen. The advertising agent runs its real exit handler; the
// destination is outside its exit routes, so exit handling answers ErrNotAllowed without touching
// a socket: that answer is the proof that the open reached the origin's exit handling.
//
//	-> r=walk reached:<pk> | r=walk refused:<agent>:<code> | r=walk lost:<agent>
//
// Op `uwalk <maxHops> <x> <p0-...-pk>`: the same for UDP_OPEN, and here the ingress frame is built by
// the REAL ingress code (Agent.createDestAssociation through the accessor agent.C12UDPOpen, i.e. the
// remaining-path computation itself is exercised) on a real agent x. The advertising agent has the
// UDP relay disabled: its handleUDPOpen answers ErrUDPDisabled for an open addressed to it (empty
// remaining path) — exit-side handling reached, no socket involved.
func init() {
	c11ExtraOps["walk"] = c12Walk
	c11ExtraOps["uwalk"] = c12UWalk
}

func c12UWalk(f []string) string {
	if len(f) != 4 {
		return "r=bad"
	}
	mh, err1 := strconv.Atoi(f[1])
	x, err2 := strconv.Atoi(f[2])
	if err1 != nil || err2 != nil || mh < 0 || x < 0 || x > 250 {
		return "r=bad"
	}
	var path []int
	for _, t := range strings.Split(f[3], "-") {
		v, err := strconv.Atoi(t)
		if err != nil || v < 0 || v > 250 || v == x {
			return "r=bad"
		}
		path = append(path, v)
	}
	if len(path) == 0 || len(path) > 40 {
		return "r=bad"
	}
	origin := path[len(path)-1]
	worlds := map[int]*c16World{}
	defer func() {
		for _, w := range worlds {
			w.close()
		}
	}()
	seq := append([]int{x}, path...)
	for _, j := range seq {
		if worlds[j] == nil {
			worlds[j] = c12NewWorld(j, mh, false)
		}
	}
	for i := 0; i < len(seq); i++ {
		w := worlds[seq[i]]
		if i > 0 {
			w.connect(seq[i-1]+1, false)
		}
		if i+1 < len(seq) {
			w.connect(seq[i+1]+1, true)
		}
	}
	// the ingress: real createDestAssociation on the learned route
	ids := make([]identity.AgentID, len(path))
	for i, p := range path {
		ids[i] = c16ID(p + 1)
	}
	route := &routing.Route{NextHop: ids[0], OriginAgent: ids[len(ids)-1], Path: ids, Metric: uint16(len(ids))}
	agent.C12UDPOpen(worlds[x].a, route)
	var frame *protocol.Frame
	for _, s := range worlds[x].drain() {
		if s.f.Type == protocol.FrameUDPOpen && s.peer == path[0]+1 {
			frame = s.f
		}
	}
	if frame == nil {
		return fmt.Sprintf("r=walk lost:%d", x)
	}
	from := x
	for i := 0; i < len(path); i++ {
		cur := path[i]
		w := worlds[cur]
		w.drain()
		agent.C16Process(w.a, c16ID(from+1), frame)
		last := i == len(path)-1
		var next *protocol.Frame
		for _, s := range w.drain() {
			switch {
			case s.f.Type == protocol.FrameUDPOpenErr && s.peer == from+1:
				e, err := protocol.DecodeUDPOpenErr(s.f.Payload)
				if err != nil {
					return fmt.Sprintf("r=walk lost:%d", cur)
				}
				if last && e.ErrorCode == protocol.ErrUDPDisabled {
					return fmt.Sprintf("r=walk reached:%d", cur)
				}
				return fmt.Sprintf("r=walk refused:%d:%d", cur, e.ErrorCode)
			case s.f.Type == protocol.FrameUDPOpen && !last && s.peer == path[i+1]+1:
				next = s.f
			}
		}
		if next == nil {
			return fmt.Sprintf("r=walk lost:%d", cur)
		}
		frame, from = next, cur
	}
	return "r=walk lost:" + strconv.Itoa(origin)
}

func c12NewWorld(idx, maxHops int, isExit bool) *c16World {
	dir, err := os.MkdirTemp("", "verif-c12w-")
	must(err)
	cfg := config.Default()
	cfg.Agent.ID = c16ID(idx + 1).String()
	cfg.Agent.DataDir = dir
	cfg.Agent.LogLevel = "error"
	if maxHops > 0 {
		cfg.Routing.MaxHops = maxHops
	} else {
		cfg.Routing.MaxHops = 255
	}
	cfg.UDP.Enabled = false
	if isExit {
		cfg.Exit.Enabled = true
		cfg.Exit.Routes = []string{"127.0.0.0/8"}
	}
	a, err := agent.New(cfg)
	must(err)
	return &c16World{a: a, dir: dir, self: c16ID(idx + 1), bufs: map[int]*c16Buf{}, conns: map[int]*peer.Connection{}}
}

func c12Walk(f []string) string {
	if len(f) != 4 {
		return "r=bad"
	}
	mh, err1 := strconv.Atoi(f[1])
	x, err2 := strconv.Atoi(f[2])
	if err1 != nil || err2 != nil || mh < 0 || x < 0 {
		return "r=bad"
	}
	var path []int
	for _, t := range strings.Split(f[3], "-") {
		v, err := strconv.Atoi(t)
		if err != nil || v < 0 || v > 250 {
			return "r=bad"
		}
		path = append(path, v)
	}
	if len(path) == 0 || len(path) > 40 {
		return "r=bad"
	}
	origin := path[len(path)-1]
	worlds := map[int]*c16World{}
	defer func() {
		for _, w := range worlds {
			if h := agent.C16StartExit(w.a); h != nil {
				h.Stop()
			}
			w.close()
		}
	}()
	seq := append([]int{x}, path...)
	for i := 1; i < len(seq); i++ {
		j := seq[i]
		if worlds[j] == nil {
			worlds[j] = c12NewWorld(j, mh, j == origin)
			if j == origin {
				agent.C16StartExit(worlds[j].a)
			}
		}
	}
	// peers: every agent on the path is connected to its predecessor and successor
	for i := 1; i < len(seq); i++ {
		w := worlds[seq[i]]
		w.connect(seq[i-1]+1, false)
		if i+1 < len(seq) {
			w.connect(seq[i+1]+1, true)
		}
	}
	_, pub, err := crypto.GenerateEphemeralKeypair()
	must(err)
	remaining := make([]identity.AgentID, 0, len(path))
	for _, p := range path[1:] {
		remaining = append(remaining, c16ID(p+1))
	}
	open := &protocol.StreamOpen{RequestID: 77, AddressType: protocol.AddrTypeIPv4, Address: []byte{10, 9, 9, 9}, Port: 80,
		RemainingPath: remaining, EphemeralPubKey: pub}
	frame := &protocol.Frame{Type: protocol.FrameStreamOpen, StreamID: 1, Payload: open.Encode()}
	from := x
	for i := 0; i < len(path); i++ {
		cur := path[i]
		w := worlds[cur]
		w.drain()
		agent.C16Process(w.a, c16ID(from+1), frame)
		last := i == len(path)-1
		if last {
			// the exit handler answers asynchronously
			deadline := time.Now().Add(5 * time.Second)
			for w.bufs[from+1].Len() == 0 && time.Now().Before(deadline) {
				time.Sleep(200 * time.Microsecond)
			}
		}
		var next *protocol.Frame
		for _, s := range w.drain() {
			switch {
			case s.f.Type == protocol.FrameStreamOpenErr && s.peer == from+1:
				e, err := protocol.DecodeStreamOpenErr(s.f.Payload)
				if err != nil {
					return fmt.Sprintf("r=walk lost:%d", cur)
				}
				if last && e.ErrorCode == protocol.ErrNotAllowed {
					return fmt.Sprintf("r=walk reached:%d", cur)
				}
				return fmt.Sprintf("r=walk refused:%d:%d", cur, e.ErrorCode)
			case s.f.Type == protocol.FrameStreamOpen && !last && s.peer == path[i+1]+1:
				next = s.f
			}
		}
		if next == nil {
			return fmt.Sprintf("r=walk lost:%d", cur)
		}
		fo, err := protocol.DecodeStreamOpen(next.Payload)
		if err != nil || len(fo.RemainingPath) != len(path)-i-2 {
			return fmt.Sprintf("r=walk lost:%d", cur)
		}
		frame, from = next, cur
	}
	return "r=walk lost:" + strconv.Itoa(origin)
}
