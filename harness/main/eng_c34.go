//go:build verif && (all || c34)

package main

import (
	"bufio"
	"bytes"
	"context"
	"crypto/sha256"
	"encoding/json"
	"fmt"
	"os"
	"os/exec"
	"path/filepath"
	"runtime"
	"strconv"
	"strings"
	"syscall"
	"time"

	"github.com/postalsys/muti-metroo/internal/config"
	"github.com/postalsys/muti-metroo/internal/identity"
	"github.com/postalsys/muti-metroo/internal/sleep"
)

// Engine c34: the persistent files of the data directory (agent_id, agent_key, agent_key.pub,
// sleep_state.json and their .tmp siblings) under process kills.
//
// A directory state is 9 tokens: d0|d1 and one token per file, in the order of c34Names:
//   -        absent            e        empty (just truncated)
//   w<v>     complete rendering of value tag v         c<v>.<k>  first k bytes of it       j   junk    J  long junk (input only)
// value tags 1..9 are fixed test values; 900.. are values generated (crypto/rand) by the code
// under test, numbered in order of first appearance (ids even, keys odd; 90x during the killed
// run, 91x during the recovery start). A public-key file with tag v holds the public key
// derived from private key v. Sleep tag w = state + 4*command_seq.
//
//   start <S>                      -> <R> ; <S'>       R = fail | id=<v> priv=<v> pubok=<0|1> sleep=<v|none>
//   storeid <v> <S>                -> ok|err ; <S'>
//   persist <w> <S>                -> ok|err ; <S'>
//   crash <class> <N> <action..> <S>
//        the action (start | storeid v | persist w | persistseq w1 w2 w3 | startpersist w) runs in a CHILD PROCESS under
//        `strace -f -e inject=<class>:signal=KILL:when=N` (killed on entry of the N-th call of
//        that class: open|write|rename|mkdir|close|unlink); then this process performs a start.
//                                  -> killed|clean <S1> ; <R> ; <S2>
//   child <action..> <dir>         (internal: what the child process executes)

var c34Names = []string{"agent_id", "agent_id.tmp", "agent_key", "agent_key.tmp", "agent_key.pub", "agent_key.pub.tmp", "sleep_state.json", "sleep_state.json.tmp"}
var c34Kind = []int{0, 0, 1, 1, 2, 2, 3, 3} // 0 id, 1 private key, 2 public key, 3 sleep state

func c34ID(v int) identity.AgentID {
	var id identity.AgentID
	for i := range id {
		id[i] = byte(v)
	}
	id[0] = 0xa0
	return id
}

func c34Priv(v int) [identity.KeySize]byte {
	k := sha256.Sum256([]byte(fmt.Sprintf("verif c34 private key %d", v)))
	k[0] &= 248
	k[31] &= 127
	k[31] |= 64
	return k
}

func c34SleepJSON(w int) []byte {
	b, err := json.MarshalIndent(sleep.PersistedState{State: sleep.State(w % 4), CommandSeq: uint64(w / 4)}, "", "  ")
	must(err)
	return b
}

// c34Render: the bytes the code under test writes for value tag v into a file of the given kind.
func c34Render(kind, v int) []byte {
	switch kind {
	case 0:
		return []byte(c34ID(v).String() + "\n")
	case 1:
		return []byte(identity.KeyToString(c34Priv(v)) + "\n")
	case 2:
		return []byte(identity.KeyToString(identity.DerivePublicKey(c34Priv(v))) + "\n")
	default:
		return c34SleepJSON(v)
	}
}

func c34Bytes(kind int, tok string) []byte {
	switch {
	case tok == "e":
		return []byte{}
	case tok == "j":
		return []byte("zz-not-a-value\n")
	case tok == "J": // junk LONGER than any rendering (a writer that does not truncate leaves its tail behind)
		return []byte(strings.Repeat("zz-not-a-value-", 20) + "\n")
	case strings.HasPrefix(tok, "w"):
		v, err := strconv.Atoi(tok[1:])
		must(err)
		return c34Render(kind, v)
	case strings.HasPrefix(tok, "c"):
		parts := strings.SplitN(tok[1:], ".", 2)
		v, err := strconv.Atoi(parts[0])
		must(err)
		k, err := strconv.Atoi(parts[1])
		must(err)
		r := c34Render(kind, v)
		if k > len(r)-1 {
			k = len(r) - 1
		}
		return r[:k]
	}
	panic("bad content token " + tok)
}

// c34World is one data directory plus the bookkeeping needed to print it canonically.
type c34World struct {
	root, dir string
	wrote     map[string]string // file name -> token written at setup
	wroteB    map[string][]byte
	fresh     map[string]int          // hex of a generated id / private key -> tag
	freshKeys map[int][identity.KeySize]byte
	phase     int // 0: killed run (tags 90x), 1: recovery start (tags 91x)
	next      [2][2]int
}

func c34NewWorld(state []string) *c34World {
	root, err := os.MkdirTemp("", "verif-c34-")
	must(err)
	w := &c34World{root: root, dir: filepath.Join(root, "data"), wrote: map[string]string{}, wroteB: map[string][]byte{},
		fresh: map[string]int{}, freshKeys: map[int][identity.KeySize]byte{}}
	w.next = [2][2]int{{900, 901}, {910, 911}}
	if len(state) != 9 {
		panic("state needs 9 tokens")
	}
	if state[0] == "d1" {
		must(os.Mkdir(w.dir, 0o700))
		for i, name := range c34Names {
			if state[i+1] == "-" {
				continue
			}
			b := c34Bytes(c34Kind[i], state[i+1])
			must(os.WriteFile(filepath.Join(w.dir, name), b, 0o600))
			w.wrote[name] = state[i+1]
			w.wroteB[name] = b
			w.adopt(c34Kind[i], state[i+1])
		}
	}
	return w
}

func (w *c34World) close() { os.RemoveAll(w.root) }

// adopt: a state token with a value tag outside the fixed table (>= 10; e.g. a state a real kill left behind,
// fed back as the start state of the next process) names the deterministic test value of that tag; make the
// reverse lookup know it, so that the value is printed under the same tag again.
func (w *c34World) adopt(kind int, tok string) {
	if kind == 3 || len(tok) < 2 || (tok[0] != 'w' && tok[0] != 'c') {
		return
	}
	v, err := strconv.Atoi(strings.SplitN(tok[1:], ".", 2)[0])
	if err != nil || v < 10 {
		return
	}
	if kind == 0 {
		w.fresh[fmt.Sprint(0, c34ID(v).String())] = v
		return
	}
	k := c34Priv(v)
	w.fresh[fmt.Sprint(1, identity.KeyToString(k))] = v
	w.freshKeys[v] = k
}

func (w *c34World) freshTag(kind int, hexv string) int {
	if t, ok := w.fresh[fmt.Sprint(kind, hexv)]; ok {
		return t
	}
	t := w.next[w.phase][kind]
	w.next[w.phase][kind] += 2
	w.fresh[fmt.Sprint(kind, hexv)] = t
	return t
}

func (w *c34World) idTag(id identity.AgentID) int {
	for v := 1; v <= 9; v++ {
		if id == c34ID(v) {
			return v
		}
	}
	return w.freshTag(0, id.String())
}

func (w *c34World) privTag(k [identity.KeySize]byte) int {
	for v := 1; v <= 9; v++ {
		if k == c34Priv(v) {
			return v
		}
	}
	t := w.freshTag(1, identity.KeyToString(k))
	w.freshKeys[t] = k
	return t
}

func (w *c34World) classify(kind int, b []byte) string {
	if len(b) == 0 {
		return "e"
	}
	s := string(b)
	switch kind {
	case 0:
		if id, err := identity.ParseAgentID(strings.TrimSpace(s)); err == nil && s == id.String()+"\n" {
			return fmt.Sprintf("w%d", w.idTag(id))
		}
	case 1:
		if k, err := identity.ParseKey(strings.TrimSpace(s)); err == nil && s == identity.KeyToString(k)+"\n" {
			return fmt.Sprintf("w%d", w.privTag(k))
		}
	case 2:
		for v := 1; v <= 9; v++ {
			if bytes.Equal(b, c34Render(2, v)) {
				return fmt.Sprintf("w%d", v)
			}
		}
		for t, k := range w.freshKeys {
			if s == identity.KeyToString(identity.DerivePublicKey(k))+"\n" {
				return fmt.Sprintf("w%d", t)
			}
		}
	case 3:
		var st sleep.PersistedState
		if err := json.Unmarshal(b, &st); err == nil && st.State <= 2 {
			t := int(st.State) + 4*int(st.CommandSeq)
			if bytes.Equal(b, c34SleepJSON(t)) {
				return fmt.Sprintf("w%d", t)
			}
		}
	}
	return "j"
}

// state prints the directory. Files whose bytes are what setup wrote keep their token.
func (w *c34World) state() string {
	if _, err := os.Stat(w.dir); err != nil {
		return "d0 - - - - - - - -"
	}
	ents, err := os.ReadDir(w.dir)
	must(err)
	for _, e := range ents { // a name outside the modelled set is reported, never ignored
		known := false
		for _, n := range c34Names {
			known = known || n == e.Name()
		}
		if !known {
			return "d1 unexpected-file:" + e.Name()
		}
	}
	toks := make([]string, 8)
	// private-key files first: their values are needed to recognise derived public keys
	for _, i := range []int{2, 3, 0, 1, 4, 5, 6, 7} {
		name := c34Names[i]
		b, err := os.ReadFile(filepath.Join(w.dir, name))
		if err != nil {
			toks[i] = "-"
			continue
		}
		if wb, ok := w.wroteB[name]; ok && bytes.Equal(wb, b) {
			toks[i] = w.wrote[name]
			if toks[i] == "J" {
				toks[i] = "j"
			}
			if c34Kind[i] == 1 { // register a fresh-looking value only via classify
				_ = w.classify(1, b)
			}
			continue
		}
		toks[i] = w.classify(c34Kind[i], b)
	}
	return "d1 " + strings.Join(toks, " ")
}

func c34SleepCfg() config.SleepConfig {
	return config.SleepConfig{Enabled: true, PersistState: true}
}

// start: what agent.New / agent.Start do with the data directory.
func (w *c34World) start() string {
	id, _, err := identity.LoadOrCreate(w.dir)
	if err != nil {
		return "fail"
	}
	kp, _, err := identity.LoadOrCreateKeypair(w.dir)
	if err != nil {
		return "fail"
	}
	pubok := 0
	if kp.PublicKey == identity.DerivePublicKey(kp.PrivateKey) {
		pubok = 1
	}
	m := sleep.NewManager(c34SleepCfg(), w.dir, nil)
	sl := "none"
	if err := m.LoadState(); err == nil {
		sl = strconv.Itoa(int(m.GetState()) + 4*int(sleep.VerifC34Seq(m)))
	}
	return fmt.Sprintf("id=%d priv=%d pubok=%d sleep=%s", w.idTag(id), w.privTag(kp.PrivateKey), pubok, sl)
}

// c34Act performs one writer action on a directory (used in-process and by the child).
func c34Act(dir string, act []string) error {
	switch act[0] {
	case "start":
		if _, _, err := identity.LoadOrCreate(dir); err != nil {
			return err
		}
		_, _, err := identity.LoadOrCreateKeypair(dir)
		return err
	case "storeid":
		v, err := strconv.Atoi(act[1])
		must(err)
		return c34ID(v).Store(dir)
	case "persist":
		v, err := strconv.Atoi(act[1])
		must(err)
		m := sleep.NewManager(c34SleepCfg(), dir, nil)
		return sleep.VerifC34Persist(m, sleep.State(v%4), uint64(v/4))
	case "persistseq": // a long-running agent: ONE sleep manager saves three times
		m := sleep.NewManager(c34SleepCfg(), dir, nil)
		var last error
		for _, t := range act[1:4] {
			v, err := strconv.Atoi(t)
			must(err)
			last = sleep.VerifC34Persist(m, sleep.State(v%4), uint64(v/4))
		}
		return last
	case "startpersist": // first start of an agent that then saves its sleep state, in one process
		if err := c34Act(dir, []string{"start"}); err != nil {
			return err
		}
		return c34Act(dir, []string{"persist", act[1]})
	}
	panic("bad action " + act[0])
}

func c34ActLen(act string) int {
	switch act {
	case "start":
		return 1
	case "persistseq":
		return 4
	}
	return 2
}

var c34Classes = map[string][]string{
	"open":   {"openat", "open", "creat"},
	"write":  {"write", "pwrite64", "writev"},
	"rename": {"renameat", "renameat2", "rename"},
	"mkdir":  {"mkdirat", "mkdir"},
	"close":  {"close"},
	"unlink": {"unlinkat", "unlink"},
}

func c34Syscalls(class string) string {
	names := c34Classes[class]
	if names == nil {
		panic("bad syscall class " + class)
	}
	var out []string
	for _, n := range names {
		if runtime.GOARCH != "amd64" && (n == "open" || n == "creat" || n == "rename" || n == "mkdir" || n == "unlink") {
			continue // not present on the newer syscall tables
		}
		out = append(out, n)
	}
	return strings.Join(out, ",")
}

func c34Run(line string) string {
	f := fields(line)
	switch f[0] {
	case "child": // child <action..> <dir>
		runtime.LockOSThread() // strace counts calls per thread
		n := c34ActLen(f[1])
		if err := c34Act(f[1+n], f[1:1+n]); err != nil {
			return "child-err"
		}
		return "child-ok"
	case "start":
		w := c34NewWorld(f[1:])
		defer w.close()
		w.phase = 1
		r := w.start()
		return r + " ; " + w.state()
	case "storeid", "persist":
		w := c34NewWorld(f[2:])
		defer w.close()
		w.phase = 1
		res := "ok"
		if err := c34Act(w.dir, f[:2]); err != nil {
			res = "err"
		}
		return res + " ; " + w.state()
	case "crash": // crash <class> <N> <action..> <S>
		class, n := f[1], f[2]
		an := c34ActLen(f[3])
		act := f[3 : 3+an]
		w := c34NewWorld(f[3+an:])
		self, err := os.Executable()
		must(err)
		sc := c34Syscalls(class)
		// Outcomes of the traced child:
		//   killed   strace injected SIGKILL on entry of the N-th call of the class (strace then dies by the same signal)
		//   clean    the child ran to completion before an N-th such call: `child-ok`, or `child-err` when the action
		//            itself reported an error without being killed (e.g. every save fails in a missing data directory)
		//   anything else = the child could not be started / traced (strace or ptrace failure, timeout): machinery,
		//            retried up to 3 times on a FRESH copy of the initial directory state.
		how, fail := "", ""
		for try := 0; try < 3 && how == ""; try++ {
			if try > 0 {
				w.close()
				w = c34NewWorld(f[3+an:])
			}
			ctx, cancel := context.WithTimeout(context.Background(), 120*time.Second)
			cmd := exec.CommandContext(ctx, "strace", "-f", "-o", "/dev/null", "-e", "trace="+sc, "-e", "inject="+sc+":signal=KILL:when="+n, self, "c34", "run")
			cmd.Stdin = strings.NewReader("child " + strings.Join(act, " ") + " " + w.dir + "\n")
			out, err := cmd.Output()
			timedOut := ctx.Err() != nil
			cancel()
			text := string(out)
			switch {
			case timedOut:
				fail = "timeout"
			case err == nil && (strings.Contains(text, "child-ok") || strings.Contains(text, "child-err")):
				how = "clean"
			case err == nil:
				fail = "no-answer:" + text
			default:
				ee, ok := err.(*exec.ExitError)
				if ok {
					if ws, ok2 := ee.Sys().(syscall.WaitStatus); ok2 && ((ws.Signaled() && ws.Signal() == syscall.SIGKILL) || ws.ExitStatus() == 137) {
						how = "killed"
						break
					}
					fail = err.Error() + ":" + string(ee.Stderr)
				} else {
					fail = err.Error()
				}
			}
		}
		defer func() { w.close() }()
		if how == "" {
			return "strace-failed " + strings.ReplaceAll(strings.TrimSpace(fail), " ", "_")
		}
		w.phase = 0
		s1 := w.state()
		w.phase = 1
		r := w.start()
		return how + " " + s1 + " ; " + r + " ; " + w.state()
	}
	return "bad-op"
}

func c34GenState(r *rng, good bool) string {
	if r.chance(8) {
		return "d0 - - - - - - - -"
	}
	lens := []int{33, 65, 65, 64}
	val := func() int { return r.pick(1, 2, 3) }
	anyTok := func(kind int) string {
		switch r.intn(10) {
		case 0, 1, 2, 3:
			return "-"
		case 4, 5, 6:
			return fmt.Sprintf("w%d", val())
		case 7:
			return "e"
		case 8:
			return fmt.Sprintf("c%d.%d", val(), r.pick(1, 2, lens[kind]/2, lens[kind]-2, lens[kind]-1))
		default:
			return r.pickS("j", "J")
		}
	}
	t := make([]string, 8)
	for i := range t {
		t[i] = anyTok(c34Kind[i])
	}
	if good {
		// final names as crashes of the real writers leave them
		t[0] = r.pickS("-", "w1", "w2")
		switch r.intn(3) {
		case 0:
			t[2], t[4] = "-", "-"
		case 1:
			k := val()
			t[2], t[4] = fmt.Sprintf("w%d", k), "-"
		default:
			k := val()
			t[2], t[4] = fmt.Sprintf("w%d", k), fmt.Sprintf("w%d", k)
		}
		t[6] = r.pickS("-", "w1", "w5", "w6", "w9", "w42")
	} else if r.chance(50) {
		// sleep values must be renderable: state <= 2
		t[6] = r.pickS("-", "w1", "w2", "e", "c5.10", "c5.63", "j", "w41")
	}
	// renderings of different LENGTHS: command_seq 1234567890 is 9 bytes longer than command_seq 1
	if r.chance(35) {
		t[7] = r.pickS("w4938271561", "w4938271562", "c4938271561.63", "J")
	}
	if !good && r.chance(15) {
		t[6] = "w4938271561"
	}
	for _, i := range []int{6, 7} { // sleep tags with state 3 do not exist
		if strings.HasPrefix(t[i], "w3") || strings.HasPrefix(t[i], "c3") {
			t[i] = "w5"
		}
	}
	return "d1 " + strings.Join(t, " ")
}

func init() {
	register("c34", &Engine{
		Run: c34Run,
		Gen: func(w *bufio.Writer, seed int64, tier string) {
			r := newRng(seed)
			n := 500
			if tier == "thorough" {
				n = 6000
			}
			for i := 0; i < n; i++ {
				s := c34GenState(r, r.chance(50))
				switch r.intn(10) {
				case 0, 1:
					fmt.Fprintf(w, "persist %d %s\n", r.pick(0, 1, 2, 5, 6, 9, 13, 41, 4938271561), s)
				case 2:
					fmt.Fprintf(w, "storeid %d %s\n", r.pick(1, 2, 4), s)
				default:
					fmt.Fprintf(w, "start %s\n", s)
				}
			}
		},
	})
}
